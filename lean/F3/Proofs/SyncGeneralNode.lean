import F3.Proofs.SyncGeneralVotes
/-!
# One honest node in a synchronous, failure-free run with arbitrary inputs

Generalisation of `SyncNode.lean`: node `p` holds input `inp p`; it PREPAREs `propOf p` (the longest quorum-supported
prefix of its own input), COMMITs `cvOf p` (the longest quorum prefix `P*` if that is what it proposed, bottom
otherwise) and DECIDEs `P*`. `GInv`: phase-independent shape of the state; `GPI`: "had the node been able to leave
its phase it would have"; `GGood`: what every API call of the model guarantees.
-/
namespace F3.SyncGeneral
open F3.Instance F3.Net F3.Sync

section Defs
variable (t : Table) (H : List Pid) (inp : Pid → Chain)

/-- wire messages of the run: QUALITY(input), PREPARE(`propOf`), COMMIT(`cvOf`, justified by PREPAREs for `P*`
unless bottom), DECIDE(`P*`, justified by COMMITs for `P*`), all of round 0 -/
def GShape (m : Msg) : Prop :=
  m.round = 0 ∧ m.suppOk = true ∧ m.instOk = true ∧
  match m.phase with
  | .quality => m.value = inp m.sender ∧ m.just = none
  | .prepare => m.value = propOf t H inp m.sender ∧ m.just = none
  | .commit => m.value = cvOf t H inp m.sender ∧
      (m.value ≠ [] → ∃ j, m.just = some j ∧ JustFor (longestQuorumPrefix t H inp) .prepare j)
  | .decide => m.value = longestQuorumPrefix t H inp ∧
      ∃ j, m.just = some j ∧ JustFor (longestQuorumPrefix t H inp) .commit j
  | _ => False

/-- what a single API call does to the phase, and what it puts on the wire -/
inductive GTrans (p : Pid) : Phase → Phase → List Msg → Prop
  | same (a : Phase) : GTrans p a a []
  | start : GTrans p .initial .quality [mkMsg p .quality (inp p) none]
  | q2p : GTrans p .quality .prepare [mkMsg p .prepare (propOf t H inp p) none]
  | p2c (j : Option Just)
      (hj : cvOf t H inp p ≠ [] → ∃ j', j = some j' ∧ JustFor (longestQuorumPrefix t H inp) .prepare j') :
      GTrans p .prepare .commit [mkMsg p .commit (cvOf t H inp p) j]
  | x2d (a b : Phase) (ha : a = .quality ∨ a = .prepare ∨ a = .commit) (hb : b = .decide ∨ b = .terminated)
      (j : Just) (hj : JustFor (longestQuorumPrefix t H inp) .commit j) :
      GTrans p a b [mkMsg p .decide (longestQuorumPrefix t H inp) (some j)]
  | d2t : GTrans p .decide .terminated []

/-- phase-independent shape of the state of node `p` -/
structure GInv (p : Pid) (s : State) : Prop where
  tbl : s.tbl = t
  input : s.input = inp p
  round : s.round = 0
  rounds : s.rounds = [(0, s.getRound 0)]
  propQ : s.phase = .initial ∨ s.phase = .quality → s.proposal = inp p
  propP : s.phase = .prepare ∨ s.phase = .commit → s.proposal = propOf t H inp p
  qt : QG t inp H s.quality
  prep : GT t (propOf t H inp) H (s.getRound 0).prepared
  comm : GT t (cvOf t H inp) H (s.getRound 0).committed
  cjust : ∀ e ∈ (s.getRound 0).committed.justs,
    e.1 = longestQuorumPrefix t H inp ∧ JustFor (longestQuorumPrefix t H inp) .prepare e.2
  dec : GT t (fun _ => longestQuorumPrefix t H inp) H s.decision
  term : ∀ d, s.termination = some d → d.value = longestQuorumPrefix t H inp

/-- in QUALITY: no quorum for the own input yet -/
def B1 (p : Pid) (s : State) : Prop := s.quality.hasStrongFor (inp p) = false
/-- in PREPARE with the own PREPARE tallied: neither a quorum for the proposal nor its impossibility -/
def B2 (p : Pid) (s : State) : Prop :=
  p ∈ (s.getRound 0).prepared.senders →
    (s.getRound 0).prepared.hasStrongFor (propOf t H inp p) = false ∧
    (s.getRound 0).prepared.couldReach t (propOf t H inp p) false = true

def GPI (p : Pid) (s : State) : Phase → Prop
  | .initial => B1 inp p s ∧ A2 p s ∧ A3 (longestQuorumPrefix t H inp) s ∧ A4 s
  | .quality => B1 inp p s ∧ A2 p s ∧ A3 (longestQuorumPrefix t H inp) s ∧ A4 s
  | .prepare => B2 t H inp p s ∧ A3 (longestQuorumPrefix t H inp) s ∧ A4 s
  | .commit => A3 (longestQuorumPrefix t H inp) s ∧ A4 s
  | .decide => A5 (longestQuorumPrefix t H inp) s
  | .terminated => ∃ d, s.termination = some d
  | .converge => False

/-- what one call of a model function guarantees -/
structure GGood (p : Pid) (s : State) (r : R) : Prop where
  nofail : hasFailure r.2 = false
  inv : GInv t H inp p r.1
  pi : GPI t H inp p r.1 r.1.phase
  mono : ∀ ph x, x ∈ sendersOf s ph → x ∈ sendersOf r.1 ph
  trans : GTrans t H inp p s.phase r.1.phase (sent p r.2)

end Defs

section
variable {t : Table} {H : List Pid} {inp : Pid → Chain} {b : Nat}

local notation "PS" => longestQuorumPrefix t H inp

theorem GInv.core {p : Pid} {s s' : State} (h : GInv t H inp p s) (hc : Core s s')
    (hq : s'.phase = .initial ∨ s'.phase = .quality → s'.proposal = inp p)
    (hp : s'.phase = .prepare ∨ s'.phase = .commit → s'.proposal = propOf t H inp p) : GInv t H inp p s' := by
  obtain ⟨h1, h2, h3, h4, h5, h6, h7⟩ := hc.fields
  have hg := hc.getRound 0
  exact ⟨h1 ▸ h.tbl, h2 ▸ h.input, h3 ▸ h.round, by rw [h4, hg]; exact h.rounds, hq, hp, h5 ▸ h.qt, hg ▸ h.prep,
    hg ▸ h.comm, hg ▸ h.cjust, h6 ▸ h.dec, h7 ▸ h.term⟩

theorem GInv.getRound1 {p : Pid} {s : State} (h : GInv t H inp p s) : s.getRound 1 = {} := by
  unfold State.getRound
  rw [h.rounds]
  rfl

theorem GPI.core {p : Pid} {s s' : State} {ph : Phase} (h : GPI t H inp p s ph) (hc : Core s s') :
    GPI t H inp p s' ph := by
  obtain ⟨_, _, _, _, hq, hd, ht⟩ := hc.fields
  have hg := hc.getRound 0
  cases ph <;> simp only [GPI, B1, B2, A2, A3, A4, A5, hg, hq, hd, ht] at h ⊢ <;> exact h

theorem GGood.of_core {p : Pid} {s s' : State} {es : List Eff} (hs : GInv t H inp p s) (hc : Core s s')
    (hq : s'.phase = .initial ∨ s'.phase = .quality → s'.proposal = inp p)
    (hp : s'.phase = .prepare ∨ s'.phase = .commit → s'.proposal = propOf t H inp p)
    (hpi : GPI t H inp p s s'.phase) (hnf : hasFailure es = false)
    (htr : GTrans t H inp p s.phase s'.phase (sent p es)) : GGood t H inp p s (s', es) :=
  ⟨hnf, hs.core hc hq hp, hpi.core hc, fun ph x hx => by rw [sendersOf_core hc]; exact hx, htr⟩

theorem GGood.pre {p : Pid} {s s1 : State} {r : R} (hph : s.phase = s1.phase)
    (hm : ∀ ph x, x ∈ sendersOf s ph → x ∈ sendersOf s1 ph) (g : GGood t H inp p s1 r) : GGood t H inp p s r :=
  ⟨g.nofail, g.inv, g.pi, fun ph x hx => g.mono ph x (hm ph x hx), hph ▸ g.trans⟩

theorem GGood.stay {p : Pid} {s : State} (hs : GInv t H inp p s) (hpi : GPI t H inp p s s.phase) :
    GGood t H inp p s (s, []) :=
  GGood.of_core hs (Core.refl s) hs.propQ hs.propP hpi rfl (GTrans.same _)

theorem tryRebroadcast_proposal (s : State) (now : Int) : (s.tryRebroadcast now).1.proposal = s.proposal := by
  unfold State.tryRebroadcast State.resetReb
  dsimp only
  repeat' (first | rfl | split)

theorem GGood.reb {p : Pid} {s : State} (now : Int) (hs : GInv t H inp p s) (hpi : GPI t H inp p s s.phase) :
    GGood t H inp p s (s.tryRebroadcast now) := by
  have hq := tryRebroadcast_quiet s now
  have hph := tryRebroadcast_phase' s now
  have hpr := tryRebroadcast_proposal s now
  refine GGood.of_core (s' := (s.tryRebroadcast now).1) (es := (s.tryRebroadcast now).2) hs
    (tryRebroadcast_core s now) (by rw [hph, hpr]; exact hs.propQ) (by rw [hph, hpr]; exact hs.propP)
    (by rw [hph]; exact hpi) (quiet_nofail _ hq) ?_
  rw [quiet_sent p _ hq, hph]
  exact GTrans.same _

/-! ## QUALITY -/

theorem tryQuality_ggood (g : GCtx t H inp b) {p : Pid} (hpH : p ∈ H) {s : State} (now : Int) (hs : GInv t H inp p s)
    (hph : s.phase = .quality) (h2 : A2 p s) (h3 : A3 PS s) (h4 : A4 s)
    (hsync : s.phaseTimeoutElapsed now = true → ∀ h ∈ H, h ∈ s.quality.senders) :
    GGood t H inp p s (s.tryQuality now) := by
  have hprop := hs.propQ (Or.inr hph)
  by_cases hcond : (s.quality.hasStrongFor s.proposal || s.phaseTimeoutElapsed now) = true
  · have hl : s.quality.longestPrefixWithQuorum s.input = propOf t H inp p := by
      rw [hs.input]
      rw [hprop, Bool.or_eq_true] at hcond
      rcases hcond with hf | he
      · exact hs.qt.lpq_found g hpH hf
      · exact hs.qt.lpq_all g hpH (hsync he)
    obtain ⟨cs, heq⟩ := tryQuality_go s now hph hcond
    rw [heq, hl]
    refine GGood.of_core hs (by core_rfl) (fun h => by rcases h with h | h <;> cases h) (fun _ => rfl) ?_ rfl ?_
    · exact ⟨fun hp => absurd hp h2, h3, h4⟩
    · show GTrans t H inp p s.phase .prepare (sent p [_, _, Eff.broadcast s.round .prepare (propOf t H inp p) false none])
      rw [hph, hs.round]
      exact GTrans.q2p
  · rw [tryQuality_stay s now hph hcond]
    have hnf : s.quality.hasStrongFor (inp p) = false := by
      rw [hprop] at hcond
      cases hq : s.quality.hasStrongFor (inp p)
      · rfl
      · rw [hq] at hcond; simp at hcond
    exact GGood.stay hs (by rw [hph]; exact ⟨hnf, h2, h3, h4⟩)

/-! ## PREPARE -/

theorem getJustOf_mem (T : Tally) (ph : Phase) (k : Chain) (j : Just) (hk : k ≠ []) (h : T.getJustOf ph k = some j) :
    (k, j) ∈ T.justs := by
  unfold Tally.getJustOf at h
  rw [if_neg (by simp [isEmpty_false_of_ne hk])] at h
  split at h
  · rename_i e he
    split at h
    · cases h
      have h1 := List.mem_of_find?_eq_some he
      have h2 := List.find?_some he
      simp only [beq_iff_eq] at h2
      rw [← h2]
      exact h1
    · cases h
  · cases h

theorem prepFoundJust_eq {p : Pid} {s : State} (hs : GInv t H inp p s) :
    s.prepFoundJust = ((s.getRound 0).committed.getJustOf .prepare s.proposal).isSome := by
  unfold State.prepFoundJust
  rw [hs.round]
  simp only [Nat.zero_add, hs.getRound1]
  rw [getJustOf_empty, conv_getJustOf_empty]
  simp

theorem prepareValue_bottom (s : State) (now : Int) (h1 : (s.prepFoundQuorum || s.prepFoundJust) = false)
    (h2 : (s.prepNotPossible || s.prepComplete now) = true) : s.prepareValue now = { s with value := [] } := by
  unfold State.prepareValue
  rw [if_neg (by simp [h1]), if_pos h2]

theorem beginCommit_bottom (s : State) (now : Int) (hv : s.value = []) :
    s.beginCommit now =
      ({ s with phase := .commit, phaseTimeout := now + s.roundTimeout, rebAttempts := 0, rebTimeout := none },
       [.progress s.round .commit, .setAlarm (now + s.roundTimeout), .broadcast s.round .commit [] false none]) := by
  unfold State.beginCommit State.alarmAfter State.resetReb
  dsimp only
  rw [if_pos (by simp [hv]), hv]
  rfl

theorem commitJust_gok (g : GCtx t H inp b) {p : Pid} {s : State} (hs : GInv t H inp p s) (hv : s.value = PS)
    (h : ((s.getRound 0).prepared.hasStrongFor PS ||
      ((s.getRound 0).committed.getJustOf .prepare PS).isSome) = true) :
    ∃ j, s.commitJust = .ok j ∧ JustFor PS .prepare j := by
  unfold State.commitJust
  dsimp only
  rw [hs.round, hs.tbl, hv]
  by_cases hq : (s.getRound 0).prepared.hasStrongFor PS = true
  · obtain ⟨sg, hsg⟩ := hs.prep.fsqf g.inTbl _ hq
    rw [hsg]
    exact ⟨_, rfl, rfl, rfl, rfl⟩
  · have hq' : (s.getRound 0).prepared.hasStrongFor PS = false := by simpa using hq
    rw [fsqf_none t _ _ hq']
    dsimp only
    rw [hq'] at h
    cases hg : (s.getRound 0).committed.getJustOf .prepare PS with
    | none => rw [hg] at h; cases h
    | some j => exact ⟨j, rfl, (hs.cjust _ (getJustOf_mem _ _ _ j g.pstar_ne hg)).2⟩

theorem tryPrepare_ggood (g : GCtx t H inp b) {p : Pid} (hpH : p ∈ H) {s : State} (now : Int) (hs : GInv t H inp p s)
    (hph : s.phase = .prepare) (h3 : A3 PS s) (h4 : A4 s)
    (hsync : s.phaseTimeoutElapsed now = true → ∀ h ∈ H, h ∈ (s.getRound 0).prepared.senders) :
    GGood t H inp p s (s.tryPrepare now) := by
  have hprop := hs.propP (Or.inl hph)
  have hfq : s.prepFoundQuorum = (s.getRound 0).prepared.hasStrongFor (propOf t H inp p) := by
    unfold State.prepFoundQuorum; rw [hs.round, hprop]
  have hfj : s.prepFoundJust = ((s.getRound 0).committed.getJustOf .prepare (propOf t H inp p)).isSome := by
    rw [prepFoundJust_eq hs, hprop]
  have hnpe : s.prepNotPossible = !(s.getRound 0).prepared.couldReach t (propOf t H inp p) false := by
    unfold State.prepNotPossible; rw [hs.round, hs.tbl, hprop]
  by_cases hv : propOf t H inp p = PS
  · -- a proposer of the longest quorum prefix
    have hcv : cvOf t H inp p = PS := by unfold cvOf; rw [if_pos hv]
    have hnp : s.prepNotPossible = false := by
      rw [hnpe, hv, hs.prep.couldReach_major g maj_propOf]; rfl
    by_cases hfound : (s.prepFoundQuorum || s.prepFoundJust) = true
    · have hcond : (s.prepFoundQuorum || s.prepFoundJust || s.prepNotPossible || s.prepComplete now) = true := by
        rw [hfound]; rfl
      rw [tryPrepare_go s now hph hcond, prepareValue_found s now hfound]
      have hs' : GInv t H inp p ({ s with value := s.proposal } : State) := hs.core (by core_rfl) hs.propQ hs.propP
      obtain ⟨j, hj, hjf⟩ := commitJust_gok g hs' (by show s.proposal = PS; rw [hprop, hv])
        (by rw [hfq, hfj, hv] at hfound; exact hfound)
      rw [beginCommit_eq _ now j (by show s.proposal.isEmpty = false; rw [hprop, hv]; exact isEmpty_false_of_ne g.pstar_ne) hj]
      refine GGood.of_core hs (by core_rfl) (fun h => by rcases h with h | h <;> cases h) (fun _ => hprop) ⟨h3, h4⟩ rfl ?_
      show GTrans t H inp p s.phase .commit (sent p [_, _, Eff.broadcast s.round .commit s.proposal false (some j)])
      rw [hph, hs.round, hprop, hv, ← hcv]
      exact GTrans.p2c (some j) (fun _ => ⟨j, rfl, hjf⟩)
    · have hfound' : (s.prepFoundQuorum || s.prepFoundJust) = false := by simpa using hfound
      have hnq : (s.getRound 0).prepared.hasStrongFor (propOf t H inp p) = false := by
        rw [← hfq]
        cases hx : s.prepFoundQuorum
        · rfl
        · rw [hx] at hfound'; simp at hfound'
      have hpc : s.prepComplete now = false := by
        cases hx : s.prepComplete now
        · rfl
        · exfalso
          unfold State.prepComplete at hx
          simp only [Bool.and_eq_true] at hx
          have := hs.prep.strong_of_all g maj_propOf (hsync hx.1)
          rw [← hv, hnq] at this; cases this
      have hcond : (s.prepFoundQuorum || s.prepFoundJust || s.prepNotPossible || s.prepComplete now) = false := by
        rw [hfound', hnp, hpc]; rfl
      rw [tryPrepare_stay s now hph hcond]
      have hpi : GPI t H inp p s s.phase := by
        rw [hph]
        refine ⟨fun _ => ⟨hnq, ?_⟩, h3, h4⟩
        rw [hv]; exact hs.prep.couldReach_major g maj_propOf
      split
      · exact GGood.reb now hs hpi
      · exact GGood.stay hs hpi
  · -- a proposer of a shorter prefix: no quorum, no justification
    have hcv : cvOf t H inp p = [] := by unfold cvOf; rw [if_neg hv]
    have hnq : s.prepFoundQuorum = false := by
      rw [hfq]; exact hs.prep.other_not_strong g maj_propOf _ hv
    have hnj : s.prepFoundJust = false := by
      rw [hfj]
      cases hg : (s.getRound 0).committed.getJustOf .prepare (propOf t H inp p) with
      | none => rfl
      | some j =>
        exfalso
        have := (hs.cjust _ (getJustOf_mem _ _ _ j (g.propOf_ne hpH) hg)).1
        exact hv this
    have hfound' : (s.prepFoundQuorum || s.prepFoundJust) = false := by rw [hnq, hnj]; rfl
    by_cases hexit : (s.prepNotPossible || s.prepComplete now) = true
    · have hcond : (s.prepFoundQuorum || s.prepFoundJust || s.prepNotPossible || s.prepComplete now) = true := by
        rw [hnq, hnj]; simpa using hexit
      rw [tryPrepare_go s now hph hcond, prepareValue_bottom s now hfound' hexit, beginCommit_bottom _ now rfl]
      refine GGood.of_core hs (by core_rfl) (fun h => by rcases h with h | h <;> cases h) (fun _ => hprop) ⟨h3, h4⟩ rfl ?_
      show GTrans t H inp p s.phase .commit (sent p [_, _, Eff.broadcast s.round .commit [] false none])
      rw [hph, hs.round, ← hcv]
      exact GTrans.p2c none (fun hne => absurd hcv hne)
    · have hexit' : (s.prepNotPossible || s.prepComplete now) = false := by simpa using hexit
      have hcond : (s.prepFoundQuorum || s.prepFoundJust || s.prepNotPossible || s.prepComplete now) = false := by
        rw [hnq, hnj]; simpa using hexit'
      rw [tryPrepare_stay s now hph hcond]
      have hcr : (s.getRound 0).prepared.couldReach t (propOf t H inp p) false = true := by
        have : s.prepNotPossible = false := by
          cases hx : s.prepNotPossible
          · rfl
          · rw [hx] at hexit'; simp at hexit'
        rw [hnpe] at this
        simpa using this
      have hpi : GPI t H inp p s s.phase := by
        rw [hph]
        exact ⟨fun _ => ⟨by rw [← hfq]; exact hnq, hcr⟩, h3, h4⟩
      split
      · exact GGood.reb now hs hpi
      · exact GGood.stay hs hpi

/-! ## COMMIT -/

theorem A5_of_A4' {p : Pid} {s : State} (hs : GInv t H inp p s) (h4 : A4 s) : A5 PS s := by
  unfold A5
  rw [hs.dec.hasStrongFor]
  unfold A4 at h4
  simp [h4, vfilter]

/-- `tryCommit` for round 0, from QUALITY, PREPARE or COMMIT; `hpi`: the rest of the phase invariant -/
theorem tryCommit_ggood (g : GCtx t H inp b) {p : Pid} {s : State} (now : Int) (hs : GInv t H inp p s)
    (hph : s.phase = .quality ∨ s.phase = .prepare ∨ s.phase = .commit) (h4 : A4 s)
    (hpi : A3 PS s → GPI t H inp p s s.phase)
    (hsync : s.phase = .commit → s.phaseTimeoutElapsed now = true → ∀ h ∈ H, h ∈ (s.getRound 0).committed.senders) :
    GGood t H inp p s (s.tryCommit now 0) ∧
      ((s.tryCommit now 0 = (s, []) ∧ A3 PS s) ∨ s.phase = .commit ∨ (s.tryCommit now 0).1.phase = .decide) := by
  have hv := hs.comm.fsqv PS (fun k hk => hs.comm.other_not_strong g maj_cvOf k hk)
  by_cases hq : (s.getRound 0).committed.hasStrongFor PS = true
  · rw [if_pos hq] at hv
    rw [tryCommit_one s now 0 PS (isEmpty_false_of_ne g.pstar_ne) hv]
    obtain ⟨sg, hsg⟩ := hs.comm.fsqf g.inTbl _ hq
    have hsg' : (State.getRound ({ s with value := PS } : State) 0).committed.findStrongQuorumFor
        ({ s with value := PS } : State).tbl ({ s with value := PS } : State).value = .found sg := by
      show (s.getRound 0).committed.findStrongQuorumFor s.tbl PS = .found sg
      rw [hs.tbl]; exact hsg
    rw [beginDecide_eq _ 0 sg hsg']
    refine ⟨GGood.of_core hs (by core_rfl) (fun h => by rcases h with h | h <;> cases h)
      (fun h => by rcases h with h | h <;> cases h) (A5_of_A4' hs h4) rfl ?_, Or.inr (Or.inr rfl)⟩
    show GTrans t H inp p s.phase .decide (sent p [_, Eff.broadcast 0 .decide PS false (some _)])
    exact GTrans.x2d _ _ hph (Or.inl rfl) _ ⟨rfl, rfl, rfl⟩
  · have hq' : A3 PS s := by simpa [A3] using hq
    rw [if_neg hq] at hv
    by_cases hc : s.phase = .commit
    · refine ⟨?_, Or.inr (Or.inl hc)⟩
      have hb : s.foundJustBottom 0 = false := by
        unfold State.foundJustBottom
        simp only [Nat.zero_add, hs.getRound1]
        rw [getJustOf_empty, conv_getJustOf_empty]
        rfl
      have hcs : (s.phaseTimeoutElapsed now && (s.getRound 0).committed.fromStrong s.tbl) = false := by
        cases hx : s.phaseTimeoutElapsed now
        · rfl
        · exfalso
          have := hs.comm.strong_of_all g maj_cvOf (hsync hc hx)
          exact hq this
      rw [tryCommit_none_commit s now hc hs.round hv hb hcs]
      split
      · exact GGood.reb now hs (hpi hq')
      · exact GGood.stay hs (hpi hq')
    · rw [tryCommit_none_other s now 0 hc hv]
      exact ⟨GGood.stay hs (hpi hq'), Or.inl ⟨rfl, hq'⟩⟩

/-! ## DECIDE -/

theorem tryDecide_ggood (g : GCtx t H inp b) {p : Pid} {s : State} (now : Int) (hs : GInv t H inp p s)
    (hph : s.phase = .decide) : GGood t H inp p s (s.tryDecide now) := by
  have hv := hs.dec.fsqv PS (fun k hk => hs.dec.other_not_strong g maj_const k hk)
  by_cases hq : s.decision.hasStrongFor PS = true
  · rw [if_pos hq] at hv
    obtain ⟨sg, hsg⟩ := hs.dec.fsqf g.inTbl _ hq
    have hsg' : s.decision.findStrongQuorumFor s.tbl PS = .found sg := by rw [hs.tbl]; exact hsg
    rw [tryDecide_one s now PS sg hv hsg']
    unfold State.terminate State.resetReb
    dsimp only
    refine ⟨rfl, ⟨hs.tbl, hs.input, hs.round, hs.rounds, (fun h => by rcases h with h | h <;> cases h),
      (fun h => by rcases h with h | h <;> cases h), hs.qt, hs.prep, hs.comm, hs.cjust, hs.dec, ?_⟩, ⟨_, rfl⟩,
      fun _ _ hx => hx, ?_⟩
    · intro d hd
      cases hd
      rfl
    · show GTrans t H inp p s.phase .terminated []
      rw [hph]; exact GTrans.d2t
  · rw [if_neg hq] at hv
    rw [tryDecide_none s now hv]
    exact GGood.reb now hs (by rw [hph]; simpa [GPI, A5] using hq)

/-! ## `tryCurrentPhase` -/

theorem GPI.weak {p : Pid} {s : State} {ph : Phase} (h : GPI t H inp p s ph) (hi : ph ≠ .initial) : WPI PS p s ph := by
  cases ph
  · exact absurd rfl hi
  · exact h.2
  · exact h
  · exact h.2
  · exact h.2
  · trivial
  · exact h

theorem tryCurrentPhase_ggood (g : GCtx t H inp b) {p : Pid} (hpH : p ∈ H) {s : State} (now : Int)
    (hs : GInv t H inp p s) (hw : WPI PS p s s.phase) (hsync : Synced H s now) :
    GGood t H inp p s (s.tryCurrentPhase now) := by
  unfold Synced at hsync
  unfold State.tryCurrentPhase
  cases hph : s.phase <;> rw [hph] at hw hsync <;> dsimp only
  · exact hw.elim
  · exact tryQuality_ggood g hpH now hs hph hw.1 hw.2.1 hw.2.2 (hsync rfl)
  · exact hw.elim
  · exact tryPrepare_ggood g hpH now hs hph hw.1 hw.2 (hsync rfl)
  · rw [hs.round]
    exact (tryCommit_ggood g now hs (Or.inr (Or.inr hph)) hw (fun h3 => by rw [hph]; exact ⟨h3, hw⟩)
      (fun _ => hsync rfl)).1
  · exact tryDecide_ggood g now hs hph
  · exact GGood.stay hs (by rw [hph]; exact hw)

/-! ## receiving -/

theorem GInv.setRound {p : Pid} {s : State} (hs : GInv t H inp p s) (rs' : RoundState)
    (hp : GT t (propOf t H inp) H rs'.prepared) (hc : GT t (cvOf t H inp) H rs'.committed)
    (hj : ∀ e ∈ rs'.committed.justs, e.1 = PS ∧ JustFor PS .prepare e.2) :
    GInv t H inp p (s.setRound 0 rs') ∧ (s.setRound 0 rs').getRound 0 = rs' := by
  have hr : (s.setRound 0 rs').rounds = [(0, rs')] := by
    unfold State.setRound
    dsimp only
    rw [hs.rounds]
    rfl
  have hg : (s.setRound 0 rs').getRound 0 = rs' := by
    unfold State.getRound
    rw [hr]
    rfl
  refine ⟨⟨hs.tbl, hs.input, hs.round, by rw [hr, hg], hs.propQ, hs.propP, hs.qt, ?_, ?_, ?_, hs.dec, hs.term⟩, hg⟩
  · rw [hg]; exact hp
  · rw [hg]; exact hc
  · rw [hg]; exact hj

/-- after the message has been tallied (state `s1`), `tryCurrentPhase` -/
theorem g_after_tally (g : GCtx t H inp b) {p : Pid} (hpH : p ∈ H) {s s1 : State} (now : Int) (m : Msg)
    (hs1 : GInv t H inp p s1) (hph : s1.phase = s.phase) (hto : s1.phaseTimeout = s.phaseTimeout)
    (hmono : ∀ ph x, x ∈ sendersOf s ph → x ∈ sendersOf s1 ph) (hx : m.sender ∈ sendersOf s1 m.phase)
    (hw : WPI PS p s1 s1.phase) (hsync : SyncedM H s now m) :
    GGood t H inp p s (s1.tryCurrentPhase now) ∧ m.sender ∈ sendersOf (s1.tryCurrentPhase now).1 m.phase := by
  have hsy : Synced H s1 now := by
    intro htp hel h hh
    rw [hph] at htp ⊢
    have hel' : s.phaseTimeoutElapsed now = true := by
      unfold State.phaseTimeoutElapsed at hel ⊢
      rw [← hto]; exact hel
    rcases hsync htp hel' h hh with h1 | ⟨h1, h2⟩
    · exact hmono _ _ h1
    · rw [← h1, ← h2]; exact hx
  have gg := tryCurrentPhase_ggood g hpH now hs1 hw hsy
  exact ⟨GGood.pre hph.symm hmono gg, gg.mono _ _ hx⟩

theorem gshape_just {m : Msg} (hm : GShape t H inp m) :
    (m.phase = .quality → m.value = inp m.sender ∧ m.just = none) ∧
    (m.phase = .prepare → m.value = propOf t H inp m.sender ∧ m.just = none) ∧
    (m.phase = .commit → m.value = cvOf t H inp m.sender ∧ (m.value ≠ [] → ∃ j, m.just = some j ∧ JustFor PS .prepare j)) ∧
    (m.phase = .decide → m.value = PS ∧ ∃ j, m.just = some j ∧ JustFor PS .commit j) := by
  have h := hm.2.2.2
  refine ⟨?_, ?_, ?_, ?_⟩ <;> intro hp <;> rw [hp] at h <;> exact h

theorem recvQuality_ggood (g : GCtx t H inp b) {p : Pid} (hpH : p ∈ H) {s : State} (now : Int) (m : Msg)
    (hs : GInv t H inp p s) (hpi : GPI t H inp p s s.phase) (hni : s.phase ≠ .initial) (hm : GShape t H inp m)
    (hmH : m.sender ∈ H) (hmp : m.phase = .quality) (hsync : SyncedM H s now m) :
    GGood t H inp p s (s.recvQuality now m) ∧ m.sender ∈ sendersOf (s.recvQuality now m).1 m.phase := by
  obtain ⟨hq', hxin, hsub⟩ := hs.qt.receive m.sender hmH
  have e1 : s.quality.receiveEachPrefix s.tbl m.sender m.value = s.quality.receiveEachPrefix t m.sender (inp m.sender) := by
    rw [hs.tbl, ((gshape_just hm).1 hmp).1]
  unfold State.recvQuality
  dsimp only
  rw [e1]
  generalize s.quality.receiveEachPrefix t m.sender (inp m.sender) = Q' at *
  have hs1 : GInv t H inp p ({ s with quality := Q' } : State) :=
    ⟨hs.tbl, hs.input, hs.round, hs.rounds, hs.propQ, hs.propP, hq', hs.prep, hs.comm, hs.cjust, hs.dec, hs.term⟩
  have hmono : ∀ ph x, x ∈ sendersOf s ph → x ∈ sendersOf ({ s with quality := Q' } : State) ph := by
    intro ph x hx
    cases ph
    case quality => exact hsub x hx
    all_goals exact hx
  have hx1 : m.sender ∈ sendersOf ({ s with quality := Q' } : State) m.phase := by
    rw [hmp]; exact hxin
  by_cases hph : s.phase = .quality
  · rw [if_neg (by simp [hph])]
    refine g_after_tally g hpH now m hs1 rfl rfl hmono hx1 ?_ hsync
    show WPI PS p _ s.phase
    rw [hph] at hpi ⊢
    exact hpi.2
  · rw [if_pos (by simp [hph])]
    unfold State.updateCandidatesFromQuality
    obtain ⟨cs, hcs⟩ := addCandidatePrefixes_only ({ s with quality := Q' } : State) (Q'.longestPrefixWithQuorum s.input)
    dsimp only at hcs ⊢
    rw [hcs]
    have hpi1 : GPI t H inp p ({ s with quality := Q' } : State) s.phase := by
      cases hp : s.phase <;> rw [hp] at hpi
      · exact absurd hp hni
      · exact absurd hp hph
      all_goals exact hpi
    have gg : GGood t H inp p ({ s with quality := Q' } : State) ({ s with quality := Q', candidates := cs }, []) :=
      GGood.of_core hs1 (by core_rfl) hs.propQ hs.propP hpi1 rfl (GTrans.same _)
    exact ⟨GGood.pre (s1 := ({ s with quality := Q' } : State)) rfl hmono gg, gg.mono _ _ hx1⟩

theorem recvPrepare_ggood (g : GCtx t H inp b) {p : Pid} (hpH : p ∈ H) {s : State} (now : Int) (m : Msg)
    (hs : GInv t H inp p s) (hpi : GPI t H inp p s s.phase) (hni : s.phase ≠ .initial) (hm : GShape t H inp m)
    (hmH : m.sender ∈ H) (hmp : m.phase = .prepare) (hself : m.sender = p → s.phase ≠ .quality)
    (hsync : SyncedM H s now m) :
    GGood t H inp p s (s.recvPrepare now m) ∧ m.sender ∈ sendersOf (s.recvPrepare now m).1 m.phase := by
  obtain ⟨P', hrecv, hP', hxin, hsub, hsup, _⟩ := hs.prep.receive m.sender hmH
  obtain ⟨hval, hjn⟩ := (gshape_just hm).2.1 hmp
  have e1 : (s.getRound 0).prepared.receive s.tbl m.sender m.value = some P' := by
    rw [hs.tbl, hval]; exact hrecv
  unfold State.recvPrepare
  dsimp only
  rw [hm.1, e1]
  dsimp only
  unfold storePrepareJust
  rw [hjn]
  dsimp only
  obtain ⟨hs1, hg1⟩ := hs.setRound { s.getRound 0 with prepared := P' } hP' hs.comm hs.cjust
  refine g_after_tally g hpH now m hs1 rfl rfl ?_ ?_ ?_ hsync
  · intro ph x hx
    cases ph
    case prepare => show x ∈ (State.getRound _ 0).prepared.senders; rw [hg1]; exact hsub x hx
    case commit => show x ∈ (State.getRound _ 0).committed.senders; rw [hg1]; exact hx
    all_goals exact hx
  · rw [hmp]; show m.sender ∈ (State.getRound _ 0).prepared.senders; rw [hg1]; exact hxin
  · show WPI PS p _ s.phase
    cases hp : s.phase <;> rw [hp] at hpi
    · exact absurd hp hni
    · refine ⟨?_, ?_, hpi.2.2.2⟩
      · show p ∉ (State.getRound _ 0).prepared.senders
        rw [hg1]
        intro hin
        rcases hsup p hin with h | h
        · exact hpi.2.1 h
        · exact hself h.symm hp
      · show (State.getRound _ 0).committed.hasStrongFor PS = false
        rw [hg1]; exact hpi.2.2.1
    · exact hpi.elim
    · refine ⟨?_, hpi.2.2⟩
      show (State.getRound _ 0).committed.hasStrongFor PS = false
      rw [hg1]; exact hpi.2.1
    · exact hpi.2
    · trivial
    · exact hpi

/-- what `storeCommitJust` does to a tally when the message has the shape of the run -/
theorem storeCommitJust_spec (C' : Tally) (m : Msg)
    (hj : m.value ≠ [] → ∃ j, m.just = some j ∧ JustFor PS .prepare j) (hv : m.value = [] ∨ m.value = PS) :
    (storeCommitJust C' m).senders = C'.senders ∧ (storeCommitJust C' m).sendersPower = C'.sendersPower ∧
    (storeCommitJust C' m).support = C'.support ∧
    ∀ e ∈ (storeCommitJust C' m).justs, e ∈ C'.justs ∨ (e.1 = PS ∧ JustFor PS .prepare e.2) := by
  unfold storeCommitJust
  cases hmj : m.just with
  | none => exact ⟨rfl, rfl, rfl, fun e he => Or.inl he⟩
  | some j =>
    dsimp only
    by_cases he : m.value.isEmpty = true
    · rw [if_pos he]; exact ⟨rfl, rfl, rfl, fun e he => Or.inl he⟩
    · rw [if_neg he]
      have hne : m.value ≠ [] := by intro h; rw [h] at he; simp at he
      have hvp : m.value = PS := by rcases hv with h | h; exact absurd h hne; exact h
      obtain ⟨j', hj1, hj2⟩ := hj hne
      rw [hmj] at hj1
      cases hj1
      unfold Tally.receiveJust
      split
      · exact ⟨rfl, rfl, rfl, fun e he => Or.inl he⟩
      · refine ⟨rfl, rfl, rfl, ?_⟩
        intro e he
        have he' : e ∈ C'.justs ++ [(m.value, j)] := he
        simp only [List.mem_append, List.mem_singleton] at he'
        rcases he' with he' | rfl
        · exact Or.inl he'
        · exact Or.inr ⟨hvp, hj2⟩

theorem GT.of_eq {f : Pid → Chain} {T T' : Tally} (h : GT t f H T) (h1 : T'.senders = T.senders)
    (h2 : T'.sendersPower = T.sendersPower) (h3 : T'.support = T.support) : GT t f H T' := by
  refine ⟨h1 ▸ h.nodup, h1 ▸ h.sub, by rw [h2, h1]; exact h.pow, h3 ▸ h.keys, ?_⟩
  intro k
  have := h.find k
  unfold Tally.findSupport at this ⊢
  rw [h3, h1]; exact this

theorem hasStrongFor_of_support {T T' : Tally} (h3 : T'.support = T.support) (k : Chain) :
    T'.hasStrongFor k = T.hasStrongFor k := by
  unfold Tally.hasStrongFor Tally.findSupport
  rw [h3]

theorem GTrans.from_commit {p : Pid} {bb : Phase} {ms : List Msg} (h : GTrans t H inp p .commit bb ms) :
    bb = .commit ∨ bb = .decide ∨ bb = .terminated := by
  cases h with
  | same => exact Or.inl rfl
  | x2d _ _ _ hb _ _ => exact Or.inr hb

theorem GTrans.from_decide {p : Pid} {bb : Phase} {ms : List Msg} (h : GTrans t H inp p .decide bb ms) :
    (bb = .decide ∨ bb = .terminated) ∧ ms = [] := by
  cases h with
  | same => exact ⟨Or.inl rfl, rfl⟩
  | x2d _ _ ha _ _ _ => rcases ha with ha | ha | ha <;> cases ha
  | d2t => exact ⟨Or.inr rfl, rfl⟩

theorem recvCommit_ggood (g : GCtx t H inp b) {p : Pid} (hpH : p ∈ H) {s : State} (now : Int) (m : Msg)
    (hs : GInv t H inp p s) (hpi : GPI t H inp p s s.phase) (hni : s.phase ≠ .initial) (hnt : s.phase ≠ .terminated)
    (hm : GShape t H inp m) (hmH : m.sender ∈ H) (hmp : m.phase = .commit) (hsync : SyncedM H s now m) :
    GGood t H inp p s (s.recvCommit now m) ∧ m.sender ∈ sendersOf (s.recvCommit now m).1 m.phase := by
  obtain ⟨C', hrecv, hC', hxin, hsub, hsup, hjs⟩ := hs.comm.receive m.sender hmH
  obtain ⟨hval, hjust⟩ := (gshape_just hm).2.2.1 hmp
  have hvcases : m.value = [] ∨ m.value = PS := by
    rw [hval]
    rcases GCtx.cvOf_cases (t := t) (H := H) (inp := inp) m.sender with h | h
    · exact Or.inr h.2
    · exact Or.inl h.2
  have e1 : (s.getRound 0).committed.receive s.tbl m.sender m.value = some C' := by
    rw [hs.tbl, hval]; exact hrecv
  have hnil : (!m.value.isEmpty && m.just.isNone) = false := by
    by_cases he : m.value = []
    · rw [he]; rfl
    · obtain ⟨j, hj, _⟩ := hjust he
      rw [hj]; simp
  obtain ⟨c1, c2, c3, c4⟩ := storeCommitJust_spec (t := t) (H := H) (inp := inp) C' m hjust hvcases
  unfold State.recvCommit
  dsimp only
  rw [hm.1, e1]
  dsimp only
  rw [if_neg (by simp [hnil])]
  generalize storeCommitJust C' m = C'' at c1 c2 c3 c4
  have hC'' : GT t (cvOf t H inp) H C'' := hC'.of_eq c1 c2 c3
  have hj'' : ∀ e ∈ C''.justs, e.1 = PS ∧ JustFor PS .prepare e.2 := by
    intro e he
    rcases c4 e he with h | h
    · rw [hjs] at h; exact hs.cjust e h
    · exact h
  obtain ⟨hs1, hg1⟩ := hs.setRound { s.getRound 0 with committed := C'' } hs.prep hC'' hj''
  have hph1 : (s.setRound 0 { s.getRound 0 with committed := C'' }).phase = s.phase := rfl
  have hto1 : (s.setRound 0 { s.getRound 0 with committed := C'' }).phaseTimeout = s.phaseTimeout := rfl
  have hdec1 : (s.setRound 0 { s.getRound 0 with committed := C'' }).decision = s.decision := rfl
  have hq1 : (s.setRound 0 { s.getRound 0 with committed := C'' }).quality = s.quality := rfl
  generalize s.setRound 0 { s.getRound 0 with committed := C'' } = s1 at *
  have hP1 : (s1.getRound 0).prepared = (s.getRound 0).prepared := by rw [hg1]
  have hC1 : (s1.getRound 0).committed.senders = C'.senders := by rw [hg1]; exact c1
  have hmono : ∀ ph x, x ∈ sendersOf s ph → x ∈ sendersOf s1 ph := by
    intro ph x hx
    cases ph
    case prepare => show x ∈ (s1.getRound 0).prepared.senders; rw [hP1]; exact hx
    case commit => show x ∈ (s1.getRound 0).committed.senders; rw [hC1]; exact hsub x hx
    case quality => show x ∈ s1.quality.senders; rw [hq1]; exact hx
    case decide => show x ∈ s1.decision.senders; rw [hdec1]; exact hx
    all_goals exact hx
  have hx1 : m.sender ∈ sendersOf s1 m.phase := by
    rw [hmp]; show m.sender ∈ (s1.getRound 0).committed.senders; rw [hC1]; exact hxin
  by_cases hd : s.phase = .decide
  · rw [if_neg (by simp [hph1, hd])]
    refine g_after_tally g hpH now m hs1 hph1 hto1 hmono hx1 ?_ hsync
    rw [hph1, hd]; trivial
  · rw [if_pos (by simp [hph1, hd])]
    have hph' : s1.phase = .quality ∨ s1.phase = .prepare ∨ s1.phase = .commit := by
      rw [hph1]
      cases hp : s.phase <;> rw [hp] at hpi <;> simp_all [GPI]
    have h4 : A4 s1 := by
      show s1.decision.senders = []
      rw [hdec1]
      cases hp : s.phase <;> rw [hp] at hpi
      · exact hpi.2.2.2
      · exact hpi.2.2.2
      · exact hpi.elim
      · exact hpi.2.2
      · exact hpi.2
      · exact absurd hp hd
      · exact absurd hp hnt
    have hpi' : A3 PS s1 → GPI t H inp p s1 s1.phase := by
      intro h3
      rw [hph1]
      cases hp : s.phase <;> rw [hp] at hpi
      · exact absurd hp hni
      · refine ⟨?_, ?_, h3, h4⟩
        · show s1.quality.hasStrongFor (inp p) = false
          rw [hq1]; exact hpi.1
        · show p ∉ (s1.getRound 0).prepared.senders
          rw [hP1]; exact hpi.2.1
      · exact hpi.elim
      · refine ⟨?_, h3, h4⟩
        show B2 t H inp p s1
        unfold B2
        rw [hP1]; exact hpi.1
      · exact ⟨h3, h4⟩
      · exact absurd hp hd
      · exact absurd hp hnt
    have hsy : s1.phase = .commit → s1.phaseTimeoutElapsed now = true → ∀ h ∈ H, h ∈ (s1.getRound 0).committed.senders := by
      intro hc hel h hh
      rw [hph1] at hc
      have hel' : s.phaseTimeoutElapsed now = true := by
        unfold State.phaseTimeoutElapsed at hel ⊢
        rw [← hto1]; exact hel
      rw [hC1]
      rcases hsync (by rw [hc]; rfl) hel' h hh with h1 | ⟨_, h2⟩
      · rw [hc] at h1; exact hsub h h1
      · rw [← h2]; exact hxin
    obtain ⟨gg, hcase⟩ := tryCommit_ggood g now hs1 hph' h4 hpi' hsy
    rcases hcase with ⟨heq, h3⟩ | hc | hdc
    · rw [heq]
      dsimp only
      by_cases hp : (s.phase = .prepare ∧ m.value.isEmpty = false)
      · rw [if_pos (by simp [hph1, hp.1, hp.2, hs1.round])]
        rw [andThen_nil]
        refine g_after_tally g hpH now m hs1 hph1 hto1 hmono hx1 ?_ hsync
        rw [hph1, hp.1]; exact ⟨h3, h4⟩
      · rw [if_neg (by
          intro hcontra
          simp only [Bool.and_eq_true, beq_iff_eq, Bool.not_eq_true'] at hcontra
          exact hp ⟨hph1 ▸ hcontra.1.1, hcontra.2⟩)]
        have g0 : GGood t H inp p s1 (s1, []) := GGood.stay hs1 (hpi' h3)
        exact ⟨GGood.pre hph1.symm hmono g0, hx1⟩
    · have hne : (s1.tryCommit now 0).1.phase ≠ .prepare := by
        have := gg.trans
        rw [hc] at this
        rcases this.from_commit with h | h | h <;> rw [h] <;> simp
      rw [if_neg (by simp [hne])]
      exact ⟨GGood.pre hph1.symm hmono gg, gg.mono _ _ hx1⟩
    · rw [if_neg (by simp [hdc])]
      exact ⟨GGood.pre hph1.symm hmono gg, gg.mono _ _ hx1⟩

theorem recvDecide_ggood (g : GCtx t H inp b) {p : Pid} {s : State} (now : Int) (m : Msg)
    (hs : GInv t H inp p s) (hpi : GPI t H inp p s s.phase) (hni : s.phase ≠ .initial) (hnt : s.phase ≠ .terminated)
    (hm : GShape t H inp m) (hmH : m.sender ∈ H) (hmp : m.phase = .decide) (hpH : p ∈ H) (hsync : SyncedM H s now m) :
    GGood t H inp p s (s.recvDecide now m) ∧ m.sender ∈ sendersOf (s.recvDecide now m).1 m.phase := by
  obtain ⟨D', hrecv, hD', hxin, hsub, hsup, _⟩ := hs.dec.receive m.sender hmH
  obtain ⟨hval, j, hj, hjf⟩ := (gshape_just hm).2.2.2 hmp
  have e1 : s.decision.receive s.tbl m.sender m.value = some D' := by
    rw [hs.tbl, hval]; exact hrecv
  unfold State.recvDecide
  rw [e1]
  dsimp only
  have hs1 : GInv t H inp p ({ s with decision := D' } : State) :=
    ⟨hs.tbl, hs.input, hs.round, hs.rounds, hs.propQ, hs.propP, hs.qt, hs.prep, hs.comm, hs.cjust, hD', hs.term⟩
  have hmono : ∀ ph x, x ∈ sendersOf s ph → x ∈ sendersOf ({ s with decision := D' } : State) ph := by
    intro ph x hx
    cases ph
    case decide => exact hsub x hx
    all_goals exact hx
  have hx1 : m.sender ∈ sendersOf ({ s with decision := D' } : State) m.phase := by
    rw [hmp]; exact hxin
  by_cases hd : s.phase = .decide
  · rw [if_neg (by simp [hd])]
    refine g_after_tally g hpH now m hs1 rfl rfl hmono hx1 ?_ hsync
    show WPI PS p _ s.phase
    rw [hd]; trivial
  · rw [if_pos (by simp [hd])]
    have hph' : s.phase = .quality ∨ s.phase = .prepare ∨ s.phase = .commit := by
      cases hp : s.phase <;> rw [hp] at hpi <;> simp_all [GPI]
    rw [hval, hj]
    have hsk : State.skipToDecide ({ s with decision := D' } : State) PS (some j) =
        (afterSkip s D' PS, [.progress s.round .decide, .broadcast 0 .decide PS false (some j)]) := rfl
    rw [hsk, andThen_ok _ _ rfl]
    dsimp only
    have hs2 : GInv t H inp p (afterSkip s D' PS) :=
      hs1.core (by core_rfl) (fun h => by rcases h with h | h <;> cases h) (fun h => by rcases h with h | h <;> cases h)
    have htc : State.tryCurrentPhase (afterSkip s D' PS) now = State.tryDecide (afterSkip s D' PS) now := rfl
    rw [htc]
    have g2 := tryDecide_ggood (p := p) g now hs2 rfl
    generalize State.tryDecide (afterSkip s D' PS) now = r2 at g2 ⊢
    obtain ⟨hb, hms⟩ := g2.trans.from_decide
    refine ⟨⟨?_, g2.inv, g2.pi, fun ph x hx => g2.mono ph x (hmono ph x hx), ?_⟩, g2.mono _ _ hx1⟩
    · show hasFailure ([Eff.progress s.round .decide, .broadcast 0 .decide PS false (some j)] ++ r2.2) = false
      rw [Sync.hasFailure_append, g2.nofail]; rfl
    · show GTrans t H inp p s.phase r2.1.phase (sent p ([Eff.progress s.round .decide, .broadcast 0 .decide PS false (some j)] ++ r2.2))
      rw [sent_append, hms, List.append_nil]
      exact GTrans.x2d _ _ hph' hb j hjf

/-! ## the three API calls -/

theorem hasBase_of_head (c : Chain) (b : Nat) (h : c.head? = some b) : hasBase c (some b) = true := by
  cases c with
  | nil => cases h
  | cons a as =>
    simp only [List.head?_cons, Option.some.injEq] at h
    simp [hasBase, h]

/-- every value on the wire is bottom or starts at the base -/
theorem GShape.value_base (g : GCtx t H inp b) {m : Msg} (hm : GShape t H inp m) (hmH : m.sender ∈ H) :
    m.value = [] ∨ m.value.head? = some b := by
  obtain ⟨h1, h2, h3, h4⟩ := gshape_just hm
  have hsh := hm.2.2.2
  cases hmp : m.phase <;> rw [hmp] at hsh
  · exact hsh.elim
  · rw [(h1 hmp).1]; exact Or.inr (g.base _ hmH)
  · exact hsh.elim
  · rw [(h2 hmp).1]; exact Or.inr (g.propOf_head hmH)
  · rw [(h3 hmp).1]
    rcases GCtx.cvOf_cases (t := t) (H := H) (inp := inp) m.sender with h | h
    · rw [h.2]; exact Or.inr g.pstar_head
    · exact Or.inl h.2
  · rw [(h4 hmp).1]; exact Or.inr g.pstar_head
  · exact hsh.elim

theorem g_recvPre_accept (g : GCtx t H inp b) {p : Pid} (hpH : p ∈ H) {s : State} (hs : GInv t H inp p s)
    (hnt : s.phase ≠ .terminated) {m : Msg} (hm : GShape t H inp m) (hmH : m.sender ∈ H) : s.recvPre m = .accept := by
  unfold State.recvPre
  have hb : (m.value.isEmpty || hasBase m.value s.input.head?) = true := by
    rw [hs.input, g.base p hpH]
    rcases hm.value_base g hmH with h | h
    · rw [h]; rfl
    · rw [hasBase_of_head _ _ h]; simp
  rw [if_neg (by simp [hm.2.2.1]), if_neg (by simp [hm.2.1]),
    if_neg (by rw [hb]; simp), if_neg (by simp [hnt]), if_neg (by simp [hm.1, hs.round]),
    if_neg (by simp [hm.1])]

theorem step_recv_ggood (g : GCtx t H inp b) {p : Pid} (hpH : p ∈ H) {s : State} (now : Int) (m : Msg)
    (hs : GInv t H inp p s) (hpi : GPI t H inp p s s.phase) (hni : s.phase ≠ .initial) (hnt : s.phase ≠ .terminated)
    (hm : GShape t H inp m) (hmH : m.sender ∈ H) (hself : m.phase = .prepare → m.sender = p → s.phase ≠ .quality)
    (hsync : SyncedM H s now m) :
    GGood t H inp p s (step s (.recv now m)) ∧ m.sender ∈ sendersOf (step s (.recv now m)).1 m.phase := by
  have hpre := g_recvPre_accept g hpH hs hnt hm hmH
  have key : ∀ r : R, (s.receiveOne now m).1 = r →
      (GGood t H inp p s r ∧ m.sender ∈ sendersOf r.1 m.phase) →
      GGood t H inp p s (step s (.recv now m)) ∧ m.sender ∈ sendersOf (step s (.recv now m)).1 m.phase := by
    intro r hr hg
    have : step s (.recv now m) = r := by
      rw [step_recv_eq s now m hnt (by rw [hr]; exact hg.1.nofail)
        (by rw [hr, hm.1]; exact Nat.zero_le _), hr]
    rw [this]; exact hg
  have hcases : m.phase = .quality ∨ m.phase = .prepare ∨ m.phase = .commit ∨ m.phase = .decide := by
    have hsh := hm.2.2.2
    cases hmp : m.phase <;> rw [hmp] at hsh <;> simp_all
  rcases hcases with hmp | hmp | hmp | hmp
  · exact key _ (by unfold State.receiveOne; rw [hpre, hmp]) (recvQuality_ggood g hpH now m hs hpi hni hm hmH hmp hsync)
  · exact key _ (by unfold State.receiveOne; rw [hpre, hmp])
      (recvPrepare_ggood g hpH now m hs hpi hni hm hmH hmp (hself hmp) hsync)
  · exact key _ (by unfold State.receiveOne; rw [hpre, hmp])
      (recvCommit_ggood g hpH now m hs hpi hni hnt hm hmH hmp hsync)
  · exact key _ (by unfold State.receiveOne; rw [hpre, hmp])
      (recvDecide_ggood g now m hs hpi hni hnt hm hmH hmp hpH hsync)

theorem step_alarm_ggood (g : GCtx t H inp b) {p : Pid} (hpH : p ∈ H) {s : State} (now : Int)
    (hs : GInv t H inp p s) (hpi : GPI t H inp p s s.phase) (hni : s.phase ≠ .initial) (hsync : Synced H s now) :
    GGood t H inp p s (step s (.alarm now)) :=
  tryCurrentPhase_ggood g hpH now hs (hpi.weak hni) hsync

theorem step_start_ggood {p : Pid} {s : State} (now : Int) (hs : GInv t H inp p s) (hpi : GPI t H inp p s s.phase)
    (hph : s.phase = .initial) : GGood t H inp p s (step s (.start now)) := by
  show GGood t H inp p s (s.beginQuality now)
  unfold State.beginQuality
  rw [if_neg (by simp [hph])]
  unfold State.alarmAfter State.resetReb
  dsimp only
  rw [hph] at hpi
  refine GGood.of_core hs (by core_rfl) (fun _ => hs.propQ (Or.inl hph)) (fun h => by rcases h with h | h <;> cases h)
    hpi rfl ?_
  show GTrans t H inp p s.phase .quality (sent p [_, _, Eff.broadcast s.round .quality s.proposal false none])
  rw [hph, hs.round, hs.propQ (Or.inl hph)]
  exact GTrans.start

theorem init_ginv (cfg : Cfg) (t : Table) (H : List Pid) (inp : Pid → Chain) (p : Pid) :
    GInv t H inp p (init cfg t (inp p)) ∧ GPI t H inp p (init cfg t (inp p)) (init cfg t (inp p)).phase := by
  refine ⟨⟨rfl, rfl, rfl, rfl, fun _ => rfl, (fun h => by rcases h with h | h <;> cases h), QG_empty, GT_empty,
    GT_empty, ?_, GT_empty, ?_⟩, ?_⟩
  · intro e he; cases he
  · intro d hd; cases hd
  · exact ⟨rfl, by simp [A2, State.getRound, init], rfl, rfl⟩

end

end F3.SyncGeneral
