import F3.Proofs.Bridge
import F3.Spec.GraniteR
import F3.Model.Restart
import Mathlib.Data.Fintype.EquivFin
/-!
# Agreement across crashes and restarts inside an instance (C01 ∘ C12)

An honest participant that crashes and restarts inside an instance is a list of *segments*: each segment is a
fresh run of the instance model from `init` (nothing of the previous incarnation is remembered by the
participant object).  What reaches the wire is what the C12 filter lets through: `PublishedOK`.

The proof reuses Layer B (`runFrom_guarded`) unchanged by a change of identity: a segment of `p` is run under a
*ghost identity* `g` outside the committee, in the world `W ∪ {g's votes = everything the segment requested}`.
In that world the segment is an ordinary `HonestRun` (its own votes are exactly its broadcasts), and because
`g` is not in the power table no quorum evidence ever mentions `g`: every guard obtained there is a guard in
`W`.  Requests that the filter dropped are thereby still *guarded* — which is what rule `commit_bottom` of
`F3.Granite.World.RulesR` needs (the PREPARE of the incarnation that sends COMMIT ⊥ may have been dropped).
-/
namespace F3.Restart
open F3 F3.Instance F3.Granite F3.Bridge

/-! ### the evidence predicates are monotone in the set of votes -/

section Mono
variable {W W' : Votes} {t : Table}

theorem QL.mono (hW : ∀ x r ph v, W x r ph v → W' x r ph v) {r : Nat} {ph : Instance.Phase} {v : Chain}
    (h : QL W t r ph v) : QL W' t r ph v := by
  obtain ⟨sg, h1, h2, h3, h4⟩ := h
  refine ⟨sg, h1, h2, h3, fun i hi => ?_⟩
  obtain ⟨x, hx, hw⟩ := h4 i hi
  exact ⟨x, hx, hW _ _ _ _ hw⟩

theorem JL.mono (hW : ∀ x r ph v, W x r ph v → W' x r ph v) {r : Nat} {v : Chain}
    (h : JL W t r v) : JL W' t r v :=
  h.imp (QL.mono hW) (QL.mono hW)

theorem JustOk.mono (hW : ∀ x r ph v, W x r ph v → W' x r ph v) {j : Just} (h : JustOk W t j) : JustOk W' t j := by
  obtain ⟨h1, h2, h3, h4⟩ := h
  refine ⟨h1, h2, h3, fun i hi => ?_⟩
  obtain ⟨x, hx, hw⟩ := h4 i hi
  exact ⟨x, hx, hW _ _ _ _ hw⟩

theorem ConvJust.mono (hW : ∀ x r ph v, W x r ph v → W' x r ph v) {r : Nat} {c : Chain} {j : Just}
    (h : ConvJust W t r c j) : ConvJust W' t r c j :=
  ⟨JustOk.mono hW h.1, h.2⟩

theorem CommitJust.mono (hW : ∀ x r ph v, W x r ph v → W' x r ph v) {r : Nat} {c : Chain} {j : Just}
    (h : CommitJust W t r c j) : CommitJust W' t r c j :=
  ⟨JustOk.mono hW h.1, h.2⟩

theorem MsgValid.mono (hW : ∀ x r ph v, W x r ph v → W' x r ph v) {m : Msg} (h : MsgValid W t m) :
    MsgValid W' t m := by
  obtain ⟨h1, h2, h3⟩ := h
  refine ⟨hW _ _ _ _ h1, h2, ?_⟩
  cases hph : m.phase <;> simp only [hph] at h3 ⊢
  · exact h3
  · obtain ⟨a, b, j, hj, hc⟩ := h3
    exact ⟨a, b, j, hj, ConvJust.mono hW hc⟩
  · refine ⟨h3.1, fun hr => ?_⟩
    obtain ⟨j, hj, hc⟩ := h3.2 hr
    exact ⟨j, hj, ConvJust.mono hW hc⟩
  · refine ⟨h3.1, fun hv => ?_⟩
    obtain ⟨j, hj, hc⟩ := h3.2 hv
    exact ⟨j, hj, CommitJust.mono hW hc⟩
  · obtain ⟨a, b, j, hj, hok, hc⟩ := h3
    exact ⟨a, b, j, hj, JustOk.mono hW hok, hc⟩

theorem OpValidG.mono (hW : ∀ x r ph v, W x r ph v → W' x r ph v) {op : Op} (h : OpValidG W t op) :
    OpValidG W' t op := by
  cases op with
  | recv now m => exact MsgValid.mono hW h
  | start _ => trivial
  | alarm _ => trivial

end Mono


/-! ### segments -/

/-- One incarnation of an honest participant inside the instance: a fresh run of the instance model from
`init` over any sequence of `Start`, alarms and deliveries.  The input chain may differ from incarnation to
incarnation (no theorem below needs it to be the same). -/
structure Segment (W : Votes) (t : Table) where
  cfg : Cfg
  input : Chain
  ops : List Op
  inputNe : input ≠ []
  /-- every delivered message of this instance passed validation: the votes it stands for exist in `W`, i.e.
  were *published* by their senders (a request the sender's filter dropped never reaches anybody — not even
  the sender itself) -/
  valid : ∀ op ∈ ops, foreign op = true ∨ OpValidG W t op
  /-- no call reported an error other than a refusal at the door -/
  ok : okRun (init cfg t input) ops = true

variable {W : Votes} {t : Table}

/-- the effects of the incarnation -/
def Segment.effs (s : Segment W t) : List Eff := (run (init s.cfg t s.input) s.ops).2

/-- the state in which the incarnation ends (crashes, or lives on) -/
def Segment.final (s : Segment W t) : State := (run (init s.cfg t s.input) s.ops).1

/-- the incarnation asked the host to broadcast the vote `(r, ph, v)` -/
def Segment.requested (s : Segment W t) (r : Nat) (ph : Instance.Phase) (v : Chain) : Prop :=
  ∃ tk j, Eff.broadcast r ph v tk j ∈ s.effs

theorem requested_iff (s : Segment W t) (r : Nat) (ph : Instance.Phase) (v : Chain) :
    s.requested r ph v ↔ (r, ph, v) ∈ requests s.effs := by
  unfold Segment.requested requests
  rw [List.mem_filterMap]
  constructor
  · rintro ⟨tk, j, h⟩; exact ⟨_, h, rfl⟩
  · rintro ⟨e, he, h⟩
    cases e <;> simp [reqOf] at h
    obtain ⟨rfl, rfl, rfl⟩ := h
    exact ⟨_, _, he⟩

/-- **The interface taken from C12.**  `W p` — the votes of `p` that exist, i.e. that left the node — given the
incarnations of `p`:
* `single` (C12 `wire_no_equivocation`): at most one value per slot is ever published;
* `requested` (unforgeability + C12 `record_before_publish`): every published vote was requested by some
  incarnation.
Nothing says that a request *is* published: the filter may drop it, the process may die first. -/
structure PublishedOK (W : Votes) (t : Table) (p : Pid) (segs : List (Segment W t)) : Prop where
  single : ∀ r ph x y, W p r ph x → W p r ph y → x = y
  requested : ∀ r ph v, W p r ph v → ∃ s ∈ segs, s.requested r ph v

/-- an honest participant that may crash and restart any number of times inside the instance -/
structure RestartingRun (W : Votes) (t : Table) (p : Pid) where
  segs : List (Segment W t)
  pub : PublishedOK W t p segs

/-! ### the ghost identity -/

/-- the world seen from a segment run under the identity `g`: `g`'s votes are the segment's requests -/
def ghostW (W : Votes) (g : Pid) (req : Nat → Instance.Phase → Chain → Prop) : Votes :=
  fun x r ph v => W x r ph v ∨ (x = g ∧ req r ph v)

theorem ghostW_mono (W : Votes) (g : Pid) (req : Nat → Instance.Phase → Chain → Prop) :
    ∀ x r ph v, W x r ph v → ghostW W g req x r ph v := fun _ _ _ _ h => Or.inl h

/-- a segment is an ordinary honest run under a ghost identity that has no votes in `W` -/
def Segment.ghostRun (s : Segment W t) (g : Pid) (hg : ∀ r ph v, ¬ W g r ph v) :
    HonestRun (ghostW W g s.requested) t g where
  cfg := s.cfg
  input := s.input
  ops := s.ops
  inputNe := s.inputNe
  valid := fun op hop => (s.valid op hop).imp id (OpValidG.mono (ghostW_mono W g s.requested))
  ok := s.ok
  own := by
    intro r ph v
    constructor
    · rintro (h | ⟨_, h⟩)
      · exact absurd h (hg r ph v)
      · exact h
    · intro h; exact Or.inr ⟨rfl, h⟩

/-- quorums never mention somebody outside the committee -/
theorem Q_ghost (F : Finset Pid) (g : Pid) (hg : g ∉ (ids t).toFinset) (req : Nat → Instance.Phase → Chain → Prop)
    {ph : Granite.Phase} {r : Nat} {v : Chain} (h : (world t F (ghostW W g req)).Q ph r v) :
    (world t F W).Q ph r v := by
  obtain ⟨S, ⟨hsub, hpow⟩, hv⟩ := h
  refine ⟨S, ⟨hsub, hpow⟩, fun s hs => ?_⟩
  rcases hv s hs with h | ⟨he, _⟩
  · exact h
  · exact absurd (he ▸ hsub hs) hg

theorem J_ghost (F : Finset Pid) (g : Pid) (hg : g ∉ (ids t).toFinset) (req : Nat → Instance.Phase → Chain → Prop)
    {r : Nat} {v : Chain} (h : (world t F (ghostW W g req)).J r v) : (world t F W).J r v :=
  h.imp (Q_ghost F g hg req) (Q_ghost F g hg req)

theorem exists_ghost (t : Table) : ∃ g : Pid, g ∉ (ids t).toFinset :=
  Infinite.exists_notMem_finset _

/-- the standing assumptions about the committee and the votes in existence -/
structure Base (t : Table) (F : Finset Pid) (W : Votes) : Prop where
  idsNodup : (ids t).Nodup
  totalPos : 0 < t.total
  /-- Byzantine members hold less than a third of the scaled power -/
  faultBound : 3 * (world t F W).power F < (world t F W).T
  /-- only committee members' votes count -/
  nonMembers : ∀ p, p ∉ (ids t).toFinset → ∀ r ph v, ¬ W p r ph v

/-- **Every request of every incarnation is guarded in the real world `W`**, whether or not it was published. -/
structure SegFacts (t : Table) (F : Finset Pid) (W : Votes) (s : Segment W t) : Prop where
  prepare : ∀ r x, s.requested r .prepare x →
    x ≠ [] ∧ (r = 0 ∨ (world t F W).J r x) ∧ (x <+: s.input ∨ ∃ r', r' < r ∧ (world t F W).Q .prepare r' x)
  commit : ∀ r x, s.requested r .commit x → x ≠ [] → (world t F W).Q .prepare r x
  /-- COMMIT ⊥: the incarnation *requested* a PREPARE for `y` in that round and saw a valid PREPARE for `z ≠ y` -/
  commit_bottom : ∀ r, s.requested r .commit [] →
    ∃ y z, z ≠ y ∧ s.requested r .prepare y ∧ (r = 0 ∨ (world t F W).J r z)
  decide : ∀ x, s.requested 0 .decide x → x ≠ [] ∧ ∃ r, (world t F W).Q .commit r x
  /-- a decision reported by the incarnation is backed by a strong DECIDE quorum -/
  decision : ∀ d, s.final.termination = some d → (world t F W).Q .decide 0 d.value

theorem Segment.facts {F : Finset Pid} (B : Base t F W) (s : Segment W t) : SegFacts t F W s := by
  obtain ⟨g, hg⟩ := exists_ghost t
  have hgW := B.nonMembers g hg
  let hr := s.ghostRun g hgW
  have hgd := hr.guarded B.totalPos
  have hQ := fun (ph : Granite.Phase) (r : Nat) (v : Chain) (h : QL (ghostW W g s.requested) t r (gphase ph) v) =>
    Q_ghost F g hg s.requested (ql_to_Q t F _ B.idsNodup r ph v h)
  have hJ := fun (r : Nat) (v : Chain) (h : JL (ghostW W g s.requested) t r v) =>
    J_ghost F g hg s.requested (jl_to_J t F _ B.idsNodup r v h)
  refine ⟨?_, ?_, ?_, ?_, ?_⟩
  · rintro r x ⟨tk, j, hm⟩
    have h := hgd r .prepare x tk j hm
    refine ⟨h.1, h.2.1.imp id (hJ r x), h.2.2.imp id ?_⟩
    rintro ⟨r', hlt, hq⟩
    exact ⟨r', hlt, hQ .prepare r' x hq⟩
  · rintro r x ⟨tk, j, hm⟩ hne
    exact hQ .prepare r x ((hgd r .commit x tk j hm).2 hne)
  · rintro r ⟨tk, j, hm⟩
    obtain ⟨y, hy, s', z, hne, _, hjz⟩ := (hgd r .commit [] tk j hm).1 rfl
    refine ⟨y, z, hne, (hr.own r .prepare y).1 hy, hjz.imp id (hJ r z)⟩
  · rintro x ⟨tk, j, hm⟩
    obtain ⟨hne, r', hq⟩ := hgd 0 .decide x tk j hm rfl
    exact ⟨hne, r', hQ .commit r' x hq⟩
  · intro d hd
    exact Q_ghost F g hg s.requested (hr.decision_Q F B.idsNodup d hd)

/-! ### the restart-tolerant rules hold of the executable model -/

/-- **The restart-tolerant honest rules hold of any family of restarting model participants.** -/
theorem rulesR_of_runs {F : Finset Pid} (B : Base t F W)
    (runs : ∀ p, p ∈ (ids t).toFinset → p ∉ F → RestartingRun W t p) : (world t F W).RulesR := by
  refine ⟨B.faultBound, ?_, ?_, ?_, ?_, ?_⟩
  · intro p hp r ph x y hx hy
    by_cases hc : p ∈ (ids t).toFinset
    · exact (runs p hc hp).pub.single r (gphase ph) x y hx hy
    · exact absurd hx (B.nonMembers p hc _ _ _)
  · intro p hp r x hx
    by_cases hc : p ∈ (ids t).toFinset
    · obtain ⟨s, _, hreq⟩ := (runs p hc hp).pub.requested r .prepare x hx
      have h := (s.facts B).prepare r x hreq
      exact ⟨h.1, h.2.1⟩
    · exact absurd hx (B.nonMembers p hc _ _ _)
  · intro p hp r x hx
    by_cases hc : p ∈ (ids t).toFinset
    · obtain ⟨s, _, hreq⟩ := (runs p hc hp).pub.requested r .commit x hx
      by_cases hb : x = []
      · exact Or.inl hb
      · exact Or.inr ((s.facts B).commit r x hreq hb)
    · exact absurd hx (B.nonMembers p hc _ _ _)
  · intro p hp r hx
    by_cases hc : p ∈ (ids t).toFinset
    · obtain ⟨s, _, hreq⟩ := (runs p hc hp).pub.requested r .commit [] hx
      obtain ⟨y, z, hne, hy, hz⟩ := (s.facts B).commit_bottom r hreq
      exact ⟨y, z, hne, ((s.facts B).prepare r y hy).2.1, hz⟩
    · exact absurd hx (B.nonMembers p hc _ _ _)
  · intro p hp x hx
    by_cases hc : p ∈ (ids t).toFinset
    · obtain ⟨s, _, hreq⟩ := (runs p hc hp).pub.requested 0 .decide x hx
      exact (s.facts B).decide x hreq
    · exact absurd hx (B.nonMembers p hc _ _ _)

/-- one instance of a network whose honest members may crash and restart inside the instance -/
structure NetworkR (t : Table) (F : Finset Pid) (W : Votes) where
  base : Base t F W
  /-- every honest committee member runs the model, possibly in several incarnations -/
  runs : ∀ p, p ∈ (ids t).toFinset → p ∉ F → RestartingRun W t p

theorem NetworkR.rulesR {F : Finset Pid} (N : NetworkR t F W) : (world t F W).RulesR :=
  rulesR_of_runs N.base N.runs

/-- **Agreement across restarts.** -/
theorem model_agreement_restarts {F : Finset Pid} (N : NetworkR t F W)
    (p q : Pid) (hp : p ∈ (ids t).toFinset) (hpF : p ∉ F) (hq : q ∈ (ids t).toFinset) (hqF : q ∉ F)
    (sp : Segment W t) (_hsp : sp ∈ (N.runs p hp hpF).segs) (sq : Segment W t) (_hsq : sq ∈ (N.runs q hq hqF).segs)
    (dp dq : Just) (hdp : sp.final.termination = some dp) (hdq : sq.final.termination = some dq) :
    dp.value = dq.value :=
  World.RulesR.decide_quorums_agree N.rulesR ((sp.facts N.base).decision dp hdp) ((sq.facts N.base).decision dq hdq)

/-- **Validity across restarts.** A decision reported by any incarnation of an honest participant is a non-empty
prefix of the input chain of some incarnation of some honest committee member. -/
theorem model_validity_restarts {F : Finset Pid} (N : NetworkR t F W)
    (p : Pid) (hp : p ∈ (ids t).toFinset) (hpF : p ∉ F) (sp : Segment W t) (_hsp : sp ∈ (N.runs p hp hpF).segs)
    (d : Just) (hd : sp.final.termination = some d) :
    d.value ≠ [] ∧ ∃ h, ∃ hh : h ∈ (ids t).toFinset, ∃ hF : h ∉ F, ∃ s ∈ (N.runs h hh hF).segs, d.value <+: s.input := by
  refine World.RulesR.decided_good N.rulesR
    (fun x => ∃ h, ∃ hh : h ∈ (ids t).toFinset, ∃ hF : h ∉ F, ∃ s ∈ (N.runs h hh hF).segs, x <+: s.input) ?_
    ((sp.facts N.base).decision d hd)
  intro h hhF r x hx
  by_cases hc : h ∈ (ids t).toFinset
  · obtain ⟨s, hs, hreq⟩ := (N.runs h hc hhF).pub.requested r .prepare x hx
    rcases ((s.facts N.base).prepare r x hreq).2.2 with hpre | hq
    · exact Or.inl ⟨h, hc, hhF, s, hs, hpre⟩
    · exact Or.inr hq
  · exact absurd hx (N.base.nonMembers h hc _ _ _)

end F3.Restart
