import F3.Gen.SkelWal
/-!
# Expected statement skeletons (SkelWal)

Hand-pinned expectations for the REGENERATED skeletons of `F3.Gen.SkelWal` (tools/go2lean/skel.go): the pre-order
list of the statements of a Go function as `<depth>:<kind>`. The expression-level tie theorems pin what single
conditions say; these pin that nothing was added around them (an extra early return, a cap, a dropped branch). A
structural change of the function — harmful or not — breaks the `rfl` below and with it the obligation of every
property importing this file; the check then searches for a failing input as for any broken obligation.
-/
namespace F3.SkelTie.SkelWal
open F3.Gen.SkelWal

/-- the structure the model of `WalAppend` was written against -/
def skelWalAppendExpected : List String :=
  ["0:call:wal.lk.Lock", "0:defer", "0:if", "1:return1", "0:decl", "0:assign:=", "0:if", "1:return1",
   "0:assign:=", "0:if", "1:if", "2:if", "3:assign=", "1:return1", "0:assign=", "0:if", "1:return1",
   "0:assign=", "0:return1"]

theorem skelWalAppend_expected : skelWalAppend = skelWalAppendExpected := rfl

/-- the structure the model of `WalPurge` was written against -/
def skelWalPurgeExpected : List String :=
  ["0:call:wal.lk.Lock", "0:defer", "0:decl", "0:decl", "0:range", "1:if", "2:assign:=", "2:assign=",
   "2:branch:continue", "1:assign=", "0:assign=", "0:return1"]

theorem skelWalPurge_expected : skelWalPurge = skelWalPurgeExpected := rfl

/-- the structure the model of `WalClose` was written against -/
def skelWalCloseExpected : List String :=
  ["0:call:wal.lk.Lock", "0:defer", "0:return1"]

theorem skelWalClose_expected : skelWalClose = skelWalCloseExpected := rfl

end F3.SkelTie.SkelWal
