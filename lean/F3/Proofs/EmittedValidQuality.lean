import F3.Proofs.EmittedValidCands
import F3.Proofs.SyncGeneralVotes
/-!
# What the QUALITY tally means, and the round-0 PREPARE value on runs

* `qTally t vs`: the tally after the QUALITY votes `vs` (delivery order); `firstVotes vs`: the first vote of every
  sender; `qPower t vs x`: the total power of the distinct first-time senders whose vote counts for `x`
  (`x ∈ qualityPrefixes vote`, i.e. `x` is a prefix of the vote that extends the base by at least one tipset).
  `qTally_hasStrongFor`: `(qTally t vs).hasStrongFor x = strongQ t (qPower t vs x)` (positive total power).
* `tallied s op` / `qvotesFrom s ops`: the QUALITY votes of a run that reach the tally (not refused / dropped at the
  door). `quality_run`: the state's `quality` field is `qTally` of exactly those votes — for *every* run.
* `prepare0_run`: on validated runs a justification-free PREPARE is for round 0, is broadcast by the call that ends
  QUALITY, and its value is `longestPrefixWithQuorum input` over exactly the QUALITY votes tallied up to and including
  that call.

Core-only.
-/
namespace F3.EmittedValid
open F3.Instance F3.Sync F3.SyncGeneral

abbrev QVote := Pid × Chain

/-- the QUALITY tally after the votes `vs`, in delivery order -/
def qTally (t : Table) (vs : List QVote) : Tally := vs.foldl (fun q v => q.receiveEachPrefix t v.1 v.2) {}

/-- one step of `firstVotes` -/
def fvStep (acc : List QVote) (v : QVote) : List QVote := if acc.any (·.1 == v.1) then acc else acc ++ [v]

/-- the first vote of every sender, in delivery order (later votes of the same sender are ignored) -/
def firstVotes (vs : List QVote) : List QVote := vs.foldl fvStep []

/-- the senders among `fv` whose vote counts for `x` -/
def qSupporters (fv : List QVote) (x : Chain) : List Pid :=
  (fv.filter (fun e => decide (x ∈ qualityPrefixes e.2))).map (·.1)

/-- the power behind `x` in the QUALITY votes `vs` -/
def qPower (t : Table) (vs : List QVote) (x : Chain) : Nat := sumP t (qSupporters (firstVotes vs) x)

/-- the exact content of a QUALITY tally in terms of the first-time votes `fv` -/
structure QI (t : Table) (fv : List QVote) (Q : Tally) : Prop where
  senders : Q.senders = fv.map (·.1)
  nodup : (fv.map (·.1)).Nodup
  cand : ∀ k, candPower Q k = sumP t (qSupporters fv k)
  strongOk : ∀ k e, Q.findSupport k = some e → e.strong = strongQ t e.power

theorem QI_empty (t : Table) : QI t [] {} :=
  ⟨rfl, by simp, fun _ => rfl, by intro k e h; simp [Tally.findSupport] at h⟩

theorem qSupporters_snoc (fv : List QVote) (v : QVote) (k : Chain) :
    qSupporters (fv ++ [v]) k = qSupporters fv k ++ (if k ∈ qualityPrefixes v.2 then [v.1] else []) := by
  unfold qSupporters
  rw [List.filter_append, List.map_append]
  by_cases h : k ∈ qualityPrefixes v.2
  · simp [h]
  · simp [h]

theorem QI.receive {t : Table} {fv : List QVote} {Q : Tally} (h : QI t fv Q) (x : Pid) (c : Chain) :
    QI t (fvStep fv (x, c)) (Q.receiveEachPrefix t x c) := by
  unfold Tally.receiveEachPrefix fvStep
  by_cases hin : x ∈ Q.senders
  · have h1 : Q.senders.contains x = true := by simpa using hin
    have h2 : fv.any (fun e => e.1 == x) = true := by
      rw [h.senders] at hin
      simp only [List.mem_map] at hin
      obtain ⟨e, he, hex⟩ := hin
      simp only [List.any_eq_true, beq_iff_eq]
      exact ⟨e, he, hex⟩
    simp only [h1, h2, if_true]
    exact h
  · have h1 : Q.senders.contains x = false := by simpa using hin
    have h2 : fv.any (fun e => e.1 == x) = false := by
      rw [h.senders] at hin
      simp only [List.mem_map, not_exists, not_and] at hin
      rw [List.any_eq_false]
      intro e he
      simpa using hin e he
    simp only [h1, h2, Bool.false_eq_true, if_false]
    obtain ⟨f1, f2, f3⟩ := fold_bumps t x (t.power x) (qualityPrefixes c) (qualityPrefixes_nodup _)
      ({ Q with senders := Q.senders ++ [x], sendersPower := Q.sendersPower + t.power x } : Tally) h.strongOk
    generalize ((qualityPrefixes c).foldl (fun (acc : Tally) p => (acc.receiveInner t x p (t.power x) false).getD acc)
        ({ Q with senders := Q.senders ++ [x], sendersPower := Q.sendersPower + t.power x } : Tally)) = Q1 at f1 f2 f3
    have f2' : Q1.senders = Q.senders ++ [x] := f2
    refine ⟨?_, ?_, ?_, f3⟩
    · rw [f2', h.senders]; simp
    · rw [List.map_append, List.nodup_append]
      refine ⟨h.nodup, by simp, ?_⟩
      intro a ha b hb
      simp only [List.map_cons, List.map_nil, List.mem_singleton] at hb
      subst hb
      intro e; subst e
      rw [← h.senders] at ha
      exact hin ha
    · intro k
      rw [f1 k, qSupporters_snoc, sumP_append]
      have hc : candPower ({ Q with senders := Q.senders ++ [x], sendersPower := Q.sendersPower + t.power x } : Tally) k
          = candPower Q k := rfl
      rw [hc, h.cand k]
      by_cases hp : k ∈ qualityPrefixes c
      · simp only [hp, if_true, sumP_single]
      · simp only [hp, if_false, sumP_nil]

theorem qTally_QI_aux (t : Table) (vs : List QVote) (fv : List QVote) (Q : Tally) (h : QI t fv Q) :
    QI t (vs.foldl fvStep fv) (vs.foldl (fun q v => q.receiveEachPrefix t v.1 v.2) Q) := by
  induction vs generalizing fv Q with
  | nil => exact h
  | cons v vs ih =>
    simp only [List.foldl_cons]
    exact ih _ _ (h.receive v.1 v.2)

/-- the tally after the votes `vs` has exactly the content described by their first-time votes -/
theorem qTally_QI (t : Table) (vs : List QVote) : QI t (firstVotes vs) (qTally t vs) :=
  qTally_QI_aux t vs [] {} (QI_empty t)

theorem QI.hasStrongFor {t : Table} {fv : List QVote} {Q : Tally} (h : QI t fv Q) (hT : 0 < t.total) (k : Chain) :
    Q.hasStrongFor k = strongQ t (sumP t (qSupporters fv k)) := by
  have hc := h.cand k
  unfold candPower at hc
  unfold Tally.hasStrongFor
  cases hf : Q.findSupport k with
  | none =>
    rw [hf] at hc
    simp only [Option.getD_none] at hc
    rw [← hc]
    exact (strongQ_false_of t 0 (by omega)).symm
  | some e =>
    rw [hf] at hc
    simp only [Option.getD_some] at hc
    show e.strong = _
    rw [h.strongOk k e hf, hc]

/-- **What `hasStrongFor` means.** With positive total power: the QUALITY tally has a strong quorum for `x` iff the
distinct first-time senders whose vote counts for `x` hold a strong quorum of power. -/
theorem qTally_hasStrongFor (t : Table) (vs : List QVote) (hT : 0 < t.total) (x : Chain) :
    (qTally t vs).hasStrongFor x = strongQ t (qPower t vs x) :=
  (qTally_QI t vs).hasStrongFor hT x

/-- a vote counts for `x` iff `x` is a prefix of it that extends the base by at least one tipset -/
theorem counts_iff (c x : Chain) : x ∈ qualityPrefixes c ↔ x <+: c ∧ 2 ≤ x.length := mem_qualityPrefixes c x

/-- no chain of length `≤ 1` (bottom, a bare base) ever has a QUALITY quorum -/
theorem qTally_short (t : Table) (vs : List QVote) (hT : 0 < t.total) (x : Chain) (hx : x.length < 2) :
    (qTally t vs).hasStrongFor x = false := by
  rw [qTally_hasStrongFor t vs hT]
  have : qSupporters (firstVotes vs) x = [] := by
    unfold qSupporters
    rw [List.map_eq_nil_iff, List.filter_eq_nil_iff]
    intro e _
    simp only [decide_eq_true_eq]
    intro hm
    have := ((counts_iff _ _).1 hm).2
    omega
  unfold qPower
  rw [this, sumP_nil]
  exact strongQ_false_of t 0 (by omega)

/-- the first-time votes: one per sender, each of them one of the delivered votes -/
theorem firstVotes_spec (vs : List QVote) :
    ((firstVotes vs).map (·.1)).Nodup ∧ (∀ e ∈ firstVotes vs, e ∈ vs) ∧
      ∀ e ∈ vs, ∃ e' ∈ firstVotes vs, e'.1 = e.1 := by
  unfold firstVotes
  suffices h : ∀ (vs acc : List QVote), (acc.map (·.1)).Nodup →
      ((vs.foldl fvStep acc).map (·.1)).Nodup ∧ (∀ e ∈ vs.foldl fvStep acc, e ∈ acc ∨ e ∈ vs) ∧
      (∀ e ∈ acc, e ∈ vs.foldl fvStep acc) ∧ ∀ e ∈ vs, ∃ e' ∈ vs.foldl fvStep acc, e'.1 = e.1 by
    obtain ⟨h1, h2, _, h4⟩ := h vs [] (by simp)
    exact ⟨h1, fun e he => (h2 e he).resolve_left (by simp), h4⟩
  intro vs
  induction vs with
  | nil => intro acc h; exact ⟨h, fun e he => Or.inl he, fun e he => he, fun e he => by simp at he⟩
  | cons v vs ih =>
    intro acc hnd
    simp only [List.foldl_cons]
    have hnd' : ((fvStep acc v).map (·.1)).Nodup := by
      unfold fvStep
      split
      · exact hnd
      · rename_i hany
        rw [List.map_append, List.nodup_append]
        refine ⟨hnd, by simp, ?_⟩
        intro a ha b hb
        simp only [List.map_cons, List.map_nil, List.mem_singleton] at hb
        subst hb
        intro e; subst e
        apply hany
        simp only [List.mem_map] at ha
        obtain ⟨e, he, hex⟩ := ha
        simp only [List.any_eq_true, beq_iff_eq]
        exact ⟨e, he, hex⟩
    obtain ⟨i1, i2, i3, i4⟩ := ih (fvStep acc v) hnd'
    have hsub : ∀ e ∈ fvStep acc v, e ∈ acc ∨ e = v := by
      intro e he
      unfold fvStep at he
      split at he
      · exact Or.inl he
      · simpa using he
    have hsup : ∀ e ∈ acc, e ∈ fvStep acc v := by
      intro e he
      unfold fvStep
      split
      · exact he
      · exact List.mem_append_left _ he
    have hv : ∃ e' ∈ fvStep acc v, e'.1 = v.1 := by
      unfold fvStep
      split
      · rename_i hany
        simp only [List.any_eq_true, beq_iff_eq] at hany
        exact hany
      · exact ⟨v, by simp, rfl⟩
    refine ⟨i1, ?_, fun e he => i3 e (hsup e he), ?_⟩
    · intro e he
      rcases i2 e he with h | h
      · rcases hsub e h with h | h
        · exact Or.inl h
        · exact Or.inr (by rw [h]; exact List.mem_cons_self)
      · exact Or.inr (List.mem_cons_of_mem _ h)
    · intro e he
      rcases List.mem_cons.1 he with rfl | he
      · obtain ⟨e', he', hx⟩ := hv
        exact ⟨e', i3 e' he', hx⟩
      · exact i4 e he

/-! ## the `quality` field of a run is `qTally` of the tallied votes -/

/-- the QUALITY vote a call hands to the tally, if any: a QUALITY message that passes the door checks of
`receiveOne` (right instance, supplemental data and base; the instance has not terminated; not beyond the
look-ahead) -/
def tallied (s : State) : Op → Option QVote
  | .recv _ m => if s.recvPre m = .accept ∧ m.phase = .quality then some (m.sender, m.value) else none
  | _ => none

/-- the QUALITY votes tallied along a run from `s`, in order -/
def qvotesFrom : State → List Op → List QVote
  | _, [] => []
  | s, op :: ops => (tallied s op).toList ++ qvotesFrom (step s op).1 ops

theorem postReceive_quality (s : State) (now : Int) (round : Nat) : (s.postReceive now round).1.quality = s.quality := by
  rcases postReceive_eq s now round with heq | ⟨p, _, _, _, _, heq⟩
  · rw [heq]
  · rw [heq]; simp [(skipState_quality_input s round p).1]

theorem recvQuality_quality (s : State) (now : Int) (m : Msg) :
    (s.recvQuality now m).1.quality = s.quality.receiveEachPrefix s.tbl m.sender m.value := by
  unfold State.recvQuality
  dsimp only
  split
  · simp [State.updateCandidatesFromQuality]
  · exact (tryCurrentPhase_cstep _ now).quality

theorem receiveOne_quality (s : State) (now : Int) (m : Msg) :
    (s.receiveOne now m).1.1.quality =
      if s.recvPre m = .accept ∧ m.phase = .quality then s.quality.receiveEachPrefix s.tbl m.sender m.value
      else s.quality := by
  unfold State.receiveOne
  split
  · rename_i k hk; simp [hk]
  · rename_i hk; simp [hk]
  · rename_i hacc
    split
    · rename_i hph; simp only [hacc, hph, and_self, if_true]; exact recvQuality_quality s now m
    · rename_i hph
      simp only [hph, reduceCtorEq, and_false, if_false]
      split
      · rfl
      · split
        · rfl
        · exact (recvConverge_cstep s now m _).quality
    · rename_i hph; simp only [hph, reduceCtorEq, and_false, if_false]; exact (recvPrepare_cstep s now m).quality
    · rename_i hph; simp only [hph, reduceCtorEq, and_false, if_false]; exact (recvCommit_cstep s now m).quality
    · rename_i hph; simp only [hph, reduceCtorEq, and_false, if_false]; exact (recvDecide_cstep s now m).quality
    · rename_i h1 h2 h3 h4 h5
      have : m.phase ≠ .quality := h1
      simp only [this, and_false, if_false]

theorem step_quality (s : State) (op : Op) :
    (step s op).1.quality = match tallied s op with
      | some v => s.quality.receiveEachPrefix s.tbl v.1 v.2
      | none => s.quality := by
  cases op with
  | start now => simp [step, tallied]
  | alarm now => simp only [step, tallied]; exact (tryCurrentPhase_cstep s now).quality
  | recv now m =>
    have hro := receiveOne_quality s now m
    unfold step tallied
    dsimp only
    split
    · rename_i hst
      have hst' : s.phase = .terminated := by simpa using hst
      have : s.recvPre m ≠ .accept := fun h => recvPre_accept_not_terminated s m h hst'
      simp [this]
    · generalize s.receiveOne now m = ro at *
      obtain ⟨r, changed⟩ := ro
      dsimp only at *
      have hq : (if hasFailure r.2 = true then r else if changed = true then andThen r (fun st => st.postReceive now m.round)
          else r).1.quality = r.1.quality := by
        split
        · rfl
        · split
          · unfold andThen
            split
            · rfl
            · exact postReceive_quality _ _ _
          · rfl
      rw [hq, hro]
      split <;> rfl

/-- **The QUALITY tally of a run.** From any state, along any sequence of calls: the `quality` field is the initial
one with exactly the tallied votes received, in order. -/
theorem quality_runFrom (s : State) (ops : List Op) :
    (runFrom s ops).1.quality = (qvotesFrom s ops).foldl (fun q v => q.receiveEachPrefix s.tbl v.1 v.2) s.quality := by
  induction ops generalizing s with
  | nil => rfl
  | cons op ops ih =>
    rw [runFrom_cons]
    simp only [qvotesFrom, List.foldl_append]
    rw [ih, step_tbl, step_quality]
    cases tallied s op <;> rfl

/-- for runs of a fresh instance: `quality = qTally t (tallied votes)` — no hypothesis on the calls at all -/
theorem quality_run (cfg : Cfg) (t : Table) (input : Chain) (ops : List Op) :
    (run (init cfg t input) ops).1.quality = qTally t (qvotesFrom (init cfg t input) ops) := by
  rw [run_eq_runFrom, quality_runFrom]; rfl

/-! ## the round-0 PREPARE value -/

theorem runFrom_append (s : State) (a b : List Op) :
    runFrom s (a ++ b) = ((runFrom (runFrom s a).1 b).1, (runFrom s a).2 ++ (runFrom (runFrom s a).1 b).2) := by
  induction a generalizing s with
  | nil => simp [runFrom]
  | cons op a ih =>
    rw [List.cons_append, runFrom_cons, runFrom_cons, ih]
    simp [List.append_assoc]

/-- an effect of a run is an effect of one of its calls -/
theorem mem_runFrom_split (s : State) (ops : List Op) (e : Eff) (h : e ∈ (runFrom s ops).2) :
    ∃ ops1 op ops2, ops = ops1 ++ op :: ops2 ∧ e ∈ (step (runFrom s ops1).1 op).2 := by
  induction ops generalizing s with
  | nil => simp [runFrom] at h
  | cons op ops ih =>
    rw [runFrom_cons] at h
    rcases List.mem_append.1 h with h | h
    · exact ⟨[], op, ops, rfl, by simpa [runFrom] using h⟩
    · obtain ⟨o1, o, o2, he, hm⟩ := ih _ h
      refine ⟨op :: o1, o, o2, by rw [he]; rfl, ?_⟩
      rw [runFrom_cons]; exact hm

theorem runFrom_input (s : State) (ops : List Op) (hq : DQ s) (hops : ∀ op ∈ ops, OpOk op)
    (hnf : hasFailure (runFrom s ops).2 = false) : (runFrom s ops).1.input = s.input := by
  induction ops generalizing s with
  | nil => rfl
  | cons op ops ih =>
    rw [runFrom_cons] at hnf ⊢
    simp only [Instance.hasFailure_append, Bool.or_eq_false_iff] at hnf
    have hmsg := hops op (by simp)
    have hq1 : DQ (step s op).1 := by
      rcases step_ok s op hq hmsg with hf | ⟨_, hq'⟩
      · exact absurd (hf.symm.trans hnf.1) (by decide)
      · exact hq'
    rw [ih _ hq1 (fun o ho => hops o (by simp [ho])) hnf.2]
    exact (step_cstep s op hq hmsg).input

theorem step_input (s : State) (op : Op) : (step s op).1.input = s.input := by
  cases op with
  | start now => simp [step]
  | alarm now => exact (tryCurrentPhase_tbl_input s now).2
  | recv now m =>
    unfold step
    dsimp only
    split
    · rfl
    · have hti := receiveOne_tbl_input s now m
      generalize s.receiveOne now m = ro at *
      obtain ⟨r, changed⟩ := ro
      dsimp only at *
      split
      · exact hti.2
      · split
        · unfold andThen; split
          · exact hti.2
          · simp; exact hti.2
        · exact hti.2

theorem runFrom_input' (s : State) (ops : List Op) : (runFrom s ops).1.input = s.input := by
  induction ops generalizing s with
  | nil => rfl
  | cons op ops ih => rw [runFrom_cons, ih, step_input]

/-- **The round-0 PREPARE value on runs.** In every validated run (one `Start`, then alarms and validated or foreign
deliveries; no failure hypothesis): a PREPARE without justification is for round 0; it is broadcast by a call `op`
before which the instance is in QUALITY and after which it is not; and its value is `longestPrefixWithQuorum` of the
input over exactly the QUALITY votes tallied up to and including that call. -/
theorem prepare0_run (cfg : Cfg) (t : Table) (input : Chain) (W : Votes) (now0 : Int) (ops : List Op)
    (hin : input ≠ []) (hT : 0 < t.total)
    (hstart : ∀ op ∈ ops, op.isStart = false)
    (hvalid : ∀ op ∈ ops, foreignOp op = true ∨ OpValidG W t op)
    (r : Nat) (v : Chain) (tk : Bool)
    (hm : Eff.broadcast r .prepare v tk none ∈ (run (init cfg t input) (.start now0 :: ops)).2) :
    r = 0 ∧ ∃ ops1 op ops2, ops = ops1 ++ op :: ops2 ∧
      (run (init cfg t input) (.start now0 :: ops1)).1.phase = .quality ∧
      (run (init cfg t input) (.start now0 :: (ops1 ++ [op]))).1.phase ≠ .quality ∧
      Eff.broadcast r .prepare v tk none ∈ (step (run (init cfg t input) (.start now0 :: ops1)).1 op).2 ∧
      v = (qTally t (qvotesFrom (init cfg t input) (.start now0 :: (ops1 ++ [op])))).longestPrefixWithQuorum input := by
  constructor
  · -- round 0: the shape theorem over the trivial vote set
    have hsh := run_shaped cfg t input WT 0 now0 ops hin hT hstart
      (fun op hop => (hvalid op hop).imp id (fun hv => hv.top)) (fun _ _ _ _ _ _ => trivial) r .prepare v tk none hm
    by_cases h0 : r = 0
    · exact h0
    · obtain ⟨j', hj', _⟩ := hsh.2 (by omega)
      cases hj'
  · rw [run_eq_runFrom] at hm
    obtain ⟨o1, o, o2, he, hmo⟩ := mem_runFrom_split _ _ _ hm
    cases o1 with
    | nil =>
      -- the `Start` call broadcasts QUALITY only
      simp only [List.nil_append, List.cons.injEq] at he
      obtain ⟨rfl, _⟩ := he
      simp [runFrom, step, State.beginQuality, init, State.alarmAfter, State.resetReb] at hmo
    | cons o0 ops1 =>
      simp only [List.cons_append, List.cons.injEq] at he
      obtain ⟨rfl, rfl⟩ := he
      have hstart1 : ∀ op ∈ ops1, op.isStart = false := fun op hop => hstart op (by simp [hop])
      have hvalid1 : ∀ op ∈ ops1, foreignOp op = true ∨ OpValidG W t op := fun op hop => hvalid op (by simp [hop])
      obtain ⟨hc, _, _, hq⟩ := run_cci cfg t input W now0 ops1 hin hT hstart1 hvalid1
      rw [run_eq_runFrom] at hc hq
      have hov : OpValidG W t o := by
        rcases hvalid o (by simp) with hf | hv
        · exfalso
          cases o with
          | recv now m =>
            obtain ⟨k, hk, _⟩ := step_refusedOp (s := (runFrom (init cfg t input) (.start now0 :: ops1)).1)
              (op := .recv now m) (foreignM_refusedM _ m hf)
            rw [hk] at hmo; simp at hmo
          | start _ => cases hf
          | alarm _ => cases hf
        · exact hv
      have hop : OpOk o := by
        cases o with
        | recv now m => exact MsgValid.msgOk (W := W) hov
        | start _ => trivial
        | alarm _ => trivial
      obtain ⟨a1, a2, a3, _⟩ := (step_cstep _ o hq hop).prep hc r v tk hmo
      have hs2 : (run (init cfg t input) (.start now0 :: (ops1 ++ [o]))).1 =
          (step (runFrom (init cfg t input) (.start now0 :: ops1)).1 o).1 := by
        rw [run_eq_runFrom, ← List.cons_append, runFrom_append]
        simp [runFrom]
      refine ⟨ops1, o, o2, rfl, a1, by rw [hs2]; exact a3, hmo, ?_⟩
      rw [a2, ← hs2]
      unfold LP
      rw [quality_run, run_eq_runFrom, runFrom_input']
      rfl

end F3.EmittedValid
