import F3.Model.Certs
import F3.Proofs.SMap
/-! Lemmas for C04's delta algebra: `applyLoop` and `makeDiff` in terms of their pointwise effect on
id-sorted maps. -/
namespace F3.Certs
open F3.SMap

abbrev L (m : Table) (i : Nat) : Option Entry := lookup Entry.id m i
abbrev LD (d : Diff) (i : Nat) : Option Delta := lookup Delta.id d i

/-- pointwise effect of a delta on the (optional) entry carrying its id -/
def stepSpec (o : Option Entry) (d : Delta) : Except DiffErr (Option Entry) :=
  match o with
  | some pe =>
    if d.key == pe.key then .error .unchangedKey
    else if d.key != 0 && pe.power + d.delta == 0 then .error .removeWithKey
    else if pe.power + d.delta == 0 then .ok none
    else if pe.power + d.delta > 0 then
      .ok (some ⟨d.id, pe.power + d.delta, if d.key != 0 then d.key else pe.key⟩)
    else .error .negative
  | none =>
    if d.delta ≤ 0 then .error .newNonPositive
    else if d.key == 0 then .error .newNoKey
    else .ok (some ⟨d.id, d.delta, d.key⟩)

/-- write the pointwise result back into the map -/
def putBack (m : Table) (i : Nat) : Option Entry → Table
  | none => erase Entry.id i m
  | some e => insert Entry.id e m

theorem applyDelta_eq (m : Table) (d : Delta) :
    applyDelta m d = match stepSpec (L m d.id) d with
      | .error e => .error e
      | .ok r => .ok (putBack m d.id r) := by
  unfold applyDelta stepSpec L
  cases lookup Entry.id m d.id with
  | none =>
    simp only
    split
    · rfl
    · split <;> rfl
  | some pe =>
    simp only
    split
    · rfl
    · split
      · rfl
      · split
        · rfl
        · split <;> rfl

theorem stepSpec_id {o : Option Entry} {d : Delta} {e : Entry}
    (h : stepSpec o d = .ok (some e)) : e.id = d.id := by
  unfold stepSpec at h
  split at h
  · split at h; · cases h
    split at h; · cases h
    split at h; · cases h
    split at h
    · cases h; rfl
    · cases h
  · split at h; · cases h
    split at h; · cases h
    cases h; rfl

theorem lookup_putBack {m : Table} {d : Delta} {r : Option Entry} {o : Option Entry}
    (h : stepSpec o d = .ok r) (i : Nat) :
    L (putBack m d.id r) i = if i = d.id then r else L m i := by
  unfold L
  cases r with
  | none => simp only [putBack]; rw [lookup_erase]
  | some e =>
    have hid := stepSpec_id h
    simp only [putBack]; rw [lookup_insert, hid]
    by_cases hi : i = d.id
    · simp [hi]
    · have : d.id ≠ i := fun e => hi e.symm
      simp [hi, this]

theorem ssorted_putBack {m : Table} (hs : SSorted Entry.id m) (i : Nat) (r : Option Entry) :
    SSorted Entry.id (putBack m i r) := by
  cases r with
  | none => exact ssorted_erase _ _ hs
  | some e => exact ssorted_insert _ _ hs

/-- `prev < i` when there is a previous id -/
def above (prev : Option Nat) (i : Nat) : Prop :=
  match prev with
  | some p => p < i
  | none => True

theorem prevCheck_false {prev : Option Nat} {i : Nat} (h : above prev i) :
    outOfOrder prev i = false := by
  cases prev with
  | none => rfl
  | some p => simp only [above] at h; simp [outOfOrder]; omega

theorem above_of_prevCheck {prev : Option Nat} {i : Nat}
    (h : ¬ outOfOrder prev i = true) : above prev i := by
  cases prev with
  | none => trivial
  | some p => simp only [above]; simp [outOfOrder] at h; omega

/-- the conditions under which `applyLoop` accepts, stated pointwise against the *input* map -/
def Good (m : Table) (prev : Option Nat) (d : Diff) : Prop :=
  d.Pairwise (fun a b => a.id < b.id) ∧
  (∀ δ ∈ d, above prev δ.id) ∧
  ∀ δ ∈ d, δ.isZero = false ∧ ∃ r, stepSpec (L m δ.id) δ = .ok r

/-- the map after a good diff, pointwise -/
def after (m : Table) (d : Diff) (i : Nat) : Option Entry :=
  match LD d i with
  | none => L m i
  | some δ =>
    match stepSpec (L m i) δ with
    | .ok r => r
    | .error _ => none

theorem applyLoop_ok_of_good {m : Table} {prev : Option Nat} {d : Diff}
    (hs : SSorted Entry.id m) (hg : Good m prev d) :
    ∃ m', applyLoop m prev d = .ok m' ∧ SSorted Entry.id m' ∧ ∀ i, L m' i = after m d i := by
  induction d generalizing m prev with
  | nil =>
    exact ⟨m, rfl, hs, fun i => by simp [after, LD, lookup_nil]⟩
  | cons δ ds ih =>
    obtain ⟨hpw, hab, hok⟩ := hg
    have hpw' := List.pairwise_cons.mp hpw
    obtain ⟨hnz, r, hr⟩ := hok δ (List.mem_cons_self ..)
    have hprev := prevCheck_false (hab δ (List.mem_cons_self ..))
    -- the tail is good for the updated map
    have hs1 : SSorted Entry.id (putBack m δ.id r) := ssorted_putBack hs _ _
    have hg1 : Good (putBack m δ.id r) (some δ.id) ds := by
      refine ⟨hpw'.2, ?_, ?_⟩
      · intro δ' hδ'; exact hpw'.1 δ' hδ'
      · intro δ' hδ'
        obtain ⟨hz, r', hr'⟩ := hok δ' (List.mem_cons_of_mem _ hδ')
        refine ⟨hz, r', ?_⟩
        have hne : δ'.id ≠ δ.id := by have := hpw'.1 δ' hδ'; omega
        rw [lookup_putBack hr, if_neg hne]; exact hr'
    obtain ⟨m', hm', hs', hl'⟩ := ih hs1 hg1
    refine ⟨m', ?_, hs', ?_⟩
    · unfold applyLoop
      rw [hprev, hnz, applyDelta_eq, hr]
      simpa using hm'
    · intro i
      rw [hl' i]
      unfold after LD
      rw [lookup_cons]
      by_cases hi : δ.id = i
      · -- i is the head's id: the tail does not mention it
        have hnone : lookup Delta.id ds i = none := by
          rw [lookup_none_iff]; intro δ' hδ'; have := hpw'.1 δ' hδ'; omega
        rw [hnone, if_pos hi]
        simp only
        rw [lookup_putBack hr, if_pos hi.symm, ← hi, hr]
      · rw [if_neg hi]
        cases hld : lookup Delta.id ds i with
        | none => simp only; rw [lookup_putBack hr, if_neg (fun e => hi e.symm)]
        | some δ' =>
          simp only
          rw [lookup_putBack hr, if_neg (fun e => hi e.symm)]

theorem good_of_applyLoop_ok {m : Table} {prev : Option Nat} {d : Diff} {m' : Table}
    (h : applyLoop m prev d = .ok m') : Good m prev d := by
  induction d generalizing m prev with
  | nil => exact ⟨List.Pairwise.nil, by simp, by simp⟩
  | cons δ ds ih =>
    unfold applyLoop at h
    split at h
    · cases h
    · rename_i hprev
      split at h
      · cases h
      · rename_i hnz
        rw [applyDelta_eq] at h
        cases hr : stepSpec (L m δ.id) δ with
        | error e => rw [hr] at h; cases h
        | ok r =>
          rw [hr] at h
          simp only at h
          have hg := ih h
          obtain ⟨hpw, hab, hok⟩ := hg
          have habove : above prev δ.id := above_of_prevCheck hprev
          refine ⟨List.pairwise_cons.mpr ⟨fun δ' hδ' => hab δ' hδ', hpw⟩, ?_, ?_⟩
          · intro δ' hδ'
            rcases List.mem_cons.mp hδ' with e | e
            · rw [e]; exact habove
            · have h1 : δ.id < δ'.id := hab δ' e
              cases prev with
              | none => trivial
              | some p => simp only [above] at *; omega
          · intro δ' hδ'
            rcases List.mem_cons.mp hδ' with e | e
            · rw [e]; exact ⟨by simpa using hnz, r, hr⟩
            · obtain ⟨hz, r', hr'⟩ := hok δ' e
              refine ⟨hz, r', ?_⟩
              have hne : δ'.id ≠ δ.id := by have h1 : δ.id < δ'.id := hab δ' e; omega
              rw [lookup_putBack hr, if_neg hne] at hr'; exact hr'

/-! ## `makeDiff` pointwise -/

/-- the canonical delta for one id, given the old and the new entry carrying it -/
def dspec (o n : Option Entry) : Option Delta :=
  match o, n with
  | some o, some e => if (deltaFor o e).isZero then none else some (deltaFor o e)
  | none, some e => some ⟨e.id, e.power, e.key⟩
  | some o, none => some ⟨o.id, -o.power, 0⟩
  | none, none => none

theorem dspec_id {a b : Table} {i : Nat} {δ : Delta} (h : dspec (L a i) (L b i) = some δ) :
    δ.id = i := by
  unfold dspec at h
  cases ha : L a i with
  | none =>
    cases hb : L b i with
    | none => rw [ha, hb] at h; cases h
    | some e =>
      rw [ha, hb] at h; simp only [Option.some.injEq] at h
      rw [← h]; exact lookup_key Entry.id hb
  | some o =>
    cases hb : L b i with
    | none =>
      rw [ha, hb] at h; simp only [Option.some.injEq] at h
      rw [← h]; exact lookup_key Entry.id ha
    | some e =>
      rw [ha, hb] at h; simp only at h
      split at h
      · cases h
      · simp only [Option.some.injEq] at h
        rw [← h]; exact lookup_key Entry.id hb

/-- invariant of the loop over the new table in `MakePowerTableDiff`; `p` = entries processed -/
structure MkInv (a : Table) (p : Table) (st : Table × Diff) : Prop where
  sorted : SSorted Entry.id st.1
  look : ∀ i, L st.1 i = if i ∈ p.map Entry.id then none else L (toMap a) i
  sub : (st.2.map Delta.id).Sublist (p.map Entry.id)
  mem : ∀ δ, δ ∈ st.2 ↔ ∃ e ∈ p, dspec (L (toMap a) e.id) (some e) = some δ

theorem mkInv_init (a : Table) : MkInv a [] (toMap a, []) where
  sorted := ssorted_ofList _ _
  look := by intro i; simp
  sub := by simp
  mem := by intro δ; simp

theorem mkInv_step {a p : Table} {st : Table × Diff} (e : Entry) (h : MkInv a p st)
    (hne : e.id ∉ p.map Entry.id) : MkInv a (p ++ [e]) (makeDiffStep st e) := by
  have hl : L st.1 e.id = L (toMap a) e.id := by rw [h.look, if_neg hne]
  have hmemp : ∀ i, i ∈ (p ++ [e]).map Entry.id ↔ (i ∈ p.map Entry.id ∨ i = e.id) := by
    intro i; simp
  unfold makeDiffStep
  cases ho : lookup Entry.id st.1 e.id with
  | none =>
    have ho' : L (toMap a) e.id = none := by rw [← hl]; exact ho
    simp only
    refine ⟨h.sorted, ?_, ?_, ?_⟩
    · intro i
      rw [h.look]
      by_cases hi : i = e.id
      · have : i ∈ (p ++ [e]).map Entry.id := (hmemp i).mpr (Or.inr hi)
        rw [if_pos this, hi, if_neg hne, ho']
      · by_cases hp : i ∈ p.map Entry.id
        · rw [if_pos hp, if_pos ((hmemp i).mpr (Or.inl hp))]
        · have : i ∉ (p ++ [e]).map Entry.id := fun hh => by
            rcases (hmemp i).mp hh with h1 | h1
            · exact hp h1
            · exact hi h1
          rw [if_neg hp, if_neg this]
    · simp only [List.map_append, List.map_cons, List.map_nil]
      exact List.Sublist.append h.sub (List.Sublist.refl _)
    · intro δ
      simp only [List.mem_append, List.mem_singleton]
      rw [h.mem]
      constructor
      · rintro (⟨e', he', hd⟩ | hd)
        · exact ⟨e', Or.inl he', hd⟩
        · refine ⟨e, Or.inr rfl, ?_⟩
          rw [ho', hd]; rfl
      · rintro ⟨e', he' | he', hd⟩
        · exact Or.inl ⟨e', he', hd⟩
        · subst he'
          rw [ho'] at hd
          simp only [dspec, Option.some.injEq] at hd
          exact Or.inr hd.symm
  | some o =>
    have ho' : L (toMap a) e.id = some o := by rw [← hl]; exact ho
    simp only
    refine ⟨ssorted_erase _ _ h.sorted, ?_, ?_, ?_⟩
    · intro i
      show lookup Entry.id (erase Entry.id e.id st.1) i = _
      rw [lookup_erase]
      by_cases hi : i = e.id
      · rw [if_pos hi, if_pos ((hmemp i).mpr (Or.inr hi))]
      · rw [if_neg hi]
        have := h.look i
        unfold L at this
        rw [this]
        by_cases hp : i ∈ p.map Entry.id
        · rw [if_pos hp, if_pos ((hmemp i).mpr (Or.inl hp))]
        · have : i ∉ (p ++ [e]).map Entry.id := fun hh => by
            rcases (hmemp i).mp hh with h1 | h1
            · exact hp h1
            · exact hi h1
          rw [if_neg hp, if_neg this]
    · show (List.map Delta.id (if (deltaFor o e).isZero then st.2 else st.2 ++ [deltaFor o e])).Sublist _
      split
      · simp only [List.map_append, List.map_cons, List.map_nil]
        exact (h.sub.trans (List.sublist_append_left _ _))
      · simp only [List.map_append, List.map_cons, List.map_nil]
        exact List.Sublist.append h.sub (List.Sublist.refl _)
    · intro δ
      show δ ∈ (if (deltaFor o e).isZero then st.2 else st.2 ++ [deltaFor o e]) ↔ _
      split
      · rename_i hz
        rw [h.mem]
        constructor
        · rintro ⟨e', he', hd⟩
          exact ⟨e', List.mem_append.mpr (Or.inl he'), hd⟩
        · rintro ⟨e', he', hd⟩
          rcases List.mem_append.mp he' with he' | he'
          · exact ⟨e', he', hd⟩
          · rw [List.mem_singleton] at he'; subst he'
            rw [ho'] at hd
            simp only [dspec, hz, if_true] at hd
            cases hd
      · rename_i hz
        simp only [List.mem_append, List.mem_singleton]
        rw [h.mem]
        constructor
        · rintro (⟨e', he', hd⟩ | hd)
          · exact ⟨e', Or.inl he', hd⟩
          · refine ⟨e, Or.inr rfl, ?_⟩
            rw [ho', hd]
            simp only [dspec, hz]
            rfl
        · rintro ⟨e', he' | he', hd⟩
          · exact Or.inl ⟨e', he', hd⟩
          · subst he'
            rw [ho'] at hd
            simp only [dspec, hz] at hd
            exact Or.inr (Option.some.inj hd).symm

theorem mkInv_fold {a : Table} (rest p : Table) (st : Table × Diff) (h : MkInv a p st)
    (hnd : ((p ++ rest).map Entry.id).Nodup) :
    MkInv a (p ++ rest) (rest.foldl makeDiffStep st) := by
  induction rest generalizing p st with
  | nil => simpa using h
  | cons e es ih =>
    have hne : e.id ∉ p.map Entry.id := by
      intro hm
      rw [List.map_append, List.map_cons] at hnd
      have := (List.nodup_append.mp hnd).2.2 e.id hm e.id (List.mem_cons_self ..)
      exact this rfl
    have := ih (p ++ [e]) (makeDiffStep st e) (mkInv_step e h hne) (by simpa using hnd)
    simpa using this

theorem insertBy_perm {α : Type} (le : α → α → Bool) (x : α) (l : List α) :
    (insertBy le x l).Perm (x :: l) := by
  induction l with
  | nil => exact List.Perm.refl _
  | cons y ys ih =>
    unfold insertBy
    split
    · exact List.Perm.refl _
    · exact (ih.cons y).trans (List.Perm.swap x y ys)

theorem sortBy_perm {α : Type} (le : α → α → Bool) (l : List α) : (sortBy le l).Perm l := by
  induction l with
  | nil => exact List.Perm.refl _
  | cons x xs ih =>
    show (insertBy le x (sortBy le xs)).Perm (x :: xs)
    exact (insertBy_perm le x _).trans (ih.cons x)

theorem insertBy_pairwise {α : Type} (le : α → α → Bool)
    (htrans : ∀ a b c, le a b = true → le b c = true → le a c = true)
    (htotal : ∀ a b, (le a b || le b a) = true) (x : α) (l : List α)
    (h : l.Pairwise (fun a b => le a b = true)) :
    (insertBy le x l).Pairwise (fun a b => le a b = true) := by
  induction l with
  | nil => simp [insertBy]
  | cons y ys ih =>
    have h' := List.pairwise_cons.mp h
    unfold insertBy
    split
    · rename_i hxy
      refine List.pairwise_cons.mpr ⟨?_, h⟩
      intro z hz
      rcases List.mem_cons.mp hz with hz | hz
      · rw [hz]; exact hxy
      · exact htrans _ _ _ hxy (h'.1 z hz)
    · rename_i hxy
      have hyx : le y x = true := by
        have := htotal x y
        simp only [Bool.or_eq_true] at this
        rcases this with h1 | h1
        · exact absurd h1 hxy
        · exact h1
      refine List.pairwise_cons.mpr ⟨?_, ih h'.2⟩
      intro z hz
      have := (insertBy_perm le x ys).mem_iff.mp hz
      rcases List.mem_cons.mp this with hz | hz
      · rw [hz]; exact hyx
      · exact h'.1 z hz

theorem sortBy_pairwise {α : Type} (le : α → α → Bool)
    (htrans : ∀ a b c, le a b = true → le b c = true → le a c = true)
    (htotal : ∀ a b, (le a b || le b a) = true) (l : List α) :
    (sortBy le l).Pairwise (fun a b => le a b = true) := by
  induction l with
  | nil => exact List.Pairwise.nil
  | cons x xs ih => exact insertBy_pairwise le htrans htotal x _ ih

theorem sortDeltas_perm (l : Diff) : (sortDeltas l).Perm l := sortBy_perm _ _

theorem sortDeltas_sorted (l : Diff) : (sortDeltas l).Pairwise (fun a b => a.id ≤ b.id) := by
  have := sortBy_pairwise (fun (a b : Delta) => decide (a.id ≤ b.id))
    (by intro a b c; simp only [decide_eq_true_eq]; omega)
    (by intro a b; simp only [Bool.or_eq_true, decide_eq_true_eq]; omega) l
  exact this.imp (by intro a b h; simpa using h)

theorem ssorted_sortDeltas {l : Diff} (hnd : (l.map Delta.id).Nodup) :
    SSorted Delta.id (sortDeltas l) := by
  have hp := sortDeltas_perm l
  have hnd' : ((sortDeltas l).map Delta.id).Nodup := (hp.map Delta.id).nodup_iff.mpr hnd
  have hne : (sortDeltas l).Pairwise (fun a b => a.id ≠ b.id) := by
    unfold List.Nodup at hnd'
    rwa [List.pairwise_map] at hnd'
  unfold SSorted
  exact ((sortDeltas_sorted l).and hne).imp (by intro a b h; omega)

theorem lookup_toMap {a : Table} (ha : (a.map Entry.id).Nodup) (i : Nat) : L (toMap a) i = L a i :=
  lookup_ofList Entry.id ha i

/-- `MakePowerTableDiff` pointwise: strictly id-sorted, and at each id the canonical delta. -/
theorem makeDiff_spec {a b : Table} (ha : (a.map Entry.id).Nodup) (hb : (b.map Entry.id).Nodup) :
    SSorted Delta.id (makeDiff a b) ∧ ∀ i, LD (makeDiff a b) i = dspec (L a i) (L b i) := by
  have inv : MkInv a b (b.foldl makeDiffStep (toMap a, [])) := by
    have := mkInv_fold b [] (toMap a, []) (mkInv_init a) (by simpa using hb)
    simpa using this
  generalize hst : b.foldl makeDiffStep (toMap a, []) = st at inv
  have hF : makeDiff a b = sortDeltas (st.2 ++ st.1.map (fun e => ⟨e.id, -e.power, 0⟩)) := by
    unfold makeDiff; rw [hst]
  -- entries left in the old map: not in b, and as in a
  have hleft : ∀ o ∈ st.1, o.id ∉ b.map Entry.id ∧ L a o.id = some o := by
    intro o ho
    have h1 := lookup_of_mem Entry.id inv.sorted ho
    have h2 := inv.look o.id
    unfold L at h2
    rw [h1] at h2
    by_cases hm : o.id ∈ b.map Entry.id
    · rw [if_pos hm] at h2; cases h2
    · rw [if_neg hm] at h2
      exact ⟨hm, by rw [← lookup_toMap ha]; exact h2.symm⟩
  -- membership in the unsorted result
  have hM : ∀ δ, δ ∈ st.2 ++ st.1.map (fun e => (⟨e.id, -e.power, 0⟩ : Delta)) ↔
      dspec (L a δ.id) (L b δ.id) = some δ := by
    intro δ
    rw [List.mem_append, inv.mem, List.mem_map]
    constructor
    · rintro (⟨e, he, hd⟩ | ⟨o, ho, hd⟩)
      · rw [lookup_toMap ha] at hd
        have hbe : L b e.id = some e := lookup_of_mem_nodup Entry.id hb he
        have hid : δ.id = e.id := by
          have := hd; rw [← hbe] at this; exact dspec_id this
        rw [hid, hbe]; exact hd
      · obtain ⟨hnb, hao⟩ := hleft o ho
        have hbn : L b o.id = none := by
          rw [lookup_none_iff]; intro x hx hxo
          exact hnb (List.mem_map.mpr ⟨x, hx, hxo⟩)
        have hid : δ.id = o.id := by rw [← hd]
        rw [hid, hao, hbn, ← hd]; rfl
    · intro hd
      have hid := dspec_id hd
      cases hbl : L b δ.id with
      | some e =>
        left
        refine ⟨e, lookup_mem Entry.id hbl, ?_⟩
        have hek : e.id = δ.id := lookup_key Entry.id hbl
        rw [lookup_toMap ha, hek, ← hbl]; exact hd
      | none =>
        right
        cases hal : L a δ.id with
        | none => rw [hal, hbl] at hd; simp [dspec] at hd
        | some o =>
          rw [hal, hbl] at hd
          simp only [dspec, Option.some.injEq] at hd
          refine ⟨o, ?_, hd⟩
          -- o is still in the old map
          have hnb : δ.id ∉ b.map Entry.id := by
            intro hm
            obtain ⟨x, hx, hxi⟩ := List.mem_map.mp hm
            have := lookup_of_mem_nodup Entry.id hb hx
            rw [hxi] at this
            unfold L at hbl; rw [hbl] at this; cases this
          have h2 := inv.look δ.id
          rw [if_neg hnb, lookup_toMap ha, hal] at h2
          exact lookup_mem Entry.id h2
  -- ids of the unsorted result are distinct
  have hnd : ((st.2 ++ st.1.map (fun e => (⟨e.id, -e.power, 0⟩ : Delta))).map Delta.id).Nodup := by
    rw [List.map_append, List.nodup_append]
    refine ⟨inv.sub.nodup hb, ?_, ?_⟩
    · rw [List.map_map]
      exact nodup_of_ssorted Entry.id inv.sorted
    · intro x hx y hy hxy
      rw [List.map_map, List.mem_map] at hy
      obtain ⟨o, ho, hoy⟩ := hy
      have := (hleft o ho).1
      apply this
      have hx' : x ∈ b.map Entry.id := inv.sub.subset hx
      rw [hxy, ← hoy] at hx'
      exact hx'
  have hsorted := ssorted_sortDeltas hnd
  rw [hF]
  refine ⟨hsorted, ?_⟩
  intro i
  have hperm := sortDeltas_perm (st.2 ++ st.1.map (fun e => (⟨e.id, -e.power, 0⟩ : Delta)))
  cases hd : dspec (L a i) (L b i) with
  | none =>
    unfold LD
    rw [lookup_none_iff]
    intro δ hδ hδi
    have := (hM δ).mp (hperm.mem_iff.mp hδ)
    rw [hδi, hd] at this; cases this
  | some δ =>
    have hid := dspec_id hd
    have hmem : δ ∈ sortDeltas (st.2 ++ st.1.map (fun e => (⟨e.id, -e.power, 0⟩ : Delta))) := by
      apply hperm.mem_iff.mpr
      apply (hM δ).mpr
      rw [hid]; exact hd
    have := lookup_of_mem Delta.id hsorted hmem
    rw [hid] at this
    exact this

end F3.Certs
