import F3.Proofs.InstanceGuards3
/-!
# AUDIT2 M1/M2 — the decision is on the participant's own base, and is not bottom under validation

`receiveOne` (gpbft.go:224-228) refuses a vote whose value is neither bottom nor on the instance's base *before*
it touches any tally. Hence — with no hypothesis on what is delivered, by whom, or in which order — every chain the
DECIDE tally has support for is bottom or starts at the instance's own base, and so does a reported decision
(`decision_on_own_base`). If in addition every delivered DECIDE is valid (`MsgValid`: DECIDE for bottom is not), the
decision is not bottom (`decision_not_bottom`), hence starts exactly at the own base.

Both are instances of one invariant, `ChainInv P`: every chain with an entry in `decision.support` and the value of a
stored termination satisfy `P`, provided every DECIDE that passes the door checks (`recvPre = accept`) satisfies `P`.
-/
namespace F3.Audit2
open F3.Instance

/-- every chain the DECIDE tally has an entry for, and the value of a stored termination, satisfy `P` -/
def ChainInv (P : Chain → Prop) (s : State) : Prop :=
  (∀ sup ∈ s.decision.support, P sup.chain) ∧ ∀ d, s.termination = some d → P d.value

variable {P : Chain → Prop}

theorem ChainInv_frame {s s' : State} (h : FrameD s s') (hi : ChainInv P s) : ChainInv P s' := by
  unfold ChainInv
  rw [h.decision, h.termination]; exact hi

theorem ChainInv_of_eq {s s' : State} (hd : s'.decision = s.decision)
    (hte : s'.termination = s.termination) (hi : ChainInv P s) : ChainInv P s' := by
  unfold ChainInv
  rw [hd, hte]; exact hi

theorem ChainInv_init (cfg : Cfg) (tbl : Table) (input : Chain) : ChainInv P (init cfg tbl input) :=
  ⟨fun sup hs => by simp [init] at hs, fun d hd => by simp [init] at hd⟩

/-- the value `FindStrongQuorumValue` returns has an entry in the tally -/
theorem findStrongQuorumValue_one (q : Tally) (c : Chain) (h : q.findStrongQuorumValue = .one c) :
    ∃ sup ∈ q.support, sup.chain = c := by
  unfold Tally.findStrongQuorumValue at h
  split at h
  · cases h
  · rename_i s hs
    cases h
    have : s ∈ q.support.filter (·.strong) := by rw [hs]; exact List.mem_singleton.2 rfl
    exact ⟨s, (List.mem_filter.1 this).1, rfl⟩
  · cases h

theorem tryDecide_chaininv (s : State) (now : Int) (hi : ChainInv P s) : ChainInv P (s.tryDecide now).1 := by
  unfold State.tryDecide
  split
  · exact hi
  · rename_i v hv
    split
    · obtain ⟨sup, hsup, hc⟩ := findStrongQuorumValue_one _ _ hv
      unfold State.terminate State.resetReb
      refine ⟨hi.1, ?_⟩
      intro d hd
      simp at hd
      subst hd
      exact hc ▸ hi.1 sup hsup
    · exact hi
    · exact hi
  · exact ChainInv_frame (tryRebroadcast_frame s now) hi

theorem tryCurrentPhase_chaininv (s : State) (now : Int) (hi : ChainInv P s) :
    ChainInv P (s.tryCurrentPhase now).1 := by
  unfold State.tryCurrentPhase
  split
  · exact ChainInv_frame (tryQuality_frame s now) hi
  · exact ChainInv_frame (tryConverge_frame s now) hi
  · exact ChainInv_frame (tryPrepare_frame s now) hi
  · exact ChainInv_frame (tryCommit_frame s now _) hi
  · exact tryDecide_chaininv s now hi
  · exact hi
  · exact hi

theorem andThen_chaininv {r : R} {f : State → R} (h1 : ChainInv P r.1)
    (h2 : ∀ st, ChainInv P st → ChainInv P (f st).1) : ChainInv P (andThen r f).1 := by
  unfold andThen; split
  · exact h1
  · exact h2 _ h1

theorem recvQuality_chaininv (s : State) (now : Int) (m : Msg) (hi : ChainInv P s) :
    ChainInv P (s.recvQuality now m).1 := by
  unfold State.recvQuality State.updateCandidatesFromQuality
  dsimp only
  split
  · exact ChainInv_frame (addCandidatePrefixes_frame _ _) (ChainInv_of_eq rfl rfl hi)
  · exact tryCurrentPhase_chaininv _ now (ChainInv_of_eq rfl rfl hi)

theorem recvConverge_chaininv (s : State) (now : Int) (m : Msg) (j) (hi : ChainInv P s) :
    ChainInv P (s.recvConverge now m j).1 := by
  unfold State.recvConverge
  exact tryCurrentPhase_chaininv _ now (ChainInv_of_eq rfl rfl hi)

theorem recvPrepare_chaininv (s : State) (now : Int) (m : Msg) (hi : ChainInv P s) :
    ChainInv P (s.recvPrepare now m).1 := by
  unfold State.recvPrepare
  dsimp only
  split
  · exact hi
  · exact tryCurrentPhase_chaininv _ now (ChainInv_of_eq rfl rfl hi)

theorem recvCommit_chaininv (s : State) (now : Int) (m : Msg) (hi : ChainInv P s) :
    ChainInv P (s.recvCommit now m).1 := by
  unfold State.recvCommit
  dsimp only
  split
  · exact hi
  · split
    · exact hi
    · split
      · split
        · exact andThen_chaininv (ChainInv_frame (tryCommit_frame _ now _) (ChainInv_of_eq rfl rfl hi))
            (fun st h => tryCurrentPhase_chaininv st now h)
        · exact ChainInv_frame (tryCommit_frame _ now _) (ChainInv_of_eq rfl rfl hi)
      · exact tryCurrentPhase_chaininv _ now (ChainInv_of_eq rfl rfl hi)

/-- a DECIDE vote enters the tally under its own value only -/
theorem recvDecide_chaininv (s : State) (now : Int) (m : Msg) (hi : ChainInv P s) (hv : P m.value) :
    ChainInv P (s.recvDecide now m).1 := by
  unfold State.recvDecide
  dsimp only
  split
  · exact hi
  · rename_i q hq
    have hi1 : ChainInv P ({ s with decision := q } : State) := by
      refine ⟨?_, hi.2⟩
      intro sup hsup
      rcases receive_support s.tbl s.decision q m.sender m.value hq sup hsup with h | h
      · exact hi.1 sup h
      · exact h ▸ hv
    split
    · exact andThen_chaininv (ChainInv_frame (skipToDecide_frame _ _ _) hi1)
        (fun st h => tryCurrentPhase_chaininv st now h)
    · exact tryCurrentPhase_chaininv _ now hi1

/-- what one call must satisfy: a DECIDE that passes the checks at the door has a `P` value -/
def DecideP (P : Chain → Prop) (s : State) : Op → Prop
  | .recv _ m => m.phase = .decide → s.recvPre m = .accept → P m.value
  | _ => True

theorem step_chaininv (s : State) (op : Op) (hi : ChainInv P s) (hop : DecideP P s op) :
    ChainInv P (step s op).1 := by
  cases op with
  | start now => exact ChainInv_frame (beginQuality_frame s now) hi
  | alarm now => exact tryCurrentPhase_chaininv s now hi
  | recv now m =>
    unfold step
    dsimp only
    split
    · exact hi
    · have h1 : ChainInv P (s.receiveOne now m).1.1 := by
        unfold State.receiveOne
        split
        · exact hi
        · exact hi
        · rename_i hacc
          split
          · exact recvQuality_chaininv s now m hi
          · split
            · exact hi
            · split
              · exact hi
              · exact recvConverge_chaininv s now m _ hi
          · exact recvPrepare_chaininv s now m hi
          · exact recvCommit_chaininv s now m hi
          · rename_i hph; exact recvDecide_chaininv s now m hi (hop hph hacc)
          · exact hi
      generalize s.receiveOne now m = ro at *
      obtain ⟨r, changed⟩ := ro
      dsimp only at *
      split
      · exact h1
      · split
        · exact andThen_chaininv h1 (fun st h => ChainInv_frame (postReceive_frame st now m.round) h)
        · exact h1

/-- the input chain never changes -/
theorem step_input (s : State) (op : Op) : (step s op).1.input = s.input := by
  cases op with
  | start now => exact (beginQuality_frame s now).input
  | alarm now => exact (tryCurrentPhase_tbl_input s now).2
  | recv now m =>
    unfold step
    dsimp only
    split
    · rfl
    · have h1 := (receiveOne_tbl_input s now m).2
      generalize s.receiveOne now m = ro at *
      obtain ⟨r, changed⟩ := ro
      dsimp only at *
      split
      · exact h1
      · split
        · unfold andThen; split
          · exact h1
          · simp only; rw [(postReceive_frame _ now m.round).input]; exact h1
        · exact h1

theorem runFrom_input (s : State) (ops : List Op) : (runFrom s ops).1.input = s.input := by
  induction ops generalizing s with
  | nil => rfl
  | cons op ops ih => rw [runFrom_cons]; simp only; rw [ih, step_input]

/-- the invariant along a run, the obligation being stated for states with the run's input and table -/
theorem runFrom_chaininv (s : State) (ops : List Op) (hi : ChainInv P s)
    (hops : ∀ op ∈ ops, ∀ s' : State, s'.input = s.input → s'.tbl = s.tbl → DecideP P s' op) :
    ChainInv P (runFrom s ops).1 := by
  induction ops generalizing s with
  | nil => exact hi
  | cons op ops ih =>
    rw [runFrom_cons]
    simp only
    apply ih _ (step_chaininv s op hi (hops op (by simp) s rfl rfl))
    intro o ho s' h1 h2
    exact hops o (by simp [ho]) s' (by rw [h1, step_input]) (by rw [h2, step_tbl])

/-! ### M1: the own base -/

/-- `c` is bottom or starts where `input` starts -/
def OnBase (input : Chain) (c : Chain) : Prop := c = [] ∨ c.head? = input.head?

/-- the door check `receiveOne` applies to the value of every message (gpbft.go:224-228) -/
theorem recvPre_accept_onBase (s : State) (m : Msg) (h : s.recvPre m = .accept) : OnBase s.input m.value := by
  unfold State.recvPre at h
  split at h
  · cases h
  · split at h
    · cases h
    · split at h
      · cases h
      · rename_i hb
        simp only [Bool.not_eq_true', Bool.not_eq_false] at hb
        rw [Bool.or_eq_true] at hb
        rcases hb with hb | hb
        · exact Or.inl (List.isEmpty_iff.1 hb)
        · unfold hasBase at hb
          simp only [Bool.and_eq_true, beq_iff_eq] at hb
          exact Or.inr hb.2

theorem decideP_onBase (input : Chain) (s : State) (hs : s.input = input) (op : Op) : DecideP (OnBase input) s op := by
  cases op with
  | recv now m => intro _ hacc; exact hs ▸ recvPre_accept_onBase s m hacc
  | start _ => trivial
  | alarm _ => trivial

/-- **M1 — the decision is on the participant's own base.** For every configuration, table, input chain and
*every* list of `Start` / `Receive` / `ReceiveAlarm` calls (no hypothesis whatsoever on the delivered messages:
not validated, any sender, any order, repeated `Start`s), a reported decision is bottom or starts at the tipset
the participant's own input chain starts at. -/
theorem decision_on_own_base (cfg : Cfg) (t : Table) (input : Chain) (ops : List Op) (d : Just)
    (hd : (run (init cfg t input) ops).1.termination = some d) :
    d.value = [] ∨ d.value.head? = input.head? := by
  have h := runFrom_chaininv (P := OnBase input) (init cfg t input) ops (ChainInv_init cfg t input)
    (fun op _ s' hs _ => decideP_onBase input s' hs op)
  exact h.2 d hd

/-- the same for the DECIDE tally itself: every chain it ever has an entry for is bottom or on the own base -/
theorem decide_tally_on_own_base (cfg : Cfg) (t : Table) (input : Chain) (ops : List Op) :
    ∀ sup ∈ (run (init cfg t input) ops).1.decision.support, sup.chain = [] ∨ sup.chain.head? = input.head? :=
  (runFrom_chaininv (P := OnBase input) (init cfg t input) ops (ChainInv_init cfg t input)
    (fun op _ s' hs _ => decideP_onBase input s' hs op)).1

/-! ### M2: the decision is not bottom when what is delivered is validated -/

/-- deliveries are validated, or are of another instance / carry other supplemental data (and are then refused) -/
def OpValidF (W : Votes) (t : Table) : Op → Prop
  | .recv _ m => (!m.instOk || !m.suppOk) = true ∨ MsgValid W t m
  | _ => True

theorem opValidG_toF {W : Votes} {t : Table} {op : Op} (h : OpValidG W t op) : OpValidF W t op := by
  cases op with
  | recv now m => exact Or.inr h
  | start _ => trivial
  | alarm _ => trivial

theorem recvPre_accept_ok (s : State) (m : Msg) (h : s.recvPre m = .accept) : (!m.instOk || !m.suppOk) = false := by
  unfold State.recvPre at h
  split at h
  · cases h
  · rename_i h1
    split at h
    · cases h
    · rename_i h2
      simp only [Bool.not_eq_true] at h1 h2
      rw [h1, h2]; rfl

theorem decideP_ne {W : Votes} {t : Table} (s : State) (op : Op) (h : OpValidF W t op) :
    DecideP (fun c => c ≠ []) s op := by
  cases op with
  | recv now m =>
    intro hph hacc
    rcases h with h | h
    · rw [recvPre_accept_ok s m hacc] at h; cases h
    · obtain ⟨_, _, hrest⟩ := h
      rw [hph] at hrest
      exact hrest.2.1
  | start _ => trivial
  | alarm _ => trivial

/-- **M2 — a decision built from validated deliveries is not bottom** (`MsgValid` has no DECIDE for bottom:
validator.go rejects it), whatever else is delivered from other instances. -/
theorem decision_not_bottom (W : Votes) (cfg : Cfg) (t : Table) (input : Chain) (ops : List Op)
    (hv : ∀ op ∈ ops, OpValidF W t op) (d : Just)
    (hd : (run (init cfg t input) ops).1.termination = some d) : d.value ≠ [] := by
  have h := runFrom_chaininv (P := fun c => c ≠ []) (init cfg t input) ops (ChainInv_init cfg t input)
    (fun op hop s' _ _ => decideP_ne s' op (hv op hop))
  exact h.2 d hd

/-- **M1, non-bottom version**: under validation the decision starts exactly at the own base. -/
theorem decision_head_own_base (W : Votes) (cfg : Cfg) (t : Table) (input : Chain) (ops : List Op)
    (hv : ∀ op ∈ ops, OpValidF W t op) (d : Just)
    (hd : (run (init cfg t input) ops).1.termination = some d) :
    d.value ≠ [] ∧ d.value.head? = input.head? := by
  have hne := decision_not_bottom W cfg t input ops hv d hd
  rcases decision_on_own_base cfg t input ops d hd with h | h
  · exact absurd h hne
  · exact ⟨hne, h⟩

/-! ### the decision's signers under validation (with refused foreign deliveries in between) -/

def isForeign : Op → Bool
  | .recv _ m => !m.instOk || !m.suppOk
  | _ => false

/-- a delivery of another instance / with other supplemental data leaves the instance untouched -/
theorem step_foreign (s : State) (op : Op) (h : isForeign op = true) : (step s op).1 = s := by
  cases op with
  | start _ => cases h
  | alarm _ => cases h
  | recv now m =>
    obtain ⟨k, hk⟩ : ∃ k, s.recvPre m = .reject k := by
      unfold State.recvPre
      simp only [isForeign] at h
      cases hi : m.instOk <;> cases hs : m.suppOk <;> simp_all
    unfold step
    dsimp only
    split
    · rfl
    · simp only [State.receiveOne, hk]
      simp [hasFailure]

theorem runFrom_filter_foreign (s : State) (ops : List Op) :
    (runFrom s (ops.filter (fun o => !isForeign o))).1 = (runFrom s ops).1 := by
  induction ops generalizing s with
  | nil => rfl
  | cons op ops ih =>
    by_cases hf : isForeign op = true
    · rw [List.filter_cons_of_neg (by simp [hf]), runFrom_cons, step_foreign s op hf]
      exact ih s
    · rw [List.filter_cons_of_pos (by simpa using hf), runFrom_cons, runFrom_cons]
      exact ih _

/-- **Decision well-formedness from validated deliveries.** `W` = the validly signed votes in existence. If every
delivery is valid w.r.t. `W` (or foreign, hence refused) the reported decision lists a strong quorum of members
whose DECIDE vote for exactly the decided value exists in `W`. -/
theorem decision_ok_validated (W : Votes) (cfg : Cfg) (t : Table) (input : Chain) (ops : List Op)
    (hv : ∀ op ∈ ops, OpValidF W t op) (d : Just)
    (hd : (run (init cfg t input) ops).1.termination = some d) :
    DecisionOK (fun x c => W x 0 .decide c) t d := by
  have hops : ∀ op ∈ ops.filter (fun o => !isForeign o),
      OpValid (fun x c => W x 0 .decide c) (init cfg t input).tbl op := by
    intro op hop
    obtain ⟨hop, hnf⟩ := List.mem_filter.1 hop
    have hvo := hv op hop
    cases op with
    | recv now m =>
      simp only [isForeign, Bool.not_eq_true'] at hnf
      rcases hvo with hf | hvm
      · rw [hnf] at hf; cases hf
      · refine ⟨MsgValid.msgOk (W := W) hvm, hvm.2.1, fun hph => ?_⟩
        have hw := hvm.1
        have hr0 := MsgValid.msgOk (W := W) hvm hph
        rw [hph, hr0] at hw; exact hw
    | start _ => trivial
    | alarm _ => trivial
  have hdec := runFrom_decinv (V := fun x c => W x 0 .decide c) (init cfg t input) _ (DecInv_init _ _ _) hops
  rw [runFrom_filter_foreign] at hdec
  have htb := runFrom_tbl (init cfg t input) ops
  have hok := hdec.2 d hd
  rw [htb] at hok
  exact hok

end F3.Audit2
