import F3.Proofs.SyncNode
/-!
# The network invariant of a unanimous, synchronous, failure-free run (proofs of `C02.unanimous_sync_*`)
-/
namespace F3.Sync
open F3.Instance F3.Net

/-- the pool holds a message of phase `ph` sent by `q` -/
def hasMsg (pool : List Msg) (q : Pid) (ph : Phase) : Prop := ∃ m ∈ pool, m.sender = q ∧ m.phase = ph

theorem hasMsg_append (a b : List Msg) (q : Pid) (ph : Phase) :
    hasMsg (a ++ b) q ph ↔ hasMsg a q ph ∨ hasMsg b q ph := by
  unfold hasMsg
  constructor
  · rintro ⟨m, hm, h⟩
    rcases List.mem_append.1 hm with hm | hm
    · exact Or.inl ⟨m, hm, h⟩
    · exact Or.inr ⟨m, hm, h⟩
  · rintro (⟨m, hm, h⟩ | ⟨m, hm, h⟩)
    · exact ⟨m, List.mem_append_left _ hm, h⟩
    · exact ⟨m, List.mem_append_right _ hm, h⟩

/-- what a transition says about phases and the messages put on the wire -/
theorem Trans.facts {p : Pid} {c : Chain} {a b : Phase} {ms : List Msg} (h : Trans p c a b ms) :
    (∀ m ∈ ms, m.sender = p ∧ Shape c m) ∧
    (b ≠ .initial → a ≠ .initial ∨ hasMsg ms p .quality) ∧
    (b = .prepare ∨ b = .commit → (a = .prepare ∨ a = .commit) ∨ hasMsg ms p .prepare) ∧
    (b = .commit → a = .commit ∨ hasMsg ms p .commit) ∧
    (b = .decide ∨ b = .terminated → (a = .decide ∨ a = .terminated) ∨ hasMsg ms p .decide) ∧
    (hasMsg ms p .prepare → b ≠ .initial ∧ b ≠ .quality) ∧
    (a ≠ .initial ∧ a ≠ .quality → b ≠ .initial ∧ b ≠ .quality) ∧
    (a ≠ .initial → b ≠ .initial) ∧
    (b ≠ .terminated → a ≠ .terminated) := by
  cases h with
  | same a => simp [hasMsg]
  | start => simp [hasMsg, mkMsg, Shape]
  | q2p => simp [hasMsg, mkMsg, Shape]
  | p2c j hj => simp [hasMsg, mkMsg, Shape, hj]
  | x2d a b ha hb j hj =>
    rcases ha with rfl | rfl | rfl <;> rcases hb with rfl | rfl <;> simp [hasMsg, mkMsg, Shape, hj]
  | d2t => simp [hasMsg]

/-! ## nodes -/

theorem node?_mem {n : Net} {p : Pid} {s : State} (h : n.node? p = some s) : (p, s) ∈ n.nodes := by
  unfold Net.node? at h
  cases hf : n.nodes.find? (fun e => e.1 == p) with
  | none => rw [hf] at h; cases h
  | some e =>
    rw [hf] at h
    simp only [Option.map_some, Option.some.injEq] at h
    have h1 := List.mem_of_find?_eq_some hf
    have h2 := List.find?_some hf
    simp only [beq_iff_eq] at h2
    rw [← h, ← h2]
    exact h1

theorem mem_setNode {l : List (Pid × State)} {p : Pid} {s' : State} {q : Pid} {x : State}
    (h : (q, x) ∈ setNode l p s') : (q = p ∧ x = s') ∨ (q ≠ p ∧ (q, x) ∈ l) := by
  unfold setNode at h
  rw [List.mem_map] at h
  obtain ⟨e, he, heq⟩ := h
  by_cases hc : e.1 = p
  · rw [if_pos (by simp [hc])] at heq
    simp only [Prod.mk.injEq] at heq
    exact Or.inl ⟨by rw [← heq.1, hc], heq.2.symm⟩
  · rw [if_neg (by simp [hc])] at heq
    subst heq
    exact Or.inr ⟨hc, he⟩

theorem setNode_ids (l : List (Pid × State)) (p : Pid) (s' : State) : (setNode l p s').map (·.1) = l.map (·.1) := by
  unfold setNode
  rw [List.map_map]
  apply List.map_congr_left
  intro e _
  simp only [Function.comp]
  split <;> try rfl

theorem hasFailure_eq_any (es : List Eff) : hasFailure es = es.any isFailure := by
  unfold hasFailure
  congr

theorem failuresOf_nil (p : Pid) (es : List Eff) (h : hasFailure es = false) : failuresOf p es = [] := by
  unfold failuresOf
  rw [hasFailure_eq_any] at h
  have : es.filter isFailure = [] := by
    rw [List.filter_eq_nil_iff]
    intro e he
    have := List.any_eq_false.1 h e he
    simpa using this
  rw [this]; rfl

/-! ## the invariant -/

section
variable (t : Table) (c : Chain) (H : List Pid)

structure NodeOK (pool : List Msg) (dl : List (Pid × Msg)) (st fi : List Pid) (q : Pid) (x : State) : Prop where
  sinv : SInv t c H x
  pi : PI c q x x.phase
  started : q ∈ st ↔ x.phase ≠ .initial
  deliv : ∀ m, (q, m) ∈ dl → x.phase ≠ .terminated → m.sender ∈ sendersOf x m.phase
  sentQ : x.phase ≠ .initial → hasMsg pool q .quality
  sentP : x.phase = .prepare ∨ x.phase = .commit → hasMsg pool q .prepare
  sentC : x.phase = .commit → hasMsg pool q .commit
  sentD : x.phase = .decide ∨ x.phase = .terminated → hasMsg pool q .decide
  prepSelf : hasMsg pool q .prepare → x.phase ≠ .initial ∧ x.phase ≠ .quality
  fired : q ∈ fi → x.phase ≠ .quality ∧ x.phase ≠ .initial

structure NInv (n : Net) : Prop where
  ids : n.nodes.map (·.1) = H
  fails : n.fails = []
  pool : ∀ m ∈ n.pool, Shape c m ∧ m.sender ∈ H
  node : ∀ q x, (q, x) ∈ n.nodes → NodeOK t c H n.pool n.delivered n.started n.fired q x

variable {t c H}

theorem NInv.mem_H {n : Net} (hn : NInv t c H n) {q : Pid} {x : State} (h : (q, x) ∈ n.nodes) : q ∈ H := by
  rw [← hn.ids]
  exact List.mem_map.2 ⟨(q, x), h, rfl⟩

/-- a node other than the one that moved -/
theorem NodeOK.other {pool pool' : List Msg} {dl dl' : List (Pid × Msg)} {st st' fi fi' : List Pid} {q : Pid} {x : State}
    (h : NodeOK t c H pool dl st fi q x)
    (hpool : ∀ ph, hasMsg pool' q ph ↔ hasMsg pool q ph) (hdl : ∀ m, (q, m) ∈ dl' ↔ (q, m) ∈ dl)
    (hst : q ∈ st' ↔ q ∈ st) (hfi : q ∈ fi' ↔ q ∈ fi) : NodeOK t c H pool' dl' st' fi' q x :=
  ⟨h.sinv, h.pi, hst.trans h.started, fun m hm => h.deliv m ((hdl m).1 hm), fun hx => (hpool _).2 (h.sentQ hx),
   fun hx => (hpool _).2 (h.sentP hx), fun hx => (hpool _).2 (h.sentC hx), fun hx => (hpool _).2 (h.sentD hx),
   fun hx => h.prepSelf ((hpool _).1 hx), fun hx => h.fired (hfi.1 hx)⟩

/-- the node that moved -/
theorem NodeOK.step {pool : List Msg} {dl dl' : List (Pid × Msg)} {st st' fi fi' : List Pid} {p : Pid} {s : State}
    (h : NodeOK t c H pool dl st fi p s) (r : R) (g : Good t c H p s r)
    (hst : p ∈ st' ↔ r.1.phase ≠ .initial)
    (hdl : ∀ m, (p, m) ∈ dl' → r.1.phase ≠ .terminated → m.sender ∈ sendersOf r.1 m.phase)
    (hfi : p ∈ fi' → r.1.phase ≠ .quality ∧ r.1.phase ≠ .initial) :
    NodeOK t c H (pool ++ sent p r.2) dl' st' fi' p r.1 := by
  obtain ⟨_, f1, f2, f3, f4, f5, f6, _, _⟩ := g.trans.facts
  refine ⟨g.sinv, g.pi, hst, hdl, ?_, ?_, ?_, ?_, ?_, hfi⟩
  · intro hx
    rw [hasMsg_append]
    rcases f1 hx with h1 | h1
    · exact Or.inl (h.sentQ h1)
    · exact Or.inr h1
  · intro hx
    rw [hasMsg_append]
    rcases f2 hx with h1 | h1
    · exact Or.inl (h.sentP h1)
    · exact Or.inr h1
  · intro hx
    rw [hasMsg_append]
    rcases f3 hx with h1 | h1
    · exact Or.inl (h.sentC h1)
    · exact Or.inr h1
  · intro hx
    rw [hasMsg_append]
    rcases f4 hx with h1 | h1
    · exact Or.inl (h.sentD h1)
    · exact Or.inr h1
  · intro hx
    rw [hasMsg_append] at hx
    rcases hx with h1 | h1
    · exact f6 (h.prepSelf h1)
    · exact f5 h1

/-- the common part of every event that runs the model on node `p` -/
theorem NInv.apply {n : Net} (hn : NInv t c H n) {p : Pid} {s : State} (hp : (p, s) ∈ n.nodes) (op : Op)
    (g : Good t c H p s (step s op)) (dl' : List (Pid × Msg)) (st' fi' : List Pid)
    (hdlo : ∀ q m, q ≠ p → ((q, m) ∈ dl' ↔ (q, m) ∈ n.delivered))
    (hsto : ∀ q, q ≠ p → (q ∈ st' ↔ q ∈ n.started)) (hfio : ∀ q, q ≠ p → (q ∈ fi' ↔ q ∈ n.fired))
    (hst : p ∈ st' ↔ (step s op).1.phase ≠ .initial)
    (hdl : ∀ m, (p, m) ∈ dl' → (step s op).1.phase ≠ .terminated → m.sender ∈ sendersOf (step s op).1 m.phase)
    (hfi : p ∈ fi' → (step s op).1.phase ≠ .quality ∧ (step s op).1.phase ≠ .initial) :
    NInv t c H (Net.apply { n with delivered := dl', started := st', fired := fi' } p s op) := by
  have hpH := hn.mem_H hp
  have hsent := g.trans.facts.1
  refine ⟨?_, ?_, ?_, ?_⟩
  · show (setNode n.nodes p (step s op).1).map (·.1) = H
    rw [setNode_ids]; exact hn.ids
  · show n.fails ++ failuresOf p (step s op).2 = []
    rw [hn.fails, failuresOf_nil p _ g.nofail]; rfl
  · intro m hm
    have hm' : m ∈ n.pool ++ sent p (step s op).2 := hm
    rcases List.mem_append.1 hm' with h | h
    · exact hn.pool m h
    · obtain ⟨h1, h2⟩ := hsent m h
      exact ⟨h2, h1 ▸ hpH⟩
  · intro q x hq
    have hq' : (q, x) ∈ setNode n.nodes p (step s op).1 := hq
    show NodeOK t c H (n.pool ++ sent p (step s op).2) dl' st' fi' q x
    rcases mem_setNode hq' with ⟨rfl, rfl⟩ | ⟨hne, hmem⟩
    · exact (hn.node q s hp).step _ g hst hdl hfi
    · refine (hn.node q x hmem).other ?_ (fun m => hdlo q m hne) (hsto q hne) (hfio q hne)
      intro ph
      rw [hasMsg_append]
      constructor
      · rintro (h | ⟨m, hm, h1, _⟩)
        · exact h
        · exact absurd ((hsent m hm).1.symm.trans h1).symm hne
      · exact Or.inl

theorem nodes_unique {l : List (Pid × State)} (hnd : (l.map (·.1)).Nodup) {p : Pid} {x s : State}
    (hx : (p, x) ∈ l) (hs : (p, s) ∈ l) : x = s := by
  induction l with
  | nil => cases hx
  | cons e es ih =>
    simp only [List.map_cons, List.nodup_cons] at hnd
    rcases List.mem_cons.1 hx with hx | hx <;> rcases List.mem_cons.1 hs with hs | hs
    · rw [← hs] at hx; exact (Prod.mk.inj hx).2
    · exact absurd (List.mem_map.2 ⟨(p, s), hs, by rw [← hx]⟩) hnd.1
    · exact absurd (List.mem_map.2 ⟨(p, x), hx, by rw [← hs]⟩) hnd.1
    · exact ih hnd.2 hx hs

theorem step_start_phase (s : State) (now : Int) (h : s.phase = .initial) : (step s (.start now)).1.phase = .quality := by
  show (s.beginQuality now).1.phase = .quality
  unfold State.beginQuality
  rw [if_neg (by simp [h])]
  rfl

/-- what `syncAt` gives once its guard holds -/
theorem sync_handed {n : Net} (hn : NInv t c H n) {p : Pid} {s : State} (hnode : n.node? p = some s)
    (dl : List (Pid × Msg)) (now : Int) (hsy : syncAt n dl p now = true) (htp : timedPhase s.phase = true)
    (hel : s.phaseTimeoutElapsed now = true) :
    ∀ h ∈ H, ∃ m, (p, m) ∈ dl ∧ m.sender = h ∧ m.phase = s.phase := by
  have hs := (hn.node p s (node?_mem hnode)).sinv
  unfold syncAt at hsy
  rw [hnode] at hsy
  dsimp only at hsy
  rw [if_pos (by simp [hs.round, htp, hel])] at hsy
  unfold allHanded at hsy
  rw [List.all_eq_true] at hsy
  intro h hh
  rw [← hn.ids] at hh
  obtain ⟨e, he, rfl⟩ := List.mem_map.1 hh
  have := hsy e he
  rw [List.any_eq_true] at this
  obtain ⟨d, hd, hcond⟩ := this
  simp only [Bool.and_eq_true, beq_iff_eq] at hcond
  refine ⟨d.2, ?_, hcond.1.1.2, hcond.1.2⟩
  rw [← hcond.1.1.1]
  exact hd

theorem netStep_start {n : Net} (hn : NInv t c H n) (p : Pid) (now : Int)
    (hok : opOk n (.start p now) = true) : NInv t c H (netStep n (.start p now)) := by
  cases hnode : n.node? p with
  | none => simp only [netStep, hnode]; exact hn
  | some s =>
    simp only [netStep, hnode]
    have hp := node?_mem hnode
    have hno := hn.node p s hp
    unfold opOk at hok
    simp only [Bool.and_eq_true, Bool.not_eq_true', List.contains_eq_mem, decide_eq_false_iff_not] at hok
    have hph : s.phase = .initial := by
      by_cases hne : s.phase = .initial
      · exact hne
      · exact absurd (hno.started.2 hne) hok.2
    have hq := step_start_phase s now hph
    refine hn.apply hp (.start now) (step_start_good now hno.sinv hno.pi hph) n.delivered (n.started ++ [p]) n.fired
      (fun _ _ _ => Iff.rfl) ?_ (fun _ _ => Iff.rfl) ?_ ?_ ?_
    · intro q hq
      simp [hq]
    · rw [hq]; simp
    · intro m hm
      have := hno.deliv m hm (by rw [hph]; simp)
      rw [hq]; intro _
      exact (step_start_good (p := p) now hno.sinv hno.pi hph).mono _ _ this
    · intro hf
      have := hno.fired hf
      exact absurd hph this.2

theorem netStep_deliver (hctx : Ctx t c H) {n : Net} (hn : NInv t c H n) (p : Pid) (now : Int) (m : Msg)
    (hok : opOk n (.deliver p now m) = true) (hsy : syncOpOk n (.deliver p now m) = true) :
    NInv t c H (netStep n (.deliver p now m)) := by
  cases hnode : n.node? p with
  | none => simp only [netStep, hnode]; exact hn
  | some s =>
    simp only [netStep, hnode]
    have hp := node?_mem hnode
    have hno := hn.node p s hp
    have hpH := hn.mem_H hp
    unfold opOk at hok
    simp only [Bool.and_eq_true, List.contains_eq_mem, decide_eq_true_eq] at hok
    have hni : s.phase ≠ .initial := hno.started.1 hok.1
    obtain ⟨hm, hmH⟩ := hn.pool m hok.2
    by_cases hterm : s.phase = .terminated
    · rw [if_pos (by simp [hterm])]
      refine ⟨hn.ids, hn.fails, hn.pool, ?_⟩
      intro q x hq
      have hqo := hn.node q x hq
      refine ⟨hqo.sinv, hqo.pi, hqo.started, ?_, hqo.sentQ, hqo.sentP, hqo.sentC, hqo.sentD, hqo.prepSelf, hqo.fired⟩
      intro m' hm' hnt
      have hm'' : (q, m') ∈ n.delivered ++ [(p, m)] := hm'
      rcases List.mem_append.1 hm'' with h | h
      · exact hqo.deliv m' h hnt
      · simp only [List.mem_singleton, Prod.mk.injEq] at h
        obtain ⟨rfl, rfl⟩ := h
        have hnd : (n.nodes.map (·.1)).Nodup := by rw [hn.ids]; exact hctx.nodup
        have := nodes_unique hnd hq hp
        rw [this] at hnt
        exact absurd hterm hnt
    · rw [if_neg (by simp [hterm])]
      have hself : m.phase = .prepare → m.sender = p → s.phase ≠ .quality := by
        intro h1 h2
        exact (hno.prepSelf ⟨m, hok.2, h2, h1⟩).2
      have hsm : SyncedM H s now m := by
        intro htp hel h hh
        unfold syncOpOk at hsy
        obtain ⟨m', hm', h1, h2⟩ := sync_handed hn hnode _ now hsy htp hel h hh
        rcases List.mem_append.1 hm' with hin | hin
        · left
          have := hno.deliv m' hin hterm
          rw [h2, h1] at this
          exact this
        · right
          simp only [List.mem_singleton, Prod.mk.injEq] at hin
          rw [← hin.2]
          exact ⟨h2, h1⟩
      obtain ⟨g, hin⟩ := step_recv_good hctx hpH now m hno.sinv hno.pi hni hterm hm hmH hself hsm
      obtain ⟨_, _, _, _, _, _, f6, f7, f8⟩ := g.trans.facts
      refine hn.apply hp (.recv now m) g (n.delivered ++ [(p, m)]) n.started n.fired
        ?_ (fun _ _ => Iff.rfl) (fun _ _ => Iff.rfl) ?_ ?_ ?_
      · intro q m' hq
        simp [hq]
      · exact ⟨fun _ => f7 hni, fun _ => hok.1⟩
      · intro m' hm' hnt
        rcases List.mem_append.1 hm' with h | h
        · exact g.mono _ _ (hno.deliv m' h (f8 hnt))
        · simp only [List.mem_singleton, Prod.mk.injEq] at h
          rw [h.2]; exact hin
      · intro hf
        have := hno.fired hf
        have := f6 ⟨this.2, this.1⟩
        exact ⟨this.2, this.1⟩

theorem netStep_alarm (hctx : Ctx t c H) {n : Net} (hn : NInv t c H n) (p : Pid) (now : Int)
    (hok : opOk n (.alarm p now) = true) (hsy : syncOpOk n (.alarm p now) = true) :
    NInv t c H (netStep n (.alarm p now)) := by
  cases hnode : n.node? p with
  | none => simp only [netStep, hnode]; exact hn
  | some s =>
    simp only [netStep, hnode]
    have hp := node?_mem hnode
    have hno := hn.node p s hp
    have hpH := hn.mem_H hp
    unfold opOk at hok
    simp only [List.contains_eq_mem, decide_eq_true_eq] at hok
    have hni : s.phase ≠ .initial := hno.started.1 hok
    have hsd : Synced H s now := by
      intro htp hel h hh
      unfold syncOpOk at hsy
      obtain ⟨m', hm', h1, h2⟩ := sync_handed hn hnode _ now hsy htp hel h hh
      have hnt : s.phase ≠ .terminated := by
        intro ht; rw [ht] at htp; cases htp
      have := hno.deliv m' hm' hnt
      rw [h2, h1] at this
      exact this
    have g := step_alarm_good hctx hpH now hno.sinv hno.pi hni hsd
    obtain ⟨_, _, _, _, _, _, f6, f7, f8⟩ := g.trans.facts
    have hdl : ∀ m, (p, m) ∈ n.delivered → (step s (.alarm now)).1.phase ≠ .terminated →
        m.sender ∈ sendersOf (step s (.alarm now)).1 m.phase :=
      fun m' hm' hnt => g.mono _ _ (hno.deliv m' hm' (f8 hnt))
    by_cases hf : (s.phase == .quality && s.phaseTimeoutElapsed now) = true
    · rw [if_pos hf]
      simp only [Bool.and_eq_true, beq_iff_eq] at hf
      have hph := step_alarm_fired s now hf.1 hf.2
      refine hn.apply hp (.alarm now) g n.delivered n.started (n.fired ++ [p])
        (fun _ _ _ => Iff.rfl) (fun _ _ => Iff.rfl) ?_ ⟨fun _ => f7 hni, fun _ => hok⟩ hdl ?_
      · intro q hq
        simp [hq]
      · intro _
        rw [hph]; simp
    · rw [if_neg hf]
      refine hn.apply hp (.alarm now) g n.delivered n.started n.fired
        (fun _ _ _ => Iff.rfl) (fun _ _ => Iff.rfl) (fun _ _ => Iff.rfl) ⟨fun _ => f7 hni, fun _ => hok⟩ hdl ?_
      intro hfi
      have := hno.fired hfi
      have := f6 ⟨this.2, this.1⟩
      exact ⟨this.2, this.1⟩

theorem netStep_inv (hctx : Ctx t c H) {n : Net} (hn : NInv t c H n) (op : NetOp)
    (hok : opOk n op = true) (hsy : syncOpOk n op = true) : NInv t c H (netStep n op) := by
  cases op with
  | start p now => exact netStep_start hn p now hok
  | deliver p now m => exact netStep_deliver hctx hn p now m hok hsy
  | alarm p now => exact netStep_alarm hctx hn p now hok hsy

theorem runNet_inv (hctx : Ctx t c H) (ops : List NetOp) {n : Net} (hn : NInv t c H n)
    (hok : execOk n ops = true) (hsy : syncOk n ops = true) : NInv t c H (runNet n ops) := by
  induction ops generalizing n with
  | nil => exact hn
  | cons op ops ih =>
    unfold execOk at hok
    unfold syncOk at hsy
    simp only [Bool.and_eq_true] at hok hsy
    exact ih (netStep_inv hctx hn op hok.1 hsy.1) hok.2 hsy.2

theorem initNet_inv (t : Table) (c : Chain) (H : List Pid) (cfg : Pid → Cfg) :
    NInv t c H (initNet t H cfg (fun _ => c)) := by
  refine ⟨?_, rfl, ?_, ?_⟩
  · show (H.map (fun p => (p, init (cfg p) t c))).map (·.1) = H
    rw [List.map_map]
    have : ((fun x : Pid × State => x.1) ∘ fun p => (p, init (cfg p) t c)) = id := rfl
    rw [this, List.map_id]
  · intro m hm; cases hm
  · intro q x hq
    have hq' : (q, x) ∈ H.map (fun p => (p, init (cfg p) t c)) := hq
    obtain ⟨p, _, hpe⟩ := List.mem_map.1 hq'
    simp only [Prod.mk.injEq] at hpe
    obtain ⟨rfl, rfl⟩ := hpe
    obtain ⟨h1, h2⟩ := init_inv (cfg p) t c H p
    refine ⟨h1, h2, ?_, ?_, ?_, ?_, ?_, ?_, ?_, ?_⟩
    · show p ∈ [] ↔ _
      simp [init]
    · intro m hm; cases hm
    · intro h; exact absurd rfl h
    · intro h; rcases h with h | h <;> cases h
    · intro h; cases h
    · intro h; rcases h with h | h <;> cases h
    · rintro ⟨m, hm, _⟩; cases hm
    · intro h; cases h

/-! ## a complete execution has decided -/

theorem complete_terminated (hctx : Ctx t c H) {n : Net} (hn : NInv t c H n) (hc : complete n = true)
    (hlen : 2 ≤ c.length ∨ timersFired n = true) :
    ∀ q x, (q, x) ∈ n.nodes → x.phase = .terminated := by
  unfold complete at hc
  simp only [Bool.and_eq_true, List.all_eq_true, List.contains_eq_mem, decide_eq_true_eq] at hc
  obtain ⟨hst, hdl⟩ := hc
  -- every message of the pool has been tallied by every node that has not terminated
  have F : ∀ q x, (q, x) ∈ n.nodes → x.phase ≠ .terminated → ∀ y ph, hasMsg n.pool y ph → y ∈ sendersOf x ph := by
    intro q x hq hnt y ph ⟨m, hm, h1, h2⟩
    have := (hn.node q x hq).deliv m (hdl m hm (q, x) hq) hnt
    rw [h1, h2] at this
    exact this
  have hnode : ∀ h ∈ H, ∃ x, (h, x) ∈ n.nodes := by
    intro h hh
    rw [← hn.ids] at hh
    obtain ⟨e, he, rfl⟩ := List.mem_map.1 hh
    exact ⟨e.2, he⟩
  have hni : ∀ q x, (q, x) ∈ n.nodes → x.phase ≠ .initial :=
    fun q x hq => (hn.node q x hq).started.1 (hst (q, x) hq)
  -- if every node has sent its message of phase `ph`, every live node has tallied all of `H` for `ph`
  have G : ∀ ph, (∀ q x, (q, x) ∈ n.nodes → hasMsg n.pool q ph) →
      ∀ q x, (q, x) ∈ n.nodes → x.phase ≠ .terminated → ∀ h ∈ H, h ∈ sendersOf x ph := by
    intro ph hall q x hq hnt h hh
    obtain ⟨y, hy⟩ := hnode h hh
    exact F q x hq hnt h ph (hall h y hy)
  have hnq : ∀ q x, (q, x) ∈ n.nodes → x.phase ≠ .quality := by
    intro q x hq hph
    have hno := hn.node q x hq
    rcases hlen with hl | hf
    · have hall := G .quality (fun q x hq => (hn.node q x hq).sentQ (hni q x hq)) q x hq (by rw [hph]; simp)
      have := hno.sinv.qt.strong_of_all hctx hl (List.ne_nil_of_mem (hn.mem_H hq)) hall
      have h1 := hno.pi
      rw [hph] at h1
      rw [h1.1] at this
      cases this
    · unfold timersFired at hf
      simp only [List.all_eq_true, List.contains_eq_mem, decide_eq_true_eq] at hf
      exact (hno.fired (hf (q, x) hq)).1 hph
  have hnc : ∀ q x, (q, x) ∈ n.nodes → x.phase ≠ .converge := by
    intro q x hq hph
    have := (hn.node q x hq).pi
    rw [hph] at this
    exact this
  -- somebody has reached DECIDE
  have hD : ∃ q x, (q, x) ∈ n.nodes ∧ (x.phase = .decide ∨ x.phase = .terminated) ∨ n.nodes = [] := by
    cases hnodes : n.nodes with
    | nil => exact ⟨0, default, Or.inr rfl⟩
    | cons e es =>
      by_cases hex : ∃ q x, (q, x) ∈ n.nodes ∧ (x.phase = .decide ∨ x.phase = .terminated)
      · obtain ⟨q, x, h1, h2⟩ := hex
        exact ⟨q, x, Or.inl ⟨hnodes ▸ h1, h2⟩⟩
      · exfalso
        have hpc : ∀ q x, (q, x) ∈ n.nodes → x.phase = .prepare ∨ x.phase = .commit := by
          intro q x hq
          have h1 := hni q x hq
          have h2 := hnq q x hq
          have h3 := hnc q x hq
          have h4 : ¬ (x.phase = .decide ∨ x.phase = .terminated) := fun h => hex ⟨q, x, hq, h⟩
          cases hp : x.phase <;> simp_all
        have hP := G .prepare (fun q x hq => (hn.node q x hq).sentP (hpc q x hq))
        have hcm : ∀ q x, (q, x) ∈ n.nodes → x.phase = .commit := by
          intro q x hq
          rcases hpc q x hq with hp | hp
          · exfalso
            have hno := hn.node q x hq
            have hall := hP q x hq (by rw [hp]; simp)
            have hs := hno.sinv.prep.strong_of_all hctx (List.ne_nil_of_mem (hn.mem_H hq)) hall
            have h1 := hno.pi
            rw [hp] at h1
            rw [h1.1 (hall q (hn.mem_H hq))] at hs
            cases hs
          · exact hp
        have hC := G .commit (fun q x hq => (hn.node q x hq).sentC (hcm q x hq))
        have he : (e.1, e.2) ∈ n.nodes := by rw [hnodes]; exact List.mem_cons_self
        have hno := hn.node e.1 e.2 he
        have hp := hcm e.1 e.2 he
        have hall := hC e.1 e.2 he (by rw [hp]; simp)
        have hs := hno.sinv.comm.strong_of_all hctx (List.ne_nil_of_mem (hn.mem_H he)) hall
        have h1 := hno.pi
        rw [hp] at h1
        rw [h1.1] at hs
        cases hs
  intro q x hq
  obtain ⟨q0, x0, hd | hempty⟩ := hD
  · obtain ⟨hq0, hph0⟩ := hd
    have hm0 := (hn.node q0 x0 hq0).sentD hph0
    -- everybody is in DECIDE or beyond
    have hdt : ∀ q x, (q, x) ∈ n.nodes → x.phase = .decide ∨ x.phase = .terminated := by
      intro q x hq
      have hno := hn.node q x hq
      by_cases ht : x.phase = .terminated
      · exact Or.inr ht
      · have hin : q0 ∈ x.decision.senders := F q x hq ht q0 .decide hm0
        have h1 := hni q x hq
        have h2 := hnq q x hq
        have h3 := hnc q x hq
        have hpi := hno.pi
        cases hp : x.phase <;> rw [hp] at hpi <;> simp_all [PI, A4]
    have hDall := G .decide (fun q x hq => (hn.node q x hq).sentD (hdt q x hq))
    rcases hdt q x hq with hp | hp
    · exfalso
      have hno := hn.node q x hq
      have hall := hDall q x hq (by rw [hp]; simp)
      have hs := hno.sinv.dec.strong_of_all hctx (List.ne_nil_of_mem (hn.mem_H hq)) hall
      have h1 := hno.pi
      rw [hp] at h1
      rw [show x.decision.hasStrongFor c = false from h1] at hs
      cases hs
    · exact hp
  · rw [hempty] at hq; cases hq

theorem terminated_value {n : Net} (hn : NInv t c H n) {q : Pid} {x : State} (hq : (q, x) ∈ n.nodes)
    (hp : x.phase = .terminated) : ∃ d, x.termination = some d ∧ d.value = c := by
  have hno := hn.node q x hq
  have h1 := hno.pi
  rw [hp] at h1
  obtain ⟨d, hd⟩ := h1
  exact ⟨d, hd, hno.sinv.term d hd⟩

/-! ## packaging the hypotheses -/

theorem index_of_mem (t : Table) (p : Pid) (h : p ∈ t.entries.map (·.1)) : ∃ i, t.index? p = some i := by
  unfold Table.index?
  cases hf : t.entries.findIdx? (fun e => e.1 == p) with
  | some i => exact ⟨i, rfl⟩
  | none =>
    rw [List.findIdx?_eq_none_iff] at hf
    obtain ⟨e, he, rfl⟩ := List.mem_map.1 h
    have := hf e he
    simp at this

theorem sumP_eq_sum (t : Table) (l : List Pid) : sumP t l = (l.map t.power).sum := by
  unfold sumP
  exact List.sum_eq_foldl_nat.symm

theorem ctx_of (t : Table) (c : Chain) (H : List Pid) (hc : c ≠ []) (hnd : H.Nodup)
    (hin : ∀ p ∈ H, p ∈ t.entries.map (·.1)) (hq : strongQ t ((H.map t.power).sum) = true) : Ctx t c H :=
  ⟨hc, hnd, fun x hx => index_of_mem t x (hin x hx), by rw [sumP_eq_sum]; exact hq⟩

end

end F3.Sync
