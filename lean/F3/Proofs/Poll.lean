import F3.Model.Poll
import F3.Spec.Poll
/-! Helper lemmas for C20: truncated division bounds, the clamps, and the behaviour of
`F3.Spec.Poll.predictorSpec` on states satisfying the invariant. The property theorems themselves are
in `F3/Props/C20.lean`. -/
namespace F3.Proofs.Poll
open F3.GoInt F3.Spec.Poll

set_option linter.unusedSimpArgs false
set_option linter.unusedVariables false

theorem tdiv_bounds (a d : Int) (ha : 0 ≤ a) : -a ≤ Int.tdiv a d ∧ Int.tdiv a d ≤ a := by
  rcases Int.lt_trichotomy d 0 with hd | hd | hd
  · -- negative divisor
    have h : Int.tdiv a d = -(Int.tdiv a (-d)) := by rw [Int.tdiv_neg, Int.neg_neg]
    have hd' : 0 < -d := by omega
    rw [h, Int.tdiv_eq_ediv_of_nonneg ha]
    have h1 : 0 ≤ a / (-d) := Int.ediv_nonneg ha (by omega)
    have h2 : a / (-d) ≤ a := Int.ediv_le_self _ ha
    omega
  · subst hd; simp; omega
  · rw [Int.tdiv_eq_ediv_of_nonneg ha]
    have h1 : 0 ≤ a / d := Int.ediv_nonneg ha (by omega)
    have h2 : a / d ≤ a := Int.ediv_le_self _ ha
    omega

theorem tdiv_pos_div (a d : Int) (ha : 0 ≤ a) (hd : 0 < d) : 0 ≤ Int.tdiv a d ∧ Int.tdiv a d ≤ a := by
  rw [Int.tdiv_eq_ediv_of_nonneg ha]
  exact ⟨Int.ediv_nonneg ha (by omega), Int.ediv_le_self _ ha⟩

theorem clampE_bounds (mn mx x : Int) (hmn : 0 < mn) (hmm : mn ≤ mx) :
    0 ≤ clampE mn mx x ∧ clampE mn mx x ≤ Int.tdiv mx 2 := by
  unfold clampE
  rw [Int.tdiv_eq_ediv_of_nonneg (by omega : 0 ≤ mn), Int.tdiv_eq_ediv_of_nonneg (by omega : 0 ≤ mx)]
  split
  · omega
  · split <;> omega

theorem clampI_bounds (mn mx y : Int) (hmm : mn ≤ mx) : mn ≤ clampI mn mx y ∧ clampI mn mx y ≤ mx := by
  unfold clampI
  split
  · omega
  · split <;> omega

theorem clampI_le (mn mx y i : Int) (hy : y ≤ i) (hi : mn ≤ i) : clampI mn mx y ≤ i := by
  unfold clampI
  split
  · omega
  · split <;> omega

theorem clampI_ge (mn mx y i : Int) (hy : i ≤ y) (hi : i ≤ mx) : i ≤ clampI mn mx y := by
  unfold clampI
  split
  · omega
  · split <;> omega

theorem explore1_snd (w : Bool) (p e i : Int) (hi : 0 ≤ i) :
    -i ≤ (explore1 w p e i).2 ∧ (explore1 w p e i).2 ≤ i := by
  unfold explore1
  have := tdiv_bounds i (i64ofU64 p) hi
  split
  · simp; omega
  · split
    · simp; omega
    · simp; omega

theorem explore1_snd_small (w : Bool) (p e i : Int) (hp : p ≤ 2) : (explore1 w p e i).2 = i := by
  unfold explore1
  split
  · rfl
  · simp [hp]

/-- the predictor state invariant as a predicate on raw components -/
def InvC (mn mx b e i : Int) : Prop :=
  0 < mn ∧ mn ≤ mx ∧ mn ≤ i ∧ i ≤ mx ∧ 0 ≤ e ∧ e ≤ Int.tdiv mx 2 ∧ (b = 0 ∨ (mn ≤ b ∧ b ≤ 10 * mx))

theorem spec_bounds (p b e i mx mn : Int) (w : Bool) (h : InvC mn mx b e i) :
    let r := predictorSpec p b e i mx mn w
    InvC mn mx r.2.1 r.2.2.1 r.2.2.2.1 ∧ mn ≤ r.1 ∧ r.1 ≤ 10 * mx := by
  obtain ⟨hmn, hmm, hi1, hi2, he1, he2, hb⟩ := h
  have hE := clampE_bounds mn mx (explore1 w p e i).1 hmn hmm
  have hIa := clampI_bounds mn mx ((explore1 w p e i).2 + clampE mn mx (explore1 w p e i).1) hmm
  have hIs := clampI_bounds mn mx ((explore1 w p e i).2 - clampE mn mx (explore1 w p e i).1) hmm
  simp only [predictorSpec, fin, InvC]
  by_cases hb0 : b > 0
  · simp only [hb0, ite_true]
    by_cases hp : p > 0
    · simp [hp]; omega
    · simp only [hp, ite_false, hb0, ite_true]; omega
  · have hbz : b = 0 := by omega
    subst hbz
    simp only [hb0, ite_false]
    by_cases hp1 : p = 1
    · simp [hp1]; omega
    · simp only [ne_eq, hp1, not_false_eq_true, ite_true]
      by_cases hp0 : p = 0
      · subst hp0
        have hs := explore1_snd_small w 0 e i (by omega)
        rw [hs] at hIa
        have : i > 0 := by omega
        simp only [ite_true, hs, this]
        omega
      · simp only [hp0, ite_false]
        simp
        omega

theorem spec_fixpoint (b e i mx mn : Int) (w : Bool) (hb : b ≤ 0) :
    predictorSpec 1 b e i mx mn w = (i, b, e, i, w) := by
  have : ¬ b > 0 := by omega
  simp [predictorSpec, fin, this]

theorem spec_shortens (p b e i mx mn : Int) (w : Bool) (h : InvC mn mx b e i) (hp : 2 ≤ p) :
    let r := predictorSpec p b e i mx mn w
    r.2.2.2.1 ≤ i ∧ r.1 ≤ i ∧ r.2.1 = 0 := by
  obtain ⟨hmn, hmm, hi1, hi2, he1, he2, hb⟩ := h
  have hE := clampE_bounds mn mx (explore1 w p e i).1 hmn hmm
  have hS := explore1_snd w p e i (by omega)
  have hI := clampI_le mn mx ((explore1 w p e i).2 - clampE mn mx (explore1 w p e i).1) i (by omega) hi1
  simp only [predictorSpec, fin]
  by_cases hb0 : b > 0
  · have : p > 0 := by omega
    simp [hb0, this]
  · have hbz : b = 0 := by omega
    subst hbz
    have h1 : p ≠ 1 := by omega
    have h0 : ¬ p = 0 := by omega
    simp only [hb0, ite_false, ne_eq, h1, not_false_eq_true, ite_true, h0]
    simp
    omega

theorem clampE_pos (mn mx x : Int) (hmn : 100 ≤ mn) (hmm : mn ≤ mx) : 1 ≤ clampE mn mx x := by
  unfold clampE
  rw [Int.tdiv_eq_ediv_of_nonneg (by omega : 0 ≤ mn), Int.tdiv_eq_ediv_of_nonneg (by omega : 0 ≤ mx)]
  split
  · omega
  · split <;> omega

theorem clampI_lt (mn mx y i : Int) (hy : y < i) (hi : mn < i) : clampI mn mx y < i := by
  unfold clampI
  split
  · omega
  · split <;> omega

theorem spec_shortens_strict (p e i mx mn : Int) (w : Bool) (h : InvC mn mx 0 e i) (hp : 2 ≤ p)
    (hmn : 100 ≤ mn) (hi : mn < i) :
    (predictorSpec p 0 e i mx mn w).2.2.2.1 < i := by
  obtain ⟨_, hmm, hi1, hi2, he1, he2, hb⟩ := h
  have hE := clampE_pos mn mx (explore1 w p e i).1 hmn hmm
  have hS := explore1_snd w p e i (by omega)
  have hI := clampI_lt mn mx ((explore1 w p e i).2 - clampE mn mx (explore1 w p e i).1) i (by omega) hi
  have h1 : p ≠ 1 := by omega
  have h0 : ¬ p = 0 := by omega
  simp only [predictorSpec, fin, ne_eq, h1, not_false_eq_true, ite_true, h0, ite_false]
  simp
  omega

theorem spec_backs_off (b e i mx mn : Int) (w : Bool) (h : InvC mn mx b e i) :
    let r := predictorSpec 0 b e i mx mn w
    r.1 = (if b > 0 then b else i) ∧ i ≤ r.2.2.2.1 ∧ r.2.1 = min (2 * r.1) (10 * mx) ∧ r.1 ≤ r.2.1 ∧ 0 < r.2.1 := by
  obtain ⟨hmn, hmm, hi1, hi2, he1, he2, hb⟩ := h
  have hE := clampE_bounds mn mx (explore1 w 0 e i).1 hmn hmm
  have hs := explore1_snd_small w 0 e i (by omega)
  have hI := clampI_ge mn mx (i + clampE mn mx (explore1 w 0 e i).1) i (by omega) hi2
  simp only [predictorSpec, fin]
  by_cases hb0 : b > 0
  · simp [hb0]; omega
  · have hbz : b = 0 := by omega
    subst hbz
    have : i > 0 := by omega
    simp [hs, this]
    omega

end F3.Proofs.Poll
