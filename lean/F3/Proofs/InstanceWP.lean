import F3.Proofs.InstanceFrame
/-! Every function of the instance model enters strictly increasing progress points and broadcasts only
for the point it enters (`WP`), provided it reports no internal error / panic. -/
namespace F3.Instance

@[simp] theorem hasFailure_nil : hasFailure [] = false := rfl
@[simp] theorem hasFailure_append (a b : List Eff) : hasFailure (a ++ b) = (hasFailure a || hasFailure b) := by
  simp [hasFailure, List.any_append]
theorem hasFailure_cons (e : Eff) (es : List Eff) : hasFailure (e :: es) = (hasFailure [e] || hasFailure es) := by
  simp [hasFailure]
@[simp] theorem hasFailure_progress (r ph) (es : List Eff) : hasFailure (Eff.progress r ph :: es) = hasFailure es := by
  simp [hasFailure]
@[simp] theorem hasFailure_broadcast (r ph v t j) (es : List Eff) : hasFailure (Eff.broadcast r ph v t j :: es) = hasFailure es := by
  simp [hasFailure]
@[simp] theorem hasFailure_rebroadcast (r ph) (es : List Eff) : hasFailure (Eff.rebroadcast r ph :: es) = hasFailure es := by
  simp [hasFailure]
@[simp] theorem hasFailure_setAlarm (t) (es : List Eff) : hasFailure (Eff.setAlarm t :: es) = hasFailure es := by
  simp [hasFailure]
@[simp] theorem hasFailure_err (k) (es : List Eff) : hasFailure (Eff.err k :: es) = true := by
  simp [hasFailure]
@[simp] theorem hasFailure_panic (k) (es : List Eff) : hasFailure (Eff.panic k :: es) = true := by
  simp [hasFailure]

@[simp] theorem evs_progress (r ph) (es : List Eff) : evs (Eff.progress r ph :: es) = .prog r ph :: evs es := rfl
@[simp] theorem evs_broadcast (r ph v t j) (es : List Eff) : evs (Eff.broadcast r ph v t j :: es) = .bc r ph :: evs es := rfl
@[simp] theorem evs_rebroadcast (r ph) (es : List Eff) : evs (Eff.rebroadcast r ph :: es) = evs es := rfl
@[simp] theorem evs_setAlarm (t) (es : List Eff) : evs (Eff.setAlarm t :: es) = evs es := rfl
@[simp] theorem evs_err (k) (es : List Eff) : evs (Eff.err k :: es) = evs es := rfl
@[simp] theorem evs_panic (k) (es : List Eff) : evs (Eff.panic k :: es) = evs es := rfl

@[simp] theorem evs_rebroadcastEffs (s : State) : evs (rebroadcastEffs s) = [] := by
  unfold rebroadcastEffs
  split <;> simp
  all_goals (split <;> simp)

@[simp] theorem hasFailure_rebroadcastEffs (s : State) : hasFailure (rebroadcastEffs s) = false := by
  unfold rebroadcastEffs
  split <;> simp
  all_goals (split <;> simp)

@[simp] theorem tryRebroadcast_evs (s : State) (now : Int) : evs (s.tryRebroadcast now).2 = [] := by
  unfold State.tryRebroadcast State.resetReb
  dsimp only
  repeat' split
  all_goals simp

@[simp] theorem tryRebroadcast_pt (s : State) (now : Int) : (s.tryRebroadcast now).1.pt = s.pt := by
  unfold State.tryRebroadcast State.resetReb State.pt
  dsimp only
  repeat' split
  all_goals rfl

@[simp] theorem tryRebroadcast_nofail (s : State) (now : Int) : hasFailure (s.tryRebroadcast now).2 = false := by
  unfold State.tryRebroadcast State.resetReb
  dsimp only
  repeat' split
  all_goals simp

/-! ### begin* -/

theorem beginQuality_wp (s : State) (now : Int) (h : s.phase = .initial) :
    WP s.pt (evs (s.beginQuality now).2) (s.beginQuality now).1.pt := by
  unfold State.beginQuality State.alarmAfter State.resetReb State.pt
  simp [h]
  exact WP.enterB _ _ _ _ _ _ ⟨Or.inr ⟨rfl, by simp [Phase.toNat]⟩, by simp [Phase.toNat]⟩ (Or.inl rfl) (WP.nil _)

theorem beginPrepare_wp (s : State) (now : Int) (j : Option Just) (c : Pt)
    (hc : ptLt c (s.round, Phase.prepare.toNat)) :
    WP c (evs (s.beginPrepare now j).2) (s.beginPrepare now j).1.pt := by
  unfold State.beginPrepare State.alarmAfter State.resetReb State.pt
  simp
  exact WP.enterB _ _ _ _ _ _ hc (Or.inl rfl) (WP.nil _)

theorem beginCommit_wp (s : State) (now : Int) (c : Pt) (hc : ptLt c (s.round, Phase.commit.toNat))
    (hnf : hasFailure (s.beginCommit now).2 = false) :
    WP c (evs (s.beginCommit now).2) (s.beginCommit now).1.pt := by
  unfold State.beginCommit State.alarmAfter State.resetReb State.pt at *
  dsimp only at *
  split
  · simp; exact WP.enterB _ _ _ _ _ _ hc (Or.inl rfl) (WP.nil _)
  · rename_i hv
    simp only [hv] at hnf
    split
    · simp; exact WP.enterB _ _ _ _ _ _ hc (Or.inl rfl) (WP.nil _)
    · rename_i hj
      simp [hj] at hnf

theorem beginConverge_wp (s : State) (now : Int) (j : Just) (c : Pt)
    (hc : ptLt c (s.round, Phase.converge.toNat))
    (hnf : hasFailure (s.beginConverge now j).2 = false) :
    WP c (evs (s.beginConverge now j).2) (s.beginConverge now j).1.pt := by
  unfold State.beginConverge State.alarmAfter State.resetReb State.setRound State.pt at *
  dsimp only at *
  split
  · rename_i h; simp [h] at hnf
  · simp; exact WP.enterB _ _ _ _ _ _ hc (Or.inl rfl) (WP.nil _)

theorem beginDecide_wp (s : State) (r : Nat) (c : Pt) (hc : ptLt c (s.round, Phase.decide.toNat))
    (hnf : hasFailure (s.beginDecide r).2 = false) :
    WP c (evs (s.beginDecide r).2) (s.beginDecide r).1.pt := by
  unfold State.beginDecide State.resetReb State.pt at *
  dsimp only at *
  split
  · simp; exact WP.enterB _ _ _ _ _ _ hc (Or.inr ⟨rfl, rfl⟩) (WP.nil _)
  · rename_i h; simp [h] at hnf
  · rename_i h; simp [h] at hnf

theorem skipToDecide_wp (s : State) (v : Chain) (j : Option Just) (c : Pt)
    (hc : ptLt c (s.round, Phase.decide.toNat)) :
    WP c (evs (s.skipToDecide v j).2) (s.skipToDecide v j).1.pt := by
  unfold State.skipToDecide State.resetReb State.pt
  simp
  exact WP.enterB _ _ _ _ _ _ hc (Or.inr ⟨rfl, rfl⟩) (WP.nil _)

theorem terminate_wp (s : State) (d : Just) (c : Pt) (hc : ptLt c (s.round, Phase.terminated.toNat)) :
    WP c (evs (s.terminate d).2) (s.terminate d).1.pt := by
  unfold State.terminate State.resetReb State.pt
  simp
  exact WP.enter _ _ _ _ _ hc (WP.nil _)

theorem beginNextRound_wp (s : State) (now : Int) (hph : s.phase.toNat < 5)
    (hnf : hasFailure (s.beginNextRound now).2 = false) :
    WP s.pt (evs (s.beginNextRound now).2) (s.beginNextRound now).1.pt := by
  unfold State.beginNextRound at *
  dsimp only at *
  split
  · rename_i j hj
    simp only [hj] at hnf
    apply beginConverge_wp _ _ _ _ _ hnf
    exact ⟨Or.inl (Nat.lt_succ_self _), fun h => by simp only [State.pt] at h; omega⟩
  · rename_i p hp
    simp [hp] at hnf

end F3.Instance

namespace F3.Instance

/-! ### helpers preserving the progress point -/

@[simp] theorem addCandidate_round (s : State) (c : Chain) : (s.addCandidate c).1.round = s.round := by
  unfold State.addCandidate; split <;> rfl
@[simp] theorem addCandidate_phase (s : State) (c : Chain) : (s.addCandidate c).1.phase = s.phase := by
  unfold State.addCandidate; split <;> rfl

theorem addCandidatePrefixes_rp (s : State) (c : Chain) :
    (s.addCandidatePrefixes c).1.round = s.round ∧ (s.addCandidatePrefixes c).1.phase = s.phase := by
  unfold State.addCandidatePrefixes
  generalize ((List.range (c.length - 1)).reverse.map (· + 1)) = l
  suffices h : ∀ (acc : State × Bool), (acc.1.round = s.round ∧ acc.1.phase = s.phase) →
      ((l.foldl (fun (acc : State × Bool) l =>
        let r := acc.1.addCandidate (prefixTo c l); (r.1, acc.2 || r.2)) acc).1.round = s.round ∧
       (l.foldl (fun (acc : State × Bool) l =>
        let r := acc.1.addCandidate (prefixTo c l); (r.1, acc.2 || r.2)) acc).1.phase = s.phase) from h (s, false) ⟨rfl, rfl⟩
  induction l with
  | nil => intro acc h; simpa using h
  | cons x xs ih =>
    intro acc h
    simp only [List.foldl_cons]
    apply ih
    simpa using h

@[simp] theorem addCandidatePrefixes_round (s : State) (c : Chain) : (s.addCandidatePrefixes c).1.round = s.round :=
  (addCandidatePrefixes_rp s c).1
@[simp] theorem addCandidatePrefixes_phase (s : State) (c : Chain) : (s.addCandidatePrefixes c).1.phase = s.phase :=
  (addCandidatePrefixes_rp s c).2

@[simp] theorem tryRebroadcast_round (s : State) (now : Int) : (s.tryRebroadcast now).1.round = s.round :=
  congrArg Prod.fst (tryRebroadcast_pt s now)
theorem tryRebroadcast_phase_toNat (s : State) (now : Int) : (s.tryRebroadcast now).1.phase.toNat = s.phase.toNat :=
  congrArg Prod.snd (tryRebroadcast_pt s now)

theorem tryRebroadcast_wp (s : State) (now : Int) :
    WP s.pt (evs (s.tryRebroadcast now).2) (s.tryRebroadcast now).1.pt := by
  rw [tryRebroadcast_evs, tryRebroadcast_pt]; exact WP.nil _

/-- the result of a function either reports a failure or is a well-paired transition from `c` -/
def OKWP (c : Pt) (r : R) : Prop := hasFailure r.2 = true ∨ WP c (evs r.2) r.1.pt

theorem OKWP.of {c : Pt} {r : R} (h : hasFailure r.2 = false → WP c (evs r.2) r.1.pt) : OKWP c r := by
  unfold OKWP
  cases hf : hasFailure r.2
  · exact Or.inr (h hf)
  · exact Or.inl rfl

theorem OKWP.fail {c : Pt} {s : State} {es : List Eff} (h : hasFailure es = true) : OKWP c (s, es) := Or.inl h
theorem OKWP.nil {s : State} : OKWP s.pt (s, []) := Or.inr (WP.nil _)

theorem ptLt_same_round (s : State) (s1 : State) (h1 : s1.round = s.round) (n : Nat) (hn : s.phase.toNat < n)
    (h5 : s.phase.toNat < 5) : ptLt s.pt (s1.round, n) := by
  rw [h1]; exact ⟨Or.inr ⟨rfl, hn⟩, fun h => by simp only [State.pt] at h; omega⟩

/-! ### try* -/

theorem tryQuality_wp (s : State) (now : Int) : OKWP s.pt (s.tryQuality now) := by
  unfold State.tryQuality
  dsimp only
  split
  · exact OKWP.fail (by simp)
  · rename_i hph
    have hq : s.phase = .quality := by simpa using hph
    split
    · exact OKWP.of fun _ => beginPrepare_wp _ _ _ _
        (ptLt_same_round s _ (by simp) _ (by simp [hq, Phase.toNat]) (by simp [hq, Phase.toNat]))
    · exact OKWP.nil

theorem tryConverge_wp (s : State) (now : Int) : OKWP s.pt (s.tryConverge now) := by
  unfold State.tryConverge
  dsimp only
  split
  · exact OKWP.fail (by simp)
  · rename_i hph
    have hq : s.phase = .converge := by simpa using hph
    split
    · split
      · exact Or.inr (tryRebroadcast_wp s now)
      · exact OKWP.nil
    · split
      · exact OKWP.fail (by simp)
      · split
        · exact OKWP.fail (by simp)
        · exact OKWP.of fun _ => beginPrepare_wp _ _ _ _
            (ptLt_same_round s _ (by simp) _ (by simp [hq, Phase.toNat]) (by simp [hq, Phase.toNat]))

theorem tryPrepare_wp (s : State) (now : Int) : OKWP s.pt (s.tryPrepare now) := by
  unfold State.tryPrepare
  dsimp only
  split
  · exact OKWP.fail (by simp)
  · rename_i hph
    have hq : s.phase = .prepare := by simpa using hph
    have h1 : (s.prepareValue now).round = s.round ∧ (s.prepareValue now).phase = s.phase := ⟨by simp, by simp⟩
    generalize s.prepareValue now = s1 at *
    split
    · exact OKWP.of fun hnf => beginCommit_wp _ _ _
        (ptLt_same_round s _ h1.1 _ (by simp [hq, Phase.toNat]) (by simp [hq, Phase.toNat])) hnf
    · have hpt : s1.pt = s.pt := by simp [State.pt, h1.1, h1.2]
      split
      · refine Or.inr ?_
        rw [tryRebroadcast_evs, tryRebroadcast_pt, hpt]; exact WP.nil _
      · refine Or.inr ?_
        simp only [evs_nil, hpt]; exact WP.nil _


theorem tryCommit_wp (s : State) (now : Int) (round : Nat) (h5 : s.phase.toNat < 5) :
    OKWP s.pt (s.tryCommit now round) := by
  unfold State.tryCommit
  dsimp only
  split
  · exact OKWP.fail (by simp)
  · split
    · exact OKWP.of fun hnf => beginDecide_wp _ _ _
        (ptLt_same_round s _ rfl _ h5 h5) hnf
    · split
      · exact OKWP.nil
      · exact OKWP.of fun hnf => beginNextRound_wp _ _ h5 hnf
  · split
    · exact OKWP.nil
    · split
      · exact OKWP.of fun hnf => beginNextRound_wp _ _ h5 hnf
      · split
        · refine OKWP.of fun hnf => ?_
          have h := beginNextRound_wp (s.commitSway (s.getRound round).committed) now (by simpa using h5) hnf
          have hpt : (s.commitSway (s.getRound round).committed).pt = s.pt := by simp [State.pt]
          rwa [hpt] at h
        · split
          · exact Or.inr (tryRebroadcast_wp s now)
          · exact OKWP.nil

theorem tryDecide_wp (s : State) (now : Int) (hd : s.phase = .decide) : OKWP s.pt (s.tryDecide now) := by
  unfold State.tryDecide
  split
  · exact OKWP.fail (by simp)
  · split
    · exact OKWP.of fun _ => terminate_wp _ _ _
        ⟨Or.inr ⟨rfl, by simp [State.pt, hd, Phase.toNat]⟩, fun _ => rfl⟩
    · exact OKWP.fail (by simp)
    · exact OKWP.fail (by simp)
  · exact Or.inr (tryRebroadcast_wp s now)

theorem tryCurrentPhase_wp (s : State) (now : Int) : OKWP s.pt (s.tryCurrentPhase now) := by
  unfold State.tryCurrentPhase
  split
  · exact tryQuality_wp s now
  · exact tryConverge_wp s now
  · exact tryPrepare_wp s now
  · rename_i h; exact tryCommit_wp s now s.round (by simp [h, Phase.toNat])
  · rename_i h; exact tryDecide_wp s now h
  · exact OKWP.nil
  · exact OKWP.fail (by simp)

/-- sequencing preserves well-pairedness -/
theorem andThen_wp {c : Pt} {r : R} {f : State → R} (h1 : OKWP c r) (h2 : OKWP r.1.pt (f r.1)) :
    OKWP c (andThen r f) := by
  unfold andThen
  split
  · exact Or.inl (by assumption)
  · rename_i hnf
    rcases h1 with h1 | h1
    · exact absurd h1 hnf
    · rcases h2 with h2 | h2
      · exact Or.inl (by simp [h2])
      · exact Or.inr (by simpa using h1.append h2)


@[simp] theorem setRound_pt (s : State) (r : Nat) (rs : RoundState) : (s.setRound r rs).pt = s.pt := rfl
@[simp] theorem setRound_phase (s : State) (r : Nat) (rs : RoundState) : (s.setRound r rs).phase = s.phase := rfl
@[simp] theorem setRound_round (s : State) (r : Nat) (rs : RoundState) : (s.setRound r rs).round = s.round := rfl

theorem recvQuality_wp (s : State) (now : Int) (m : Msg) : OKWP s.pt (s.recvQuality now m) := by
  unfold State.recvQuality
  dsimp only
  split
  · refine Or.inr ?_
    simp only [evs_nil]
    have : ({ s with quality := s.quality.receiveEachPrefix s.tbl m.sender m.value } : State).updateCandidatesFromQuality.pt = s.pt := by
      unfold State.updateCandidatesFromQuality; simp [State.pt]
    rw [this]; exact WP.nil _
  · exact tryCurrentPhase_wp _ now

theorem recvConverge_wp (s : State) (now : Int) (m : Msg) (j : Just) : OKWP s.pt (s.recvConverge now m j) := by
  unfold State.recvConverge
  exact tryCurrentPhase_wp _ now

theorem recvPrepare_wp (s : State) (now : Int) (m : Msg) : OKWP s.pt (s.recvPrepare now m) := by
  unfold State.recvPrepare
  dsimp only
  split
  · exact OKWP.fail (by simp)
  · exact tryCurrentPhase_wp _ now

theorem recvCommit_wp (s : State) (now : Int) (m : Msg) (ht : s.phase ≠ .terminated) :
    OKWP s.pt (s.recvCommit now m) := by
  unfold State.recvCommit
  dsimp only
  split
  · exact OKWP.fail (by simp)
  · split
    · exact OKWP.fail (by simp)
    · split
      · rename_i hd
        have h5 : s.phase.toNat < 5 := by
          have hd' : s.phase ≠ .decide := by simpa using hd
          cases hp : s.phase <;> simp_all [Phase.toNat]
        split
        · exact andThen_wp (tryCommit_wp _ now m.round (by simpa using h5)) (tryCurrentPhase_wp _ now)
        · exact tryCommit_wp _ now m.round (by simpa using h5)
      · exact tryCurrentPhase_wp _ now

theorem recvDecide_wp (s : State) (now : Int) (m : Msg) (ht : s.phase ≠ .terminated) :
    OKWP s.pt (s.recvDecide now m) := by
  unfold State.recvDecide
  dsimp only
  split
  · exact OKWP.fail (by simp)
  · split
    · rename_i hd
      have h5 : s.phase.toNat < 5 := by
        have hd' : s.phase ≠ .decide := by simpa using hd
        cases hp : s.phase <;> simp_all [Phase.toNat]
      refine andThen_wp (OKWP.of fun _ => skipToDecide_wp _ _ _ _ ?_) (tryCurrentPhase_wp _ now)
      exact ptLt_same_round s _ rfl _ h5 h5
    · exact tryCurrentPhase_wp _ now

theorem recvPre_accept_not_terminated (s : State) (m : Msg) (h : s.recvPre m = .accept) : s.phase ≠ .terminated := by
  unfold State.recvPre at h
  intro ht
  simp [ht] at h
  repeat' split at h
  all_goals simp at h

theorem receiveOne_wp (s : State) (now : Int) (m : Msg) : OKWP s.pt (s.receiveOne now m).1 := by
  unfold State.receiveOne
  split
  · exact OKWP.fail (by simp)
  · exact OKWP.nil
  · rename_i hacc
    have ht := recvPre_accept_not_terminated s m hacc
    split
    · exact recvQuality_wp s now m
    · split
      · exact OKWP.fail (by simp)
      · split
        · exact OKWP.fail (by simp)
        · exact recvConverge_wp s now m _
    · exact recvPrepare_wp s now m
    · exact recvCommit_wp s now m ht
    · exact recvDecide_wp s now m ht
    · exact OKWP.fail (by simp)

/-- `postReceive` only moves forward, and never out of DECIDE / TERMINATED -/
theorem postReceive_wp (s : State) (now : Int) (round : Nat) (ht : s.phase ≠ .terminated) :
    OKWP s.pt (s.postReceive now round) := by
  unfold State.postReceive
  dsimp only
  split
  · exact OKWP.nil
  · rename_i hg
    split
    · exact OKWP.nil
    · split
      · exact OKWP.nil
      · split
        · exact OKWP.nil
        · have hg' : s.round < round ∧ s.phase ≠ .decide := by
            simp only [Bool.or_eq_true, decide_eq_true_eq, not_or, Nat.not_le] at hg
            exact ⟨hg.1, by simpa using hg.2⟩
          have h5 : s.phase.toNat < 5 := by
            cases hp : s.phase <;> simp_all [Phase.toNat]
          refine OKWP.of fun hnf => beginConverge_wp _ _ _ _ ?_ hnf
          have hr : ∀ st : State, st.round = round → ptLt s.pt (st.round, Phase.converge.toNat) := by
            intro st hst; rw [hst]
            exact ⟨Or.inl hg'.1, fun h => by simp only [State.pt] at h; omega⟩
          apply hr
          split
          · split <;> simp
          · split <;> simp

end F3.Instance
