import F3.Proofs.StoreDS
import F3.Proofs.StoreSpec
/-! The refinement relation between a datastore and the abstract history it represents, and what
every read of the store returns in a represented state. -/
namespace F3.Store

/-- Datastore `ds` (checkpoint period `freq`) represents history `sp`. Keys not mentioned are
unconstrained: stray `/power/*` keys of an interrupted create, a certificate / checkpoint written by
an interrupted `Put` above the latest pointer, keys outside the namespace. -/
structure Repr (freq : Nat) (ds : DS) (sp : Spec) : Prop where
  noTomb : dsGet ds .tomb = none
  noRootTomb : dsGet ds .rootTomb = none
  first : dsGet ds .first = some (.num sp.first)
  init : dsGet ds (.power sp.first) = some (.tbl sp.init)
  latest : dsGet ds .latest = sp.latest.map (fun c => Val.num c.inst)
  certs : ∀ k (h : k < sp.certs.length), dsGet ds (.cert (sp.first + k)) = some (.cert sp.certs[k])
  ckpt : ∀ k, 0 < k → k ≤ sp.certs.length → (sp.first + k) % freq = 0 →
    ∃ t, sp.tbl k = some t ∧ dsGet ds (.power (sp.first + k)) = some (.tbl t)
  facts : sp.Facts
  canon : Canon sp.init
  small : sp.certs.length < maxInt

/-- The handle's fields agree with the history (`latestTable` may still be unset while opening). -/
structure MemOk (m : Mem) (sp : Spec) : Prop where
  first : m.first = sp.first
  latest : m.latest = sp.latest
  table : some m.latestTable = sp.tbl sp.certs.length

theorem mem_next_eq {m : Mem} {sp : Spec} (hf : m.first = sp.first) (hl : m.latest = sp.latest) (h : sp.Facts) :
    m.next = sp.next := by
  unfold Mem.next
  rw [hl]
  cases hc : sp.latest with
  | none =>
    have := (Spec.latest_none_iff sp).1 hc
    simp [Spec.next, this, hf]
  | some c => exact Spec.latest_inst h hc

variable {freq : Nat} {ds : DS} {sp : Spec}

theorem getCert_repr (h : Repr freq ds sp) {k : Nat} (hk : k < sp.certs.length) :
    getCert ds (sp.first + k) = .ok sp.certs[k] := by
  unfold getCert; rw [h.certs k hk]

theorem getCert_repr_next (h : Repr freq ds sp) {i : Nat} (hi : i < sp.first) (hnone : dsGet ds (.cert i) = none) :
    getCert ds i = .error (.notFound i) := by
  unfold getCert; rw [hnone]

theorem rangeFrom_repr (h : Repr freq ds sp) (n k : Nat) (hk : k + n ≤ sp.certs.length) :
    rangeFrom ds (sp.first + k) n = .ok ((sp.certs.drop k).take n) := by
  induction n generalizing k with
  | zero => simp [rangeFrom]
  | succ n ih =>
    have hk' : k < sp.certs.length := by omega
    unfold rangeFrom
    rw [getCert_repr h hk']
    have := ih (k + 1) (by omega)
    rw [show sp.first + (k + 1) = sp.first + k + 1 by omega] at this
    simp only [this]
    rw [List.drop_eq_getElem_cons hk', List.take_succ_cons]

theorem getRange_repr (h : Repr freq ds sp) (k n : Nat) (hk : k + n + 1 ≤ sp.certs.length) :
    getRange ds (sp.first + k) (sp.first + k + n) = .ok ((sp.certs.drop k).take (n + 1), none) := by
  unfold getRange
  have h1 : ¬ (sp.first + k + n < sp.first + k) := by omega
  have h2 : sp.first + k + n - (sp.first + k) = n := by omega
  have h3 : ¬ (n ≥ maxInt) := by have := h.small; omega
  simp only [h1, if_false, h2, h3]
  rw [rangeFrom_repr h (n + 1) k (by omega)]
  have : ((sp.certs.drop k).take (n + 1)).length = n + 1 := by
    rw [List.length_take, List.length_drop]; omega
  simp [this]

theorem sub_mod_self_mod (i g : Nat) : (i - i % g) % g = 0 := by
  have h := Nat.div_add_mod i g
  have : i - i % g = g * (i / g) := by omega
  rw [this]; exact Nat.mul_mod_right g (i / g)

theorem take_split (l : List Cert) {j k : Nat} (h : j ≤ k) : l.take k = l.take j ++ (l.drop j).take (k - j) := by
  have : k = j + (k - j) := by omega
  rw [this, List.take_add, Nat.add_sub_cancel_left]

/-- Every power-table query inside `[first, next]` returns the fold of the deltas — from memory, from
the initial table, or from the nearest checkpoint, whichever the code takes. `g` is the period used by
the query (the store's own period, or any other one that finds no boundary above `first`). -/
theorem getPowerTable_repr (h : Repr freq ds sp) (cfg : Cfg) (m : Mem)
    (hf : m.first = sp.first) (hl : m.latest = sp.latest)
    (ht : m.latestTable = [] ∨ some m.latestTable = sp.tbl sp.certs.length)
    {k : Nat} (hk : k ≤ sp.certs.length)
    (hg : cfg.freq = freq ∨ (sp.first + k) - (sp.first + k) % cfg.freq ≤ sp.first)
    {T : Table} (hT : sp.tbl k = some T) :
    getPowerTable cfg m ds (sp.first + k) = .ok T := by
  have hnext : m.next = sp.first + sp.certs.length := mem_next_eq hf hl h.facts
  unfold getPowerTable
  have h1 : ¬ (sp.first + k < m.first) := by omega
  have h2 : ¬ (sp.first + k > m.next) := by omega
  simp only [h1, h2, if_false]
  by_cases hc : sp.first + k = m.next ∧ m.latestTable ≠ []
  · simp only [hc, and_self, if_true, ne_eq, not_false_eq_true]
    have hkl : k = sp.certs.length := by omega
    rcases ht with ht | ht
    · exact absurd ht hc.2
    · rw [← hkl, hT] at ht; cases ht; rfl
  · rw [if_neg hc]
    -- the table the code starts from
    generalize hs : max (sp.first + k - (sp.first + k) % cfg.freq) m.first = s
    have hs1 : sp.first ≤ s := by rw [← hs, hf]; exact Nat.le_max_right _ _
    have hs2 : s ≤ sp.first + k := by
      rw [← hs, hf]; exact Nat.max_le.2 ⟨Nat.sub_le _ _, Nat.le_add_right _ _⟩
    obtain ⟨j, rfl⟩ : ∃ j, s = sp.first + j := ⟨s - sp.first, by omega⟩
    have hjk : j ≤ k := by omega
    obtain ⟨Tj, hTj, _⟩ := h.facts.tbls j (by omega)
    have hread : readTable ds (sp.first + j) = .ok Tj := by
      unfold readTable
      by_cases hj0 : j = 0
      · subst hj0
        rw [Nat.add_zero, h.init]
        rw [Spec.tbl_zero] at hTj; cases hTj; rfl
      · have hmax : sp.first + j = sp.first + k - (sp.first + k) % cfg.freq := by
          rw [hf] at hs
          have := Nat.le_max_left (sp.first + k - (sp.first + k) % cfg.freq) sp.first
          rcases Nat.le_total (sp.first + k - (sp.first + k) % cfg.freq) sp.first with hle | hle
          · rw [Nat.max_eq_right hle] at hs; omega
          · rw [Nat.max_eq_left hle] at hs; exact hs.symm
        have hfreq : cfg.freq = freq := by
          rcases hg with hg | hg
          · exact hg
          · omega
        have hmod : (sp.first + j) % freq = 0 := by rw [hmax, ← hfreq]; exact sub_mod_self_mod _ _
        obtain ⟨t, ht1, ht2⟩ := h.ckpt j (by omega) (by omega) hmod
        rw [ht2]; rw [hTj] at ht1; cases ht1; rfl
    simp only [hread]
    by_cases hjk' : sp.first + j = sp.first + k
    · have : j = k := by omega
      subst this
      rw [if_pos rfl]; rw [hT] at hTj; cases hTj; rfl
    · rw [if_neg hjk']
      have hjk2 : j < k := by omega
      have hrange := getRange_repr h j (k - j - 1) (by omega)
      rw [show sp.first + j + (k - j - 1) = sp.first + k - 1 by omega, show k - j - 1 + 1 = k - j by omega] at hrange
      simp only [hrange]
      obtain ⟨mj, hmj, rfl⟩ := Spec.canon_tbl h.canon hTj
      have hfold := foldTables_eq_applyDiffs hmj ((sp.certs.drop j).take (k - j))
      have hsplit : sp.tbl k = Spec.foldTables (toArray mj) ((sp.certs.drop j).take (k - j)) := by
        unfold Spec.tbl
        rw [take_split sp.certs hjk, foldTables_append]
        have : Spec.foldTables sp.init (sp.certs.take j) = some (toArray mj) := hTj
        rw [this]
      rw [hT] at hsplit
      rw [← hsplit] at hfold
      cases happ : applyDiffs (toArray mj) (List.map (fun x => x.delta) (List.take (k - j) (List.drop j sp.certs))) with
      | error e => rw [happ] at hfold; cases hfold
      | ok t => rw [happ] at hfold; cases hfold; rfl

end F3.Store
