import F3.Proofs.StoreCrash
/-! Snapshot export / import. -/
namespace F3.Store

/-! ### Prefixes of a valid history are valid -/

namespace Spec

def takeN (sp : Spec) (j : Nat) : Spec := { sp with certs := sp.certs.take j }

theorem takeN_len (sp : Spec) {j : Nat} (h : j ≤ sp.certs.length) : (sp.takeN j).certs.length = j := by
  simp [takeN, List.length_take, Nat.min_eq_left h]

theorem takeN_all (sp : Spec) : sp.takeN sp.certs.length = sp := by
  simp [takeN]

theorem takeN_tbl (sp : Spec) {j k : Nat} (h : k ≤ j) : (sp.takeN j).tbl k = sp.tbl k := by
  unfold takeN tbl
  simp only [List.take_take]
  rw [Nat.min_eq_left h]

theorem takeN_push (sp : Spec) {j : Nat} (h : j < sp.certs.length) : (sp.takeN j).push sp.certs[j] = sp.takeN (j + 1) := by
  unfold takeN push
  simp only
  rw [List.take_succ_eq_append_getElem h]

theorem Facts.admits_next {sp : Spec} (hf : sp.Facts) {j : Nat} (h : j < sp.certs.length) :
    (sp.takeN j).admits sp.certs[j] = true := by
  obtain ⟨t, ht, _⟩ := hf.tbls j (Nat.le_of_lt h)
  obtain ⟨t', ht', hne'⟩ := hf.tbls (j + 1) h
  obtain ⟨hstep, hcm⟩ := hf.step j h t t' ht ht'
  refine (admits_iff _ _).2 ⟨?_, hf.chain j h, t, t', ?_, hstep, hcm, hne'⟩
  · rw [hf.inst j h]; simp [next, takeN, List.length_take, Nat.min_eq_left (Nat.le_of_lt h)]
  · have := takeN_tbl sp (Nat.le_refl j)
    rw [← tbl_len, takeN_len sp (Nat.le_of_lt h), this]; exact ht

theorem Facts.takeN {sp : Spec} (hf : sp.Facts) {j : Nat} (h : j ≤ sp.certs.length) : (sp.takeN j).Facts := by
  induction j with
  | zero =>
    have : sp.takeN 0 = ⟨sp.first, sp.init, []⟩ := by simp [Spec.takeN]
    rw [this]; exact Facts.create sp.first hf.initNe
  | succ j ih =>
    rw [← takeN_push sp h]
    exact (ih (Nat.le_of_lt h)).push (hf.admits_next h)

end Spec

/-! ### A store under construction: everything but the latest pointer -/

structure Staged (freq : Nat) (ds : DS) (sp : Spec) : Prop where
  noTomb : dsGet ds .tomb = none
  noRootTomb : dsGet ds .rootTomb = none
  first : dsGet ds .first = some (.num sp.first)
  init : dsGet ds (.power sp.first) = some (.tbl sp.init)
  certs : ∀ k (h : k < sp.certs.length), dsGet ds (.cert (sp.first + k)) = some (.cert sp.certs[k])
  ckpt : ∀ k, 0 < k → k ≤ sp.certs.length → (sp.first + k) % freq = 0 →
    ∃ t, sp.tbl k = some t ∧ dsGet ds (.power (sp.first + k)) = some (.tbl t)
  facts : sp.Facts
  canon : Canon sp.init
  small : sp.certs.length < maxInt

theorem Repr.staged {freq : Nat} {ds : DS} {sp : Spec} (h : Repr freq ds sp) : Staged freq ds sp :=
  ⟨h.noTomb, h.noRootTomb, h.first, h.init, h.certs, h.ckpt, h.facts, h.canon, h.small⟩

theorem Staged.repr {freq : Nat} {ds : DS} {sp : Spec} (h : Staged freq ds sp)
    (hl : dsGet ds .latest = sp.latest.map (fun c => Val.num c.inst)) : Repr freq ds sp :=
  ⟨h.noTomb, h.noRootTomb, h.first, h.init, hl, h.certs, h.ckpt, h.facts, h.canon, h.small⟩

/-- Writes of the importer for one certificate. -/
def stageWrites (freq : Nat) (c : Cert) (t : Table) : List W :=
  [W.put (.cert c.inst) (.cert c)] ++ (if (c.inst + 1) % freq = 0 then [W.put (.power (c.inst + 1)) (.tbl t)] else [])

theorem staged_put {freq : Nat} {ds : DS} {sp : Spec} (h : Staged freq ds sp) {c : Cert} (hadm : sp.admits c = true) {t' : Table}
    (ht' : (sp.push c).tbl (sp.certs.length + 1) = some t') (hsmall : sp.certs.length + 1 < maxInt) :
    Staged freq (applyWs ds (stageWrites freq c t')) (sp.push c) := by
  obtain ⟨hinst, _, _⟩ := (Spec.admits_iff sp c).1 hadm
  unfold Spec.next at hinst
  have hlen : (sp.push c).certs.length = sp.certs.length + 1 := by rw [Spec.push_certs]; simp
  have hget : ∀ key, dsGet (applyWs ds (stageWrites freq c t')) key =
      if key = .power (c.inst + 1) ∧ (c.inst + 1) % freq = 0 then some (.tbl t')
      else if key = .cert c.inst then some (.cert c)
      else dsGet ds key := by
    intro key
    unfold stageWrites
    by_cases hmod : (c.inst + 1) % freq = 0
    · simp only [hmod, if_true, List.cons_append, List.nil_append, applyWs_cons, applyWs_nil, applyW, dsGet_dsPut, and_true]
    · simp only [hmod, if_false, List.append_nil, applyWs_cons, applyWs_nil, applyW, dsGet_dsPut, and_false]
  refine ⟨?_, ?_, ?_, ?_, ?_, ?_, h.facts.push hadm, h.canon, by rw [hlen]; exact hsmall⟩
  · rw [hget]; simp; exact h.noTomb
  · rw [hget]; simp; exact h.noRootTomb
  · rw [hget]; simp; exact h.first
  · rw [hget, Spec.push_first, Spec.push_init]
    have : ¬ (sp.first = c.inst + 1) := by omega
    simp [this]; exact h.init
  · intro k hk
    rw [hlen] at hk
    rw [hget, Spec.push_first]
    by_cases hlt : k < sp.certs.length
    · have hne : ¬ (sp.first + k = c.inst) := by omega
      simp only [reduceCtorEq, if_false, false_and, Key.cert.injEq, hne]
      simp only [Spec.push_certs, List.getElem_append_left hlt]
      exact h.certs k hlt
    · have : k = sp.certs.length := by omega
      subst this
      simp [Spec.push_certs, hinst]
  · intro k hk1 hk2 hk3
    rw [hlen] at hk2
    rw [Spec.push_first] at hk3 ⊢
    by_cases hle : k ≤ sp.certs.length
    · obtain ⟨t, ht1, ht2⟩ := h.ckpt k hk1 hle hk3
      refine ⟨t, by rw [Spec.tbl_push_le sp c hle]; exact ht1, ?_⟩
      rw [hget]
      have hne : ¬ (sp.first + k = c.inst + 1) := by omega
      simp only [reduceCtorEq, if_false, Key.power.injEq, hne, false_and]
      exact ht2
    · have : k = sp.certs.length + 1 := by omega
      subst this
      refine ⟨t', ht', ?_⟩
      rw [hget]
      have he : sp.first + (sp.certs.length + 1) = c.inst + 1 := by omega
      rw [he] at hk3
      simp [he, hk3]

/-- The datastore right after a creation is a staged empty history with no latest pointer. -/
theorem staged_create {ds : DS} (freq : Nat) (h : NotInit ds) (first : Nat) {init : Table} (hne : init ≠ []) (hc : Canon init) :
    Staged freq (applyWs ds (createWrites first init)) ⟨first, init, []⟩ ∧
    dsGet (applyWs ds (createWrites first init)) .latest = none := by
  have hr := repr_create freq h first hne hc
  exact ⟨hr.staged, by simpa [Spec.latest] using hr.latest⟩

end F3.Store

namespace F3.Store

/-! ### The importer's loop -/

theorem importLoop_step (cfg : Cfg) (h : Header) (tail : Tail) (st : ImpSt) (b : Block) (r : List Block) (c : Cert)
    (hb : b.body = .cert c) (hle : ¬ c.inst > h.latest) {pm' : PMap} (hpm : applyDiffMap st.pm c.delta = .ok pm')
    (hck : (c.inst + 1) % cfg.freq = 0 → c.commit = Commit.known (toArray pm')) :
    importLoop cfg h tail c.inst st (b :: r) =
      importLoop cfg h tail (c.inst + 1) ⟨st.ws ++ stageWrites cfg.freq c (toArray pm'), pm', some c⟩ r := by
  rw [importLoop]
  simp only [hb, ne_eq, not_true_eq_false, if_false, hle, hpm]
  by_cases hmod : (c.inst + 1) % cfg.freq = 0
  · have := hck hmod
    simp only [hmod, if_true, this, not_true_eq_false, if_false, stageWrites, List.append_assoc]
  · simp only [hmod, if_false, stageWrites, List.append_nil]

theorem dsGet_stageWrites_latest (ds : DS) (freq : Nat) (c : Cert) (t : Table) :
    dsGet (applyWs ds (stageWrites freq c t)) .latest = dsGet ds .latest := by
  refine dsGet_applyWs_other ds _ ?_
  intro w hw
  unfold stageWrites at hw
  by_cases hmod : (c.inst + 1) % freq = 0
  · simp only [hmod, if_true, List.cons_append, List.nil_append, List.mem_cons, List.not_mem_nil, or_false] at hw
    rcases hw with rfl | rfl <;> simp [W.key]
  · simp only [hmod, if_false, List.append_nil, List.mem_cons, List.not_mem_nil, or_false] at hw
    subst hw; simp [W.key]

/-- On the certificates of a valid history the loop runs to the end: all certificates and
checkpoints staged, running table = table after the last certificate. -/
theorem importLoop_valid (cfg : Cfg) (h : Header) (tail : Tail) (htail : tail.isEOF cfg.lenientEOF = true) (sp : Spec)
    (hf : sp.Facts) (hcan : Canon sp.init) (hsmall : sp.certs.length < maxInt)
    (hlat : sp.first + sp.certs.length ≤ h.latest + 1) (ds0 : DS)
    (bs : List Block) (j : Nat) (hj : j ≤ sp.certs.length)
    (hbs : bs.map (·.body) = (sp.certs.drop j).map Body.cert)
    (st : ImpSt) (hst : Staged cfg.freq (applyWs ds0 st.ws) (sp.takeN j))
    (hlatest : dsGet (applyWs ds0 st.ws) .latest = none)
    (hpm1 : IdSorted st.pm) (hpm2 : sp.tbl j = some (toArray st.pm)) (hlast : st.last = (sp.takeN j).latest) :
    ∃ st', importLoop cfg h tail (sp.first + j) st bs = (st', none) ∧
      Staged cfg.freq (applyWs ds0 st'.ws) sp ∧ dsGet (applyWs ds0 st'.ws) .latest = none ∧
      IdSorted st'.pm ∧ sp.tbl sp.certs.length = some (toArray st'.pm) ∧ st'.last = sp.latest := by
  induction bs generalizing j st with
  | nil =>
    have hjl : j = sp.certs.length := by
      have : (sp.certs.drop j).length = 0 := by
        have := congrArg List.length hbs; simpa using this.symm
      rw [List.length_drop] at this; omega
    subst hjl
    rw [Spec.takeN_all] at hst hlast
    exact ⟨st, by rw [importLoop, if_pos htail], hst, hlatest, hpm1, hpm2, hlast⟩
  | cons b r ih =>
    have hjl : j < sp.certs.length := by
      have := congrArg List.length hbs
      simp only [List.map_cons, List.length_cons, List.length_map, List.length_drop] at this
      omega
    rw [List.drop_eq_getElem_cons hjl] at hbs
    simp only [List.map_cons, List.cons.injEq] at hbs
    obtain ⟨hb, hr⟩ := hbs
    have hinst := hf.inst j hjl
    -- the certificate is admitted by the history staged so far
    have hadm := hf.admits_next hjl
    obtain ⟨_, _, t, t', hfold, hstep, hcm, _⟩ := (Spec.admits_iff _ _).1 hadm
    have ht : t = toArray st.pm := by
      have h1 : (sp.takeN j).tbl j = some t := by
        have := Spec.tbl_len (sp.takeN j); rw [Spec.takeN_len sp (Nat.le_of_lt hjl)] at this; rw [this]; exact hfold
      rw [Spec.takeN_tbl sp (Nat.le_refl j), hpm2] at h1
      exact (Option.some.inj h1).symm
    subst ht
    rw [tableStep_canon hpm1] at hstep
    cases hd : applyDiffMap st.pm (sp.certs[j]).delta with
    | error e => rw [hd] at hstep; cases hstep
    | ok pm' =>
      rw [hd] at hstep
      have ht' : t' = toArray pm' := by cases hstep; rfl
      subst ht'
      have hstepL := importLoop_step cfg h tail st b r sp.certs[j] hb (by rw [hinst]; omega) hd (fun _ => hcm)
      rw [hinst] at hstepL
      rw [hstepL]
      have hpush : (sp.takeN j).push sp.certs[j] = sp.takeN (j + 1) := Spec.takeN_push sp hjl
      have htbl : ((sp.takeN j).push sp.certs[j]).tbl ((sp.takeN j).certs.length + 1) = some (toArray pm') :=
        Spec.tbl_push_last _ _ hfold (by rw [tableStep_canon hpm1, hd])
      have hsm : (sp.takeN j).certs.length + 1 < maxInt := by rw [Spec.takeN_len sp (Nat.le_of_lt hjl)]; omega
      have hstaged := staged_put hst hadm htbl hsm
      rw [hpush] at hstaged htbl
      rw [Spec.takeN_len sp (Nat.le_of_lt hjl), Spec.takeN_tbl sp (Nat.le_refl _)] at htbl
      have hl : some sp.certs[j] = (sp.takeN (j + 1)).latest := by
        show some sp.certs[j] = (List.take (j + 1) sp.certs).getLast?
        rw [List.take_succ_eq_append_getElem hjl, List.getLast?_concat]
      have := ih (j + 1) hjl hr
        ⟨st.ws ++ stageWrites cfg.freq sp.certs[j] (toArray pm'), pm', some sp.certs[j]⟩
        (by simp only [applyWs_append]; exact hstaged)
        (by simp only [applyWs_append]; rw [dsGet_stageWrites_latest]; exact hlatest)
        (idSorted_applyDiffMap hpm1 hd) htbl
        hl
      rw [show sp.first + (j + 1) = sp.first + j + 1 by omega] at this
      exact this

end F3.Store

namespace F3.Store

/-! ### Export -/

theorem exportCerts_repr {freq : Nat} {ds : DS} {sp : Spec} (h : Repr freq ds sp) (n k : Nat) (hk : k + n ≤ sp.certs.length) :
    exportCerts ds (sp.first + k) n = ((sp.certs.drop k).take n, none) := by
  induction n generalizing k with
  | zero => simp [exportCerts]
  | succ n ih =>
    have hk' : k < sp.certs.length := by omega
    unfold exportCerts
    rw [getCert_repr h hk']
    have := ih (k + 1) (by omega)
    rw [show sp.first + (k + 1) = sp.first + k + 1 by omega] at this
    simp only [this]
    rw [List.drop_eq_getElem_cons hk', List.take_succ_cons]

theorem exportSnapshot_repr (cfg : Cfg) {ds : DS} {sp : Spec} (h : Repr cfg.freq ds sp) {m : Mem} (hm : MemOk m sp)
    {n : Nat} (hn : n < sp.next) :
    exportSnapshot cfg m ds n = .ok (⟨1, sp.first, n, sp.init⟩, (sp.truncateTo n).certs) := by
  unfold exportSnapshot
  have hpt := getPowerTable_repr h cfg m hm.first hm.latest (Or.inr hm.table) (k := 0) (Nat.zero_le _) (Or.inl rfl) (Spec.tbl_zero sp)
  rw [Nat.add_zero] at hpt
  rw [hm.first, hpt]
  simp only
  unfold Spec.next at hn
  have := exportCerts_repr h (n + 1 - sp.first) 0 (by omega)
  rw [Nat.add_zero] at this
  rw [this]
  simp [Spec.truncateTo]

/-! ### Import of a well-formed snapshot -/

/-- The manifest, if supplied, names the header's first instance and (if it names one) its initial table. -/
def manifestAgrees (mf : Option Manifest) (h : Header) : Prop :=
  match mf with
  | none => True
  | some m => m.first = h.first ∧ (m.init = none ∨ m.init = some (Commit.known h.init))

theorem staged_put_latest {freq : Nat} {ds : DS} {sp : Spec} (h : Staged freq ds sp) (v : Val) :
    Staged freq (dsPut ds .latest v) sp := by
  refine ⟨?_, ?_, ?_, ?_, ?_, ?_, h.facts, h.canon, h.small⟩
  · rw [dsGet_dsPut_other _ _ (by decide)]; exact h.noTomb
  · rw [dsGet_dsPut_other _ _ (by decide)]; exact h.noRootTomb
  · rw [dsGet_dsPut_other _ _ (by decide)]; exact h.first
  · rw [dsGet_dsPut_other _ _ (by intro e; cases e)]; exact h.init
  · intro k hk; rw [dsGet_dsPut_other _ _ (by intro e; cases e)]; exact h.certs k hk
  · intro k h1 h2 h3
    obtain ⟨t, ht1, ht2⟩ := h.ckpt k h1 h2 h3
    exact ⟨t, ht1, by rw [dsGet_dsPut_other _ _ (by intro e; cases e)]; exact ht2⟩

/-- **Importing a well-formed snapshot builds the store it describes**: header `(first, latest, init)`
followed by exactly the certificates of a valid history `sp` ending at `latest`, into a datastore
holding no store, under any checkpoint period. -/
theorem importSnapshot_valid (cfg : Cfg) {ds : DS} (hds : NotInit ds) (o : Orders) (sp : Spec) (hf : sp.Facts)
    (hcan : Canon sp.init) (hsmall : sp.certs.length < maxInt) (hne : sp.certs ≠ [])
    (hdr : Header) (hh1 : hdr.first = sp.first) (hh2 : hdr.init = sp.init) (hh3 : sp.first + sp.certs.length = hdr.latest + 1)
    (s : Stream) (hb : Block) (bs : List Block) (hs : s.blocks = hb :: bs) (hhb : hb.body = .header hdr)
    (hbs : bs.map (·.body) = sp.certs.map Body.cert) (htail : s.tail.isEOF cfg.lenientEOF = true)
    (mf : Option Manifest) (hmf : manifestAgrees mf hdr) :
    (importSnapshot cfg ds o s mf).res = .ok () ∧ Repr cfg.freq (applyWs ds (importSnapshot cfg ds o s mf).ws) sp := by
  obtain ⟨pm0, hpm0, hinit⟩ := hcan
  have hmfc : manifestCheck mf hdr = none := by
    unfold manifestCheck
    cases mf with
    | none => rfl
    | some m =>
      obtain ⟨h1, h2⟩ := hmf
      simp only [ne_eq, h1, not_true_eq_false, if_false]
      rcases h2 with h2 | h2 <;> rw [h2] <;> simp
  have hcreate := openOrCreate_notInit cfg o hds hdr.first (init := hdr.init) (by rw [hh2]; exact hf.initNe)
  obtain ⟨hst0, hl0⟩ := staged_create cfg.freq hds hdr.first (init := hdr.init) (by rw [hh2]; exact hf.initNe)
    (by rw [hh2]; exact ⟨pm0, hpm0, hinit⟩)
  have hloop := importLoop_valid cfg hdr s.tail htail sp hf ⟨pm0, hpm0, hinit⟩ hsmall (by omega) ds bs 0 (Nat.zero_le _)
    (by simpa using hbs) ⟨createWrites hdr.first hdr.init, toMap hdr.init, none⟩
    (by
      have : sp.takeN 0 = ⟨hdr.first, hdr.init, []⟩ := by simp [Spec.takeN, hh1, hh2]
      rw [this]; exact hst0)
    hl0
    (by show IdSorted (toMap hdr.init); rw [hh2, hinit, toMap_toArray hpm0]; exact hpm0)
    (by show sp.tbl 0 = some (toArray (toMap hdr.init)); rw [hh2, hinit, toMap_toArray hpm0, ← hinit]; exact Spec.tbl_zero sp)
    (by simp [Spec.takeN, Spec.latest])
  obtain ⟨st', hloop, hst', hl', hpm1, hpm2, hlast⟩ := hloop
  rw [Nat.add_zero, ← hh1] at hloop
  -- the last certificate
  obtain ⟨c, hc⟩ : ∃ c, sp.latest = some c := by
    cases hl : sp.latest with
    | none => exact absurd ((Spec.latest_none_iff sp).1 hl) hne
    | some c => exact ⟨c, rfl⟩
  have hcinst : c.inst = hdr.latest := by have := Spec.latest_inst hf hc; unfold Spec.next at this; omega
  obtain ⟨hlen, hget⟩ := latest_getElem hc
  have hcommit : c.commit = Commit.known (toArray st'.pm) := by
    obtain ⟨t, ht, _⟩ := hf.tbls (sp.certs.length - 1) (by omega)
    have hk1 : sp.certs.length - 1 + 1 = sp.certs.length := by omega
    have := (hf.step (sp.certs.length - 1) hlen t (toArray st'.pm) ht (by rw [hk1]; exact hpm2)).2
    rwa [hget] at this
  unfold importSnapshot
  rw [hs]
  simp only [hhb, hmfc, hcreate, hloop, hlast, hc, hcinst, ne_eq, not_true_eq_false, if_false, hcommit]
  refine ⟨trivial, ?_⟩
  rw [applyWs_append]
  simp only [applyWs_cons, applyWs_nil, applyW]
  refine (staged_put_latest hst' _).repr ?_
  rw [dsGet_dsPut_same, hc]
  simp [hcinst]

end F3.Store

namespace F3.Store

/-! ### What the importer accepts -/

theorem applyDiffsMap_cons_ok {m m1 : PMap} {d : Diff} (h : applyDiffMap m d = .ok m1) (ds : List Diff) :
    applyDiffsMap m (d :: ds) = applyDiffsMap m1 ds := by
  rw [applyDiffsMap, h]

/-- If the loop runs to the end without error, the blocks were certificates with consecutive
instances from `i`, none above the header's latest, all deltas applied in sequence, and at every
checkpoint instance the running table hashed to the certificate's commitment. -/
theorem importLoop_sound (cfg : Cfg) (h : Header) (tail : Tail) (bs : List Block) (i : Nat) (st st' : ImpSt)
    (hl : importLoop cfg h tail i st bs = (st', none)) :
    tail.isEOF cfg.lenientEOF = true ∧ ∃ cs : List Cert, bs.map (·.body) = cs.map Body.cert ∧
      (∀ k (hk : k < cs.length), cs[k].inst = i + k ∧ cs[k].inst ≤ h.latest) ∧
      applyDiffsMap st.pm (cs.map (·.delta)) = .ok st'.pm ∧
      st'.last = (if cs = [] then st.last else cs.getLast?) ∧
      (∀ k (hk : k < cs.length), (cs[k].inst + 1) % cfg.freq = 0 →
        ∃ pm, applyDiffsMap st.pm ((cs.take (k + 1)).map (·.delta)) = .ok pm ∧ cs[k].commit = Commit.known (toArray pm)) := by
  induction bs generalizing i st with
  | nil =>
    rw [importLoop] at hl
    by_cases ht : tail.isEOF cfg.lenientEOF = true
    · rw [if_pos ht] at hl
      have : st' = st := by cases hl; rfl
      subst this
      exact ⟨ht, [], rfl, by intro k hk; simp at hk, rfl, rfl, by intro k hk; simp at hk⟩
    · rw [if_neg ht] at hl; cases hl
  | cons b r ih =>
    rw [importLoop] at hl
    cases hb : b.body with
    | header _ => rw [hb] at hl; cases hl
    | junk => rw [hb] at hl; cases hl
    | cert c =>
      rw [hb] at hl
      simp only at hl
      by_cases h1 : i ≠ c.inst
      · rw [if_pos h1] at hl; cases hl
      · rw [if_neg h1] at hl
        have hi : i = c.inst := Classical.not_not.1 h1
        by_cases h2 : i > h.latest
        · rw [if_pos h2] at hl; cases hl
        · rw [if_neg h2] at hl
          cases hd : applyDiffMap st.pm c.delta with
          | error e => rw [hd] at hl; cases hl
          | ok pm =>
            rw [hd] at hl
            simp only at hl
            -- both branches continue with the same running map and `last = some c`
            have key : ∃ st1 : ImpSt, st1.pm = pm ∧ st1.last = some c ∧
                ((c.inst + 1) % cfg.freq = 0 → c.commit = Commit.known (toArray pm)) ∧
                importLoop cfg h tail (i + 1) st1 r = (st', none) := by
              by_cases hm : (c.inst + 1) % cfg.freq = 0
              · rw [if_pos hm] at hl
                by_cases hc : c.commit ≠ Commit.known (toArray pm)
                · rw [if_pos hc] at hl; cases hl
                · rw [if_neg hc] at hl
                  exact ⟨_, rfl, rfl, fun _ => Classical.not_not.1 hc, hl⟩
              · rw [if_neg hm] at hl
                exact ⟨_, rfl, rfl, fun h' => absurd h' hm, hl⟩
            obtain ⟨st1, hpm1, hlast1, hck, hrec⟩ := key
            obtain ⟨hte, cs, hcs, hinst, happ, hlast, hckpt⟩ := ih (i + 1) st1 hrec
            refine ⟨hte, c :: cs, by simp [hb, hcs], ?_, ?_, ?_, ?_⟩
            · intro k hk
              cases k with
              | zero => exact ⟨by simpa using hi.symm, by simp only [List.getElem_cons_zero]; omega⟩
              | succ k =>
                have := hinst k (by simpa using hk)
                simp only [List.getElem_cons_succ]
                exact ⟨by omega, this.2⟩
            · rw [List.map_cons, applyDiffsMap_cons_ok hd, ← hpm1]; exact happ
            · rw [hlast, hlast1]
              by_cases hn : cs = []
              · subst hn; simp
              · cases cs with
                | nil => exact absurd rfl hn
                | cons x xs => simp [List.getLast?_cons_cons]
            · intro k hk hm
              cases k with
              | zero =>
                refine ⟨pm, ?_, hck (by simpa using hm)⟩
                simp [applyDiffsMap, hd]
              | succ k =>
                obtain ⟨pm2, hp2, hc2⟩ := hckpt k (by simpa using hk) (by simpa using hm)
                refine ⟨pm2, ?_, by simpa using hc2⟩
                rw [List.take_succ_cons, List.map_cons, applyDiffsMap_cons_ok hd, ← hpm1]; exact hp2

end F3.Store

namespace F3.Store

/-- Everything an accepted snapshot satisfies. -/
theorem importSnapshot_sound (cfg : Cfg) (ds : DS) (o : Orders) (s : Stream) (mf : Option Manifest)
    (hok : (importSnapshot cfg ds o s mf).res = .ok ()) :
    s.tail.isEOF cfg.lenientEOF = true ∧ ∃ (hb : Block) (bs : List Block) (hdr : Header) (cs : List Cert),
      s.blocks = hb :: bs ∧ hb.body = .header hdr ∧ manifestCheck mf hdr = none ∧
      bs.map (·.body) = cs.map Body.cert ∧ cs ≠ [] ∧
      (∀ k (hk : k < cs.length), cs[k].inst = hdr.first + k) ∧ hdr.first + cs.length = hdr.latest + 1 ∧
      (∀ k (hk : k < cs.length), ((cs[k].inst + 1) % cfg.freq = 0 ∨ k + 1 = cs.length) →
        ∃ pm, applyDiffsMap (toMap hdr.init) ((cs.take (k + 1)).map (·.delta)) = .ok pm ∧
          cs[k].commit = Commit.known (toArray pm)) := by
  unfold importSnapshot at hok
  cases hblocks : s.blocks with
  | nil => rw [hblocks] at hok; cases hok
  | cons hb bs =>
    rw [hblocks] at hok
    simp only at hok
    cases hbody : hb.body with
    | cert _ => rw [hbody] at hok; cases hok
    | junk => rw [hbody] at hok; cases hok
    | header hdr =>
      rw [hbody] at hok
      simp only at hok
      cases hmc : manifestCheck mf hdr with
      | some e => rw [hmc] at hok; cases hok
      | none =>
        rw [hmc] at hok
        simp only at hok
        cases hoc : (openOrCreateStore cfg ds o hdr.first hdr.init).res with
        | error e => rw [hoc] at hok; cases hok
        | ok m0 =>
          rw [hoc] at hok
          simp only at hok
          cases hloop : importLoop cfg hdr s.tail hdr.first ⟨(openOrCreateStore cfg ds o hdr.first hdr.init).ws, toMap hdr.init, none⟩ bs with
          | mk st err =>
            rw [hloop] at hok
            simp only at hok
            cases err with
            | some e => cases hok
            | none =>
              simp only at hok
              obtain ⟨hte, cs, hcs, hinst, happ, hlast, hckpt⟩ := importLoop_sound cfg hdr s.tail bs hdr.first _ st hloop
              simp only at hlast happ hckpt
              cases hl : st.last with
              | none => rw [hl] at hok; cases hok
              | some c =>
                rw [hl] at hok
                simp only at hok
                by_cases h1 : c.inst ≠ hdr.latest
                · rw [if_pos h1] at hok; cases hok
                · rw [if_neg h1] at hok
                  by_cases h2 : c.commit ≠ Commit.known (toArray st.pm)
                  · rw [if_pos h2] at hok; cases hok
                  · have hci : c.inst = hdr.latest := Classical.not_not.1 h1
                    have hcc : c.commit = Commit.known (toArray st.pm) := Classical.not_not.1 h2
                    have hne : cs ≠ [] := by
                      intro hnil
                      rw [hnil, if_pos rfl, hl] at hlast
                      cases hlast
                    rw [if_neg hne, hl] at hlast
                    have hlen : cs.length - 1 < cs.length := by
                      cases cs with
                      | nil => exact absurd rfl hne
                      | cons x xs => simp
                    have hget : cs[cs.length - 1] = c := by
                      rw [List.getLast?_eq_getElem?, List.getElem?_eq_getElem hlen] at hlast
                      exact (Option.some.inj hlast).symm
                    refine ⟨hte, hb, bs, hdr, cs, rfl, hbody, hmc, hcs, hne, fun k hk => (hinst k hk).1, ?_, ?_⟩
                    · have := (hinst _ hlen).1
                      rw [hget, hci] at this
                      omega
                    · intro k hk hor
                      rcases hor with hm | hlastk
                      · exact hckpt k hk hm
                      · have hk' : k = cs.length - 1 := by omega
                        subst hk'
                        refine ⟨st.pm, ?_, by rw [hget]; exact hcc⟩
                        rw [show cs.length - 1 + 1 = cs.length by omega, List.take_length]
                        exact happ

/-! ### Truncation -/

theorem truncateBlocks_strict_prefix (bs : List Block) (hpos : ∀ b ∈ bs, 0 < b.vlen ∧ 0 < b.blen) (p : Nat)
    (hp : p < totalSize bs) : ∃ j, j < bs.length ∧ (truncateBlocks bs p).blocks = bs.take j := by
  induction bs generalizing p with
  | nil => simp [totalSize] at hp
  | cons b r ih =>
    obtain ⟨hv, hbl⟩ := hpos b (List.mem_cons_self ..)
    unfold truncateBlocks
    by_cases h0 : p = 0
    · exact ⟨0, by simp, by simp [h0]⟩
    · rw [if_neg h0]
      by_cases h1 : p < b.vlen
      · exact ⟨0, by simp, by simp [h1]⟩
      · rw [if_neg h1]
        by_cases h2 : p = b.vlen
        · have : ¬ b.blen = 0 := by omega
          exact ⟨0, by simp, by simp [h2, this]⟩
        · rw [if_neg h2]
          by_cases h3 : p < b.vlen + b.blen
          · exact ⟨0, by simp, by simp [h3]⟩
          · rw [if_neg h3]
            have hp' : p - (b.vlen + b.blen) < totalSize r := by
              simp only [totalSize, Block.size] at hp; omega
            obtain ⟨j, hj, hjb⟩ := ih (fun b hb => hpos b (List.mem_cons_of_mem _ hb)) _ hp'
            exact ⟨j + 1, by simpa using hj, by simp [hjb]⟩

end F3.Store

namespace F3.Store

theorem frame_bodies (cs : List Cert) (szs : List (Nat × Nat)) (h : szs.length = cs.length) :
    ((cs.zip szs).map (fun (c, s) => (⟨s.1, s.2, .cert c⟩ : Block))).map (·.body) = cs.map Body.cert := by
  induction cs generalizing szs with
  | nil => simp
  | cons c r ih =>
    cases szs with
    | nil => simp at h
    | cons z zs =>
      simp only [List.zip_cons_cons, List.map_cons, List.cons.injEq, true_and]
      exact ih zs (by simpa using h)

theorem cert_map_injective {a b : List Cert} (h : a.map Body.cert = b.map Body.cert) : a = b := by
  induction a generalizing b with
  | nil => cases b with
    | nil => rfl
    | cons y ys => simp at h
  | cons x xs ih => cases b with
    | nil => simp at h
    | cons y ys =>
      simp only [List.map_cons, List.cons.injEq, Body.cert.injEq] at h
      rw [h.1, ih h.2]

end F3.Store
