import F3.Proofs.WalInv
/-! Helper lemmas for C11: what `All()` returns on a state satisfying the invariant. Core-only. -/
namespace F3.Wal
variable {α β : Type}

theorem Dir.get_some_of_mem_names {d : Dir β} {n : Name} (h : n ∈ d.names) : ∃ bs, d.get n = some bs := by
  induction d with
  | nil => simp [Dir.names] at h
  | cons f t ih =>
    obtain ⟨a, b⟩ := f
    simp only [Dir.get]
    by_cases ha : a = n
    · exact ⟨b, by simp [ha]⟩
    · simp only [ha, if_false]
      apply ih
      simp only [Dir.names, List.map_cons, List.mem_cons] at h
      rcases h with h | h
      · exact absurd h.symm ha
      · exact h

/-- What `readLogFile` returns for a file of a reachable directory: the acknowledged records of that
file in order, possibly followed by the one record whose append was cut by a crash after all of its
bytes had reached the file. -/
theorem Inv.read_file {cfg : Cfg α β} (hc : cfg.codec.Ok) {s : State α β} (h : Inv cfg s) {nm : Name}
    {bs : List β} (hmem : (nm, bs) ∈ s.dir) :
    readFile cfg.codec bs = ackedOf s nm ∨
    ∃ e, (nm, e) ∈ s.inflight ∧ readFile cfg.codec bs = ackedOf s nm ++ [e] := by
  rcases h.content nm bs hmem with h1 | ⟨_, e, k, hin, h2⟩
  · left; rw [h1, readFile_encAll hc]
  · rw [h2, readFile_encAll_take hc]
    split
    · left; rfl
    · right; exact ⟨e, hin, rfl⟩

/-- tagged content of the files `names`, in that order -/
def readSpec (cfg : Cfg α β) (d : Dir β) (names : List Name) : List (Name × α) :=
  names.flatMap (fun n => (readFile cfg.codec ((d.get n).getD [])).map (fun e => (n, e)))

theorem readAll_eq {cfg : Cfg α β} {d : Dir β} (names : List Name) (hsub : ∀ n ∈ names, n ∈ d.names) :
    readAll cfg d names = some (readSpec cfg d names) := by
  induction names with
  | nil => rfl
  | cons n t ih =>
    obtain ⟨bs, hg⟩ := Dir.get_some_of_mem_names (hsub n (by simp))
    simp only [readAll, hg, ih (fun n' hn' => hsub n' (List.mem_cons_of_mem _ hn'))]
    simp [readSpec, hg]

theorem mem_readSpec {cfg : Cfg α β} {d : Dir β} {names : List Name} {p : Name × α} :
    p ∈ readSpec cfg d names ↔ p.1 ∈ names ∧ p.2 ∈ readFile cfg.codec ((d.get p.1).getD []) := by
  obtain ⟨n, e⟩ := p
  simp only [readSpec, List.mem_flatMap, List.mem_map, Prod.mk.injEq]
  constructor
  · rintro ⟨n', hn', e', he', rfl, rfl⟩; exact ⟨hn', he'⟩
  · rintro ⟨hn, he⟩; exact ⟨n, hn, e, he, rfl, rfl⟩

/-- The records returned for one file are that file's decodable records, in file order. -/
theorem readSpec_filter {cfg : Cfg α β} {d : Dir β} {names : List Name} (hnd : names.Nodup) {nm : Name}
    (hnm : nm ∈ names) :
    ((readSpec cfg d names).filter (fun p => p.1 = nm)).map (·.2) = readFile cfg.codec ((d.get nm).getD []) := by
  induction names with
  | nil => cases hnm
  | cons n t ih =>
    simp only [List.nodup_cons] at hnd
    simp only [readSpec, List.flatMap_cons, List.filter_append, List.map_append]
    by_cases hn : n = nm
    · subst hn
      have h1 : (List.filter (fun p : Name × α => decide (p.1 = n))
          (List.map (fun e => (n, e)) (readFile cfg.codec ((d.get n).getD [])))) =
          List.map (fun e => (n, e)) (readFile cfg.codec ((d.get n).getD [])) := by
        apply List.filter_eq_self.mpr
        intro p hp
        obtain ⟨e, _, rfl⟩ := List.mem_map.mp hp
        simp
      have h2 : List.filter (fun p : Name × α => decide (p.1 = n))
          (t.flatMap (fun n => (readFile cfg.codec ((d.get n).getD [])).map (fun e => (n, e)))) = [] := by
        apply List.filter_eq_nil_iff.mpr
        intro p hp
        have := (mem_readSpec (cfg := cfg) (d := d) (names := t) (p := p)).mp hp
        intro heq
        simp only [decide_eq_true_eq] at heq
        exact hnd.1 (heq ▸ this.1)
      rw [h1, h2]; simp only [List.map_map, List.map_nil, List.append_nil]
      have : ((fun x : Name × α => x.snd) ∘ fun e => (n, e)) = id := rfl
      rw [this, List.map_id]
    · have h1 : (List.filter (fun p : Name × α => decide (p.1 = nm))
          (List.map (fun e => (n, e)) (readFile cfg.codec ((d.get n).getD [])))) = [] := by
        apply List.filter_eq_nil_iff.mpr
        intro p hp
        obtain ⟨e, _, rfl⟩ := List.mem_map.mp hp
        simp [hn]
      rw [h1]
      simp only [List.map_nil, List.nil_append]
      have hnm' : nm ∈ t := by
        rcases List.mem_cons.mp hnm with h | h
        · exact absurd h.symm hn
        · exact h
      exact ih hnd.2 hnm'


/-- `All()` on a live object over a state satisfying the invariant. -/
theorem Inv.all_eq {cfg : Cfg α β} {s : State α β} (h : Inv cfg s) {m : Mem} (hm : s.mem = some m) :
    (step cfg s .all).2 = .entries (readSpec cfg s.dir m.files) := by
  have := readAll_eq (cfg := cfg) (d := s.dir) m.files (fun n hn => (h.file_mem hm).mp hn)
  simp [step, hm, this]

theorem all_entries_inv {cfg : Cfg α β} {s : State α β} {r : List (Name × α)}
    (hr : (step cfg s .all).2 = .entries r) : ∃ m, s.mem = some m := by
  cases hm : s.mem with
  | none => simp [step, hm] at hr
  | some m => exact ⟨m, rfl⟩

theorem Inv.all_spec {cfg : Cfg α β} {s : State α β} (h : Inv cfg s) {r : List (Name × α)}
    (hr : (step cfg s .all).2 = .entries r) : ∃ m, s.mem = some m ∧ r = readSpec cfg s.dir m.files := by
  obtain ⟨m, hm⟩ := all_entries_inv hr
  rw [h.all_eq hm] at hr
  exact ⟨m, hm, (Res.entries.inj hr).symm⟩

theorem mem_ackedOf {s : State α β} {nm : Name} {e : α} : e ∈ ackedOf s nm ↔ (nm, e) ∈ s.acked := by
  simp only [ackedOf, List.mem_map, List.mem_filter, decide_eq_true_eq]
  constructor
  · rintro ⟨p, ⟨hp, rfl⟩, rfl⟩; exact hp
  · intro h; exact ⟨(nm, e), ⟨h, rfl⟩, rfl⟩

theorem Inv.acked_read {cfg : Cfg α β} (hc : cfg.codec.Ok) {s : State α β} (h : Inv cfg s)
    {r : List (Name × α)} (hr : (step cfg s .all).2 = .entries r) : ∀ p ∈ s.acked, p ∈ r := by
  obtain ⟨m, hm, rfl⟩ := h.all_spec hr
  intro p hp
  have hn := h.ackedNames p hp
  obtain ⟨bs, hg⟩ := Dir.get_some_of_mem_names hn
  apply mem_readSpec.mpr
  refine ⟨(h.file_mem hm).mpr hn, ?_⟩
  rw [hg]; simp only [Option.getD_some]
  have hp' : p.2 ∈ ackedOf s p.1 := mem_ackedOf.mpr hp
  rcases h.read_file hc (Dir.mem_of_get hg) with h1 | ⟨e, _, h1⟩
  · rw [h1]; exact hp'
  · rw [h1]; exact List.mem_append_left _ hp'

theorem Inv.read_acked_or_inflight {cfg : Cfg α β} (hc : cfg.codec.Ok) {s : State α β} (h : Inv cfg s)
    {r : List (Name × α)} (hr : (step cfg s .all).2 = .entries r) :
    ∀ p ∈ r, p ∈ s.acked ∨ p ∈ s.inflight := by
  obtain ⟨m, hm, rfl⟩ := h.all_spec hr
  intro p hp
  obtain ⟨hn, he⟩ := mem_readSpec.mp hp
  have hn' := (h.file_mem hm).mp hn
  obtain ⟨bs, hg⟩ := Dir.get_some_of_mem_names hn'
  rw [hg] at he; simp only [Option.getD_some] at he
  rcases h.read_file hc (Dir.mem_of_get hg) with h1 | ⟨e, hin, h1⟩
  · rw [h1] at he; exact Or.inl (mem_ackedOf.mp he)
  · rw [h1] at he
    rcases List.mem_append.mp he with he | he
    · exact Or.inl (mem_ackedOf.mp he)
    · simp only [List.mem_singleton] at he
      right; rw [show p = (p.1, p.2) from rfl, he]; exact hin

theorem Inv.read_order {cfg : Cfg α β} (hc : cfg.codec.Ok) {s : State α β} (h : Inv cfg s)
    {r : List (Name × α)} (hr : (step cfg s .all).2 = .entries r) (nm : Name) (hnm : nm ∈ s.dir.names) :
    ackedOf s nm <+: (r.filter (fun p => p.1 = nm)).map (·.2) := by
  obtain ⟨m, hm, rfl⟩ := h.all_spec hr
  rw [readSpec_filter (h.files_nodup hm) ((h.file_mem hm).mpr hnm)]
  obtain ⟨bs, hg⟩ := Dir.get_some_of_mem_names hnm
  rw [hg]; simp only [Option.getD_some]
  rcases h.read_file hc (Dir.mem_of_get hg) with h1 | ⟨e, _, h1⟩
  · rw [h1]; exact List.prefix_refl _
  · rw [h1]; exact List.prefix_append _ _


theorem append_ok_acked {cfg : Cfg α β} {s : State α β} {e : α} {nm : Name}
    (h : (step cfg s (.append e nm)).2 = .ok) : ∃ f, (f, e) ∈ (step cfg s (.append e nm)).1.acked := by
  cases hm : s.mem with
  | none => simp [step, hm] at h
  | some m =>
    have hw := writeRec_cases cfg s.dir m nm (cfg.codec.enc e)
    generalize hr : writeRec cfg s.dir m nm (cfg.codec.enc e) = r at hw
    cases hw with
    | same st ha => exact ⟨st.name, by simp [step, hm, hr]⟩
    | fresh hn => exact ⟨nm, by simp [step, hm, hr]⟩
    | exists_ hn => simp [step, hm, hr] at h

/-- Where new ghost entries come from. -/
theorem acked_source {cfg : Cfg α β} {s : State α β} (op : Op α) {p : Name × α}
    (hp : p ∈ (step cfg s op).1.acked) : p ∈ s.acked ∨ ∃ nm, op = .append p.2 nm := by
  cases op with
  | «open» => exact Or.inl hp
  | crash => exact Or.inl hp
  | rotate => cases hm : s.mem <;> simp [step, hm] at hp <;> exact Or.inl hp
  | close => cases hm : s.mem <;> simp [step, hm] at hp <;> exact Or.inl hp
  | all =>
    cases hm : s.mem with
    | none => simp [step, hm] at hp; exact Or.inl hp
    | some m =>
      simp only [step, hm] at hp
      split at hp <;> exact Or.inl hp
  | purge k =>
    cases hm : s.mem with
    | none => simp [step, hm] at hp; exact Or.inl hp
    | some m =>
      simp only [step, hm] at hp
      exact Or.inl (List.mem_filter.mp hp).1
  | append e nm =>
    cases hm : s.mem with
    | none => simp [step, hm] at hp; exact Or.inl hp
    | some m =>
      have hw := writeRec_cases cfg s.dir m nm (cfg.codec.enc e)
      generalize hr : writeRec cfg s.dir m nm (cfg.codec.enc e) = r at hw
      cases hw with
      | same st ha =>
        simp only [step, hm, hr, List.mem_append, List.mem_singleton] at hp
        rcases hp with hp | rfl
        · exact Or.inl hp
        · exact Or.inr ⟨nm, rfl⟩
      | fresh hn =>
        simp only [step, hm, hr, List.mem_append, List.mem_singleton] at hp
        rcases hp with hp | rfl
        · exact Or.inl hp
        · exact Or.inr ⟨nm, rfl⟩
      | exists_ hn => simp only [step, hm, hr] at hp; exact Or.inl hp
  | crashAppend e nm k =>
    cases hm : s.mem with
    | none => simp [step, hm] at hp; exact Or.inl hp
    | some m =>
      have hw := writeRec_cases cfg s.dir m nm ((cfg.codec.enc e).take k)
      generalize hr : writeRec cfg s.dir m nm ((cfg.codec.enc e).take k) = r at hw
      cases hw with
      | same st ha => simp only [step, hm, hr] at hp; exact Or.inl hp
      | fresh hn => simp only [step, hm, hr] at hp; exact Or.inl hp
      | exists_ hn => simp only [step, hm, hr] at hp; exact Or.inl hp

theorem inflight_source {cfg : Cfg α β} {s : State α β} (op : Op α) {p : Name × α}
    (hp : p ∈ (step cfg s op).1.inflight) : p ∈ s.inflight ∨ ∃ nm n, op = .crashAppend p.2 nm n := by
  cases op with
  | «open» => exact Or.inl hp
  | crash => exact Or.inl hp
  | rotate => cases hm : s.mem <;> simp [step, hm] at hp <;> exact Or.inl hp
  | close => cases hm : s.mem <;> simp [step, hm] at hp <;> exact Or.inl hp
  | all =>
    cases hm : s.mem with
    | none => simp [step, hm] at hp; exact Or.inl hp
    | some m =>
      simp only [step, hm] at hp
      split at hp <;> exact Or.inl hp
  | purge k =>
    cases hm : s.mem with
    | none => simp [step, hm] at hp; exact Or.inl hp
    | some m =>
      simp only [step, hm] at hp
      exact Or.inl (List.mem_filter.mp hp).1
  | append e nm =>
    cases hm : s.mem with
    | none => simp [step, hm] at hp; exact Or.inl hp
    | some m =>
      have hw := writeRec_cases cfg s.dir m nm (cfg.codec.enc e)
      generalize hr : writeRec cfg s.dir m nm (cfg.codec.enc e) = r at hw
      cases hw with
      | same st ha => simp only [step, hm, hr] at hp; exact Or.inl hp
      | fresh hn => simp only [step, hm, hr] at hp; exact Or.inl hp
      | exists_ hn => simp only [step, hm, hr] at hp; exact Or.inl hp
  | crashAppend e nm k =>
    cases hm : s.mem with
    | none => simp [step, hm] at hp; exact Or.inl hp
    | some m =>
      have hw := writeRec_cases cfg s.dir m nm ((cfg.codec.enc e).take k)
      generalize hr : writeRec cfg s.dir m nm ((cfg.codec.enc e).take k) = r at hw
      cases hw with
      | same st ha =>
        simp only [step, hm, hr, List.mem_append, List.mem_singleton] at hp
        rcases hp with hp | rfl
        · exact Or.inl hp
        · exact Or.inr ⟨nm, k, rfl⟩
      | fresh hn =>
        simp only [step, hm, hr, List.mem_append, List.mem_singleton] at hp
        rcases hp with hp | rfl
        · exact Or.inl hp
        · exact Or.inr ⟨nm, k, rfl⟩
      | exists_ hn => simp only [step, hm, hr] at hp; exact Or.inl hp


theorem step_purge_eq {cfg : Cfg α β} {s : State α β} {m : Mem} (hm : s.mem = some m) (k : Nat) :
    (step cfg s (.purge k)).1 =
      { dir := s.dir.filter (fun f => !((purgeDel m k).contains f.1))
        mem := some { m with logFiles := m.logFiles.filter (fun st => !(decide (st.maxEpoch < k))) }
        acked := s.acked.filter (fun p => !((purgeDel m k).contains p.1))
        inflight := s.inflight.filter (fun p => !((purgeDel m k).contains p.1)) } := by
  simp only [step, hm, purgeDel]

/-- Every decodable record of a file deleted by `Purge k` is below `k`. -/
theorem Inv.purge_deleted_lt {cfg : Cfg α β} {s : State α β} (h : Inv cfg s) {m : Mem} (hm : s.mem = some m)
    {k : Nat} {nm : Name} (hd : nm ∈ purgeDel m k) :
    ∀ e ∈ readFile cfg.codec ((s.dir.get nm).getD []), cfg.epoch e < k := by
  simp only [purgeDel, List.mem_map, List.mem_filter, decide_eq_true_eq] at hd
  obtain ⟨st, ⟨hst, hlt⟩, rfl⟩ := hd
  intro e he
  have := h.stats m hm st (Or.inl hst)
  exact Nat.lt_of_le_of_lt (this ▸ le_maxEpochOf cfg _ e he) hlt

theorem Inv.acked_decodable {cfg : Cfg α β} (hc : cfg.codec.Ok) {s : State α β} (h : Inv cfg s)
    {p : Name × α} (hp : p ∈ s.acked) : p.2 ∈ readFile cfg.codec ((s.dir.get p.1).getD []) := by
  obtain ⟨bs, hg⟩ := Dir.get_some_of_mem_names (h.ackedNames p hp)
  rw [hg]; simp only [Option.getD_some]
  have hp' : p.2 ∈ ackedOf s p.1 := mem_ackedOf.mpr hp
  rcases h.read_file hc (Dir.mem_of_get hg) with h1 | ⟨e, _, h1⟩
  · rw [h1]; exact hp'
  · rw [h1]; exact List.mem_append_left _ hp'

/-- An acknowledged entry stays acknowledged (hence readable) across every operation except a purge
above its epoch. -/
theorem Inv.acked_persists {cfg : Cfg α β} (hc : cfg.codec.Ok) {s : State α β} (h : Inv cfg s) (op : Op α)
    {p : Name × α} (hp : p ∈ s.acked) :
    p ∈ (step cfg s op).1.acked ∨ ∃ k, op = .purge k ∧ cfg.epoch p.2 < k := by
  cases op with
  | «open» => exact Or.inl hp
  | crash => exact Or.inl hp
  | rotate => cases hm : s.mem <;> simp [step, hm] <;> exact hp
  | close => cases hm : s.mem <;> simp [step, hm] <;> exact hp
  | all =>
    cases hm : s.mem with
    | none => simp [step, hm]; exact hp
    | some m =>
      simp only [step, hm]
      split <;> exact Or.inl hp
  | purge k =>
    cases hm : s.mem with
    | none => left; simp [step, hm]; exact hp
    | some m =>
      rw [step_purge_eq hm]
      by_cases hd : p.1 ∈ purgeDel m k
      · right
        exact ⟨k, rfl, h.purge_deleted_lt hm hd p.2 (h.acked_decodable hc hp)⟩
      · left
        exact List.mem_filter.mpr ⟨hp, by simpa using hd⟩
  | append e nm =>
    cases hm : s.mem with
    | none => left; simp [step, hm]; exact hp
    | some m =>
      have hw := writeRec_cases cfg s.dir m nm (cfg.codec.enc e)
      generalize hr : writeRec cfg s.dir m nm (cfg.codec.enc e) = r at hw
      cases hw with
      | same st ha => left; simp only [step, hm, hr]; exact List.mem_append_left _ hp
      | fresh hn => left; simp only [step, hm, hr]; exact List.mem_append_left _ hp
      | exists_ hn => left; simp only [step, hm, hr]; exact hp
  | crashAppend e nm k =>
    cases hm : s.mem with
    | none => left; simp [step, hm]; exact hp
    | some m =>
      have hw := writeRec_cases cfg s.dir m nm ((cfg.codec.enc e).take k)
      generalize hr : writeRec cfg s.dir m nm ((cfg.codec.enc e).take k) = r at hw
      cases hw with
      | same st ha => left; simp only [step, hm, hr]; exact hp
      | fresh hn => left; simp only [step, hm, hr]; exact hp
      | exists_ hn => left; simp only [step, hm, hr]; exact hp

/-- `Purge k` deletes every closed file whose decodable records are all below `k` (`k > 0`). -/
theorem Inv.purge_complete {cfg : Cfg α β} {s : State α β} (h : Inv cfg s) {m : Mem} (hm : s.mem = some m)
    {k : Nat} (hk : 0 < k) {st : Stat} (hst : st ∈ m.logFiles)
    (hall : ∀ e ∈ readFile cfg.codec ((s.dir.get st.name).getD []), cfg.epoch e < k) :
    st.name ∉ (step cfg s (.purge k)).1.dir.names := by
  rw [step_purge_eq hm]
  show st.name ∉ Dir.names (s.dir.filter (fun f => (fun n => !((purgeDel m k).contains n)) f.1))
  rw [Dir.names_filter s.dir (fun n => !((purgeDel m k).contains n))]
  intro hin
  have hq := (List.mem_filter.mp hin).2
  have hlt : st.maxEpoch < k := by
    rw [h.stats m hm st (Or.inl hst)]
    exact (maxEpochOf_lt_iff cfg _ k hk).mpr hall
  have : st.name ∈ purgeDel m k := by
    simp only [purgeDel, List.mem_map, List.mem_filter, decide_eq_true_eq]
    exact ⟨st, ⟨hst, hlt⟩, rfl⟩
  simp [this] at hq

/-- `Purge` never deletes the active file. -/
theorem Inv.purge_keeps_active {cfg : Cfg α β} {s : State α β} (h : Inv cfg s) {m : Mem} (hm : s.mem = some m)
    (k : Nat) {st : Stat} (ha : m.active = some st) :
    st.name ∈ (step cfg s (.purge k)).1.dir.names := by
  rw [step_purge_eq hm]
  show st.name ∈ Dir.names (s.dir.filter (fun f => (fun n => !((purgeDel m k).contains n)) f.1))
  rw [Dir.names_filter s.dir (fun n => !((purgeDel m k).contains n))]
  exact List.mem_filter.mpr ⟨h.active_name_mem hm ha, by simpa using h.active_not_del hm ha⟩


/-- A crash followed by a restart does not change what `All()` returns, up to the order of the files. -/
theorem Inv.restart_preserves_content {cfg : Cfg α β} (hc : cfg.codec.Ok) {s : State α β} (h : Inv cfg s)
    {r : List (Name × α)} (hr : (step cfg s .all).2 = .entries r) :
    ∃ r', (step cfg (step cfg (step cfg s .crash).1 .open).1 .all).2 = .entries r' ∧ r'.Perm r := by
  obtain ⟨m, hm, rfl⟩ := h.all_spec hr
  have h2 := inv_step hc (inv_step hc h .crash) .open
  have hm2 : (step cfg (step cfg s .crash).1 .open).1.mem = some (hydrate cfg s.dir) := rfl
  refine ⟨_, h2.all_eq hm2, ?_⟩
  have hp : (hydrate cfg s.dir).files.Perm m.files := (hydrate_files cfg s.dir).trans (h.files m hm).symm
  exact hp.flatMap_right _


/-! ### Ghost lists along a whole history -/

theorem run_cons (cfg : Cfg α β) (s : State α β) (op : Op α) (ops : List (Op α)) :
    run cfg s (op :: ops) = run cfg (step cfg s op).1 ops := rfl

theorem acked_from_history (cfg : Cfg α β) (ops : List (Op α)) (s : State α β) (p : Name × α)
    (hp : p ∈ (run cfg s ops).acked) : p ∈ s.acked ∨ ∃ nm, Op.append p.2 nm ∈ ops := by
  induction ops generalizing s with
  | nil => exact Or.inl hp
  | cons op ops ih =>
    rcases ih _ hp with h | ⟨nm, h⟩
    · rcases acked_source op h with h' | ⟨nm, rfl⟩
      · exact Or.inl h'
      · exact Or.inr ⟨nm, by simp⟩
    · exact Or.inr ⟨nm, List.mem_cons_of_mem _ h⟩

theorem inflight_from_history (cfg : Cfg α β) (ops : List (Op α)) (s : State α β) (p : Name × α)
    (hp : p ∈ (run cfg s ops).inflight) : p ∈ s.inflight ∨ ∃ nm n, Op.crashAppend p.2 nm n ∈ ops := by
  induction ops generalizing s with
  | nil => exact Or.inl hp
  | cons op ops ih =>
    rcases ih _ hp with h | ⟨nm, n, h⟩
    · rcases inflight_source op h with h' | ⟨nm, n, rfl⟩
      · exact Or.inl h'
      · exact Or.inr ⟨nm, n, by simp⟩
    · exact Or.inr ⟨nm, n, List.mem_cons_of_mem _ h⟩

theorem persists_run (cfg : Cfg α β) (hc : cfg.codec.Ok) (ops : List (Op α)) (s : State α β) (hs : Inv cfg s)
    (p : Name × α) (hp : p ∈ s.acked) :
    p ∈ (run cfg s ops).acked ∨ ∃ k, Op.purge k ∈ ops ∧ cfg.epoch p.2 < k := by
  induction ops generalizing s with
  | nil => exact Or.inl hp
  | cons op ops ih =>
    rcases hs.acked_persists hc op hp with h | ⟨k, rfl, hk⟩
    · rcases ih _ (inv_step hc hs op) h with h' | ⟨k, hk, hlt⟩
      · exact Or.inl h'
      · exact Or.inr ⟨k, List.mem_cons_of_mem _ hk, hlt⟩
    · exact Or.inr ⟨k, by simp, hk⟩


end F3.Wal
