import F3.Gen.SkelSim
/-!
# Expected statement skeletons (SkelSim)

Hand-pinned expectations for the REGENERATED skeletons of `F3.Gen.SkelSim` (tools/go2lean/skel.go): the pre-order
list of the statements of a Go function as `<depth>:<kind>`. The expression-level tie theorems pin what single
conditions say; these pin that nothing was added around them (an extra early return, a cap, a dropped branch). A
structural change of the function — harmful or not — breaks the `rfl` below and with it the obligation of every
property importing this file; the check then searches for a failing input as for any broken obligation.
-/
namespace F3.SkelTie.SkelSim
open F3.Gen.SkelSim

/-- the structure the model of `SimValidateDecision` was written against -/
def skelSimValidateDecisionExpected : List String :=
  ["0:switch", "1:case1", "2:return1", "1:case1", "2:return1", "1:case1", "2:return1", "1:case1", "2:return1",
   "1:case1", "2:return1", "0:decl", "0:assign:=", "0:assign:=", "0:if", "1:return1", "0:if", "1:return1",
   "0:assign:=", "0:if", "1:return1", "0:return1"]

theorem skelSimValidateDecision_expected : skelSimValidateDecision = skelSimValidateDecisionExpected := rfl

/-- the structure the model of `SimHasReachedConsensus` was written against -/
def skelSimHasReachedConsensusExpected : List String :=
  ["0:assign:=", "0:range", "1:assign=", "0:decl", "0:range", "1:if", "2:branch:continue", "1:assign:=",
   "1:if", "2:return2", "1:if", "2:assign=", "1:if", "2:return2", "0:return2"]

theorem skelSimHasReachedConsensus_expected : skelSimHasReachedConsensus = skelSimHasReachedConsensusExpected := rfl

/-- the structure the model of `CertchainValidate` was written against -/
def skelCertchainValidateExpected : List String :=
  ["0:range", "1:assign:=", "1:assign:=", "1:assign:=", "1:if", "2:return1", "1:if", "2:return1", "1:assign:=",
   "1:if", "2:return1", "1:assign:=", "1:if", "2:return1", "1:if", "2:return1", "1:assign:=", "1:if",
   "2:return1", "1:assign:=", "1:if", "2:return1", "1:if", "2:return1", "1:assign=", "0:return1"]

theorem skelCertchainValidate_expected : skelCertchainValidate = skelCertchainValidateExpected := rfl

/-- the structure the model of `CertchainGetCommittee` was written against -/
def skelCertchainGetCommitteeExpected : List String :=
  ["0:decl", "0:if", "1:assign=", "0:else", "1:assign:=", "1:if", "2:return2", "1:assign:=", "1:assign=",
   "0:assign:=", "0:if", "1:return2", "0:return1"]

theorem skelCertchainGetCommittee_expected : skelCertchainGetCommittee = skelCertchainGetCommitteeExpected := rfl

end F3.SkelTie.SkelSim
