import F3.Proofs.MultiParticipant
/-!
# Per-instance projection of a multi-instance participant run

`opsOf cfg c0 k ops` is the sub-sequence of the calls of a run `mprun (minit cfg c0) ops` that concern instance
`k`: the deliveries `recv _ ⟨k, m⟩` made while `k` had not finished (`cur ≤ k`: queued while `k` is a future
instance or the current one not yet begun, handed to the running instance afterwards) and the alarms received while
`k` was current — as calls of the single-instance participant API (`POp`). `begunWith cfg c0 k ops` is what the host
supplied to the alarm that began instance `k` (power table, proposal, drain order), if `k` was begun.

`instance_projection`: if no `StartInstanceAt` of the run goes backwards or restarts the running instance, then for
every instance `k` begun in the run the effects tagged `k` are those of
`prun order_k (pinit cfg tbl_k input_k) (opsOf cfg c0 k ops)`, a decision is recorded for `k` iff that single-instance
run ends terminated, with that very decision, and while `k` is current the running instance *is* the state of that
single-instance run. So every theorem about `prun` applies to each instance of a multi-instance run.

The proof is a simulation: `Sim k …` relates the state of the multi-instance participant to the prefix of the
single-instance run of `k` executed so far, through the four stages of the life of an instance (waiting — only
its queue exists; running; skipped by `StartInstanceAt`; finished).
-/
namespace F3.Instance

/-! ### single-instance runs: pieces -/

theorem prun_append (order : List Pid) (p : PState) (a b : List POp) :
    prun order p (a ++ b) =
      ((prun order (prun order p a).1 b).1, (prun order p a).2 ++ (prun order (prun order p a).1 b).2) := by
  induction a generalizing p with
  | nil => simp
  | cons op a ih => simp only [List.cons_append, prun_cons, ih, List.append_assoc]

theorem prun_snoc (order : List Pid) (p : PState) (a : List POp) (op : POp) :
    prun order p (a ++ [op]) =
      ((pstepWith order (prun order p a).1 op).1, (prun order p a).2 ++ (pstepWith order (prun order p a).1 op).2) := by
  rw [prun_append, prun_cons]; simp

def POp.isRecv : POp → Bool
  | .recv _ _ => true
  | _ => false

/-- `messageQueue.Add` of a delivery; alarms do not touch the queue -/
def qstep (look : Nat) (q : List Msg) : POp → List Msg
  | .recv _ m => queueAddL look q m
  | .alarm _ => q

/-- the queue built by a sequence of deliveries -/
def preQueue (look : Nat) (pre : List POp) : List Msg := pre.foldl (qstep look) []

theorem preQueue_snoc (look : Nat) (pre : List POp) (op : POp) :
    preQueue look (pre ++ [op]) = qstep look (preQueue look pre) op := by
  simp [preQueue, List.foldl_append]

theorem queueAdd_eq (p : PState) (m : Msg) :
    p.queueAdd m = { p with queue := queueAddL p.inst.cfg.maxLookahead p.queue m } := by
  unfold PState.queueAdd queueAddL
  split
  · rfl
  · split <;> rfl

/-- before its instance has begun the participant only queues: deliveries are `messageQueue.Add`, nothing else
changes and there are no effects -/
theorem prun_unstarted (order : List Pid) (p : PState) (pre : List POp) (hs : p.started = false)
    (hr : ∀ op ∈ pre, op.isRecv = true) :
    prun order p pre = ({ p with queue := pre.foldl (qstep p.inst.cfg.maxLookahead) p.queue }, []) := by
  induction pre generalizing p with
  | nil => rfl
  | cons op pre ih =>
    cases op with
    | alarm now => exact absurd (hr _ List.mem_cons_self) (by simp [POp.isRecv])
    | recv now m =>
      rw [prun_cons]
      have h1 : pstepWith order p (.recv now m) = (p.queueAdd m, []) := by simp [pstepWith, hs]
      rw [h1, queueAdd_eq]
      have := ih { p with queue := queueAddL p.inst.cfg.maxLookahead p.queue m } hs
        (fun o ho => hr o (List.mem_cons_of_mem _ ho))
      dsimp only at this ⊢
      rw [this]
      rfl

/-- **queued at the level of the multi-instance participant = queued inside the unstarted single-instance
participant**, whatever power table and proposal the host will supply at the beginning -/
theorem prun_waiting (order : List Pid) (cfg : Cfg) (tbl : Table) (input : Chain) (pre : List POp)
    (hr : ∀ op ∈ pre, op.isRecv = true) :
    prun order (pinit cfg tbl input) pre =
      ({ inst := init cfg tbl input, started := false, queue := preQueue cfg.maxLookahead pre }, []) :=
  prun_unstarted order (pinit cfg tbl input) pre rfl hr

/-- once the instance has begun the drain order is irrelevant -/
theorem pstepWith_order_irrel (o1 o2 : List Pid) (p : PState) (op : POp) (hs : p.started = true) :
    pstepWith o1 p op = pstepWith o2 p op := by
  cases op <;> simp [pstepWith, hs]

theorem pstepWith_alarm_started (order : List Pid) (p : PState) (now : Int) :
    (pstepWith order p (.alarm now)).1.started = true := by
  unfold pstepWith
  dsimp only
  split
  · split <;> rfl
  · rename_i h; simpa using h

theorem pstepWith_started (order : List Pid) (p : PState) (op : POp) (hs : p.started = true) :
    (pstepWith order p op).1.started = true := by
  cases op with
  | alarm now => exact pstepWith_alarm_started order p now
  | recv now m => simp [pstepWith, hs]

/-! ### the calls of a run that concern instance `k` -/

/-- the call, if it concerns instance `k`: a delivery for `k` while `k` has not finished, an alarm while `k` is
current -/
def sel (k : Nat) (s : MState) : MPOp → List POp
  | .recv now m => if m.inst == k && decide (s.cur ≤ k) then [.recv now m.msg] else []
  | .alarm now _ _ _ => if s.cur == k then [.alarm now] else []
  | .startAt _ => []

/-- what the host supplied, if the call is the alarm that begins instance `k` -/
def begSel (k : Nat) (s : MState) : MPOp → Option (Table × Chain × List Pid)
  | .alarm _ tbl input order => if s.cur == k && s.active.isNone then some (tbl, input, order) else none
  | _ => none

def opsOfFrom (k : Nat) : MState → List MPOp → List POp
  | _, [] => []
  | s, op :: ops => sel k s op ++ opsOfFrom k (mpstep s op).1 ops

def begunFrom (k : Nat) : MState → List MPOp → Option (Table × Chain × List Pid)
  | _, [] => none
  | s, op :: ops => (begSel k s op).or (begunFrom k (mpstep s op).1 ops)

/-- **the calls that concern instance `k`** in the run `mprun (minit cfg c0) ops`, in order, as calls of the
single-instance participant API -/
def opsOf (cfg : Cfg) (c0 k : Nat) (ops : List MPOp) : List POp := opsOfFrom k (minit cfg c0) ops

/-- the power table, proposal and drain order with which instance `k` was begun in the run, if it was -/
def begunWith (cfg : Cfg) (c0 k : Nat) (ops : List MPOp) : Option (Table × Chain × List Pid) :=
  begunFrom k (minit cfg c0) ops

/-- the effects tagged with instance `k` -/
def effsOf (k : Nat) (l : List (Nat × Eff)) : List Eff := (l.filter (·.1 == k)).map (·.2)

theorem effsOf_append (k : Nat) (a b : List (Nat × Eff)) : effsOf k (a ++ b) = effsOf k a ++ effsOf k b := by
  simp [effsOf]

theorem effsOf_tag (k c : Nat) (l : List Eff) : effsOf k (l.map (fun e => (c, e))) = if c = k then l else [] := by
  unfold effsOf
  by_cases h : c = k
  · subst h
    rw [if_pos rfl, List.filter_eq_self.2 (by simp), List.map_map]
    exact List.map_id' _
  · rw [if_neg h, List.filter_eq_nil_iff.2 (by simpa using fun _ _ => h)]
    rfl

theorem mem_effsOf (k : Nat) (l : List (Nat × Eff)) (e : Eff) : e ∈ effsOf k l ↔ (k, e) ∈ l := by
  unfold effsOf
  simp only [List.mem_map, List.mem_filter, beq_iff_eq]
  constructor
  · rintro ⟨⟨a, b⟩, ⟨hm, rfl⟩, rfl⟩; exact hm
  · intro h; exact ⟨(k, e), ⟨h, rfl⟩, rfl⟩

/-! ### one call, by cases -/

/-- `newInstance` for the current instance, with the queue of that instance, before `Start` -/
def MState.fresh (s : MState) (tbl : Table) (input : Chain) : PState :=
  { inst := init s.cfg tbl input, started := false, queue := queueOf s.queues s.cur }

theorem recv_delivered_eq (s : MState) (now : Int) (m : IMsg) (p : PState) (ha : s.active = some p)
    (hm : m.inst = s.cur) :
    mpstep s (.recv now m) =
      (({ s with active := some (pstepWith [] p (.recv now m.msg)).1 }).handleDecision,
       (pstepWith [] p (.recv now m.msg)).2) := by
  simp [mpstep, hm, ha]

theorem alarm_begin_eq (s : MState) (now : Int) (tbl : Table) (input : Chain) (order : List Pid)
    (ha : s.active = none) :
    mpstep s (.alarm now tbl input order) =
      (({ s with active := some (pstepWith order (s.fresh tbl input) (.alarm now)).1,
                 queues := s.queues.filter (fun e => e.1 != s.cur) }).handleDecision,
       (pstepWith order (s.fresh tbl input) (.alarm now)).2) := by
  simp [mpstep, ha, MState.fresh]

theorem alarm_active_eq (s : MState) (now : Int) (tbl : Table) (input : Chain) (order : List Pid) (p : PState)
    (ha : s.active = some p) :
    mpstep s (.alarm now tbl input order) =
      (({ s with active := some (pstepWith order p (.alarm now)).1 }).handleDecision,
       (pstepWith order p (.alarm now)).2) := by
  simp [mpstep, ha]

/-! ### the simulation -/

/-- The state `s` of the multi-instance participant as seen from instance `k`, after the calls `pre` that concern
`k`; `beg` is what the host supplied when `k` began (if it has), `effs` are the effects tagged `k` so far. -/
inductive Sim (k : Nat) (cfg : Cfg) (s : MState) (pre : List POp) (beg : Option (Table × Chain × List Pid))
    (effs : List Eff) : Prop
  /-- `k` is a future instance or the current one not yet begun: only its queue exists, and it is the queue the
  unstarted single-instance participant would have built -/
  | waiting (hbeg : beg = none) (heffs : effs = []) (hcur : s.cur < k ∨ (s.cur = k ∧ s.active = none))
      (hrecv : ∀ op ∈ pre, op.isRecv = true) (hq : queueOf s.queues k = preQueue cfg.maxLookahead pre)
  /-- `k` is running: the running instance is the state of the single-instance run -/
  | running (tbl : Table) (input : Chain) (order : List Pid) (p : PState) (hbeg : beg = some (tbl, input, order))
      (hcur : s.cur = k) (hact : s.active = some p) (hst : p.started = true) (hterm : p.inst.termination = none)
      (hrun : prun order (pinit cfg tbl input) pre = (p, effs))
  /-- `k` was skipped by `StartInstanceAt` before it began -/
  | skipped (hbeg : beg = none) (heffs : effs = []) (hcur : k < s.cur) (hdec : ∀ d, (k, d) ∉ s.decisions)
  /-- `k` is over (decided, or abandoned by `StartInstanceAt`) -/
  | finished (tbl : Table) (input : Chain) (order : List Pid) (hbeg : beg = some (tbl, input, order))
      (hcur : k < s.cur) (heffs : (prun order (pinit cfg tbl input) pre).2 = effs)
      (hdec : ∀ d, (k, d) ∈ s.decisions ↔ (prun order (pinit cfg tbl input) pre).1.inst.termination = some d)

theorem sim_handle_waiting (k : Nat) (cfg : Cfg) (s1 : MState) (pre : List POp) (hcur : s1.cur < k)
    (hrecv : ∀ op ∈ pre, op.isRecv = true) (hq : queueOf s1.queues k = preQueue cfg.maxLookahead pre) :
    Sim k cfg s1.handleDecision pre none [] := by
  rcases handleDecision_cases s1 with ⟨he, _⟩ | ⟨p, d, _, _, he⟩
  · rw [he]; exact .waiting rfl rfl (Or.inl hcur) hrecv hq
  · rw [he]
    refine .waiting rfl rfl ?_ hrecv ?_
    · show s1.cur + 1 < k ∨ (s1.cur + 1 = k ∧ _)
      by_cases h : s1.cur + 1 < k
      · exact Or.inl h
      · exact Or.inr ⟨by omega, rfl⟩
    · show queueOf (s1.queues.filter (fun e => decide (s1.cur + 1 ≤ e.1))) k = _
      rw [queueOf_filter s1.queues k (fun i => decide (s1.cur + 1 ≤ i)) (decide_eq_true (by omega : s1.cur + 1 ≤ k))]
      exact hq

theorem sim_handle_running (k : Nat) (cfg : Cfg) (s1 : MState) (pre : List POp) (tbl : Table) (input : Chain)
    (order : List Pid) (p : PState) (effs : List Eff) (hcur : s1.cur = k) (hact : s1.active = some p)
    (hst : p.started = true) (hrun : prun order (pinit cfg tbl input) pre = (p, effs))
    (hdec : ∀ e ∈ s1.decisions, e.1 < k) :
    Sim k cfg s1.handleDecision pre (some (tbl, input, order)) effs := by
  cases ht : p.inst.termination with
  | none =>
    rw [handleDecision_running s1 p hact ht]
    exact .running tbl input order p rfl hcur hact hst ht hrun
  | some d =>
    rw [handleDecision_decided s1 p d hact ht]
    refine .finished tbl input order rfl (by show k < s1.cur + 1; omega) (by rw [hrun]) ?_
    intro d'
    rw [hrun]
    show (k, d') ∈ s1.decisions ++ [(s1.cur, d)] ↔ p.inst.termination = some d'
    rw [ht, List.mem_append]
    constructor
    · rintro (h | h)
      · exact absurd (hdec _ h) (Nat.lt_irrefl _)
      · simp only [List.mem_singleton] at h
        cases h; rfl
    · intro h
      cases h
      exact Or.inr (by simp [hcur])

/-- after its time nothing concerns instance `k` any more -/
theorem frozen_step (k : Nat) (s : MState) (op : MPOp) (hfw : fwdOp s op = true) (hk : k < s.cur) :
    k < (mpstep s op).1.cur ∧ (∀ d, (k, d) ∈ (mpstep s op).1.decisions ↔ (k, d) ∈ s.decisions) ∧
    sel k s op = [] ∧ begSel k s op = none := by
  have hne : (s.cur == k) = false := by simpa using (by omega : s.cur ≠ k)
  have hsel : sel k s op = [] ∧ begSel k s op = none := by
    cases op with
    | recv now m => exact ⟨by simp [sel, Nat.not_le.2 hk], rfl⟩
    | alarm now tbl input order => exact ⟨by simp [sel, hne], by simp [begSel, hne]⟩
    | startAt j => exact ⟨rfl, rfl⟩
  cases hop : op.isStartAt with
  | true =>
    cases op with
    | startAt j =>
      simp only [fwdOp, Bool.or_eq_true, decide_eq_true_eq, Bool.and_eq_true, beq_iff_eq] at hfw
      refine ⟨?_, fun d => Iff.rfl, hsel⟩
      show k < j
      omega
    | recv _ _ => cases hop
    | alarm _ _ _ _ => cases hop
  | false =>
    rcases mpstep_counter s op hop with ⟨hc, hd⟩ | ⟨d, hc, hd, _⟩
    · exact ⟨by omega, fun d => by rw [hd], hsel⟩
    · refine ⟨by omega, fun d' => ?_, hsel⟩
      rw [hd, List.mem_append]
      constructor
      · rintro (h | h)
        · exact h
        · simp only [List.mem_singleton] at h
          cases h; omega
      · exact Or.inl

/-- **One call preserves the simulation.** -/
theorem sim_step (k : Nat) (cfg : Cfg) (s : MState) (pre : List POp) (beg : Option (Table × Chain × List Pid))
    (effs : List Eff) (op : MPOp) (hcfg : s.cfg = cfg) (hds : DecSorted s) (hfw : fwdOp s op = true)
    (h : Sim k cfg s pre beg effs) :
    Sim k cfg (mpstep s op).1 (pre ++ sel k s op) (beg.or (begSel k s op))
      (effs ++ if s.cur = k then (mpstep s op).2 else []) := by
  cases h with
  | skipped hbeg heffs hcur hdec =>
    obtain ⟨h1, h2, h3, h4⟩ := frozen_step k s op hfw hcur
    rw [h3, h4, if_neg (by omega), List.append_nil, List.append_nil, Option.or_none]
    exact .skipped hbeg heffs h1 (fun d hd => hdec d ((h2 d).1 hd))
  | finished tbl input order hbeg hcur heffs hdec =>
    obtain ⟨h1, h2, h3, h4⟩ := frozen_step k s op hfw hcur
    rw [h3, h4, if_neg (by omega), List.append_nil, List.append_nil, Option.or_none]
    exact .finished tbl input order hbeg h1 heffs (fun d => (h2 d).trans (hdec d))
  | waiting hbeg heffs hcur hrecv hq =>
    subst hbeg heffs
    rw [Option.none_or, List.nil_append]
    have hle : s.cur ≤ k := by rcases hcur with h | h <;> omega
    cases op with
    | recv now m =>
      by_cases hlt : m.inst < s.cur
      · -- dropped
        rw [recv_finished s now m hlt]
        have : (m.inst == k) = false := by simpa using (by omega : m.inst ≠ k)
        simp only [sel, begSel, this, Bool.false_and, Bool.false_eq_true, if_false, List.append_nil, ite_self]
        exact .waiting rfl rfl hcur hrecv hq
      · by_cases hqa : m.queuedAt s
        · -- queued
          rw [recv_queued_eq s now m hqa]
          simp only [begSel, ite_self]
          by_cases hmk : m.inst = k
          · have : sel k s (.recv now m) = [.recv now m.msg] := by simp [sel, hmk, hle]
            rw [this]
            refine .waiting rfl rfl hcur ?_ ?_
            · intro o ho
              rcases List.mem_append.1 ho with ho | ho
              · exact hrecv o ho
              · simp only [List.mem_singleton] at ho
                subst ho; rfl
            · show queueOf (setQueue _ _ _) k = _
              rw [queueOf_setQueue, if_pos hmk.symm, preQueue_snoc, ← hq, hmk, hcfg]
              rfl
          · have : sel k s (.recv now m) = [] := by
              have : (m.inst == k) = false := by simpa using hmk
              simp [sel, this]
            rw [this, List.append_nil]
            refine .waiting rfl rfl hcur hrecv ?_
            show queueOf (setQueue _ _ _) k = _
            rw [queueOf_setQueue, if_neg (fun h => hmk h.symm)]
            exact hq
        · -- delivered to the running instance of an earlier instance
          cases ha : s.active with
          | none =>
            exfalso
            apply hqa
            by_cases h : s.cur < m.inst
            · exact Or.inl h
            · exact Or.inr ⟨by omega, ha⟩
          | some p =>
            have hm : m.inst = s.cur := by
              have : ¬ s.cur < m.inst := fun h => hqa (Or.inl h)
              omega
            have hck : s.cur < k := by
              rcases hcur with h | h
              · exact h
              · rw [ha] at h; cases h.2
            rw [recv_delivered_eq s now m p ha hm]
            have : (m.inst == k) = false := by simpa using (by omega : m.inst ≠ k)
            simp only [sel, begSel, this, Bool.false_and, Bool.false_eq_true, if_false, List.append_nil,
              if_neg (by omega : ¬ s.cur = k)]
            exact sim_handle_waiting k cfg _ pre hck hrecv hq
    | alarm now tbl input order =>
      cases ha : s.active with
      | some p =>
        have hck : s.cur < k := by
          rcases hcur with h | h
          · exact h
          · rw [ha] at h; cases h.2
        have hne : (s.cur == k) = false := by simpa using (by omega : s.cur ≠ k)
        rw [alarm_active_eq s now tbl input order p ha]
        simp only [sel, begSel, hne, Bool.false_and, Bool.false_eq_true, if_false, List.append_nil,
          if_neg (by omega : ¬ s.cur = k)]
        exact sim_handle_waiting k cfg _ pre hck hrecv hq
      | none =>
        rw [alarm_begin_eq s now tbl input order ha]
        by_cases hck : s.cur = k
        · -- the beginning of instance `k`
          have hbq : (s.cur == k) = true := by simpa using hck
          simp only [sel, begSel, hbq, ha, Option.isNone_none, Bool.and_self, if_true, if_pos hck]
          have hp0 : s.fresh tbl input = (prun order (pinit cfg tbl input) pre).1 := by
            rw [prun_waiting order cfg tbl input pre hrecv, MState.fresh, hcfg, hck, hq]
          have hrun : prun order (pinit cfg tbl input) (pre ++ [.alarm now]) =
              ((pstepWith order (s.fresh tbl input) (.alarm now)).1,
               (pstepWith order (s.fresh tbl input) (.alarm now)).2) := by
            rw [prun_snoc, ← hp0, prun_waiting order cfg tbl input pre hrecv]
            simp
          refine sim_handle_running k cfg _ _ tbl input order _ _ hck rfl
            (pstepWith_alarm_started order _ now) hrun ?_
          intro e he
          have := hds.2 e he
          omega
        · have hlt : s.cur < k := by omega
          have hne : (s.cur == k) = false := by simpa using hck
          simp only [sel, begSel, hne, Bool.false_and, Bool.false_eq_true, if_false, List.append_nil, if_neg hck]
          refine sim_handle_waiting k cfg _ pre hlt hrecv ?_
          show queueOf (s.queues.filter (fun e => e.1 != s.cur)) k = _
          rw [queueOf_filter s.queues k (fun i => i != s.cur) (by simpa using fun h => hck h.symm)]
          exact hq
    | startAt j =>
      simp only [sel, begSel, List.append_nil, mpstep, ite_self]
      simp only [fwdOp, Bool.or_eq_true, decide_eq_true_eq, Bool.and_eq_true, beq_iff_eq] at hfw
      by_cases hjk : j ≤ k
      · refine .waiting rfl rfl ?_ hrecv ?_
        · show j < k ∨ (j = k ∧ _)
          by_cases h : j < k
          · exact Or.inl h
          · exact Or.inr ⟨by omega, rfl⟩
        · show queueOf (s.queues.filter (fun e => decide (j ≤ e.1))) k = _
          rw [queueOf_filter s.queues k (fun i => decide (j ≤ i)) (by simpa using hjk)]
          exact hq
      · refine .skipped rfl rfl (by show k < j; omega) ?_
        intro d hd
        have := hds.2 _ hd
        simp only at this
        omega
  | running tbl input order p hbeg hcur hact hst hterm hrun =>
    subst hbeg
    rw [Option.some_or, if_pos hcur]
    have hdlt : ∀ e ∈ s.decisions, e.1 < k := fun e he => by have := hds.2 e he; omega
    cases op with
    | recv now m =>
      by_cases hlt : m.inst < s.cur
      · rw [recv_finished s now m hlt]
        have : (m.inst == k) = false := by simpa using (by omega : m.inst ≠ k)
        simp only [sel, this, Bool.false_and, Bool.false_eq_true, if_false, List.append_nil]
        exact .running tbl input order p rfl hcur hact hst hterm hrun
      · by_cases hmk : m.inst = k
        · -- delivered to the running instance `k`
          rw [recv_delivered_eq s now m p hact (by omega)]
          have : sel k s (.recv now m) = [.recv now m.msg] := by simp [sel, hmk, hcur]
          rw [this]
          have hrun' : prun order (pinit cfg tbl input) (pre ++ [.recv now m.msg]) =
              ((pstepWith [] p (.recv now m.msg)).1, effs ++ (pstepWith [] p (.recv now m.msg)).2) := by
            rw [prun_snoc, hrun, pstepWith_order_irrel order [] p _ hst]
          exact sim_handle_running k cfg { s with active := some (pstepWith [] p (.recv now m.msg)).1 } _ tbl input
            order _ _ hcur rfl (pstepWith_started [] p _ hst) hrun' hdlt
        · -- queued for a later instance
          have hqa : m.queuedAt s := Or.inl (by omega)
          rw [recv_queued_eq s now m hqa]
          have : sel k s (.recv now m) = [] := by
            have : (m.inst == k) = false := by simpa using hmk
            simp [sel, this]
          rw [this, List.append_nil, List.append_nil]
          exact .running tbl input order p rfl hcur hact hst hterm hrun
    | alarm now tbl' input' order' =>
      rw [alarm_active_eq s now tbl' input' order' p hact]
      have hbq : (s.cur == k) = true := by simpa using hcur
      simp only [sel, hbq, if_true]
      have hrun' : prun order (pinit cfg tbl input) (pre ++ [.alarm now]) =
          ((pstepWith order' p (.alarm now)).1, effs ++ (pstepWith order' p (.alarm now)).2) := by
        rw [prun_snoc, hrun, pstepWith_order_irrel order order' p _ hst]
      exact sim_handle_running k cfg { s with active := some (pstepWith order' p (.alarm now)).1 } _ tbl input
        order _ _ hcur rfl (pstepWith_alarm_started order' p now) hrun' hdlt
    | startAt j =>
      simp only [sel, List.append_nil, mpstep]
      simp only [fwdOp, Bool.or_eq_true, decide_eq_true_eq, Bool.and_eq_true, beq_iff_eq, hact,
        Option.isNone_some, Bool.false_eq_true, and_false, or_false] at hfw
      refine .finished tbl input order rfl (by show k < j; omega) (by rw [hrun]) ?_
      intro d
      rw [hrun]
      show (k, d) ∈ s.decisions ↔ p.inst.termination = some d
      rw [hterm]
      constructor
      · intro h; exact absurd (hdlt _ h) (Nat.lt_irrefl _)
      · intro h; cases h

/-- **A whole run preserves the simulation.** -/
theorem sim_run (k : Nat) (cfg : Cfg) (ops : List MPOp) (s : MState) (pre : List POp)
    (beg : Option (Table × Chain × List Pid)) (effs : List Eff) (hcfg : s.cfg = cfg) (hds : DecSorted s)
    (hfw : forwardOnly s ops = true) (h : Sim k cfg s pre beg effs) :
    Sim k cfg (mprun s ops).1 (pre ++ opsOfFrom k s ops) (beg.or (begunFrom k s ops))
      (effs ++ effsOf k (mprun s ops).2) := by
  induction ops generalizing s pre beg effs with
  | nil => simpa [opsOfFrom, begunFrom, effsOf] using h
  | cons op ops ih =>
    simp only [forwardOnly, Bool.and_eq_true] at hfw
    have h1 := sim_step k cfg s pre beg effs op hcfg hds hfw.1 h
    have hds1 := (mpstep_decSorted s op hds (fwdOp_noBackOp s op hfw.1)).1
    have h2 := ih (mpstep s op).1 _ _ _ ((mpstep_cfg s op).trans hcfg) hds1 hfw.2 h1
    rw [mprun_cons, effsOf_append, effsOf_tag]
    simp only [opsOfFrom, begunFrom]
    rw [← List.append_assoc, ← Option.or_assoc, ← List.append_assoc]
    exact h2

theorem sim_minit (k : Nat) (cfg : Cfg) (c0 : Nat) :
    Sim k cfg (minit cfg c0) [] none [] := by
  by_cases h : c0 ≤ k
  · refine .waiting rfl rfl ?_ (fun _ h => by cases h) rfl
    show c0 < k ∨ (c0 = k ∧ _)
    by_cases h' : c0 < k
    · exact Or.inl h'
    · exact Or.inr ⟨by omega, rfl⟩
  · exact .skipped rfl rfl (by show k < c0; omega) (fun d hd => by cases hd)

/-- the simulation at the end of a run from the initial state -/
theorem sim_final (k : Nat) (cfg : Cfg) (c0 : Nat) (ops : List MPOp)
    (hfw : forwardOnly (minit cfg c0) ops = true) :
    Sim k cfg (mprun (minit cfg c0) ops).1 (opsOf cfg c0 k ops) (begunWith cfg c0 k ops)
      (effsOf k (mprun (minit cfg c0) ops).2) := by
  have := sim_run k cfg ops (minit cfg c0) [] none [] rfl (minit_decSorted cfg c0) hfw (sim_minit k cfg c0)
  simpa [opsOf, begunWith] using this

/-- **Per-instance projection.** In a run of the multi-instance participant from its initial state in which no
`StartInstanceAt` goes backwards or restarts the running instance, let instance `k` have been begun with power
table `tbl`, proposal `input` and drain order `order`. Then
* the effects tagged `k` are exactly the effects of the single-instance participant run
  `prun order (pinit cfg tbl input) (opsOf cfg c0 k ops)`;
* a decision `d` is recorded for `k` iff that single-instance run ends with `termination = some d`;
* while `k` is the current instance, the running instance is the final state of that single-instance run;
* `k` is not a future instance (`k ≤ cur`). -/
theorem instance_projection (cfg : Cfg) (c0 : Nat) (ops : List MPOp) (k : Nat) (tbl : Table) (input : Chain)
    (order : List Pid) (hfw : forwardOnly (minit cfg c0) ops = true)
    (hbeg : begunWith cfg c0 k ops = some (tbl, input, order)) :
    effsOf k (mprun (minit cfg c0) ops).2 = (prun order (pinit cfg tbl input) (opsOf cfg c0 k ops)).2 ∧
    (∀ d, (k, d) ∈ (mprun (minit cfg c0) ops).1.decisions ↔
      (prun order (pinit cfg tbl input) (opsOf cfg c0 k ops)).1.inst.termination = some d) ∧
    ((mprun (minit cfg c0) ops).1.cur = k →
      (mprun (minit cfg c0) ops).1.active = some (prun order (pinit cfg tbl input) (opsOf cfg c0 k ops)).1) ∧
    k ≤ (mprun (minit cfg c0) ops).1.cur := by
  have hds := (mprun_decSorted (minit cfg c0) ops (minit_decSorted cfg c0)
    (forwardOnly_noBackward _ _ hfw)).1
  cases sim_final k cfg c0 ops hfw with
  | waiting hb _ _ _ _ => rw [hbeg] at hb; cases hb
  | skipped hb _ _ _ => rw [hbeg] at hb; cases hb
  | running tbl' input' order' p hb hcur hact hst hterm hrun =>
    rw [hbeg] at hb; cases hb
    refine ⟨by rw [hrun], ?_, fun _ => by rw [hrun]; exact hact, by omega⟩
    intro d
    rw [hrun]
    show _ ↔ p.inst.termination = some d
    rw [hterm]
    constructor
    · intro h
      have := hds.2 _ h
      simp only at this
      omega
    · intro h; cases h
  | finished tbl' input' order' hb hcur heffs hdec =>
    rw [hbeg] at hb; cases hb
    exact ⟨heffs.symm, hdec, fun h => by omega, by omega⟩

/-- **An instance that was not begun does nothing**: no effects, no decision. -/
theorem instance_not_begun (cfg : Cfg) (c0 : Nat) (ops : List MPOp) (k : Nat)
    (hfw : forwardOnly (minit cfg c0) ops = true) (hbeg : begunWith cfg c0 k ops = none) :
    effsOf k (mprun (minit cfg c0) ops).2 = [] ∧ ∀ d, (k, d) ∉ (mprun (minit cfg c0) ops).1.decisions := by
  have hds := (mprun_decSorted (minit cfg c0) ops (minit_decSorted cfg c0)
    (forwardOnly_noBackward _ _ hfw)).1
  cases sim_final k cfg c0 ops hfw with
  | waiting _ heffs hcur _ _ =>
    refine ⟨heffs, fun d hd => ?_⟩
    have := hds.2 _ hd
    simp only at this
    rcases hcur with h | h <;> omega
  | skipped _ heffs _ hdec => exact ⟨heffs, hdec⟩
  | running tbl' input' order' p hb _ _ _ _ _ => rw [hbeg] at hb; cases hb
  | finished tbl' input' order' hb _ _ _ => rw [hbeg] at hb; cases hb

/-- a recorded decision is the decision of a begun instance -/
theorem decision_begun (cfg : Cfg) (c0 : Nat) (ops : List MPOp) (k : Nat) (d : Just)
    (hfw : forwardOnly (minit cfg c0) ops = true) (hd : (k, d) ∈ (mprun (minit cfg c0) ops).1.decisions) :
    ∃ tbl input order, begunWith cfg c0 k ops = some (tbl, input, order) ∧
      (prun order (pinit cfg tbl input) (opsOf cfg c0 k ops)).1.inst.termination = some d := by
  cases hb : begunWith cfg c0 k ops with
  | none => exact absurd hd ((instance_not_begun cfg c0 ops k hfw hb).2 d)
  | some b =>
    obtain ⟨tbl, input, order⟩ := b
    exact ⟨tbl, input, order, rfl, ((instance_projection cfg c0 ops k tbl input order hfw hb).2.1 d).1 hd⟩

/-! ### hypotheses about the calls of the whole run carry over to the calls that concern one instance -/

/-- the delivered message satisfies `P` -/
def MPOpP (P : Msg → Prop) : MPOp → Prop
  | .recv _ m => P m.msg
  | _ => True

theorem sel_P (P : Msg → Prop) (k : Nat) (s : MState) (op : MPOp) (h : MPOpP P op) : ∀ o ∈ sel k s op, POpP P o := by
  intro o ho
  cases op with
  | recv now m =>
    simp only [sel] at ho
    split at ho
    · simp only [List.mem_singleton] at ho
      subst ho; exact h
    · cases ho
  | alarm now tbl input order =>
    simp only [sel] at ho
    split at ho
    · simp only [List.mem_singleton] at ho
      subst ho; trivial
    · cases ho
  | startAt j => cases ho

theorem opsOfFrom_P (P : Msg → Prop) (k : Nat) (s : MState) (ops : List MPOp) (h : ∀ op ∈ ops, MPOpP P op) :
    ∀ o ∈ opsOfFrom k s ops, POpP P o := by
  induction ops generalizing s with
  | nil => intro o ho; cases ho
  | cons op ops ih =>
    intro o ho
    simp only [opsOfFrom, List.mem_append] at ho
    rcases ho with ho | ho
    · exact sel_P P k s op (h op List.mem_cons_self) o ho
    · exact ih _ (fun op' hop' => h op' (List.mem_cons_of_mem _ hop')) o ho

/-- if every delivery of the run satisfies `P`, so does every delivery that concerns instance `k` -/
theorem opsOf_P (P : Msg → Prop) (cfg : Cfg) (c0 k : Nat) (ops : List MPOp) (h : ∀ op ∈ ops, MPOpP P op) :
    ∀ o ∈ opsOf cfg c0 k ops, POpP P o := opsOfFrom_P P k _ ops h

/-- a run that reports no failure reports none for instance `k` -/
theorem effsOf_nofail (k : Nat) (l : List (Nat × Eff)) (h : hasFailure (l.map (·.2)) = false) :
    hasFailure (effsOf k l) = false := by
  cases hf : hasFailure (effsOf k l) with
  | false => rfl
  | true =>
    unfold hasFailure at hf
    rw [List.any_eq_true] at hf
    obtain ⟨e, he, hfe⟩ := hf
    have h2 : hasFailure (l.map (·.2)) = true := by
      unfold hasFailure
      rw [List.any_eq_true]
      exact ⟨e, List.mem_map.2 ⟨(k, e), (mem_effsOf k l e).1 he, rfl⟩, hfe⟩
    rw [h] at h2; cases h2

end F3.Instance
