import F3.Model.Merkle
import F3.Proofs.CodecBytes
import Mathlib.Tactic.Ring
import Mathlib.Tactic.Linarith
import Mathlib.Tactic.NormNum
/-! Lemmas about the merkle model (C14b): `batch = tree of the prefix`, injectivity of `tree` under
collision-freeness of the hash, unreachability of the panic branch. -/
namespace F3.Merkle
open F3.Codec

/-- The *idealised* hash: globally injective, 32-byte output, never the all-zero digest. No function
with 32-byte output on byte strings is injective, so no real hash (and neither executable hash of
`F3.Model.CodecHash`) satisfies this; it is satisfiable in the model only because `Bytes = List Nat`.
Used by the idealised-hash corollaries only; the primary results are the reductions of
`F3/Proofs/CodecCollision.lean`, which assume nothing of the hash. -/
structure HashOK (H : Bytes → Bytes) : Prop where
  inj : ∀ a b, H a = H b → a = b
  len : ∀ a, (H a).length = 32
  nonzero : ∀ a, H a ≠ zeroDigest

variable (H : Bytes → Bytes)

theorem depth_bounds {k : Nat} (hk : 2 ≤ k) :
    2 ^ (depth k - 1) < k ∧ k ≤ 2 ^ depth k ∧ 1 ≤ depth k := by
  unfold depth
  have h0 : ¬ k = 0 := by omega
  have h1 : ¬ k = 1 := by omega
  simp only [h0, h1, if_false, Nat.add_sub_cancel]
  have hne : k - 1 ≠ 0 := by omega
  have h2 : 2 ^ Nat.log2 (k - 1) ≤ k - 1 := Nat.log2_self_le hne
  have h3 : k - 1 < 2 ^ (Nat.log2 (k - 1) + 1) := Nat.lt_log2_self
  omega

theorem depth_fits (k : Nat) (hk : 1 ≤ k) : k ≤ 2 ^ depth k := by
  by_cases h : k = 1
  · subst h; simp [depth]
  · exact (depth_bounds (k := k) (by omega)).2.1

theorem depth_pow (m : Nat) : depth (2 ^ m) = m := by
  unfold depth
  have hpos : 0 < 2 ^ m := Nat.two_pow_pos _
  have h0 : ¬ 2 ^ m = 0 := by omega
  cases m with
  | zero => simp
  | succ m =>
    have h2 : 2 ≤ 2 ^ (m + 1) := by
      calc 2 = 2 ^ 1 := by norm_num
        _ ≤ 2 ^ (m + 1) := Nat.pow_le_pow_right (by norm_num) (by omega)
    have h1 : ¬ 2 ^ (m + 1) = 1 := by omega
    simp only [h0, h1, if_false]
    have hne : 2 ^ (m + 1) - 1 ≠ 0 := by omega
    have hlt : Nat.log2 (2 ^ (m + 1) - 1) < m + 1 := by
      rw [Nat.log2_lt hne]
      omega
    have hge : m ≤ Nat.log2 (2 ^ (m + 1) - 1) := by
      by_contra hc
      have hc' : Nat.log2 (2 ^ (m + 1) - 1) < m := by omega
      rw [Nat.log2_lt hne] at hc'
      have : 2 ^ (m + 1) = 2 * 2 ^ m := by ring
      have : 0 < 2 ^ m := Nat.two_pow_pos _
      omega
    omega

theorem buildTree_nil (d : Nat) : buildTree H d [] = zeroDigest := by
  cases d <;> rfl

theorem buildTree_succ (d : Nat) (l : List Bytes) (hl : l ≠ []) :
    buildTree H (d + 1) l =
      nodeHash H (buildTree H d (l.take (min (2 ^ d) l.length)))
           (buildTree H d (l.drop (min (2 ^ d) l.length))) := by
  cases l with
  | nil => exact absurd rfl hl
  | cons a l => rw [buildTree]

/-- `BatchTree` computes, for every prefix length `k`, the `Tree` of that prefix. -/
theorem batch_eq_tree (vs : List Bytes) : ∀ k, 1 ≤ k → k ≤ vs.length →
    batch H vs k = tree H (vs.take k) := by
  intro k
  induction k using Nat.strong_induction_on with
  | _ k ih =>
    intro h1 hk
    match k, h1, hk, ih with
    | 1, _, hk, _ =>
      cases vs with
      | nil => simp at hk
      | cons v vs => simp [batch, tree, depth, buildTree]
    | k + 2, _, hk, ih =>
      obtain ⟨hlt, hle, hd⟩ := depth_bounds (k := k + 2) (by omega)
      have hs1 : 1 ≤ 2 ^ (depth (k + 2) - 1) := Nat.one_le_two_pow
      rw [batch]
      simp only [hlt, dif_pos]
      rw [ih _ hlt hs1 (by omega)]
      unfold tree
      have hlen : (vs.take (k + 2)).length = k + 2 := by simp; omega
      have hlen2 : (vs.take (2 ^ (depth (k + 2) - 1))).length = 2 ^ (depth (k + 2) - 1) := by
        simp; omega
      rw [hlen, hlen2, depth_pow]
      generalize hdd : depth (k + 2) = dd at *
      obtain ⟨d', rfl⟩ : ∃ d', dd = d' + 1 := ⟨dd - 1, by omega⟩
      simp only [Nat.add_sub_cancel] at *
      have hne : vs.take (k + 2) ≠ [] := by
        intro h; rw [h] at hlen; simp at hlen
      rw [buildTree_succ H d' _ hne, hlen]
      have hmin : min (2 ^ d') (k + 2) = 2 ^ d' := by omega
      rw [hmin, List.take_take]
      have hmin2 : min (2 ^ d') (k + 2) = 2 ^ d' := hmin
      rw [hmin2]

theorem batchTree_length (vs : List Bytes) : (batchTree H vs).length = vs.length := by
  simp [batchTree]

/-- entry `i` of `BatchTree(values)` is `Tree(values[:i+1])` -/
theorem batchTree_get (vs : List Bytes) (i : Nat) (hi : i < vs.length) :
    (batchTree H vs)[i]? = some (tree H (vs.take (i + 1))) := by
  unfold batchTree
  rw [List.getElem?_map, List.getElem?_range hi]
  simp only [Option.map_some]
  rw [batch_eq_tree H vs (i + 1) (by omega) (by omega)]

/-! ### the panic branch is unreachable -/

/-- whether `buildTree` reaches the "expected one value at the leaf" panic -/
def panics : Nat → List Bytes → Bool
  | _, [] => false
  | 0, [_] => false
  | 0, _ :: _ :: _ => true
  | d + 1, v :: vs =>
      panics d ((v :: vs).take (min (2 ^ d) (v :: vs).length)) ||
      panics d ((v :: vs).drop (min (2 ^ d) (v :: vs).length))

theorem panics_false_of_fits : ∀ (d : Nat) (vs : List Bytes), vs.length ≤ 2 ^ d → panics d vs = false := by
  intro d
  induction d with
  | zero =>
    intro vs h
    match vs, h with
    | [], _ => rfl
    | [_], _ => rfl
    | _ :: _ :: _, h => simp at h
  | succ d ih =>
    intro vs h
    cases vs with
    | nil => rfl
    | cons v vs =>
      rw [panics]
      have h2 : 2 ^ (d + 1) = 2 * 2 ^ d := by ring
      rw [ih _ (by simp only [List.length_take]; omega), ih _ (by simp only [List.length_drop]; omega)]
      rfl

theorem tree_never_panics (vs : List Bytes) : panics (depth vs.length) vs = false := by
  cases vs with
  | nil => cases depth ([] : List Bytes).length <;> rfl
  | cons v vs => exact panics_false_of_fits _ _ (depth_fits _ (by simp))

/-! ### injectivity -/

theorem buildTree_isHash (_hH : HashOK H) : ∀ (d : Nat) (vs : List Bytes), vs ≠ [] → vs.length ≤ 2 ^ d →
    ∃ x, buildTree H d vs = H x := by
  intro d vs hne hfit
  cases d with
  | zero =>
    match vs, hne, hfit with
    | [v], _, _ => exact ⟨1 :: v, rfl⟩
    | _ :: _ :: _, _, h => simp at h
  | succ d =>
    rw [buildTree_succ H d vs hne]
    exact ⟨_, rfl⟩

theorem buildTree_ne_zero (hH : HashOK H) (d : Nat) (vs : List Bytes) (hne : vs ≠ []) (hfit : vs.length ≤ 2 ^ d) :
    buildTree H d vs ≠ zeroDigest := by
  obtain ⟨x, hx⟩ := buildTree_isHash H hH d vs hne hfit
  rw [hx]; exact hH.nonzero x

theorem buildTree_length (hH : HashOK H) (d : Nat) (vs : List Bytes) (hne : vs ≠ []) (hfit : vs.length ≤ 2 ^ d) :
    (buildTree H d vs).length = 32 := by
  obtain ⟨x, hx⟩ := buildTree_isHash H hH d vs hne hfit
  rw [hx]; exact hH.len x

theorem buildTree_inj (hH : HashOK H) : ∀ (d1 d2 : Nat) (vs ws : List Bytes), vs ≠ [] → ws ≠ [] →
    vs.length ≤ 2 ^ d1 → ws.length ≤ 2 ^ d2 → buildTree H d1 vs = buildTree H d2 ws → vs = ws := by
  intro d1
  induction d1 with
  | zero =>
    intro d2 vs ws hv hw fv fw h
    match vs, hv, fv with
    | [v], _, _ =>
      cases d2 with
      | zero =>
        match ws, hw, fw with
        | [w], _, _ =>
          have := hH.inj _ _ h
          simp at this; simp [this]
        | _ :: _ :: _, _, fw => simp at fw
      | succ d2 =>
        rw [buildTree_succ H d2 ws hw] at h
        have := hH.inj _ _ h
        simp at this
    | _ :: _ :: _, _, fv => simp at fv
  | succ d1 ih =>
    intro d2 vs ws hv hw fv fw h
    cases d2 with
    | zero =>
      match ws, hw, fw with
      | [w], _, _ =>
        rw [buildTree_succ H d1 vs hv] at h
        have := hH.inj _ _ h
        simp at this
      | _ :: _ :: _, _, fw => simp at fw
    | succ d2 =>
      rw [buildTree_succ H d1 vs hv, buildTree_succ H d2 ws hw] at h
      have hcat := hH.inj _ _ h
      simp only [List.cons.injEq, true_and] at hcat
      have p1 : 2 ^ (d1 + 1) = 2 * 2 ^ d1 := by ring
      have p2 : 2 ^ (d2 + 1) = 2 * 2 ^ d2 := by ring
      have hvl : 0 < vs.length := List.length_pos_iff.mpr hv
      have hwl : 0 < ws.length := List.length_pos_iff.mpr hw
      have hp1 : 0 < 2 ^ d1 := Nat.two_pow_pos _
      have hp2 : 0 < 2 ^ d2 := Nat.two_pow_pos _
      -- left parts are non-empty and fit
      have tv_ne : vs.take (min (2 ^ d1) vs.length) ≠ [] := by
        intro hc
        have h' : (vs.take (min (2 ^ d1) vs.length)).length = 0 := by rw [hc]; rfl
        rw [List.length_take] at h'; omega
      have tw_ne : ws.take (min (2 ^ d2) ws.length) ≠ [] := by
        intro hc
        have h' : (ws.take (min (2 ^ d2) ws.length)).length = 0 := by rw [hc]; rfl
        rw [List.length_take] at h'; omega
      have tv_fit : (vs.take (min (2 ^ d1) vs.length)).length ≤ 2 ^ d1 := by rw [List.length_take]; omega
      have tw_fit : (ws.take (min (2 ^ d2) ws.length)).length ≤ 2 ^ d2 := by rw [List.length_take]; omega
      have dv_fit : (vs.drop (min (2 ^ d1) vs.length)).length ≤ 2 ^ d1 := by rw [List.length_drop]; omega
      have dw_fit : (ws.drop (min (2 ^ d2) ws.length)).length ≤ 2 ^ d2 := by rw [List.length_drop]; omega
      have hl : (buildTree H d1 (vs.take (min (2 ^ d1) vs.length))).length =
          (buildTree H d2 (ws.take (min (2 ^ d2) ws.length))).length := by
        rw [buildTree_length H hH _ _ tv_ne tv_fit, buildTree_length H hH _ _ tw_ne tw_fit]
      obtain ⟨hL, hR⟩ := List.append_inj hcat hl
      have htake := ih d2 _ _ tv_ne tw_ne tv_fit tw_fit hL
      have hdrop : vs.drop (min (2 ^ d1) vs.length) = ws.drop (min (2 ^ d2) ws.length) := by
        by_cases e1 : vs.drop (min (2 ^ d1) vs.length) = []
        · by_cases e2 : ws.drop (min (2 ^ d2) ws.length) = []
          · rw [e1, e2]
          · exfalso
            rw [e1, buildTree_nil] at hR
            exact buildTree_ne_zero H hH _ _ e2 dw_fit hR.symm
        · by_cases e2 : ws.drop (min (2 ^ d2) ws.length) = []
          · exfalso
            rw [e2, buildTree_nil] at hR
            exact buildTree_ne_zero H hH _ _ e1 dv_fit hR
          · exact ih d2 _ _ e1 e2 dv_fit dw_fit hR
      calc vs = vs.take (min (2 ^ d1) vs.length) ++ vs.drop (min (2 ^ d1) vs.length) := (List.take_append_drop _ _).symm
        _ = ws.take (min (2 ^ d2) ws.length) ++ ws.drop (min (2 ^ d2) ws.length) := by rw [htake, hdrop]
        _ = ws := List.take_append_drop _ _

theorem tree_nil : tree H [] = zeroDigest := buildTree_nil H _

theorem tree_ne_zero (hH : HashOK H) (vs : List Bytes) (hne : vs ≠ []) : tree H vs ≠ zeroDigest :=
  buildTree_ne_zero H hH _ _ hne (depth_fits _ (List.length_pos_iff.mpr hne))

theorem tree_length (hH : HashOK H) (vs : List Bytes) : (tree H vs).length = 32 := by
  by_cases hne : vs = []
  · subst hne; rw [tree_nil]; rfl
  · exact buildTree_length H hH _ _ hne (depth_fits _ (List.length_pos_iff.mpr hne))

/-- The merkle root determines the list of values: their number, their order and each value. -/
theorem tree_inj (hH : HashOK H) (vs ws : List Bytes) (h : tree H vs = tree H ws) : vs = ws := by
  by_cases hv : vs = []
  · by_cases hw : ws = []
    · rw [hv, hw]
    · exfalso; rw [hv, tree_nil] at h; exact tree_ne_zero H hH ws hw h.symm
  · by_cases hw : ws = []
    · exfalso; rw [hw, tree_nil] at h; exact tree_ne_zero H hH vs hv h
    · exact buildTree_inj H hH _ _ vs ws hv hw (depth_fits _ (List.length_pos_iff.mpr hv))
        (depth_fits _ (List.length_pos_iff.mpr hw)) h

end F3.Merkle
