import F3.Proofs.Bridge
import F3.Proofs.ValidatorRules
import F3.Spec.ValidMsg
/-!
# What validation accepts is what the consensus proofs assume

`F3.Spec.ValidMsg.validMsg` (C05: the declarative validity predicate the validator model is proved sound and
complete for) implies `F3.Instance.MsgValid` (the hypothesis of Layer B about every delivered message), under
the symbolic-signature reading: the tokens occurring in a message were produced by the owners of the keys.
-/
namespace F3.ValidBridge
open F3.Msg F3.Spec.ValidMsg

/-- phases as the instance model names them -/
def absPhase : Nat → Instance.Phase
  | 0 => .initial | 1 => .quality | 2 => .converge | 3 => .prepare | 4 => .commit | 5 => .decide | _ => .terminated

/-- a chain is abstracted to the identities of its tipsets (`Tip.id` is the interned identity) -/
def absChain (c : Msg.Chain) : Instance.Chain := c.map (·.id)

def absJust (j : Msg.Just) : Instance.Just :=
  { round := j.vote.round, phase := absPhase j.vote.phase, value := absChain j.vote.value, signers := j.signers }

def absMsg (m : Msg.Msg) : Instance.Msg :=
  { sender := m.sender, round := m.vote.round, phase := absPhase m.vote.phase, value := absChain m.vote.value,
    just := m.just.map absJust }

def tableOf (c : Committee) : Instance.Table := { entries := c.entries.map (fun e => (e.id, e.power)) }

/-- the votes in existence for instance `inst` with supplemental data `supp` on network `net`, given which
keys signed which bytes -/
def Wsig (Signed : Nat → SigMsg → Prop) (net inst supp : Nat) (c : Committee) : Instance.Votes :=
  fun x r ph v => ∃ e ∈ c.entries, e.id = x ∧ ∃ (phn : Nat) (v' : Msg.Chain), absPhase phn = ph ∧ absChain v' = v ∧
    Signed e.pub (SigMsg.vote net inst r phn supp (keyOf v'))

theorem absChain_ne {c : Msg.Chain} (h : c ≠ []) : absChain c ≠ [] := by
  cases c with
  | nil => exact absurd rfl h
  | cons a l => simp [absChain]

theorem absChain_nil {c : Msg.Chain} (h : c = []) : absChain c = [] := by rw [h]; rfl

theorem ids_tableOf (c : Committee) : Bridge.ids (tableOf c) = c.entries.map (·.id) := by
  unfold Bridge.ids tableOf
  simp [List.map_map, Function.comp_def]

theorem powerAt_tableOf (c : Committee) (i : Nat) : (tableOf c).powerAt i = powerAt c i := by
  unfold Instance.Table.powerAt tableOf powerAt
  simp only [List.getElem?_map]
  cases c.entries[i]? <;> rfl

theorem sumNat_eq_foldl (l : List Nat) : sumNat l = l.foldl (· + ·) 0 := by
  induction l with
  | nil => rfl
  | cons x xs ih =>
    rw [List.foldl_cons, Instance.foldl_add_init, sumNat, ih]; omega

theorem total_tableOf (c : Committee) : (tableOf c).total = c.total := by
  unfold Instance.Table.total tableOf Committee.total
  rw [sumNat_eq_foldl]
  simp [List.map_map, Function.comp_def]

theorem sumPow_tableOf (c : Committee) (sg : List Nat) :
    Instance.sumPow (tableOf c) sg = sumNat (sg.map (powerAt c)) := by
  unfold Instance.sumPow
  rw [sumNat_eq_foldl]
  congr 1
  apply List.map_congr_left
  intro i _
  exact powerAt_tableOf c i

theorem power_tableOf {c : Committee} (hu : (c.entries.map (·.id)).Nodup) {e : Entry} (he : e ∈ c.entries) :
    (tableOf c).power e.id = e.power := by
  obtain ⟨i, hi, hget⟩ := List.getElem_of_mem he
  have hi' : i < (tableOf c).entries.length := by simpa [tableOf] using hi
  have hnd : (Bridge.ids (tableOf c)).Nodup := by rw [ids_tableOf]; exact hu
  have hid : Bridge.idAt (tableOf c) i = e.id := by
    unfold Bridge.idAt tableOf
    simp [List.getElem?_eq_getElem hi, hget]
  rw [← hid, Bridge.power_idAt _ hnd i hi', powerAt_tableOf]
  unfold powerAt
  simp [List.getElem?_eq_getElem hi, hget]

/-- a verifying strong-quorum certificate, read symbolically, is list-level quorum evidence -/
theorem quorumCert_justOk (Signed : Nat → SigMsg → Prop) (net inst supp : Nat) (c : Committee)
    (hu : (c.entries.map (·.id)).Nodup) (j : Msg.Just) (hq : quorumCert net c j)
    (hi : j.vote.inst = inst) (hs : j.vote.supp = supp)
    (hagg : ∀ sg x, j.agg = Agg.tok sg x → ∀ p ∈ sg, Signed p.2 x) :
    Instance.JustOk (Wsig Signed net inst supp c) (tableOf c) (absJust j) := by
  obtain ⟨⟨hinc, hmem, hstrong⟩, hag⟩ := hq
  have hnd : (Bridge.ids (tableOf c)).Nodup := by rw [ids_tableOf]; exact hu
  refine ⟨hinc, ?_, ?_, ?_⟩
  · intro i hi'
    have := hmem i hi'
    exact ⟨by simpa [tableOf] using this.1, by rw [powerAt_tableOf]; exact this.2⟩
  · show Instance.strongQ (tableOf c) (Instance.sumPow (tableOf c) j.signers) = true
    unfold Instance.strongQ
    rw [sumPow_tableOf, total_tableOf]
    exact hstrong
  · intro i hi'
    have hlt := (hmem i hi').1
    have hlt' : i < (tableOf c).entries.length := by simpa [tableOf] using hlt
    refine ⟨Bridge.idAt (tableOf c) i, Bridge.idAt_index _ hnd i hlt', ?_⟩
    refine ⟨c.entries[i], List.getElem_mem hlt, ?_, j.vote.phase, j.vote.value, rfl, rfl, ?_⟩
    · unfold Bridge.idAt tableOf
      simp [List.getElem?_eq_getElem hlt]
    · have := hagg _ _ hag (i, pubAt c i) (List.mem_map.2 ⟨i, hi', rfl⟩)
      have hpub : pubAt c i = c.entries[i].pub := by
        unfold pubAt; simp [List.getElem?_eq_getElem hlt]
      rw [hpub, hi, hs] at this
      exact this

/-- **Validation delivers the hypothesis of the consensus proofs.** -/
theorem validMsg_MsgValid (Signed : Nat → SigMsg → Prop) (net : Nat) (c : Committee)
    (hu : (c.entries.map (·.id)).Nodup) (m : Msg.Msg) (hv : validMsg net c m)
    (hsig : ∀ pub x, m.sig = Sig.tok pub x → Signed pub x)
    (hagg : ∀ j, m.just = some j → ∀ sg x, j.agg = Agg.tok sg x → ∀ p ∈ sg, Signed p.2 x) :
    Instance.MsgValid (Wsig Signed net m.vote.inst m.vote.supp c) (tableOf c) (absMsg m) := by
  obtain ⟨⟨e, he, hid, hpos, hsg, _⟩, _, hstep, hjn, hjnn⟩ := hv
  refine ⟨⟨e, he, hid, m.vote.phase, m.vote.value, rfl, rfl, hsig _ _ hsg⟩, ?_, ?_⟩
  · show 0 < (tableOf c).power m.sender
    rw [← hid, power_tableOf hu he]; exact hpos
  · have hJ : ∀ j, m.just = some j → j.vote.inst = m.vote.inst → j.vote.supp = m.vote.supp → quorumCert net c j →
        Instance.JustOk (Wsig Signed net m.vote.inst m.vote.supp c) (tableOf c) (absJust j) :=
      fun j hmj hi hs hq => quorumCert_justOk Signed net _ _ c hu j hq hi hs (hagg j hmj)
    show match (absMsg m).phase with
      | .quality => _ | .converge => _ | .prepare => _ | .commit => _ | .decide => _ | _ => False
    unfold stepOK at hstep
    unfold needsJustification at hjn hjnn
    rcases hstep with ⟨hp, hr, hne⟩ | ⟨hp, hr, hne⟩ | hp | hp | ⟨hp, hr, hne⟩
    · -- QUALITY
      have : (absMsg m).phase = .quality := by show absPhase m.vote.phase = _; rw [hp]; rfl
      rw [this]
      exact ⟨hr, absChain_ne hne⟩
    · -- CONVERGE
      have : (absMsg m).phase = .converge := by show absPhase m.vote.phase = _; rw [hp]; rfl
      rw [this]
      refine ⟨hr, absChain_ne hne, ?_⟩
      obtain ⟨j, hmj, hi, hs, _, hjs, hq⟩ := hjn (by rw [hp]; simp [QUALITY, CONVERGE, PREPARE, COMMIT])
      refine ⟨absJust j, by show (m.just.map absJust) = _; rw [hmj]; rfl, hJ j hmj hi hs hq, ?_⟩
      unfold justifies at hjs
      rw [hp] at hjs
      rcases hjs with ⟨_, hr', hc⟩ | ⟨h', _⟩ | ⟨h', _⟩
      · refine ⟨hr', ?_⟩
        rcases hc with ⟨h1, h2⟩ | ⟨h1, h2⟩
        · exact Or.inl ⟨by show absPhase j.vote.phase = _; rw [h1]; rfl, by show absChain _ = absChain _; rw [h2]⟩
        · exact Or.inr ⟨by show absPhase j.vote.phase = _; rw [h1]; rfl, absChain_nil h2⟩
      · exact absurd h' (by simp [CONVERGE, COMMIT])
      · exact absurd h' (by simp [CONVERGE, DECIDE])
    · -- PREPARE
      have : (absMsg m).phase = .prepare := by show absPhase m.vote.phase = _; rw [hp]; rfl
      rw [this]
      constructor
      · intro hr0
        have hr0' : m.vote.round = 0 := hr0
        have := hjnn (by intro hn; exact hn (Or.inr (Or.inl ⟨hp, hr0'⟩)))
        show m.just.map absJust = none
        rw [this]; rfl
      · intro hrp
        have hrp' : 0 < m.vote.round := hrp
        obtain ⟨j, hmj, hi, hs, _, hjs, hq⟩ := hjn (by
          rw [hp]; simp only [QUALITY, CONVERGE, PREPARE, COMMIT]; omega)
        refine ⟨absJust j, by show (m.just.map absJust) = _; rw [hmj]; rfl, hJ j hmj hi hs hq, ?_⟩
        unfold justifies at hjs
        rw [hp] at hjs
        rcases hjs with ⟨_, hr', hc⟩ | ⟨h', _⟩ | ⟨h', _⟩
        · refine ⟨hr', ?_⟩
          rcases hc with ⟨h1, h2⟩ | ⟨h1, h2⟩
          · exact Or.inl ⟨by show absPhase j.vote.phase = _; rw [h1]; rfl, by show absChain _ = absChain _; rw [h2]⟩
          · exact Or.inr ⟨by show absPhase j.vote.phase = _; rw [h1]; rfl, absChain_nil h2⟩
        · exact absurd h' (by simp [PREPARE, COMMIT])
        · exact absurd h' (by simp [PREPARE, DECIDE])
    · -- COMMIT
      have : (absMsg m).phase = .commit := by show absPhase m.vote.phase = _; rw [hp]; rfl
      rw [this]
      constructor
      · intro hv0
        have hv0' : m.vote.value = [] := by
          have : absChain m.vote.value = [] := hv0
          cases hc : m.vote.value with
          | nil => rfl
          | cons a l => rw [hc] at this; simp [absChain] at this
        have := hjnn (by intro hn; exact hn (Or.inr (Or.inr ⟨hp, hv0'⟩)))
        show m.just.map absJust = none
        rw [this]; rfl
      · intro hvne
        have hvne' : m.vote.value ≠ [] := by
          intro h0; exact hvne (absChain_nil h0)
        obtain ⟨j, hmj, hi, hs, _, hjs, hq⟩ := hjn (by
          rw [hp]; simp only [QUALITY, CONVERGE, PREPARE, COMMIT]
          intro h; rcases h with h | h | h
          · omega
          · omega
          · exact hvne' h.2)
        refine ⟨absJust j, by show (m.just.map absJust) = _; rw [hmj]; rfl, hJ j hmj hi hs hq, ?_⟩
        unfold justifies at hjs
        rw [hp] at hjs
        rcases hjs with ⟨h', _⟩ | ⟨_, h1, h2, h3⟩ | ⟨h', _⟩
        · exact absurd h' (by simp [CONVERGE, PREPARE, COMMIT])
        · exact ⟨h2, by show absPhase j.vote.phase = _; rw [h1]; rfl, by show absChain _ = absChain _; rw [h3]⟩
        · exact absurd h' (by simp [COMMIT, DECIDE])
    · -- DECIDE
      have : (absMsg m).phase = .decide := by show absPhase m.vote.phase = _; rw [hp]; rfl
      rw [this]
      refine ⟨hr, absChain_ne hne, ?_⟩
      obtain ⟨j, hmj, hi, hs, _, hjs, hq⟩ := hjn (by rw [hp]; simp [QUALITY, CONVERGE, PREPARE, COMMIT, DECIDE])
      refine ⟨absJust j, by show (m.just.map absJust) = _; rw [hmj]; rfl, hJ j hmj hi hs hq, ?_⟩
      unfold justifies at hjs
      rw [hp] at hjs
      rcases hjs with ⟨h', _⟩ | ⟨h', _⟩ | ⟨_, h1, h2⟩
      · exact absurd h' (by simp [CONVERGE, PREPARE, DECIDE])
      · exact absurd h' (by simp [COMMIT, DECIDE])
      · exact ⟨by show absPhase j.vote.phase = _; rw [h1]; rfl, by show absChain _ = absChain _; rw [h2]⟩

end F3.ValidBridge
