import F3.Proofs.StoreWipe
/-! Crash points: every prefix of every mutating operation's write sequence leaves the datastore in
a state whose restart observations are those of the abstract state before or after the operation. -/
namespace F3.Store

/-- The datastore after a crash that let the first `k` writes of `ws` through. -/
def crashAt (ds : DS) (ws : List W) (k : Nat) : DS := applyWs ds (ws.take k)

/-- The three kinds of datastore the operations and their crashes ever produce. -/
def Good (cfg : Cfg) (ds : DS) : Prop := Wiping ds ∨ NotInit ds ∨ ∃ sp, Repr cfg.freq ds sp

/-- The datastore's query answers for a restart are permutations of the keys it holds. -/
def OrdersOk (ds : DS) (o : Orders) : Prop := o.inner.Perm (scopeKeys .inner ds)

/-- `ds` *looks like* abstract state `d` to every restart (every open variant, every query order). -/
def LooksLike (cfg : Cfg) (ds : DS) (d : Desc) : Prop :=
  ∀ (o : Orders), OrdersOk ds o → ∀ v : Variant, reobserve cfg ds o v = specReobserve d v

/-- Production configuration: the period in force while opening is the store's period. -/
def Cfg.Uniform (cfg : Cfg) : Prop := cfg.openFreq = cfg.freq

theorem looksLike_of_repr {cfg : Cfg} (hu : cfg.Uniform) {ds : DS} {sp : Spec} (h : Repr cfg.freq ds sp) :
    LooksLike cfg ds (.hist sp) :=
  fun o _ v => reobserve_describes cfg o (d := .hist sp) h (fun _ _ => Or.inl hu) v

theorem looksLike_of_notInit {cfg : Cfg} {ds : DS} (h : NotInit ds) : LooksLike cfg ds .notInit :=
  fun o _ v => reobserve_describes cfg o (d := .notInit) h (fun _ e => by cases e) v

theorem looksLike_of_wiping {cfg : Cfg} (hres : cfg.resumeInner = true) {ds : DS} (h : Wiping ds) :
    LooksLike cfg ds .notInit :=
  fun o ho v => reobserve_wiping cfg hres o h ho v

/-- Before-or-after for restarts, from before-or-after for abstract states. -/
theorem before_or_after {cfg : Cfg} {dsB dsA dsC : DS} {dB dA : Desc}
    (hB : LooksLike cfg dsB dB) (hA : LooksLike cfg dsA dA) (hC : LooksLike cfg dsC dB ∨ LooksLike cfg dsC dA)
    (o oB oA : Orders) (ho : OrdersOk dsC o) (hoB : OrdersOk dsB oB) (hoA : OrdersOk dsA oA) (v : Variant) :
    reobserve cfg dsC o v = reobserve cfg dsB oB v ∨ reobserve cfg dsC o v = reobserve cfg dsA oA v := by
  rcases hC with hC | hC
  · exact Or.inl ((hC o ho v).trans (hB oB hoB v).symm)
  · exact Or.inr ((hC o ho v).trans (hA oA hoA v).symm)

variable {cfg : Cfg} {ds : DS} {sp : Spec}

/-! ### Put -/

/-- Abstract state after `Put c`. -/
theorem put_crash_states (hu : cfg.Uniform) (hr : Repr cfg.freq ds sp) {m : Mem} (hm : MemOk m sp) (hs : SubsOk m)
    (hsmall : sp.certs.length + 1 < maxInt) (c : Cert) (k : Nat) (hk : k ≤ (put cfg m c).ws.length) :
    (k < (put cfg m c).ws.length ∧ Repr cfg.freq (applyWs ds ((put cfg m c).ws.take k)) sp) ∨
    (k = (put cfg m c).ws.length ∧ Repr cfg.freq (applyWs ds ((put cfg m c).ws.take k)) (sp.put c)) := by
  by_cases hadm : sp.admits c = true
  · obtain ⟨t', ht', _, hput⟩ := put_admitted cfg hm hr.facts hs hadm
    obtain ⟨hinst, _⟩ := (Spec.admits_iff sp c).1 hadm
    rw [hput] at hk ⊢
    simp only at hk ⊢
    by_cases hlt : k < (putWrites cfg.freq c t').length
    · exact Or.inl ⟨hlt, repr_put_prefix hr hinst t' hlt⟩
    · have hk' : k = (putWrites cfg.freq c t').length := by omega
      refine Or.inr ⟨hk', ?_⟩
      rw [hk', List.take_length]
      unfold Spec.put; rw [if_pos hadm]
      exact repr_put hr hadm ht' hsmall
  · have hadm' : sp.admits c = false := by simpa using hadm
    have hws : (put cfg m c).ws = [] := by
      by_cases hst : sp.first ≤ c.inst ∧ c.inst < sp.next ∧ c.chain = .ok
      · rw [put_stale cfg hm hr.facts hst.1 hst.2.1 hst.2.2]
      · obtain ⟨e, he, _⟩ := put_rejected cfg hm hr.facts hadm' hst
        rw [he]
    rw [hws] at hk ⊢
    have : k = 0 := by simpa using hk
    subst this
    refine Or.inr ⟨rfl, ?_⟩
    simp only [List.take_nil, applyWs_nil]
    unfold Spec.put; rw [if_neg hadm]; exact hr

/-! ### Create / OpenOrCreate on an uninitialised datastore -/

theorem create_crash_states (freq : Nat) (h : NotInit ds) (first : Nat) {init : Table} (hne : init ≠ []) (hc : Canon init)
    (k : Nat) (hk : k ≤ (createWrites first init).length) :
    (k < (createWrites first init).length ∧ NotInit (applyWs ds ((createWrites first init).take k))) ∨
    (k = (createWrites first init).length ∧ Repr freq (applyWs ds ((createWrites first init).take k)) ⟨first, init, []⟩) := by
  have hlen : (createWrites first init).length = 2 := rfl
  rw [hlen] at hk ⊢
  match k, hk with
  | 0, _ => exact Or.inl ⟨by omega, by simpa using h⟩
  | 1, _ => exact Or.inl ⟨by omega, notInit_create_prefix h first init⟩
  | 2, _ =>
    refine Or.inr ⟨rfl, ?_⟩
    have : (createWrites first init).take 2 = createWrites first init := by rw [← hlen, List.take_length]
    rw [this]; exact repr_create freq h first hne hc

end F3.Store
