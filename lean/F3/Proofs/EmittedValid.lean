import F3.Proofs.NoFailureRun
/-!
# Every message an honest participant emits is acceptable to the validator model (`MsgValid`)

`GuardL` (Layer B) proves the *existence* of quorum evidence behind a broadcast. Here the **attached**
justification itself is shown to be the one `MsgValid` (the model of `gpbft/validator.go`) demands:

* QUALITY: round 0, non-bottom value;
* CONVERGE: round `≥ 1`, non-bottom value, justification `ConvJust` of the previous round (strong PREPARE quorum
  for the value or strong COMMIT quorum for bottom);
* PREPARE: round 0 without justification, round `≥ 1` with a `ConvJust` justification;
* COMMIT: bottom without justification, a value with the `CommitJust` justification (strong PREPARE quorum of the
  same round for the same value);
* DECIDE: round 0, non-bottom value, justification = strong COMMIT quorum (any round) for the same value.

`Shape W t r ph v j` is the phase-specific part of `MsgValid`; `Shaped` says every broadcast of an effect list has
it. The evidence set is the same `W` as in Layer B: the validly signed votes in existence — it contains every vote
delivered to the participant (hypothesis `OpValidG W t`) and the participant's own broadcasts (hypothesis `OwnIn`).
No further votes are needed: every signer of an attached justification is a sender whose vote was *delivered*
(self-delivery included) or a signer of a justification that was delivered.

Core-only (no Mathlib), so that `F3.Props.C07` can import it.
-/
namespace F3.EmittedValid
open F3.Instance

variable {W : Votes} {me : Pid}

/-- the phase-specific part of `MsgValid`: what the validator demands of round, value and justification -/
def Shape (W : Votes) (t : Table) (r : Nat) (ph : Phase) (v : Chain) (j : Option Just) : Prop :=
  match ph with
  | .quality => r = 0 ∧ v ≠ []
  | .converge => 0 < r ∧ v ≠ [] ∧ ∃ j', j = some j' ∧ ConvJust W t r v j'
  | .prepare => (r = 0 → j = none) ∧ (0 < r → ∃ j', j = some j' ∧ ConvJust W t r v j')
  | .commit => (v = [] → j = none) ∧ (v ≠ [] → ∃ j', j = some j' ∧ CommitJust W t r v j')
  | .decide => r = 0 ∧ v ≠ [] ∧ ∃ j', j = some j' ∧ JustOk W t j' ∧ j'.phase = .commit ∧ j'.value = v
  | _ => False

/-- the message a peer receives for a broadcast request of participant `p` (ticket rank irrelevant to `MsgValid`) -/
def msgOf (p : Pid) (r : Nat) (ph : Phase) (v : Chain) (j : Option Just) : Msg :=
  { sender := p, round := r, phase := ph, value := v, just := j }

theorem msgValid_of_shape {t : Table} {p : Pid} {r : Nat} {ph : Phase} {v : Chain} {j : Option Just}
    (hw : W p r ph v) (hp : 0 < t.power p) (hs : Shape W t r ph v j) : MsgValid W t (msgOf p r ph v j) :=
  ⟨hw, hp, by cases ph <;> exact hs⟩

theorem shape_of_msgValid {t : Table} {m : Msg} (h : MsgValid W t m) : Shape W t m.round m.phase m.value m.just := by
  obtain ⟨_, _, h3⟩ := h
  revert h3
  cases m.phase <;> exact fun h => h

/-- every broadcast of an effect list has the shape the validator demands -/
def Shaped (W : Votes) (t : Table) (es : List Eff) : Prop :=
  ∀ r ph v tk j, Eff.broadcast r ph v tk j ∈ es → Shape W t r ph v j

theorem Shaped_nil {t : Table} : Shaped W t [] := by
  intro r ph v tk j hm; simp at hm

theorem Shaped_append {t : Table} {a b : List Eff} (ha : Shaped W t a) (hb : Shaped W t b) : Shaped W t (a ++ b) := by
  intro r ph v tk j hm
  rcases List.mem_append.1 hm with hm | hm
  · exact ha r ph v tk j hm
  · exact hb r ph v tk j hm

theorem not_bc_of_evs_nil {es : List Eff} (h : evs es = []) {r : Nat} {ph : Phase} {v : Chain} {tk : Bool}
    {j : Option Just} : Eff.broadcast r ph v tk j ∉ es := by
  intro hm
  have : Ev.bc r ph ∈ evs es := by
    simp only [evs, List.mem_filterMap]; exact ⟨_, hm, rfl⟩
  rw [h] at this; simp at this

theorem Shaped_of_evs_nil {t : Table} {es : List Eff} (h : evs es = []) : Shaped W t es :=
  fun _ _ _ _ _ hm => absurd hm (not_bc_of_evs_nil h)

theorem ConvJust.round_pos {t : Table} {r : Nat} {c : Chain} {j : Just} (h : ConvJust W t r c j) : 0 < r := by
  have := h.2.1; omega

/-! ### what the `begin*` functions broadcast, justification included -/

theorem beginPrepare_bc' (s : State) (now : Int) (j : Option Just) (r : Nat) (ph : Phase) (v : Chain) (tk : Bool)
    (j' : Option Just) (h : Eff.broadcast r ph v tk j' ∈ (s.beginPrepare now j).2) :
    r = s.round ∧ ph = .prepare ∧ v = s.value ∧ j' = j := by
  unfold State.beginPrepare State.alarmAfter State.resetReb at h
  simp at h
  exact ⟨h.1, h.2.1, h.2.2.1, h.2.2.2.2⟩

theorem beginCommit_bc' (s : State) (now : Int) (r : Nat) (ph : Phase) (v : Chain) (tk : Bool)
    (j' : Option Just) (h : Eff.broadcast r ph v tk j' ∈ (s.beginCommit now).2) :
    r = s.round ∧ ph = .commit ∧ v = s.value ∧ (v = [] → j' = none) ∧
      (v ≠ [] → ∃ j, j' = some j ∧
        ({ s with phase := .commit, phaseTimeout := now + s.roundTimeout } : State).resetReb.commitJust = .ok j) := by
  unfold State.beginCommit State.alarmAfter at h
  dsimp only at h
  split at h
  · rename_i he
    simp at h
    refine ⟨h.1, h.2.1, h.2.2.1, fun _ => h.2.2.2.2, fun hne => ?_⟩
    rw [h.2.2.1] at hne
    exact absurd (by simpa [State.resetReb] using he) hne
  · rename_i he
    split at h
    · rename_i j hj
      simp at h
      refine ⟨h.1, h.2.1, h.2.2.1, fun hv => ?_, fun _ => ⟨j, h.2.2.2.2, ?_⟩⟩
      · rw [h.2.2.1] at hv
        exact absurd (by simpa [State.resetReb] using hv) he
      · simpa [State.roundTimeout] using hj
    · simp at h

theorem beginDecide_bc' (s : State) (round : Nat) (r : Nat) (ph : Phase) (v : Chain) (tk : Bool)
    (j' : Option Just) (h : Eff.broadcast r ph v tk j' ∈ (s.beginDecide round).2) :
    r = 0 ∧ ph = .decide ∧ v = s.value ∧
      ∃ sg, (s.getRound round).committed.findStrongQuorumFor s.tbl s.value = .found sg ∧
        j' = some { round := round, phase := .commit, value := s.value, signers := sg } := by
  unfold State.beginDecide State.resetReb at h
  dsimp only at h
  split at h
  · rename_i sg hsg
    simp at h
    exact ⟨h.1, h.2.1, h.2.2.1, sg, by simpa [State.getRound] using hsg, h.2.2.2.2⟩
  · simp at h
  · simp at h

theorem beginConverge_bc' (s : State) (now : Int) (j : Just) (r : Nat) (ph : Phase) (v : Chain) (tk : Bool)
    (j' : Option Just) (h : Eff.broadcast r ph v tk j' ∈ (s.beginConverge now j).2) :
    r = s.round ∧ ph = .converge ∧ v = s.proposal ∧ j' = some j := by
  unfold State.beginConverge State.alarmAfter State.resetReb State.setRound at h
  dsimp only at h
  split at h
  · simp at h
  · simp at h
    exact ⟨h.1, h.2.1, h.2.2.1, h.2.2.2.2⟩

/-! ### the `try*` functions: shapes need only the invariant -/

theorem tryRebroadcast_shaped {t : Table} (s : State) (now : Int) : Shaped W t (s.tryRebroadcast now).2 :=
  Shaped_of_evs_nil (tryRebroadcast_evs s now)

theorem tryQuality_shaped {s : State} (now : Int) (h : GInv W me s) : Shaped W s.tbl (s.tryQuality now).2 := by
  intro r ph v tk j hm
  unfold State.tryQuality at hm
  dsimp only at hm
  split at hm
  · simp at hm
  · rename_i hph
    have hq : s.phase = .quality := by simpa using hph
    have hr0 : s.round = 0 := h.early (by simp [hq, Phase.toNat])
    split at hm
    · obtain ⟨hr, rfl, _, rfl⟩ := beginPrepare_bc' _ _ _ _ _ _ _ _ hm
      have hr' : r = 0 := by rw [hr]; simpa using hr0
      exact ⟨fun _ => rfl, fun hpos => by omega⟩
    · simp at hm

theorem tryConverge_shaped {s : State} (now : Int) (h : GInv W me s) : Shaped W s.tbl (s.tryConverge now).2 := by
  intro r ph v tk j hm
  unfold State.tryConverge at hm
  dsimp only at hm
  split at hm
  · simp at hm
  · split at hm
    · split at hm
      · exact absurd hm (not_bc_of_evs_nil (tryRebroadcast_evs s now))
      · simp at hm
    · split at hm
      · simp at hm
      · rename_i w hw
        split at hm
        · simp at hm
        · obtain ⟨hr, rfl, hv, rfl⟩ := beginPrepare_bc' _ _ _ _ _ _ _ _ hm
          have hr' : r = s.round := by rw [hr]; simp
          have hv' : v = w.chain := by rw [hv]
          obtain ⟨hmem, _⟩ := findBest_mem _ _ _ hw
          obtain ⟨_, hcj⟩ := (getRound_ok h.core.rounds s.round).conv w hmem
          rw [hr', hv']
          exact ⟨fun h0 => by have := ConvJust.round_pos hcj; omega, fun _ => ⟨w.just, rfl, hcj⟩⟩

/-- the justification `beginCommit` attaches is exactly the one a COMMIT of this round for this value must carry -/
theorem commitJust_cj {s : State} (hr : RoundsOK W s.tbl s.rounds) (hv : s.value ≠ []) (j : Just)
    (h : s.commitJust = .ok j) : CommitJust W s.tbl s.round s.value j := by
  unfold State.commitJust at h
  dsimp only at h
  have hcur := getRound_ok hr s.round
  have hnxt := getRound_ok hr (s.round + 1)
  split at h
  · rename_i sg hsg
    cases h
    obtain ⟨h1, h2, h3, h4⟩ := findStrongQuorumFor_spec s.tbl _ s.value sg hcur.prep.wf hsg
    exact ⟨⟨h1, h2, h3, fun i hi => by obtain ⟨x, hx, hvv⟩ := h4 i hi; exact ⟨x, hx, hvv.1⟩⟩, rfl, rfl, rfl⟩
  · cases h
  · split at h
    · rename_i j1 hj1
      cases h
      obtain ⟨e, he, hej, _, _, hkey⟩ := TallyOK.getJustOf_mem hj1
      obtain ⟨_, hcj⟩ := (hcur.comm.justs e he).2 rfl
      rw [hej, hkey hv] at hcj
      exact hcj
    · split at h
      · rename_i j2 hj2
        cases h
        obtain ⟨e, he, hej, hph, _, hkey⟩ := TallyOK.getJustOf_mem hj2
        obtain ⟨hok, hjr, hcase⟩ := (hnxt.prep.justs e he).1 rfl
        rw [hej] at hok hjr hcase
        rw [hkey hv] at hcase
        rcases hcase with ⟨hp, hvv⟩ | ⟨hp, _⟩
        · exact ⟨hok, by omega, hp, hvv⟩
        · rw [hph] at hp; cases hp
      · split at h
        · rename_i j3 hj3
          cases h
          obtain ⟨cv, hcm, hcj, hph, _, hkey⟩ := Conv.getJustOf_mem hj3
          obtain ⟨_, hok, hjr, hcase⟩ := hnxt.conv cv hcm
          rw [hcj] at hok hjr hcase
          rw [hkey hv] at hcase
          rcases hcase with ⟨hp, hvv⟩ | ⟨hp, _⟩
          · exact ⟨hok, by omega, hp, hvv⟩
          · rw [hph] at hp; cases hp
        · cases h

theorem tryPrepare_shaped {s : State} (now : Int) (h : GInv W me s) : Shaped W s.tbl (s.tryPrepare now).2 := by
  intro r ph v tk j hm
  unfold State.tryPrepare at hm
  dsimp only at hm
  split at hm
  · simp at hm
  · split at hm
    · obtain ⟨hr, rfl, hv, hbot, hjust⟩ := beginCommit_bc' _ _ _ _ _ _ _ hm
      refine ⟨hbot, fun hne => ?_⟩
      obtain ⟨j', hj', hcj⟩ := hjust hne
      refine ⟨j', hj', ?_⟩
      have hrs : RoundsOK W (s.prepareValue now).tbl (s.prepareValue now).rounds := by
        simpa using h.core.rounds
      have htb : (s.prepareValue now).tbl = s.tbl := by simp
      have hrd : (s.prepareValue now).round = s.round := by simp
      generalize s.prepareValue now = sp at *
      have hrs' : RoundsOK W (({ sp with phase := .commit, phaseTimeout := now + sp.roundTimeout } : State).resetReb).tbl
          (({ sp with phase := .commit, phaseTimeout := now + sp.roundTimeout } : State).resetReb).rounds := hrs
      have := commitJust_cj (W := W) hrs' (by rw [hv] at hne; simpa [State.resetReb] using hne) j' hcj
      rw [hr, hv, ← htb]
      simpa [State.resetReb] using this
    · split at hm
      · exact absurd hm (not_bc_of_evs_nil (tryRebroadcast_evs _ now))
      · simp at hm

/-- `beginNextRound`: the CONVERGE of the new round carries a justification of the round just left -/
theorem beginNextRound_shaped {s : State} (now : Int) (hr : RoundsOK W s.tbl s.rounds) (hp : s.proposal ≠ []) :
    Shaped W s.tbl (s.beginNextRound now).2 := by
  intro r ph v tk j hm
  unfold State.beginNextRound at hm
  dsimp only at hm
  split at hm
  · rename_i j0 hj0
    obtain ⟨rfl, rfl, rfl, rfl⟩ := beginConverge_bc' _ _ _ _ _ _ _ _ hm
    have hcj := nextRoundJust_conv (W := W) (s1 := { s with round := s.round + 1 }) hr (by simp) j0 hj0
    exact ⟨by simp, hp, j0, rfl, hcj⟩
  · simp at hm

theorem tryCommit_shaped {s : State} (now : Int) (round : Nat) (h : GInv W me s) :
    Shaped W s.tbl (s.tryCommit now round).2 := by
  unfold State.tryCommit
  dsimp only
  split
  · intro r ph v tk j hm; simp at hm
  · rename_i c hone
    split
    · rename_i hne
      have hcne : c ≠ [] := by simpa using hne
      intro r ph v tk j hm
      obtain ⟨rfl, rfl, hv, sg, hsg, rfl⟩ := beginDecide_bc' _ _ _ _ _ _ _ hm
      have hv' : v = c := hv
      rw [hv']
      have hro := getRound_ok h.core.rounds round
      obtain ⟨h1, h2, h3, h4⟩ := findStrongQuorumFor_spec s.tbl _ c sg hro.comm.wf (by simpa [State.getRound] using hsg)
      exact ⟨rfl, hcne, _, rfl, ⟨h1, h2, h3, fun i hi => by obtain ⟨x, hx, hvv⟩ := h4 i hi; exact ⟨x, hx, hvv.1⟩⟩, rfl, rfl⟩
    · split
      · exact Shaped_nil
      · exact beginNextRound_shaped now h.core.rounds h.core.propNe
  · split
    · exact Shaped_nil
    · split
      · exact beginNextRound_shaped now h.core.rounds h.core.propNe
      · split
        · have hp : (s.commitSway (s.getRound round).committed).proposal ≠ [] := by
            rcases commitSway_cases s (s.getRound round).committed with ⟨_, heq⟩ | ⟨v, hv, _, hprop⟩
            · rw [heq]; exact h.core.propNe
            · obtain ⟨hvne, _⟩ := firstNonZero_mem _ _ hv
              rcases hprop with hp | hp
              · rw [hp]; exact hvne
              · rw [hp]; exact h.core.propNe
          have := beginNextRound_shaped (W := W) (s := s.commitSway (s.getRound round).committed) now
            (by simpa using h.core.rounds) hp
          simpa using this
        · split
          · exact tryRebroadcast_shaped s now
          · exact Shaped_nil

theorem tryDecide_shaped {t : Table} (s : State) (now : Int) : Shaped W t (s.tryDecide now).2 := by
  unfold State.tryDecide
  split
  · intro r ph v tk j hm; simp at hm
  · split
    · intro r ph v tk j hm; simp [State.terminate, State.resetReb] at hm
    · intro r ph v tk j hm; simp at hm
    · intro r ph v tk j hm; simp at hm
  · exact tryRebroadcast_shaped s now

theorem tryCurrentPhase_shaped {s : State} (now : Int) (h : GInv W me s) :
    Shaped W s.tbl (s.tryCurrentPhase now).2 := by
  unfold State.tryCurrentPhase
  split
  · exact tryQuality_shaped now h
  · exact tryConverge_shaped now h
  · exact tryPrepare_shaped now h
  · exact tryCommit_shaped now s.round h
  · exact tryDecide_shaped s now
  · exact Shaped_nil
  · intro r ph v tk j hm; simp at hm

/-! ### sequencing: the invariant of the intermediate state comes from Layer B (`GOK`) -/

theorem andThen_shaped {t : Table} {s : State} {r : R} {f : State → R} (hg : GOK W me s r) (h1 : Shaped W t r.2)
    (h2 : GInv W me r.1 → Shaped W t (f r.1).2) (hown : OwnIn W me (andThen r f).2) :
    Shaped W t (andThen r f).2 := by
  unfold andThen at hown ⊢
  split
  · exact h1
  · rename_i hnf
    rw [if_neg hnf] at hown
    obtain ⟨ho1, _⟩ := OwnIn_append hown
    rcases hg with hf | hk
    · exact absurd hf hnf
    · exact Shaped_append h1 (h2 (hk ho1).1)

/-! ### receive handlers -/

theorem recvQuality_shaped {s : State} (now : Int) (m : Msg) (h : GInv W me s) :
    Shaped W s.tbl (s.recvQuality now m).2 := by
  unfold State.recvQuality
  dsimp only
  have h1 : GInv W me ({ s with quality := s.quality.receiveEachPrefix s.tbl m.sender m.value } : State) :=
    h.of_fields rfl rfl rfl rfl rfl rfl rfl rfl
  split
  · exact Shaped_nil
  · exact tryCurrentPhase_shaped now h1

theorem recvConverge_inv {s : State} (m : Msg) (j : Just) (h : GInv W me s)
    (hne : m.value ≠ []) (hj : ConvJust W s.tbl m.round m.value j) :
    GInv W me (s.setRound m.round { (s.getRound m.round) with
      converged := (s.getRound m.round).converged.receive m.sender m.value m.rank j }) := by
  have hro := getRound_ok h.core.rounds m.round
  exact h.of_rounds rfl rfl (setRound_ok h.core.rounds m.round _ ⟨hro.conv.receive _ _ _ _ hne hj, hro.prep, hro.comm⟩)
    rfl rfl rfl rfl rfl

theorem recvConverge_shaped {s : State} (now : Int) (m : Msg) (j : Just) (h : GInv W me s)
    (hne : m.value ≠ []) (hj : ConvJust W s.tbl m.round m.value j) :
    Shaped W s.tbl (s.recvConverge now m j).2 := by
  unfold State.recvConverge
  dsimp only
  exact tryCurrentPhase_shaped now (recvConverge_inv m j h hne hj)

theorem recvPrepare_inv {s : State} (m : Msg) (q : Tally) (h : GInv W me s) (hm : MsgValid W s.tbl m)
    (hph : m.phase = .prepare) (hq : (s.getRound m.round).prepared.receive s.tbl m.sender m.value = some q) :
    GInv W me (s.setRound m.round { (s.getRound m.round) with prepared := storePrepareJust q m }) := by
  have hro := getRound_ok h.core.rounds m.round
  obtain ⟨hw, hpos, hrest⟩ := hm
  rw [hph] at hrest hw
  simp only at hrest
  obtain ⟨hr0, hrpos⟩ := hrest
  have hv : VoteEv W s.tbl m.round .prepare m.sender m.value := by
    refine ⟨hw, fun _ => ?_⟩
    by_cases h0 : m.round = 0
    · exact Or.inl h0
    · obtain ⟨j, _, hcj⟩ := hrpos (by omega)
      exact Or.inr hcj.jl
  have hj : ∀ j, m.just = some j → ConvJust W s.tbl m.round m.value j := by
    intro j hmj
    by_cases h0 : m.round = 0
    · rw [hr0 h0] at hmj; cases hmj
    · obtain ⟨j', hj', hcj⟩ := hrpos (by omega)
      rw [hmj] at hj'; cases hj'; exact hcj
  exact h.of_rounds rfl rfl (setRound_ok h.core.rounds m.round _
    ⟨hro.conv, hro.prep.recvPrepare m hpos hv hj hq, hro.comm⟩) rfl rfl rfl rfl rfl

theorem recvPrepare_shaped {s : State} (now : Int) (m : Msg) (h : GInv W me s) (hm : MsgValid W s.tbl m)
    (hph : m.phase = .prepare) : Shaped W s.tbl (s.recvPrepare now m).2 := by
  unfold State.recvPrepare
  dsimp only
  split
  · intro r ph v tk j hm'; simp at hm'
  · rename_i q hq
    exact tryCurrentPhase_shaped now (recvPrepare_inv m q h hm hph hq)

theorem recvCommit_inv {s : State} (m : Msg) (q : Tally) (h : GInv W me s) (hm : MsgValid W s.tbl m)
    (hph : m.phase = .commit) (hq : (s.getRound m.round).committed.receive s.tbl m.sender m.value = some q) :
    GInv W me (s.setRound m.round { (s.getRound m.round) with committed := storeCommitJust q m }) := by
  have hro := getRound_ok h.core.rounds m.round
  obtain ⟨hw, hpos, hrest⟩ := hm
  rw [hph] at hrest hw
  simp only at hrest
  have hv : VoteEv W s.tbl m.round .commit m.sender m.value := ⟨hw, fun hc => Phase.noConfusion hc⟩
  exact h.of_rounds rfl rfl (setRound_ok h.core.rounds m.round _
    ⟨hro.conv, hro.prep, hro.comm.recvCommit m hpos hv hrest.2 hq⟩) rfl rfl rfl rfl rfl

theorem recvCommit_shaped {s : State} (now : Int) (m : Msg) (h : GInv W me s) (hm : MsgValid W s.tbl m)
    (hph : m.phase = .commit) (hnt : s.phase ≠ .terminated) (hown : OwnIn W me (s.recvCommit now m).2) :
    Shaped W s.tbl (s.recvCommit now m).2 := by
  unfold State.recvCommit at hown ⊢
  dsimp only at hown ⊢
  split
  · intro r ph v tk j hm'; simp at hm'
  · rename_i q hq
    split
    · intro r ph v tk j hm'; simp at hm'
    · rename_i hnil
      have h1 := recvCommit_inv m q h hm hph hq
      rw [hq] at hown
      simp only [hnil] at hown
      split
      · rename_i hd
        rw [if_pos hd] at hown
        have hnd : s.phase ≠ .decide := by simpa using hd
        have h5 : s.phase.toNat < 5 := by cases hp : s.phase <;> simp_all [Phase.toNat]
        have hg1 : GOK W me s ((s.setRound m.round { (s.getRound m.round) with committed := storeCommitJust q m }).tryCommit now m.round) :=
          GOK.of_eq rfl rfl (tryCommit_gok now m.round h1 (by simpa using h5))
        have hs1 : Shaped W s.tbl ((s.setRound m.round { (s.getRound m.round) with committed := storeCommitJust q m }).tryCommit now m.round).2 :=
          tryCommit_shaped now m.round h1
        split
        · rename_i hc
          rw [if_pos hc] at hown
          refine andThen_shaped hg1 hs1 (fun hi => ?_) hown
          have := tryCurrentPhase_shaped (W := W) (me := me) now hi
          rwa [tryCommit_tbl] at this
        · exact hs1
      · exact tryCurrentPhase_shaped now h1

theorem skipToDecide_shaped {s : State} (m : Msg) (hm : MsgValid W s.tbl m) (hph : m.phase = .decide) :
    Shaped W s.tbl (s.skipToDecide m.value m.just).2 := by
  intro r ph v tk j hmem
  simp [State.skipToDecide, State.resetReb] at hmem
  obtain ⟨rfl, rfl, rfl, _, rfl⟩ := hmem
  have := shape_of_msgValid hm
  rw [hph] at this
  exact ⟨rfl, this.2⟩

theorem recvDecide_shaped {s : State} (now : Int) (m : Msg) (h : GInv W me s) (hm : MsgValid W s.tbl m)
    (hph : m.phase = .decide) (hnt : s.phase ≠ .terminated) (hown : OwnIn W me (s.recvDecide now m).2) :
    Shaped W s.tbl (s.recvDecide now m).2 := by
  unfold State.recvDecide at hown ⊢
  dsimp only at hown ⊢
  split
  · intro r ph v tk j hm'; simp at hm'
  · rename_i q hq
    rw [hq] at hown
    dsimp only at hown
    obtain ⟨hw, hpos, hrest⟩ := id hm
    rw [hph] at hrest hw
    simp only at hrest
    obtain ⟨hr0, hne, j, hmj, hok, hjp, hjv⟩ := hrest
    rw [hr0] at hw
    have h1 : GInv W me ({ s with decision := q } : State) := by
      refine ⟨⟨h.core.rounds, receive_wf s.tbl s.decision q _ _ h.core.decision hpos hw hq, h.core.cands,
        h.core.inputNe, h.core.propNe, h.core.totalPos⟩, h.ownPrep, h.early⟩
    split
    · rename_i hd
      rw [if_pos hd] at hown
      have hnd : s.phase ≠ .decide := by simpa using hd
      have h5 : s.phase.toNat < 5 := by cases hp : s.phase <;> simp_all [Phase.toNat]
      have hev : ∃ r', QL W s.tbl r' .commit m.value := by
        have := hok.ql; rw [hjp, hjv] at this; exact ⟨j.round, this⟩
      have hg1 : GOK W me s (({ s with decision := q } : State).skipToDecide m.value m.just) :=
        GOK.of_eq rfl rfl (skipToDecide_gok (s := ({ s with decision := q } : State)) m h1 (by simpa using h5) hne hev)
      refine andThen_shaped hg1 (skipToDecide_shaped (s := ({ s with decision := q } : State)) m hm hph) (fun hi => ?_) hown
      have := tryCurrentPhase_shaped (W := W) (me := me) now hi
      simpa using this
    · exact tryCurrentPhase_shaped now h1

/-! ### postReceive (skip to a future round) -/

theorem postReceive_shaped {s : State} (now : Int) (round : Nat) (h : GInv W me s) :
    Shaped W s.tbl (s.postReceive now round).2 := by
  rcases postReceive_eq s now round with heq | ⟨p, hp, hpne, hlt, hnd, heq⟩
  · rw [heq]; exact Shaped_nil
  · rw [heq]
    obtain ⟨ht, hi, hr, hd, hrd, hph⟩ := skipState_fields s round p
    obtain ⟨hmem, _⟩ := findBest_mem _ _ _ hp
    obtain ⟨_, hcj⟩ := (getRound_ok h.core.rounds round).conv p hmem
    obtain ⟨_, hqne⟩ := longest_prefix_facts s.quality s.input h.core.inputNe
    intro r ph v tk j hm
    obtain ⟨rfl, rfl, rfl, rfl⟩ := beginConverge_bc' _ _ _ _ _ _ _ _ hm
    rw [hrd]
    refine ⟨ConvJust.round_pos hcj, ?_, p.just, rfl, ?_⟩
    · rcases skipState_proposal s round p with ⟨_, hpr⟩ | ⟨_, hpr | hpr⟩
      · rw [hpr]; exact hpne
      · rw [hpr]; exact h.core.propNe
      · rw [hpr]; exact hqne
    · rcases skipState_proposal s round p with ⟨_, hpr⟩ | ⟨hnp, _⟩
      · rw [hpr]; exact hcj
      · obtain ⟨hok, hjr, hcase⟩ := hcj
        rcases hcase with ⟨hpp, _⟩ | hc'
        · exact absurd hpp hnp
        · exact ⟨hok, hjr, Or.inr hc'⟩

/-! ### receiveOne, step, runs -/

/-- the shape of `receiveOne`'s result, with the link between the CONVERGE handler's argument and the message -/
theorem receiveOne_cases' (s : State) (now : Int) (m : Msg) :
    (∃ k, (s.receiveOne now m).1 = (s, [.err k])) ∨ (s.receiveOne now m).1 = (s, []) ∨
    (m.phase = .quality ∧ (s.receiveOne now m).1 = s.recvQuality now m) ∨
    (∃ j, m.phase = .converge ∧ m.value ≠ [] ∧ m.just = some j ∧ (s.receiveOne now m).1 = s.recvConverge now m j) ∨
    (m.phase = .prepare ∧ (s.receiveOne now m).1 = s.recvPrepare now m) ∨
    (m.phase = .commit ∧ s.phase ≠ .terminated ∧ (s.receiveOne now m).1 = s.recvCommit now m) ∨
    (m.phase = .decide ∧ s.phase ≠ .terminated ∧ (s.receiveOne now m).1 = s.recvDecide now m) := by
  unfold State.receiveOne
  split
  · exact Or.inl ⟨_, rfl⟩
  · exact Or.inr (Or.inl rfl)
  · rename_i hacc
    have hnt := recvPre_accept_not_terminated s m hacc
    split
    · rename_i hph; exact Or.inr (Or.inr (Or.inl ⟨hph, rfl⟩))
    · rename_i hph
      split
      · exact Or.inl ⟨_, rfl⟩
      · rename_i hne
        split
        · exact Or.inl ⟨_, rfl⟩
        · rename_i j hj
          exact Or.inr (Or.inr (Or.inr (Or.inl ⟨j, hph, by simpa using hne, hj, rfl⟩)))
    · rename_i hph; exact Or.inr (Or.inr (Or.inr (Or.inr (Or.inl ⟨hph, rfl⟩))))
    · rename_i hph; exact Or.inr (Or.inr (Or.inr (Or.inr (Or.inr (Or.inl ⟨hph, hnt, rfl⟩)))))
    · rename_i hph; exact Or.inr (Or.inr (Or.inr (Or.inr (Or.inr (Or.inr ⟨hph, hnt, rfl⟩)))))
    · exact Or.inl ⟨_, rfl⟩

theorem receiveOne_shaped {s : State} (now : Int) (m : Msg) (h : GInv W me s) (hm : MsgValid W s.tbl m)
    (hown : OwnIn W me (s.receiveOne now m).1.2) : Shaped W s.tbl (s.receiveOne now m).1.2 := by
  rcases receiveOne_cases' s now m with ⟨k, heq⟩ | heq | ⟨_, heq⟩ | ⟨j, hph, hne, hj, heq⟩ | ⟨hph, heq⟩ | ⟨hph, hnt, heq⟩ | ⟨hph, hnt, heq⟩
  · rw [heq]; intro r ph v tk j' hmem; simp at hmem
  · rw [heq]; exact Shaped_nil
  · rw [heq]; exact recvQuality_shaped now m h
  · rw [heq]
    have hsh := shape_of_msgValid hm
    rw [hph, hj] at hsh
    obtain ⟨_, _, j', hj', hcj⟩ := hsh
    cases hj'
    exact recvConverge_shaped now m j h hne hcj
  · rw [heq]; exact recvPrepare_shaped now m h hm hph
  · rw [heq] at hown ⊢; exact recvCommit_shaped now m h hm hph hnt hown
  · rw [heq] at hown ⊢; exact recvDecide_shaped now m h hm hph hnt hown

theorem step_shaped {s : State} (op : Op) (h : GInv W me s) (hq : DQ s) (hop : OpValidG W s.tbl op)
    (hown : OwnIn W me (step s op).2) : Shaped W s.tbl (step s op).2 := by
  cases op with
  | start now =>
    intro r ph v tk j hm
    unfold step State.beginQuality State.alarmAfter State.resetReb at hm
    dsimp only at hm
    split at hm
    · simp at hm
    · rename_i hph
      have hi : s.phase = .initial := by simpa using hph
      simp at hm
      obtain ⟨rfl, rfl, rfl, _, _⟩ := hm
      exact ⟨h.early (by simp [hi, Phase.toNat]), h.core.propNe⟩
  | alarm now => exact tryCurrentPhase_shaped now h
  | recv now m =>
    unfold step at hown ⊢
    dsimp only at hown ⊢
    split
    · intro r ph v tk j hm; simp at hm
    · rename_i hst
      rw [if_neg hst] at hown
      have hg := receiveOne_gok (me := me) now m h hop
      have hs1 := fun ho => receiveOne_shaped (me := me) now m h hop ho
      have hti := receiveOne_tbl_input s now m
      have hterm := fun hnf => receiveOne_term now m hq hnf
      generalize s.receiveOne now m = ro at *
      obtain ⟨r, changed⟩ := ro
      dsimp only at *
      split
      · rename_i hf
        rw [if_pos hf] at hown
        exact hs1 hown
      · rename_i hnf
        rw [if_neg hnf] at hown
        have hnf' : hasFailure r.2 = false := by simpa using hnf
        split
        · rename_i hch
          rw [if_pos hch] at hown
          have ho1 : OwnIn W me r.2 := by
            unfold andThen at hown
            rw [if_neg hnf] at hown
            exact (OwnIn_append hown).1
          refine andThen_shaped hg (hs1 ho1) (fun hi => ?_) hown
          rw [← hti.1]
          by_cases ht1 : r.1.phase = .terminated
          · have hst' : s.phase ≠ .terminated := by simpa using hst
            rcases hterm hnf' ht1 with h' | h'
            · exact absurd h' hst'
            · have hr0 : m.round = 0 := (MsgValid.msgOk (W := W) hop) h'
              rw [postReceive_noop _ _ _ (by omega)]
              exact Shaped_nil
          · exact postReceive_shaped now m.round hi
        · rename_i hch
          rw [if_neg hch] at hown
          exact hs1 hown

/-- **Run level, failure-free runs.** From any state satisfying the Layer-B invariant, over validated messages,
with the participant's broadcasts in `W`: every broadcast has the shape the validator demands. -/
theorem runFrom_shaped {s : State} (ops : List Op) (h : GInv W me s) (hq : DQ s)
    (hops : ∀ op ∈ ops, OpValidG W s.tbl op) (hown : OwnIn W me (runFrom s ops).2)
    (hnf : hasFailure (runFrom s ops).2 = false) : Shaped W s.tbl (runFrom s ops).2 := by
  induction ops generalizing s with
  | nil => simpa [runFrom] using (Shaped_nil (W := W) (t := s.tbl))
  | cons op ops ih =>
    rw [runFrom_cons] at hown hnf ⊢
    simp only [hasFailure_append, Bool.or_eq_false_iff] at hnf
    obtain ⟨ho1, ho2⟩ := OwnIn_append hown
    have hopv := hops op (by simp)
    have hmsg : OpOk op := by
      cases op with
      | recv now m => exact MsgValid.msgOk (W := W) hopv
      | start _ => trivial
      | alarm _ => trivial
    have hs1 := step_shaped (me := me) op h hq hopv ho1
    rcases step_gok (me := me) op h hq hopv with hf | hk
    · exact absurd (hf.symm.trans hnf.1) (by decide)
    · obtain ⟨hi1, _⟩ := hk ho1
      have hq1 : DQ (step s op).1 := by
        rcases step_ok s op hq hmsg with hf | ⟨_, hq'⟩
        · exact absurd (hf.symm.trans hnf.1) (by decide)
        · exact hq'
      have htb := step_tbl s op
      have := ih hi1 hq1 (fun o ho => by rw [htb]; exact hops o (by simp [ho])) ho2 hnf.2
      rw [htb] at this
      exact Shaped_append hs1 this

/-- a broadcast is not an error effect -/
theorem bc_mem_filter_nonErr {es : List Eff} {r : Nat} {ph : Phase} {v : Chain} {tk : Bool} {j : Option Just} :
    Eff.broadcast r ph v tk j ∈ es.filter nonErr ↔ Eff.broadcast r ph v tk j ∈ es := by
  rw [List.mem_filter]
  exact ⟨fun h => h.1, fun h => ⟨h, rfl⟩⟩

/-- every broadcast of a validated run has the shape the validator demands (no power hypothesis) -/
theorem run_shaped (cfg : Cfg) (t : Table) (input : Chain) (W : Votes) (p : Pid) (now0 : Int) (ops : List Op)
    (hin : input ≠ []) (hT : 0 < t.total)
    (hstart : ∀ op ∈ ops, op.isStart = false)
    (hvalid : ∀ op ∈ ops, foreignOp op = true ∨ OpValidG W t op)
    (hown : ∀ r ph v tk j, Eff.broadcast r ph v tk j ∈ (run (init cfg t input) (.start now0 :: ops)).2 → W p r ph v) :
    Shaped W t (run (init cfg t input) (.start now0 :: ops)).2 := by
  have hok := run_nf cfg t input W now0 ops hin hT (fun op hop => ⟨hstart op hop, hvalid op hop⟩)
  obtain ⟨ops', h1, h2, _, h4⟩ := clean_runI (OpValidG W t) _ _ hok (by
    intro op hop
    rcases List.mem_cons.1 hop with rfl | hop
    · exact Or.inr trivial
    · exact hvalid op hop)
  have hown' : OwnIn W p (runFrom (init cfg t input) ops').2 := by
    intro r ph v tk j hm
    rw [h4, bc_mem_filter_nonErr] at hm
    exact hown r ph v tk j hm
  have hsh := runFrom_shaped (W := W) (me := p) ops' (GInv_init W p cfg t input hin hT) (DQ_init _ _ _) h1 hown' h2
  intro r ph v tk j hm
  have hm' : Eff.broadcast r ph v tk j ∈ (runFrom (init cfg t input) ops').2 := by
    rw [h4, bc_mem_filter_nonErr]; exact hm
  exact hsh r ph v tk j hm'

/-- **`emitted_valid`, run level.** For every configuration, power table with positive total, non-empty input, every
set `W` of existing votes and every run of one `Start` followed by alarms and deliveries, each delivered message being
foreign (other instance / supplemental data: refused at the door) or validated w.r.t. `W`; if `W` contains the
participant's own broadcasts (one direction of unforgeability) and the participant has positive power: **every**
broadcast request of the run, as received by a peer, is accepted by the validator model — w.r.t. the *same* `W`. -/
theorem emitted_valid_run (cfg : Cfg) (t : Table) (input : Chain) (W : Votes) (p : Pid) (now0 : Int) (ops : List Op)
    (hin : input ≠ []) (hT : 0 < t.total) (hpos : 0 < t.power p)
    (hstart : ∀ op ∈ ops, op.isStart = false)
    (hvalid : ∀ op ∈ ops, foreignOp op = true ∨ OpValidG W t op)
    (hown : ∀ r ph v tk j, Eff.broadcast r ph v tk j ∈ (run (init cfg t input) (.start now0 :: ops)).2 → W p r ph v) :
    ∀ r ph v tk j, Eff.broadcast r ph v tk j ∈ (run (init cfg t input) (.start now0 :: ops)).2 →
      MsgValid W t (msgOf p r ph v j) := fun r ph v tk j hm =>
  msgValid_of_shape (hown r ph v tk j hm) hpos
    (run_shaped cfg t input W p now0 ops hin hT hstart hvalid hown r ph v tk j hm)

end F3.EmittedValid
