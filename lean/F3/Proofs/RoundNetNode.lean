import F3.Proofs.RoundNetTally
import F3.Proofs.RoundNetDefs
import F3.Proofs.NoFailure
/-!
# One honest node in a round `r ≥ 1` whose best ticket's value is admissible everywhere (node level of `round_r_decides`)

The architecture is that of `F3/Proofs/SyncNode.lean` (round 0, unanimous input), with CONVERGE in the place of QUALITY:
`RInv` is the phase-independent shape of a member's state when every *relevant* message it has been handed since the
start of round `r` is a CONVERGE of round `r` of a member `q` (value `val q`, ticket `rk q`, justification `jst q`) or a
PREPARE / COMMIT of round `r` / DECIDE for `v = val w`, `w` the strictly best ticket holder; `PIR` the phase-dependent
part ("had the node held a strong quorum it would have moved on", and in CONVERGE: `v` is still admissible); `GoodR`
what every API call then guarantees; `TransR` the phase changes and what they put on the wire.
-/
namespace F3.Liveness
open F3.Instance F3.Net F3.NetRanked F3.Sync

/-- the standing data and hypotheses of round `r` -/
structure RCtx where
  rankOf : Pid → Nat → Nat
  t : Table
  H : List Pid
  r : Nat
  b : Nat
  val : Pid → Chain
  jst : Pid → Just
  w : Pid
  rpos : 1 ≤ r
  tpos : 0 < t.total
  nodup : H.Nodup
  inTbl : ∀ x ∈ H, ∃ i, t.index? x = some i
  strong : strongQ t (sumP t H) = true
  wH : w ∈ H
  best : ∀ q ∈ H, q = w ∨ rankOf w r < rankOf q r
  base : ∀ q ∈ H, (val q).head? = some b

namespace RCtx
/-- the value of the best ticket holder -/
def v (g : RCtx) : Chain := g.val g.w
def rk (g : RCtx) (q : Pid) : Nat := g.rankOf q g.r

theorem val_ne (g : RCtx) {q : Pid} (hq : q ∈ g.H) : g.val q ≠ [] := by
  intro h
  have := g.base q hq
  rw [h] at this
  cases this

theorem vne (g : RCtx) : g.v ≠ [] := g.val_ne g.wH
theorem vbase (g : RCtx) : g.v.head? = some g.b := g.base g.w g.wH
theorem ctx (g : RCtx) : Ctx g.t g.v g.H := ⟨g.vne, g.nodup, g.inTbl, g.strong⟩
theorem Hne (g : RCtx) : g.H ≠ [] := List.ne_nil_of_mem g.wH
end RCtx

/-! ## wire messages of the round -/

/-- CONVERGE(r) of a member with its own value, ticket and justification; PREPARE(r) / COMMIT(r) / DECIDE for `v` -/
def ShapeR (g : RCtx) (m : Msg) : Prop :=
  m.suppOk = true ∧ m.instOk = true ∧ m.sender ∈ g.H ∧
  match m.phase with
  | .converge => m.round = g.r ∧ m.value = g.val m.sender ∧ m.rank = g.rk m.sender ∧ m.just = some (g.jst m.sender)
  | .prepare => m.round = g.r ∧ m.value = g.v
  | .commit => m.round = g.r ∧ m.value = g.v ∧ ∃ j, m.just = some j
  | .decide => m.round = 0 ∧ m.value = g.v
  | _ => False

def mkR (g : RCtx) (p : Pid) (rd : Nat) (ph : Phase) (j : Option Just) : Msg :=
  { sender := p, round := rd, phase := ph, value := g.v, rank := 0, just := j }

/-- what a single API call does to the phase, and what it puts on the wire -/
inductive TransR (g : RCtx) (p : Pid) : Phase → Phase → List Msg → Prop
  | same (a : Phase) : TransR g p a a []
  | c2p (j : Just) : TransR g p .converge .prepare [mkR g p g.r .prepare (some j)]
  | p2c (j : Just) : TransR g p .prepare .commit [mkR g p g.r .commit (some j)]
  | x2d (a b : Phase) (ha : a = .converge ∨ a = .prepare ∨ a = .commit) (hb : b = .decide ∨ b = .terminated)
      (j : Option Just) : TransR g p a b [mkR g p 0 .decide j]
  | d2t : TransR g p .decide .terminated []

theorem sentR_append (rankOf : Pid → Nat → Nat) (p : Pid) (a b : List Eff) :
    sentR rankOf p (a ++ b) = sentR rankOf p a ++ sentR rankOf p b := by
  unfold sentR; simp

theorem quiet_sentR (rankOf : Pid → Nat → Nat) (p : Pid) (es : List Eff) (h : es.all quiet = true) :
    sentR rankOf p es = [] := by
  induction es with
  | nil => rfl
  | cons e es ih =>
    simp only [List.all_cons, Bool.and_eq_true] at h
    rw [show e :: es = [e] ++ es from rfl, sentR_append, ih h.2]
    cases e <;> simp_all [quiet, sentR, msgOfR]

theorem tryRebroadcast_candidates (s : State) (now : Int) : (s.tryRebroadcast now).1.candidates = s.candidates := by
  unfold State.tryRebroadcast State.resetReb
  dsimp only
  repeat' (first | rfl | split)

theorem tryRebroadcast_proposal (s : State) (now : Int) : (s.tryRebroadcast now).1.proposal = s.proposal := by
  unfold State.tryRebroadcast State.resetReb
  dsimp only
  repeat' (first | rfl | split)

/-! ## the invariants -/

def sendersR (g : RCtx) (s : State) : Phase → List Pid
  | .converge => (s.getRound g.r).converged.senders
  | .prepare => (s.getRound g.r).prepared.senders
  | .commit => (s.getRound g.r).committed.senders
  | .decide => s.decision.senders
  | _ => []

theorem sendersR_core (g : RCtx) {s s' : State} (h : Core s s') (ph : Phase) : sendersR g s' ph = sendersR g s ph := by
  obtain ⟨_, _, _, _, _, hd, _⟩ := h.fields
  cases ph <;> simp only [sendersR, h.getRound, hd]

/-- phase-independent shape of the state -/
structure RInv (g : RCtx) (s : State) : Prop where
  tbl : s.tbl = g.t
  base : s.input.head? = some g.b
  round : s.round = g.r
  next : s.getRound (g.r + 1) = {}
  conv : ConvOK g.val g.rk (s.getRound g.r).converged
  convSub : ∀ x ∈ (s.getRound g.r).converged.senders, x ∈ g.H
  convJust : ∀ cv ∈ (s.getRound g.r).converged.values, ∃ q ∈ g.H, cv.chain = g.val q ∧ cv.just = g.jst q
  prep : UTally g.t g.v g.H (s.getRound g.r).prepared
  comm : UTally g.t g.v g.H (s.getRound g.r).committed
  dec : UTally g.t g.v g.H s.decision
  term : ∀ d, s.termination = some d → d.value = g.v

theorem RInv.core {g : RCtx} {s s' : State} (h : RInv g s) (hc : Core s s') : RInv g s' := by
  obtain ⟨h1, h2, h3, _, _, h6, h7⟩ := hc.fields
  have hg := hc.getRound g.r
  have hn := hc.getRound (g.r + 1)
  exact ⟨h1 ▸ h.tbl, h2 ▸ h.base, h3 ▸ h.round, hn ▸ h.next, hg ▸ h.conv, hg ▸ h.convSub, hg ▸ h.convJust,
    hg ▸ h.prep, hg ▸ h.comm, h6 ▸ h.dec, h7 ▸ h.term⟩

/-! the phase-dependent facts: a node that holds a strong quorum has moved on -/
def B2 (g : RCtx) (p : Pid) (s : State) : Prop := p ∉ (s.getRound g.r).prepared.senders
def B2' (g : RCtx) (p : Pid) (s : State) : Prop :=
  p ∈ (s.getRound g.r).prepared.senders → (s.getRound g.r).prepared.hasStrongFor g.v = false
def B3 (g : RCtx) (s : State) : Prop := (s.getRound g.r).committed.hasStrongFor g.v = false
def B4 (s : State) : Prop := s.decision.senders = []
def B5 (g : RCtx) (s : State) : Prop := s.decision.hasStrongFor g.v = false
/-- `v` passes the filter of `tryConverge` under the justification of every member that sends it -/
def Adm (g : RCtx) (s : State) : Prop := ∀ q ∈ g.H, g.val q = g.v → admAt s g.v (g.jst q) = true

def PIR (g : RCtx) (p : Pid) (s : State) : Phase → Prop
  | .converge => B2 g p s ∧ B3 g s ∧ B4 s ∧ Adm g s
  | .prepare => s.proposal = g.v ∧ B2' g p s ∧ B3 g s ∧ B4 s
  | .commit => B3 g s ∧ B4 s
  | .decide => B5 g s
  | .terminated => ∃ d, s.termination = some d
  | _ => False

theorem B2.core {g : RCtx} {p : Pid} {s s' : State} (h : B2 g p s) (hc : Core s s') : B2 g p s' := by
  unfold B2; rw [hc.getRound]; exact h
theorem B2'.core {g : RCtx} {p : Pid} {s s' : State} (h : B2' g p s) (hc : Core s s') : B2' g p s' := by
  unfold B2'; rw [hc.getRound]; exact h
theorem B3.core {g : RCtx} {s s' : State} (h : B3 g s) (hc : Core s s') : B3 g s' := by
  unfold B3; rw [hc.getRound]; exact h
theorem B4.core {s s' : State} (h : B4 s) (hc : Core s s') : B4 s' := by
  unfold B4; rw [hc.fields.2.2.2.2.2.1]; exact h
theorem B5.core {g : RCtx} {s s' : State} (h : B5 g s) (hc : Core s s') : B5 g s' := by
  unfold B5; rw [hc.fields.2.2.2.2.2.1]; exact h

theorem Adm.of_eq {g : RCtx} {s s' : State} (h : Adm g s) (hcand : s'.candidates = s.candidates)
    (htbl : s'.tbl = s.tbl) (hround : s'.round = s.round) (hprev : s'.getRound (s.round - 1) = s.getRound (s.round - 1)) :
    Adm g s' := by
  intro q hq hv
  have := h q hq hv
  unfold admAt State.isCandidate at this ⊢
  rw [hcand, htbl, hround, hprev]
  exact this

theorem Adm.core {g : RCtx} {s s' : State} (h : Adm g s) (hc : Core s s') (hcand : s'.candidates = s.candidates) :
    Adm g s' :=
  h.of_eq hcand hc.fields.1 hc.fields.2.2.1 (hc.getRound _)

/-- a call that leaves everything but timers / rebroadcast bookkeeping alone -/
theorem PIR.core_stay {g : RCtx} {p : Pid} {s s' : State} {ph : Phase} (h : PIR g p s ph) (hc : Core s s')
    (hcand : s'.candidates = s.candidates) (hprop : s'.proposal = s.proposal) : PIR g p s' ph := by
  cases ph
  · exact h
  · exact h
  · exact ⟨h.1.core hc, h.2.1.core hc, h.2.2.1.core hc, h.2.2.2.core hc hcand⟩
  · exact ⟨hprop ▸ h.1, h.2.1.core hc, h.2.2.1.core hc, h.2.2.2.core hc⟩
  · exact ⟨h.1.core hc, h.2.core hc⟩
  · exact B5.core h hc
  · obtain ⟨d, hd⟩ := h
    exact ⟨d, by rw [hc.fields.2.2.2.2.2.2]; exact hd⟩

/-- what one call of a model function guarantees -/
structure GoodR (g : RCtx) (p : Pid) (s : State) (r : R) : Prop where
  nofail : hasFailure r.2 = false
  inv : RInv g r.1
  pi : PIR g p r.1 r.1.phase
  mono : ∀ ph x, x ∈ sendersR g s ph → x ∈ sendersR g r.1 ph
  trans : TransR g p s.phase r.1.phase (sentR g.rankOf p r.2)

section
variable {g : RCtx}

theorem GoodR.of_core {p : Pid} {s s' : State} {es : List Eff} (hs : RInv g s) (hc : Core s s')
    (hpi : PIR g p s' s'.phase) (hnf : hasFailure es = false)
    (htr : TransR g p s.phase s'.phase (sentR g.rankOf p es)) : GoodR g p s (s', es) :=
  ⟨hnf, hs.core hc, hpi, fun ph x hx => by rw [sendersR_core g hc]; exact hx, htr⟩

theorem GoodR.pre {p : Pid} {s s1 : State} {r : R} (hph : s.phase = s1.phase)
    (hm : ∀ ph x, x ∈ sendersR g s ph → x ∈ sendersR g s1 ph) (gd : GoodR g p s1 r) : GoodR g p s r :=
  ⟨gd.nofail, gd.inv, gd.pi, fun ph x hx => gd.mono ph x (hm ph x hx), hph ▸ gd.trans⟩

theorem GoodR.stay {p : Pid} {s : State} (hs : RInv g s) (hpi : PIR g p s s.phase) : GoodR g p s (s, []) :=
  GoodR.of_core hs (Core.refl s) hpi rfl (TransR.same _)

theorem GoodR.reb {p : Pid} {s : State} (now : Int) (hs : RInv g s) (hpi : PIR g p s s.phase) :
    GoodR g p s (s.tryRebroadcast now) := by
  have hq := tryRebroadcast_quiet s now
  have hph := tryRebroadcast_phase' s now
  refine GoodR.of_core (s' := (s.tryRebroadcast now).1) (es := (s.tryRebroadcast now).2) hs
    (tryRebroadcast_core s now) ?_ (quiet_nofail _ hq) ?_
  · rw [hph]
    exact hpi.core_stay (tryRebroadcast_core s now) (tryRebroadcast_candidates s now) (tryRebroadcast_proposal s now)
  · rw [quiet_sentR _ p _ hq, hph]
    exact TransR.same _

/-! ## CONVERGE -/

theorem tryConverge_stay (s : State) (now : Int) (hph : s.phase = .converge) (hel : s.phaseTimeoutElapsed now = false) :
    s.tryConverge now = if s.shouldRebroadcast now = true then s.tryRebroadcast now else (s, []) := by
  unfold State.tryConverge
  rw [if_neg (by simp [hph]), if_pos (by simp [hel])]

theorem tryConverge_go (s : State) (now : Int) (hph : s.phase = .converge) (hel : s.phaseTimeoutElapsed now = true)
    (cvw : ConvVal) (hfb : (s.getRound s.round).converged.findBest (admissible s) = some cvw)
    (hne : cvw.chain.isEmpty = false) :
    ∃ cs, s.tryConverge now =
      ({ s with candidates := cs, proposal := cvw.chain, value := cvw.chain } : State).beginPrepare now (some cvw.just) := by
  obtain ⟨cs, hcs⟩ := addCandidate_only s cvw.chain
  refine ⟨cs, ?_⟩
  have hfb' : (s.getRound s.round).converged.findBest (fun cv => s.isCandidate cv.chain ||
      (cv.just.phase == .prepare && (s.getRound (s.round - 1)).committed.couldReach s.tbl cv.chain true)) = some cvw := hfb
  unfold State.tryConverge
  rw [if_neg (by simp [hph]), if_neg (by simp [hel])]
  dsimp only
  rw [hfb']
  dsimp only
  rw [if_neg (by simp [hne]), hcs]

theorem tryConverge_good {p : Pid} {s : State} (now : Int) (hs : RInv g s)
    (hph : s.phase = .converge) (hpi : PIR g p s .converge)
    (hsync : s.phaseTimeoutElapsed now = true → ∀ h ∈ g.H, h ∈ (s.getRound g.r).converged.senders) :
    GoodR g p s (s.tryConverge now) := by
  cases hel : s.phaseTimeoutElapsed now
  · rw [tryConverge_stay s now hph hel]
    split
    · exact GoodR.reb now hs (by rw [hph]; exact hpi)
    · exact GoodR.stay hs (by rw [hph]; exact hpi)
  · have hw : g.w ∈ (s.getRound g.r).converged.senders := hsync hel g.w g.wH
    have hbest : ∀ q ∈ (s.getRound g.r).converged.senders, q = g.w ∨ g.rk g.w < g.rk q :=
      fun q hq => g.best q (hs.convSub q hq)
    obtain ⟨cvw, hcvw, hch, _, hlow⟩ := hs.conv.best g.w hw hbest
    have hadm : ∀ cv ∈ (s.getRound g.r).converged.values, cv.chain = g.val g.w → admissible s cv = true := by
      intro cv hcv hcc
      obtain ⟨q, hq, h1, h2⟩ := hs.convJust cv hcv
      rw [admissible_eq, h2, hcc]
      exact hpi.2.2.2 q hq (h1.symm.trans hcc)
    have hfb : (s.getRound s.round).converged.findBest (admissible s) = some cvw := by
      rw [hs.round]
      exact findBest_lowest _ _ cvw hcvw (hadm cvw hcvw hch) (fun cv hcv => (hlow cv hcv).imp id Or.inr)
    have hne : cvw.chain.isEmpty = false := by rw [hch]; exact isEmpty_false_of_ne g.vne
    obtain ⟨cs, heq⟩ := tryConverge_go s now hph hel cvw hfb hne
    rw [heq, hch]
    show GoodR g p s (_, [_, _, Eff.broadcast s.round .prepare g.v false (some cvw.just)])
    refine GoodR.of_core hs (by core_rfl) ?_ rfl ?_
    · exact ⟨rfl, fun h => absurd h (hpi.1.core (by core_rfl)), hpi.2.1.core (by core_rfl), hpi.2.2.1.core (by core_rfl)⟩
    · show TransR g p s.phase .prepare (sentR g.rankOf p [_, _, Eff.broadcast s.round .prepare g.v false (some cvw.just)])
      rw [hph, hs.round]
      exact TransR.c2p _

/-! ## PREPARE -/

theorem commitJust_okR {s : State} (hs : RInv g s) (hprop : s.proposal = g.v) (hv : s.value = g.v)
    (h : (s.prepFoundQuorum || s.prepFoundJust) = true) : ∃ j, s.commitJust = .ok j := by
  unfold State.commitJust
  dsimp only
  rw [hs.round, hs.tbl, hv]
  by_cases hq : (s.getRound g.r).prepared.hasStrongFor g.v = true
  · obtain ⟨sg, hsg⟩ := hs.prep.fsqf g.ctx hq
    rw [hsg]
    exact ⟨_, rfl⟩
  · have hq' : (s.getRound g.r).prepared.hasStrongFor g.v = false := by simpa using hq
    rw [fsqf_none g.t _ g.v hq']
    dsimp only
    have hfj : ((s.getRound g.r).committed.getJustOf .prepare g.v).isSome = true := by
      unfold State.prepFoundQuorum State.prepFoundJust at h
      rw [hs.round, hprop, hq', hs.next] at h
      rw [getJustOf_empty, conv_getJustOf_empty] at h
      simpa using h
    cases hg : (s.getRound g.r).committed.getJustOf .prepare g.v with
    | none => rw [hg] at hfj; cases hfj
    | some j => exact ⟨j, rfl⟩

theorem tryPrepare_goodR {p : Pid} {s : State} (now : Int) (hs : RInv g s)
    (hph : s.phase = .prepare) (hprop : s.proposal = g.v) (h3 : B3 g s) (h4 : B4 s) :
    GoodR g p s (s.tryPrepare now) := by
  have hnp : s.prepNotPossible = false := by
    unfold State.prepNotPossible
    rw [hs.round, hs.tbl, hprop, hs.prep.couldReach]; rfl
  have hfq : s.prepFoundQuorum = (s.getRound g.r).prepared.hasStrongFor g.v := by
    unfold State.prepFoundQuorum; rw [hs.round, hprop]
  by_cases hfound : (s.prepFoundQuorum || s.prepFoundJust) = true
  · have hcond : (s.prepFoundQuorum || s.prepFoundJust || s.prepNotPossible || s.prepComplete now) = true := by
      rw [hfound]; rfl
    rw [tryPrepare_go s now hph hcond, prepareValue_found s now hfound]
    have hs' : RInv g ({ s with value := s.proposal } : State) := hs.core (by core_rfl)
    obtain ⟨j, hj⟩ := commitJust_okR hs' hprop hprop hfound
    rw [beginCommit_eq _ now j (by show s.proposal.isEmpty = false; rw [hprop]; exact isEmpty_false_of_ne g.vne) hj]
    refine GoodR.of_core hs (by core_rfl) ⟨h3.core (by core_rfl), h4.core (by core_rfl)⟩ rfl ?_
    show TransR g p s.phase .commit (sentR g.rankOf p [_, _, Eff.broadcast s.round .commit s.proposal false (some j)])
    rw [hph, hs.round, hprop]
    exact TransR.p2c j
  · have hfound' : (s.prepFoundQuorum || s.prepFoundJust) = false := by simpa using hfound
    have hnq : (s.getRound g.r).prepared.hasStrongFor g.v = false := by
      rw [← hfq]
      cases hx : s.prepFoundQuorum
      · rfl
      · rw [hx] at hfound'; simp at hfound'
    have hpc : s.prepComplete now = false := by
      cases hx : s.prepComplete now
      · rfl
      · exfalso
        unfold State.prepComplete at hx
        simp only [Bool.and_eq_true] at hx
        have h2 := hx.2
        rw [hs.round, hs.tbl] at h2
        have := hs.prep.strong_of_fromStrong g.tpos h2
        rw [hnq] at this; cases this
    have hcond : (s.prepFoundQuorum || s.prepFoundJust || s.prepNotPossible || s.prepComplete now) = false := by
      rw [hfound', hnp, hpc]; rfl
    rw [tryPrepare_stay s now hph hcond]
    have hpi : PIR g p s s.phase := by rw [hph]; exact ⟨hprop, fun _ => hnq, h3, h4⟩
    split
    · exact GoodR.reb now hs hpi
    · exact GoodR.stay hs hpi

/-! ## COMMIT -/

theorem tryCommit_none_commitR (s : State) (now : Int) (hph : s.phase = .commit)
    (h : (s.getRound s.round).committed.findStrongQuorumValue = .none) (hb : s.foundJustBottom s.round = false)
    (hc : (s.phaseTimeoutElapsed now && (s.getRound s.round).committed.fromStrong s.tbl) = false) :
    s.tryCommit now s.round = if s.shouldRebroadcast now = true then s.tryRebroadcast now else (s, []) := by
  unfold State.tryCommit
  dsimp only
  rw [h]
  dsimp only
  rw [if_neg (by simp [hph]), if_neg (by simp [hb]), if_neg (by simp [hc])]

theorem B5_of_B4 {s : State} (hs : RInv g s) (h4 : B4 s) : B5 g s := by
  unfold B5
  rw [hs.dec.hasStrongFor]
  unfold B4 at h4
  simp [h4]

/-- `tryCommit` for round `r`, from CONVERGE, PREPARE or COMMIT; `hpi`: the rest of the phase invariant -/
theorem tryCommit_goodR {p : Pid} {s : State} (now : Int) (hs : RInv g s)
    (hph : s.phase = .converge ∨ s.phase = .prepare ∨ s.phase = .commit) (h4 : B4 s)
    (hpi : B3 g s → PIR g p s s.phase) :
    GoodR g p s (s.tryCommit now g.r) ∧
      ((s.tryCommit now g.r = (s, []) ∧ B3 g s) ∨ s.phase = .commit ∨ (s.tryCommit now g.r).1.phase = .decide) := by
  have hv := hs.comm.fsqv
  by_cases hq : (s.getRound g.r).committed.hasStrongFor g.v = true
  · rw [if_pos hq] at hv
    rw [tryCommit_one s now g.r g.v (isEmpty_false_of_ne g.vne) hv]
    obtain ⟨sg, hsg⟩ := hs.comm.fsqf g.ctx hq
    have hsg' : (State.getRound ({ s with value := g.v } : State) g.r).committed.findStrongQuorumFor
        ({ s with value := g.v } : State).tbl ({ s with value := g.v } : State).value = .found sg := by
      show (s.getRound g.r).committed.findStrongQuorumFor s.tbl g.v = .found sg
      rw [hs.tbl]; exact hsg
    rw [beginDecide_eq _ g.r sg hsg']
    refine ⟨GoodR.of_core hs (by core_rfl) ((B5_of_B4 hs h4).core (by core_rfl)) rfl ?_, Or.inr (Or.inr rfl)⟩
    show TransR g p s.phase .decide (sentR g.rankOf p [_, Eff.broadcast 0 .decide g.v false (some _)])
    exact TransR.x2d _ _ hph (Or.inl rfl) _
  · have hq' : B3 g s := by simpa [B3] using hq
    rw [if_neg hq] at hv
    by_cases hc : s.phase = .commit
    · refine ⟨?_, Or.inr (Or.inl hc)⟩
      have hb : s.foundJustBottom s.round = false := by
        unfold State.foundJustBottom
        rw [hs.round, hs.next, getJustOf_empty, conv_getJustOf_empty]
        rfl
      have hcs : (s.phaseTimeoutElapsed now && (s.getRound s.round).committed.fromStrong s.tbl) = false := by
        cases hx : s.phaseTimeoutElapsed now
        · rfl
        · cases hy : (s.getRound s.round).committed.fromStrong s.tbl
          · rfl
          · exfalso
            rw [hs.round, hs.tbl] at hy
            exact hq (hs.comm.strong_of_fromStrong g.tpos hy)
      have hv' : (s.getRound s.round).committed.findStrongQuorumValue = .none := by rw [hs.round]; exact hv
      have := tryCommit_none_commitR s now hc hv' hb hcs
      rw [hs.round] at this
      rw [this]
      split
      · exact GoodR.reb now hs (hpi hq')
      · exact GoodR.stay hs (hpi hq')
    · rw [tryCommit_none_other s now g.r hc hv]
      exact ⟨GoodR.stay hs (hpi hq'), Or.inl ⟨rfl, hq'⟩⟩

/-! ## DECIDE -/

theorem tryDecide_goodR {p : Pid} {s : State} (now : Int) (hs : RInv g s)
    (hph : s.phase = .decide) : GoodR g p s (s.tryDecide now) := by
  have hv := hs.dec.fsqv
  by_cases hq : s.decision.hasStrongFor g.v = true
  · rw [if_pos hq] at hv
    obtain ⟨sg, hsg⟩ := hs.dec.fsqf g.ctx hq
    rw [← hs.tbl] at hsg
    rw [tryDecide_one s now g.v sg hv hsg]
    unfold State.terminate State.resetReb
    dsimp only
    refine ⟨rfl, ⟨hs.tbl, hs.base, hs.round, hs.next, hs.conv, hs.convSub, hs.convJust, hs.prep, hs.comm, hs.dec, ?_⟩,
      ⟨_, rfl⟩, fun _ _ hx => hx, ?_⟩
    · intro d hd
      cases hd
      rfl
    · show TransR g p s.phase .terminated []
      rw [hph]; exact TransR.d2t
  · rw [if_neg hq] at hv
    rw [tryDecide_none s now hv]
    exact GoodR.reb now hs (by rw [hph]; simpa [PIR, B5] using hq)

/-! ## `tryCurrentPhase` -/

/-- what `tryCurrentPhase` needs of the phase invariant (the rest it re-establishes itself) -/
def WPIR (g : RCtx) (p : Pid) (s : State) : Phase → Prop
  | .converge => B2 g p s ∧ B3 g s ∧ B4 s ∧ Adm g s
  | .prepare => s.proposal = g.v ∧ B3 g s ∧ B4 s
  | .commit => B4 s
  | .decide => True
  | .terminated => ∃ d, s.termination = some d
  | _ => False

theorem PIR.weak {p : Pid} {s : State} {ph : Phase} (h : PIR g p s ph) : WPIR g p s ph := by
  cases ph
  · exact h
  · exact h
  · exact h
  · exact ⟨h.1, h.2.2⟩
  · exact h.2
  · trivial
  · exact h

def SyncedR (g : RCtx) (s : State) (now : Int) : Prop :=
  s.phase = .converge → s.phaseTimeoutElapsed now = true → ∀ h ∈ g.H, h ∈ sendersR g s .converge

theorem tryCurrentPhase_goodR {p : Pid} {s : State} (now : Int) (hs : RInv g s)
    (hw : WPIR g p s s.phase) (hsync : SyncedR g s now) : GoodR g p s (s.tryCurrentPhase now) := by
  unfold SyncedR at hsync
  unfold State.tryCurrentPhase
  cases hph : s.phase <;> rw [hph] at hw <;> dsimp only
  · exact hw.elim
  · exact hw.elim
  · exact tryConverge_good now hs hph hw (hsync hph)
  · exact tryPrepare_goodR now hs hph hw.1 hw.2.1 hw.2.2
  · rw [hs.round]
    exact (tryCommit_goodR now hs (Or.inr (Or.inr hph)) hw (fun h3 => by rw [hph]; exact ⟨h3, hw⟩)).1
  · exact tryDecide_goodR now hs hph
  · exact GoodR.stay hs (by rw [hph]; exact hw)

/-! ## receiving -/

theorem ShapeR.conv {m : Msg} (hm : ShapeR g m) (hp : m.phase = .converge) :
    m.round = g.r ∧ m.value = g.val m.sender ∧ m.rank = g.rk m.sender ∧ m.just = some (g.jst m.sender) := by
  have h := hm.2.2.2; rw [hp] at h; exact h
theorem ShapeR.prep {m : Msg} (hm : ShapeR g m) (hp : m.phase = .prepare) : m.round = g.r ∧ m.value = g.v := by
  have h := hm.2.2.2; rw [hp] at h; exact h
theorem ShapeR.comm {m : Msg} (hm : ShapeR g m) (hp : m.phase = .commit) :
    m.round = g.r ∧ m.value = g.v ∧ ∃ j, m.just = some j := by
  have h := hm.2.2.2; rw [hp] at h; exact h
theorem ShapeR.dec {m : Msg} (hm : ShapeR g m) (hp : m.phase = .decide) : m.round = 0 ∧ m.value = g.v := by
  have h := hm.2.2.2; rw [hp] at h; exact h
theorem ShapeR.phases {m : Msg} (hm : ShapeR g m) :
    m.phase = .converge ∨ m.phase = .prepare ∨ m.phase = .commit ∨ m.phase = .decide := by
  have h := hm.2.2.2
  cases hp : m.phase <;> rw [hp] at h <;> simp_all

theorem conv_receive_senders_sub (c : Conv) (q : Pid) (v : Chain) (rk : Nat) (j : Just) :
    ∀ x ∈ (c.receive q v rk j).senders, x ∈ c.senders ∨ x = q := by
  intro x hx
  unfold Conv.receive at hx
  split at hx
  · exact Or.inl hx
  · dsimp only at hx
    split at hx
    · have hx' : x ∈ c.senders ++ [q] := hx
      simpa using hx'
    · have hx' : x ∈ c.senders ++ [q] := hx
      simpa using hx'

theorem conv_receive_values (c : Conv) (q : Pid) (v : Chain) (rk : Nat) (j : Just) :
    ∀ cv ∈ (c.receive q v rk j).values,
      (∃ cv0 ∈ c.values, cv.chain = cv0.chain ∧ cv.just = cv0.just) ∨ (cv.chain = v ∧ cv.just = j) := by
  intro cv hcv
  unfold Conv.receive at hcv
  split at hcv
  · exact Or.inl ⟨cv, hcv, rfl, rfl⟩
  · dsimp only at hcv
    split at hcv
    · have hcv' : cv ∈ updRank c.values v rk := hcv
      unfold updRank at hcv'
      obtain ⟨cv0, hcv0, rfl⟩ := List.mem_map.1 hcv'
      left
      refine ⟨cv0, hcv0, ?_⟩
      split <;> exact ⟨rfl, rfl⟩
    · have hcv' : cv ∈ c.values ++ [{ chain := v, just := j, rank := some rk }] := hcv
      rcases List.mem_append.1 hcv' with h | h
      · exact Or.inl ⟨cv, h, rfl, rfl⟩
      · simp only [List.mem_singleton] at h
        subst h
        exact Or.inr ⟨rfl, rfl⟩

theorem UTally.receiveJust {t : Table} {c : Chain} {H : List Pid} {T : Tally} (h : UTally t c H T) (k : Chain) (j : Just) :
    UTally t c H (T.receiveJust k j) := by
  unfold Tally.receiveJust
  split
  · exact h
  · exact ⟨h.nodup, h.sub, h.pow, h.sup⟩

theorem storePrepareJust_facts {t : Table} {c : Chain} {H : List Pid} {T : Tally} (h : UTally t c H T) (m : Msg) :
    UTally t c H (storePrepareJust T m) ∧ (storePrepareJust T m).senders = T.senders ∧
    (storePrepareJust T m).hasStrongFor c = T.hasStrongFor c := by
  unfold storePrepareJust
  split
  · exact ⟨h.receiveJust _ _, receiveJust_senders _ _ _, receiveJust_hasStrongFor _ _ _ _⟩
  · exact ⟨h, rfl, rfl⟩

theorem storeCommitJust_facts {t : Table} {c : Chain} {H : List Pid} {T : Tally} (h : UTally t c H T) (m : Msg) :
    UTally t c H (storeCommitJust T m) ∧ (storeCommitJust T m).senders = T.senders ∧
    (storeCommitJust T m).hasStrongFor c = T.hasStrongFor c := by
  unfold storeCommitJust
  split
  · split
    · exact ⟨h, rfl, rfl⟩
    · exact ⟨h.receiveJust _ _, receiveJust_senders _ _ _, receiveJust_hasStrongFor _ _ _ _⟩
  · exact ⟨h, rfl, rfl⟩

theorem RInv.setRound {s : State} (hs : RInv g s) (rs' : RoundState)
    (h1 : ConvOK g.val g.rk rs'.converged) (h2 : ∀ x ∈ rs'.converged.senders, x ∈ g.H)
    (h3 : ∀ cv ∈ rs'.converged.values, ∃ q ∈ g.H, cv.chain = g.val q ∧ cv.just = g.jst q)
    (h4 : UTally g.t g.v g.H rs'.prepared) (h5 : UTally g.t g.v g.H rs'.committed) :
    RInv g (s.setRound g.r rs') ∧ (s.setRound g.r rs').getRound g.r = rs' := by
  have hg : (s.setRound g.r rs').getRound g.r = rs' := by rw [getRound_setRound, if_pos rfl]
  have hn : (s.setRound g.r rs').getRound (g.r + 1) = {} := by
    rw [getRound_setRound, if_neg (by omega)]; exact hs.next
  exact ⟨⟨hs.tbl, hs.base, hs.round, hn, by rw [hg]; exact h1, by rw [hg]; exact h2, by rw [hg]; exact h3,
    by rw [hg]; exact h4, by rw [hg]; exact h5, hs.dec, hs.term⟩, hg⟩

theorem Adm.setRound {s : State} (h : Adm g s) (hs : RInv g s) (rs' : RoundState) : Adm g (s.setRound g.r rs') := by
  refine h.of_eq rfl rfl rfl ?_
  rw [getRound_setRound, if_neg]
  have := g.rpos
  rw [hs.round]
  omega

/-- the weak phase invariant of the state `s1` obtained by tallying a message in `s` -/
theorem WPIR.transfer {p : Pid} {s s1 : State} {ph : Phase} (h : PIR g p s ph)
    (h2 : ph = .converge → B2 g p s1) (h3 : B3 g s → B3 g s1) (h4 : B4 s → B4 s1) (hadm : Adm g s → Adm g s1)
    (hprop : s1.proposal = s.proposal) (hterm : s1.termination = s.termination) : WPIR g p s1 ph := by
  cases ph
  · exact h.elim
  · exact h.elim
  · exact ⟨h2 rfl, h3 h.2.1, h4 h.2.2.1, hadm h.2.2.2⟩
  · exact ⟨hprop ▸ h.1, h3 h.2.2.1, h4 h.2.2.2⟩
  · exact h4 h.2
  · trivial
  · obtain ⟨d, hd⟩ := h
    exact ⟨d, by rw [hterm]; exact hd⟩

/-- the message-dependent part of the synchrony hypothesis, before the message is tallied -/
def SyncedMR (g : RCtx) (s : State) (now : Int) (m : Msg) : Prop :=
  s.phase = .converge → s.phaseTimeoutElapsed now = true →
    ∀ h ∈ g.H, h ∈ sendersR g s .converge ∨ (m.phase = .converge ∧ m.sender = h)

/-- after the message has been tallied (state `s1`), `tryCurrentPhase` -/
theorem after_tallyR {p : Pid} {s s1 : State} (now : Int) (m : Msg)
    (hs1 : RInv g s1) (hph : s1.phase = s.phase) (hto : s1.phaseTimeout = s.phaseTimeout)
    (hmono : ∀ ph x, x ∈ sendersR g s ph → x ∈ sendersR g s1 ph) (hx : m.sender ∈ sendersR g s1 m.phase)
    (hw : WPIR g p s1 s1.phase) (hsync : SyncedMR g s now m) :
    GoodR g p s (s1.tryCurrentPhase now) ∧ m.sender ∈ sendersR g (s1.tryCurrentPhase now).1 m.phase := by
  have hsy : SyncedR g s1 now := by
    intro hc hel h hh
    rw [hph] at hc
    have hel' : s.phaseTimeoutElapsed now = true := by
      unfold State.phaseTimeoutElapsed at hel ⊢
      rw [← hto]; exact hel
    rcases hsync hc hel' h hh with h1 | ⟨h1, h2⟩
    · exact hmono _ _ h1
    · rw [← h2, ← h1]; exact hx
  have gd := tryCurrentPhase_goodR now hs1 hw hsy
  exact ⟨GoodR.pre hph.symm hmono gd, gd.mono _ _ hx⟩

theorem recvConverge_goodR {p : Pid} {s : State} (now : Int) (m : Msg)
    (hs : RInv g s) (hpi : PIR g p s s.phase) (hm : ShapeR g m) (hmp : m.phase = .converge)
    (hsync : SyncedMR g s now m) :
    GoodR g p s (s.recvConverge now m (g.jst m.sender)) ∧
      m.sender ∈ sendersR g (s.recvConverge now m (g.jst m.sender)).1 m.phase := by
  obtain ⟨hr, hv, hrk, _⟩ := hm.conv hmp
  obtain ⟨hok', hin, hsub⟩ := hs.conv.receive m.sender (g.jst m.sender)
  unfold State.recvConverge
  dsimp only
  rw [hr, hv, hrk]
  obtain ⟨hs1, hg1⟩ := hs.setRound
    { s.getRound g.r with converged := (s.getRound g.r).converged.receive m.sender (g.val m.sender) (g.rk m.sender) (g.jst m.sender) }
    hok'
    (fun x hx => by
      rcases conv_receive_senders_sub _ _ _ _ _ x hx with h | h
      · exact hs.convSub x h
      · exact h ▸ hm.2.2.1)
    (fun cv hcv => by
      rcases conv_receive_values _ _ _ _ _ cv hcv with ⟨cv0, h0, h1, h2⟩ | ⟨h1, h2⟩
      · obtain ⟨q, hq, h3, h4⟩ := hs.convJust cv0 h0
        exact ⟨q, hq, h1.trans h3, h2.trans h4⟩
      · exact ⟨m.sender, hm.2.2.1, h1, h2⟩)
    hs.prep hs.comm
  refine after_tallyR now m hs1 rfl rfl ?_ ?_ ?_ hsync
  · intro ph x hx
    cases ph
    case converge => show x ∈ (State.getRound _ g.r).converged.senders; rw [hg1]; exact hsub x hx
    case prepare => show x ∈ (State.getRound _ g.r).prepared.senders; rw [hg1]; exact hx
    case commit => show x ∈ (State.getRound _ g.r).committed.senders; rw [hg1]; exact hx
    all_goals exact hx
  · rw [hmp]; show m.sender ∈ (State.getRound _ g.r).converged.senders; rw [hg1]; exact hin
  · show WPIR g p _ s.phase
    refine WPIR.transfer hpi ?_ ?_ (fun h => h) (fun h => h.setRound hs _) rfl rfl
    · intro hc
      rw [hc] at hpi
      show p ∉ (State.getRound _ g.r).prepared.senders
      rw [hg1]; exact hpi.1
    · intro h3
      show (State.getRound _ g.r).committed.hasStrongFor g.v = false
      rw [hg1]; exact h3

theorem recvPrepare_goodR {p : Pid} {s : State} (now : Int) (m : Msg)
    (hs : RInv g s) (hpi : PIR g p s s.phase) (hm : ShapeR g m)
    (hmp : m.phase = .prepare) (hself : m.sender = p → s.phase ≠ .converge) (hsync : SyncedMR g s now m) :
    GoodR g p s (s.recvPrepare now m) ∧ m.sender ∈ sendersR g (s.recvPrepare now m).1 m.phase := by
  obtain ⟨hr, hv⟩ := hm.prep hmp
  obtain ⟨P', hrecv, hP', hxin, hsub, hsup, _⟩ := hs.prep.receive m.sender hm.2.2.1
  have e1 : (s.getRound g.r).prepared.receive s.tbl m.sender m.value = some P' := by
    rw [hs.tbl, hv]; exact hrecv
  obtain ⟨hP'', hsnd, _⟩ := storePrepareJust_facts hP' m
  unfold State.recvPrepare
  dsimp only
  rw [hr, e1]
  dsimp only
  obtain ⟨hs1, hg1⟩ := hs.setRound { s.getRound g.r with prepared := storePrepareJust P' m } hs.conv hs.convSub
    hs.convJust hP'' hs.comm
  refine after_tallyR now m hs1 rfl rfl ?_ ?_ ?_ hsync
  · intro ph x hx
    cases ph
    case converge => show x ∈ (State.getRound _ g.r).converged.senders; rw [hg1]; exact hx
    case prepare => show x ∈ (State.getRound _ g.r).prepared.senders; rw [hg1]; show x ∈ (storePrepareJust P' m).senders; rw [hsnd]; exact hsub x hx
    case commit => show x ∈ (State.getRound _ g.r).committed.senders; rw [hg1]; exact hx
    all_goals exact hx
  · rw [hmp]; show m.sender ∈ (State.getRound _ g.r).prepared.senders; rw [hg1]
    show m.sender ∈ (storePrepareJust P' m).senders; rw [hsnd]; exact hxin
  · show WPIR g p _ s.phase
    refine WPIR.transfer hpi ?_ ?_ (fun h => h) (fun h => h.setRound hs _) rfl rfl
    · intro hc
      rw [hc] at hpi
      show p ∉ (State.getRound _ g.r).prepared.senders
      rw [hg1]
      show p ∉ (storePrepareJust P' m).senders
      rw [hsnd]
      intro hin
      rcases hsup p hin with h | h
      · exact hpi.1 h
      · exact hself h.symm hc
    · intro h3
      show (State.getRound _ g.r).committed.hasStrongFor g.v = false
      rw [hg1]; exact h3

theorem TransR.from_commit {p : Pid} {b : Phase} {ms : List Msg} (h : TransR g p .commit b ms) :
    b = .commit ∨ b = .decide ∨ b = .terminated := by
  cases h with
  | same => exact Or.inl rfl
  | x2d _ _ _ hb _ => exact Or.inr hb

theorem TransR.from_decide {p : Pid} {b : Phase} {ms : List Msg} (h : TransR g p .decide b ms) :
    (b = .decide ∨ b = .terminated) ∧ ms = [] := by
  cases h with
  | same => exact ⟨Or.inl rfl, rfl⟩
  | x2d _ _ ha _ _ => rcases ha with ha | ha | ha <;> cases ha
  | d2t => exact ⟨Or.inr rfl, rfl⟩

theorem recvCommit_goodR {p : Pid} {s : State} (now : Int) (m : Msg)
    (hs : RInv g s) (hpi : PIR g p s s.phase) (hnt : s.phase ≠ .terminated)
    (hm : ShapeR g m) (hmp : m.phase = .commit) (hsync : SyncedMR g s now m) :
    GoodR g p s (s.recvCommit now m) ∧ m.sender ∈ sendersR g (s.recvCommit now m).1 m.phase := by
  obtain ⟨hr, hv, j, hj⟩ := hm.comm hmp
  obtain ⟨C', hrecv, hC', hxin, hsub, hsup, _⟩ := hs.comm.receive m.sender hm.2.2.1
  have e1 : (s.getRound g.r).committed.receive s.tbl m.sender m.value = some C' := by
    rw [hs.tbl, hv]; exact hrecv
  have hve : m.value.isEmpty = false := by rw [hv]; exact isEmpty_false_of_ne g.vne
  obtain ⟨hC'', hsnd, _⟩ := storeCommitJust_facts hC' m
  unfold State.recvCommit
  dsimp only
  rw [hr, e1]
  dsimp only
  rw [if_neg (by simp [hj])]
  obtain ⟨hs1, hg1⟩ := hs.setRound { s.getRound g.r with committed := storeCommitJust C' m } hs.conv hs.convSub
    hs.convJust hs.prep hC''
  have hph1 : (s.setRound g.r { s.getRound g.r with committed := storeCommitJust C' m }).phase = s.phase := rfl
  have hto1 : (s.setRound g.r { s.getRound g.r with committed := storeCommitJust C' m }).phaseTimeout = s.phaseTimeout := rfl
  have hdec1 : (s.setRound g.r { s.getRound g.r with committed := storeCommitJust C' m }).decision = s.decision := rfl
  have hprop1 : (s.setRound g.r { s.getRound g.r with committed := storeCommitJust C' m }).proposal = s.proposal := rfl
  have hterm1 : (s.setRound g.r { s.getRound g.r with committed := storeCommitJust C' m }).termination = s.termination := rfl
  have hadm1 : Adm g s → Adm g (s.setRound g.r { s.getRound g.r with committed := storeCommitJust C' m }) :=
    fun h => h.setRound hs _
  generalize s.setRound g.r { s.getRound g.r with committed := storeCommitJust C' m } = s1 at *
  have hP1 : (s1.getRound g.r).prepared = (s.getRound g.r).prepared := by rw [hg1]
  have hV1 : (s1.getRound g.r).converged = (s.getRound g.r).converged := by rw [hg1]
  have hC1 : (s1.getRound g.r).committed.senders = C'.senders := by rw [hg1]; exact hsnd
  have hmono : ∀ ph x, x ∈ sendersR g s ph → x ∈ sendersR g s1 ph := by
    intro ph x hx
    cases ph
    case converge => show x ∈ (s1.getRound g.r).converged.senders; rw [hV1]; exact hx
    case prepare => show x ∈ (s1.getRound g.r).prepared.senders; rw [hP1]; exact hx
    case commit => show x ∈ (s1.getRound g.r).committed.senders; rw [hC1]; exact hsub x hx
    case decide => show x ∈ s1.decision.senders; rw [hdec1]; exact hx
    all_goals exact hx
  have hx1 : m.sender ∈ sendersR g s1 m.phase := by
    rw [hmp]; show m.sender ∈ (s1.getRound g.r).committed.senders; rw [hC1]; exact hxin
  by_cases hd : s.phase = .decide
  · rw [if_neg (by simp [hph1, hd])]
    refine after_tallyR now m hs1 hph1 hto1 hmono hx1 ?_ hsync
    rw [hph1, hd]; trivial
  · rw [if_pos (by simp [hph1, hd])]
    have hph' : s1.phase = .converge ∨ s1.phase = .prepare ∨ s1.phase = .commit := by
      rw [hph1]
      cases hp : s.phase <;> rw [hp] at hpi <;> simp_all [PIR]
    have h4 : B4 s1 := by
      show s1.decision.senders = []
      rw [hdec1]
      cases hp : s.phase <;> rw [hp] at hpi
      · exact hpi.elim
      · exact hpi.elim
      · exact hpi.2.2.1
      · exact hpi.2.2.2
      · exact hpi.2
      · exact absurd hp hd
      · exact absurd hp hnt
    have hpi' : B3 g s1 → PIR g p s1 s1.phase := by
      intro h3
      rw [hph1]
      cases hp : s.phase <;> rw [hp] at hpi
      · exact hpi.elim
      · exact hpi.elim
      · refine ⟨?_, h3, h4, hadm1 hpi.2.2.2⟩
        show p ∉ (s1.getRound g.r).prepared.senders
        rw [hP1]; exact hpi.1
      · refine ⟨hprop1 ▸ hpi.1, ?_, h3, h4⟩
        show p ∈ (s1.getRound g.r).prepared.senders → (s1.getRound g.r).prepared.hasStrongFor g.v = false
        rw [hP1]; exact hpi.2.1
      · exact ⟨h3, h4⟩
      · exact absurd hp hd
      · exact absurd hp hnt
    obtain ⟨gd, hcase⟩ := tryCommit_goodR now hs1 hph' h4 hpi'
    rcases hcase with ⟨heq, h3⟩ | hc | hdc
    · rw [heq]
      dsimp only
      by_cases hp : s.phase = .prepare
      · rw [if_pos (by simp [hph1, hp, hs1.round, hve])]
        rw [andThen_nil]
        refine after_tallyR now m hs1 hph1 hto1 hmono hx1 ?_ hsync
        have := hpi' h3
        rw [hph1, hp] at this ⊢
        exact ⟨this.1, h3, h4⟩
      · rw [if_neg (by simp [hph1, hp])]
        have g0 : GoodR g p s1 (s1, []) := GoodR.stay hs1 (hpi' h3)
        exact ⟨GoodR.pre hph1.symm hmono g0, hx1⟩
    · have hne : (s1.tryCommit now g.r).1.phase ≠ .prepare := by
        have := gd.trans
        rw [hc] at this
        rcases this.from_commit with h | h | h <;> rw [h] <;> simp
      rw [if_neg (by simp [hne])]
      exact ⟨GoodR.pre hph1.symm hmono gd, gd.mono _ _ hx1⟩
    · rw [if_neg (by simp [hdc])]
      exact ⟨GoodR.pre hph1.symm hmono gd, gd.mono _ _ hx1⟩

theorem recvDecide_goodR {p : Pid} {s : State} (now : Int) (m : Msg)
    (hs : RInv g s) (hpi : PIR g p s s.phase) (hnt : s.phase ≠ .terminated)
    (hm : ShapeR g m) (hmp : m.phase = .decide) (hsync : SyncedMR g s now m) :
    GoodR g p s (s.recvDecide now m) ∧ m.sender ∈ sendersR g (s.recvDecide now m).1 m.phase := by
  obtain ⟨_, hv⟩ := hm.dec hmp
  obtain ⟨D', hrecv, hD', hxin, hsub, hsup, _⟩ := hs.dec.receive m.sender hm.2.2.1
  have e1 : s.decision.receive s.tbl m.sender m.value = some D' := by
    rw [hs.tbl, hv]; exact hrecv
  unfold State.recvDecide
  rw [e1]
  dsimp only
  have hs1 : RInv g ({ s with decision := D' } : State) :=
    ⟨hs.tbl, hs.base, hs.round, hs.next, hs.conv, hs.convSub, hs.convJust, hs.prep, hs.comm, hD', hs.term⟩
  have hmono : ∀ ph x, x ∈ sendersR g s ph → x ∈ sendersR g ({ s with decision := D' } : State) ph := by
    intro ph x hx
    cases ph
    case decide => exact hsub x hx
    all_goals exact hx
  have hx1 : m.sender ∈ sendersR g ({ s with decision := D' } : State) m.phase := by
    rw [hmp]; exact hxin
  by_cases hd : s.phase = .decide
  · rw [if_neg (by simp [hd])]
    refine after_tallyR now m hs1 rfl rfl hmono hx1 ?_ hsync
    show WPIR g p _ s.phase
    rw [hd]; trivial
  · rw [if_pos (by simp [hd])]
    have hph' : s.phase = .converge ∨ s.phase = .prepare ∨ s.phase = .commit := by
      cases hp : s.phase <;> rw [hp] at hpi <;> simp_all [PIR]
    rw [hv]
    have hsk : State.skipToDecide ({ s with decision := D' } : State) g.v m.just =
        (afterSkip s D' g.v, [.progress s.round .decide, .broadcast 0 .decide g.v false m.just]) := rfl
    rw [hsk, andThen_ok _ _ rfl]
    dsimp only
    have hs2 : RInv g (afterSkip s D' g.v) := hs1.core (by core_rfl)
    have htc : State.tryCurrentPhase (afterSkip s D' g.v) now = State.tryDecide (afterSkip s D' g.v) now := rfl
    rw [htc]
    have g2 := tryDecide_goodR (p := p) now hs2 rfl
    generalize State.tryDecide (afterSkip s D' g.v) now = r2 at g2 ⊢
    obtain ⟨hb, hms⟩ := g2.trans.from_decide
    refine ⟨⟨?_, g2.inv, g2.pi, fun ph x hx => g2.mono ph x (hmono ph x hx), ?_⟩, g2.mono _ _ hx1⟩
    · show hasFailure ([Eff.progress s.round .decide, .broadcast 0 .decide g.v false m.just] ++ r2.2) = false
      rw [Sync.hasFailure_append, g2.nofail]; rfl
    · show TransR g p s.phase r2.1.phase
        (sentR g.rankOf p ([Eff.progress s.round .decide, .broadcast 0 .decide g.v false m.just] ++ r2.2))
      rw [sentR_append, hms, List.append_nil]
      exact TransR.x2d _ _ hph' hb m.just

/-! ## the two API calls of a round -/

theorem recvPre_acceptR {s : State} (hs : RInv g s) (hnt : s.phase ≠ .terminated) {m : Msg}
    (hm : ShapeR g m) : s.recvPre m = .accept := by
  have hhead : m.value.head? = some g.b := by
    rcases hm.phases with hp | hp | hp | hp
    · rw [(hm.conv hp).2.1]; exact g.base _ hm.2.2.1
    · rw [(hm.prep hp).2]; exact g.vbase
    · rw [(hm.comm hp).2.1]; exact g.vbase
    · rw [(hm.dec hp).2]; exact g.vbase
  have hvb : (m.value.isEmpty || hasBase m.value s.input.head?) = true := by
    rw [hs.base]
    cases hv : m.value with
    | nil => rfl
    | cons a as =>
      rw [hv] at hhead
      simp only [List.head?_cons, Option.some.injEq] at hhead
      simp [hasBase, hhead]
  have hlt : (decide (m.round < s.round) && (m.phase == .converge || m.phase == .prepare)) = false := by
    rw [hs.round]
    rcases hm.phases with hp | hp | hp | hp
    · simp [(hm.conv hp).1]
    · simp [(hm.prep hp).1]
    · simp [hp]
    · simp [hp]
  have hrd : m.round ≤ s.round := by
    rw [hs.round]
    rcases hm.phases with hp | hp | hp | hp
    · exact Nat.le_of_eq (hm.conv hp).1
    · exact Nat.le_of_eq (hm.prep hp).1
    · exact Nat.le_of_eq (hm.comm hp).1
    · rw [(hm.dec hp).1]; exact Nat.zero_le _
  have hla : (decide (m.round > s.round + s.cfg.maxLookahead) && isSpammable m) = false := by
    have : ¬ (m.round > s.round + s.cfg.maxLookahead) := by omega
    simp [this]
  unfold State.recvPre
  rw [if_neg (by simp [hm.2.1]), if_neg (by simp [hm.1]), if_neg (by simp [hvb]), if_neg (by simp [hnt]),
    if_neg (by simp [hlt]), if_neg (by simp [hla])]

theorem ShapeR.round_le {s : State} (hs : RInv g s) {m : Msg} (hm : ShapeR g m) : m.round ≤ g.r := by
  rcases hm.phases with hp | hp | hp | hp
  · exact Nat.le_of_eq (hm.conv hp).1
  · exact Nat.le_of_eq (hm.prep hp).1
  · exact Nat.le_of_eq (hm.comm hp).1
  · rw [(hm.dec hp).1]; exact Nat.zero_le _

theorem step_recv_goodR {p : Pid} {s : State} (now : Int) (m : Msg)
    (hs : RInv g s) (hpi : PIR g p s s.phase) (hnt : s.phase ≠ .terminated)
    (hm : ShapeR g m) (hself : m.phase = .prepare → m.sender = p → s.phase ≠ .converge)
    (hsync : SyncedMR g s now m) :
    GoodR g p s (step s (.recv now m)) ∧ m.sender ∈ sendersR g (step s (.recv now m)).1 m.phase := by
  have hpre := recvPre_acceptR hs hnt hm
  have key : ∀ r : R, (s.receiveOne now m).1 = r →
      (GoodR g p s r ∧ m.sender ∈ sendersR g r.1 m.phase) →
      GoodR g p s (step s (.recv now m)) ∧ m.sender ∈ sendersR g (step s (.recv now m)).1 m.phase := by
    intro r hr hg
    have : step s (.recv now m) = r := by
      rw [step_recv_eq s now m hnt (by rw [hr]; exact hg.1.nofail)
        (by rw [hr, hg.1.inv.round]; exact hm.round_le hs), hr]
    rw [this]; exact hg
  rcases hm.phases with hmp | hmp | hmp | hmp
  · have hve : m.value.isEmpty = false := by
      rw [(hm.conv hmp).2.1]; exact isEmpty_false_of_ne (g.val_ne hm.2.2.1)
    exact key _ (by unfold State.receiveOne; rw [hpre, hmp]; dsimp only; rw [if_neg (by simp [hve]), (hm.conv hmp).2.2.2])
      (recvConverge_goodR now m hs hpi hm hmp hsync)
  · exact key _ (by unfold State.receiveOne; rw [hpre, hmp])
      (recvPrepare_goodR now m hs hpi hm hmp (hself hmp) hsync)
  · exact key _ (by unfold State.receiveOne; rw [hpre, hmp])
      (recvCommit_goodR now m hs hpi hnt hm hmp hsync)
  · exact key _ (by unfold State.receiveOne; rw [hpre, hmp])
      (recvDecide_goodR now m hs hpi hnt hm hmp hsync)

theorem step_alarm_goodR {p : Pid} {s : State} (now : Int)
    (hs : RInv g s) (hpi : PIR g p s s.phase) (hsync : SyncedR g s now) :
    GoodR g p s (step s (.alarm now)) :=
  tryCurrentPhase_goodR now hs hpi.weak hsync

end

end F3.Liveness
