import F3.Proofs.StoreCrash
/-! Concrete stores used by non-vacuity examples and counterexample witnesses. -/
namespace F3.Store.Witness
open F3.Store

def e1 : Entry := ⟨1, 10, 1⟩
def e2 : Entry := ⟨2, 7, 2⟩
/-- initial table: participant 1 (power 10), participant 2 (power 7) -/
def T0 : Table := [e1, e2]
/-- after the first certificate: participant 2 has gained 5 and overtaken participant 1 -/
def T1 : Table := [⟨2, 12, 2⟩, e1]
def d0 : Diff := [⟨2, 5, 0⟩]
/-- certificate of instance 3 with a real delta, committing to `T1` -/
def c3 : Cert := ⟨3, 1, d0, .known T1, .ok⟩
/-- certificate of instance 4 with an empty delta (table unchanged) -/
def c4 : Cert := ⟨4, 2, [], .known T1, .ok⟩

/-- production-like configuration with period 2, pinned `open` -/
def cfgPinned : Cfg := ⟨2, 2, false, true⟩
/-- the same with the repaired `open` -/
def cfgFixed : Cfg := ⟨2, 2, true, false⟩

def sp0 : Spec := ⟨3, T0, []⟩
def sp1 : Spec := sp0.push c3
def sp2 : Spec := sp1.push c4

def ds0 : DS := applyWs [] (createWrites 3 T0)
def ds1 : DS := applyWs ds0 (putWrites 2 c3 T1)
def ds2 : DS := applyWs ds1 (putWrites 2 c4 T1)

theorem canon_T0 : Canon T0 := ⟨[e1, e2], by simp [IdSorted, e1, e2], by decide⟩

theorem notInit_nil : NotInit ([] : DS) := ⟨rfl, rfl, rfl, rfl⟩

theorem repr0 (freq : Nat) : Repr freq ds0 sp0 := repr_create freq notInit_nil 3 (by decide) canon_T0

theorem adm3 : sp0.admits c3 = true := by decide
theorem adm4 : sp1.admits c4 = true := by decide

theorem repr1 : Repr 2 ds1 sp1 := repr_put (repr0 2) adm3 (t' := T1) (by decide) (by decide)
theorem repr2 : Repr 2 ds2 sp2 := repr_put repr1 adm4 (t' := T1) (by decide) (by decide)

/-- handle of the two-certificate store -/
def m2 : Mem := memOf sp2 T1
theorem memOk2 : MemOk m2 sp2 := memOk_memOf (by decide)
theorem subsOk2 : SubsOk m2 := by intro s hs; simp [m2, memOf] at hs

/-- a query order of the wipe in which the latest pointer goes first -/
def wipeOrder : List Key := [.latest, .tomb, .cert 3, .cert 4, .first, .power 3, .power 4]

theorem wipeOrder_perm : wipeOrder.Perm (scopeKeys .inner (dsPut ds2 .tomb .tomb)) := by decide

namespace S9
/-- true history: three certificates with empty deltas over `T0` (instances 3, 4, 5) -/
def g3 : Cert := ⟨3, 1, [], .known T0, .ok⟩
def g4 : Cert := ⟨4, 2, [], .known T0, .ok⟩
def g5 : Cert := ⟨5, 3, [], .known T0, .ok⟩
/-- corrupted pair: +1 for participant 1 in instance 3, −1 in instance 4, commitments untouched -/
def b3 : Cert := ⟨3, 4, [⟨1, 1, 0⟩], .known T0, .ok⟩
def b4 : Cert := ⟨4, 5, [⟨1, -1, 0⟩], .known T0, .ok⟩
def hdr : Header := ⟨1, 3, 5, T0⟩
def snap : Stream := ⟨frame hdr (1, 50) [b3, b4, g5] [(2, 200), (2, 200), (2, 200)], .clean⟩
def cfg : Cfg := ⟨1440, 1440, true, false⟩
end S9


end F3.Store.Witness
