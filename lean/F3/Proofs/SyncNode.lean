import F3.Proofs.SyncTally
import F3.Model.Net
/-!
# One honest node in a unanimous, failure-free run (helper lemmas for `C02.unanimous_sync_*`)

`SInv`: the phase-independent shape of a node's state when every message it has ever been handed is a round-0
message for the common chain `c` from a member of `H`. `PI`: the phase-dependent part ("had the node held a
strong quorum it would have moved on"). `Good`: what every API call of the model then guarantees.
-/
namespace F3.Sync
open F3.Instance F3.Net

/-! ## wire messages of a unanimous run -/

def JustFor (c : Chain) (ph : Phase) (j : Just) : Prop := j.round = 0 ∧ j.phase = ph ∧ j.value = c

/-- QUALITY(0,c), PREPARE(0,c), COMMIT(0,c) justified by PREPAREs for `c`, DECIDE(0,c) justified by COMMITs for `c` -/
def Shape (c : Chain) (m : Msg) : Prop :=
  m.round = 0 ∧ m.value = c ∧ m.suppOk = true ∧ m.instOk = true ∧
  match m.phase with
  | .quality => m.just = none
  | .prepare => m.just = none
  | .commit => ∃ j, m.just = some j ∧ JustFor c .prepare j
  | .decide => ∃ j, m.just = some j ∧ JustFor c .commit j
  | _ => False

def mkMsg (p : Pid) (ph : Phase) (c : Chain) (j : Option Just) : Msg :=
  { sender := p, round := 0, phase := ph, value := c, rank := 0, just := j }

/-- what a single API call does to the phase, and what it puts on the wire -/
inductive Trans (p : Pid) (c : Chain) : Phase → Phase → List Msg → Prop
  | same (a : Phase) : Trans p c a a []
  | start : Trans p c .initial .quality [mkMsg p .quality c none]
  | q2p : Trans p c .quality .prepare [mkMsg p .prepare c none]
  | p2c (j : Just) (hj : JustFor c .prepare j) : Trans p c .prepare .commit [mkMsg p .commit c (some j)]
  | x2d (a b : Phase) (ha : a = .quality ∨ a = .prepare ∨ a = .commit) (hb : b = .decide ∨ b = .terminated)
      (j : Just) (hj : JustFor c .commit j) : Trans p c a b [mkMsg p .decide c (some j)]
  | d2t : Trans p c .decide .terminated []

/-! ## effects -/

def quiet : Eff → Bool
  | .rebroadcast _ _ => true
  | .setAlarm _ => true
  | .progress _ _ => true
  | _ => false

theorem hasFailure_append (a b : List Eff) : hasFailure (a ++ b) = (hasFailure a || hasFailure b) := by
  unfold hasFailure; simp

theorem sent_append (p : Pid) (a b : List Eff) : sent p (a ++ b) = sent p a ++ sent p b := by
  unfold sent; simp

theorem quiet_nofail (es : List Eff) (h : es.all quiet = true) : hasFailure es = false := by
  induction es with
  | nil => rfl
  | cons e es ih =>
    simp only [List.all_cons, Bool.and_eq_true] at h
    rw [show e :: es = [e] ++ es from rfl, hasFailure_append, ih h.2]
    cases e <;> simp_all [quiet, hasFailure]

theorem quiet_sent (p : Pid) (es : List Eff) (h : es.all quiet = true) : sent p es = [] := by
  induction es with
  | nil => rfl
  | cons e es ih =>
    simp only [List.all_cons, Bool.and_eq_true] at h
    rw [show e :: es = [e] ++ es from rfl, sent_append, ih h.2]
    cases e <;> simp_all [quiet, sent, msgOf]

theorem rebroadcastEffs_quiet (s : State) : (rebroadcastEffs s).all quiet = true := by
  unfold rebroadcastEffs
  split <;> (try split) <;> simp [quiet]

/-! ## the part of the state the invariants talk about -/

def coreOf (s : State) :=
  (s.tbl, s.input, s.round, s.rounds, s.quality, s.decision, s.termination)

def Core (s s' : State) : Prop := coreOf s' = coreOf s

theorem Core.refl (s : State) : Core s s := Eq.refl _
theorem Core.trans {a b d : State} (h1 : Core a b) (h2 : Core b d) : Core a d := Eq.trans (b := coreOf b) h2 h1

macro "core_rfl" : tactic => `(tactic| (show coreOf _ = coreOf _; rfl))

theorem Core.fields {s s' : State} (h : Core s s') :
    s'.tbl = s.tbl ∧ s'.input = s.input ∧ s'.round = s.round ∧ s'.rounds = s.rounds ∧
    s'.quality = s.quality ∧ s'.decision = s.decision ∧ s'.termination = s.termination := by
  unfold Core coreOf at h
  simp only [Prod.mk.injEq] at h
  exact h

theorem Core.getRound {s s' : State} (h : Core s s') (r : Nat) : s'.getRound r = s.getRound r := by
  unfold State.getRound
  rw [h.fields.2.2.2.1]

theorem tryRebroadcast_core (s : State) (now : Int) : Core s (s.tryRebroadcast now).1 := by
  unfold State.tryRebroadcast State.resetReb
  dsimp only
  repeat' (first | core_rfl | split)

theorem tryRebroadcast_phase' (s : State) (now : Int) : (s.tryRebroadcast now).1.phase = s.phase := by
  unfold State.tryRebroadcast State.resetReb
  dsimp only
  repeat' (first | rfl | split)

theorem tryRebroadcast_quiet (s : State) (now : Int) : (s.tryRebroadcast now).2.all quiet = true := by
  have hq := rebroadcastEffs_quiet s
  unfold State.tryRebroadcast State.resetReb
  dsimp only
  repeat' (first | (simp [quiet, hq]; done) | split)

theorem addCandidate_only (s : State) (k : Chain) : ∃ cs, (s.addCandidate k).1 = { s with candidates := cs } := by
  unfold State.addCandidate
  split
  · exact ⟨s.candidates, rfl⟩
  · exact ⟨_, rfl⟩

theorem addCandidatePrefixes_only (s : State) (k : Chain) :
    ∃ cs, (s.addCandidatePrefixes k).1 = { s with candidates := cs } := by
  unfold State.addCandidatePrefixes
  generalize ((List.range (k.length - 1)).reverse.map (· + 1)) = l
  suffices h : ∀ (acc : State × Bool), (∃ cs, acc.1 = { s with candidates := cs }) →
      ∃ cs, (l.foldl (fun (acc : State × Bool) l =>
        let r := acc.1.addCandidate (prefixTo k l); (r.1, acc.2 || r.2)) acc).1 = { s with candidates := cs } from
    h (s, false) ⟨s.candidates, rfl⟩
  induction l with
  | nil => intro acc h; simpa using h
  | cons x xs ih =>
    intro acc h
    simp only [List.foldl_cons]
    apply ih
    obtain ⟨cs, hcs⟩ := h
    obtain ⟨cs', hcs'⟩ := addCandidate_only acc.1 (prefixTo k x)
    exact ⟨cs', by rw [hcs', hcs]⟩

/-! ## the invariants -/

def sendersOf (s : State) : Phase → List Pid
  | .quality => s.quality.senders
  | .prepare => (s.getRound 0).prepared.senders
  | .commit => (s.getRound 0).committed.senders
  | .decide => s.decision.senders
  | _ => []

theorem sendersOf_core {s s' : State} (h : Core s s') (ph : Phase) : sendersOf s' ph = sendersOf s ph := by
  obtain ⟨_, _, _, _, hq, hd, _⟩ := h.fields
  cases ph <;> simp only [sendersOf, h.getRound, hq, hd]

section
variable (t : Table) (c : Chain) (H : List Pid)

/-- phase-independent shape of the state -/
structure SInv (s : State) : Prop where
  tbl : s.tbl = t
  input : s.input = c
  round : s.round = 0
  proposal : s.proposal = c
  rounds : s.rounds = [(0, s.getRound 0)]
  qt : QT t c s.quality
  prep : UT t c H .initial (s.getRound 0).prepared
  comm : UT t c H .prepare (s.getRound 0).committed
  dec : UT t c H .commit s.decision
  term : ∀ d, s.termination = some d → d.value = c

variable {t c H}

theorem SInv.core {s s' : State} (h : SInv t c H s) (hc : Core s s') (hp : s'.proposal = c) : SInv t c H s' := by
  obtain ⟨h1, h2, h3, h4, h5, h6, h7⟩ := hc.fields
  have hg := hc.getRound 0
  exact ⟨h1 ▸ h.tbl, h2 ▸ h.input, h3 ▸ h.round, hp, by rw [h4, hg]; exact h.rounds, h5 ▸ h.qt, hg ▸ h.prep,
    hg ▸ h.comm, h6 ▸ h.dec, h7 ▸ h.term⟩

theorem SInv.getRound1 {s : State} (h : SInv t c H s) : s.getRound 1 = {} := by
  unfold State.getRound
  rw [h.rounds]
  rfl

end

/-! the phase-dependent facts: a node that holds a strong quorum has moved on -/
def A1 (c : Chain) (s : State) : Prop := s.quality.hasStrongFor c = false
def A2 (p : Pid) (s : State) : Prop := p ∉ (s.getRound 0).prepared.senders
def A2' (c : Chain) (p : Pid) (s : State) : Prop :=
  p ∈ (s.getRound 0).prepared.senders → (s.getRound 0).prepared.hasStrongFor c = false
def A3 (c : Chain) (s : State) : Prop := (s.getRound 0).committed.hasStrongFor c = false
def A4 (s : State) : Prop := s.decision.senders = []
def A5 (c : Chain) (s : State) : Prop := s.decision.hasStrongFor c = false

def PI (c : Chain) (p : Pid) (s : State) : Phase → Prop
  | .initial => A1 c s ∧ A2 p s ∧ A3 c s ∧ A4 s
  | .quality => A1 c s ∧ A2 p s ∧ A3 c s ∧ A4 s
  | .prepare => A2' c p s ∧ A3 c s ∧ A4 s
  | .commit => A3 c s ∧ A4 s
  | .decide => A5 c s
  | .terminated => ∃ d, s.termination = some d
  | .converge => False

theorem PI.core {c : Chain} {p : Pid} {s s' : State} {ph : Phase} (h : PI c p s ph) (hc : Core s s') : PI c p s' ph := by
  obtain ⟨_, _, _, _, hq, hd, ht⟩ := hc.fields
  have hg := hc.getRound 0
  cases ph <;> simp only [PI, A1, A2, A2', A3, A4, A5, hg, hq, hd, ht] at h ⊢ <;> exact h

section
variable {t : Table} {c : Chain} {H : List Pid}

/-- what one call of a model function guarantees -/
structure Good (t : Table) (c : Chain) (H : List Pid) (p : Pid) (s : State) (r : R) : Prop where
  nofail : hasFailure r.2 = false
  sinv : SInv t c H r.1
  pi : PI c p r.1 r.1.phase
  mono : ∀ ph x, x ∈ sendersOf s ph → x ∈ sendersOf r.1 ph
  trans : Trans p c s.phase r.1.phase (sent p r.2)

theorem Good.of_core {p : Pid} {s s' : State} {es : List Eff} (hs : SInv t c H s) (hc : Core s s')
    (hp : s'.proposal = c) (hpi : PI c p s s'.phase) (hnf : hasFailure es = false)
    (htr : Trans p c s.phase s'.phase (sent p es)) : Good t c H p s (s', es) :=
  ⟨hnf, hs.core hc hp, hpi.core hc, fun ph x hx => by rw [sendersOf_core hc]; exact hx, htr⟩

theorem Good.pre {p : Pid} {s s1 : State} {r : R} (hph : s.phase = s1.phase)
    (hm : ∀ ph x, x ∈ sendersOf s ph → x ∈ sendersOf s1 ph) (g : Good t c H p s1 r) : Good t c H p s r :=
  ⟨g.nofail, g.sinv, g.pi, fun ph x hx => g.mono ph x (hm ph x hx), hph ▸ g.trans⟩

theorem Good.stay {p : Pid} {s : State} (hs : SInv t c H s) (hpi : PI c p s s.phase) : Good t c H p s (s, []) :=
  Good.of_core hs (Core.refl s) hs.proposal hpi rfl (Trans.same _)

theorem Good.reb {p : Pid} {s : State} (now : Int) (hs : SInv t c H s) (hpi : PI c p s s.phase) :
    Good t c H p s (s.tryRebroadcast now) := by
  have hq := tryRebroadcast_quiet s now
  have hph := tryRebroadcast_phase' s now
  have hpr : (s.tryRebroadcast now).1.proposal = c := by
    rw [← hs.proposal]
    unfold State.tryRebroadcast State.resetReb
    dsimp only
    repeat' (first | rfl | split)
  refine Good.of_core (s' := (s.tryRebroadcast now).1) (es := (s.tryRebroadcast now).2) hs
    (tryRebroadcast_core s now) hpr (by rw [hph]; exact hpi) (quiet_nofail _ hq) ?_
  rw [quiet_sent p _ hq, hph]
  exact Trans.same _

/-! ## QUALITY -/

theorem tryQuality_go (s : State) (now : Int) (hph : s.phase = .quality)
    (hcond : (s.quality.hasStrongFor s.proposal || s.phaseTimeoutElapsed now) = true) :
    ∃ cs, s.tryQuality now =
      ({ s with proposal := s.quality.longestPrefixWithQuorum s.input, candidates := cs,
                value := s.quality.longestPrefixWithQuorum s.input } : State).beginPrepare now none := by
  obtain ⟨cs, hcs⟩ := addCandidatePrefixes_only
    ({ s with proposal := s.quality.longestPrefixWithQuorum s.input } : State) (s.quality.longestPrefixWithQuorum s.input)
  refine ⟨cs, ?_⟩
  unfold State.tryQuality
  rw [if_neg (by simp [hph])]
  simp only [hcond, if_true]
  rw [hcs]

theorem tryQuality_stay (s : State) (now : Int) (hph : s.phase = .quality)
    (hcond : ¬ (s.quality.hasStrongFor s.proposal || s.phaseTimeoutElapsed now) = true) :
    s.tryQuality now = (s, []) := by
  unfold State.tryQuality
  rw [if_neg (by simp [hph])]
  dsimp only
  rw [if_neg hcond]

theorem tryQuality_good (hctx : Ctx t c H) {p : Pid} (hpH : p ∈ H) {s : State} (now : Int) (hs : SInv t c H s)
    (hph : s.phase = .quality) (h2 : A2 p s) (h3 : A3 c s) (h4 : A4 s)
    (hsync : s.phaseTimeoutElapsed now = true → ∀ h ∈ H, h ∈ s.quality.senders) :
    Good t c H p s (s.tryQuality now) := by
  by_cases hcond : (s.quality.hasStrongFor s.proposal || s.phaseTimeoutElapsed now) = true
  · have hl : s.quality.longestPrefixWithQuorum s.input = c := by
      rw [hs.input]
      by_cases hlen : 2 ≤ c.length
      · apply lpq_strong
        rw [hs.proposal, Bool.or_eq_true] at hcond
        rcases hcond with hf | he
        · exact hf
        · exact hs.qt.strong_of_all hctx hlen (List.ne_nil_of_mem hpH) (hsync he)
      · exact lpq_single _ c hctx.cne hlen
    obtain ⟨cs, heq⟩ := tryQuality_go s now hph hcond
    rw [heq, hl]
    refine Good.of_core hs (by core_rfl) rfl ?_ rfl ?_
    · exact ⟨fun hp => absurd hp h2, h3, h4⟩
    · show Trans p c s.phase .prepare (sent p [_, _, Eff.broadcast s.round .prepare c false none])
      rw [hph, hs.round]
      exact Trans.q2p
  · rw [tryQuality_stay s now hph hcond]
    have hnf : s.quality.hasStrongFor c = false := by
      rw [hs.proposal] at hcond
      cases hq : s.quality.hasStrongFor c
      · rfl
      · rw [hq] at hcond; simp at hcond
    exact Good.stay hs (by rw [hph]; exact ⟨hnf, h2, h3, h4⟩)

/-! ## PREPARE -/

theorem tryPrepare_go (s : State) (now : Int) (hph : s.phase = .prepare)
    (hcond : (s.prepFoundQuorum || s.prepFoundJust || s.prepNotPossible || s.prepComplete now) = true) :
    s.tryPrepare now = (s.prepareValue now).beginCommit now := by
  unfold State.tryPrepare
  rw [if_neg (by simp [hph])]
  dsimp only
  rw [if_pos hcond]

theorem tryPrepare_stay (s : State) (now : Int) (hph : s.phase = .prepare)
    (hcond : (s.prepFoundQuorum || s.prepFoundJust || s.prepNotPossible || s.prepComplete now) = false) :
    s.tryPrepare now = if s.shouldRebroadcast now = true then s.tryRebroadcast now else (s, []) := by
  have hpv : s.prepareValue now = s := by
    simp only [Bool.or_eq_false_iff] at hcond
    unfold State.prepareValue
    simp [hcond.1.1.1, hcond.1.1.2, hcond.1.2, hcond.2]
  unfold State.tryPrepare
  rw [if_neg (by simp [hph])]
  dsimp only
  rw [if_neg (by simp [hcond]), hpv]

theorem prepareValue_found (s : State) (now : Int) (h : (s.prepFoundQuorum || s.prepFoundJust) = true) :
    s.prepareValue now = { s with value := s.proposal } := by
  unfold State.prepareValue
  rw [if_pos h]

theorem beginCommit_eq (s : State) (now : Int) (j : Just) (hv : s.value.isEmpty = false) (hj : s.commitJust = .ok j) :
    s.beginCommit now =
      ({ s with phase := .commit, phaseTimeout := now + s.roundTimeout, rebAttempts := 0, rebTimeout := none },
       [.progress s.round .commit, .setAlarm (now + s.roundTimeout), .broadcast s.round .commit s.value false (some j)]) := by
  unfold State.beginCommit State.alarmAfter State.resetReb
  dsimp only
  rw [if_neg (by simp [hv])]
  have : State.commitJust { s with phase := .commit, phaseTimeout := now + State.roundTimeout { s with phase := .commit }, rebAttempts := 0, rebTimeout := none } = s.commitJust := rfl
  rw [this, hj]
  rfl

theorem fsqf_none (t : Table) (T : Tally) (c : Chain) (h : T.hasStrongFor c = false) :
    T.findStrongQuorumFor t c = .none := by
  unfold Tally.hasStrongFor at h
  unfold Tally.findStrongQuorumFor
  cases hf : T.findSupport c with
  | none => rfl
  | some e =>
    rw [hf] at h
    dsimp only at h ⊢
    rw [if_pos (by simp [h])]

theorem getJustOf_empty (ph : Phase) (c : Chain) : ({} : Tally).getJustOf ph c = none := by
  unfold Tally.getJustOf; split <;> rfl

theorem conv_getJustOf_empty (ph : Phase) (c : Chain) : ({} : Conv).getJustOf ph c = none := by
  unfold Conv.getJustOf; split <;> rfl

theorem commitJust_ok (hctx : Ctx t c H) {s : State} (hs : SInv t c H s) (hv : s.value = c)
    (h : (s.prepFoundQuorum || s.prepFoundJust) = true) :
    ∃ j, s.commitJust = .ok j ∧ JustFor c .prepare j := by
  unfold State.commitJust
  dsimp only
  rw [hs.round, hs.tbl, hv]
  by_cases hq : (s.getRound 0).prepared.hasStrongFor c = true
  · obtain ⟨sg, hsg⟩ := hs.prep.fsqf hctx hq
    rw [hsg]
    exact ⟨_, rfl, rfl, rfl, rfl⟩
  · have hq' : (s.getRound 0).prepared.hasStrongFor c = false := by simpa using hq
    rw [fsqf_none t _ c hq']
    dsimp only
    have hfj : ((s.getRound 0).committed.getJustOf .prepare c).isSome = true := by
      unfold State.prepFoundQuorum State.prepFoundJust at h
      rw [hs.round, hs.proposal, hq'] at h
      simp only [Nat.zero_add, hs.getRound1] at h
      rw [getJustOf_empty, conv_getJustOf_empty] at h
      simpa using h
    cases hg : (s.getRound 0).committed.getJustOf .prepare c with
    | none => rw [hg] at hfj; cases hfj
    | some j => exact ⟨j, rfl, hs.comm.getJustOf hctx.cne _ _ hg⟩

theorem isEmpty_false_of_ne {c : Chain} (h : c ≠ []) : c.isEmpty = false := by
  cases c <;> simp_all

theorem tryPrepare_good (hctx : Ctx t c H) {p : Pid} (hpH : p ∈ H) {s : State} (now : Int) (hs : SInv t c H s)
    (hph : s.phase = .prepare) (h3 : A3 c s) (h4 : A4 s)
    (hsync : s.phaseTimeoutElapsed now = true → ∀ h ∈ H, h ∈ (s.getRound 0).prepared.senders) :
    Good t c H p s (s.tryPrepare now) := by
  have hnp : s.prepNotPossible = false := by
    unfold State.prepNotPossible
    rw [hs.round, hs.tbl, hs.proposal, hs.prep.couldReach]; rfl
  have hfq : s.prepFoundQuorum = (s.getRound 0).prepared.hasStrongFor c := by
    unfold State.prepFoundQuorum; rw [hs.round, hs.proposal]
  by_cases hfound : (s.prepFoundQuorum || s.prepFoundJust) = true
  · have hcond : (s.prepFoundQuorum || s.prepFoundJust || s.prepNotPossible || s.prepComplete now) = true := by
      rw [hfound]; rfl
    rw [tryPrepare_go s now hph hcond, prepareValue_found s now hfound]
    have hs' : SInv t c H ({ s with value := s.proposal } : State) := hs.core (by core_rfl) hs.proposal
    obtain ⟨j, hj, hjf⟩ := commitJust_ok hctx hs' hs.proposal hfound
    rw [beginCommit_eq _ now j (by show s.proposal.isEmpty = false; rw [hs.proposal]; exact isEmpty_false_of_ne hctx.cne) hj]
    refine Good.of_core hs (by core_rfl) hs.proposal ⟨h3, h4⟩ rfl ?_
    show Trans p c s.phase .commit (sent p [_, _, Eff.broadcast s.round .commit s.proposal false (some j)])
    rw [hph, hs.round, hs.proposal]
    exact Trans.p2c j hjf
  · have hfound' : (s.prepFoundQuorum || s.prepFoundJust) = false := by simpa using hfound
    have hnq : (s.getRound 0).prepared.hasStrongFor c = false := by
      rw [← hfq]
      cases hx : s.prepFoundQuorum
      · rfl
      · rw [hx] at hfound'; simp at hfound'
    have hpc : s.prepComplete now = false := by
      cases hx : s.prepComplete now
      · rfl
      · exfalso
        unfold State.prepComplete at hx
        simp only [Bool.and_eq_true] at hx
        have := hs.prep.strong_of_all hctx (List.ne_nil_of_mem hpH) (hsync hx.1)
        rw [hnq] at this; cases this
    have hcond : (s.prepFoundQuorum || s.prepFoundJust || s.prepNotPossible || s.prepComplete now) = false := by
      rw [hfound', hnp, hpc]; rfl
    rw [tryPrepare_stay s now hph hcond]
    have hpi : PI c p s s.phase := by rw [hph]; exact ⟨fun _ => hnq, h3, h4⟩
    split
    · exact Good.reb now hs hpi
    · exact Good.stay hs hpi

/-! ## COMMIT -/

theorem tryCommit_one (s : State) (now : Int) (round : Nat) (c : Chain) (hc : c.isEmpty = false)
    (h : (s.getRound round).committed.findStrongQuorumValue = .one c) :
    s.tryCommit now round = ({ s with value := c } : State).beginDecide round := by
  unfold State.tryCommit
  dsimp only
  rw [h]
  dsimp only
  rw [if_pos (by simp [hc])]

theorem tryCommit_none_other (s : State) (now : Int) (round : Nat) (hph : s.phase ≠ .commit)
    (h : (s.getRound round).committed.findStrongQuorumValue = .none) :
    s.tryCommit now round = (s, []) := by
  unfold State.tryCommit
  dsimp only
  rw [h]
  dsimp only
  rw [if_pos (by simp [hph])]

theorem tryCommit_none_commit (s : State) (now : Int) (hph : s.phase = .commit) (hr : s.round = 0)
    (h : (s.getRound 0).committed.findStrongQuorumValue = .none) (hb : s.foundJustBottom 0 = false)
    (hc : (s.phaseTimeoutElapsed now && (s.getRound 0).committed.fromStrong s.tbl) = false) :
    s.tryCommit now 0 = if s.shouldRebroadcast now = true then s.tryRebroadcast now else (s, []) := by
  unfold State.tryCommit
  dsimp only
  rw [h]
  dsimp only
  rw [if_neg (by simp [hph, hr]), if_neg (by simp [hb]), if_neg (by simp [hc])]

theorem beginDecide_eq (s : State) (round : Nat) (sg : List Nat)
    (h : (s.getRound round).committed.findStrongQuorumFor s.tbl s.value = .found sg) :
    s.beginDecide round =
      ({ s with phase := .decide, rebAttempts := 0, rebTimeout := none },
       [.progress s.round .decide,
        .broadcast 0 .decide s.value false (some { round := round, phase := .commit, value := s.value, signers := sg })]) := by
  unfold State.beginDecide State.resetReb
  dsimp only
  have : (State.getRound { s with phase := .decide, rebAttempts := 0, rebTimeout := none } round) = s.getRound round := rfl
  rw [this, h]

theorem A5_of_A4 {s : State} (hs : SInv t c H s) (h4 : A4 s) : A5 c s := by
  unfold A5
  rw [hs.dec.hasStrongFor]
  unfold A4 at h4
  simp [h4]

/-- `tryCommit` for round 0, from QUALITY, PREPARE or COMMIT; `hpi`: the rest of the phase invariant -/
theorem tryCommit_good (hctx : Ctx t c H) {p : Pid} (hpH : p ∈ H) {s : State} (now : Int) (hs : SInv t c H s)
    (hph : s.phase = .quality ∨ s.phase = .prepare ∨ s.phase = .commit) (h4 : A4 s)
    (hpi : A3 c s → PI c p s s.phase)
    (hsync : s.phase = .commit → s.phaseTimeoutElapsed now = true → ∀ h ∈ H, h ∈ (s.getRound 0).committed.senders) :
    Good t c H p s (s.tryCommit now 0) ∧
      ((s.tryCommit now 0 = (s, []) ∧ A3 c s) ∨ s.phase = .commit ∨ (s.tryCommit now 0).1.phase = .decide) := by
  have hv := hs.comm.fsqv
  by_cases hq : (s.getRound 0).committed.hasStrongFor c = true
  · rw [if_pos hq] at hv
    rw [tryCommit_one s now 0 c (isEmpty_false_of_ne hctx.cne) hv]
    obtain ⟨sg, hsg⟩ := hs.comm.fsqf hctx hq
    have hsg' : (State.getRound ({ s with value := c } : State) 0).committed.findStrongQuorumFor
        ({ s with value := c } : State).tbl ({ s with value := c } : State).value = .found sg := by
      show (s.getRound 0).committed.findStrongQuorumFor s.tbl c = .found sg
      rw [hs.tbl]; exact hsg
    rw [beginDecide_eq _ 0 sg hsg']
    refine ⟨Good.of_core hs (by core_rfl) hs.proposal (A5_of_A4 hs h4) rfl ?_, Or.inr (Or.inr rfl)⟩
    show Trans p c s.phase .decide (sent p [_, Eff.broadcast 0 .decide c false (some _)])
    exact Trans.x2d _ _ hph (Or.inl rfl) _ ⟨rfl, rfl, rfl⟩
  · have hq' : A3 c s := by simpa [A3] using hq
    rw [if_neg hq] at hv
    by_cases hc : s.phase = .commit
    · refine ⟨?_, Or.inr (Or.inl hc)⟩
      have hb : s.foundJustBottom 0 = false := by
        unfold State.foundJustBottom
        simp only [Nat.zero_add, hs.getRound1]
        rw [getJustOf_empty, conv_getJustOf_empty]
        rfl
      have hcs : (s.phaseTimeoutElapsed now && (s.getRound 0).committed.fromStrong s.tbl) = false := by
        cases hx : s.phaseTimeoutElapsed now
        · rfl
        · exfalso
          have := hs.comm.strong_of_all hctx (List.ne_nil_of_mem hpH) (hsync hc hx)
          exact hq this
      rw [tryCommit_none_commit s now hc hs.round hv hb hcs]
      split
      · exact Good.reb now hs (hpi hq')
      · exact Good.stay hs (hpi hq')
    · rw [tryCommit_none_other s now 0 hc hv]
      exact ⟨Good.stay hs (hpi hq'), Or.inl ⟨rfl, hq'⟩⟩

/-! ## DECIDE -/

theorem tryDecide_one (s : State) (now : Int) (v : Chain) (sg : List Nat)
    (h : s.decision.findStrongQuorumValue = .one v) (hf : s.decision.findStrongQuorumFor s.tbl v = .found sg) :
    s.tryDecide now = s.terminate { round := 0, phase := .decide, value := v, signers := sg } := by
  unfold State.tryDecide
  rw [h]
  dsimp only
  rw [hf]

theorem tryDecide_none (s : State) (now : Int) (h : s.decision.findStrongQuorumValue = .none) :
    s.tryDecide now = s.tryRebroadcast now := by
  unfold State.tryDecide
  rw [h]

theorem tryDecide_good (hctx : Ctx t c H) {p : Pid} {s : State} (now : Int) (hs : SInv t c H s)
    (hph : s.phase = .decide) : Good t c H p s (s.tryDecide now) := by
  have hv := hs.dec.fsqv
  by_cases hq : s.decision.hasStrongFor c = true
  · rw [if_pos hq] at hv
    obtain ⟨sg, hsg⟩ := hs.dec.fsqf hctx hq
    rw [← hs.tbl] at hsg
    rw [tryDecide_one s now c sg hv hsg]
    unfold State.terminate State.resetReb
    dsimp only
    refine ⟨rfl, ⟨hs.tbl, hs.input, hs.round, hs.proposal, hs.rounds, hs.qt, hs.prep, hs.comm, hs.dec, ?_⟩, ⟨_, rfl⟩,
      fun _ _ hx => hx, ?_⟩
    · intro d hd
      cases hd
      rfl
    · show Trans p c s.phase .terminated []
      rw [hph]; exact Trans.d2t
  · rw [if_neg hq] at hv
    rw [tryDecide_none s now hv]
    exact Good.reb now hs (by rw [hph]; simpa [PI, A5] using hq)

/-! ## `tryCurrentPhase` -/

/-- what `tryCurrentPhase` needs of the phase invariant (the rest it re-establishes itself) -/
def WPI (c : Chain) (p : Pid) (s : State) : Phase → Prop
  | .quality => A2 p s ∧ A3 c s ∧ A4 s
  | .prepare => A3 c s ∧ A4 s
  | .commit => A4 s
  | .decide => True
  | .terminated => ∃ d, s.termination = some d
  | _ => False

theorem PI.weak {c : Chain} {p : Pid} {s : State} {ph : Phase} (h : PI c p s ph) (hi : ph ≠ .initial) : WPI c p s ph := by
  cases ph
  · exact absurd rfl hi
  · exact h.2
  · exact h
  · exact h.2
  · exact h.2
  · trivial
  · exact h

def Synced (H : List Pid) (s : State) (now : Int) : Prop :=
  timedPhase s.phase = true → s.phaseTimeoutElapsed now = true → ∀ h ∈ H, h ∈ sendersOf s s.phase

theorem tryCurrentPhase_good (hctx : Ctx t c H) {p : Pid} (hpH : p ∈ H) {s : State} (now : Int) (hs : SInv t c H s)
    (hw : WPI c p s s.phase) (hsync : Synced H s now) : Good t c H p s (s.tryCurrentPhase now) := by
  unfold Synced at hsync
  unfold State.tryCurrentPhase
  cases hph : s.phase <;> rw [hph] at hw hsync <;> dsimp only
  · exact hw.elim
  · exact tryQuality_good hctx hpH now hs hph hw.1 hw.2.1 hw.2.2 (hsync rfl)
  · exact hw.elim
  · exact tryPrepare_good hctx hpH now hs hph hw.1 hw.2 (hsync rfl)
  · rw [hs.round]
    exact (tryCommit_good hctx hpH now hs (Or.inr (Or.inr hph)) hw (fun h3 => by rw [hph]; exact ⟨h3, hw⟩)
      (fun _ => hsync rfl)).1
  · exact tryDecide_good hctx now hs hph
  · exact Good.stay hs (by rw [hph]; exact hw)

/-! ## receiving -/

theorem SInv.setRound {s : State} (hs : SInv t c H s) (rs' : RoundState) (hp : UT t c H .initial rs'.prepared)
    (hc : UT t c H .prepare rs'.committed) :
    SInv t c H (s.setRound 0 rs') ∧ (s.setRound 0 rs').getRound 0 = rs' := by
  have hr : (s.setRound 0 rs').rounds = [(0, rs')] := by
    unfold State.setRound
    dsimp only
    rw [hs.rounds]
    rfl
  have hg : (s.setRound 0 rs').getRound 0 = rs' := by
    unfold State.getRound
    rw [hr]
    rfl
  refine ⟨⟨hs.tbl, hs.input, hs.round, hs.proposal, by rw [hr, hg], hs.qt, ?_, ?_, hs.dec, hs.term⟩, hg⟩
  · rw [hg]; exact hp
  · rw [hg]; exact hc

/-- the message-dependent part of the synchrony hypothesis, before the message is tallied -/
def SyncedM (H : List Pid) (s : State) (now : Int) (m : Msg) : Prop :=
  timedPhase s.phase = true → s.phaseTimeoutElapsed now = true →
    ∀ h ∈ H, h ∈ sendersOf s s.phase ∨ (m.phase = s.phase ∧ m.sender = h)

/-- after the message has been tallied (state `s1`), `tryCurrentPhase` -/
theorem after_tally (hctx : Ctx t c H) {p : Pid} (hpH : p ∈ H) {s s1 : State} (now : Int) (m : Msg)
    (hs1 : SInv t c H s1) (hph : s1.phase = s.phase) (hto : s1.phaseTimeout = s.phaseTimeout)
    (hmono : ∀ ph x, x ∈ sendersOf s ph → x ∈ sendersOf s1 ph) (hx : m.sender ∈ sendersOf s1 m.phase)
    (hw : WPI c p s1 s1.phase) (hsync : SyncedM H s now m) :
    Good t c H p s (s1.tryCurrentPhase now) ∧ m.sender ∈ sendersOf (s1.tryCurrentPhase now).1 m.phase := by
  have hsy : Synced H s1 now := by
    intro htp hel h hh
    rw [hph] at htp ⊢
    have hel' : s.phaseTimeoutElapsed now = true := by
      unfold State.phaseTimeoutElapsed at hel ⊢
      rw [← hto]; exact hel
    rcases hsync htp hel' h hh with h1 | ⟨h1, h2⟩
    · exact hmono _ _ h1
    · rw [← h1, ← h2]; exact hx
  have g := tryCurrentPhase_good hctx hpH now hs1 hw hsy
  exact ⟨Good.pre hph.symm hmono g, g.mono _ _ hx⟩

theorem shape_just {c : Chain} {m : Msg} (hm : Shape c m) :
    (m.phase = .quality → m.just = none) ∧ (m.phase = .prepare → m.just = none) ∧
    (m.phase = .commit → ∃ j, m.just = some j ∧ JustFor c .prepare j) ∧
    (m.phase = .decide → ∃ j, m.just = some j ∧ JustFor c .commit j) := by
  have h := hm.2.2.2.2
  refine ⟨?_, ?_, ?_, ?_⟩ <;> intro hp <;> rw [hp] at h <;> exact h

theorem recvQuality_good (hctx : Ctx t c H) {p : Pid} (hpH : p ∈ H) {s : State} (now : Int) (m : Msg)
    (hs : SInv t c H s) (hpi : PI c p s s.phase) (hni : s.phase ≠ .initial) (hm : Shape c m)
    (hmp : m.phase = .quality) (hsync : SyncedM H s now m) :
    Good t c H p s (s.recvQuality now m) ∧ m.sender ∈ sendersOf (s.recvQuality now m).1 m.phase := by
  obtain ⟨hq', hxin, hsub⟩ := hs.qt.receive m.sender
  have e1 : s.quality.receiveEachPrefix s.tbl m.sender m.value = s.quality.receiveEachPrefix t m.sender c := by
    rw [hs.tbl, hm.2.1]
  unfold State.recvQuality
  dsimp only
  rw [e1]
  have hs1 : SInv t c H ({ s with quality := s.quality.receiveEachPrefix t m.sender c } : State) :=
    ⟨hs.tbl, hs.input, hs.round, hs.proposal, hs.rounds, hq', hs.prep, hs.comm, hs.dec, hs.term⟩
  have hmono : ∀ ph x, x ∈ sendersOf s ph →
      x ∈ sendersOf ({ s with quality := s.quality.receiveEachPrefix t m.sender c } : State) ph := by
    intro ph x hx
    cases ph
    case quality => exact hsub x hx
    all_goals exact hx
  have hx1 : m.sender ∈ sendersOf ({ s with quality := s.quality.receiveEachPrefix t m.sender c } : State) m.phase := by
    rw [hmp]; exact hxin
  by_cases hph : s.phase = .quality
  · rw [if_neg (by simp [hph])]
    refine after_tally hctx hpH now m hs1 rfl rfl hmono hx1 ?_ hsync
    show WPI c p _ s.phase
    rw [hph] at hpi ⊢
    exact hpi.2
  · rw [if_pos (by simp [hph])]
    unfold State.updateCandidatesFromQuality
    obtain ⟨cs, hcs⟩ := addCandidatePrefixes_only ({ s with quality := s.quality.receiveEachPrefix t m.sender c } : State)
      ((s.quality.receiveEachPrefix t m.sender c).longestPrefixWithQuorum s.input)
    dsimp only at hcs ⊢
    rw [hcs]
    have hpi1 : PI c p ({ s with quality := s.quality.receiveEachPrefix t m.sender c } : State) s.phase := by
      cases hp : s.phase <;> rw [hp] at hpi
      · exact absurd hp hni
      · exact absurd hp hph
      all_goals exact hpi
    have g : Good t c H p ({ s with quality := s.quality.receiveEachPrefix t m.sender c } : State)
        ({ s with quality := s.quality.receiveEachPrefix t m.sender c, candidates := cs }, []) :=
      Good.of_core hs1 (by core_rfl) hs.proposal hpi1 rfl (Trans.same _)
    exact ⟨Good.pre (s1 := ({ s with quality := s.quality.receiveEachPrefix t m.sender c } : State)) rfl hmono g,
      g.mono _ _ hx1⟩

theorem recvPrepare_good (hctx : Ctx t c H) {p : Pid} (hpH : p ∈ H) {s : State} (now : Int) (m : Msg)
    (hs : SInv t c H s) (hpi : PI c p s s.phase) (hni : s.phase ≠ .initial) (hm : Shape c m) (hmH : m.sender ∈ H)
    (hmp : m.phase = .prepare) (hself : m.sender = p → s.phase ≠ .quality) (hsync : SyncedM H s now m) :
    Good t c H p s (s.recvPrepare now m) ∧ m.sender ∈ sendersOf (s.recvPrepare now m).1 m.phase := by
  obtain ⟨P', hrecv, hP', hxin, hsub, hsup, _⟩ := hs.prep.receive m.sender hmH
  have e1 : (s.getRound 0).prepared.receive s.tbl m.sender m.value = some P' := by
    rw [hs.tbl, hm.2.1]; exact hrecv
  unfold State.recvPrepare
  dsimp only
  rw [hm.1, e1]
  dsimp only
  unfold storePrepareJust
  rw [(shape_just hm).2.1 hmp]
  dsimp only
  obtain ⟨hs1, hg1⟩ := hs.setRound { s.getRound 0 with prepared := P' } hP' hs.comm
  refine after_tally hctx hpH now m hs1 rfl rfl ?_ ?_ ?_ hsync
  · intro ph x hx
    cases ph
    case prepare => show x ∈ (State.getRound _ 0).prepared.senders; rw [hg1]; exact hsub x hx
    case commit => show x ∈ (State.getRound _ 0).committed.senders; rw [hg1]; exact hx
    all_goals exact hx
  · rw [hmp]; show m.sender ∈ (State.getRound _ 0).prepared.senders; rw [hg1]; exact hxin
  · show WPI c p _ s.phase
    cases hp : s.phase <;> rw [hp] at hpi
    · exact absurd hp hni
    · refine ⟨?_, ?_, hpi.2.2.2⟩
      · show p ∉ (State.getRound _ 0).prepared.senders
        rw [hg1]
        intro hin
        rcases hsup p hin with h | h
        · exact hpi.2.1 h
        · exact hself h.symm hp
      · show (State.getRound _ 0).committed.hasStrongFor c = false
        rw [hg1]; exact hpi.2.2.1
    · exact hpi.elim
    · refine ⟨?_, hpi.2.2⟩
      show (State.getRound _ 0).committed.hasStrongFor c = false
      rw [hg1]; exact hpi.2.1
    · exact hpi.2
    · trivial
    · exact hpi

theorem andThen_nil (s : State) (f : State → R) : andThen (s, []) f = f s := by
  unfold andThen
  simp [hasFailure]

theorem andThen_ok (r : R) (f : State → R) (h : hasFailure r.2 = false) :
    andThen r f = ((f r.1).1, r.2 ++ (f r.1).2) := by
  unfold andThen
  rw [if_neg (by simp [h])]

theorem Trans.from_commit {p : Pid} {c : Chain} {b : Phase} {ms : List Msg} (h : Trans p c .commit b ms) :
    b = .commit ∨ b = .decide ∨ b = .terminated := by
  cases h with
  | same => exact Or.inl rfl
  | x2d _ _ _ hb _ _ => exact Or.inr hb

theorem Trans.from_decide {p : Pid} {c : Chain} {b : Phase} {ms : List Msg} (h : Trans p c .decide b ms) :
    (b = .decide ∨ b = .terminated) ∧ ms = [] := by
  cases h with
  | same => exact ⟨Or.inl rfl, rfl⟩
  | x2d _ _ ha _ _ _ => rcases ha with ha | ha | ha <;> cases ha
  | d2t => exact ⟨Or.inr rfl, rfl⟩

theorem recvCommit_good (hctx : Ctx t c H) {p : Pid} (hpH : p ∈ H) {s : State} (now : Int) (m : Msg)
    (hs : SInv t c H s) (hpi : PI c p s s.phase) (hni : s.phase ≠ .initial) (hnt : s.phase ≠ .terminated)
    (hm : Shape c m) (hmH : m.sender ∈ H) (hmp : m.phase = .commit) (hsync : SyncedM H s now m) :
    Good t c H p s (s.recvCommit now m) ∧ m.sender ∈ sendersOf (s.recvCommit now m).1 m.phase := by
  obtain ⟨C', hrecv, hC', hxin, hsub, hsup, _⟩ := hs.comm.receive m.sender hmH
  obtain ⟨j, hj, hjf⟩ := (shape_just hm).2.2.1 hmp
  have e1 : (s.getRound 0).committed.receive s.tbl m.sender m.value = some C' := by
    rw [hs.tbl, hm.2.1]; exact hrecv
  have hve : m.value.isEmpty = false := by rw [hm.2.1]; exact isEmpty_false_of_ne hctx.cne
  have e2 : storeCommitJust C' m = C'.receiveJust c j := by
    unfold storeCommitJust
    rw [hj]
    dsimp only
    rw [if_neg (by simp [hve]), hm.2.1]
  unfold State.recvCommit
  dsimp only
  rw [hm.1, e1]
  dsimp only
  rw [if_neg (by simp [hj]), e2]
  have hC'' : UT t c H .prepare (C'.receiveJust c j) := hC'.receiveJust j hjf
  obtain ⟨hs1, hg1⟩ := hs.setRound { s.getRound 0 with committed := C'.receiveJust c j } hs.prep hC''
  have hph1 : (s.setRound 0 { s.getRound 0 with committed := C'.receiveJust c j }).phase = s.phase := rfl
  have hto1 : (s.setRound 0 { s.getRound 0 with committed := C'.receiveJust c j }).phaseTimeout = s.phaseTimeout := rfl
  have hdec1 : (s.setRound 0 { s.getRound 0 with committed := C'.receiveJust c j }).decision = s.decision := rfl
  have hq1 : (s.setRound 0 { s.getRound 0 with committed := C'.receiveJust c j }).quality = s.quality := rfl
  generalize s.setRound 0 { s.getRound 0 with committed := C'.receiveJust c j } = s1 at *
  have hP1 : (s1.getRound 0).prepared = (s.getRound 0).prepared := by rw [hg1]
  have hC1 : (s1.getRound 0).committed.senders = C'.senders := by rw [hg1]; exact receiveJust_senders _ _ _
  have hmono : ∀ ph x, x ∈ sendersOf s ph → x ∈ sendersOf s1 ph := by
    intro ph x hx
    cases ph
    case prepare => show x ∈ (s1.getRound 0).prepared.senders; rw [hP1]; exact hx
    case commit => show x ∈ (s1.getRound 0).committed.senders; rw [hC1]; exact hsub x hx
    case quality => show x ∈ s1.quality.senders; rw [hq1]; exact hx
    case decide => show x ∈ s1.decision.senders; rw [hdec1]; exact hx
    all_goals exact hx
  have hx1 : m.sender ∈ sendersOf s1 m.phase := by
    rw [hmp]; show m.sender ∈ (s1.getRound 0).committed.senders; rw [hC1]; exact hxin
  by_cases hd : s.phase = .decide
  · rw [if_neg (by simp [hph1, hd])]
    refine after_tally hctx hpH now m hs1 hph1 hto1 hmono hx1 ?_ hsync
    rw [hph1, hd]; trivial
  · rw [if_pos (by simp [hph1, hd])]
    have hph' : s1.phase = .quality ∨ s1.phase = .prepare ∨ s1.phase = .commit := by
      rw [hph1]
      cases hp : s.phase <;> rw [hp] at hpi <;> simp_all [PI]
    have h4 : A4 s1 := by
      show s1.decision.senders = []
      rw [hdec1]
      cases hp : s.phase <;> rw [hp] at hpi
      · exact hpi.2.2.2
      · exact hpi.2.2.2
      · exact hpi.elim
      · exact hpi.2.2
      · exact hpi.2
      · exact absurd hp hd
      · exact absurd hp hnt
    have hpi' : A3 c s1 → PI c p s1 s1.phase := by
      intro h3
      rw [hph1]
      cases hp : s.phase <;> rw [hp] at hpi
      · exact absurd hp hni
      · refine ⟨?_, ?_, h3, h4⟩
        · show s1.quality.hasStrongFor c = false
          rw [hq1]; exact hpi.1
        · show p ∉ (s1.getRound 0).prepared.senders
          rw [hP1]; exact hpi.2.1
      · exact hpi.elim
      · refine ⟨?_, h3, h4⟩
        show p ∈ (s1.getRound 0).prepared.senders → (s1.getRound 0).prepared.hasStrongFor c = false
        rw [hP1]; exact hpi.1
      · exact ⟨h3, h4⟩
      · exact absurd hp hd
      · exact absurd hp hnt
    have hsy : s1.phase = .commit → s1.phaseTimeoutElapsed now = true → ∀ h ∈ H, h ∈ (s1.getRound 0).committed.senders := by
      intro hc hel h hh
      rw [hph1] at hc
      have hel' : s.phaseTimeoutElapsed now = true := by
        unfold State.phaseTimeoutElapsed at hel ⊢
        rw [← hto1]; exact hel
      rw [hC1]
      rcases hsync (by rw [hc]; rfl) hel' h hh with h1 | ⟨_, h2⟩
      · rw [hc] at h1; exact hsub h h1
      · rw [← h2]; exact hxin
    obtain ⟨g, hcase⟩ := tryCommit_good hctx hpH now hs1 hph' h4 hpi' hsy
    rcases hcase with ⟨heq, h3⟩ | hc | hdc
    · rw [heq]
      dsimp only
      by_cases hp : s.phase = .prepare
      · rw [if_pos (by simp [hph1, hp, hs1.round, hve])]
        rw [andThen_nil]
        refine after_tally hctx hpH now m hs1 hph1 hto1 hmono hx1 ?_ hsync
        rw [hph1, hp]; exact ⟨h3, h4⟩
      · rw [if_neg (by simp [hph1, hp])]
        have g0 : Good t c H p s1 (s1, []) := Good.stay hs1 (hpi' h3)
        exact ⟨Good.pre hph1.symm hmono g0, hx1⟩
    · have hne : (s1.tryCommit now 0).1.phase ≠ .prepare := by
        have := g.trans
        rw [hc] at this
        rcases this.from_commit with h | h | h <;> rw [h] <;> simp
      rw [if_neg (by simp [hne])]
      exact ⟨Good.pre hph1.symm hmono g, g.mono _ _ hx1⟩
    · rw [if_neg (by simp [hdc])]
      exact ⟨Good.pre hph1.symm hmono g, g.mono _ _ hx1⟩

/-- the state after `skipToDecide` -/
abbrev afterSkip (s : State) (D' : Tally) (c : Chain) : State :=
  { s with decision := D', phase := .decide, proposal := c, value := c, rebAttempts := 0, rebTimeout := none }

theorem recvDecide_good (hctx : Ctx t c H) {p : Pid} (hpH : p ∈ H) {s : State} (now : Int) (m : Msg)
    (hs : SInv t c H s) (hpi : PI c p s s.phase) (hni : s.phase ≠ .initial) (hnt : s.phase ≠ .terminated)
    (hm : Shape c m) (hmH : m.sender ∈ H) (hmp : m.phase = .decide) (hsync : SyncedM H s now m) :
    Good t c H p s (s.recvDecide now m) ∧ m.sender ∈ sendersOf (s.recvDecide now m).1 m.phase := by
  obtain ⟨D', hrecv, hD', hxin, hsub, hsup, _⟩ := hs.dec.receive m.sender hmH
  obtain ⟨j, hj, hjf⟩ := (shape_just hm).2.2.2 hmp
  have e1 : s.decision.receive s.tbl m.sender m.value = some D' := by
    rw [hs.tbl, hm.2.1]; exact hrecv
  unfold State.recvDecide
  rw [e1]
  dsimp only
  have hs1 : SInv t c H ({ s with decision := D' } : State) :=
    ⟨hs.tbl, hs.input, hs.round, hs.proposal, hs.rounds, hs.qt, hs.prep, hs.comm, hD', hs.term⟩
  have hmono : ∀ ph x, x ∈ sendersOf s ph → x ∈ sendersOf ({ s with decision := D' } : State) ph := by
    intro ph x hx
    cases ph
    case decide => exact hsub x hx
    all_goals exact hx
  have hx1 : m.sender ∈ sendersOf ({ s with decision := D' } : State) m.phase := by
    rw [hmp]; exact hxin
  by_cases hd : s.phase = .decide
  · rw [if_neg (by simp [hd])]
    refine after_tally hctx hpH now m hs1 rfl rfl hmono hx1 ?_ hsync
    show WPI c p _ s.phase
    rw [hd]; trivial
  · rw [if_pos (by simp [hd])]
    have hph' : s.phase = .quality ∨ s.phase = .prepare ∨ s.phase = .commit := by
      cases hp : s.phase <;> rw [hp] at hpi <;> simp_all [PI]
    rw [hm.2.1, hj]
    have hsk : State.skipToDecide ({ s with decision := D' } : State) c (some j) =
        (afterSkip s D' c, [.progress s.round .decide, .broadcast 0 .decide c false (some j)]) := rfl
    rw [hsk, andThen_ok _ _ rfl]
    dsimp only
    have hs2 : SInv t c H (afterSkip s D' c) := hs1.core (by core_rfl) rfl
    have htc : State.tryCurrentPhase (afterSkip s D' c) now = State.tryDecide (afterSkip s D' c) now := rfl
    rw [htc]
    have g2 := tryDecide_good (p := p) hctx now hs2 rfl
    generalize State.tryDecide (afterSkip s D' c) now = r2 at g2 ⊢
    obtain ⟨hb, hms⟩ := g2.trans.from_decide
    refine ⟨⟨?_, g2.sinv, g2.pi, fun ph x hx => g2.mono ph x (hmono ph x hx), ?_⟩, g2.mono _ _ hx1⟩
    · show hasFailure ([Eff.progress s.round .decide, .broadcast 0 .decide c false (some j)] ++ r2.2) = false
      rw [hasFailure_append, g2.nofail]; rfl
    · show Trans p c s.phase r2.1.phase (sent p ([Eff.progress s.round .decide, .broadcast 0 .decide c false (some j)] ++ r2.2))
      rw [sent_append, hms, List.append_nil]
      exact Trans.x2d _ _ hph' hb j hjf

/-! ## the three API calls -/

theorem recvPre_accept {s : State} (hs : SInv t c H s) (hc : c ≠ []) (hnt : s.phase ≠ .terminated) {m : Msg}
    (hm : Shape c m) : s.recvPre m = .accept := by
  unfold State.recvPre
  have hb : hasBase c c.head? = true := by
    cases c with
    | nil => exact absurd rfl hc
    | cons a as => simp [hasBase]
  rw [if_neg (by simp [hm.2.2.2.1]), if_neg (by simp [hm.2.2.1]),
    if_neg (by rw [hm.2.1, hs.input, hb]; simp), if_neg (by simp [hnt]), if_neg (by simp [hm.1, hs.round]),
    if_neg (by simp [hm.1])]

theorem step_recv_eq (s : State) (now : Int) (m : Msg) (hnt : s.phase ≠ .terminated)
    (hnf : hasFailure (s.receiveOne now m).1.2 = false) (hr : m.round ≤ (s.receiveOne now m).1.1.round) :
    step s (.recv now m) = (s.receiveOne now m).1 := by
  unfold step
  dsimp only
  rw [if_neg (by simp [hnt])]
  generalize s.receiveOne now m = x at *
  obtain ⟨r, ch⟩ := x
  dsimp only at *
  rw [if_neg (by simp [hnf])]
  split
  · rw [andThen_ok _ _ hnf, postReceive_noop _ _ _ hr]
    simp
  · rfl

theorem Good.round {p : Pid} {s : State} {r : R} (g : Good t c H p s r) : r.1.round = 0 := g.sinv.round

theorem step_recv_good (hctx : Ctx t c H) {p : Pid} (hpH : p ∈ H) {s : State} (now : Int) (m : Msg)
    (hs : SInv t c H s) (hpi : PI c p s s.phase) (hni : s.phase ≠ .initial) (hnt : s.phase ≠ .terminated)
    (hm : Shape c m) (hmH : m.sender ∈ H) (hself : m.phase = .prepare → m.sender = p → s.phase ≠ .quality)
    (hsync : SyncedM H s now m) :
    Good t c H p s (step s (.recv now m)) ∧ m.sender ∈ sendersOf (step s (.recv now m)).1 m.phase := by
  have hpre := recvPre_accept hs hctx.cne hnt hm
  have key : ∀ r : R, (s.receiveOne now m).1 = r →
      (Good t c H p s r ∧ m.sender ∈ sendersOf r.1 m.phase) →
      Good t c H p s (step s (.recv now m)) ∧ m.sender ∈ sendersOf (step s (.recv now m)).1 m.phase := by
    intro r hr hg
    have : step s (.recv now m) = r := by
      rw [step_recv_eq s now m hnt (by rw [hr]; exact hg.1.nofail) (by rw [hr, hm.1]; exact Nat.zero_le _), hr]
    rw [this]; exact hg
  have hcases : m.phase = .quality ∨ m.phase = .prepare ∨ m.phase = .commit ∨ m.phase = .decide := by
    have hsh := hm.2.2.2.2
    cases hmp : m.phase <;> rw [hmp] at hsh <;> simp_all
  rcases hcases with hmp | hmp | hmp | hmp
  · exact key _ (by unfold State.receiveOne; rw [hpre, hmp]) (recvQuality_good hctx hpH now m hs hpi hni hm hmp hsync)
  · exact key _ (by unfold State.receiveOne; rw [hpre, hmp])
      (recvPrepare_good hctx hpH now m hs hpi hni hm hmH hmp (hself hmp) hsync)
  · exact key _ (by unfold State.receiveOne; rw [hpre, hmp])
      (recvCommit_good hctx hpH now m hs hpi hni hnt hm hmH hmp hsync)
  · exact key _ (by unfold State.receiveOne; rw [hpre, hmp])
      (recvDecide_good hctx hpH now m hs hpi hni hnt hm hmH hmp hsync)

theorem step_alarm_good (hctx : Ctx t c H) {p : Pid} (hpH : p ∈ H) {s : State} (now : Int)
    (hs : SInv t c H s) (hpi : PI c p s s.phase) (hni : s.phase ≠ .initial) (hsync : Synced H s now) :
    Good t c H p s (step s (.alarm now)) :=
  tryCurrentPhase_good hctx hpH now hs (hpi.weak hni) hsync

theorem step_alarm_fired (s : State) (now : Int) (hph : s.phase = .quality) (hel : s.phaseTimeoutElapsed now = true) :
    (step s (.alarm now)).1.phase = .prepare := by
  show (s.tryCurrentPhase now).1.phase = .prepare
  unfold State.tryCurrentPhase
  rw [hph]
  dsimp only
  obtain ⟨cs, heq⟩ := tryQuality_go s now hph (by rw [hel]; simp)
  rw [heq]
  rfl

theorem step_start_good {p : Pid} {s : State} (now : Int) (hs : SInv t c H s) (hpi : PI c p s s.phase)
    (hph : s.phase = .initial) : Good t c H p s (step s (.start now)) := by
  show Good t c H p s (s.beginQuality now)
  unfold State.beginQuality
  rw [if_neg (by simp [hph])]
  unfold State.alarmAfter State.resetReb
  dsimp only
  rw [hph] at hpi
  refine Good.of_core hs (by core_rfl) hs.proposal hpi rfl ?_
  show Trans p c s.phase .quality (sent p [_, _, Eff.broadcast s.round .quality s.proposal false none])
  rw [hph, hs.round, hs.proposal]
  exact Trans.start

theorem init_inv (cfg : Cfg) (t : Table) (c : Chain) (H : List Pid) (p : Pid) :
    SInv t c H (init cfg t c) ∧ PI c p (init cfg t c) (init cfg t c).phase := by
  refine ⟨⟨rfl, rfl, rfl, rfl, rfl, QT_empty, UT_empty, UT_empty, UT_empty, ?_⟩, ?_⟩
  · intro d hd; cases hd
  · exact ⟨rfl, by simp [A2, State.getRound, init], rfl, rfl⟩

end

end F3.Sync


