import F3.Model.Participant
import F3.Proofs.GenTie
import F3.Gen.Instance
/-! Helper lemmas for the `section Regenerated` of `Props/C07.lean`: phase constants of the generated code
(`F3.Gen.Instance`, integers read from `gpbft/types.go`) against the model's `Phase`. -/
namespace F3.Proofs.InstanceGen
open F3.Instance

/-- the model's `Phase.toNat` is injective and is the Go constant: `==` on phases is `=` on codes -/
theorem phase_beq_code (p q : Phase) : (p == q) = decide ((p.toNat : Int) = (q.toNat : Int)) := by
  cases p <;> cases q <;> rfl

theorem isNone_eq_not_isSome {α : Type} (o : Option α) : o.isNone = !o.isSome := by cases o <;> rfl

end F3.Proofs.InstanceGen
