import F3.Proofs.ParticipantInv
import F3.Proofs.BridgeEx
/-!
# Bridge at the participant API: honest executions given as `POp` sequences

The same statements as `F3.Bridge.rules_of_runs` / `model_agreement` / `model_validity`, but the honest members'
executions are participant-level runs (`pstepWith`: `ReceiveMessage` queues until the first `ReceiveAlarm` begins
the instance and drains the queue through `ReceiveMany` in an arbitrary sender order).
-/
namespace F3.Bridge
open F3 F3.Instance F3.Granite

variable {W : Votes} {t : Table}

/-- validity of a participant API call in the vocabulary of the guards -/
abbrev POpValidG (W : Votes) (t : Table) : POp → Prop := POpP (MsgValid W t)

/-- one honest participant's execution at the participant API: any sequence of `ReceiveMessage` /
`ReceiveAlarm` calls and any drain order -/
structure HonestRunP (W : Votes) (t : Table) (p : Pid) where
  cfg : Cfg
  input : Chain
  /-- the sender order in which the pre-start queue is drained (Go: map iteration order) -/
  order : List Pid
  ops : List POp
  inputNe : input ≠ []
  /-- every delivered message of this instance passed validation (C05); messages of other instances /
  supplemental data are refused at the door or dropped by the drain -/
  valid : ∀ op ∈ ops, pforeign op = true ∨ POpValidG W t op
  /-- no call reported an error other than a refusal at the door -/
  ok : okRunP order (pinit cfg t input) ops = true
  /-- unforgeability: the votes of `p` in existence are exactly those it broadcast -/
  own : ∀ r ph v, W p r ph v ↔ ∃ tk j, Eff.broadcast r ph v tk j ∈ (prun order (pinit cfg t input) ops).2

/-- the final instance state and the effects of an honest participant-level execution -/
abbrev HonestRunP.final {p : Pid} (hr : HonestRunP W t p) : State := (prun hr.order (pinit hr.cfg t hr.input) hr.ops).1.inst
abbrev HonestRunP.effs {p : Pid} (hr : HonestRunP W t p) : List Eff := (prun hr.order (pinit hr.cfg t hr.input) hr.ops).2

theorem HonestRunP.opOk {p : Pid} (hr : HonestRunP W t p) : ∀ op ∈ hr.ops, pforeign op = true ∨ POpOk op := by
  intro op hop
  rcases hr.valid op hop with h | h
  · exact Or.inl h
  · right
    cases op with
    | recv now m => exact MsgValid.msgOk (W := W) h
    | alarm _ => trivial

/-- one vote per slot -/
theorem HonestRunP.one_vote {p : Pid} (hr : HonestRunP W t p) (r : Nat) (ph : Instance.Phase) (x y : Chain)
    (hx : W p r ph x) (hy : W p r ph y) : x = y := by
  obtain ⟨tk1, j1, h1⟩ := (hr.own r ph x).1 hx
  obtain ⟨tk2, j2, h2⟩ := (hr.own r ph y).1 hy
  have hwp := (prun_wp_ok hr.order (pinit hr.cfg t hr.input) hr.ops (DQ_pinit _ _ _) (by simp [pinit]) hr.opOk hr.ok).1
  have hn := hwp.bc_nodup
  rw [evs_bc'] at hn
  have hn' : (hr.effs.filterMap bcSlot).Nodup :=
    (List.pairwise_map.1 hn).imp (fun h heq => h (by rw [heq]))
  have := nodup_filterMap_inj bcSlot _ hn' _ _ h1 h2 (r, ph) rfl rfl
  cases this; rfl

/-- every broadcast of an honest participant-level run is guarded -/
theorem HonestRunP.guarded {p : Pid} (hr : HonestRunP W t p) (hT : 0 < t.total) :
    Guarded W t p hr.input hr.effs := by
  have hown : OwnIn W p hr.effs := by
    intro r ph v tk j hm
    exact (hr.own r ph v).2 ⟨tk, j, hm⟩
  exact (prun_guarded (W := W) (me := p) hr.order (pinit hr.cfg t hr.input) hr.ops
    (GInv_init W p hr.cfg t hr.input hr.inputNe hT) (DQ_pinit _ _ _) (by simp [pinit]) hr.valid hr.ok hown).1

/-- the decision reported by an honest participant-level run is backed by a strong DECIDE quorum in the world -/
theorem HonestRunP.decision_Q {p : Pid} (hr : HonestRunP W t p) (F : Finset Pid) (hnd : (ids t).Nodup) (d : Just)
    (hd : hr.final.termination = some d) : (world t F W).Q .decide 0 d.value := by
  obtain ⟨mops, hmok, hnf, hst, _⟩ :=
    prun_micro (MsgValid W t) (fun _ hm => MsgValid.msgOk (W := W) hm) hr.order (pinit hr.cfg t hr.input) hr.ops
      (DQ_pinit _ _ _) (by simp [pinit]) hr.valid hr.ok
  have hmok' : MOK (MsgValidD (fun x c => W x 0 .decide c) (init hr.cfg t hr.input).tbl) (init hr.cfg t hr.input) mops := by
    refine MOK.mono ?_ hmok
    intro m hv
    refine ⟨hv.2.1, fun hph => ?_⟩
    have hw := hv.1
    have hr0 := MsgValid.msgOk (W := W) hv hph
    rw [hph, hr0] at hw; exact hw
  have hdec := mrun_decinv (V := fun x c => W x 0 .decide c) (init hr.cfg t hr.input) mops (DecInv_init _ _ _) hmok'
  have htb := (mrun_tbl_input (init hr.cfg t hr.input) mops).1
  have hst' : (mrun (init hr.cfg t hr.input) mops).1 = hr.final := hst
  rw [hst'] at hdec htb
  have hok := hdec.2 d hd
  rw [htb] at hok
  exact ql_to_Q t F W hnd 0 .decide d.value ⟨d.signers, hok.increasing, hok.members, hok.strong, hok.signed⟩

/-- **The honest rules hold of the executable model driven through the participant API.** -/
theorem rules_of_runsP (t : Table) (F : Finset Pid) (W : Votes) (hnd : (ids t).Nodup) (hT : 0 < t.total)
    (hF : 3 * (world t F W).power F < (world t F W).T)
    (hnon : ∀ p, p ∉ (ids t).toFinset → ∀ r ph v, ¬ W p r ph v)
    (runs : ∀ p, p ∈ (ids t).toFinset → p ∉ F → HonestRunP W t p) : (world t F W).Rules := by
  refine ⟨hF, ?_, ?_, ?_, ?_, ?_⟩
  · intro p hp r ph x y hx hy
    by_cases hc : p ∈ (ids t).toFinset
    · exact (runs p hc hp).one_vote r (gphase ph) x y hx hy
    · exact absurd hx (hnon p hc _ _ _)
  · intro p hp r x hx
    by_cases hc : p ∈ (ids t).toFinset
    · obtain ⟨tk, j, hm⟩ := ((runs p hc hp).own r .prepare x).1 hx
      have hg := (runs p hc hp).guarded hT r .prepare x tk j hm
      exact ⟨hg.1, hg.2.1.imp id (jl_to_J t F W hnd r x)⟩
    · exact absurd hx (hnon p hc _ _ _)
  · intro p hp r x hx
    by_cases hc : p ∈ (ids t).toFinset
    · obtain ⟨tk, j, hm⟩ := ((runs p hc hp).own r .commit x).1 hx
      have hg := (runs p hc hp).guarded hT r .commit x tk j hm
      by_cases hb : x = []
      · exact Or.inl hb
      · exact Or.inr (ql_to_Q t F W hnd r .prepare x (hg.2 hb))
    · exact absurd hx (hnon p hc _ _ _)
  · intro p hp r hx
    by_cases hc : p ∈ (ids t).toFinset
    · obtain ⟨tk, j, hm⟩ := ((runs p hc hp).own r .commit []).1 hx
      have hg := (runs p hc hp).guarded hT r .commit [] tk j hm
      obtain ⟨y, hy, s', z, hne, hz, hjz⟩ := hg.1 rfl
      exact ⟨y, hy, s', z, hne, hz, hjz.imp id (jl_to_J t F W hnd r z)⟩
    · exact absurd hx (hnon p hc _ _ _)
  · intro p hp x hx
    by_cases hc : p ∈ (ids t).toFinset
    · obtain ⟨tk, j, hm⟩ := ((runs p hc hp).own 0 .decide x).1 hx
      have hg := (runs p hc hp).guarded hT 0 .decide x tk j hm rfl
      obtain ⟨hne, r', hq⟩ := hg
      exact ⟨hne, r', ql_to_Q t F W hnd r' .commit x hq⟩
    · exact absurd hx (hnon p hc _ _ _)

/-- the standing assumptions about one instance of the network, honest members driven through the participant API -/
structure NetworkP (t : Table) (F : Finset Pid) (W : Votes) where
  idsNodup : (ids t).Nodup
  totalPos : 0 < t.total
  /-- Byzantine members hold less than a third of the scaled power -/
  faultBound : 3 * (world t F W).power F < (world t F W).T
  /-- only committee members' votes count (the validator rejects everybody else: C05) -/
  nonMembers : ∀ p, p ∉ (ids t).toFinset → ∀ r ph v, ¬ W p r ph v
  /-- every honest committee member runs the participant wrapper of the model -/
  runs : ∀ p, p ∈ (ids t).toFinset → p ∉ F → HonestRunP W t p

theorem NetworkP.rules {t : Table} {F : Finset Pid} {W : Votes} (N : NetworkP t F W) : (world t F W).Rules :=
  rules_of_runsP t F W N.idsNodup N.totalPos N.faultBound N.nonMembers N.runs

theorem model_agreementP {t : Table} {F : Finset Pid} {W : Votes} (N : NetworkP t F W)
    (p q : Pid) (hp : p ∈ (ids t).toFinset) (hpF : p ∉ F) (hq : q ∈ (ids t).toFinset) (hqF : q ∉ F) (dp dq : Just)
    (hdp : (N.runs p hp hpF).final.termination = some dp)
    (hdq : (N.runs q hq hqF).final.termination = some dq) :
    dp.value = dq.value :=
  F3.Granite.World.decide_quorums_agree N.rules
    ((N.runs p hp hpF).decision_Q F N.idsNodup dp hdp) ((N.runs q hq hqF).decision_Q F N.idsNodup dq hdq)

theorem model_validityP {t : Table} {F : Finset Pid} {W : Votes} (N : NetworkP t F W)
    (p : Pid) (hp : p ∈ (ids t).toFinset) (hpF : p ∉ F) (d : Just)
    (hd : (N.runs p hp hpF).final.termination = some d) :
    d.value ≠ [] ∧ ∃ h, ∃ hh : h ∈ (ids t).toFinset, ∃ hF : h ∉ F, d.value <+: (N.runs h hh hF).input := by
  have hQ := (N.runs p hp hpF).decision_Q F N.idsNodup d hd
  refine F3.Granite.World.decided_good N.rules
    (fun x => ∃ h, ∃ hh : h ∈ (ids t).toFinset, ∃ hF : h ∉ F, x <+: (N.runs h hh hF).input) ?_ hQ
  intro h hhF r x hx
  by_cases hc : h ∈ (ids t).toFinset
  · obtain ⟨tk, j, hm⟩ := ((N.runs h hc hhF).own r .prepare x).1 hx
    have hg := (N.runs h hc hhF).guarded N.totalPos r .prepare x tk j hm
    rcases hg.2.2 with hpre | ⟨r', hlt, hq⟩
    · exact Or.inl ⟨h, hc, hhF, hpre⟩
    · exact Or.inr ⟨r', hlt, ql_to_Q t F W N.idsNodup r' .prepare x hq⟩
  · exact absurd hx (N.nonMembers h hc _ _ _)

theorem model_validity_baseP {t : Table} {F : Finset Pid} {W : Votes} (N : NetworkP t F W) (b : Nat)
    (hbase : ∀ h (hh : h ∈ (ids t).toFinset) (hF : h ∉ F), (N.runs h hh hF).input.head? = some b)
    (p : Pid) (hp : p ∈ (ids t).toFinset) (hpF : p ∉ F) (d : Just)
    (hd : (N.runs p hp hpF).final.termination = some d) :
    d.value.head? = some b := by
  obtain ⟨hne, h, hh, hF, ⟨tl, htl⟩⟩ := model_validityP N p hp hpF d hd
  have hb := hbase h hh hF
  rw [← htl] at hb
  cases hv : d.value with
  | nil => exact absurd hv hne
  | cons a l => rw [hv] at hb; simpa using hb

/-! ### a concrete network at the participant API

The four-member network of `BridgeEx`: each honest member receives, *before its instance begins*, the Byzantine
member's PREPARE for `[7,9]` (a PREPARE arriving before QUALITY), a message with foreign supplemental data (a
late-binding reject, dropped silently by the drain) and two QUALITY votes; the first alarm begins the instance and
drains the queue (sender order `[2, 4, 1]`), the rest is delivered to the running instance. -/
section Example

def popValidB (votes : List Vote) (t : Table) : POp → Bool
  | .recv _ m => msgValidB votes t m
  | _ => true

theorem popValidB_sound (votes : List Vote) (t : Table) (ops : List POp)
    (h : ops.all (fun op => pforeign op || popValidB votes t op) = true) :
    ∀ op ∈ ops, pforeign op = true ∨ POpValidG (Wof votes) t op := by
  intro op hop
  have := List.all_eq_true.1 h op hop
  simp only [Bool.or_eq_true] at this
  rcases this with hf | hv
  · exact Or.inl hf
  · right
    cases op with
    | recv now m => exact msgValidB_sound votes t m hv
    | alarm _ => trivial

def exOrder : List Pid := [2, 4, 1]

def exPOps : List POp :=
  [.recv 1 { sender := 4, round := 0, phase := .prepare, value := [7,9] },
   .recv 2 { sender := 3, round := 0, phase := .prepare, value := [9,9], suppOk := false },
   .recv 3 { sender := 1, round := 0, phase := .quality, value := [7,8] },
   .recv 4 { sender := 2, round := 0, phase := .quality, value := [7,8] },
   .alarm 5,
   .recv 6 { sender := 3, round := 0, phase := .quality, value := [7,8] },
   .recv 12 { sender := 4, round := 0, phase := .prepare, value := [7,8] },
   .recv 13 { sender := 1, round := 0, phase := .prepare, value := [7,8] },
   .recv 14 { sender := 2, round := 0, phase := .prepare, value := [7,8] },
   .recv 15 { sender := 3, round := 0, phase := .prepare, value := [7,8] },
   .recv 16 { sender := 1, round := 0, phase := .commit, value := [7,8], just := some exJp },
   .recv 17 { sender := 2, round := 0, phase := .commit, value := [7,8], just := some exJp },
   .recv 18 { sender := 3, round := 0, phase := .commit, value := [7,8], just := some exJp },
   .recv 19 { sender := 1, round := 0, phase := .decide, value := [7,8], just := some exJc },
   .recv 20 { sender := 2, round := 0, phase := .decide, value := [7,8], just := some exJc },
   .recv 21 { sender := 3, round := 0, phase := .decide, value := [7,8], just := some exJc },
   .recv 22 { sender := 1, round := 0, phase := .decide, value := [7,8], just := some exJc }]

/-- four messages are queued, three of them are drained into the instance at the first alarm -/
theorem ex_queue_drained :
    (prun exOrder (pinit exCfg exTbl [7, 8]) (exPOps.take 4)).1.queue.length = 4 ∧
    (drainWith exOrder (prun exOrder (pinit exCfg exTbl [7, 8]) (exPOps.take 4)).1.queue).map (·.sender) = [2, 1, 4, 3] ∧
    (prun exOrder (pinit exCfg exTbl [7, 8]) (exPOps.take 5)).1.inst.quality.senders = [2, 1] ∧
    ((prun exOrder (pinit exCfg exTbl [7, 8]) (exPOps.take 5)).1.inst.getRound 0).prepared.senders = [4] := by
  decide

def exRunP (p : Pid) (hp : p = 1 ∨ p = 2 ∨ p = 3) : HonestRunP exW exTbl p where
  cfg := exCfg
  input := [7, 8]
  order := exOrder
  ops := exPOps
  inputNe := by decide
  valid := popValidB_sound exVotes exTbl exPOps (by decide)
  ok := by decide
  own := by
    intro r ph v
    show Wof exVotes p r ph v ↔ _
    rw [bc_iff_triple, votesOf_iff]
    have : votesOf exVotes p = (prun exOrder (pinit exCfg exTbl [7, 8]) exPOps).2.filterMap bcTriple := by
      rcases hp with rfl | rfl | rfl <;> decide
    rw [this]

def exNetP : NetworkP exTbl exF exW where
  idsNodup := exNet.idsNodup
  totalPos := exNet.totalPos
  faultBound := exNet.faultBound
  nonMembers := exNet.nonMembers
  runs := fun p hp hF => exRunP p (by
    rw [ex_ids] at hp
    simp only [Finset.mem_insert, Finset.mem_singleton, exF] at hp hF
    rcases hp with h | h | h | h
    · exact Or.inl h
    · exact Or.inr (Or.inl h)
    · exact Or.inr (Or.inr h)
    · exact absurd h hF)

/-- In the participant-level example network the Byzantine member has equivocated, honest member 1 reports a
decision, and one of the queued messages was a late-binding reject dropped by the drain. -/
theorem ex_networkP_decides :
    exW 4 0 .prepare [7, 9] ∧ exW 4 0 .prepare [7, 8] ∧
    ∃ d, (exNetP.runs 1 (by decide) (by decide)).final.termination = some d ∧ d.value = [7, 8] := by
  refine ⟨by show _ ∈ exVotes; decide, by show _ ∈ exVotes; decide, ?_⟩
  exact ⟨{ round := 0, phase := .decide, value := [7, 8], signers := [0, 1, 2] }, by decide, rfl⟩

end Example

end F3.Bridge
