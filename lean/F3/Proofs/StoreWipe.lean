import F3.Proofs.StoreObserve
/-! The resumable wipe (`DeleteAll` / `maybeContinueDelete`): write sequence, what every prefix
leaves behind, and what a restart makes of a half-wiped datastore. -/
namespace F3.Store

/-- The writes of `maybeContinueDelete` once the tombstone is found: every other key in query order,
the tombstone last. -/
def wipeWrites (sc : Scope) (order : List Key) : List W :=
  (order.filter (fun k => decide (k ≠ sc.tomb))).map W.del ++ [W.del sc.tomb]

theorem continueDelete_present (sc : Scope) {order : List Key} {ds : DS} (ht : dsGet ds sc.tomb ≠ none)
    (hp : order.Perm (scopeKeys sc ds)) : continueDelete sc order ds = some (wipeWrites sc order) := by
  unfold continueDelete wipeWrites
  have h1 : (dsGet ds sc.tomb).isNone = false := by
    cases h : dsGet ds sc.tomb with
    | none => exact absurd h ht
    | some v => rfl
  rw [h1]
  have h2 : order.isPerm (scopeKeys sc ds) = true := List.isPerm_iff.2 hp
  simp [h2]

theorem dsGet_applyWs_dels (ds : DS) (ks : List Key) (k : Key) :
    dsGet (applyWs ds (ks.map W.del)) k = if k ∈ ks then none else dsGet ds k := by
  induction ks generalizing ds with
  | nil => simp
  | cons x r ih =>
    simp only [List.map_cons, applyWs_cons, applyW, ih, List.mem_cons]
    by_cases h1 : k ∈ r
    · simp [h1]
    · by_cases h2 : k = x
      · subst h2; simp [h1, dsGet_dsDel_same]
      · simp [h1, h2, dsGet_dsDel_other ds h2]

theorem dsGet_wipe (ds : DS) (sc : Scope) (order : List Key) (k : Key) :
    dsGet (applyWs ds (wipeWrites sc order)) k = if k = sc.tomb ∨ k ∈ order then none else dsGet ds k := by
  unfold wipeWrites
  rw [applyWs_append]
  simp only [applyWs_cons, applyWs_nil, applyW, dsGet_dsDel, dsGet_applyWs_dels, List.mem_filter, decide_eq_true_eq]
  by_cases h1 : k = sc.tomb
  · simp [h1]
  · by_cases h2 : k ∈ order
    · simp [h1, h2]
    · simp [h1, h2]

theorem inner_of_perm {order : List Key} {ds : DS} (hp : order.Perm (scopeKeys .inner ds)) :
    ∀ k ∈ order, k.inner = true := by
  intro k hk
  have := hp.mem_iff.1 hk
  unfold scopeKeys at this
  exact (List.mem_filter.1 this).2

theorem mem_order_of_present {order : List Key} {ds : DS} (hp : order.Perm (scopeKeys .inner ds)) {k : Key}
    (hin : k.inner = true) (hs : dsGet ds k ≠ none) : k ∈ order := by
  refine hp.mem_iff.2 ?_
  unfold scopeKeys
  refine List.mem_filter.2 ⟨(mem_dsKeys_iff ds k).2 ?_, hin⟩
  cases h : dsGet ds k with
  | none => exact absurd h hs
  | some v => rfl

/-- A wipe pending: the namespaced tombstone is there, the outer one is not. -/
structure Wiping (ds : DS) : Prop where
  tomb : dsGet ds .tomb ≠ none
  noRootTomb : dsGet ds .rootTomb = none

/-- After the complete wipe nothing is left inside the namespace. -/
theorem notInit_wipe {order : List Key} {ds : DS} (hr : dsGet ds .rootTomb = none)
    (hp : order.Perm (scopeKeys .inner ds)) : NotInit (applyWs ds (wipeWrites .inner order)) := by
  have clear : ∀ k : Key, k.inner = true → dsGet (applyWs ds (wipeWrites .inner order)) k = none := by
    intro k hin
    rw [dsGet_wipe]
    by_cases h : k = Scope.tomb .inner ∨ k ∈ order
    · rw [if_pos h]
    · rw [if_neg h]
      apply Classical.byContradiction
      intro hs
      exact h (Or.inr (mem_order_of_present hp hin hs))
  refine ⟨clear _ rfl, ?_, clear _ rfl, clear _ rfl⟩
  rw [dsGet_wipe]
  have : ¬ (Key.rootTomb = Scope.tomb .inner ∨ Key.rootTomb ∈ order) := by
    intro h
    rcases h with h | h
    · cases h
    · have := inner_of_perm hp _ h; cases this
  rw [if_neg this]; exact hr

/-- A proper prefix of the wipe leaves the wipe pending. -/
theorem wiping_prefix {order : List Key} {ds : DS} (hw : Wiping ds) (hin : ∀ k ∈ order, k.inner = true) {n : Nat}
    (hn : n < (wipeWrites .inner order).length) : Wiping (applyWs ds ((wipeWrites .inner order).take n)) := by
  have hlen : (wipeWrites .inner order).length = ((order.filter (fun k => decide (k ≠ Scope.tomb .inner))).map W.del).length + 1 := by
    unfold wipeWrites; simp
  have htake : (wipeWrites .inner order).take n = (((order.filter (fun k => decide (k ≠ Scope.tomb .inner))).map W.del)).take n := by
    unfold wipeWrites
    rw [List.take_append_of_le_length (by omega)]
  rw [htake, ← List.map_take]
  refine ⟨?_, ?_⟩
  · rw [dsGet_applyWs_dels]
    have : Key.tomb ∉ List.take n (order.filter (fun k => decide (k ≠ Scope.tomb .inner))) := by
      intro h
      have := (List.mem_filter.1 (List.mem_of_mem_take h)).2
      simp [Scope.tomb] at this
    rw [if_neg this]; exact hw.tomb
  · rw [dsGet_applyWs_dels]
    have : Key.rootTomb ∉ List.take n (order.filter (fun k => decide (k ≠ Scope.tomb .inner))) := by
      intro h
      have := hin _ (List.mem_filter.1 (List.mem_of_mem_take h)).1
      cases this
    rw [if_neg this]; exact hw.noRootTomb

/-! ### Opening a datastore with a pending wipe (repaired `open`: `resumeInner = true`) -/

theorem openCore_wiping (cfg : Cfg) (hres : cfg.resumeInner = true) {ds : DS} (o : Orders) (hw : Wiping ds)
    (hp : o.inner.Perm (scopeKeys .inner ds)) :
    openCore cfg ds o = ⟨wipeWrites .inner o.inner, .ok none⟩ := by
  have hni := notInit_wipe hw.noRootTomb hp
  unfold openCore
  rw [continueDelete_absent .raw o.raw ds hw.noRootTomb]
  simp only [applyWs_nil, hres, if_true]
  rw [continueDelete_present .inner hw.tomb hp]
  simp only [List.nil_append]
  unfold getNum
  rw [hni.latest]

/-- Opening when `open`'s first phase leaves an uninitialised datastore behind (clean or just wiped). -/
theorem openStore_of_core {cfg : Cfg} {ds : DS} {o : Orders} {w : List W} (hoc : openCore cfg ds o = ⟨w, .ok none⟩)
    (h : NotInit (applyWs ds w)) : openStore cfg ds o = ⟨w, .error .notInitialized⟩ := by
  unfold openStore
  rw [hoc]
  simp only
  unfold getNum; rw [h.first]

theorem openOrCreate_of_core {cfg : Cfg} {ds : DS} {o : Orders} {w : List W} (hoc : openCore cfg ds o = ⟨w, .ok none⟩)
    (h : NotInit (applyWs ds w)) (first : Nat) {init : Table} (hne : init ≠ []) :
    openOrCreateStore cfg ds o first init =
      ⟨w ++ createWrites first init, .ok { first := first, latest := none, latestTable := init }⟩ := by
  unfold openOrCreateStore
  rw [if_neg hne, hoc]
  simp only
  unfold getNum; rw [h.first]
  rfl

theorem createStore_of_core {cfg : Cfg} {ds : DS} {o : Orders} {w : List W} (hoc : openCore cfg ds o = ⟨w, .ok none⟩)
    (h : NotInit (applyWs ds w)) (first : Nat) {init : Table} (hne : init ≠ []) :
    createStore cfg ds o first init =
      ⟨w ++ createWrites first init, .ok { first := first, latest := none, latestTable := init }⟩ := by
  unfold createStore
  rw [if_neg hne, hoc]
  simp only
  unfold getNum; rw [h.first]
  rfl

/-- **A restart completes an interrupted wipe**: whatever subset of keys the crash left, the restart
observes exactly what it observes on a datastore in which no store was ever created. -/
theorem reobserve_wiping (cfg : Cfg) (hres : cfg.resumeInner = true) {ds : DS} (o : Orders) (hw : Wiping ds)
    (hp : o.inner.Perm (scopeKeys .inner ds)) (v : Variant) :
    reobserve cfg ds o v = specReobserve .notInit v := by
  have hoc := openCore_wiping cfg hres o hw hp
  have hni := notInit_wipe hw.noRootTomb hp
  cases v with
  | «open» =>
    simp only [specReobserve]
    exact reobserve_of_err (v := .open) (openStore_of_core hoc hni)
  | ooc f t =>
    simp only [specReobserve]
    by_cases ht : t = []
    · subst ht
      rw [if_pos rfl, reobserve_of_err (v := .ooc f []) (openOrCreate_empty cfg ds o f)]
    · rw [if_neg ht, reobserve_of_ok (v := .ooc f t) (openOrCreate_of_core hoc hni f ht), observe_fresh cfg _ f ht]

/-! ### `DeleteAll` -/

theorem deleteAll_eq {ds : DS} {order : List Key} (hp : order.Perm (scopeKeys .inner (dsPut ds .tomb .tomb))) :
    deleteAll ds order = ⟨W.put .tomb .tomb :: wipeWrites .inner order, .ok ()⟩ := by
  unfold deleteAll
  simp only [applyW]
  rw [continueDelete_present .inner (by simp [Scope.tomb, dsGet_dsPut_same]) hp]

theorem wiping_tombed {ds : DS} (hr : dsGet ds .rootTomb = none) : Wiping (dsPut ds .tomb .tomb) :=
  ⟨by simp [dsGet_dsPut_same], by rw [dsGet_dsPut_other _ _ (by decide)]; exact hr⟩

/-- Every crash point of `DeleteAll`: untouched (no write done), wipe pending, or wiped. -/
theorem deleteAll_prefix {ds : DS} {order : List Key} (hr : dsGet ds .rootTomb = none)
    (hp : order.Perm (scopeKeys .inner (dsPut ds .tomb .tomb))) (n : Nat)
    (hn : n ≤ (W.put .tomb .tomb :: wipeWrites .inner order).length) :
    let ds' := applyWs ds ((W.put .tomb .tomb :: wipeWrites .inner order).take n)
    (n = 0 ∧ ds' = ds) ∨ (0 < n ∧ n < (W.put .tomb .tomb :: wipeWrites .inner order).length ∧ Wiping ds') ∨
      (n = (W.put .tomb .tomb :: wipeWrites .inner order).length ∧ NotInit ds') := by
  intro ds'
  cases n with
  | zero => exact Or.inl ⟨rfl, rfl⟩
  | succ k =>
    have hds' : ds' = applyWs (dsPut ds .tomb .tomb) ((wipeWrites .inner order).take k) := rfl
    simp only [List.length_cons] at hn ⊢
    by_cases hk : k < (wipeWrites .inner order).length
    · refine Or.inr (Or.inl ⟨Nat.succ_pos _, by omega, ?_⟩)
      rw [hds']
      exact wiping_prefix (wiping_tombed hr) (inner_of_perm hp) hk
    · have hk' : k = (wipeWrites .inner order).length := by omega
      refine Or.inr (Or.inr ⟨by omega, ?_⟩)
      rw [hds', hk', List.take_length]
      exact notInit_wipe (by rw [dsGet_dsPut_other _ _ (by decide)]; exact hr) hp

end F3.Store
