import F3.Model.SimOracle
import F3.Spec.SimOracle
/-! Helper lemmas and the run invariant for C19a. Property theorems: `F3/Props/C19.lean`. -/
namespace F3.Proofs.SimOracle
open F3 F3.SimOracle F3.Spec.SimOracle

set_option linter.unusedSimpArgs false
set_option linter.unusedVariables false

theorem any_ge_false (l : List Nat) (n : Nat) :
    (l.any (fun s => decide (s ≥ n))) = false ↔ ∀ s ∈ l, s < n := by
  simp [List.any_eq_false]

theorem validate_ok_iff (i : Inst) (d : Decision) : validateDecision i d = .ok ↔ decisionSound i d := by
  unfold validateDecision decisionSound
  constructor
  · intro h
    split at h; · cases h
    split at h; · cases h
    split at h; · cases h
    split at h; · cases h
    split at h; · cases h
    split at h; · cases h
    split at h; · cases h
    split at h; · cases h
    rename_i h1 h2 h3 h4 h5 h6 h7 h8
    refine ⟨?_, ?_, ?_, ?_, ?_, ?_, ?_⟩
    · exact (Decidable.not_not.mp h1).symm
    · exact Decidable.not_not.mp h2
    · exact Decidable.not_not.mp h3
    · cases hv : d.vote.value with
      | none => simp [hv, isZeroValue] at h4
      | some l =>
        cases l with
        | nil => simp [hv, isZeroValue] at h4
        | cons b rest =>
          refine ⟨b, rest, rfl, ?_⟩
          have := Decidable.not_not.mp h5
          simp [hv, valueBase] at this
          exact this.symm
    · exact (any_ge_false _ _).1 (by simpa using h6)
    · have : Spec.Quorum.strong (signerPower i.scaled d.signers) i.total = true := by simpa using h7
      unfold Spec.Quorum.strong at this
      simpa using this
    · exact Decidable.not_not.mp h8
  · rintro ⟨h1, h2, h3, ⟨b, rest, hv, hb⟩, h5, h6, h7⟩
    have e1 : ¬ (i.id ≠ d.vote.inst) := by simp [h1]
    have e4 : isZeroValue d.vote.value = false := by simp [hv, isZeroValue]
    have e5 : ¬ (valueBase d.vote.value ≠ i.baseHead) := by simp [hv, valueBase, hb]
    have e6 : (d.signers.any (fun s => decide (s ≥ i.scaled.length))) = false := (any_ge_false _ _).2 h5
    have e7 : Spec.Quorum.strong (signerPower i.scaled d.signers) i.total = true := by
      unfold Spec.Quorum.strong; simpa using h6
    simp [e1, h2, h3, e4, e5, e6, e7, h7]

theorem soundB_iff (i : Inst) (d : Decision) : decisionSoundB i d = true ↔ decisionSound i d := by
  unfold decisionSoundB decisionSound
  simp only [Bool.and_eq_true, beq_iff_eq, decide_eq_true_eq, List.all_eq_true]
  constructor
  · rintro ⟨⟨⟨⟨⟨⟨h1, h2⟩, h3⟩, h4⟩, h5⟩, h6⟩, h7⟩
    refine ⟨h1, h2, h3, ?_, h5, h6, h7⟩
    cases hv : d.vote.value with
    | none => simp [hv] at h4
    | some l =>
      cases l with
      | nil => simp [hv] at h4
      | cons b rest => exact ⟨b, rest, rfl, by simpa [hv] using h4⟩
  · rintro ⟨h1, h2, h3, ⟨b, rest, hv, hb⟩, h5, h6, h7⟩
    refine ⟨⟨⟨⟨⟨⟨h1, h2⟩, h3⟩, ?_⟩, h5⟩, h6⟩, h7⟩
    simp [hv, hb]

/-- a recorded notification is sound w.r.t. the instances that exist -/
def noteSound (insts : List Inst) (n : Nat × Nat × Decision) : Prop :=
  ∃ i, insts[n.1]? = some i ∧ decisionSound i n.2.2

def idsOk (insts : List Inst) : Prop := ∀ (k : Nat) (i : Inst), insts[k]? = some i → i.id = k

/-- A: with no recorded error every notification so far is sound. B: unless failed, the
notifications that existed at the last loop-head check are sound. C: instance ids are positions. -/
def nonZero (v : Option (List Tip)) : Prop := ∃ b r, v = some (b :: r)

/-- what a completion record certifies: at the time it was made (`c.2.2.1` notifications), every
non-excluded member of the instance's table had a recorded decision, for the recorded value -/
def agreedAt (s : St) (c : Nat × Option (List Tip) × Nat × List Nat) : Prop :=
  ∃ ci, s.insts[c.1]? = some ci ∧ c.2.2.1 ≤ s.notes.length ∧
    ∀ p ∈ participants ci c.2.2.2, ∃ d,
      latest (s.notes.drop (s.notes.length - c.2.2.1)) c.1 p = some d ∧ d.vote.value = c.2.1 ∧ nonZero d.vote.value

structure Good (s : St) : Prop where
  ids : idsOk s.insts
  a : s.errs = 0 → ∀ n ∈ s.notes, noteSound s.insts n
  ck : s.checked ≤ s.notes.length
  b : s.failed = false → ∀ n ∈ s.notes.drop (s.notes.length - s.checked), noteSound s.insts n
  c : ∀ r ∈ s.completed, agreedAt s r

theorem noteSound_mono (insts extra : List Inst) (n) (h : noteSound insts n) : noteSound (insts ++ extra) n := by
  obtain ⟨i, hi, hs⟩ := h
  refine ⟨i, ?_, hs⟩
  have hlt : n.1 < insts.length := by
    rcases Nat.lt_or_ge n.1 insts.length with h | h
    · exact h
    · have : insts[n.1]? = none := List.getElem?_eq_none h
      rw [this] at hi; cases hi
  rw [List.getElem?_append_left hlt]; exact hi

theorem idsOk_append (insts : List Inst) (x : Inst) (h : idsOk insts) (hx : x.id = insts.length) :
    idsOk (insts ++ [x]) := by
  intro k i hk
  by_cases hlt : k < insts.length
  · rw [List.getElem?_append_left hlt] at hk; exact h k i hk
  · have hge : insts.length ≤ k := by omega
    rw [List.getElem?_append_right hge] at hk
    cases hkk : k - insts.length with
    | zero => rw [hkk] at hk; simp at hk; subst hk; omega
    | succ m => rw [hkk] at hk; simp at hk

theorem good_start (base : List Tip) (ids scaled : List Nat) : Good (start base ids scaled) := by
  refine ⟨?_, ?_, ?_, ?_, ?_⟩
  · intro k i hk
    cases k with
    | zero => simp [start] at hk; subst hk; rfl
    | succ m => simp [start] at hk
  · intro _ n hn; simp [start] at hn
  · simp [start]
  · intro _ n hn; simp [start] at hn
  · intro r hr; simp [start] at hr

theorem drop_cons_shift {α : Type} (x : α) (l : List α) (n : Nat) (h : n ≤ l.length) :
    (x :: l).drop ((x :: l).length - n) = l.drop (l.length - n) := by
  have : (l.length + 1 - n) = (l.length - n) + 1 := by omega
  simp only [List.length_cons, this, List.drop_succ_cons]

theorem agreedAt_notify (s : St) (p : Nat) (d : Decision) (r) (h : agreedAt s r) : agreedAt (notify s p d) r := by
  obtain ⟨ci, hci, hle, hall⟩ := h
  refine ⟨ci, hci, ?_, ?_⟩
  · simp only [notify, List.length_cons]; omega
  · intro q hq
    simp only [notify]
    rw [drop_cons_shift _ _ _ hle]
    exact hall q hq

theorem agreedAt_insts (s : St) (extra : List Inst) (r) (h : agreedAt s r) (s' : St)
    (hi : s'.insts = s.insts ++ extra) (hn : s'.notes = s.notes) : agreedAt s' r := by
  obtain ⟨ci, hci, hle, hall⟩ := h
  have hlt : r.1 < s.insts.length := by
    rcases Nat.lt_or_ge r.1 s.insts.length with h | h
    · exact h
    · have : s.insts[r.1]? = none := List.getElem?_eq_none h
      rw [this] at hci; cases hci
  refine ⟨ci, ?_, ?_, ?_⟩
  · rw [hi, List.getElem?_append_left hlt]; exact hci
  · rw [hn]; exact hle
  · rw [hn]; exact hall

theorem good_notify (s : St) (p : Nat) (d : Decision) (g : Good s) : Good (notify s p d) := by
  refine ⟨g.ids, ?_, ?_, ?_, fun r hr => agreedAt_notify s p d r (g.c r hr)⟩
  · intro he n hn
    simp only [notify] at he hn
    have hv : notifyVerdict s d = .ok ∧ s.errs = 0 := by
      by_cases hv : notifyVerdict s d = Verdict.ok
      · simp [hv] at he; exact ⟨hv, he⟩
      · simp [hv] at he
    simp only [List.mem_cons] at hn
    rcases hn with hn | hn
    · subst hn
      have := hv.1
      unfold notifyVerdict at this
      split at this
      · rename_i i hi
        exact ⟨i, hi, (validate_ok_iff i d).1 this⟩
      · cases this
    · exact g.a hv.2 n hn
  · simp only [notify, List.length_cons]; have := g.ck; omega
  · intro hf n hn
    simp only [notify] at hf hn ⊢
    have hck := g.ck
    have : (s.notes.length + 1 - s.checked) = (s.notes.length - s.checked) + 1 := by omega
    simp only [List.length_cons, this, List.drop_succ_cons] at hn
    exact g.b hf n hn

theorem consensus_all (notes : List (Nat × Nat × Decision)) (inst : Nat) (v : Option (List Tip)) :
    ∀ (ps : List Nat) (c : Option (List Tip)),
      consensusLoop notes inst ps c = some v →
      (∀ p ∈ ps, ∀ d, latest notes inst p = some d → nonZero d.vote.value) →
      (c = none ∨ nonZero c) →
      (∀ p ∈ ps, ∃ d, latest notes inst p = some d ∧ d.vote.value = v) ∧ (c ≠ none → v = c) := by
  intro ps
  induction ps with
  | nil =>
    intro c h _ _
    simp only [consensusLoop, Option.some.injEq] at h
    exact ⟨fun p hp => by simp at hp, fun _ => h.symm⟩
  | cons p ps ih =>
    intro c h hnz hc
    simp only [consensusLoop] at h
    cases hl : latest notes inst p with
    | none => simp [hl] at h
    | some d =>
      simp only [hl] at h
      obtain ⟨b, r, hdv⟩ := hnz p (List.mem_cons_self) d hl
      have hnz' : ∀ q ∈ ps, ∀ d, latest notes inst q = some d → nonZero d.vote.value :=
        fun q hq => hnz q (List.mem_cons_of_mem _ hq)
      rcases hc with hc | ⟨x, xs, hc⟩
      · subst hc
        simp only [hdv, beq_self_eq_true, ite_true] at h
        have := ih (some (b :: r)) h hnz' (Or.inr ⟨b, r, rfl⟩)
        have hv : v = some (b :: r) := this.2 (by simp)
        refine ⟨?_, by simp⟩
        intro q hq
        simp only [List.mem_cons] at hq
        rcases hq with hq | hq
        · subst hq; exact ⟨d, hl, by rw [hdv, hv]⟩
        · exact this.1 q hq
      · subst hc
        simp only [hdv] at h
        by_cases heq : ((b :: r) == (x :: xs)) = true
        · simp only [heq, ite_true] at h
          have := ih (some (x :: xs)) h hnz' (Or.inr ⟨x, xs, rfl⟩)
          have hv : v = some (x :: xs) := this.2 (by simp)
          have hbx : (b :: r) = (x :: xs) := by simpa using heq
          refine ⟨?_, fun _ => hv⟩
          intro q hq
          simp only [List.mem_cons] at hq
          rcases hq with hq | hq
          · subst hq; exact ⟨d, hl, by rw [hdv, hv, hbx]⟩
          · exact this.1 q hq
        · simp [heq] at h

theorem latest_mem (notes : List (Nat × Nat × Decision)) (inst p : Nat) (d : Decision)
    (h : latest notes inst p = some d) : ∃ n ∈ notes, n.1 = inst ∧ n.2.2 = d := by
  unfold latest at h
  cases hf : notes.find? (fun n => n.1 == inst && n.2.1 == p) with
  | none => simp [hf] at h
  | some n =>
    simp only [hf, Option.map_some, Option.some.injEq] at h
    have hm := List.mem_of_find?_eq_some hf
    have hp := List.find?_some hf
    simp only [Bool.and_eq_true, beq_iff_eq] at hp
    exact ⟨n, hm, hp.1, h⟩

theorem sound_value_nonZero (i : Inst) (d : Decision) (h : decisionSound i d) : nonZero d.vote.value := by
  obtain ⟨_, _, _, ⟨b, r, hv, _⟩, _⟩ := h
  exact ⟨b, r, hv⟩

theorem good_beginEarly (s : St) (base : List Tip) (ids scaled : List Nat) (g : Good s) :
    Good (beginEarly s base ids scaled) := by
  unfold beginEarly
  split
  · exact g
  · refine ⟨idsOk_append _ _ g.ids rfl, ?_, g.ck, ?_, ?_⟩
    · intro he n hn; exact noteSound_mono _ _ n (g.a he n hn)
    · intro hf n hn; exact noteSound_mono _ _ n (g.b hf n hn)
    · intro r hr; exact agreedAt_insts s _ r (g.c r hr) _ rfl rfl

theorem good_loopHead (s : St) (excl nextIds nextScaled : List Nat) (g : Good s) :
    Good (loopHead s excl nextIds nextScaled) := by
  unfold loopHead
  split
  · exact g
  · rename_i hnf
    split
    · -- error pending: Run fails
      refine ⟨g.ids, g.a, by simp, ?_, g.c⟩
      intro hf; simp at hf
    · rename_i herr
      have he0 : s.errs = 0 := by omega
      have hall := g.a he0
      -- the state after recording the check
      have g1 : Good { s with checked := s.notes.length } := by
        refine ⟨g.ids, g.a, by simp, ?_, g.c⟩
        intro _ n hn
        simp at hn
        exact hall n hn
      simp only
      split
      · exact g1
      · rename_i ci hci
        split
        · rename_i hcomp
          split
          · -- no consensus: Run fails
            refine ⟨g.ids, g.a, by simp, ?_, g.c⟩
            intro hf; simp at hf
          · rename_i v hv
            -- the completion record is justified
            have hid : ci.id = s.cur := g.ids _ _ hci
            have hrec : agreedAt { s with checked := s.notes.length } (ci.id, v, s.notes.length, excl) := by
              refine ⟨ci, by simpa [hid] using hci, by simp, ?_⟩
              simp only [Nat.sub_self, List.drop_zero]
              have hnz : ∀ p ∈ participants ci excl, ∀ d, latest s.notes ci.id p = some d → nonZero d.vote.value := by
                intro p _ d hl
                obtain ⟨n, hm, _, hd⟩ := latest_mem _ _ _ _ hl
                obtain ⟨i, _, hs⟩ := hall n hm
                rw [hd] at hs
                exact sound_value_nonZero i d hs
              have hc := (consensus_all s.notes ci.id v (participants ci excl) none hv hnz (Or.inl rfl)).1
              intro p hp
              obtain ⟨d, hl, hdv⟩ := hc p hp
              exact ⟨d, hl, hdv, hnz p hp d hl⟩
            have hcs : ∀ r ∈ (ci.id, v, s.notes.length, excl) :: s.completed,
                agreedAt { s with checked := s.notes.length } r := by
              intro r hr
              simp only [List.mem_cons] at hr
              rcases hr with hr | hr
              · subst hr; exact hrec
              · exact g1.c r hr
            split
            · split
              · exact ⟨g.ids, g.a, by simp, g1.b, hcs⟩
              · refine ⟨g.ids, g.a, by simp, ?_, hcs⟩
                intro hf; simp at hf
            · refine ⟨idsOk_append _ _ g.ids rfl, ?_, by simp, ?_, ?_⟩
              · intro he n hn; exact noteSound_mono _ _ n (g.a he n hn)
              · intro hf n hn
                simp at hn
                exact noteSound_mono _ _ n (hall n hn)
              · intro r hr
                exact agreedAt_insts { s with checked := s.notes.length } _ r (hcs r hr) _ rfl rfl
        · exact g1

theorem good_exec (evs : List Ev) : ∀ s : St, Good s → Good (exec s evs) := by
  induction evs with
  | nil => intro s g; exact g
  | cons e es ih =>
    intro s g
    cases e with
    | notify p d => exact ih _ (good_notify s p d g)
    | loopHead x a b => exact ih _ (good_loopHead s x a b g)
    | beginEarly b i sc => exact ih _ (good_beginEarly s b i sc g)

end F3.Proofs.SimOracle
