import F3.Proofs.ValidatorSound
import F3.Proofs.ValidatorCached
set_option linter.unusedSimpArgs false
/-!
C13: the two-stage path (`PartiallyValidateMessage`, completion, `FullyValidateMessage`) against
one-shot validation of the completed message; the duplicated expectation table; strip/complete.
-/
namespace F3.Validator
open F3.Msg F3.Spec.ValidMsg

/-- `preJust` spelled out, for both modes. -/
theorem preJust_iff (vk : Option VKey) (m : Msg) (j : Just) (ek : VKey) :
    preJust vk m = some (j, ek) ↔
      (m.just = some j ∧ m.vote.inst = j.vote.inst ∧ m.vote.supp = j.vote.supp ∧
        chainValid j.vote.value = true ∧
        ∃ er b, expectation m.vote.phase m.vote.round j.vote.phase = some (er, b) ∧
          ¬ (j.vote.round ≠ er ∧ (!anyRound m.vote.phase er) = true) ∧
          ek = (if b then vk.getD (keyOf m.vote.value) else VKey.zero) ∧
          (vk = none → keyOf j.vote.value = ek)) := by
  unfold preJust
  cases hj : m.just with
  | none => simp
  | some j' =>
    simp only [Option.some.injEq]
    by_cases h1 : m.vote.inst = j'.vote.inst
    · by_cases h2 : m.vote.supp = j'.vote.supp
      · by_cases h3 : chainValid j'.vote.value = true
        · simp only [h1, h2, h3, ne_eq, not_true_eq_false, if_false, Bool.not_true, Bool.false_eq_true]
          cases he : expectation m.vote.phase m.vote.round j'.vote.phase with
          | none =>
            simp only [false_iff, reduceCtorEq]
            rintro ⟨hjj, _, _, _, er, b, hex, _⟩
            subst hjj
            rw [he] at hex; cases hex
          | some p =>
            obtain ⟨er, b⟩ := p
            simp only
            by_cases h4 : ¬j'.vote.round = er ∧ (!anyRound m.vote.phase er) = true
            · rw [if_pos h4]
              simp only [false_iff, reduceCtorEq]
              rintro ⟨hjj, _, _, _, er', b', hex, hr, _⟩
              subst hjj
              rw [he] at hex; cases hex
              exact hr h4
            · rw [if_neg h4]
              by_cases h5 : vk.isNone = true ∧ ¬keyOf j'.vote.value = (if b = true then vk.getD (keyOf m.vote.value) else VKey.zero)
              · rw [if_pos h5]
                simp only [false_iff, reduceCtorEq]
                rintro ⟨hjj, _, _, _, er', b', hex, _, hek, hv⟩
                subst hjj
                rw [he] at hex; cases hex
                have : vk = none := by
                  cases vk with
                  | none => rfl
                  | some k => simp at h5
                exact h5.2 ((hv this).trans hek)
              · rw [if_neg h5]
                simp only [Option.some.injEq, Prod.mk.injEq]
                constructor
                · rintro ⟨hjj, hek⟩
                  subst hjj
                  refine ⟨rfl, rfl, rfl, h3, er, b, he, h4, hek.symm, ?_⟩
                  intro hvk
                  subst hvk
                  simp only [Option.isNone_none, true_and, Decidable.not_not] at h5
                  rw [h5, ← hek]
                · rintro ⟨hjj, _, _, _, er', b', hex, _, hek, _⟩
                  subst hjj
                  rw [he] at hex; cases hex
                  exact ⟨rfl, hek.symm⟩
        · simp only [h1, h2, h3, ne_eq, not_true_eq_false, if_false, Bool.not_false, if_true,
            false_iff, reduceCtorEq]
          rintro ⟨hjj, _, _, h, _⟩
          subst hjj
          exact h3 h
      · simp only [h1, h2, ne_eq, not_true_eq_false, if_false, not_false_eq_true, if_true,
          false_iff, reduceCtorEq]
        rintro ⟨hjj, _, h, _⟩
        subst hjj
        exact h2 h
    · simp only [h1, ne_eq, not_false_eq_true, if_true, false_iff, reduceCtorEq]
      rintro ⟨hjj, h, _⟩
      subst hjj
      exact h1 h

/-- The duplicated ("abbreviated") expectation table of `FullyValidateMessage` is the main table of
`validateJustification` restricted to the value column. -/
theorem fullTable_eq_expectation (ph round jph : Nat) :
    fullTable ph jph = (expectation ph round jph).map (·.2) := by
  unfold fullTable expectation
  simp only [QUALITY, CONVERGE, PREPARE, COMMIT, DECIDE]
  rcases phase_cases ph with h | h | h | h | h | h <;>
    rcases phase_cases jph with hj | hj | hj | hj | hj | hj <;> simp [h, hj]


/-! ### completion -/

/-- whether `inferJustificationVoteValue` overwrites the justification value -/
def inferred (ph jph : Nat) : Bool :=
  (decide (ph = CONVERGE ∨ ph = PREPARE ∨ ph = COMMIT) && decide (jph = PREPARE)) ||
    (decide (ph = DECIDE) && decide (jph = COMMIT))

theorem inferJust_eq (ph : Nat) (x : Chain) (j : Just) :
    inferJust ph x j = { j with vote := { j.vote with value := if inferred ph j.vote.phase then x else j.vote.value } } := by
  obtain ⟨⟨i, r, p, su, v⟩, sg, ag, en⟩ := j
  unfold inferJust inferred
  simp only [QUALITY, CONVERGE, PREPARE, COMMIT, DECIDE]
  rcases phase_cases ph with h | h | h | h | h | h <;>
    rcases phase_cases p with hj | hj | hj | hj | hj | hj <;> simp [h, hj]

/-- Where the table admits a justification phase, inference overwrites exactly the rows whose expected
value is the vote value. -/
theorem inferred_of_expectation {ph round jph er : Nat} {b : Bool}
    (h : expectation ph round jph = some (er, b)) : inferred ph jph = b := by
  unfold expectation at h
  unfold inferred
  simp only [QUALITY, CONVERGE, PREPARE, COMMIT, DECIDE] at h ⊢
  rcases phase_cases ph with hp | hp | hp | hp | hp | hp <;>
    rcases phase_cases jph with hj | hj | hj | hj | hj | hj <;> simp [hp, hj] at h ⊢ <;> simp [h]

theorem isZero_keyOf (x : Chain) : (keyOf x).isZero = x.isEmpty := by
  cases x <;> simp [VKey.isZero, keyOf, VKey.zero]

/-- `validateJustificationSignature` does not look at the justification's value field. -/
theorem sigJust_value_irrelevant (cfg : Cfg) (c : Committee) (j : Just) (v : Chain) (ek : VKey) :
    sigJust cfg c { j with vote := { j.vote with value := v } } ek = sigJust cfg c j ek := by
  unfold sigJust votePayload
  rfl


theorem checkJust_iff (cfg : Cfg) (c : Committee) (vk : Option VKey) (m : Msg) :
    checkJust cfg c vk m = true ↔ ∃ j ek, preJust vk m = some (j, ek) ∧ sigJust cfg c j ek = true := by
  unfold checkJust
  cases h : preJust vk m with
  | none => simp
  | some p =>
    obtain ⟨j, ek⟩ := p
    simp only [Option.some.injEq, Prod.mk.injEq]
    constructor
    · intro hs; exact ⟨j, ek, ⟨rfl, rfl⟩, hs⟩
    · rintro ⟨j1, ek1, ⟨h1, h2⟩, hs⟩
      subst h1; subst h2; exact hs

theorem preMsg_complete (cfg : Cfg) (c : Committee) (pm : PMsg) (x : Chain) (hK : pm.key = keyOf x)
    (hv0 : chainValid pm.msg.vote.value = true) (hx : chainValid x = true) :
    preMsg cfg c none (complete pm x).msg = preMsg cfg c (some pm.key) pm.msg := by
  unfold preMsg
  simp only [complete, voteForBottom, hv0, hx, hK, isZero_keyOf, votePayload, Option.getD_none,
    Option.getD_some, phaseRules, needsJust]

theorem chainValid_nil : chainValid [] = true := by simp [chainValid]

theorem checkJust_complete (cfg : Cfg) (c : Committee) (pm : PMsg) (x : Chain) (hK : pm.key = keyOf x)
    (hx : chainValid x = true) (j0 : Just) (hj : pm.msg.just = some j0)
    (hj0 : chainValid j0.vote.value = true) :
    (checkJust cfg c (some pm.key) pm.msg = true ∧ fullyRules (complete pm x) = true) ↔
      checkJust cfg c none (complete pm x).msg = true := by
  rw [checkJust_iff, checkJust_iff]
  have hcj : (complete pm x).msg.just = some (inferJust pm.msg.vote.phase x j0) := by
    simp [complete, hj]
  constructor
  · rintro ⟨⟨j, ek, hpre, hsig⟩, hfull⟩
    obtain ⟨hjj, h1, h2, h3, er, b, hex, hround, hek, _⟩ := (preJust_iff _ _ _ _).mp hpre
    rw [hj] at hjj; cases hjj
    have hinf := inferred_of_expectation hex
    -- value rule from the full stage
    have hval : (if b = true then x else j0.vote.value) = (if b = true then x else []) := by
      unfold fullyRules at hfull
      simp only [hcj, inferJust_eq, hinf] at hfull
      rw [fullTable_eq_expectation _ pm.msg.vote.round] at hfull
      simp only [complete, hex, Option.map_some] at hfull
      cases b
      · simp at hfull
        simp [hfull.2]
      · simp
    refine ⟨{ j0 with vote := { j0.vote with value := if b = true then x else [] } },
      (if b = true then keyOf x else VKey.zero), ?_, ?_⟩
    · refine (preJust_iff _ _ _ _).mpr ⟨?_, h1, h2, ?_, er, b, hex, hround, ?_, ?_⟩
      · rw [hcj, inferJust_eq, hinf, hval]
      · cases b <;> simp [hx, chainValid_nil]
      · simp [complete]
      · intro _
        cases b <;> simp [VKey.zero, keyOf]
    · rw [sigJust_value_irrelevant]
      rw [hek, hK] at hsig
      simpa using hsig
  · rintro ⟨j', ek', hpre, hsig⟩
    obtain ⟨hjj, h1, h2, h3, er, b, hex, hround, hek, hkv⟩ := (preJust_iff _ _ _ _).mp hpre
    rw [hcj] at hjj
    have hjj' : j' = inferJust pm.msg.vote.phase x j0 := by cases hjj; rfl
    subst hjj'
    simp only [inferJust_eq] at hex hround h1 h2 hkv hsig h3
    have hex' : expectation pm.msg.vote.phase pm.msg.vote.round j0.vote.phase = some (er, b) := by
      simpa [complete] using hex
    have hinf := inferred_of_expectation hex'
    simp only [hinf] at hkv hsig h3
    have hek' : ek' = (if b = true then keyOf x else VKey.zero) := by simpa [complete] using hek
    have hval : (if b = true then x else j0.vote.value) = (if b = true then x else []) := by
      have := hkv trivial
      rw [hek'] at this
      cases b
      · simpa [keyOf_zero] using this
      · simp
    refine ⟨⟨j0, (if b = true then pm.key else VKey.zero), ?_, ?_⟩, ?_⟩
    · refine (preJust_iff _ _ _ _).mpr ⟨hj, ?_, ?_, hj0, er, b, hex', ?_, ?_, ?_⟩
      · simpa [complete] using h1
      · simpa [complete] using h2
      · simpa [complete] using hround
      · simp
      · intro h; cases h
    · rw [sigJust_value_irrelevant] at hsig
      rw [hek', ← hK] at hsig
      exact hsig
    · unfold fullyRules
      simp only [hcj, inferJust_eq, hinf]
      rw [fullTable_eq_expectation _ pm.msg.vote.round]
      simp only [complete, hex', Option.map_some, hK, isZero_keyOf, hval]
      cases b <;> cases x <;> simp


/-! ### the two stages against one shot, cache-free -/

/-- The placeholder values a partial message carries in place of the stripped chains are well-formed
(the stripped form has bottom there; partial validation runs `ECChain.Validate` on whatever arrives). -/
def placeholdersOK (pm : PMsg) : Prop :=
  chainValid pm.msg.vote.value = true ∧ ∀ j, pm.msg.just = some j → chainValid j.vote.value = true

theorem checkBody_complete_iff (cfg : Cfg) (c : Committee) (pm : PMsg) (x : Chain) (hK : pm.key = keyOf x) :
    (checkBody cfg c (some pm.key) pm.msg = true ∧ chainValid x = true ∧ fullyRules (complete pm x) = true) ↔
      (placeholdersOK pm ∧ checkBody cfg c none (complete pm x).msg = true) := by
  constructor
  · rintro ⟨hb, hx, hfull⟩
    unfold checkBody at hb
    cases hp : preMsg cfg c (some pm.key) pm.msg with
    | none => simp [hp] at hb
    | some b =>
      have hv0 := ((preMsg_eq_some_iff cfg c _ _ b).mp hp).2.1
      have hpc := preMsg_complete cfg c pm x hK hv0 hx
      simp only [hp] at hb
      unfold checkBody
      rw [hpc, hp]
      cases b with
      | true =>
        simp only at hb ⊢
        obtain ⟨j0, ek, hpre, _⟩ := (checkJust_iff _ _ _ _).mp hb
        obtain ⟨hj, _, _, hj0, _⟩ := (preJust_iff _ _ _ _).mp hpre
        refine ⟨⟨hv0, ?_⟩, (checkJust_complete cfg c pm x hK hx j0 hj hj0).mp ⟨hb, hfull⟩⟩
        intro j hjj
        rw [hj] at hjj; cases hjj; exact hj0
      | false =>
        simp only at hb ⊢
        have hnone : pm.msg.just = none := by
          cases hj : pm.msg.just with
          | none => rfl
          | some j => simp [hj] at hb
        refine ⟨⟨hv0, ?_⟩, ?_⟩
        · intro j hjj; rw [hnone] at hjj; cases hjj
        · simp [complete, hnone]
  · rintro ⟨⟨hv0, hjs⟩, hb⟩
    unfold checkBody at hb
    cases hp : preMsg cfg c none (complete pm x).msg with
    | none => simp [hp] at hb
    | some b =>
      have hx : chainValid x = true := ((preMsg_eq_some_iff cfg c _ _ b).mp hp).2.1
      have hpc := preMsg_complete cfg c pm x hK hv0 hx
      simp only [hp] at hb
      unfold checkBody
      rw [← hpc, hp]
      cases b with
      | true =>
        simp only at hb ⊢
        obtain ⟨j', ek, hpre, _⟩ := (checkJust_iff _ _ _ _).mp hb
        obtain ⟨hj', _⟩ := (preJust_iff _ _ _ _).mp hpre
        cases hj : pm.msg.just with
        | none => simp [complete, hj] at hj'
        | some j0 =>
          have := (checkJust_complete cfg c pm x hK hx j0 hj (hjs j0 hj)).mpr hb
          exact ⟨this.1, hx, this.2⟩
      | false =>
        simp only at hb ⊢
        have hnone : pm.msg.just = none := by
          cases hj : pm.msg.just with
          | none => rfl
          | some j => simp [complete, hj] at hb
        refine ⟨by simp [hnone], hx, ?_⟩
        unfold fullyRules
        simp only [complete, hnone, Option.map_none, hK, isZero_keyOf]
        cases x <;> simp

theorem byProgress_complete (cfg : Cfg) (p : Progress) (pm : PMsg) (x : Chain) :
    byProgress cfg p (complete pm x).msg.vote = byProgress cfg p pm.msg.vote := rfl

theorem fully_accept_iff (cfg : Cfg) (p : Progress) (pm : PMsg) :
    fully cfg p pm = .accept ↔
      (chainValid pm.msg.vote.value = true ∧ pm.key = keyOf pm.msg.vote.value ∧
        byProgress cfg p pm.msg.vote = none ∧ fullyRules pm = true) := by
  unfold fully
  simp only
  by_cases h1 : chainValid pm.msg.vote.value = true
  · by_cases h2 : pm.key = keyOf pm.msg.vote.value
    · simp only [h1, Bool.not_true, Bool.false_eq_true, if_false, h2, ne_eq, not_true_eq_false, true_and]
      cases hb : byProgress cfg p pm.msg.vote with
      | none =>
        by_cases h3 : fullyRules pm = true <;> simp [h3]
      | some e =>
        have := byProgress_ne_accept cfg p pm.msg.vote
        rw [hb] at this
        simp only [reduceCtorEq, false_and, iff_false]
        intro h; subst h; exact this rfl
    · simp [h1, h2]
  · simp [h1]

/-- **Two stages = one shot (cache-free form).** -/
theorem twoStage_pure_iff (cfg : Cfg) (comt : Nat → Option Committee) (p1 p2 : Progress) (pm : PMsg)
    (x : Chain) :
    (partiallyPure cfg comt p1 pm = .accept ∧ fully cfg p2 (complete pm x) = .accept) ↔
      (pm.key = keyOf x ∧ placeholdersOK pm ∧ byProgress cfg p1 pm.msg.vote = none ∧
        validatePure cfg comt p2 (complete pm x).msg = .accept) := by
  rw [partiallyPure_accept_iff, fully_accept_iff, validatePure_accept_iff, checkMsg_accept_iff_body,
    checkMsg_accept_iff_body, byProgress_complete]
  have hkey : (complete pm x).key = pm.key := rfl
  have hval : (complete pm x).msg.vote.value = x := rfl
  have hinst : (complete pm x).msg.vote.inst = pm.msg.vote.inst := rfl
  rw [hkey, hval, hinst]
  constructor
  · rintro ⟨⟨hp1, c, hc, hb⟩, hx, hK, hp2, hfull⟩
    have := (checkBody_complete_iff cfg c pm x hK).mp ⟨hb, hx, hfull⟩
    exact ⟨hK, this.1, hp1, hp2, c, hc, this.2⟩
  · rintro ⟨hK, hph, hp1, hp2, c, hc, hb⟩
    have := (checkBody_complete_iff cfg c pm x hK).mpr ⟨hph, hb⟩
    exact ⟨⟨hp1, c, hc, this.1⟩, this.2.1, hK, hp2, this.2.2⟩

/-! ### strip / complete -/

theorem strip_key (m : Msg) : (strip m).key = keyOf m.vote.value := by
  unfold strip
  cases h : m.vote.value <;> simp [keyOf, VKey.zero]

/-- For a valid message, inference restores exactly the justification value that stripping removed. -/
theorem infer_restores {net : Nat} {c : Committee} {m : Msg} (hv : validMsg net c m) (j : Just)
    (hj : m.just = some j) :
    inferJust m.vote.phase m.vote.value { j with vote := { j.vote with value := [] } } = j := by
  obtain ⟨_, _, _, hjn, hjnn⟩ := hv
  by_cases hn : needsJustification m.vote
  · obtain ⟨j', hj', _, _, _, hjust, _⟩ := hjn hn
    rw [hj] at hj'; cases hj'
    rw [inferJust_eq]
    obtain ⟨⟨i, r, p, su, v⟩, sg, ag, en⟩ := j
    unfold justifies at hjust
    unfold inferred
    simp only [QUALITY, CONVERGE, PREPARE, COMMIT, DECIDE] at hjust ⊢
    rcases hjust with ⟨hph, _, hcase | hcase⟩ | ⟨hph, hjp, _, hvv⟩ | ⟨hph, hjp, hvv⟩
    · obtain ⟨hjp, hvv⟩ := hcase
      subst hjp; subst hvv
      rcases hph with hph | hph <;> simp [hph]
    · obtain ⟨hjp, hvv⟩ := hcase
      subst hjp; subst hvv
      rcases hph with hph | hph <;> simp [hph]
    · subst hjp; subst hvv
      simp [hph]
    · subst hjp; subst hvv
      simp [hph]
  · rw [hjnn hn] at hj; cases hj

end F3.Validator
