import F3.Gen.SkelNode
/-!
# Expected statement skeletons (SkelNode)

Hand-pinned expectations for the REGENERATED skeletons of `F3.Gen.SkelNode` (tools/go2lean/skel.go): the pre-order
list of the statements of a Go function as `<depth>:<kind>`. The expression-level tie theorems pin what single
conditions say; these pin that nothing was added around them (an extra early return, a cap, a dropped branch). A
structural change of the function — harmful or not — breaks the `rfl` below and with it the obligation of every
property importing this file; the check then searches for a failing input as for any broken obligation.
-/
namespace F3.SkelTie.SkelNode
open F3.Gen.SkelNode

/-- the structure the model of `ProcessBroadcast` was written against -/
def skelProcessBroadcastExpected : List String :=
  ["0:call:ef.lk.Lock", "0:defer", "0:if", "1:call:log.Warnw", "1:return1", "0:if", "1:assign=", "1:assign=",
   "1:assign=", "0:assign:=", "0:assign:=", "0:assign:=", "0:if", "1:if", "2:call:log.Warnw", "2:return1",
   "1:else", "2:call:log.Warnw", "2:assign=", "0:elseif", "1:assign=", "0:assign:=",
   "0:call:senders.addSender", "0:assign=", "0:if", "1:return1", "0:call:log.Warnw", "0:return1"]

theorem skelProcessBroadcast_expected : skelProcessBroadcast = skelProcessBroadcastExpected := rfl

/-- the structure the model of `BroadcastMessage` was written against -/
def skelBroadcastMessageExpected : List String :=
  ["0:if", "1:return1", "0:assign:=", "0:if", "1:call:log.Errorw", "0:call:h.msgsMutex.Lock", "0:if",
   "1:assign=", "0:assign:=", "0:assign=", "0:call:h.msgsMutex.Unlock", "0:if", "1:return1", "0:if",
   "1:call:log.Warnw", "0:assign:=", "0:if", "1:return1", "0:assign:=", "0:if", "1:return1", "0:assign=",
   "0:if", "1:return1", "0:return1"]

theorem skelBroadcastMessage_expected : skelBroadcastMessage = skelBroadcastMessageExpected := rfl

end F3.SkelTie.SkelNode
