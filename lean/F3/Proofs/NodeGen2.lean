import F3.Model.Equiv
import F3.Model.Certs
import F3.Model.Wal
import F3.Gen.Equiv2
import F3.Gen.Certs2
import F3.Gen.Wal2
/-!
# Tie theorems, second set: `equivocation.go`, `host.go`, `certs/certs.go`, `internal/writeaheadlog/wal.go`

`F3.Gen.Equiv2`, `F3.Gen.Certs2`, `F3.Gen.Wal2` are regenerated on every run from
`tools/go2lean/targets.d/{Equiv2,Certs2,Wal2}.json`. Functions that mutate Go maps are regenerated as a
return code plus an *action trace*; the interpreters here say what a code is in the model. Core-only.
-/
set_option linter.unusedSimpArgs false
namespace F3.Gen2Tie
open F3.GoInt

theorem ncast_lt (a b : Nat) : decide ((a : Int) < (b : Int)) = decide (a < b) := decide_eq_decide.mpr (by omega)
theorem ncast_gt (a b : Nat) : decide ((a : Int) > (b : Int)) = decide (a > b) := decide_eq_decide.mpr (by omega)
theorem ncast_ne (a b : Nat) : decide ((a : Int) ≠ (b : Int)) = decide (a ≠ b) := decide_eq_decide.mpr (by omega)

/-! ## `equivocationFilter.ProcessReceive` -/
section Equiv
open F3.Equiv

/-- the action traces of the regenerated `ProcessReceive` in the model: `[1, 2]` = `addSender(peerID,
true)` and store the senders back, `[3]` = remember the message with the peer as origin -/
def receiveActs (f : Filter) (p : Peer) (m : Msg) (acts : List Int) : Filter :=
  if acts = [1, 2] then
    { f with active := aset m.sender (((alookup m.sender f.active).getD ⟨[], false⟩).add p true) f.active }
  else if acts = [3] then { f with seen := f.seen ++ [(m.key, ⟨m.sig, p⟩)] }
  else f

/-- **`ProcessReceive` is the source's**: for every filter, peer and message, the model's new filter is
the regenerated function's action trace (other instance → nothing; sender not tracked → nothing; seen
with another signature → mark the sender; not seen → remember it). -/
theorem processReceive_is_regenerated (f : Filter) (p : Peer) (m : Msg) :
    f.processReceive p m =
      receiveActs f p m
        (F3.Gen.Equiv2.processReceive f.cur m.inst (alookup m.key f.seen).isSome
          (alookup m.sender f.active).isSome
          (match alookup m.key f.seen with | some info => info.sig == m.sig | none => true)).2 := by
  unfold Filter.processReceive F3.Gen.Equiv2.processReceive receiveActs
  rw [ncast_ne]
  by_cases h : m.inst = f.cur
  · cases hs : alookup m.sender f.active with
    | none => simp [h]
    | some sd =>
      cases hk : alookup m.key f.seen with
      | none => simp [h]
      | some info => by_cases e : info.sig = m.sig <;> simp [h, e]
  · simp [h]

/-! ## `equivocationFilter.ProcessBroadcast` -/

/-- one action of the regenerated `ProcessBroadcast` on (filter, the `senders` local): 1 / 2 = the two
`make`s of a new instance, 3 = remember the signature with the local peer as origin, 40 / 41 =
`senders := activeSenders[m.Sender]; senders.addSender(localPID, false / true)`, 5 = store it back -/
def bAct (m : Msg) (st : Filter × Senders) (a : Int) : Filter × Senders :=
  if a = 1 then ({ st.1 with seen := [] }, st.2)
  else if a = 2 then ({ st.1 with active := [] }, st.2)
  else if a = 3 then ({ st.1 with seen := st.1.seen ++ [(m.key, ⟨m.sig, st.1.localPID⟩)] }, st.2)
  else if a = 40 then (st.1, ((alookup m.sender st.1.active).getD ⟨[], false⟩).add st.1.localPID false)
  else if a = 41 then (st.1, ((alookup m.sender st.1.active).getD ⟨[], false⟩).add st.1.localPID true)
  else if a = 5 then ({ st.1 with active := aset m.sender st.2 st.1.active }, st.2)
  else st

/-- what the model looks up before deciding: the filter after the new-instance reset -/
def afterReset (f : Filter) (m : Msg) : Filter :=
  if m.inst > f.cur then { f with cur := m.inst, seen := [], active := [] } else f

/-- **`ProcessBroadcast` is the source's**, for every filter and message: with `ok`, the signature
comparison and the origin test read off the model's `seen` map (after the reset of a new instance), the
model's new filter is the regenerated action trace run through `bAct` from the filter with the
regenerated `currentInstance`, and the model's verdict is the regenerated return code (0 = `false`,
1 = `true`, 2 = `senders.origins[0] == localPID`) with `senders.equivocation` read off the `senders` the
trace produced. -/
theorem processBroadcast_is_regenerated (f : Filter) (m : Msg) :
    let known := alookup m.key (afterReset f m).seen
    let ok := known.isSome
    let sigEq := match known with | some info => decide (info.sig = m.sig) | none => true
    let loc := match known with | some info => decide (info.origin = f.localPID) | none => false
    let g0 := F3.Gen.Equiv2.processBroadcast f.cur m.inst ok loc false sigEq
    let st := g0.2.2.foldl (bAct m) ({ f with cur := g0.2.1.toNat }, ⟨[], false⟩)
    let g := F3.Gen.Equiv2.processBroadcast f.cur m.inst ok loc st.2.equivocation sigEq
    (f.processBroadcast m).1 = st.1 ∧
    (f.processBroadcast m).2 =
      (if g.1 = 0 then false else if g.1 = 1 then true else st.2.origins.head? == some f.localPID) := by
  unfold Filter.processBroadcast F3.Gen.Equiv2.processBroadcast afterReset
  rw [ncast_lt, ncast_gt]
  by_cases h1 : m.inst < f.cur
  · have h2 : ¬ m.inst > f.cur := by omega
    simp [h1, h2]
  by_cases h2 : m.inst > f.cur
  · -- new instance: both maps were just reset, nothing is known
    simp [h1, h2, alookup, bAct]
    cases hq : (Senders.add ⟨[], false⟩ f.localPID false).equivocation <;> simp [hq]
  · simp only [h1, h2, if_false, decide_false]
    cases hk : alookup m.key f.seen with
    | none =>
      simp [bAct]
      cases hq : (((alookup m.sender f.active).getD ⟨[], false⟩).add f.localPID false).equivocation <;>
        simp [hq]
    | some info =>
      by_cases e : info.sig = m.sig
      · simp [e, bAct]
        cases hq : (((alookup m.sender f.active).getD ⟨[], false⟩).add f.localPID false).equivocation <;>
          simp [hq]
      · by_cases o : info.origin = f.localPID
        · simp [e, o]
        · simp [e, o, bAct]
          cases hq : (((alookup m.sender f.active).getD ⟨[], false⟩).add f.localPID true).equivocation <;>
            simp [hq]

/-! ## `host.go`: filter → WAL append → publish, and the purge epoch -/

/-- the calls of `BroadcastMessage`, then of `rebroadcastMessage`, in source order: the filter is asked
first, the WAL is appended to before anything is published, a rebroadcast appends nothing -/
theorem broadcast_call_order :
    F3.Gen.Equiv2.callSites.map (·.2.1) =
      ["ProcessBroadcast", "Append", "Publish", "ProcessBroadcast", "Publish"] := by decide

/-- **The model's crash points are in the source's order** (`ProcessBroadcast`, `Append`, `Publish` of
`broadcast_call_order`): a crash after the first call leaves only the filter changed, after the second
also the WAL, and only a run past the third puts the message on the wire; a refused message touches
neither the WAL nor the wire. -/
theorem broadcast_model_order (s : Sys) (m : Msg) (hup : s.up = true) :
    ((s.filter.processBroadcast m).2 = true →
      (step s (.broadcast m 1)).wal = s.wal ∧ (step s (.broadcast m 1)).wire = s.wire ∧
      (step s (.broadcast m 2)).wal = s.wal ++ [m] ∧ (step s (.broadcast m 2)).wire = s.wire ∧
      (step s (.broadcast m 0)).wal = s.wal ++ [m] ∧ (step s (.broadcast m 0)).wire = s.wire ++ [m]) ∧
    ((s.filter.processBroadcast m).2 = false →
      (step s (.broadcast m 0)).wal = s.wal ∧ (step s (.broadcast m 0)).wire = s.wire) := by
  constructor <;> intro h <;> simp [step, hup, h]

/-- **`keepInstancesInWAL`**: on certificate `c` (a `uint64`) the node purges the WAL exactly when the
regenerated guard holds, at the regenerated epoch; this is the `if c > 5 then purge (c - 5)` the Lean
driver of C11 / C12 (`Driver/Equiv.lean`) replays certificates with. No wrap: the guard keeps
`c - keepInstancesInWAL` non-negative. -/
theorem wal_purge_epoch_is_regenerated (c : Nat) (hc : c < 2 ^ 64) :
    (if F3.Gen.Equiv2.walPurgeGuard c then some (F3.Gen.Equiv2.walPurgeEpoch c).toNat else none) =
      (if c > 5 then some (c - 5) else none) := by
  unfold F3.Gen.Equiv2.walPurgeGuard F3.Gen.Equiv2.walPurgeEpoch u64
  by_cases h : c > 5
  · have : (c : Int) > 5 := by omega
    simp only [this, decide_true, if_true, h]
    congr 1
    omega
  · have : ¬ (c : Int) > 5 := by omega
    simp [this, h]

end Equiv

/-! ## `ValidateFinalityCertificates`: the order of the checks -/
section Certs
open F3.Certs

/-- **The checks of one loop iteration of `ValidateFinalityCertificates`, in the source's order.** For
every network, loop state and certificate, the outcome class of the model's `stepCert` is the code of
the regenerated `if` sequence: 1 wrong instance, 2 invalid chain, 3 empty chain, 4 base mismatch,
5 signature check failed, 6 power-table delta does not apply, 8 power-table CID mismatch, 0 accepted
(7, a failing `MakePowerTableCID`, has no counterpart: CIDs are tokens in the model). -/
theorem stepCert_checks_are_regenerated (net : Nat) (s : VState) (c : Cert) :
    let code := F3.Gen.Certs2.validateCertChecks s.base.isSome
      (match s.base with
        | some b => (match c.chain.head? with | some h => Tip.eq b h | none => false)
        | none => true)
      c.inst (!chainValid c.chain) c.chain.isEmpty
      (match applyDiff s.table c.delta with | .ok nt => c.pt != .table nt | .error _ => false)
      false
      (match applyDiff s.table c.delta with | .ok _ => false | .error _ => true)
      s.next
      (match verifySig net s.table c with | .ok _ => false | .error _ => true)
    (code = 1 → stepCert net s c = .error .instance) ∧
    (code = 2 → stepCert net s c = .error .badChain) ∧
    (code = 3 → stepCert net s c = .error .emptyChain) ∧
    (code = 4 → stepCert net s c = .error .baseMismatch) ∧
    (code = 5 → ∃ e, verifySig net s.table c = .error e ∧ stepCert net s c = .error e) ∧
    (code = 6 → ∃ e, stepCert net s c = .error (.diff e)) ∧
    (code = 8 → stepCert net s c = .error .cidMismatch) ∧
    (code = 0 → ∃ s', stepCert net s c = .ok s') ∧
    code ≠ 7 := by
  unfold stepCert F3.Gen.Certs2.validateCertChecks baseMismatch
  rw [ncast_ne]
  by_cases h1 : c.inst = s.next
  · cases h2 : chainValid c.chain
    · simp [h1, h2]
    · cases h3 : c.chain.isEmpty
      · cases hb : s.base with
        | none =>
          cases h5 : verifySig net s.table c with
          | error e => simp [h1, h2, h3, hb, h5]
          | ok u =>
            cases h6 : applyDiff s.table c.delta with
            | error e => simp [h1, h2, h3, hb, h5, h6]
            | ok nt => cases h8 : (c.pt != CidTok.table nt) <;> simp [h1, h2, h3, hb, h5, h6, h8]
        | some b =>
          cases hh : c.chain.head? with
          | none => simp [h1, h2, h3, hb, hh]
          | some hd =>
            cases h4 : Tip.eq b hd
            · simp [h1, h2, h3, hb, hh, h4]
            · cases h5 : verifySig net s.table c with
              | error e => simp [h1, h2, h3, hb, hh, h4, h5]
              | ok u =>
                cases h6 : applyDiff s.table c.delta with
                | error e => simp [h1, h2, h3, hb, hh, h4, h5, h6]
                | ok nt => cases h8 : (c.pt != CidTok.table nt) <;> simp [h1, h2, h3, hb, hh, h4, h5, h6, h8]
      · simp [h1, h2, h3]
  · simp [h1]

end Certs

/-! ## `WriteAheadLog.Purge`: which files go -/
section Wal
open F3.Wal

/-- **`Purge` deletes a closed file exactly when the source's `c.maxEpoch < keepEpoch` holds**: the
closed files the model keeps after `purge k`, and the names it deletes, are given by the regenerated
condition. Every codec, state and epoch; the active file is not in `logFiles`. -/
theorem purge_selection_is_regenerated {α β : Type} (cfg : Cfg α β) (s : State α β) (m : Mem) (k : Nat)
    (hm : s.mem = some m) :
    ((step cfg s (.purge k)).1.mem.map (·.logFiles)) =
      some (m.logFiles.filter (fun st => !F3.Gen.Wal2.purgeDeletes st.maxEpoch k)) ∧
    (step cfg s (.purge k)).1.dir =
      s.dir.filter (fun f => !(((m.logFiles.filter (fun st => F3.Gen.Wal2.purgeDeletes st.maxEpoch k)).map
        (·.name)).contains f.1)) := by
  have e : ∀ st : Stat, F3.Gen.Wal2.purgeDeletes st.maxEpoch k = decide (st.maxEpoch < k) := by
    intro st; unfold F3.Gen.Wal2.purgeDeletes; exact ncast_lt _ _
  simp only [e]
  unfold step
  simp [hm]

/-- the only file-system effect of `Purge` is `os.Remove` of the selected file, from the source -/
theorem purge_call_site :
    F3.Gen.Wal2.callSites =
      [("internal/writeaheadlog/wal.go", "Remove", ["filepath.Join(wal.path, c.logName)"])] := by decide

end Wal

end F3.Gen2Tie
