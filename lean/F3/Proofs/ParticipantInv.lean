import F3.Proofs.ParticipantRun
import F3.Proofs.Participant
/-!
# The instance-level invariants, lifted to the participant API

For every sequence of `POp`s and every drain order:
* `prun_wp`      — (in `F3.Proofs.ParticipantRun`) the (progress, broadcast) skeleton of all effects is well
                   paired and `DQ` holds at the end (calls may be refused at the door; nothing else may fail);
* `prun_decinv`  — `DecInv` is preserved unconditionally (as at instance level, no no-failure hypothesis): proved
                   directly on `receiveMany` = fold of `receiveOne` + at most one `postReceive`;
* `prun_guarded` — Layer B: `GInv` at the end and `GuardL` for every broadcast.
-/
namespace F3.Instance

/-! ### the decision invariant, directly -/

section Decision
variable {V : Pid → Chain → Prop}

theorem rmFold_decinv (now : Int) (t : Table) (ms : List Msg) (acc : State × List Eff × List Nat × Bool)
    (hi : DecInv V acc.1) (ht : acc.1.tbl = t) (hms : ∀ m ∈ ms, MsgValidD V t m) :
    DecInv V (ms.foldl (rmStep now) acc).1 ∧ (ms.foldl (rmStep now) acc).1.tbl = t := by
  induction ms generalizing acc with
  | nil => exact ⟨hi, ht⟩
  | cons m ms ih =>
    rw [List.foldl_cons]
    have hm := hms m List.mem_cons_self
    have h1 : DecInv V (acc.1.receiveOne now m).1.1 :=
      receiveOne_decinv acc.1 now m hi (by rw [ht]; exact hm.1) hm.2
    have h2 : (acc.1.receiveOne now m).1.1.tbl = t := (receiveOne_tbl_input acc.1 now m).1.trans ht
    apply ih _ _ _ (fun m' hm' => hms m' (List.mem_cons_of_mem _ hm'))
    · unfold rmStep
      dsimp only
      split
      · exact hi
      · split
        · exact hi
        · split
          · exact h1
          · exact h1
    · unfold rmStep
      dsimp only
      split
      · exact ht
      · split
        · exact ht
        · split
          · exact h2
          · exact h2

/-- `ReceiveMany` keeps the decision invariant, whether or not it reports a failure -/
theorem receiveMany_decinv (s : State) (now : Int) (ms : List Msg) (hi : DecInv V s)
    (hms : ∀ m ∈ ms, MsgValidD V s.tbl m) :
    DecInv V (s.receiveMany now ms).1 ∧ (s.receiveMany now ms).1.tbl = s.tbl := by
  rw [receiveMany_eq]
  split
  · exact ⟨hi, rfl⟩
  · obtain ⟨h1, h2⟩ := rmFold_decinv now s.tbl ms (s, [], [], false) hi rfl hms
    dsimp only
    generalize ms.foldl (rmStep now) (s, [], [], false) = acc at *
    split
    · exact ⟨h1, h2⟩
    · rcases go_cases now acc.1 (sortNat acc.2.2.1).reverse with hgo | ⟨r, _, hgo, _⟩
      · rw [hgo]; exact ⟨h1, h2⟩
      · rw [hgo]
        exact ⟨DecInv_frame (postReceive_frame acc.1 now r) h1, (postReceive_tbl acc.1 now r).trans h2⟩

/-- validity of a participant API call as far as the decision is concerned (`OpValid` of the delivery) -/
def POpValid (V : Pid → Chain → Prop) (t : Table) : POp → Prop
  | .recv now m => OpValid V t (.recv now m)
  | _ => True

theorem pstep_decinv (order : List Pid) (p : PState) (op : POp) (hi : DecInv V p.inst)
    (hqu : ∀ m ∈ p.queue, MsgValidD V p.inst.tbl m) (hop : POpValid V p.inst.tbl op) :
    DecInv V (pstepWith order p op).1.inst ∧ (pstepWith order p op).1.inst.tbl = p.inst.tbl ∧
    ∀ m ∈ (pstepWith order p op).1.queue, MsgValidD V p.inst.tbl m := by
  cases op with
  | alarm now =>
    unfold pstepWith
    dsimp only
    split
    · have hb : DecInv V (p.inst.beginQuality now).1 := DecInv_frame (beginQuality_frame p.inst now) hi
      have hbt : (p.inst.beginQuality now).1.tbl = p.inst.tbl := beginQuality_tbl p.inst now
      split
      · exact ⟨hb, hbt, by simp⟩
      · obtain ⟨h1, h2⟩ := receiveMany_decinv (p.inst.beginQuality now).1 now (drainWith order p.queue) hb
          (fun m hm => by rw [hbt]; exact hqu m (drainWith_mem order p.queue m hm))
        exact ⟨h1, h2.trans hbt, by simp⟩
    · exact ⟨step_decinv p.inst (.alarm now) hi trivial, step_tbl p.inst (.alarm now), hqu⟩
  | recv now m =>
    unfold pstepWith
    dsimp only
    split
    · refine ⟨by rw [(queueAdd_inst p m).1]; exact hi, by rw [(queueAdd_inst p m).1], ?_⟩
      intro x hx
      rcases queueAdd_mem p m x hx with h | rfl
      · exact hqu x h
      · exact ⟨hop.2.1, hop.2.2⟩
    · exact ⟨step_decinv p.inst (.recv now m) hi hop, step_tbl p.inst (.recv now m), hqu⟩

/-- **The decision invariant along participant-level runs**, for every drain order. -/
theorem prun_decinv (order : List Pid) (p : PState) (ops : List POp) (hi : DecInv V p.inst)
    (hqu : ∀ m ∈ p.queue, MsgValidD V p.inst.tbl m) (hops : ∀ op ∈ ops, POpValid V p.inst.tbl op) :
    DecInv V (prun order p ops).1.inst ∧ (prun order p ops).1.inst.tbl = p.inst.tbl := by
  induction ops generalizing p with
  | nil => exact ⟨hi, rfl⟩
  | cons op ops ih =>
    rw [prun_cons]
    obtain ⟨h1, h2, h3⟩ := pstep_decinv order p op hi hqu (hops op List.mem_cons_self)
    obtain ⟨h4, h5⟩ := ih (pstepWith order p op).1 h1 (by rw [h2]; exact h3)
      (fun o ho => by rw [h2]; exact hops o (List.mem_cons_of_mem _ ho))
    exact ⟨h4, h5.trans h2⟩

end Decision

/-! ### Layer B -/

section Guards
variable {W : Votes} {me : Pid}

theorem mem_filter_nonErr_bc {es : List Eff} {r : Nat} {ph : Phase} {v : Chain} {tk : Bool} {j : Option Just} :
    Eff.broadcast r ph v tk j ∈ es.filter nonErr ↔ Eff.broadcast r ph v tk j ∈ es := by
  simp [List.mem_filter, nonErr]

/-- **Layer B along participant-level runs.** For every drain order and every sequence of participant API calls
in which every delivered message of this instance is valid and no call reports an error other than a refusal at
the door, provided the broadcasts are the participant's own votes in `W`: every broadcast — those made while
draining the pre-start queue included — satisfies the guard of the abstract protocol. -/
theorem prun_guarded (order : List Pid) (p : PState) (ops : List POp) (h : GInv W me p.inst) (hq : DQ p.inst)
    (hqu : ∀ m ∈ p.queue, foreignM m = true ∨ MsgValid W p.inst.tbl m)
    (hops : ∀ op ∈ ops, pforeign op = true ∨ POpP (MsgValid W p.inst.tbl) op)
    (hok : okRunP order p ops = true) (hown : OwnIn W me (prun order p ops).2) :
    Guarded W p.inst.tbl me p.inst.input (prun order p ops).2 ∧ GInv W me (prun order p ops).1.inst := by
  obtain ⟨mops, hmok, hnf, hst, heff⟩ :=
    prun_micro (MsgValid W p.inst.tbl) (fun _ hm => MsgValid.msgOk (W := W) hm) order p ops hq hqu hops hok
  have hown' : OwnIn W me (mrun p.inst mops).2 := by
    intro r ph v tk j hm
    rw [heff, mem_filter_nonErr_bc] at hm
    exact hown r ph v tk j hm
  obtain ⟨hg, hi⟩ := mrun_guarded (me := me) mops h hq hmok hown' hnf
  rw [hst] at hi
  refine ⟨?_, hi⟩
  intro r ph v tk j hm
  exact hg r ph v tk j (by rw [heff, mem_filter_nonErr_bc]; exact hm)

end Guards

end F3.Instance
