import F3.Proofs.StorePut
/-! Observations are a function of the represented history: `observe` through any handle in a
represented state equals `Spec.obs`; a restart observes `specReobserve`. -/
namespace F3.Store

variable {ds : DS} {sp : Spec}

theorem observe_repr (cfg : Cfg) (h : Repr cfg.freq ds sp) {m : Mem} (hm : MemOk m sp) :
    observe cfg m ds = sp.obs := by
  have hnext : m.next = sp.first + sp.certs.length := mem_next_eq hm.first hm.latest h.facts
  unfold observe Spec.obs
  have hn : m.next - m.first = sp.certs.length := by rw [hnext, hm.first]; omega
  rw [hn]
  simp only [hm.first, hm.latest]
  congr 1
  · apply List.map_congr_left
    intro k hk
    have hk' : k < sp.certs.length := List.mem_range.1 hk
    rw [getCert_repr h hk', List.getElem?_eq_getElem hk']
  · apply List.map_congr_left
    intro k hk
    have hk' : k ≤ sp.certs.length := Nat.lt_succ_iff.1 (List.mem_range.1 hk)
    obtain ⟨T, hT, _⟩ := h.facts.tbls k hk'
    rw [getPowerTable_repr h cfg m hm.first hm.latest (Or.inr hm.table) hk' (Or.inl rfl) hT]
    have : Spec.foldTables sp.init (List.take k sp.certs) = some T := hT
    rw [this]

/-- Observing a freshly created store. -/
theorem observe_fresh (cfg : Cfg) (ds : DS) (first : Nat) {init : Table} (hne : init ≠ []) :
    observe cfg { first := first, latest := none, latestTable := init } ds = Spec.obs ⟨first, init, []⟩ := by
  unfold observe Spec.obs
  simp only [Mem.next, Nat.sub_self, List.range_zero, List.map_nil, List.length_nil, Nat.zero_add, List.range_one,
    List.map_cons, Nat.add_zero, List.take_nil]
  congr 1
  unfold getPowerTable
  simp [Mem.next, hne, Spec.foldTables, Spec.latest]

/-- The abstract state a datastore is in (no wipe pending). -/
def Describes (freq : Nat) (ds : DS) : Desc → Prop
  | .notInit => NotInit ds
  | .hist sp => Repr freq ds sp

theorem reobserve_of_ok {cfg : Cfg} {ds : DS} {o : Orders} {v : Variant} {ws : List W} {m : Mem}
    (h : reopen cfg ds o v = ⟨ws, .ok m⟩) : reobserve cfg ds o v = .ok (observe cfg m (applyWs ds ws)) := by
  unfold reobserve; rw [h]

theorem reobserve_of_err {cfg : Cfg} {ds : DS} {o : Orders} {v : Variant} {ws : List W} {e : Err}
    (h : reopen cfg ds o v = ⟨ws, .error e⟩) : reobserve cfg ds o v = .error e := by
  unfold reobserve; rw [h]

theorem openOrCreate_empty (cfg : Cfg) (ds : DS) (o : Orders) (f : Nat) :
    openOrCreateStore cfg ds o f [] = ⟨[], .error .emptyInitial⟩ := by
  unfold openOrCreateStore; rw [if_pos rfl]

theorem openOrCreate_repr_first (cfg : Cfg) (o : Orders) {freq : Nat} (h : Repr freq ds sp) {f : Nat} {t : Table}
    (ht : t ≠ []) (hf : f ≠ sp.first) : openOrCreateStore cfg ds o f t = ⟨[], .error .firstMismatch⟩ := by
  unfold openOrCreateStore
  rw [if_neg ht, openCore_repr cfg o h]
  simp only [applyWs_nil]
  unfold getNum; rw [h.first]
  simp only
  rw [if_pos hf]

theorem openOrCreate_repr_table (cfg : Cfg) (o : Orders) {freq : Nat} (h : Repr freq ds sp) {t : Table}
    (ht : t ≠ []) (hi : t ≠ sp.init) : openOrCreateStore cfg ds o sp.first t = ⟨[], .error .tableMismatch⟩ := by
  unfold openOrCreateStore
  rw [if_neg ht, openCore_repr cfg o h]
  simp only [applyWs_nil]
  unfold getNum; rw [h.first]
  simp only [ne_eq, not_true_eq_false, if_false, h.init]
  have : Val.tbl sp.init ≠ Val.tbl t := fun e => hi (Val.tbl.inj e).symm
  rw [if_pos this]

theorem reobserve_repr_open (cfg : Cfg) (o : Orders) (h : Repr cfg.freq ds sp) (ho : OpenOk cfg sp) :
    reobserve cfg ds o .open = .ok sp.obs := by
  obtain ⟨T, hT, hopen⟩ := openStore_repr cfg o h ho
  rw [reobserve_of_ok (v := .open) hopen, applyWs_nil, observe_repr cfg h (memOk_memOf hT)]

theorem reobserve_repr_ooc (cfg : Cfg) (o : Orders) (h : Repr cfg.freq ds sp) (ho : OpenOk cfg sp) (f : Nat) (t : Table) :
    reobserve cfg ds o (.ooc f t) = specReobserve (.hist sp) (.ooc f t) := by
  simp only [specReobserve]
  by_cases ht : t = []
  · subst ht
    rw [if_pos rfl, reobserve_of_err (v := .ooc f []) (openOrCreate_empty cfg ds o f)]
  · rw [if_neg ht]
    by_cases hf : f = sp.first
    · subst hf
      rw [if_neg (fun hh => hh rfl)]
      by_cases hi : t = sp.init
      · subst hi
        rw [if_neg (fun hh => hh rfl)]
        obtain ⟨T, hT, hopen⟩ := openOrCreate_repr cfg o h ho
        rw [reobserve_of_ok (v := .ooc sp.first sp.init) hopen, applyWs_nil, observe_repr cfg h (memOk_memOf hT)]
      · rw [if_pos hi, reobserve_of_err (v := .ooc sp.first t) (openOrCreate_repr_table cfg o h ht hi)]
    · rw [if_pos hf, reobserve_of_err (v := .ooc f t) (openOrCreate_repr_first cfg o h ht hf)]

theorem reobserve_notInit_open (cfg : Cfg) (o : Orders) (h : NotInit ds) :
    reobserve cfg ds o .open = .error .notInitialized :=
  reobserve_of_err (v := .open) (openStore_notInit cfg o h)

theorem reobserve_notInit_ooc (cfg : Cfg) (o : Orders) (h : NotInit ds) (f : Nat) (t : Table) :
    reobserve cfg ds o (.ooc f t) = specReobserve .notInit (.ooc f t) := by
  simp only [specReobserve]
  by_cases ht : t = []
  · subst ht
    rw [if_pos rfl, reobserve_of_err (v := .ooc f []) (openOrCreate_empty cfg ds o f)]
  · rw [if_neg ht, reobserve_of_ok (v := .ooc f t) (openOrCreate_notInit cfg o h f ht), observe_fresh cfg _ f ht]

/-- **Observations after a restart depend only on the abstract state**, not on stray keys, the query
order or the open variant's internals. -/
theorem reobserve_describes (cfg : Cfg) (o : Orders) {d : Desc} (h : Describes cfg.freq ds d)
    (ho : ∀ sp, d = .hist sp → OpenOk cfg sp) (v : Variant) :
    reobserve cfg ds o v = specReobserve d v := by
  cases d with
  | notInit =>
    cases v with
    | «open» => exact reobserve_notInit_open cfg o h
    | ooc f t => exact reobserve_notInit_ooc cfg o h f t
  | hist sp =>
    cases v with
    | «open» => exact reobserve_repr_open cfg o h (ho sp rfl)
    | ooc f t => exact reobserve_repr_ooc cfg o h (ho sp rfl) f t

end F3.Store
