import F3.Model.Validator
import F3.Gen.Validate2
/-!
# Tie theorems, second set: `gpbft/validator.go` sites of the validator model (`F3/Model/Validator.lean`)

`F3.Gen.Validate2` is regenerated on every run from `tools/go2lean/targets.d/Validate2.json`: the
`voteForBottom` expression, the phase-rule `switch`, `needsJustification`, the two expectation tables
(the `map[Phase]map[Phase]…` literals, as rows `([message phase, justification phase], cells)`), the
round comparison of `validateJustification` and the zero-key rules of `FullyValidateMessage`.
Phases are arbitrary `Nat`s in the model (a `uint8` on the wire): every theorem is for all of them.
Core-only.
-/
set_option linter.unusedSimpArgs false
namespace F3.Gen2Tie
open F3.Msg F3.Validator F3.GoInt

/-- comparison of a model phase / round with a Go constant -/
theorem dk (p k : Nat) : decide ((p : Int) = ((k : Nat) : Int)) = decide (p = k) :=
  decide_eq_decide.mpr (by omega)
theorem dk0 (p : Nat) : decide ((p : Int) = 0) = decide (p = 0) := dk p 0
theorem dk1 (p : Nat) : decide ((p : Int) = 1) = decide (p = 1) := dk p 1
theorem dk2 (p : Nat) : decide ((p : Int) = 2) = decide (p = 2) := dk p 2
theorem dk3 (p : Nat) : decide ((p : Int) = 3) = decide (p = 3) := dk p 3
theorem dk4 (p : Nat) : decide ((p : Int) = 4) = decide (p = 4) := dk p 4
theorem dk5 (p : Nat) : decide ((p : Int) = 5) = decide (p = 5) := dk p 5
theorem dn0 (p : Nat) : decide ((p : Int) ≠ 0) = decide (p ≠ 0) := decide_eq_decide.mpr (by omega)
theorem dn5 (p : Nat) : decide ((p : Int) ≠ 5) = decide (p ≠ 5) := decide_eq_decide.mpr (by omega)

/-! ## `voteForBottom`, `needsJustification`, the phase rules -/

/-- **`voteForBottom` is the source's** `(value.IsZero() && !partial) || (partial && valueKey.IsZero())`,
for full (`vk = none`) and partial (`vk = some k`) validation; in full mode the key is not looked at
(`kz` arbitrary). -/
theorem voteForBottom_is_regenerated (vk : Option VKey) (m : Msg) (kz : Bool) :
    voteForBottom vk m =
      F3.Gen.Validate2.voteForBottom (match vk with | some k => k.isZero | none => kz) vk.isSome
        m.vote.value.isEmpty := by
  cases vk <;> simp [voteForBottom, F3.Gen.Validate2.voteForBottom]

/-- **`needsJustification` is the source's**, all phases and rounds. -/
theorem needsJust_is_regenerated (m : Msg) (bottom : Bool) :
    needsJust m bottom = F3.Gen.Validate2.needsJustification m.vote.phase m.vote.round bottom := by
  unfold needsJust F3.Gen.Validate2.needsJustification
  simp only [dk0, dk1, dk3, dk4, QUALITY, PREPARE, COMMIT]

/-- **The phase rules are the source's `switch msg.Vote.Phase`**: the model accepts exactly when the
regenerated block runs to its end (code 0) rather than into one of its eight `return`s; `t` is the
outcome of `VerifyTicket`. All phases (unknown ones included: code 8), all rounds. -/
theorem phaseRules_is_regenerated (cfg : Cfg) (c : Committee) (m : Msg) (bottom : Bool) (pub : Nat) :
    phaseRules cfg c m bottom pub =
      decide (F3.Gen.Validate2.phaseRules m.vote.phase m.vote.round
        (m.ticket == Sig.tok pub (.vrf cfg.net c.beacon m.vote.inst m.vote.round)) bottom = 0) := by
  unfold phaseRules F3.Gen.Validate2.phaseRules
  generalize (m.ticket == Sig.tok pub (.vrf cfg.net c.beacon m.vote.inst m.vote.round)) = t
  generalize m.vote.phase = p
  generalize m.vote.round = r
  simp only [dk0, dk1, dk2, dk3, dk4, dk5, dn0, QUALITY, CONVERGE, PREPARE, COMMIT, DECIDE]
  by_cases h1 : p = 1
  · by_cases hr : r = 0 <;> cases bottom <;> simp [h1, hr]
  by_cases h2 : p = 2
  · by_cases hr : r = 0 <;> cases bottom <;> cases t <;> simp [h2, hr]
  by_cases h5 : p = 5
  · by_cases hr : r = 0 <;> cases bottom <;> simp [h5, hr]
  by_cases h3 : p = 3
  · simp [h3]
  by_cases h4 : p = 4
  · simp [h4]
  simp [h1, h2, h3, h4, h5]

/-! ## The expectation tables -/

/-- row look-up in a regenerated table keyed by (message phase, justification phase) -/
def lookup2 : List (List Int × List Int) → Nat → Nat → Option (List Int)
  | [], _, _ => none
  | ([x, y], cells) :: t, a, b => if (a : Int) = x ∧ (b : Int) = y then some cells else lookup2 t a b
  | _ :: t, a, b => lookup2 t a b

/-- a row of `validateJustification`'s table: (expected round, 1 = the message's key / 0 = the zero key) -/
def justRow : List Int → Option (Nat × Bool)
  | [r, k] => some (r.toNat, k == 1)
  | _ => none

theorem u64_pred (round : Nat) (_h : round < 2 ^ 64) :
    (u64 ((round : Int) - 1)).toNat = F3.Validator.u64 (round + maxU64) := by
  unfold GoInt.u64 F3.Validator.u64 maxU64
  omega

/-- **The expectation table of `validateJustification` is the source's map literal.** For every message
phase, justification phase and `uint64` message round, the model's `expectation` is the row of the
regenerated table: CONVERGE / PREPARE ← COMMIT of the previous round for the zero key or PREPARE of the
previous round for the message's key (`Round - 1` wraps at round 0 in both), COMMIT ← PREPARE of the same
round, DECIDE ← COMMIT with `math.MaxUint64`; nothing else. -/
theorem expectation_is_regenerated (ph round jph : Nat) (hr : round < 2 ^ 64) :
    expectation ph round jph = (lookup2 (F3.Gen.Validate2.justExpectations round) ph jph).bind justRow := by
  have e := u64_pred round hr
  have em : ((18446744073709551615 : Int)).toNat = maxU64 := by unfold maxU64; rfl
  unfold expectation F3.Gen.Validate2.justExpectations
  simp only [CONVERGE, PREPARE, COMMIT, DECIDE]
  by_cases a2 : ph = 2
  · subst a2
    by_cases b4 : jph = 4
    · subst b4; simp [lookup2, justRow, e]
    by_cases b3 : jph = 3
    · subst b3; simp [lookup2, justRow, e]
    have n4 : ¬ ((jph : Int) = 4) := by omega
    have n3 : ¬ ((jph : Int) = 3) := by omega
    simp [lookup2, b3, b4, n3, n4]
  by_cases a3 : ph = 3
  · subst a3
    by_cases b4 : jph = 4
    · subst b4; simp [lookup2, justRow, e]
    by_cases b3 : jph = 3
    · subst b3; simp [lookup2, justRow, e]
    have n4 : ¬ ((jph : Int) = 4) := by omega
    have n3 : ¬ ((jph : Int) = 3) := by omega
    simp [lookup2, b3, b4, n3, n4]
  by_cases a4 : ph = 4
  · subst a4
    by_cases b3 : jph = 3
    · subst b3; simp [lookup2, justRow]
    have n3 : ¬ ((jph : Int) = 3) := by omega
    simp [lookup2, b3, n3]
  by_cases a5 : ph = 5
  · subst a5
    by_cases b4 : jph = 4
    · subst b4; simp [lookup2, justRow, em]
    have n4 : ¬ ((jph : Int) = 4) := by omega
    simp [lookup2, b4, n4]
  have n2 : ¬ ((ph : Int) = 2) := by omega
  have n3 : ¬ ((ph : Int) = 3) := by omega
  have n4 : ¬ ((ph : Int) = 4) := by omega
  have n5 : ¬ ((ph : Int) = 5) := by omega
  simp [lookup2, a2, a3, a4, a5, n2, n3, n4, n5]

/-- **The abbreviated table of `FullyValidateMessage` is the source's map literal**: `some true` = the
vote value (`pmsg.Vote.Value`, code 1), `some false` = bottom (`&ECChain{}`, code 0). All phases. -/
theorem fullTable_is_regenerated (ph jph : Nat) :
    fullTable ph jph =
      (lookup2 F3.Gen.Validate2.fullExpectations ph jph).bind
        (fun cells => match cells with | [k] => some (k == 1) | _ => none) := by
  unfold fullTable F3.Gen.Validate2.fullExpectations
  simp only [CONVERGE, PREPARE, COMMIT, DECIDE]
  by_cases a2 : ph = 2
  · subst a2
    by_cases b4 : jph = 4
    · subst b4; simp [lookup2]
    by_cases b3 : jph = 3
    · subst b3; simp [lookup2]
    have n4 : ¬ ((jph : Int) = 4) := by omega
    have n3 : ¬ ((jph : Int) = 3) := by omega
    simp [lookup2, b3, b4, n3, n4]
  by_cases a3 : ph = 3
  · subst a3
    by_cases b4 : jph = 4
    · subst b4; simp [lookup2]
    by_cases b3 : jph = 3
    · subst b3; simp [lookup2]
    have n4 : ¬ ((jph : Int) = 4) := by omega
    have n3 : ¬ ((jph : Int) = 3) := by omega
    simp [lookup2, b3, b4, n3, n4]
  by_cases a4 : ph = 4
  · subst a4
    by_cases b3 : jph = 3
    · subst b3; simp [lookup2]
    have n3 : ¬ ((jph : Int) = 3) := by omega
    simp [lookup2, b3, n3]
  by_cases a5 : ph = 5
  · subst a5
    by_cases b4 : jph = 4
    · subst b4; simp [lookup2]
    have n4 : ¬ ((jph : Int) = 4) := by omega
    simp [lookup2, b4, n4]
  have n2 : ¬ ((ph : Int) = 2) := by omega
  have n3 : ¬ ((ph : Int) = 3) := by omega
  have n4 : ¬ ((ph : Int) = 4) := by omega
  have n5 : ¬ ((ph : Int) = 5) := by omega
  simp [lookup2, a2, a3, a4, a5, n2, n3, n4, n5]

/-! ## The round comparison of `validateJustification` -/

/-- **When a justification's round is wrong** is the source's
`msg.Justification.Vote.Round != expected.Round && msg.Vote.Phase != DECIDE_PHASE`, all rounds and phases
(the model's `anyRound` is the second conjunct). -/
theorem justWrongRound_is_regenerated (mph jr er : Nat) :
    (decide (jr ≠ er) && !anyRound mph er) = F3.Gen.Validate2.justWrongRound er jr mph := by
  unfold anyRound F3.Gen.Validate2.justWrongRound
  simp only [dn5, DECIDE]
  have : decide ((jr : Int) ≠ (er : Int)) = decide (jr ≠ er) := decide_eq_decide.mpr (by omega)
  rw [this]
  by_cases h : mph = 5 <;> simp [h]

/-! ## `FullyValidateMessage`: the zero-key rules -/

/-- **The zero-key rules are the source's**: the first test of the model's `fullyRules` (a zero key with
a non-zero vote value, or with a non-zero justification value) fails exactly when the regenerated block
returns one of its two errors. All partially validated messages. -/
theorem fullZeroKey_is_regenerated (pm : PMsg) :
    (pm.key.isZero && (!pm.msg.vote.value.isEmpty ||
      (match pm.msg.just with | some j => !j.vote.value.isEmpty | none => false))) =
    decide (F3.Gen.Validate2.fullZeroKeyRules
      (match pm.msg.just with | some j => j.vote.value.isEmpty | none => true) pm.key.isZero
      pm.msg.just.isSome pm.msg.vote.value.isEmpty ≠ 0) := by
  unfold F3.Gen.Validate2.fullZeroKeyRules
  cases pm.key.isZero <;> cases pm.msg.vote.value.isEmpty <;> cases pm.msg.just <;> simp
  all_goals (rename_i j; cases hj : j.vote.value.isEmpty <;> simp_all)

end F3.Gen2Tie
