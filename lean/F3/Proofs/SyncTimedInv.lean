import F3.Proofs.SyncNet
import F3.Proofs.SyncTimedNode
import F3.Model.NetTimed
/-!
# The timing invariant of a unanimous run under the real-time synchrony assumption

`TInv`: what the ghost timestamps of `F3.Net.TNet` say about a unanimous, failure-free run (`NInv`). Its two
consequences `no_late_prepare` / `no_late_commit` and `quality_handed` are exactly the untimed synchrony condition
`syncAt` of `F3/Model/Net.lean`. The real-time argument (for an input chain with at least one tipset beyond the base):

* QUALITY: starts are at most `Δ` apart and a node's QUALITY timer is `≥ 2Δ` after its own start, so when it expires
  every node has started at least `Δ` ago … and its QUALITY message has been handed over (T3).
* PREPARE: node `p` entered PREPARE at `e` because a strong quorum `S` had broadcast QUALITY by `e` (`qlp`). Every
  member of `S` has been handed all those QUALITY messages before `e + Δ`, hence left QUALITY by then (`leftQ` /
  `Prompt`), broadcasting PREPARE or (skipping ahead) DECIDE; these reach `p` before `e + 2Δ ≤` its timeout. So at the
  timeout `p` has a strong PREPARE quorum including its own vote, or a DECIDE — either way it is no longer in PREPARE.
* COMMIT: the same one phase later (`qlc`, `leftP`).
So with staggered starts it is *not* true that everybody enters a phase within `Δ` of the first (a late starter may
lag `2Δ`); what is true is that a node whose PREPARE / COMMIT timer expires has already left that phase.
-/
namespace F3.Sync
open F3.Instance F3.Net

/-! ## transitions, once more -/

theorem Trans.kinds {p : Pid} {c : Chain} {a b : Phase} {ms : List Msg} (h : Trans p c a b ms) :
    (a = b ∧ ms = []) ∨
    (a = .initial ∧ b = .quality ∧ ms = [mkMsg p .quality c none]) ∨
    (a = .quality ∧ b = .prepare ∧ ms = [mkMsg p .prepare c none]) ∨
    (a = .prepare ∧ b = .commit ∧ ∃ j, ms = [mkMsg p .commit c (some j)]) ∨
    ((a = .quality ∨ a = .prepare ∨ a = .commit) ∧ (b = .decide ∨ b = .terminated) ∧ ∃ j, ms = [mkMsg p .decide c (some j)]) ∨
    (a = .decide ∧ b = .terminated ∧ ms = []) := by
  cases h with
  | same a => exact Or.inl ⟨rfl, rfl⟩
  | start => exact Or.inr (Or.inl ⟨rfl, rfl, rfl⟩)
  | q2p => exact Or.inr (Or.inr (Or.inl ⟨rfl, rfl, rfl⟩))
  | p2c j hj => exact Or.inr (Or.inr (Or.inr (Or.inl ⟨rfl, rfl, j, rfl⟩)))
  | x2d a b ha hb j hj => exact Or.inr (Or.inr (Or.inr (Or.inr (Or.inl ⟨ha, hb, j, rfl⟩))))
  | d2t => exact Or.inr (Or.inr (Or.inr (Or.inr (Or.inr ⟨rfl, rfl, rfl⟩))))

/-! ## who has broadcast what by when -/

/-- `x` has broadcast a message of phase `ph` at a time `≤ e` -/
def SentBy (st : List (Msg × Int)) (x : Pid) (ph : Phase) (e : Int) : Prop :=
  ∃ m τ, (m, τ) ∈ st ∧ m.sender = x ∧ m.phase = ph ∧ τ ≤ e

/-- the members of a strong quorum have all broadcast their phase-`ph` message by time `e` -/
def StrongBy (t : Table) (st : List (Msg × Int)) (ph : Phase) (e : Int) : Prop :=
  ∃ S : List Pid, S.Nodup ∧ strongQ t (sumP t S) = true ∧ ∀ x ∈ S, SentBy st x ph e

/-- the event of `q` stamped `τ` happened at most `Δ` after any strong quorum containing `q` had broadcast its
phase-`ph` messages -/
def Prompt (t : Table) (Δ : Int) (st : List (Msg × Int)) (q : Pid) (ph : Phase) (τ : Int) : Prop :=
  ∀ e S, e + Δ < τ → S.Nodup → strongQ t (sumP t S) = true → (∀ x ∈ S, SentBy st x ph e) → q ∈ S → False

theorem SentBy.mono {st st' : List (Msg × Int)} {x : Pid} {ph : Phase} {e e' : Int} (h : SentBy st x ph e)
    (hsub : ∀ d ∈ st, d ∈ st') (he : e ≤ e') : SentBy st' x ph e' := by
  obtain ⟨m, τ, h1, h2, h3, h4⟩ := h
  exact ⟨m, τ, hsub _ h1, h2, h3, Int.le_trans h4 he⟩

theorem StrongBy.mono {t : Table} {st st' : List (Msg × Int)} {ph : Phase} {e e' : Int} (h : StrongBy t st ph e)
    (hsub : ∀ d ∈ st, d ∈ st') (he : e ≤ e') : StrongBy t st' ph e' := by
  obtain ⟨S, h1, h2, h3⟩ := h
  exact ⟨S, h1, h2, fun x hx => (h3 x hx).mono hsub he⟩

/-- new entries stamped after `e` do not matter -/
theorem SentBy.restrict {st new : List (Msg × Int)} {x : Pid} {ph : Phase} {e : Int} (h : SentBy (st ++ new) x ph e)
    (hnew : ∀ d ∈ new, e < d.2) : SentBy st x ph e := by
  obtain ⟨m, τ, h1, h2, h3, h4⟩ := h
  rcases List.mem_append.1 h1 with h | h
  · exact ⟨m, τ, h, h2, h3, h4⟩
  · have := hnew _ h
    dsimp only at this
    omega

theorem Prompt.mono {t : Table} {Δ : Int} {st new : List (Msg × Int)} {q : Pid} {ph : Phase} {τ now : Int}
    (h : Prompt t Δ st q ph τ) (hΔ : 0 ≤ Δ) (hτ : τ ≤ now) (hnew : ∀ d ∈ new, d.2 = now) :
    Prompt t Δ (st ++ new) q ph τ := by
  intro e S he hnd hs hall hq
  refine h e S he hnd hs (fun x hx => (hall x hx).restrict ?_) hq
  intro d hd
  rw [hnew d hd]
  omega

/-! ## strong quorums inside tallies -/

section
variable {t : Table} {c : Chain} {H : List Pid}

theorem QT.strong_imp {Q : Tally} (h : QT t c Q) (hlen : 2 ≤ c.length) (hs : Q.hasStrongFor c = true) :
    strongQ t (sumP t Q.senders) = true := by
  unfold Tally.hasStrongFor at hs
  have hc := h.cand hlen
  unfold candPower at hc
  cases hf : Q.findSupport c with
  | none => rw [hf] at hs; cases hs
  | some e =>
    rw [hf] at hs hc
    simp only [Option.getD_some] at hc
    dsimp only at hs
    rw [h.strongOk e hf, hc] at hs
    exact hs

theorem QT.strong_of_subset {Q : Tally} (h : QT t c Q) (hlen : 2 ≤ c.length) (S : List Pid) (hnd : S.Nodup)
    (hS : strongQ t (sumP t S) = true) (hne : S ≠ []) (hsub : ∀ x ∈ S, x ∈ Q.senders) : Q.hasStrongFor c = true := by
  have h1 : Q.senders ≠ [] := by
    intro he
    cases S with
    | nil => exact hne rfl
    | cons a as => have := hsub a List.mem_cons_self; rw [he] at this; cases this
  rw [h.hasStrongFor hlen h1]
  exact strongQ_mono t (sumP_le_of_subset t S Q.senders hnd hsub) hS

theorem UT.strong_of_subset {jp : Phase} {T : Tally} (h : UT t c H jp T) (S : List Pid) (hnd : S.Nodup)
    (hS : strongQ t (sumP t S) = true) (hne : T.senders ≠ []) (hsub : ∀ x ∈ S, x ∈ T.senders) :
    T.hasStrongFor c = true := by
  rw [h.hasStrongFor]
  simp [hne, strongQ_mono t (sumP_le_of_subset t S T.senders hnd hsub) hS]

theorem UT.strong_imp {jp : Phase} {T : Tally} (h : UT t c H jp T) (hs : T.hasStrongFor c = true) :
    strongQ t (sumP t T.senders) = true := by
  rw [h.hasStrongFor] at hs
  simp only [Bool.and_eq_true] at hs
  exact hs.2

end

/-! ## the invariant -/

/-- per-node part: configuration, tallies, timers, and when the node left QUALITY / PREPARE -/
structure TNode (t : Table) (Δ : Int) (cfg : Pid → Cfg) (st : List (Msg × Int)) (sts : List (Pid × Int))
    (pool : List Msg) (q : Pid) (x : State) : Prop where
  cfg : x.cfg = cfg q
  qn : x.quality.senders.Nodup
  js : JS x
  conv : ∀ ph y, y ∈ sendersOf x ph → hasMsg pool y ph
  timerQ : x.phase = .quality → ∃ s, (q, s) ∈ sts ∧ s + 2 * Δ ≤ x.phaseTimeout
  timerP : x.phase = .prepare →
    ∃ m e, (m, e) ∈ st ∧ m.sender = q ∧ m.phase = .prepare ∧ e + 2 * Δ ≤ x.phaseTimeout
  timerC : x.phase = .commit →
    ∃ m e, (m, e) ∈ st ∧ m.sender = q ∧ m.phase = .commit ∧ e + 2 * Δ ≤ x.phaseTimeout
  leftQ : x.phase ≠ .initial → x.phase ≠ .quality →
    ∃ m τ, (m, τ) ∈ st ∧ m.sender = q ∧ (m.phase = .prepare ∨ m.phase = .decide) ∧ Prompt t Δ st q .quality τ
  leftP : x.phase = .commit ∨ x.phase = .decide ∨ x.phase = .terminated →
    ∃ m τ, (m, τ) ∈ st ∧ m.sender = q ∧ (m.phase = .commit ∨ m.phase = .decide) ∧ Prompt t Δ st q .prepare τ

structure TInv (t : Table) (Δ : Int) (cfg : Pid → Cfg) (tn : TNet) : Prop where
  pool_st : ∀ m, m ∈ tn.net.pool → ∃ τ, (m, τ) ∈ tn.stamps
  st_pool : ∀ m τ, (m, τ) ∈ tn.stamps → m ∈ tn.net.pool
  st_clock : ∀ m τ, (m, τ) ∈ tn.stamps → τ ≤ tn.clock
  sts_clock : ∀ q s, (q, s) ∈ tn.starts → s ≤ tn.clock
  started : ∀ q, q ∈ tn.net.started ↔ ∃ s, (q, s) ∈ tn.starts
  stagger : ∀ q s q' s', (q, s) ∈ tn.starts → (q', s') ∈ tn.starts → s' ≤ s + Δ
  qstamp : ∀ m τ, (m, τ) ∈ tn.stamps → m.phase = .quality → (m.sender, τ) ∈ tn.starts
  sender_started : ∀ m τ, (m, τ) ∈ tn.stamps → ∃ s, (m.sender, s) ∈ tn.starts ∧ s ≤ τ
  qlp : ∀ m e, (m, e) ∈ tn.stamps → m.phase = .prepare → StrongBy t tn.stamps .quality e
  qlc : ∀ m e, (m, e) ∈ tn.stamps → m.phase = .commit → StrongBy t tn.stamps .prepare e
  node : ∀ q x, (q, x) ∈ tn.net.nodes → TNode t Δ cfg tn.stamps tn.starts tn.net.pool q x

/-- T3 at an event with timestamp `now`, as a proposition -/
def T3 (Δ : Int) (tn : TNet) (now : Int) : Prop :=
  ∀ m τ q s, (m, τ) ∈ tn.stamps → (q, s) ∈ tn.starts → τ + Δ ≤ now → s + Δ ≤ now → (q, m) ∈ tn.net.delivered


/-! ## what the invariant says when a phase timer has expired -/

section
variable {t : Table} {c : Chain} {H : List Pid} {Δ : Int} {cfg : Pid → Cfg}

theorem node_of_H {n : Net} (hn : NInv t c H n) {h : Pid} (hh : h ∈ H) : ∃ x, (h, x) ∈ n.nodes := by
  rw [← hn.ids] at hh
  obtain ⟨e, he, rfl⟩ := List.mem_map.1 hh
  exact ⟨e.2, he⟩

/-- QUALITY timer expired: every node has started and its QUALITY message has been handed over -/
theorem quality_handed (hΔ : 0 ≤ Δ) {tn : TNet} (hn : NInv t c H tn.net) (ht : TInv t Δ cfg tn) {p : Pid} {s : State}
    (hp : (p, s) ∈ tn.net.nodes) (hph : s.phase = .quality) (now : Int) (hel : s.phaseTimeout ≤ now)
    (hT3 : T3 Δ tn now) (hT2 : (∃ q s', (q, s') ∈ tn.starts ∧ s' + Δ ≤ now) → allStarted tn.net = true) :
    ∀ h ∈ H, ∃ m, (p, m) ∈ tn.net.delivered ∧ m.sender = h ∧ m.phase = .quality ∧ m.round = 0 := by
  obtain ⟨sp, hsp, hto⟩ := (ht.node p s hp).timerQ hph
  have hall := hT2 ⟨p, sp, hsp, by omega⟩
  unfold allStarted at hall
  simp only [List.all_eq_true, List.contains_eq_mem, decide_eq_true_eq] at hall
  intro h hh
  obtain ⟨x, hx⟩ := node_of_H hn hh
  have hxo := hn.node h x hx
  obtain ⟨m, hm, hms, hmp⟩ := hxo.sentQ (hxo.started.1 (hall (h, x) hx))
  obtain ⟨τ, hτ⟩ := ht.pool_st m hm
  have hst := ht.qstamp m τ hτ hmp
  rw [hms] at hst
  have := ht.stagger p sp h τ hsp hst
  exact ⟨m, hT3 m τ p sp hτ hsp (by omega) (by omega), hms, hmp, (hn.pool m hm).1.1⟩

/-- a node whose PREPARE timer has expired is no longer in PREPARE -/
theorem no_late_prepare (hlen : 2 ≤ c.length) (hΔ : 0 ≤ Δ) {tn : TNet} (hn : NInv t c H tn.net)
    (ht : TInv t Δ cfg tn) {p : Pid} {s : State} (hp : (p, s) ∈ tn.net.nodes) (hph : s.phase = .prepare) (now : Int)
    (hel : s.phaseTimeout ≤ now) (hT3 : T3 Δ tn now) : False := by
  have hno := hn.node p s hp
  obtain ⟨mP, e, hmP, hsP, hpP, heP⟩ := (ht.node p s hp).timerP hph
  obtain ⟨S, hnd, hstr, hall⟩ := ht.qlp mP e hmP hpP
  obtain ⟨sp, hsp, hspe⟩ := ht.sender_started mP e hmP
  rw [hsP] at hsp
  have hpi := hno.pi
  rw [hph] at hpi
  have hnt : s.phase ≠ .terminated := by rw [hph]; decide
  have hown : p ∈ (s.getRound 0).prepared.senders := by
    have := hno.deliv mP (hT3 mP e p sp hmP hsp (by omega) (by omega)) hnt
    rw [hpP, hsP] at this; exact this
  have hsub : ∀ x ∈ S, x ∈ (s.getRound 0).prepared.senders := by
    intro x hx
    obtain ⟨mx, τx, hmx, hsx, hpx, hτx⟩ := hall x hx
    have hxs := ht.qstamp mx τx hmx hpx
    rw [hsx] at hxs
    have hxH : x ∈ H := by
      have := (hn.pool mx (ht.st_pool mx τx hmx)).2
      rwa [hsx] at this
    obtain ⟨sx, hxn⟩ := node_of_H hn hxH
    have hxo := hn.node x sx hxn
    have hni : sx.phase ≠ .initial := hxo.started.1 ((ht.started x).2 ⟨τx, hxs⟩)
    have hnq : sx.phase ≠ .quality := by
      intro hq
      have hpix := hxo.pi
      rw [hq] at hpix
      have hsubx : ∀ y ∈ S, y ∈ sx.quality.senders := by
        intro y hy
        obtain ⟨my, τy, hmy, hsy, hpy, hτy⟩ := hall y hy
        have := hxo.deliv my (hT3 my τy x τx hmy hxs (by omega) (by omega)) (by rw [hq]; decide)
        rw [hpy, hsy] at this; exact this
      have h1 : sx.quality.hasStrongFor c = false := hpix.1
      have := hxo.sinv.qt.strong_of_subset hlen S hnd hstr (List.ne_nil_of_mem hx) hsubx
      rw [h1] at this
      cases this
    obtain ⟨m, τ, hm, hms, hmph, hpr⟩ := (ht.node x sx hxn).leftQ hni hnq
    have hτ : τ ≤ e + Δ := Int.not_lt.1 (fun hc => hpr e S hc hnd hstr hall hx)
    have hd := hno.deliv m (hT3 m τ p sp hm hsp (by omega) (by omega)) hnt
    rcases hmph with h | h
    · rw [h, hms] at hd; exact hd
    · rw [h, hms] at hd
      have h4 : s.decision.senders = [] := hpi.2.2
      have hd' : x ∈ s.decision.senders := hd
      rw [h4] at hd'; cases hd'
  have := hno.sinv.prep.strong_of_subset S hnd hstr (List.ne_nil_of_mem hown) hsub
  rw [hpi.1 hown] at this
  cases this

/-- a node whose COMMIT timer has expired is no longer in COMMIT -/
theorem no_late_commit (hΔ : 0 ≤ Δ) {tn : TNet} (hn : NInv t c H tn.net)
    (ht : TInv t Δ cfg tn) {p : Pid} {s : State} (hp : (p, s) ∈ tn.net.nodes) (hph : s.phase = .commit) (now : Int)
    (hel : s.phaseTimeout ≤ now) (hT3 : T3 Δ tn now) : False := by
  have hno := hn.node p s hp
  obtain ⟨mC, e, hmC, hsC, hpC, heC⟩ := (ht.node p s hp).timerC hph
  obtain ⟨S, hnd, hstr, hall⟩ := ht.qlc mC e hmC hpC
  obtain ⟨sp, hsp, hspe⟩ := ht.sender_started mC e hmC
  rw [hsC] at hsp
  have hpi := hno.pi
  rw [hph] at hpi
  have hnt : s.phase ≠ .terminated := by rw [hph]; decide
  have hown : p ∈ (s.getRound 0).committed.senders := by
    have := hno.deliv mC (hT3 mC e p sp hmC hsp (by omega) (by omega)) hnt
    rw [hpC, hsC] at this; exact this
  have hsub : ∀ x ∈ S, x ∈ (s.getRound 0).committed.senders := by
    intro x hx
    obtain ⟨mx, τx, hmx, hsx, hpx, hτx⟩ := hall x hx
    obtain ⟨sx0, hxs, hxse⟩ := ht.sender_started mx τx hmx
    rw [hsx] at hxs
    have hmxp := ht.st_pool mx τx hmx
    have hxH : x ∈ H := by
      have := (hn.pool mx hmxp).2
      rwa [hsx] at this
    obtain ⟨sx, hxn⟩ := node_of_H hn hxH
    have hxo := hn.node x sx hxn
    obtain ⟨hni, hnq⟩ := hxo.prepSelf ⟨mx, hmxp, hsx, hpx⟩
    have hnp : sx.phase ≠ .prepare := by
      intro hq
      have hpix := hxo.pi
      rw [hq] at hpix
      have hsubx : ∀ y ∈ S, y ∈ (sx.getRound 0).prepared.senders := by
        intro y hy
        obtain ⟨my, τy, hmy, hsy, hpy, hτy⟩ := hall y hy
        have := hxo.deliv my (hT3 my τy x sx0 hmy hxs (by omega) (by omega)) (by rw [hq]; decide)
        rw [hpy, hsy] at this; exact this
      have hxin := hsubx x hx
      have := hxo.sinv.prep.strong_of_subset S hnd hstr (List.ne_nil_of_mem hxin) hsubx
      rw [hpix.1 hxin] at this
      cases this
    have hnc : sx.phase ≠ .converge := by
      intro hq
      have hpix := hxo.pi
      rw [hq] at hpix
      exact hpix
    have hph3 : sx.phase = .commit ∨ sx.phase = .decide ∨ sx.phase = .terminated := by
      cases hq : sx.phase <;> simp_all
    obtain ⟨m, τ, hm, hms, hmph, hpr⟩ := (ht.node x sx hxn).leftP hph3
    have hτ : τ ≤ e + Δ := Int.not_lt.1 (fun hc => hpr e S hc hnd hstr hall hx)
    have hd := hno.deliv m (hT3 m τ p sp hm hsp (by omega) (by omega)) hnt
    rcases hmph with h | h
    · rw [h, hms] at hd; exact hd
    · rw [h, hms] at hd
      have h4 : s.decision.senders = [] := hpi.2
      have hd' : x ∈ s.decision.senders := hd
      rw [h4] at hd'; cases hd'
  have := hno.sinv.comm.strong_of_subset S hnd hstr (List.ne_nil_of_mem hown) hsub
  have h3 : (s.getRound 0).committed.hasStrongFor c = false := hpi.1
  rw [h3] at this
  cases this

/-- **the real-time conditions at an event imply the untimed synchrony condition at that event** -/
theorem syncAt_of_timed (hlen : 2 ≤ c.length) (hΔ : 0 ≤ Δ) {tn : TNet} (hn : NInv t c H tn.net)
    (ht : TInv t Δ cfg tn) {p : Pid} {s : State} (hnode : tn.net.node? p = some s) (now : Int)
    (hT3 : T3 Δ tn now) (hT2 : (∃ q s', (q, s') ∈ tn.starts ∧ s' + Δ ≤ now) → allStarted tn.net = true)
    (dl : List (Pid × Msg)) (hdl : ∀ d ∈ tn.net.delivered, d ∈ dl) : syncAt tn.net dl p now = true := by
  have hp := node?_mem hnode
  unfold syncAt
  rw [hnode]
  dsimp only
  split
  · rename_i hcond
    simp only [Bool.and_eq_true, beq_iff_eq] at hcond
    obtain ⟨⟨_, htp⟩, hel⟩ := hcond
    have hel' : s.phaseTimeout ≤ now := by
      unfold State.phaseTimeoutElapsed at hel
      simpa using hel
    cases hph : s.phase <;> rw [hph] at htp
    case quality =>
      unfold allHanded
      rw [List.all_eq_true]
      intro e he
      have heH : e.1 ∈ H := hn.mem_H (q := e.1) (x := e.2) he
      obtain ⟨m, hd, h1, h2, h3⟩ := quality_handed hΔ hn ht hp hph now hel' hT3 hT2 e.1 heH
      rw [List.any_eq_true]
      exact ⟨(p, m), hdl _ hd, by simp [h1, h2, h3]⟩
    case prepare => exact (no_late_prepare hlen hΔ hn ht hp hph now hel' hT3).elim
    case commit => exact (no_late_commit hΔ hn ht hp hph now hel' hT3).elim
    all_goals exact absurd htp (by decide)
  · rfl

end

end F3.Sync
