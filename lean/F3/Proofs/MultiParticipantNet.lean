import F3.Proofs.MultiParticipantEx
import F3.Proofs.ParticipantBridge
/-!
# Agreement in every instance of multi-instance participant runs

Every honest participant runs `mprun` (`gpbft.Participant` across consecutive instances) once; what it does for
instance `k` is, by `F3.Instance.instance_projection`, a single-instance participant run over `opsOf … k`. The
assumptions of `NetworkP` about one instance are therefore stated about the multi-instance runs
(`InstanceNetwork`): the votes of an honest member for instance `k` are the broadcasts its participant made while
`k` was current, the calls that concern `k` carry validated messages and report no error other than refusals.
`InstanceNetwork.toNetworkP` builds the `NetworkP` of instance `k`, and `model_agreementP` gives agreement of the
decisions *recorded for `k`* by any two honest participants (`agreement_instance`).
-/
namespace F3.Bridge
open F3 F3.Instance F3.Granite

/-- one participant's whole execution: a sequence of `ReceiveMessage` / `ReceiveAlarm` / `StartInstanceAt` calls
from a fresh participant, in which `StartInstanceAt` only ever skips ahead -/
structure MultiRun where
  cfg : Cfg
  /-- the initial instance (`NewParticipant`: 0) -/
  c0 : Nat := 0
  ops : List MPOp
  forward : forwardOnly (minit cfg c0) ops = true

/-- the final state and the (instance-tagged) effects -/
abbrev MultiRun.final (R : MultiRun) : MState := (mprun (minit R.cfg R.c0) R.ops).1
abbrev MultiRun.effs (R : MultiRun) : List (Nat × Eff) := (mprun (minit R.cfg R.c0) R.ops).2
/-- the calls that concern instance `k` -/
abbrev MultiRun.opsOf (R : MultiRun) (k : Nat) : List POp := Instance.opsOf R.cfg R.c0 k R.ops
/-- what the host supplied when instance `k` began, if it did -/
abbrev MultiRun.begunWith (R : MultiRun) (k : Nat) : Option (Table × Chain × List Pid) :=
  Instance.begunWith R.cfg R.c0 k R.ops

/-- The standing assumptions about instance `k` of the network, every participant `p` executing `runs p`:
committee `t` with distinct ids and positive total, Byzantine members `F` below a third, `W` the validly signed
votes *of instance `k`* in existence. Honest members: their votes for `k` are exactly the broadcasts tagged `k` of
their run; if their participant began `k`, the host supplied the committee `t` and a non-empty proposal, every
delivery that concerns `k` passed validation, and no call that concerns `k` reported an error other than a refusal
at the door. (A member whose participant never began `k` — it is behind, or skipped `k` — has no vote for `k`.) -/
structure InstanceNetwork (runs : Pid → MultiRun) (k : Nat) (t : Table) (F : Finset Pid) (W : Votes) where
  idsNodup : (ids t).Nodup
  totalPos : 0 < t.total
  faultBound : 3 * (world t F W).power F < (world t F W).T
  nonMembers : ∀ p, p ∉ (ids t).toFinset → ∀ r ph v, ¬ W p r ph v
  own : ∀ p, p ∈ (ids t).toFinset → p ∉ F → ∀ r ph v,
    W p r ph v ↔ ∃ tk j, (k, Eff.broadcast r ph v tk j) ∈ (runs p).effs
  begun : ∀ p, p ∈ (ids t).toFinset → p ∉ F → ∀ tbl input order,
    (runs p).begunWith k = some (tbl, input, order) →
      tbl = t ∧ input ≠ [] ∧
      (∀ op ∈ (runs p).opsOf k, pforeign op = true ∨ POpValidG W t op) ∧
      okRunP order (pinit (runs p).cfg t input) ((runs p).opsOf k) = true

variable {runs : Pid → MultiRun} {k : Nat} {t : Table} {F : Finset Pid} {W : Votes}

/-- the single-instance run of an honest member for instance `k`: the projection of its multi-instance run if it
began `k`, the empty run otherwise -/
def InstanceNetwork.runOf (N : InstanceNetwork runs k t F W) (p : Pid) (hp : p ∈ (ids t).toFinset) (hpF : p ∉ F) :
    (b : Option (Table × Chain × List Pid)) → (runs p).begunWith k = b → HonestRunP W t p
  | some (tbl, input, order), hb =>
    { cfg := (runs p).cfg
      input := input
      order := order
      ops := (runs p).opsOf k
      inputNe := (N.begun p hp hpF tbl input order hb).2.1
      valid := (N.begun p hp hpF tbl input order hb).2.2.1
      ok := (N.begun p hp hpF tbl input order hb).2.2.2
      own := by
        intro r ph v
        have htbl := (N.begun p hp hpF tbl input order hb).1
        have hproj := (instance_projection (runs p).cfg (runs p).c0 (runs p).ops k tbl input order
          (runs p).forward hb).1
        rw [htbl] at hproj
        rw [N.own p hp hpF r ph v]
        show _ ↔ ∃ tk j, _ ∈ (prun order (pinit (runs p).cfg t input) (Instance.opsOf _ _ k _)).2
        rw [← hproj]
        simp only [mem_effsOf] }
  | none, hb =>
    { cfg := (runs p).cfg
      input := [0]
      order := []
      ops := []
      inputNe := by decide
      valid := fun _ h => by cases h
      ok := rfl
      own := by
        intro r ph v
        rw [N.own p hp hpF r ph v]
        have he := (instance_not_begun (runs p).cfg (runs p).c0 (runs p).ops k (runs p).forward hb).1
        constructor
        · rintro ⟨tk, j, h⟩
          have h' := (mem_effsOf k _ _).2 h
          rw [he] at h'
          cases h'
        · rintro ⟨tk, j, h⟩
          cases h }

theorem InstanceNetwork.runOf_final (N : InstanceNetwork runs k t F W) (p : Pid) (hp : p ∈ (ids t).toFinset)
    (hpF : p ∉ F) (tbl : Table) (input : Chain) (order : List Pid)
    (b : Option (Table × Chain × List Pid)) (hb : (runs p).begunWith k = b) (hs : b = some (tbl, input, order)) :
    (N.runOf p hp hpF b hb).final = (prun order (pinit (runs p).cfg t input) ((runs p).opsOf k)).1.inst := by
  subst hs
  rfl

/-- **Instance `k` of the multi-instance runs is a network of single-instance participant runs.** -/
def InstanceNetwork.toNetworkP (N : InstanceNetwork runs k t F W) : NetworkP t F W where
  idsNodup := N.idsNodup
  totalPos := N.totalPos
  faultBound := N.faultBound
  nonMembers := N.nonMembers
  runs := fun p hp hpF => N.runOf p hp hpF _ rfl

/-- a decision recorded for `k` by an honest member is the decision of its single-instance run in `toNetworkP` -/
theorem InstanceNetwork.recorded (N : InstanceNetwork runs k t F W) (p : Pid) (hp : p ∈ (ids t).toFinset)
    (hpF : p ∉ F) (d : Just) (hd : (k, d) ∈ (runs p).final.decisions) :
    (N.toNetworkP.runs p hp hpF).final.termination = some d := by
  obtain ⟨tbl, input, order, hb, hterm⟩ :=
    decision_begun (runs p).cfg (runs p).c0 (runs p).ops k d (runs p).forward hd
  have htbl := (N.begun p hp hpF tbl input order hb).1
  show (N.runOf p hp hpF _ rfl).final.termination = some d
  rw [N.runOf_final p hp hpF tbl input order _ rfl hb, ← htbl]
  exact hterm

/-- **Agreement in instance `k`**: the decisions recorded for instance `k` by any two honest participants are for
the same value. -/
theorem agreement_instance (N : InstanceNetwork runs k t F W)
    (p q : Pid) (hp : p ∈ (ids t).toFinset) (hpF : p ∉ F) (hq : q ∈ (ids t).toFinset) (hqF : q ∉ F) (dp dq : Just)
    (hdp : (k, dp) ∈ (runs p).final.decisions) (hdq : (k, dq) ∈ (runs q).final.decisions) :
    dp.value = dq.value :=
  model_agreementP N.toNetworkP p q hp hpF hq hqF dp dq (N.recorded p hp hpF dp hdp) (N.recorded q hq hqF dq hdq)

/-- the first `K` instances of the network: committee, Byzantine set and votes per instance -/
structure MultiNetwork (K : Nat) (runs : Pid → MultiRun) (t : Nat → Table) (F : Nat → Finset Pid)
    (W : Nat → Votes) where
  inst : ∀ k, k < K → InstanceNetwork runs k (t k) (F k) (W k)

/-! ### a concrete two-instance execution -/
section Example

/-- the votes of instance 1: as `exVotes`, for the value `[8,5]`; member 4 equivocates in PREPARE -/
def exVotes1 : List Vote :=
  [(1,0,.quality,[8,5]), (1,0,.prepare,[8,5]), (1,0,.commit,[8,5]), (1,0,.decide,[8,5]),
   (2,0,.quality,[8,5]), (2,0,.prepare,[8,5]), (2,0,.commit,[8,5]), (2,0,.decide,[8,5]),
   (3,0,.quality,[8,5]), (3,0,.prepare,[8,5]), (3,0,.commit,[8,5]), (3,0,.decide,[8,5]),
   (4,0,.prepare,[8,6]), (4,0,.prepare,[8,5])]

/-- the two-instance execution `F3.Instance.exMOps` (`F3.Proofs.MultiParticipantEx`) as a `MultiRun`; its power table
and configuration are those of `BridgeEx` -/
def exMultiRun : MultiRun where
  cfg := mxCfg
  ops := exMOps
  forward := ex_forward.2.2

theorem ex_same : mxTbl = exTbl ∧ mxCfg = exCfg ∧ mxOrder = exOrder ∧ exPOps0 = exPOps.take 16 :=
  ⟨rfl, rfl, rfl, by decide +kernel⟩


/-- the decisions recorded by the example run -/
theorem ex_recorded :
    exMultiRun.final.decisions =
      [(0, { round := 0, phase := .decide, value := [7,8], signers := [0,1,2] }),
       (1, { round := 0, phase := .decide, value := [8,5], signers := [0,1,2] })] := by
  decide +kernel

theorem ex_faultBound (W : Votes) : 3 * (world exTbl exF W).power exF < (world exTbl exF W).T := by
  rw [total_eq exTbl exF W (by decide)]
  show 3 * (∑ p ∈ ({4} : Finset Pid), exTbl.power p) < exTbl.total
  rw [Finset.sum_singleton]
  decide

theorem ex_nonMembers (votes : List Vote) (hm : ∀ e ∈ votes, e.1 = 1 ∨ e.1 = 2 ∨ e.1 = 3 ∨ e.1 = 4) :
    ∀ p, p ∉ (ids exTbl).toFinset → ∀ r ph v, ¬ Wof votes p r ph v := by
  intro p hp r ph v hw
  rw [ex_ids] at hp
  have := hm _ hw
  simp only [Finset.mem_insert, Finset.mem_singleton] at hp
  exact hp this

theorem ex_honest {p : Pid} (hp : p ∈ (ids exTbl).toFinset) (hF : p ∉ exF) : p = 1 ∨ p = 2 ∨ p = 3 := by
  rw [ex_ids] at hp
  simp only [Finset.mem_insert, Finset.mem_singleton, exF] at hp hF
  rcases hp with h | h | h | h
  · exact Or.inl h
  · exact Or.inr (Or.inl h)
  · exact Or.inr (Or.inr h)
  · exact absurd h hF

theorem ex_own (k : Nat) (votes : List Vote) (p : Pid)
    (h : votesOf votes p = (effsOf k exMultiRun.effs).filterMap bcTriple) (r : Nat) (ph : Instance.Phase) (v : Chain) :
    Wof votes p r ph v ↔ ∃ tk j, (k, Eff.broadcast r ph v tk j) ∈ exMultiRun.effs := by
  rw [votesOf_iff, h, ← bc_iff_triple]
  simp only [mem_effsOf]

/-- the calls that concern instance 0 / 1 carry validated messages (or foreign ones) and report no error other than
refusals -/
theorem ex_begun0 :
    (∀ op ∈ opsOf mxCfg 0 0 exMOps, pforeign op = true ∨ POpValidG exW exTbl op) ∧
    okRunP mxOrder (pinit mxCfg exTbl [7, 8]) (opsOf mxCfg 0 0 exMOps) = true := by
  rw [ex_opsOf.1]
  exact ⟨popValidB_sound exVotes exTbl _ (by decide +kernel), by decide +kernel⟩

theorem ex_begun1 :
    (∀ op ∈ opsOf mxCfg 0 1 exMOps, pforeign op = true ∨ POpValidG (Wof exVotes1) exTbl op) ∧
    okRunP [1, 4, 2] (pinit mxCfg exTbl [8, 5]) (opsOf mxCfg 0 1 exMOps) = true := by
  rw [ex_opsOf.2.1]
  exact ⟨popValidB_sound exVotes1 exTbl _ (by decide +kernel), by decide +kernel⟩

/-- instance 0 of the example: the three honest members run `exMOps`, member 4 is Byzantine -/
theorem exInst0 : InstanceNetwork (fun _ => exMultiRun) 0 exTbl exF exW where
  idsNodup := by decide
  totalPos := by decide
  faultBound := ex_faultBound _
  nonMembers := ex_nonMembers exVotes (by decide)
  own := by
    intro p hp hF r ph v
    refine ex_own 0 exVotes p ?_ r ph v
    rcases ex_honest hp hF with rfl | rfl | rfl <;> decide +kernel
  begun := by
    intro p _ _ tbl input order hb
    change begunWith mxCfg 0 0 exMOps = _ at hb
    rw [ex_opsOf.2.2.1] at hb
    cases hb
    exact ⟨rfl, by decide, ex_begun0.1, ex_begun0.2⟩

/-- instance 1 of the example -/
theorem exInst1 : InstanceNetwork (fun _ => exMultiRun) 1 exTbl exF (Wof exVotes1) where
  idsNodup := by decide
  totalPos := by decide
  faultBound := ex_faultBound _
  nonMembers := ex_nonMembers exVotes1 (by decide)
  own := by
    intro p hp hF r ph v
    refine ex_own 1 exVotes1 p ?_ r ph v
    rcases ex_honest hp hF with rfl | rfl | rfl <;> decide +kernel
  begun := by
    intro p _ _ tbl input order hb
    change begunWith mxCfg 0 1 exMOps = _ at hb
    rw [ex_opsOf.2.2.2.1] at hb
    cases hb
    exact ⟨rfl, by decide, ex_begun1.1, ex_begun1.2⟩

/-- the two instances as a `MultiNetwork` -/
theorem exMultiNet : MultiNetwork 2 (fun _ => exMultiRun) (fun _ => exTbl) (fun _ => exF)
    (fun k => if k = 0 then exW else Wof exVotes1) where
  inst := by
    intro k hk
    rcases (by omega : k = 0 ∨ k = 1) with rfl | rfl
    · exact exInst0
    · exact exInst1

end Example

end F3.Bridge
