import F3.Proofs.InstanceDecision
import F3.Proofs.InstanceFrame2
/-!
# Layer B: the executable instance only emits under the guards of the abstract protocol

`W x r ph v` is the set of validly signed votes in existence (it contains every vote delivered to this
participant — signature validation — and every vote this participant broadcasts). Evidence of quorums is
kept at the list level (`QL`: strictly increasing table indices, strong, every index a member that voted);
`F3.Props.C01` turns it into the `Finset`-based `Q` of `F3.Granite`.
-/
namespace F3.Instance

abbrev Votes := Pid → Nat → Phase → Chain → Prop

/-- a strong quorum of `W`-votes for `(r, ph, v)` -/
def QL (W : Votes) (t : Table) (r : Nat) (ph : Phase) (v : Chain) : Prop :=
  ∃ sg : List Nat, sg.Pairwise (· < ·) ∧ (∀ i ∈ sg, i < t.entries.length ∧ 0 < t.powerAt i) ∧
    strongQ t (sumPow t sg) = true ∧ ∀ i ∈ sg, ∃ x, t.index? x = some i ∧ W x r ph v

/-- justification of a round-`r` CONVERGE / PREPARE for `v` (`r ≥ 1`) -/
def JL (W : Votes) (t : Table) (r : Nat) (v : Chain) : Prop :=
  QL W t (r - 1) .prepare v ∨ QL W t (r - 1) .commit []

/-- a justification whose aggregate verifies: its signers are a strong quorum of members that voted its payload -/
def JustOk (W : Votes) (t : Table) (j : Just) : Prop :=
  j.signers.Pairwise (· < ·) ∧ (∀ i ∈ j.signers, i < t.entries.length ∧ 0 < t.powerAt i) ∧
    strongQ t (sumPow t j.signers) = true ∧ ∀ i ∈ j.signers, ∃ x, t.index? x = some i ∧ W x j.round j.phase j.value

theorem JustOk.ql {W : Votes} {t : Table} {j : Just} (h : JustOk W t j) : QL W t j.round j.phase j.value :=
  ⟨j.signers, h.1, h.2.1, h.2.2.1, h.2.2.2⟩

/-- the justification a CONVERGE / PREPARE of round `r` for `c` may carry -/
def ConvJust (W : Votes) (t : Table) (r : Nat) (c : Chain) (j : Just) : Prop :=
  JustOk W t j ∧ j.round + 1 = r ∧ ((j.phase = .prepare ∧ j.value = c) ∨ (j.phase = .commit ∧ j.value = []))

theorem ConvJust.jl {W : Votes} {t : Table} {r : Nat} {c : Chain} {j : Just} (h : ConvJust W t r c j) : JL W t r c := by
  obtain ⟨hok, hr, hc⟩ := h
  have hq := hok.ql
  have : j.round = r - 1 := by omega
  rw [this] at hq
  rcases hc with ⟨hp, hv⟩ | ⟨hp, hv⟩
  · left; rw [hp, hv] at hq; exact hq
  · right; rw [hp, hv] at hq; exact hq

/-- the justification a COMMIT of round `r` for `c ≠ ⊥` carries -/
def CommitJust (W : Votes) (t : Table) (r : Nat) (c : Chain) (j : Just) : Prop :=
  JustOk W t j ∧ j.round = r ∧ j.phase = .prepare ∧ j.value = c

/-- what message validation (C05) guarantees about a delivered message, in the model's vocabulary -/
def MsgValid (W : Votes) (t : Table) (m : Msg) : Prop :=
  W m.sender m.round m.phase m.value ∧ 0 < t.power m.sender ∧
  match m.phase with
  | .quality => m.round = 0 ∧ m.value ≠ []
  | .converge => 0 < m.round ∧ m.value ≠ [] ∧ ∃ j, m.just = some j ∧ ConvJust W t m.round m.value j
  | .prepare => (m.round = 0 → m.just = none) ∧
      (0 < m.round → ∃ j, m.just = some j ∧ ConvJust W t m.round m.value j)
  | .commit => (m.value = [] → m.just = none) ∧
      (m.value ≠ [] → ∃ j, m.just = some j ∧ CommitJust W t m.round m.value j)
  | .decide => m.round = 0 ∧ m.value ≠ [] ∧
      ∃ j, m.just = some j ∧ JustOk W t j ∧ j.phase = .commit ∧ j.value = m.value
  | _ => False

/-! ### tallies -/

/-- what a stored vote of `x` for `c` in the `(r, ph)` tally stands for: the vote exists and, for PREPARE,
it was validly justified -/
def VoteEv (W : Votes) (t : Table) (r : Nat) (ph : Phase) (x : Pid) (c : Chain) : Prop :=
  W x r ph c ∧ (ph = .prepare → (r = 0 ∨ JL W t r c))

/-- invariant of the PREPARE / COMMIT tally of round `r` -/
structure TallyOK (W : Votes) (t : Table) (r : Nat) (ph : Phase) (q : Tally) : Prop where
  wf : TallyWF (VoteEv W t r ph) t q
  justs : ∀ e ∈ q.justs,
    (ph = .prepare → ConvJust W t r e.1 e.2) ∧ (ph = .commit → e.1 ≠ [] ∧ CommitJust W t r e.1 e.2)
  /-- every non-bottom value with a vote also has a stored justification (COMMIT tallies) -/
  cover : ph = .commit → ∀ sup ∈ q.support, sup.chain ≠ [] → ∃ e ∈ q.justs, e.1 = sup.chain

theorem TallyOK_empty (W : Votes) (t : Table) (r : Nat) (ph : Phase) : TallyOK W t r ph {} :=
  ⟨TallyWF_empty _ t, by simp, by simp⟩

theorem receive_justs (t : Table) (q q' : Tally) (sender : Pid) (c : Chain) (h : q.receive t sender c = some q') :
    q'.justs = q.justs := by
  unfold Tally.receive at h
  split at h
  · cases h; rfl
  · unfold Tally.receiveInner at h
    dsimp only at h
    split at h
    · cases h
    · cases h; rfl

theorem TallyWF.justs_irrelevant {V : Pid → Chain → Prop} {t : Table} {q : Tally} (h : TallyWF V t q) (js : List (Chain × Just)) :
    TallyWF V t { q with justs := js } :=
  ⟨h.nodup, h.sub, h.pos, h.voted, h.sendersNodup, h.sendersPow, h.supPow, h.covered, h.chains, h.strongOk⟩

theorem receive_support (t : Table) (q q' : Tally) (sender : Pid) (c : Chain) (h : q.receive t sender c = some q')
    (sup : Support) (hs : sup ∈ q'.support) : sup ∈ q.support ∨ sup.chain = c := by
  unfold Tally.receive at h
  split at h
  · cases h; exact Or.inl hs
  · unfold Tally.receiveInner at h
    dsimp only at h
    split at h
    · cases h
    · cases h
      rcases upsertSupport_mem _ _ _ hs with rfl | hs
      · exact Or.inr rfl
      · exact Or.inl hs

theorem receiveJust_justs (q : Tally) (c : Chain) (j : Just) :
    (∀ e ∈ (q.receiveJust c j).justs, e ∈ q.justs ∨ e = (c, j)) ∧ (∀ e ∈ q.justs, e ∈ (q.receiveJust c j).justs) ∧
    (∃ e ∈ (q.receiveJust c j).justs, e.1 = c) ∧ (q.receiveJust c j).support = q.support ∧
    (q.receiveJust c j).senders = q.senders ∧ (q.receiveJust c j).sendersPower = q.sendersPower := by
  unfold Tally.receiveJust
  split
  · rename_i h
    simp only [List.any_eq_true, beq_iff_eq] at h
    obtain ⟨e, he, hec⟩ := h
    exact ⟨fun e he => Or.inl he, fun e he => he, ⟨e, he, hec⟩, rfl, rfl, rfl⟩
  · refine ⟨?_, ?_, ⟨(c, j), by simp, rfl⟩, rfl, rfl, rfl⟩
    · intro e he
      simp only [List.mem_append, List.mem_singleton] at he
      exact he
    · intro e he; simp [he]

/-- a PREPARE vote (with its justification, if any) enters the PREPARE tally of its round -/
theorem TallyOK.recvPrepare {W : Votes} {t : Table} {r : Nat} {q q' : Tally} (h : TallyOK W t r .prepare q)
    (m : Msg) (hpos : 0 < t.power m.sender) (hv : VoteEv W t r .prepare m.sender m.value)
    (hj : ∀ j, m.just = some j → ConvJust W t r m.value j)
    (hr : q.receive t m.sender m.value = some q') : TallyOK W t r .prepare (storePrepareJust q' m) := by
  have hwf' := receive_wf t q q' m.sender m.value h.wf hpos hv hr
  have hjs := receive_justs t q q' m.sender m.value hr
  unfold storePrepareJust
  split
  · rename_i j hmj
    obtain ⟨h1, _, _, h4, h5, h6⟩ := receiveJust_justs q' m.value j
    refine ⟨?_, ?_, fun hc => Phase.noConfusion hc⟩
    · have := hwf'
      exact ⟨by rw [h4]; exact this.nodup, by rw [h4, h5]; exact this.sub, by rw [h5]; exact this.pos,
        by rw [h4]; exact this.voted, by rw [h5]; exact this.sendersNodup, by rw [h5, h6]; exact this.sendersPow,
        by rw [h4]; exact this.supPow, by rw [h4, h5]; exact this.covered, by rw [h4]; exact this.chains,
        by rw [h4]; exact this.strongOk⟩
    · intro e he
      rcases h1 e he with he | rfl
      · rw [hjs] at he; exact h.justs e he
      · exact ⟨fun _ => hj j hmj, fun hc => Phase.noConfusion hc⟩
  · exact ⟨hwf', by rw [hjs]; exact h.justs, fun hc => Phase.noConfusion hc⟩

/-- a COMMIT vote (with its justification when not for bottom) enters the COMMIT tally of its round -/
theorem TallyOK.recvCommit {W : Votes} {t : Table} {r : Nat} {q q' : Tally} (h : TallyOK W t r .commit q)
    (m : Msg) (hpos : 0 < t.power m.sender) (hv : VoteEv W t r .commit m.sender m.value)
    (hj : m.value ≠ [] → ∃ j, m.just = some j ∧ CommitJust W t r m.value j)
    (hr : q.receive t m.sender m.value = some q') : TallyOK W t r .commit (storeCommitJust q' m) := by
  have hwf' := receive_wf t q q' m.sender m.value h.wf hpos hv hr
  have hjs := receive_justs t q q' m.sender m.value hr
  have hsupp := receive_support t q q' m.sender m.value hr
  unfold storeCommitJust
  split
  · rename_i j hmj
    split
    · -- bottom: nothing stored
      rename_i hbot
      have hb : m.value = [] := by simpa using hbot
      refine ⟨hwf', by rw [hjs]; exact h.justs, ?_⟩
      intro _ sup hsup hne
      rcases hsupp sup hsup with hs | hs
      · obtain ⟨e, he, hec⟩ := h.cover rfl sup hs hne
        exact ⟨e, by rw [hjs]; exact he, hec⟩
      · exact absurd (hs.trans hb) hne
    · rename_i hbot
      have hne : m.value ≠ [] := by simpa using hbot
      obtain ⟨j', hj', hcj⟩ := hj hne
      have hjj : j' = j := by rw [hmj] at hj'; exact (Option.some.inj hj').symm
      subst hjj
      obtain ⟨h1, h2, h3, h4, h5, h6⟩ := receiveJust_justs q' m.value j'
      refine ⟨?_, ?_, ?_⟩
      · have := hwf'
        exact ⟨by rw [h4]; exact this.nodup, by rw [h4, h5]; exact this.sub, by rw [h5]; exact this.pos,
          by rw [h4]; exact this.voted, by rw [h5]; exact this.sendersNodup, by rw [h5, h6]; exact this.sendersPow,
          by rw [h4]; exact this.supPow, by rw [h4, h5]; exact this.covered, by rw [h4]; exact this.chains,
        by rw [h4]; exact this.strongOk⟩
      · intro e he
        rcases h1 e he with he | rfl
        · rw [hjs] at he; exact h.justs e he
        · exact ⟨fun hc => Phase.noConfusion hc, fun _ => ⟨hne, hcj⟩⟩
      · intro _ sup hsup hne'
        rw [h4] at hsup
        rcases hsupp sup hsup with hs | hs
        · obtain ⟨e, he, hec⟩ := h.cover rfl sup hs hne'
          exact ⟨e, h2 e (by rw [hjs]; exact he), hec⟩
        · obtain ⟨e, he, hec⟩ := h3
          exact ⟨e, he, hec.trans hs.symm⟩
  · -- no justification: by validity the value is bottom
    rename_i hmj
    have hb : m.value = [] := by
      by_cases hne : m.value = []
      · exact hne
      · obtain ⟨j, hj', _⟩ := hj hne
        rw [hmj] at hj'; cases hj'
    refine ⟨hwf', by rw [hjs]; exact h.justs, ?_⟩
    intro _ sup hsup hne
    rcases hsupp sup hsup with hs | hs
    · obtain ⟨e, he, hec⟩ := h.cover rfl sup hs hne
      exact ⟨e, by rw [hjs]; exact he, hec⟩
    · exact absurd (hs.trans hb) hne

/-- a quorum found in a well-formed tally is `QL`-evidence -/
theorem TallyOK.found_ql {W : Votes} {t : Table} {r : Nat} {ph : Phase} {q : Tally} (h : TallyOK W t r ph q)
    (c : Chain) (sg : List Nat) (hf : q.findStrongQuorumFor t c = .found sg) : QL W t r ph c := by
  obtain ⟨h1, h2, h3, h4⟩ := findStrongQuorumFor_spec t q c sg h.wf hf
  exact ⟨sg, h1, h2, h3, fun i hi => by obtain ⟨x, hx, hv⟩ := h4 i hi; exact ⟨x, hx, hv.1⟩⟩

/-- stored justifications retrieved by `getJustOf` -/
theorem TallyOK.getJustOf_mem {q : Tally} {ph' : Phase} {c : Chain} {j : Just} (h : q.getJustOf ph' c = some j) :
    ∃ e ∈ q.justs, e.2 = j ∧ j.phase = ph' ∧ (c = [] → j.value = []) ∧ (c ≠ [] → e.1 = c) := by
  unfold Tally.getJustOf at h
  split at h
  · rename_i hc
    have hc' : c = [] := by simpa using hc
    cases hf : q.justs.find? (fun e => e.2.value.isEmpty && e.2.phase == ph') with
    | none => simp [hf] at h
    | some e =>
      simp [hf] at h
      have hp := List.find?_some hf
      simp only [Bool.and_eq_true, beq_iff_eq, List.isEmpty_iff] at hp
      exact ⟨e, List.mem_of_find?_eq_some hf, h, by rw [← h]; exact hp.2, fun _ => by rw [← h]; exact hp.1,
        fun hne => absurd hc' hne⟩
  · rename_i hc
    have hc' : c ≠ [] := by simpa using hc
    split at h
    · rename_i e hf
      split at h
      · rename_i hp
        simp at h
        have hk := List.find?_some hf
        exact ⟨e, List.mem_of_find?_eq_some hf, h, by rw [← h]; simpa using hp, fun h0 => absurd h0 hc',
          fun _ => by simpa using hk⟩
      · cases h
    · cases h


/-! ### converge state and rounds -/

def ConvOK (W : Votes) (t : Table) (r : Nat) (cv : Conv) : Prop :=
  ∀ v ∈ cv.values, v.chain ≠ [] ∧ ConvJust W t r v.chain v.just

theorem ConvOK_empty (W : Votes) (t : Table) (r : Nat) : ConvOK W t r {} := by
  intro v hv; simp at hv

theorem updRank_mem (l : List ConvVal) (c : Chain) (rk : Nat) (v : ConvVal) (h : v ∈ updRank l c rk) :
    ∃ v' ∈ l, v.chain = v'.chain ∧ v.just = v'.just := by
  unfold updRank at h
  simp only [List.mem_map] at h
  obtain ⟨v', hv', rfl⟩ := h
  refine ⟨v', hv', ?_, ?_⟩ <;> split <;> rfl

theorem ConvOK.receive {W : Votes} {t : Table} {r : Nat} {cv : Conv} (h : ConvOK W t r cv)
    (sender : Pid) (c : Chain) (rk : Nat) (j : Just) (hc : c ≠ []) (hj : ConvJust W t r c j) :
    ConvOK W t r (cv.receive sender c rk j) := by
  unfold Conv.receive
  split
  · exact h
  · dsimp only
    split
    · intro v hv
      obtain ⟨v', hv', e1, e2⟩ := updRank_mem _ _ _ _ hv
      rw [e1, e2]; exact h v' hv'
    · intro v hv
      simp only [List.mem_append, List.mem_singleton] at hv
      rcases hv with hv | rfl
      · exact h v hv
      · exact ⟨hc, hj⟩

theorem ConvOK.setSelf {W : Votes} {t : Table} {r : Nat} {cv : Conv} (h : ConvOK W t r cv)
    (c : Chain) (j : Just) (hc : c ≠ []) (hj : ConvJust W t r c j) : ConvOK W t r (cv.setSelf c j) := by
  unfold Conv.setSelf
  split
  · exact h
  · intro v hv
    simp only [List.mem_append, List.mem_singleton] at hv
    rcases hv with hv | rfl
    · exact h v hv
    · exact ⟨hc, hj⟩

theorem findBest_mem (cv : Conv) (f : ConvVal → Bool) (w : ConvVal) (h : cv.findBest f = some w) :
    w ∈ cv.values ∧ f w = true := by
  unfold Conv.findBest at h
  suffices hgen : ∀ (l : List ConvVal) (init : Option ConvVal),
      (∀ b, init = some b → (b ∈ cv.values ∧ f b = true)) → (∀ x ∈ l, x ∈ cv.values) →
      ∀ w, l.foldl (fun best cv' =>
        let better := match best with
          | none => true
          | some b => rankLt cv'.rank b.rank
        if better && f cv' then some cv' else best) init = some w → (w ∈ cv.values ∧ f w = true) from
    hgen cv.values none (by intro b hb; cases hb) (fun x hx => hx) w h
  intro l
  induction l with
  | nil => intro init hi _ w hw; exact hi w hw
  | cons x xs ih =>
    intro init hi hl w hw
    simp only [List.foldl_cons] at hw
    apply ih _ ?_ (fun y hy => hl y (List.mem_cons_of_mem _ hy)) w hw
    intro b hb
    cases init with
    | none =>
      by_cases hfx : f x = true
      · simp [hfx] at hb; subst hb; exact ⟨hl _ List.mem_cons_self, hfx⟩
      · simp [hfx] at hb
    | some b0 =>
      by_cases hcond : (rankLt x.rank b0.rank && f x) = true
      · simp [hcond] at hb; subst hb
        simp only [Bool.and_eq_true] at hcond
        exact ⟨hl _ List.mem_cons_self, hcond.2⟩
      · simp [hcond] at hb; subst hb; exact hi _ rfl

theorem Conv.getJustOf_mem {cv : Conv} {ph' : Phase} {c : Chain} {j : Just} (h : cv.getJustOf ph' c = some j) :
    ∃ v ∈ cv.values, v.just = j ∧ j.phase = ph' ∧ (c = [] → j.value = []) ∧ (c ≠ [] → v.chain = c) := by
  unfold Conv.getJustOf at h
  split at h
  · rename_i hc
    have hc' : c = [] := by simpa using hc
    cases hf : cv.values.find? (fun v => v.just.value.isEmpty && v.just.phase == ph') with
    | none => simp [hf] at h
    | some v =>
      simp [hf] at h
      have hp := List.find?_some hf
      simp only [Bool.and_eq_true, beq_iff_eq, List.isEmpty_iff] at hp
      exact ⟨v, List.mem_of_find?_eq_some hf, h, by rw [← h]; exact hp.2, fun _ => by rw [← h]; exact hp.1,
        fun hne => absurd hc' hne⟩
  · rename_i hc
    have hc' : c ≠ [] := by simpa using hc
    split at h
    · rename_i v hf
      split at h
      · rename_i hp
        simp at h
        have hk := List.find?_some hf
        exact ⟨v, List.mem_of_find?_eq_some hf, h, by rw [← h]; simpa using hp, fun h0 => absurd h0 hc',
          fun _ => by simpa using hk⟩
      · cases h
    · cases h

structure RoundOK (W : Votes) (t : Table) (r : Nat) (rs : RoundState) : Prop where
  conv : ConvOK W t r rs.converged
  prep : TallyOK W t r .prepare rs.prepared
  comm : TallyOK W t r .commit rs.committed

theorem RoundOK_empty (W : Votes) (t : Table) (r : Nat) : RoundOK W t r {} :=
  ⟨ConvOK_empty W t r, TallyOK_empty W t r _, TallyOK_empty W t r _⟩

def RoundsOK (W : Votes) (t : Table) (rounds : List (Nat × RoundState)) : Prop :=
  ∀ e ∈ rounds, RoundOK W t e.1 e.2

theorem getRound_ok {W : Votes} {s : State} (h : RoundsOK W s.tbl s.rounds) (r : Nat) : RoundOK W s.tbl r (s.getRound r) := by
  unfold State.getRound
  split
  · rename_i e hf
    have hk := List.find?_some hf
    have hr : e.1 = r := by simpa using hk
    rw [← hr]; exact h e (List.mem_of_find?_eq_some hf)
  · exact RoundOK_empty W s.tbl r

theorem setAssoc_mem (l : List (Nat × RoundState)) (r : Nat) (rs : RoundState) (e : Nat × RoundState)
    (h : e ∈ setAssoc l r rs) : e = (r, rs) ∨ e ∈ l := by
  induction l with
  | nil => simp [setAssoc] at h; exact Or.inl h
  | cons a as ih =>
    unfold setAssoc at h
    split at h
    · rcases List.mem_cons.1 h with h | h
      · exact Or.inl h
      · exact Or.inr (List.mem_cons_of_mem _ h)
    · rcases List.mem_cons.1 h with h | h
      · exact Or.inr (h ▸ List.mem_cons_self)
      · rcases ih h with h | h
        · exact Or.inl h
        · exact Or.inr (List.mem_cons_of_mem _ h)

theorem setRound_ok {W : Votes} {s : State} (h : RoundsOK W s.tbl s.rounds) (r : Nat) (rs : RoundState)
    (hrs : RoundOK W s.tbl r rs) : RoundsOK W (s.setRound r rs).tbl (s.setRound r rs).rounds := by
  intro e he
  rcases setAssoc_mem _ _ _ _ he with rfl | he
  · exact hrs
  · exact h e he


/-! ### the state invariant and the guards -/

/-- PREPARE of round `r'` lies strictly before the progress point `pt` -/
def prepBefore (r' : Nat) (pt : Pt) : Prop := r' < pt.1 ∨ (r' = pt.1 ∧ 3 < pt.2)

theorem prepBefore_mono {r' : Nat} {a b : Pt} (h : prepBefore r' a) (hle : ptLe a b) : prepBefore r' b := by
  rcases hle with rfl | ⟨hlt, _⟩
  · exact h
  · unfold prepBefore at *
    rcases h with h | ⟨h1, h2⟩ <;> rcases hlt with h' | ⟨h'1, h'2⟩
    · left; omega
    · left; omega
    · left; omega
    · right; omega

/-- evidence for a candidate: a non-empty prefix of the input, or a value with a strong PREPARE quorum
in a round whose PREPARE lies before the current point -/
def CandOK (W : Votes) (s : State) (c : Chain) : Prop :=
  c ≠ [] ∧ (c <+: s.input ∨ ∃ r', QL W s.tbl r' .prepare c ∧ prepBefore r' s.pt)

/-- the part of the invariant that does not depend on the participant's identity or phase -/
structure GCore (W : Votes) (s : State) : Prop where
  rounds : RoundsOK W s.tbl s.rounds
  decision : TallyWF (fun x c => W x 0 .decide c) s.tbl s.decision
  cands : ∀ c ∈ s.candidates, CandOK W s c
  inputNe : s.input ≠ []
  propNe : s.proposal ≠ []
  totalPos : 0 < s.tbl.total

structure GInv (W : Votes) (me : Pid) (s : State) : Prop where
  core : GCore W s
  ownPrep : s.phase = .prepare → W me s.round .prepare s.proposal
  early : s.phase.toNat < 2 → s.round = 0

/-- the guard of the abstract protocol (`F3.Granite.Guard`) at the list level -/
def GuardL (W : Votes) (t : Table) (me : Pid) (input : Chain) (r : Nat) (ph : Phase) (v : Chain) : Prop :=
  match ph with
  | .prepare => v ≠ [] ∧ (r = 0 ∨ JL W t r v) ∧ (v <+: input ∨ ∃ r', r' < r ∧ QL W t r' .prepare v)
  | .commit => (v = [] → ∃ y, W me r .prepare y ∧ ∃ s' z, z ≠ y ∧ W s' r .prepare z ∧ (r = 0 ∨ JL W t r z)) ∧
               (v ≠ [] → QL W t r .prepare v)
  | .decide => r = 0 → (v ≠ [] ∧ ∃ r', QL W t r' .commit v)
  | _ => True

/-- all broadcasts of an effect list are the participant's own votes in `W` -/
def OwnIn (W : Votes) (me : Pid) (es : List Eff) : Prop :=
  ∀ r ph v tk j, Eff.broadcast r ph v tk j ∈ es → W me r ph v

/-- all broadcasts of an effect list satisfy their guard -/
def Guarded (W : Votes) (t : Table) (me : Pid) (input : Chain) (es : List Eff) : Prop :=
  ∀ r ph v tk j, Eff.broadcast r ph v tk j ∈ es → GuardL W t me input r ph v

theorem OwnIn_append {W : Votes} {me : Pid} {a b : List Eff} (h : OwnIn W me (a ++ b)) : OwnIn W me a ∧ OwnIn W me b :=
  ⟨fun r ph v tk j hm => h r ph v tk j (List.mem_append_left _ hm),
   fun r ph v tk j hm => h r ph v tk j (List.mem_append_right _ hm)⟩

theorem Guarded_append {W : Votes} {t : Table} {me : Pid} {input : Chain} {a b : List Eff}
    (ha : Guarded W t me input a) (hb : Guarded W t me input b) : Guarded W t me input (a ++ b) := by
  intro r ph v tk j hm
  rcases List.mem_append.1 hm with hm | hm
  · exact ha r ph v tk j hm
  · exact hb r ph v tk j hm

theorem Guarded_nil {W : Votes} {t : Table} {me : Pid} {input : Chain} : Guarded W t me input [] := by
  intro r ph v tk j hm; simp at hm

/-- what a function of the model guarantees: unless it reports a failure, and provided its broadcasts are the
participant's own votes, it keeps the invariant and every broadcast is guarded -/
def GOK (W : Votes) (me : Pid) (s : State) (r : R) : Prop :=
  hasFailure r.2 = true ∨ (OwnIn W me r.2 → (GInv W me r.1 ∧ Guarded W s.tbl me s.input r.2))

theorem GOK.fail {W : Votes} {me : Pid} {s s' : State} {es : List Eff} (h : hasFailure es = true) : GOK W me s (s', es) :=
  Or.inl h

theorem GOK.nil {W : Votes} {me : Pid} {s : State} (h : GInv W me s) : GOK W me s (s, []) :=
  Or.inr fun _ => ⟨h, Guarded_nil⟩

theorem andThen_gok {W : Votes} {me : Pid} {s : State} {r : R} {f : State → R} (h1 : GOK W me s r)
    (htbl : r.1.tbl = s.tbl) (hinp : r.1.input = s.input)
    (h2 : GInv W me r.1 → GOK W me r.1 (f r.1)) : GOK W me s (andThen r f) := by
  unfold andThen
  split
  · exact Or.inl (by assumption)
  · rename_i hnf
    rcases h1 with hf | h1
    · exact absurd hf hnf
    · by_cases hf2 : hasFailure (f r.1).2 = true
      · exact Or.inl (by simp [hf2])
      · refine Or.inr fun hown => ?_
        obtain ⟨ho1, ho2⟩ := OwnIn_append hown
        obtain ⟨hi1, hg1⟩ := h1 ho1
        rcases h2 hi1 with hf | h2'
        · exact absurd hf hf2
        · obtain ⟨hi2, hg2⟩ := h2' ho2
          rw [htbl, hinp] at hg2
          exact ⟨hi2, Guarded_append hg1 hg2⟩


/-! ### helper lemmas for the per-function proofs -/

theorem CandOK.mono {W : Votes} {s s' : State} {c : Chain} (h : CandOK W s c) (ht : s'.tbl = s.tbl)
    (hi : s'.input = s.input) (hle : ptLe s.pt s'.pt) : CandOK W s' c := by
  obtain ⟨hne, h⟩ := h
  refine ⟨hne, ?_⟩
  rw [ht, hi]
  rcases h with h | ⟨r', hq, hb⟩
  · exact Or.inl h
  · exact Or.inr ⟨r', hq, prepBefore_mono hb hle⟩

/-- a broadcast-free effect list is trivially guarded -/
theorem Guarded_of_evs_nil {W : Votes} {t : Table} {me : Pid} {input : Chain} {es : List Eff} (h : evs es = []) :
    Guarded W t me input es := by
  intro r ph v tk j hm
  have : Ev.bc r ph ∈ evs es := by
    simp only [evs, List.mem_filterMap]; exact ⟨_, hm, rfl⟩
  rw [h] at this; simp at this

theorem addCandidate_mem (s : State) (c x : Chain) (h : x ∈ (s.addCandidate c).1.candidates) :
    x ∈ s.candidates ∨ x = c := by
  unfold State.addCandidate at h
  split at h
  · exact Or.inl h
  · simp only [List.mem_append, List.mem_singleton] at h; exact h

theorem addCandidatePrefixes_mem (s : State) (c x : Chain) (h : x ∈ (s.addCandidatePrefixes c).1.candidates) :
    x ∈ s.candidates ∨ ∃ l, 0 < l ∧ x = prefixTo c l := by
  unfold State.addCandidatePrefixes at h
  generalize hl : ((List.range (c.length - 1)).reverse.map (· + 1)) = l at h
  have hpos : ∀ y ∈ l, 0 < y := by
    intro y hy; rw [← hl] at hy; simp at hy; obtain ⟨a, _, rfl⟩ := hy; omega
  clear hl
  suffices hgen : ∀ (l : List Nat), (∀ y ∈ l, 0 < y) → ∀ (acc : State × Bool),
      (∀ y ∈ acc.1.candidates, y ∈ s.candidates ∨ ∃ l, 0 < l ∧ y = prefixTo c l) →
      ∀ y ∈ (l.foldl (fun (acc : State × Bool) l =>
        let r := acc.1.addCandidate (prefixTo c l); (r.1, acc.2 || r.2)) acc).1.candidates,
        y ∈ s.candidates ∨ ∃ l, 0 < l ∧ y = prefixTo c l from hgen l hpos (s, false) (fun y hy => Or.inl hy) x h
  intro l
  induction l with
  | nil => intro _ acc h y hy; exact h y (by simpa using hy)
  | cons a as ih =>
    intro hpos acc hacc y hy
    simp only [List.foldl_cons] at hy
    refine ih (fun z hz => hpos z (List.mem_cons_of_mem _ hz)) _ ?_ y hy
    intro z hz
    rcases addCandidate_mem _ _ _ hz with hz | rfl
    · exact hacc z hz
    · exact Or.inr ⟨a, hpos a List.mem_cons_self, rfl⟩

theorem prefixTo_prefix (c : Chain) (l : Nat) : prefixTo c l <+: c := List.take_prefix _ _

theorem prefixTo_ne_nil (c : Chain) (l : Nat) (hc : c ≠ []) : prefixTo c l ≠ [] := by
  unfold prefixTo
  cases c with
  | nil => exact absurd rfl hc
  | cons a as => simp

theorem longest_prefix_facts (q : Tally) (c : Chain) (hc : c ≠ []) :
    q.longestPrefixWithQuorum c <+: c ∧ q.longestPrefixWithQuorum c ≠ [] := by
  unfold Tally.longestPrefixWithQuorum
  split
  · exact ⟨List.prefix_refl _, hc⟩
  · split
    · rename_i p hf
      have hm := List.mem_of_find?_eq_some hf
      simp only [List.mem_map, List.mem_reverse, List.mem_range] at hm
      obtain ⟨i, _, rfl⟩ := hm
      exact ⟨prefixTo_prefix c i, prefixTo_ne_nil c i hc⟩
    · exact ⟨List.take_prefix _ _, by unfold baseChain; cases c with | nil => exact absurd rfl hc | cons a as => simp⟩

theorem prefix_trans' {a b c : Chain} (h1 : a <+: b) (h2 : b <+: c) : a <+: c := List.IsPrefix.trans h1 h2

/-- candidates added by concluding QUALITY are non-empty prefixes of the input -/
theorem quality_cands_ok (s : State) (hin : s.input ≠ []) (x : Chain)
    (h : ∃ l, 0 < l ∧ x = prefixTo (s.quality.longestPrefixWithQuorum s.input) l) :
    x ≠ [] ∧ x <+: s.input := by
  obtain ⟨l, _, rfl⟩ := h
  obtain ⟨hp, hne⟩ := longest_prefix_facts s.quality s.input hin
  exact ⟨prefixTo_ne_nil _ l hne, prefix_trans' (prefixTo_prefix _ l) hp⟩

end F3.Instance
