import F3.Gen.SkelValidate
/-!
# Expected statement skeletons (SkelValidate)

Hand-pinned expectations for the REGENERATED skeletons of `F3.Gen.SkelValidate` (tools/go2lean/skel.go): the pre-order
list of the statements of a Go function as `<depth>:<kind>`. The expression-level tie theorems pin what single
conditions say; these pin that nothing was added around them (an extra early return, a cap, a dropped branch). A
structural change of the function — harmful or not — breaks the `rfl` below and with it the obligation of every
property importing this file; the check then searches for a failing input as for any broken obligation.
-/
namespace F3.SkelTie.SkelValidate
open F3.Gen.SkelValidate

/-- the structure the model of `ValidateJustification` was written against -/
def skelValidateJustificationExpected : List String :=
  ["0:if", "1:return1", "0:assign:=", "0:assign:=", "0:if", "1:return1", "0:if", "1:return1", "0:if",
   "1:return1", "0:assign:=", "0:assign:=", "0:if", "1:assign:=", "1:assign=", "0:assign:=", "0:decl", "0:if",
   "1:if", "2:if", "3:return1", "2:assign=", "2:if", "3:assign:=", "3:if", "4:return1", "1:else", "2:return1",
   "0:else", "1:return1", "0:assign:=", "0:decl", "0:if", "1:call:log.Warnw", "1:assign=", "0:else", "1:if",
   "2:call:log.Warnw", "1:elseif", "2:call:metrics.validationCache.Add", "2:return1", "1:else",
   "2:call:metrics.validationCache.Add", "0:assign=", "0:if", "1:return1", "0:if", "1:if", "2:call:log.Warnw",
   "0:return1"]

theorem skelValidateJustification_expected : skelValidateJustification = skelValidateJustificationExpected := rfl

/-- the structure the model of `FullyValidate` was written against -/
def skelFullyValidateExpected : List String :=
  ["0:if", "1:return2", "0:assign:=", "0:if", "1:return2", "0:if", "1:return2", "0:if", "1:return2", "0:if",
   "1:return2", "0:assign:=", "0:if", "1:if", "2:return2", "1:if", "2:return2", "0:if", "1:assign:=", "1:if",
   "2:if", "3:if", "4:return2", "2:else", "3:return2", "1:else", "2:return2", "0:return2"]

theorem skelFullyValidate_expected : skelFullyValidate = skelFullyValidateExpected := rfl

/-- the structure the model of `SuppEq` was written against -/
def skelSuppEqExpected : List String :=
  ["0:return1"]

theorem skelSuppEq_expected : skelSuppEq = skelSuppEqExpected := rfl

/-- the structure the model of `InferJustValue` was written against -/
def skelInferJustValueExpected : List String :=
  ["0:if", "1:switch", "2:case3", "3:if", "4:assign=", "2:case1", "3:if", "4:assign=", "2:default"]

theorem skelInferJustValue_expected : skelInferJustValue = skelInferJustValueExpected := rfl

/-- the structure the model of `ToPartial` was written against -/
def skelToPartialExpected : List String :=
  ["0:assign:=", "0:assign:=", "0:if", "1:assign=", "1:assign=", "0:if", "1:assign:=", "1:assign=",
   "1:assign=", "0:return2"]

theorem skelToPartial_expected : skelToPartial = skelToPartialExpected := rfl

/-- the structure the model of `ValidateMessage` was written against -/
def skelValidateMessageExpected : List String :=
  ["0:assign:=", "0:assign:=", "0:if", "1:if", "2:call:log.Errorw", "1:elseif",
   "2:call:metrics.validationCache.Add", "2:return1", "1:else", "2:call:metrics.validationCache.Add",
   "0:assign:=", "0:if", "1:return1", "0:assign:=", "0:if", "1:return1", "0:if", "1:return1", "0:assign:=",
   "0:switch", "1:case1", "2:if", "3:return1", "2:if", "3:return1", "1:case1", "2:if", "3:return1", "2:if",
   "3:return1", "2:if", "3:return1", "1:case1", "2:if", "3:return1", "2:if", "3:return1", "1:case2",
   "1:default", "2:return1", "0:decl", "0:if", "1:assign=", "0:else", "1:assign=", "0:if", "1:return1",
   "0:assign:=", "0:if", "1:if", "2:return1", "0:elseif", "1:return1", "0:if", "1:if", "2:call:log.Warnw",
   "0:return1"]

theorem skelValidateMessage_expected : skelValidateMessage = skelValidateMessageExpected := rfl

end F3.SkelTie.SkelValidate
