import F3.Model.Poll
import F3.Spec.Poll
import F3.Proofs.Poll
/-! Helper lemmas for the closed-loop part of C20 (`F3.Poll.closedLoop`: the predictor polling an
idealised steady producer). Contents: (1) `update` by cases (back-off mode / progress 0, 1, 2, ≥ 2);
(2) arithmetic of `produced`: the number of certificates found after a wait `W` tells truthfully
whether `W` was shorter or longer than the production period; (3) the loop state, its iteration and
the invariant `Synced`; (4) the loop lemmas behind the closed-loop theorems of `F3/Props/C20.lean`. -/
namespace F3.Proofs.PollLoop
open F3.Gen F3.GoInt F3.Poll F3.Spec.Poll F3.Proofs.Poll

set_option linter.unusedSimpArgs false
set_option linter.unusedVariables false

/-! ## 1. `update` by cases -/

/-- the regenerated `predictor.update` is `predictorSpec` (same proof as
`F3.Props.C20.predictor_matches_spec`, needed here because the Props file imports this one) -/
theorem gen_eq_spec (p b e i mx mn : Int) (w : Bool) :
    predictorUpdate p b e i mx mn w = predictorSpec p b e i mx mn w := by
  unfold predictorUpdate predictorSpec explore1 clampE clampI fin
  have hp : p < 0 ∨ p = 0 ∨ p = 1 ∨ p = 2 ∨ p ≥ 3 := by omega
  rcases hp with hp | hp | hp | hp | hp
  · have h0 : ¬ p > 0 := by omega
    have h1 : ¬ p = 1 := by omega
    have h2 : ¬ p = 0 := by omega
    have h3 : p ≤ 2 := by omega
    have h4 : ¬ p > 1 := by omega
    cases w <;> by_cases hb : b > 0 <;>
      simp [h0, h1, h2, h3, h4, hb, apply_ite Prod.fst, apply_ite Prod.snd]
  · have h0 : ¬ p > 0 := by omega
    have h1 : ¬ p = 1 := by omega
    have h2 : p = 0 := by omega
    have h3 : p ≤ 2 := by omega
    have h4 : ¬ p > 1 := by omega
    cases w <;> by_cases hb : b > 0 <;>
      simp [h0, h1, h2, h3, h4, hb, apply_ite Prod.fst, apply_ite Prod.snd]
  · have h0 : p > 0 := by omega
    have h1 : p = 1 := by omega
    have h2 : ¬ p = 0 := by omega
    have h3 : p ≤ 2 := by omega
    have h4 : ¬ p > 1 := by omega
    cases w <;> by_cases hb : b > 0 <;>
      simp [h0, h1, h2, h3, h4, hb, apply_ite Prod.fst, apply_ite Prod.snd]
  · have h0 : p > 0 := by omega
    have h1 : ¬ p = 1 := by omega
    have h2 : ¬ p = 0 := by omega
    have h3 : p ≤ 2 := by omega
    have h4 : p > 1 := by omega
    cases w <;> by_cases hb : b > 0 <;>
      simp [h0, h1, h2, h3, h4, hb, apply_ite Prod.fst, apply_ite Prod.snd]
  · have h0 : p > 0 := by omega
    have h1 : ¬ p = 1 := by omega
    have h2 : ¬ p = 0 := by omega
    have h3 : ¬ p ≤ 2 := by omega
    have h4 : p > 1 := by omega
    cases w <;> by_cases hb : b > 0 <;>
      simp [h0, h1, h2, h3, h4, hb, apply_ite Prod.fst, apply_ite Prod.snd]

theorem upd_eq (s : PState) (p : Int) :
    update s p =
      ((predictorSpec p s.backoff s.explore s.interval s.maxI s.minI s.wasInc).1,
       { s with backoff := (predictorSpec p s.backoff s.explore s.interval s.maxI s.minI s.wasInc).2.1,
                explore := (predictorSpec p s.backoff s.explore s.interval s.maxI s.minI s.wasInc).2.2.1,
                interval := (predictorSpec p s.backoff s.explore s.interval s.maxI s.minI s.wasInc).2.2.2.1,
                wasInc := (predictorSpec p s.backoff s.explore s.interval s.maxI s.minI s.wasInc).2.2.2.2 }) := by
  unfold update
  rw [gen_eq_spec]

theorem pinv_iff (s : PState) : PInv s ↔ InvC s.minI s.maxI s.backoff s.explore s.interval := Iff.rfl

/-- progress 1 outside back-off: nothing moves -/
theorem update_one (s : PState) (hb : s.backoff = 0) : update s 1 = (s.interval, s) := by
  rw [upd_eq, spec_fixpoint _ _ _ _ _ _ (by omega)]

/-- in back-off mode a poll with progress leaves back-off and waits the interval; nothing else moves -/
theorem update_bo_pos (s : PState) (p : Int) (hb : 0 < s.backoff) (hp : 0 < p) :
    update s p = (s.interval, { s with backoff := 0 }) := by
  rw [upd_eq]
  have h1 : s.backoff > 0 := hb
  have h2 : p > 0 := hp
  simp [predictorSpec, fin, h1, h2]

/-- in back-off mode a poll without progress waits the back-off and doubles it; nothing else moves -/
theorem update_bo_zero (s : PState) (p : Int) (hb : 0 < s.backoff) (hp : p ≤ 0) :
    update s p = (s.backoff, { s with backoff := min (2 * s.backoff) (10 * s.maxI) }) := by
  rw [upd_eq]
  have h1 : s.backoff > 0 := hb
  have h2 : ¬ p > 0 := by omega
  simp [predictorSpec, fin, h1, h2]

/-- explore distance after a poll without progress (outside back-off) -/
def upE (s : PState) : Int :=
  clampE s.minI s.maxI (if s.wasInc then s.explore * 2 else Int.tdiv s.explore 3)

/-- explore distance after a poll with progress 2 (outside back-off) -/
def dnE (s : PState) : Int :=
  clampE s.minI s.maxI (if s.wasInc then Int.tdiv s.explore 3 else s.explore * 2)

/-- progress 0 outside back-off: wait the old interval, enter back-off, lengthen the interval by the
new explore distance -/
theorem update_zero (s : PState) (hb : s.backoff = 0) (hi : 0 < s.interval) :
    update s 0 = (s.interval,
      { s with backoff := min (2 * s.interval) (10 * s.maxI), explore := upE s,
               interval := clampI s.minI s.maxI (s.interval + upE s), wasInc := true }) := by
  rw [upd_eq]
  have h2 : s.interval > 0 := hi
  cases hw : s.wasInc <;> simp [predictorSpec, fin, explore1, upE, hb, hw, h2]

/-- progress 2 outside back-off: shorten the interval by the new explore distance and wait it -/
theorem update_two (s : PState) (hb : s.backoff = 0) :
    update s 2 = (clampI s.minI s.maxI (s.interval - dnE s),
      { s with explore := dnE s, interval := clampI s.minI s.maxI (s.interval - dnE s), wasInc := false }) := by
  rw [upd_eq]
  cases hw : s.wasInc <;> simp [predictorSpec, fin, explore1, dnE, hb, hw]

theorem upE_bounds (s : PState) (h : PInv s) : 0 ≤ upE s ∧ upE s ≤ Int.tdiv s.maxI 2 :=
  clampE_bounds _ _ _ h.1 h.2.1

theorem dnE_bounds (s : PState) (h : PInv s) : 0 ≤ dnE s ∧ dnE s ≤ Int.tdiv s.maxI 2 :=
  clampE_bounds _ _ _ h.1 h.2.1

theorem upE_pos (s : PState) (h : PInv s) (hmn : 100 ≤ s.minI) : 1 ≤ upE s :=
  clampE_pos _ _ _ hmn h.2.1

theorem dnE_pos (s : PState) (h : PInv s) (hmn : 100 ≤ s.minI) : 1 ≤ dnE s :=
  clampE_pos _ _ _ hmn h.2.1

/-- general shape of a poll with progress ≥ 2 outside back-off: the interval does not grow, the wait
is the new interval, back-off stays off, direction is "decreasing" -/
theorem update_ge_two (s : PState) (p : Int) (h : PInv s) (hb : s.backoff = 0) (hp : 2 ≤ p) :
    (update s p).1 = (update s p).2.interval ∧ (update s p).2.interval ≤ s.interval ∧
    (update s p).2.backoff = 0 ∧ (update s p).2.wasInc = false ∧
    (100 ≤ s.minI → s.minI < s.interval → (update s p).2.interval < s.interval) := by
  have h' := (pinv_iff s).1 h
  have hs := spec_shortens p s.backoff s.explore s.interval s.maxI s.minI s.wasInc h' hp
  rw [upd_eq]
  refine ⟨?_, hs.1, hs.2.2, ?_, ?_⟩
  · have h1 : p ≠ 1 := by omega
    have h0 : ¬ p = 0 := by omega
    simp [predictorSpec, fin, hb, h1, h0]
  · have h1 : p ≠ 1 := by omega
    have h0 : ¬ p = 0 := by omega
    simp [predictorSpec, fin, hb, h1, h0]
  · intro hmn hi
    rw [hb] at h'
    have := spec_shortens_strict p s.explore s.interval s.maxI s.minI s.wasInc h' hp hmn hi
    simpa [hb] using this

/-! ## 2. The steady producer -/

/-- for every time not earlier than one period before the first certificate, `produced` is the
floor formula -/
theorem produced_eq (P ph t : Int) (hP : 0 < P) (ht : ph - P ≤ t) :
    produced P ph t = (t - ph) / P + 1 := by
  unfold produced
  split
  · rename_i h
    have h1 : (t - ph) / P < 0 := (Int.ediv_lt_iff_lt_mul hP).2 (by omega)
    have h2 : -1 ≤ (t - ph) / P := (Int.le_ediv_iff_mul_le hP).2 (by omega)
    omega
  · rfl

/-- **The producer answers truthfully.** If `p` certificates appear during a wait `W` that starts at
`t0` (not earlier than one period before the first certificate), then `p - 1 < W / P < p + 1`. -/
theorem produced_diff (P ph t0 W : Int) (hP : 0 < P) (h0 : ph - P ≤ t0) (hW : 0 ≤ W) :
    P * (produced P ph (t0 + W) - produced P ph t0) < W + P ∧
    W < P * (produced P ph (t0 + W) - produced P ph t0 + 1) := by
  rw [produced_eq P ph t0 hP h0, produced_eq P ph (t0 + W) hP (by omega)]
  have hne : P ≠ 0 := by omega
  have a1 := Int.mul_ediv_self_le (x := t0 - ph) hne
  have a2 := Int.lt_mul_ediv_self_add (x := t0 - ph) hP
  have b1 := Int.mul_ediv_self_le (x := t0 + W - ph) hne
  have b2 := Int.lt_mul_ediv_self_add (x := t0 + W - ph) hP
  have e1 : P * ((t0 + W - ph) / P + 1 - ((t0 - ph) / P + 1)) =
      P * ((t0 + W - ph) / P) - P * ((t0 - ph) / P) := by
    rw [Int.mul_sub, Int.mul_add, Int.mul_add]; omega
  have e2 : P * ((t0 + W - ph) / P + 1 - ((t0 - ph) / P + 1) + 1) =
      P * ((t0 + W - ph) / P) - P * ((t0 - ph) / P) + P := by
    rw [Int.mul_add, e1]; omega
  rw [e1, e2]
  omega

/-- consequences of `produced_diff` in the shapes used below -/
theorem truthful (P ph t0 W : Int) (hP : 0 < P) (h0 : ph - P ≤ t0) (hW : 0 ≤ W) :
    let p := produced P ph (t0 + W) - produced P ph t0
    0 ≤ p ∧ (p = 0 → W < P) ∧ (2 ≤ p → P < W) ∧ (3 ≤ p → 2 * P < W) ∧
    (W < P → p ≤ 1) ∧ (P ≤ W → 1 ≤ p) ∧ (W ≤ P → p ≤ 1) ∧ (2 * P ≤ W → 2 ≤ p) ∧ (W ≤ 2 * P → p ≤ 2) := by
  intro p
  have h := produced_diff P ph t0 W hP h0 hW
  have hp : produced P ph (t0 + W) - produced P ph t0 = p := rfl
  rw [hp] at h
  have lo : ∀ k : Int, k ≤ p → P * k ≤ P * p := fun k hk => Int.mul_le_mul_of_nonneg_left hk (by omega)
  have hi : ∀ k : Int, p ≤ k → P * p ≤ P * k := fun k hk => Int.mul_le_mul_of_nonneg_left hk (by omega)
  refine ⟨?_, ?_, ?_, ?_, ?_, ?_, ?_, ?_, ?_⟩
  · apply Int.le_of_lt_add_one
    apply Int.lt_of_not_ge
    intro hc
    have := hi (-1) (by omega)
    have h2 : P * (p + 1) = P * p + P := by rw [Int.mul_add]; omega
    omega
  · intro h0'; rw [h0'] at h; omega
  · intro h2; have := lo 2 h2; omega
  · intro h3; have := lo 3 h3; omega
  · intro hw; apply Int.le_of_lt_add_one; apply Int.lt_of_not_ge; intro hc
    have := lo 2 (by omega); omega
  · intro hw; apply Int.not_lt.mp; intro hc
    have := hi 0 (by omega)
    have h2 : P * (p + 1) = P * p + P := by rw [Int.mul_add]; omega
    omega
  · intro hw; apply Int.le_of_lt_add_one; apply Int.lt_of_not_ge; intro hc
    have := lo 2 (by omega); omega
  · intro hw; apply Int.not_lt.mp; intro hc
    have := hi 1 (by omega)
    have h2 : P * (p + 1) = P * p + P := by rw [Int.mul_add]; omega
    omega
  · intro hw; apply Int.le_of_lt_add_one; apply Int.lt_of_not_ge; intro hc
    have := lo 3 (by omega); omega

/-- time from `t0` to the first certificate strictly after `t0` -/
def gap (P ph t0 : Int) : Int := ph + produced P ph t0 * P - t0

theorem gap_bounds (P ph t0 : Int) (hP : 0 < P) (h0 : ph - P ≤ t0) :
    0 < gap P ph t0 ∧ gap P ph t0 ≤ P := by
  unfold gap
  rw [produced_eq P ph t0 hP h0]
  have hne : P ≠ 0 := by omega
  have a1 := Int.ediv_mul_le (t0 - ph) hne
  have a2 := Int.lt_ediv_add_one_mul_self (t0 - ph) hP
  have e : ((t0 - ph) / P + 1) * P = (t0 - ph) / P * P + P := by rw [Int.add_mul]; omega
  rw [e] at a2 ⊢
  omega

/-- number of certificates found after a wait `W`, in terms of the gap: `j` more if
`gap + (j-1)·P ≤ W < gap + j·P` -/
theorem produced_add (P ph t0 W j : Int) (hP : 0 < P) (h0 : ph - P ≤ t0) (hW : 0 ≤ W)
    (h1 : gap P ph t0 + (j - 1) * P ≤ W) (h2 : W < gap P ph t0 + j * P) :
    produced P ph (t0 + W) = produced P ph t0 + j := by
  have hg := gap_bounds P ph t0 hP h0
  rw [produced_eq P ph (t0 + W) hP (by omega)]
  unfold gap at h1 h2 hg
  generalize produced P ph t0 = q at h1 h2 hg ⊢
  have e1 : (j - 1) * P = j * P - P := by rw [Int.sub_mul]; omega
  rw [e1] at h1
  have hle : (t0 + W - ph) / P < q + j := by
    apply (Int.ediv_lt_iff_lt_mul hP).2
    rw [Int.add_mul]; omega
  have hge : q + j - 1 ≤ (t0 + W - ph) / P := by
    apply (Int.le_ediv_iff_mul_le hP).2
    have : (q + j - 1) * P = q * P + j * P - P := by rw [Int.sub_mul, Int.add_mul]; omega
    rw [this]; omega
  omega

theorem gap_add (P ph t0 W j : Int) (h : produced P ph (t0 + W) = produced P ph t0 + j) :
    gap P ph (t0 + W) = gap P ph t0 + j * P - W := by
  unfold gap
  rw [h, Int.add_mul]; omega

/-! ## 3. The loop state and the invariant `Synced` -/

/-- state of the closed loop between two polls: predictor, time of the next poll, certificates seen -/
structure LState where
  s : PState
  t : Int
  seen : Int

/-- progress the next poll will report -/
def progressAt (P ph : Int) (c : LState) : Int := produced P ph c.t - c.seen

/-- the wait the next poll will return -/
def loopWait (P ph : Int) (c : LState) : Int := (update c.s (progressAt P ph c)).1

/-- one iteration of `closedLoop` on the state -/
def loopStep (P ph : Int) (c : LState) : LState :=
  ⟨(update c.s (progressAt P ph c)).2, c.t + loopWait P ph c, produced P ph c.t⟩

def loopIter (P ph : Int) : Nat → LState → LState
  | 0, c => c
  | k + 1, c => loopIter P ph k (loopStep P ph c)

/-- `closedLoop` on a packed state -/
def loopOf (P ph : Int) (n : Nat) (c : LState) : List Int := closedLoop P ph n c.s c.t c.seen

theorem loopOf_succ (P ph : Int) (n : Nat) (c : LState) :
    loopOf P ph (n + 1) c = loopWait P ph c :: loopOf P ph n (loopStep P ph c) := rfl

theorem loopOf_add (P ph : Int) (k : Nat) : ∀ (n : Nat) (c : LState),
    loopOf P ph (k + n) c = loopOf P ph k c ++ loopOf P ph n (loopIter P ph k c) := by
  induction k with
  | zero => intro n c; simp [loopOf, closedLoop, loopIter]
  | succ k ih =>
    intro n c
    have : k + 1 + n = (k + n) + 1 := by omega
    rw [this, loopOf_succ, loopOf_succ, ih n (loopStep P ph c)]
    rfl

theorem loopOf_length (P ph : Int) (n : Nat) : ∀ c : LState, (loopOf P ph n c).length = n := by
  induction n with
  | zero => intro c; rfl
  | succ n ih => intro c; rw [loopOf_succ, List.length_cons, ih]

/-- the `k`-th wait of the closed loop is the wait returned in the `k`-th state -/
theorem loopOf_get (P ph : Int) (n k : Nat) (c : LState) (hk : k < n) :
    (loopOf P ph n c)[k]? = some (loopWait P ph (loopIter P ph k c)) := by
  have : n = k + ((n - k - 1) + 1) := by omega
  rw [this, loopOf_add, List.getElem?_append_right (by rw [loopOf_length]; omega), loopOf_length,
    loopOf_succ]
  simp

theorem loopIter_add (P ph : Int) (j : Nat) : ∀ (k : Nat) (c : LState),
    loopIter P ph (j + k) c = loopIter P ph k (loopIter P ph j c) := by
  induction j with
  | zero => intro k c; simp [loopIter]
  | succ j ih =>
    intro k c
    have : j + 1 + k = (j + k) + 1 := by omega
    rw [this]
    exact ih k (loopStep P ph c)

/-- **Loop invariant.** The certificates seen are those produced up to an anchor time `t0` (not
earlier than one period before the first certificate); outside back-off the next poll is one
interval after the anchor, in back-off it is one back-off after the anchor. -/
def Synced (P ph : Int) (s : PState) (t seen : Int) : Prop :=
  ∃ t0, ph - P ≤ t0 ∧ t0 < t ∧ seen = produced P ph t0 ∧
    (s.backoff = 0 → t = t0 + s.interval) ∧ (0 < s.backoff → t = t0 + s.backoff)

theorem update_pinv (s : PState) (p : Int) (h : PInv s) :
    PInv (update s p).2 ∧ s.minI ≤ (update s p).1 ∧ (update s p).1 ≤ 10 * s.maxI ∧
    (update s p).2.minI = s.minI ∧ (update s p).2.maxI = s.maxI := by
  have := spec_bounds p s.backoff s.explore s.interval s.maxI s.minI s.wasInc ((pinv_iff s).1 h)
  rw [upd_eq]
  exact ⟨this.1, this.2.1, this.2.2, rfl, rfl⟩

/-- what the poll finds, in terms of the anchor -/
theorem progress_truthful (P ph : Int) (c : LState) (hP : 0 < P)
    (hS : Synced P ph c.s c.t c.seen) :
    ∃ t0, ph - P ≤ t0 ∧ t0 < c.t ∧ c.seen = produced P ph t0 ∧
      (c.s.backoff = 0 → c.t = t0 + c.s.interval) ∧ (0 < c.s.backoff → c.t = t0 + c.s.backoff) ∧
      0 ≤ progressAt P ph c ∧ (progressAt P ph c = 0 → c.t - t0 < P) ∧
      (2 ≤ progressAt P ph c → P < c.t - t0) ∧ (3 ≤ progressAt P ph c → 2 * P < c.t - t0) ∧
      (c.t - t0 < P → progressAt P ph c ≤ 1) ∧ (P ≤ c.t - t0 → 1 ≤ progressAt P ph c) ∧
      (c.t - t0 ≤ P → progressAt P ph c ≤ 1) ∧ (2 * P ≤ c.t - t0 → 2 ≤ progressAt P ph c) ∧
      (c.t - t0 ≤ 2 * P → progressAt P ph c ≤ 2) := by
  obtain ⟨t0, h0, hlt, hseen, hb0, hbp⟩ := hS
  have htr := truthful P ph t0 (c.t - t0) hP h0 (by omega)
  have ht : t0 + (c.t - t0) = c.t := by omega
  rw [ht, ← hseen] at htr
  exact ⟨t0, h0, hlt, hseen, hb0, hbp, htr⟩

/-- **One poll of the closed loop keeps the invariants**, progress is never negative, and the wait is
either the new interval or (after a poll without progress) shorter than the production period. -/
theorem synced_step (P ph : Int) (c : LState) (hP : 0 < P) (hI : PInv c.s) (hmx : P ≤ c.s.maxI)
    (hS : Synced P ph c.s c.t c.seen) :
    0 ≤ progressAt P ph c ∧ PInv (loopStep P ph c).s ∧
    (loopStep P ph c).s.minI = c.s.minI ∧ (loopStep P ph c).s.maxI = c.s.maxI ∧
    Synced P ph (loopStep P ph c).s (loopStep P ph c).t (loopStep P ph c).seen ∧
    (loopWait P ph c = (loopStep P ph c).s.interval ∨ (loopWait P ph c < P ∧ progressAt P ph c = 0)) := by
  obtain ⟨t0, h0, hlt, hseen, hb0, hbp, hp0, hz, h2, h3, _⟩ := progress_truthful P ph c hP hS
  have hU := update_pinv c.s (progressAt P ph c) hI
  refine ⟨hp0, hU.1, hU.2.2.2.1, hU.2.2.2.2, ?_⟩
  have hseen' : progressAt P ph c = 0 → produced P ph c.t = produced P ph t0 := by
    intro h; unfold progressAt at h; omega
  obtain ⟨hmn, hmm, hi1, hi2, he1, he2, hb⟩ := id hI
  unfold loopStep loopWait
  generalize progressAt P ph c = p at *
  rcases hb with hb | hb
  · -- outside back-off
    have ht := hb0 hb
    have hp : p = 0 ∨ p = 1 ∨ 2 ≤ p := by omega
    rcases hp with hp | hp | hp
    · subst hp
      rw [update_zero c.s hb (by omega)]
      have hz' := hz rfl
      refine ⟨⟨t0, h0, by simp only; omega, by simp only; exact hseen' rfl, ?_, ?_⟩, Or.inr ⟨by simp only; omega, rfl⟩⟩
      · simp only; intro h; omega
      · simp only; intro _; omega
    · subst hp
      rw [update_one c.s hb]
      refine ⟨⟨c.t, by omega, by simp only; omega, rfl, ?_, ?_⟩, Or.inl rfl⟩
      · intro _; rfl
      · simp only; intro h; omega
    · have hg := update_ge_two c.s p hI hb hp
      have hw := hU.2.1
      refine ⟨⟨c.t, by omega, by simp only; omega, rfl, ?_, ?_⟩, Or.inl hg.1⟩
      · intro _; simp only; rw [hg.1]
      · simp only; intro h; omega
  · -- in back-off
    have hbpos : 0 < c.s.backoff := by omega
    have ht := hbp hbpos
    by_cases hp : 0 < p
    · rw [update_bo_pos c.s p hbpos hp]
      refine ⟨⟨c.t, by omega, by simp only; omega, rfl, ?_, ?_⟩, Or.inl rfl⟩
      · intro _; rfl
      · simp only; intro h; omega
    · have hp' : p = 0 := by omega
      subst hp'
      rw [update_bo_zero c.s 0 hbpos (by omega)]
      have hz' := hz rfl
      refine ⟨⟨t0, h0, by simp only; omega, by simp only; exact hseen' rfl, ?_, ?_⟩, Or.inr ⟨by simp only; omega, rfl⟩⟩
      · simp only; intro h; omega
      · simp only; intro _; omega

theorem synced_iter (P ph : Int) (hP : 0 < P) (k : Nat) : ∀ c : LState, PInv c.s → P ≤ c.s.maxI →
    Synced P ph c.s c.t c.seen →
    PInv (loopIter P ph k c).s ∧ (loopIter P ph k c).s.minI = c.s.minI ∧
    (loopIter P ph k c).s.maxI = c.s.maxI ∧
    Synced P ph (loopIter P ph k c).s (loopIter P ph k c).t (loopIter P ph k c).seen := by
  induction k with
  | zero => intro c hI _ hS; exact ⟨hI, rfl, rfl, hS⟩
  | succ k ih =>
    intro c hI hmx hS
    have h := synced_step P ph c hP hI hmx hS
    have := ih (loopStep P ph c) h.2.1 (by rw [h.2.2.2.1]; exact hmx) h.2.2.2.2.1
    simp only [loopIter]
    rw [h.2.2.1, h.2.2.2.1] at this
    exact this

/-- a poll that finds something re-anchors the loop, whatever the state was before -/
theorem synced_of_progress (P ph : Int) (c : LState) (hI : PInv c.s) (ht : ph - P ≤ c.t)
    (hp : 1 ≤ progressAt P ph c) :
    Synced P ph (loopStep P ph c).s (loopStep P ph c).t (loopStep P ph c).seen := by
  have hU := update_pinv c.s (progressAt P ph c) hI
  obtain ⟨hmn, hmm, hi1, hi2, he1, he2, hb⟩ := id hI
  unfold loopStep loopWait
  generalize progressAt P ph c = p at *
  rcases hb with hb | hb
  · have hp' : p = 1 ∨ 2 ≤ p := by omega
    rcases hp' with hp' | hp'
    · subst hp'
      rw [update_one c.s hb]
      refine ⟨c.t, ht, by simp only; omega, rfl, ?_, ?_⟩
      · intro _; rfl
      · simp only; intro h; omega
    · have hg := update_ge_two c.s p hI hb hp'
      have hw := hU.2.1
      refine ⟨c.t, ht, by simp only; omega, rfl, ?_, ?_⟩
      · intro _; simp only; rw [hg.1]
      · simp only; intro h; omega
  · have hbpos : 0 < c.s.backoff := by omega
    rw [update_bo_pos c.s p hbpos (by omega)]
    refine ⟨c.t, ht, by simp only; omega, rfl, ?_, ?_⟩
    · intro _; rfl
    · simp only; intro h; omega

/-- the start of `SettlesStatement`: a fresh predictor, first poll after the initial interval, nothing
seen. After the first poll the loop is anchored (for `phase = 0` the start itself is not: the
certificate of time 0 is "new" at the first poll although the wait began at time 0). -/
def start (mn ini mx : Int) : LState := ⟨PState.init mn ini mx, ini, 0⟩

theorem start_pinv (mn ini mx : Int) (h0 : 0 < mn) (h1 : mn ≤ ini) (h2 : ini ≤ mx) :
    PInv (PState.init mn ini mx) := by
  have h3 : 0 ≤ ini := by omega
  have h4 : 0 ≤ mx := by omega
  simp only [PInv, PState.init, Int.tdiv_eq_ediv_of_nonneg h3, Int.tdiv_eq_ediv_of_nonneg h4]
  exact ⟨h0, by omega, h1, h2, by omega, by omega, Or.inl trivial⟩

theorem start_step_synced (mn ini mx P ph : Int) (h0 : 0 < mn) (h1 : mn ≤ ini) (h2 : ini ≤ mx)
    (hP : 0 < P) (hmx : P ≤ mx) (hph0 : 0 ≤ ph) (hph : ph < P) :
    Synced P ph (loopStep P ph (start mn ini mx)).s (loopStep P ph (start mn ini mx)).t
      (loopStep P ph (start mn ini mx)).seen := by
  have hI := start_pinv mn ini mx h0 h1 h2
  by_cases hz : ph = 0
  · subst hz
    apply synced_of_progress P 0 (start mn ini mx) hI (by simp only [start]; omega)
    have hpr : produced P 0 ini = ini / P + 1 := by
      rw [produced_eq P 0 ini hP (by omega)]; simp
    have : 0 ≤ ini / P := Int.ediv_nonneg (by omega) (by omega)
    simp only [progressAt, start, hpr]
    omega
  · have hS : Synced P ph (start mn ini mx).s (start mn ini mx).t (start mn ini mx).seen := by
      refine ⟨0, by omega, by simp only [start]; omega, ?_, ?_, ?_⟩
      · have : (0 : Int) < ph := by omega
        simp [start, produced, this]
      · intro _; simp [start, PState.init]
      · intro h; simp [start, PState.init] at h
    exact (synced_step P ph (start mn ini mx) hP hI hmx hS).2.2.2.2.1

/-- every state of the run of `SettlesStatement` after the first poll satisfies both invariants -/
theorem start_iter (mn ini mx P ph : Int) (h0 : 0 < mn) (h1 : mn ≤ ini) (h2 : ini ≤ mx)
    (hP : 0 < P) (hmx : P ≤ mx) (hph0 : 0 ≤ ph) (hph : ph < P) (k : Nat) :
    PInv (loopIter P ph (k + 1) (start mn ini mx)).s ∧
    (loopIter P ph (k + 1) (start mn ini mx)).s.minI = mn ∧
    (loopIter P ph (k + 1) (start mn ini mx)).s.maxI = mx ∧
    Synced P ph (loopIter P ph (k + 1) (start mn ini mx)).s (loopIter P ph (k + 1) (start mn ini mx)).t
      (loopIter P ph (k + 1) (start mn ini mx)).seen := by
  have hI := start_pinv mn ini mx h0 h1 h2
  have hU := update_pinv (start mn ini mx).s (progressAt P ph (start mn ini mx)) hI
  have hS := start_step_synced mn ini mx P ph h0 h1 h2 hP hmx hph0 hph
  have e : loopIter P ph (k + 1) (start mn ini mx) = loopIter P ph k (loopStep P ph (start mn ini mx)) := by
    have : k + 1 = 1 + k := by omega
    rw [this, loopIter_add]; rfl
  rw [e]
  have hmx' : (loopStep P ph (start mn ini mx)).s.maxI = mx := hU.2.2.2.2
  have hmn' : (loopStep P ph (start mn ini mx)).s.minI = mn := hU.2.2.2.1
  have := synced_iter P ph hP k (loopStep P ph (start mn ini mx)) hU.1 (by rw [hmx']; exact hmx) hS
  rw [hmx', hmn'] at this
  exact this

/-! ## 4. Closed-loop lemmas -/

theorem clampI_le_self (mn mx y : Int) (hy : mn ≤ y) : clampI mn mx y ≤ y := by
  unfold clampI; split
  · omega
  · split <;> omega

theorem clampI_ge_self (mn mx y : Int) (hmm : mn ≤ mx) (hy : y ≤ mx) : y ≤ clampI mn mx y := by
  unfold clampI; split
  · omega
  · split <;> omega

theorem clampI_gt (mn mx y i : Int) (hy : i < y) (hi : i < mx) : i < clampI mn mx y := by
  unfold clampI; split
  · omega
  · split <;> omega

/-- **Every adjustment moves the interval toward the production period and overshoots it by less
than the (new) explore distance.** -/
theorem step_toward (P ph : Int) (c : LState) (hP : 0 < P) (hI : PInv c.s)
    (hS : Synced P ph c.s c.t c.seen) (hb : c.s.backoff = 0) :
    (c.s.interval < P →
      (progressAt P ph c = 0 ∨ progressAt P ph c = 1) ∧
      c.s.interval ≤ (update c.s (progressAt P ph c)).2.interval ∧
      (update c.s (progressAt P ph c)).2.interval < P + (update c.s (progressAt P ph c)).2.explore) ∧
    (P < c.s.interval →
      1 ≤ progressAt P ph c ∧
      (update c.s (progressAt P ph c)).2.interval ≤ c.s.interval ∧
      (c.s.interval ≤ 2 * P →
        P < (update c.s (progressAt P ph c)).2.interval + (update c.s (progressAt P ph c)).2.explore)) ∧
    (c.s.interval = P → progressAt P ph c = 1) := by
  obtain ⟨t0, h0, hlt, hseen, hb0, hbp, hp0, hz, h2, h3, hlt1, hge1, hle1, hge2, hle2⟩ :=
    progress_truthful P ph c hP hS
  have ht := hb0 hb
  obtain ⟨hmn, hmm, hi1, hi2, he1, he2, _⟩ := id hI
  generalize progressAt P ph c = p at *
  refine ⟨?_, ?_, ?_⟩
  · intro hi
    have hp : p = 0 ∨ p = 1 := by have := hlt1 (by omega); omega
    refine ⟨hp, ?_⟩
    rcases hp with hp | hp
    · subst hp
      rw [update_zero c.s hb (by omega)]
      have hE := upE_bounds c.s hI
      have a := clampI_ge c.s.minI c.s.maxI (c.s.interval + upE c.s) c.s.interval (by omega) hi2
      have b := clampI_le_self c.s.minI c.s.maxI (c.s.interval + upE c.s) (by omega)
      simp only
      omega
    · subst hp
      rw [update_one c.s hb]
      simp only
      omega
  · intro hi
    have hp : 1 ≤ p := hge1 (by omega)
    refine ⟨hp, ?_⟩
    have hp' : p = 1 ∨ 2 ≤ p := by omega
    rcases hp' with hp' | hp'
    · subst hp'
      rw [update_one c.s hb]
      simp only
      omega
    · refine ⟨(update_ge_two c.s p hI hb hp').2.1, ?_⟩
      intro hi2P
      have : p = 2 := by have := hle2 (by omega); omega
      subst this
      rw [update_two c.s hb]
      have hE := dnE_bounds c.s hI
      have a := clampI_ge_self c.s.minI c.s.maxI (c.s.interval - dnE c.s) hmm (by omega)
      simp only
      omega
  · intro hi
    have := hge1 (by omega)
    have := hle1 (by omega)
    omega

/-- **The production period is held for ever once it is hit** (outside back-off). -/
theorem hold_period (P ph : Int) (hP : 0 < P) (n : Nat) : ∀ c : LState, PInv c.s →
    Synced P ph c.s c.t c.seen → c.s.backoff = 0 → c.s.interval = P →
    loopOf P ph n c = List.replicate n P := by
  induction n with
  | zero => intro c _ _ _ _; rfl
  | succ n ih =>
    intro c hI hS hb hi
    have hp := (step_toward P ph c hP hI hS hb).2.2 hi
    have hmx : P ≤ c.s.maxI := by rw [← hi]; exact hI.2.2.2.1
    have hst := synced_step P ph c hP hI hmx hS
    have hs' : (loopStep P ph c).s = c.s := by
      simp only [loopStep, hp, update_one c.s hb]
    have hw : loopWait P ph c = P := by
      simp only [loopWait, hp, update_one c.s hb, hi]
    rw [loopOf_succ, List.replicate_succ, hw]
    congr 1
    apply ih (loopStep P ph c) hst.2.1 hst.2.2.2.2.1
    · rw [hs']; exact hb
    · rw [hs']; exact hi

/-- …and so is the predictor state -/
theorem hold_period_state (P ph : Int) (hP : 0 < P) (n : Nat) : ∀ c : LState, PInv c.s →
    Synced P ph c.s c.t c.seen → c.s.backoff = 0 → c.s.interval = P →
    (loopIter P ph n c).s = c.s := by
  induction n with
  | zero => intro c _ _ _ _; rfl
  | succ n ih =>
    intro c hI hS hb hi
    have hp := (step_toward P ph c hP hI hS hb).2.2 hi
    have hmx : P ≤ c.s.maxI := by rw [← hi]; exact hI.2.2.2.1
    have hst := synced_step P ph c hP hI hmx hS
    have hs' : (loopStep P ph c).s = c.s := by
      simp only [loopStep, hp, update_one c.s hb]
    show (loopIter P ph n (loopStep P ph c)).s = c.s
    rw [ih (loopStep P ph c) hst.2.1 hst.2.2.2.2.1 (by rw [hs']; exact hb) (by rw [hs']; exact hi), hs']

theorem produced_mono (P ph t t' : Int) (hP : 0 < P) (h0 : ph - P ≤ t) (h : t ≤ t') :
    produced P ph t ≤ produced P ph t' := by
  rw [produced_eq P ph t hP h0, produced_eq P ph t' hP (by omega)]
  have := Int.ediv_le_ediv (a := t - ph) (b := t' - ph) hP (by omega)
  omega

/-- **Below the period the loop cannot stall** (induction on the measure `m`): with interval `i < P`
anchored at `c.t - i`, after `k` polls that each find one certificate (`k·(P-i) + gap ≤ P`) a poll
finds nothing; all `k+1` waits are `i`, and the predictor then is `(update s 0).2`. -/
theorem live_up (P ph : Int) (hP : 0 < P) (m : Nat) : ∀ c : LState, PInv c.s → c.s.backoff = 0 →
    c.s.interval < P → ph - P ≤ c.t - c.s.interval → c.seen = produced P ph (c.t - c.s.interval) →
    c.s.interval - gap P ph (c.t - c.s.interval) < m * (P - c.s.interval) →
    ∃ k : Nat, (k : Int) * (P - c.s.interval) + gap P ph (c.t - c.s.interval) ≤ P ∧
      loopIter P ph (k + 1) c =
        ⟨(update c.s 0).2, c.t + ((k : Int) + 1) * c.s.interval, c.seen + k⟩ ∧
      ∀ n, loopOf P ph (k + 1 + n) c = List.replicate (k + 1) c.s.interval ++
        loopOf P ph n ⟨(update c.s 0).2, c.t + ((k : Int) + 1) * c.s.interval, c.seen + k⟩ := by
  induction m with
  | zero =>
    intro c hI hb hi h0 hseen hm
    have hg := gap_bounds P ph (c.t - c.s.interval) hP h0
    have hi0 : 0 < c.s.interval := by have := hI.1; have := hI.2.2.1; omega
    have hpr := produced_add P ph (c.t - c.s.interval) c.s.interval 0 hP h0 (by omega) (by omega) (by omega)
    have ht : c.t - c.s.interval + c.s.interval = c.t := by omega
    rw [ht] at hpr
    have hp : progressAt P ph c = 0 := by unfold progressAt; omega
    have hw : loopWait P ph c = c.s.interval := by
      simp only [loopWait, hp, update_zero c.s hb hi0]
    have hs : loopStep P ph c = ⟨(update c.s 0).2, c.t + ((0 : Nat) + 1 : Int) * c.s.interval, c.seen + (0 : Nat)⟩ := by
      simp only [loopStep, hw, hp]
      congr 1 <;> omega
    refine ⟨0, by omega, hs, ?_⟩
    intro n
    have e : 0 + 1 + n = n + 1 := by omega
    rw [e, loopOf_succ]
    rw [hw, hs]; rfl
  | succ m ih =>
    intro c hI hb hi h0 hseen hm
    have hg := gap_bounds P ph (c.t - c.s.interval) hP h0
    have hi0 : 0 < c.s.interval := by have := hI.1; have := hI.2.2.1; omega
    have ht : c.t - c.s.interval + c.s.interval = c.t := by omega
    by_cases hev : c.s.interval < gap P ph (c.t - c.s.interval)
    · -- the poll finds nothing
      have hpr := produced_add P ph (c.t - c.s.interval) c.s.interval 0 hP h0 (by omega) (by omega) (by omega)
      rw [ht] at hpr
      have hp : progressAt P ph c = 0 := by unfold progressAt; omega
      have hw : loopWait P ph c = c.s.interval := by
        simp only [loopWait, hp, update_zero c.s hb hi0]
      have hs : loopStep P ph c = ⟨(update c.s 0).2, c.t + ((0 : Nat) + 1 : Int) * c.s.interval, c.seen + (0 : Nat)⟩ := by
        simp only [loopStep, hw, hp]
        congr 1 <;> omega
      refine ⟨0, by omega, hs, ?_⟩
      intro n
      have e : 0 + 1 + n = n + 1 := by omega
      rw [e, loopOf_succ]
      rw [hw, hs]; rfl
    · -- the poll finds exactly one certificate; the gap grows by P - i
      have hpr := produced_add P ph (c.t - c.s.interval) c.s.interval 1 hP h0 (by omega) (by omega) (by omega)
      have hga := gap_add P ph (c.t - c.s.interval) c.s.interval 1 hpr
      rw [ht] at hpr hga
      have hp : progressAt P ph c = 1 := by unfold progressAt; omega
      have hw : loopWait P ph c = c.s.interval := by
        simp only [loopWait, hp, update_one c.s hb]
      have hs : loopStep P ph c = ⟨c.s, c.t + c.s.interval, c.seen + 1⟩ := by
        simp only [loopStep, hw, hp, update_one c.s hb]
        congr 1; omega
      have hm' : (((m + 1 : Nat) : Int)) * (P - c.s.interval) = (m : Int) * (P - c.s.interval) + (P - c.s.interval) := by
        rw [Int.natCast_succ, Int.add_mul]; omega
      rw [hm'] at hm
      obtain ⟨k, hk, hit, hrun⟩ := ih ⟨c.s, c.t + c.s.interval, c.seen + 1⟩ hI hb hi
        (by simp only; omega) (by simp only; rw [show c.t + c.s.interval - c.s.interval = c.t by omega]; omega)
        (by simp only; rw [show c.t + c.s.interval - c.s.interval = c.t by omega]; omega)
      simp only at hk hrun hit
      rw [show c.t + c.s.interval - c.s.interval = c.t by omega] at hk
      have e2 : c.t + c.s.interval + ((k : Int) + 1) * c.s.interval = c.t + (((k + 1 : Nat) : Int) + 1) * c.s.interval := by
        rw [Int.natCast_succ, Int.add_mul ((k : Int) + 1) 1]; omega
      have e3 : c.seen + 1 + (k : Int) = c.seen + ((k + 1 : Nat) : Int) := by
        rw [Int.natCast_succ]; omega
      refine ⟨k + 1, ?_, ?_, ?_⟩
      · have : (((k + 1 : Nat) : Int)) * (P - c.s.interval) = (k : Int) * (P - c.s.interval) + (P - c.s.interval) := by
          rw [Int.natCast_succ, Int.add_mul]; omega
        rw [this]; omega
      · show loopIter P ph (k + 1) (loopStep P ph c) = _
        rw [hs, hit, e2, e3]
      · intro n
        have e : k + 1 + 1 + n = (k + 1 + n) + 1 := by omega
        rw [e, loopOf_succ, hw, hs, hrun n, List.replicate_succ (n := k + 1)]
        have e2 : c.t + c.s.interval + ((k : Int) + 1) * c.s.interval = c.t + (((k + 1 : Nat) : Int) + 1) * c.s.interval := by
          rw [Int.natCast_succ, Int.add_mul ((k : Int) + 1) 1]; omega
        have e3 : c.seen + 1 + (k : Int) = c.seen + ((k + 1 : Nat) : Int) := by
          rw [Int.natCast_succ]; omega
        rw [e2, e3]; rfl

/-- **Above the period the loop cannot stall**: with interval `i > P` anchored at `c.t - i`, after
`k` polls that each find one certificate (`k·(i-P) < gap ≤ P`) a poll finds `p ≥ 2`; the first `k`
waits are `i`, the next is the wait of `update s p`. -/
theorem live_dn (P ph : Int) (hP : 0 < P) (m : Nat) : ∀ c : LState, PInv c.s → c.s.backoff = 0 →
    P < c.s.interval → ph - P ≤ c.t - c.s.interval → c.seen = produced P ph (c.t - c.s.interval) →
    gap P ph (c.t - c.s.interval) ≤ m * (c.s.interval - P) →
    ∃ (k : Nat) (p : Int), (k : Int) * (c.s.interval - P) < gap P ph (c.t - c.s.interval) ∧ 2 ≤ p ∧
      loopIter P ph (k + 1) c =
        ⟨(update c.s p).2, c.t + (k : Int) * c.s.interval + (update c.s p).1, c.seen + k + p⟩ ∧
      ∀ n, loopOf P ph (k + 1 + n) c = List.replicate k c.s.interval ++
        ((update c.s p).1 :: loopOf P ph n
          ⟨(update c.s p).2, c.t + (k : Int) * c.s.interval + (update c.s p).1, c.seen + k + p⟩) := by
  induction m with
  | zero =>
    intro c hI hb hi h0 hseen hm
    have hg := gap_bounds P ph (c.t - c.s.interval) hP h0
    omega
  | succ m ih =>
    intro c hI hb hi h0 hseen hm
    have hg := gap_bounds P ph (c.t - c.s.interval) hP h0
    have ht : c.t - c.s.interval + c.s.interval = c.t := by omega
    by_cases hev : gap P ph (c.t - c.s.interval) ≤ c.s.interval - P
    · -- the poll finds at least two certificates
      have hpr := produced_add P ph (c.t - c.s.interval) (gap P ph (c.t - c.s.interval) + P) 2 hP h0
        (by omega) (by omega) (by omega)
      have hmono := produced_mono P ph (c.t - c.s.interval + (gap P ph (c.t - c.s.interval) + P)) c.t hP
        (by omega) (by omega)
      have hs : loopStep P ph c = ⟨(update c.s (progressAt P ph c)).2,
          c.t + ((0 : Nat) : Int) * c.s.interval + (update c.s (progressAt P ph c)).1,
          c.seen + ((0 : Nat) : Int) + progressAt P ph c⟩ := by
        simp only [loopStep, loopWait]
        congr 1
        · omega
        · unfold progressAt; omega
      refine ⟨0, progressAt P ph c, by omega, by unfold progressAt; omega, hs, ?_⟩
      intro n
      have e : 0 + 1 + n = n + 1 := by omega
      rw [e, loopOf_succ]
      rw [hs]; rfl
    · -- exactly one certificate; the gap shrinks by i - P
      have hpr := produced_add P ph (c.t - c.s.interval) c.s.interval 1 hP h0 (by omega) (by omega) (by omega)
      have hga := gap_add P ph (c.t - c.s.interval) c.s.interval 1 hpr
      rw [ht] at hpr hga
      have hp : progressAt P ph c = 1 := by unfold progressAt; omega
      have hw : loopWait P ph c = c.s.interval := by
        simp only [loopWait, hp, update_one c.s hb]
      have hs : loopStep P ph c = ⟨c.s, c.t + c.s.interval, c.seen + 1⟩ := by
        simp only [loopStep, hw, hp, update_one c.s hb]
        congr 1; omega
      have hm' : (((m + 1 : Nat) : Int)) * (c.s.interval - P) = (m : Int) * (c.s.interval - P) + (c.s.interval - P) := by
        rw [Int.natCast_succ, Int.add_mul]; omega
      rw [hm'] at hm
      have ht2 : c.t + c.s.interval - c.s.interval = c.t := by omega
      obtain ⟨k, p, hk, hp2, hit, hrun⟩ := ih ⟨c.s, c.t + c.s.interval, c.seen + 1⟩ hI hb hi
        (by simp only; omega) (by simp only; rw [ht2]; omega) (by simp only; rw [ht2]; omega)
      simp only at hk hrun hit
      rw [ht2] at hk
      have e2 : c.t + c.s.interval + (k : Int) * c.s.interval = c.t + ((k + 1 : Nat) : Int) * c.s.interval := by
        rw [Int.natCast_succ, Int.add_mul (k : Int) 1]; omega
      have e3 : c.seen + 1 + (k : Int) = c.seen + ((k + 1 : Nat) : Int) := by
        rw [Int.natCast_succ]; omega
      refine ⟨k + 1, p, ?_, hp2, ?_, ?_⟩
      · have : (((k + 1 : Nat) : Int)) * (c.s.interval - P) = (k : Int) * (c.s.interval - P) + (c.s.interval - P) := by
          rw [Int.natCast_succ, Int.add_mul]; omega
        rw [this]; omega
      · show loopIter P ph (k + 1) (loopStep P ph c) = _
        rw [hs, hit, e2, e3]
      · intro n
        have e : k + 1 + 1 + n = (k + 1 + n) + 1 := by omega
        rw [e, loopOf_succ, hw, hs, hrun n, List.replicate_succ (n := k)]
        have e2 : c.t + c.s.interval + (k : Int) * c.s.interval = c.t + ((k + 1 : Nat) : Int) * c.s.interval := by
          rw [Int.natCast_succ, Int.add_mul (k : Int) 1]; omega
        have e3 : c.seen + 1 + (k : Int) = c.seen + ((k + 1 : Nat) : Int) := by
          rw [Int.natCast_succ]; omega
        rw [e2, e3]; rfl

/-! ## 5. The search is not a contraction: the exceptional step -/

theorem clampE_id (mn mx x : Int) (h1 : Int.tdiv mn 100 ≤ x) (h2 : x ≤ Int.tdiv mx 2) : clampE mn mx x = x := by
  unfold clampE; split
  · omega
  · split <;> omega

theorem clampI_id (mn mx y : Int) (h1 : mn ≤ y) (h2 : y ≤ mx) : clampI mn mx y = y := by
  unfold clampI; split
  · omega
  · split <;> omega

/-- `clampE` is `max floor (min x ceiling)` -/
theorem clampE_eq (mn mx x : Int) (h0 : 0 < mn) (hmm : mn ≤ mx) :
    clampE mn mx x = max (mn / 100) (min x (mx / 2)) := by
  unfold clampE
  rw [Int.tdiv_eq_ediv_of_nonneg (by omega : 0 ≤ mn), Int.tdiv_eq_ediv_of_nonneg (by omega : 0 ≤ mx)]
  split
  · omega
  · split <;> omega

/-- the predictor after a poll without progress followed by the poll that leaves back-off -/
def zeroEvent (s : PState) : PState :=
  { s with explore := upE s, interval := clampI s.minI s.maxI (s.interval + upE s), wasInc := true }

theorem run_zero_one (s : PState) (rest : List Int) (hb : s.backoff = 0) (hi : 0 < s.interval)
    (hmx : 0 < s.maxI) :
    runPredictor s (0 :: 1 :: rest) =
      (s.interval :: (zeroEvent s).interval :: (runPredictor (zeroEvent s) rest).1,
       (runPredictor (zeroEvent s) rest).2) := by
  have h1 := update_zero s hb hi
  have hpos : 0 < (update s 0).2.backoff := by rw [h1]; simp only; omega
  have h2 := update_bo_pos (update s 0).2 1 hpos (by omega)
  have hz : ({ (update s 0).2 with backoff := 0 } : PState) = zeroEvent s := by
    rw [h1]; simp only [zeroEvent]; rw [← hb]
  simp only [runPredictor, h2, hz]
  rw [h1]
  simp only [zeroEvent]

theorem run_two (s : PState) (rest : List Int) (hb : s.backoff = 0) :
    runPredictor s (2 :: rest) =
      ((update s 2).2.interval :: (runPredictor (update s 2).2 rest).1, (runPredictor (update s 2).2 rest).2) := by
  simp only [runPredictor, update_two s hb]

theorem zeroEvent_eq (s : PState) (e' i' : Int) (h1 : upE s = e')
    (h2 : clampI s.minI s.maxI (s.interval + e') = i') :
    zeroEvent s = { s with explore := e', interval := i', wasInc := true } := by
  simp only [zeroEvent, h1, h2]

theorem twoEvent_eq (s : PState) (e' i' : Int) (hb : s.backoff = 0) (h1 : dnE s = e')
    (h2 : clampI s.minI s.maxI (s.interval - e') = i') :
    (update s 2).2 = { s with explore := e', interval := i', wasInc := false } := by
  rw [update_two s hb]; simp only [h1, h2]

/-- **Exceptional step, upwards.** Explore distance `3u+2`, interval `3u+1` below the period, last
move downwards: three polls without progress (each followed by the poll that leaves back-off) move
the interval by `u, 2u, 4u` — after the second it is still 1 short — and leave it `4u-1` ABOVE the
period with explore distance `4u`: overshoot and step both grew by about 4/3. -/
theorem grow_up (s : PState) (P u : Int) (hu : 1 ≤ u) (hf : Int.tdiv s.minI 100 ≤ u)
    (hc : 4 * u ≤ Int.tdiv s.maxI 2) (h0 : 0 < s.minI) (hlo : s.minI ≤ P - (3 * u + 1))
    (hhi : P + (4 * u - 1) ≤ s.maxI) (hb : s.backoff = 0) (hw : s.wasInc = false)
    (he : s.explore = 3 * u + 2) (hi : s.interval = P - (3 * u + 1)) :
    runPredictor s [0, 1, 0, 1, 0, 1] =
      ([P - (3 * u + 1), P - (2 * u + 1), P - (2 * u + 1), P - 1, P - 1, P + (4 * u - 1)],
       { s with explore := 4 * u, interval := P + (4 * u - 1), wasInc := true }) := by
  have hd : Int.tdiv (3 * u + 2) 3 = u := by
    rw [Int.tdiv_eq_ediv_of_nonneg (by omega)]; omega
  have hmx : 0 < s.maxI := by omega
  -- first event
  have e1 : upE s = u := by
    unfold upE; rw [hw, he]
    show clampE s.minI s.maxI (Int.tdiv (3 * u + 2) 3) = u
    rw [hd]; exact clampE_id _ _ u hf (by omega)
  have z1 : zeroEvent s = { s with explore := u, interval := P - (2 * u + 1), wasInc := true } :=
    zeroEvent_eq s _ _ e1 (by rw [hi]; rw [clampI_id _ _ _ (by omega) (by omega)]; omega)
  -- second event
  have z2 : zeroEvent (zeroEvent s) = { s with explore := 2 * u, interval := P - 1, wasInc := true } := by
    rw [z1]
    have e2 : upE { s with explore := u, interval := P - (2 * u + 1), wasInc := true } = 2 * u := by
      show clampE s.minI s.maxI (u * 2) = 2 * u
      rw [show u * 2 = 2 * u by omega]
      exact clampE_id _ _ (2 * u) (by omega) (by omega)
    exact zeroEvent_eq _ _ _ e2 (by
      show clampI s.minI s.maxI (P - (2 * u + 1) + 2 * u) = P - 1
      rw [clampI_id _ _ _ (by omega) (by omega)]; omega)
  -- third event
  have z3 : zeroEvent (zeroEvent (zeroEvent s)) =
      { s with explore := 4 * u, interval := P + (4 * u - 1), wasInc := true } := by
    rw [z2]
    have e3 : upE { s with explore := 2 * u, interval := P - 1, wasInc := true } = 4 * u := by
      show clampE s.minI s.maxI (2 * u * 2) = 4 * u
      rw [show 2 * u * 2 = 4 * u by omega]
      exact clampE_id _ _ (4 * u) (by omega) (by omega)
    exact zeroEvent_eq _ _ _ e3 (by
      show clampI s.minI s.maxI (P - 1 + 4 * u) = P + (4 * u - 1)
      rw [clampI_id _ _ _ (by omega) (by omega)]; omega)
  rw [run_zero_one s _ hb (by omega) hmx,
    run_zero_one (zeroEvent s) _ (by rw [z1]; exact hb) (by rw [z1]; show 0 < P - (2 * u + 1); omega)
      (by rw [z1]; exact hmx),
    run_zero_one (zeroEvent (zeroEvent s)) _ (by rw [z2]; exact hb) (by rw [z2]; show 0 < P - 1; omega)
      (by rw [z2]; exact hmx)]
  simp only [runPredictor, z3]
  rw [z2, z1, hi]

/-- **Exceptional step, downwards** (mirror image): three polls with progress 2 take the interval
from `3u+1` above the period to `4u-1` below it, explore distance from `3u+2` to `4u`. -/
theorem grow_dn (s : PState) (P u : Int) (hu : 1 ≤ u) (hf : Int.tdiv s.minI 100 ≤ u)
    (hc : 4 * u ≤ Int.tdiv s.maxI 2) (h0 : 0 < s.minI) (hlo : s.minI ≤ P - (4 * u - 1))
    (hhi : P + (3 * u + 1) ≤ s.maxI) (hb : s.backoff = 0) (hw : s.wasInc = true)
    (he : s.explore = 3 * u + 2) (hi : s.interval = P + (3 * u + 1)) :
    runPredictor s [2, 2, 2] =
      ([P + (2 * u + 1), P + 1, P - (4 * u - 1)],
       { s with explore := 4 * u, interval := P - (4 * u - 1), wasInc := false }) := by
  have hd : Int.tdiv (3 * u + 2) 3 = u := by
    rw [Int.tdiv_eq_ediv_of_nonneg (by omega)]; omega
  have e1 : dnE s = u := by
    unfold dnE; rw [hw, he]
    show clampE s.minI s.maxI (Int.tdiv (3 * u + 2) 3) = u
    rw [hd]; exact clampE_id _ _ u hf (by omega)
  have z1 : (update s 2).2 = { s with explore := u, interval := P + (2 * u + 1), wasInc := false } :=
    twoEvent_eq s _ _ hb e1 (by rw [hi]; rw [clampI_id _ _ _ (by omega) (by omega)]; omega)
  have hb1 : (update s 2).2.backoff = 0 := by rw [z1]; exact hb
  have z2 : (update (update s 2).2 2).2 = { s with explore := 2 * u, interval := P + 1, wasInc := false } := by
    rw [z1]
    have e2 : dnE { s with explore := u, interval := P + (2 * u + 1), wasInc := false } = 2 * u := by
      show clampE s.minI s.maxI (u * 2) = 2 * u
      rw [show u * 2 = 2 * u by omega]
      exact clampE_id _ _ (2 * u) (by omega) (by omega)
    exact twoEvent_eq _ _ _ hb e2 (by
      show clampI s.minI s.maxI (P + (2 * u + 1) - 2 * u) = P + 1
      rw [clampI_id _ _ _ (by omega) (by omega)]; omega)
  have hb2 : (update (update s 2).2 2).2.backoff = 0 := by rw [z2]; exact hb
  have z3 : (update (update (update s 2).2 2).2 2).2 =
      { s with explore := 4 * u, interval := P - (4 * u - 1), wasInc := false } := by
    rw [z2]
    have e3 : dnE { s with explore := 2 * u, interval := P + 1, wasInc := false } = 4 * u := by
      show clampE s.minI s.maxI (2 * u * 2) = 4 * u
      rw [show 2 * u * 2 = 4 * u by omega]
      exact clampE_id _ _ (4 * u) (by omega) (by omega)
    exact twoEvent_eq _ _ _ hb e3 (by
      show clampI s.minI s.maxI (P + 1 - 4 * u) = P - (4 * u - 1)
      rw [clampI_id _ _ _ (by omega) (by omega)]; omega)
  rw [run_two s _ hb, run_two _ _ hb1, run_two _ _ hb2]
  simp only [runPredictor, z3]
  rw [z2, z1]

/-! ## 6. …but every other change of direction contracts -/

theorem upE_eq (s : PState) (hI : PInv s) :
    upE s = max (s.minI / 100) (min (if s.wasInc then s.explore * 2 else s.explore / 3) (s.maxI / 2)) := by
  unfold upE
  rw [clampE_eq _ _ _ hI.1 hI.2.1]
  cases s.wasInc
  · simp only [Bool.false_eq_true, if_false]
    rw [Int.tdiv_eq_ediv_of_nonneg hI.2.2.2.2.1]
  · simp only [if_true]

theorem dnE_eq (s : PState) (hI : PInv s) :
    dnE s = max (s.minI / 100) (min (if s.wasInc then s.explore / 3 else s.explore * 2) (s.maxI / 2)) := by
  unfold dnE
  rw [clampE_eq _ _ _ hI.1 hI.2.1]
  cases s.wasInc
  · simp only [Bool.false_eq_true, if_false]
  · simp only [if_true]
    rw [Int.tdiv_eq_ediv_of_nonneg hI.2.2.2.2.1]

theorem clampI_eq (mn mx y : Int) (hmm : mn ≤ mx) : clampI mn mx y = max mn (min y mx) := by
  unfold clampI; split
  · omega
  · split <;> omega

theorem turn_arith_up (mx i e P f q c : Int) (hf0 : 0 ≤ f) (hfc : f ≤ c) (hq1 : 3 * q ≤ e)
    (hq2 : e ≤ 3 * q + 2) (hec : e ≤ c) (hi : i < P) (hP : P ≤ mx) (hov : P - i < e)
    (hne : ¬ (P - i = e - 1 ∧ e - 3 * q = 2)) :
    P ≤ min (i + max f q) mx ∨
    (min (i + max f q) mx < P ∧ P ≤ min (min (i + max f q) mx + min (2 * max f q) c) mx) := by
  have hu : max f q = f ∨ max f q = q := by omega
  have hu1 : f ≤ max f q := by omega
  have hu2 : q ≤ max f q := by omega
  generalize max f q = u at *
  omega

theorem turn_arith_dn (mn i e P f q c : Int) (hf0 : 0 ≤ f) (hfc : f ≤ c) (hq1 : 3 * q ≤ e)
    (hq2 : e ≤ 3 * q + 2) (hec : e ≤ c) (hi : P < i) (hP : mn ≤ P) (hov : i - P < e)
    (hne : ¬ (i - P = e - 1 ∧ e - 3 * q = 2)) :
    max mn (i - max f q) ≤ P ∨
    (P < max mn (i - max f q) ∧ max mn (max mn (i - max f q) - min (2 * max f q) c) ≤ P) := by
  have hu : max f q = f ∨ max f q = q := by omega
  have hu1 : f ≤ max f q := by omega
  have hu2 : q ≤ max f q := by omega
  generalize max f q = u at *
  omega

/-- **A normal turn upwards.** The last move was downwards and left the interval less than one
explore distance `e` below the period. Unless the overshoot is exactly `e-1` with `e ≡ 2 (mod 3)`
(the exceptional configuration of `grow_up`), at most two polls without progress bring the interval
back to the period or above, and the explore distance is then at most `2·max(e/3, min/100)`. -/
theorem turn_up (s : PState) (P : Int) (hI : PInv s) (hw : s.wasInc = false) (hi : s.interval < P)
    (hP : P ≤ s.maxI) (hov : P - s.interval < s.explore)
    (hne : ¬ (P - s.interval = s.explore - 1 ∧ s.explore % 3 = 2)) :
    (P ≤ (zeroEvent s).interval ∧ (zeroEvent s).explore = max (s.minI / 100) (s.explore / 3)) ∨
    ((zeroEvent s).interval < P ∧ P ≤ (zeroEvent (zeroEvent s)).interval ∧
      (zeroEvent (zeroEvent s)).explore ≤ 2 * max (s.minI / 100) (s.explore / 3)) := by
  obtain ⟨hmn, hmm, hi1, hi2, he1, he2, _⟩ := id hI
  rw [Int.tdiv_eq_ediv_of_nonneg (by omega)] at he2
  have hf0 : 0 ≤ s.minI / 100 := by omega
  have hfc : s.minI / 100 ≤ s.maxI / 2 := by omega
  have hu : upE s = max (s.minI / 100) (s.explore / 3) := by
    rw [upE_eq s hI, hw]; simp only [Bool.false_eq_true, if_false]; omega
  have hu0 : 0 ≤ upE s := (upE_bounds s hI).1
  have h1e : (zeroEvent s).explore = upE s := rfl
  have h1i : (zeroEvent s).interval = min (s.interval + upE s) s.maxI := by
    show clampI s.minI s.maxI (s.interval + upE s) = _
    rw [clampI_eq _ _ _ hmm]; omega
  have hI1 : PInv (zeroEvent s) := by
    have hE := upE_bounds s hI
    have hc := clampI_bounds s.minI s.maxI (s.interval + upE s) hmm
    exact ⟨hmn, hmm, hc.1, hc.2, hE.1, hE.2, hI.2.2.2.2.2.2⟩
  have hv : upE (zeroEvent s) = min (2 * upE s) (s.maxI / 2) := by
    rw [upE_eq _ hI1]
    show max (s.minI / 100) (min (upE s * 2) (s.maxI / 2)) = _
    omega
  have hv0 : 0 ≤ upE (zeroEvent s) := (upE_bounds _ hI1).1
  have h2e : (zeroEvent (zeroEvent s)).explore = upE (zeroEvent s) := rfl
  have h2i : (zeroEvent (zeroEvent s)).interval =
      min ((zeroEvent s).interval + upE (zeroEvent s)) s.maxI := by
    show clampI s.minI s.maxI ((zeroEvent s).interval + upE (zeroEvent s)) = _
    have := hI1.2.2.1
    have e : (zeroEvent s).minI = s.minI := rfl
    rw [clampI_eq _ _ _ hmm]; omega
  have key := turn_arith_up s.maxI s.interval s.explore P (s.minI / 100) (s.explore / 3) (s.maxI / 2)
    hf0 hfc (by omega) (by omega) he2 hi hP hov (by omega)
  rw [h1e, h2e, h2i, hv, h1i, hu]
  rcases key with key | key
  · exact Or.inl ⟨key, rfl⟩
  · refine Or.inr ⟨key.1, key.2, ?_⟩
    omega

/-- **A normal turn downwards** (mirror image, with polls of progress 2). -/
theorem turn_dn (s : PState) (P : Int) (hI : PInv s) (hb : s.backoff = 0) (hw : s.wasInc = true)
    (hi : P < s.interval) (hP : s.minI ≤ P) (hov : s.interval - P < s.explore)
    (hne : ¬ (s.interval - P = s.explore - 1 ∧ s.explore % 3 = 2)) :
    ((update s 2).2.interval ≤ P ∧ (update s 2).2.explore = max (s.minI / 100) (s.explore / 3)) ∨
    (P < (update s 2).2.interval ∧ (update (update s 2).2 2).2.interval ≤ P ∧
      (update (update s 2).2 2).2.explore ≤ 2 * max (s.minI / 100) (s.explore / 3)) := by
  obtain ⟨hmn, hmm, hi1, hi2, he1, he2, _⟩ := id hI
  rw [Int.tdiv_eq_ediv_of_nonneg (by omega)] at he2
  have hf0 : 0 ≤ s.minI / 100 := by omega
  have hfc : s.minI / 100 ≤ s.maxI / 2 := by omega
  have hu : dnE s = max (s.minI / 100) (s.explore / 3) := by
    rw [dnE_eq s hI, hw]; simp only [if_true]; omega
  have hu0 : 0 ≤ dnE s := (dnE_bounds s hI).1
  have h1 := update_two s hb
  have h1e : (update s 2).2.explore = dnE s := by rw [h1]
  have h1i : (update s 2).2.interval = max s.minI (s.interval - dnE s) := by
    rw [h1]; simp only; rw [clampI_eq _ _ _ hmm]; omega
  have h1w : (update s 2).2.wasInc = false := by rw [h1]
  have h1b : (update s 2).2.backoff = 0 := by rw [h1]; exact hb
  have h1mn : (update s 2).2.minI = s.minI := by rw [h1]
  have h1mx : (update s 2).2.maxI = s.maxI := by rw [h1]
  have hI1 : PInv (update s 2).2 := (update_pinv s 2 hI).1
  have hv : dnE (update s 2).2 = min (2 * dnE s) (s.maxI / 2) := by
    rw [dnE_eq _ hI1, h1w, h1e, h1mn, h1mx]; simp only [Bool.false_eq_true, if_false]; omega
  have hv0 : 0 ≤ dnE (update s 2).2 := (dnE_bounds _ hI1).1
  have h2 := update_two (update s 2).2 h1b
  have h2e : (update (update s 2).2 2).2.explore = dnE (update s 2).2 := by rw [h2]
  have h2i : (update (update s 2).2 2).2.interval =
      max s.minI ((update s 2).2.interval - dnE (update s 2).2) := by
    rw [h2]; simp only [h1mn, h1mx]
    have := hI1.2.2.2.1
    rw [h1mx] at this
    rw [clampI_eq _ _ _ hmm]; omega
  have key := turn_arith_dn s.minI s.interval s.explore P (s.minI / 100) (s.explore / 3) (s.maxI / 2)
    hf0 hfc (by omega) (by omega) he2 hi hP hov (by omega)
  rw [h1e, h2e, h2i, hv, h1i, hu]
  rcases key with key | key
  · exact Or.inl ⟨key, rfl⟩
  · refine Or.inr ⟨key.1, key.2, ?_⟩
    omega

/-! ## 7. The interval keeps returning to the period -/

/-- back-off mode is left after finitely many polls, with nothing but the back-off changed -/
theorem leave_backoff (P ph : Int) (hP : 0 < P) (m : Nat) : ∀ c : LState, PInv c.s → P ≤ c.s.maxI →
    Synced P ph c.s c.t c.seen → 0 < c.s.backoff → P - c.s.backoff < m →
    ∃ j : Nat, (loopIter P ph j c).s = { c.s with backoff := 0 } := by
  induction m with
  | zero =>
    intro c hI hmx hS hb hm
    obtain ⟨t0, h0, hlt, hseen, hb0, hbp, hp0, hz, h2, h3, hlt1, hge1, _⟩ := progress_truthful P ph c hP hS
    have ht := hbp hb
    have hp : 0 < progressAt P ph c := by have := hge1 (by omega); omega
    refine ⟨1, ?_⟩
    show (loopStep P ph c).s = _
    simp only [loopStep, update_bo_pos c.s _ hb hp]
  | succ m ih =>
    intro c hI hmx hS hb hm
    obtain ⟨t0, h0, hlt, hseen, hb0, hbp, hp0, hz, h2, h3, hlt1, hge1, _⟩ := progress_truthful P ph c hP hS
    have ht := hbp hb
    by_cases hp : 0 < progressAt P ph c
    · refine ⟨1, ?_⟩
      show (loopStep P ph c).s = _
      simp only [loopStep, update_bo_pos c.s _ hb hp]
    · have hp' : progressAt P ph c = 0 := by omega
      have hbP := hz hp'
      have hst := synced_step P ph c hP hI hmx hS
      have hs' : (loopStep P ph c).s = { c.s with backoff := 2 * c.s.backoff } := by
        simp only [loopStep, hp', update_bo_zero c.s 0 hb (by omega)]
        have : min (2 * c.s.backoff) (10 * c.s.maxI) = 2 * c.s.backoff := by omega
        rw [this]
      obtain ⟨j, hj⟩ := ih (loopStep P ph c) hst.2.1 (by rw [hst.2.2.2.1]; exact hmx) hst.2.2.2.2.1
        (by rw [hs']; simp only; omega) (by rw [hs']; simp only; omega)
      refine ⟨j + 1, ?_⟩
      show (loopIter P ph j (loopStep P ph c)).s = _
      rw [hj, hs']

/-- **From below the interval comes back to the period**: synchronised, outside back-off, interval
below the period ⇒ after finitely many polls the interval is at or above the period. -/
theorem cross_up (P ph : Int) (hP : 0 < P) (m : Nat) : ∀ c : LState, PInv c.s → 100 ≤ c.s.minI →
    P ≤ c.s.maxI → Synced P ph c.s c.t c.seen → c.s.backoff = 0 → c.s.interval < P →
    P - c.s.interval < m → ∃ K : Nat, P ≤ (loopIter P ph K c).s.interval := by
  induction m with
  | zero => intro c _ _ _ _ _ hi hm; omega
  | succ m ih =>
    intro c hI hmn hmx hS hb hi hm
    obtain ⟨hmn0, hmm, hi1, hi2, he1, he2, _⟩ := id hI
    obtain ⟨t0, h0, hlt, hseen, hb0, _⟩ := id hS
    have ht := hb0 hb
    have hanchor : c.t - c.s.interval = t0 := by omega
    have hg := gap_bounds P ph t0 hP h0
    have hM : c.s.interval - gap P ph (c.t - c.s.interval) <
        ((c.s.interval.toNat + 1 : Nat) : Int) * (P - c.s.interval) := by
      rw [hanchor]
      have e : ((c.s.interval.toNat + 1 : Nat) : Int) = c.s.interval + 1 := by
        rw [Int.natCast_succ, Int.toNat_of_nonneg (by omega)]
      rw [e]
      have : (c.s.interval + 1) * 1 ≤ (c.s.interval + 1) * (P - c.s.interval) :=
        Int.mul_le_mul_of_nonneg_left (by omega) (by omega)
      omega
    obtain ⟨k, _, hit, _⟩ := live_up P ph hP (c.s.interval.toNat + 1) c hI hb hi
      (by omega) (by rw [hanchor]; exact hseen) hM
    have hz := update_zero c.s hb (by omega)
    have hE1 := upE_pos c.s hI hmn
    have hgrow : c.s.interval < (update c.s 0).2.interval := by
      rw [hz]; exact clampI_gt _ _ _ _ (by omega) (by omega)
    have hb1 : 0 < (update c.s 0).2.backoff := by rw [hz]; simp only; omega
    by_cases hdone : P ≤ (update c.s 0).2.interval
    · exact ⟨k + 1, by rw [hit]; exact hdone⟩
    · have hinv1 := synced_iter P ph hP (k + 1) c hI hmx hS
      have hs1 : (loopIter P ph (k + 1) c).s = (update c.s 0).2 := by rw [hit]
      obtain ⟨j, hj⟩ := leave_backoff P ph hP P.toNat (loopIter P ph (k + 1) c) hinv1.1
        (by rw [hinv1.2.2.1]; exact hmx) hinv1.2.2.2 (by rw [hs1]; exact hb1)
        (by rw [hs1, Int.toNat_of_nonneg (by omega)]; omega)
      have hadd : loopIter P ph (k + 1 + j) c = loopIter P ph j (loopIter P ph (k + 1) c) :=
        loopIter_add P ph (k + 1) j c
      have hinv2 := synced_iter P ph hP (k + 1 + j) c hI hmx hS
      have hs2 : (loopIter P ph (k + 1 + j) c).s = { (update c.s 0).2 with backoff := 0 } := by
        rw [hadd, hj, hs1]
      obtain ⟨K, hK⟩ := ih (loopIter P ph (k + 1 + j) c) hinv2.1 (by rw [hinv2.2.1]; exact hmn)
        (by rw [hinv2.2.2.1]; exact hmx) hinv2.2.2.2 (by rw [hs2]) (by rw [hs2]; simp only; omega)
        (by rw [hs2]; simp only; omega)
      refine ⟨k + 1 + j + K, ?_⟩
      rw [loopIter_add P ph (k + 1 + j) K c]
      exact hK

/-- **From above the interval comes back to the period.** -/
theorem cross_dn (P ph : Int) (hP : 0 < P) (m : Nat) : ∀ c : LState, PInv c.s → 100 ≤ c.s.minI →
    c.s.minI ≤ P → P ≤ c.s.maxI → Synced P ph c.s c.t c.seen → c.s.backoff = 0 → P < c.s.interval →
    c.s.interval - P < m → ∃ K : Nat, (loopIter P ph K c).s.interval ≤ P := by
  induction m with
  | zero => intro c _ _ _ _ _ _ hi hm; omega
  | succ m ih =>
    intro c hI hmn hmnP hmx hS hb hi hm
    obtain ⟨t0, h0, hlt, hseen, hb0, _⟩ := id hS
    have ht := hb0 hb
    have hanchor : c.t - c.s.interval = t0 := by omega
    have hg := gap_bounds P ph t0 hP h0
    have hM : gap P ph (c.t - c.s.interval) ≤ ((P.toNat : Nat) : Int) * (c.s.interval - P) := by
      rw [hanchor, Int.toNat_of_nonneg (by omega)]
      have : P * 1 ≤ P * (c.s.interval - P) := Int.mul_le_mul_of_nonneg_left (by omega) (by omega)
      omega
    obtain ⟨k, p, _, hp, hit, _⟩ := live_dn P ph hP P.toNat c hI hb hi (by omega)
      (by rw [hanchor]; exact hseen) hM
    have hg2 := update_ge_two c.s p hI hb hp
    have hshrink := hg2.2.2.2.2 hmn (by omega)
    by_cases hdone : (update c.s p).2.interval ≤ P
    · exact ⟨k + 1, by rw [hit]; exact hdone⟩
    · have hinv1 := synced_iter P ph hP (k + 1) c hI hmx hS
      have hs1 : (loopIter P ph (k + 1) c).s = (update c.s p).2 := by rw [hit]
      obtain ⟨K, hK⟩ := ih (loopIter P ph (k + 1) c) hinv1.1 (by rw [hinv1.2.1]; exact hmn)
        (by rw [hinv1.2.1]; exact hmnP) (by rw [hinv1.2.2.1]; exact hmx) hinv1.2.2.2
        (by rw [hs1]; exact hg2.2.2.1) (by rw [hs1]; omega) (by rw [hs1]; omega)
      refine ⟨k + 1 + K, ?_⟩
      rw [loopIter_add P ph (k + 1) K c]
      exact hK

/-- **The interval straddles the period for ever**: from every synchronised state there is a later
state with interval ≥ period and a later state with interval ≤ period. -/
theorem straddle (P ph : Int) (hP : 0 < P) (c : LState) (hI : PInv c.s) (hmn : 100 ≤ c.s.minI)
    (hmnP : c.s.minI ≤ P) (hmx : P ≤ c.s.maxI) (hS : Synced P ph c.s c.t c.seen) :
    (∃ K : Nat, P ≤ (loopIter P ph K c).s.interval) ∧ (∃ K : Nat, (loopIter P ph K c).s.interval ≤ P) := by
  -- first leave back-off
  have key : ∀ c : LState, PInv c.s → 100 ≤ c.s.minI → c.s.minI ≤ P → P ≤ c.s.maxI →
      Synced P ph c.s c.t c.seen → c.s.backoff = 0 →
      (∃ K : Nat, P ≤ (loopIter P ph K c).s.interval) ∧ (∃ K : Nat, (loopIter P ph K c).s.interval ≤ P) := by
    intro c hI hmn hmnP hmx hS hb
    rcases Int.lt_trichotomy c.s.interval P with hi | hi | hi
    · exact ⟨cross_up P ph hP (P - c.s.interval).toNat.succ c hI hmn hmx hS hb hi
        (by rw [Int.natCast_succ, Int.toNat_of_nonneg (by omega)]; omega), ⟨0, by show c.s.interval ≤ P; omega⟩⟩
    · exact ⟨⟨0, by show P ≤ c.s.interval; omega⟩, ⟨0, by show c.s.interval ≤ P; omega⟩⟩
    · exact ⟨⟨0, by show P ≤ c.s.interval; omega⟩,
        cross_dn P ph hP (c.s.interval - P).toNat.succ c hI hmn hmnP hmx hS hb hi
          (by rw [Int.natCast_succ, Int.toNat_of_nonneg (by omega)]; omega)⟩
  rcases hI.2.2.2.2.2.2 with hb | hb
  · exact key c hI hmn hmnP hmx hS hb
  · have hbpos : 0 < c.s.backoff := by have := hI.1; omega
    obtain ⟨j, hj⟩ := leave_backoff P ph hP P.toNat c hI hmx hS hbpos
      (by rw [Int.toNat_of_nonneg (by omega)]; omega)
    have hinv := synced_iter P ph hP j c hI hmx hS
    have h := key (loopIter P ph j c) hinv.1 (by rw [hinv.2.1]; exact hmn) (by rw [hinv.2.1]; exact hmnP)
      (by rw [hinv.2.2.1]; exact hmx) hinv.2.2.2 (by rw [hj])
    obtain ⟨⟨K1, h1⟩, ⟨K2, h2⟩⟩ := h
    exact ⟨⟨j + K1, by rw [loopIter_add]; exact h1⟩, ⟨j + K2, by rw [loopIter_add]; exact h2⟩⟩

/-! ## 8. Near the period: absorbing unless an exceptional configuration occurs -/

/-- the exceptional configuration of `grow_up` / `grow_dn`: explore distance `e ≡ 2 (mod 3)` and the
interval exactly `e - 1` beyond the period on the side of the last move -/
def Exceptional (P : Int) (s : PState) : Prop :=
  s.explore % 3 = 2 ∧
  ((s.wasInc = false ∧ P - s.interval = s.explore - 1) ∨ (s.wasInc = true ∧ s.interval - P = s.explore - 1))

/-- "the search is near the period": just after crossing it the overshoot is less than the explore
distance `e ≤ P/2`; on the way back to it the remaining distance is at most `2e ≤ P/2`; in back-off
the back-off is at least one period (so the next poll leaves it). -/
def Near (P : Int) (s : PState) : Prop :=
  (s.backoff = 0 ∨ P ≤ s.backoff) ∧
  (s.interval < P →
    (s.wasInc = false ∧ P - s.interval < s.explore ∧ 2 * s.explore ≤ P) ∨
    (s.wasInc = true ∧ P - s.interval ≤ 2 * s.explore ∧ 4 * s.explore ≤ P)) ∧
  (P < s.interval →
    (s.wasInc = true ∧ s.interval - P < s.explore ∧ 2 * s.explore ≤ P) ∨
    (s.wasInc = false ∧ s.interval - P ≤ 2 * s.explore ∧ 4 * s.explore ≤ P))

instance (P : Int) (s : PState) : Decidable (Exceptional P s) := by unfold Exceptional; infer_instance

instance (P : Int) (s : PState) : Decidable (Near P s) := by unfold Near; infer_instance

theorem near_band (P : Int) (s : PState) (hP : 0 < P) (hN : Near P s) :
    P ≤ 2 * s.interval ∧ 2 * s.interval ≤ 3 * P := by
  obtain ⟨_, h1, h2⟩ := hN
  rcases Int.lt_trichotomy s.interval P with hi | hi | hi
  · rcases h1 hi with h | h <;> omega
  · omega
  · rcases h2 hi with h | h <;> omega

-- zero-event from A (w=false, i<P): u = max f q
theorem near_A (mn mx i e P f q c : Int) (hf0 : 0 ≤ f) (hfP : 200 * f ≤ P) (hq1 : 3 * q ≤ e)
    (hq2 : e ≤ 3 * q + 2) (hcP : P ≤ c) (hc : 2 * c ≤ mx) (hmn : mn ≤ i) (hi : i < P) (hov : P - i < e) (he : 2 * e ≤ P)
    (hne : ¬ (e - 3 * q = 2 ∧ P - i = e - 1)) :
    (max mn (min (i + max f (min q c)) mx) < P →
      P - max mn (min (i + max f (min q c)) mx) ≤ 2 * max f (min q c) ∧ 4 * max f (min q c) ≤ P) ∧
    (P < max mn (min (i + max f (min q c)) mx) →
      max mn (min (i + max f (min q c)) mx) - P < max f (min q c) ∧ 2 * max f (min q c) ≤ P) ∧
    P ≤ 2 * i := by
  have hu : max f (min q c) = f ∨ max f (min q c) = q := by omega
  have hu1 : f ≤ max f (min q c) := by omega
  have hu2 : q ≤ max f (min q c) := by omega
  generalize max f (min q c) = u at *
  omega

-- zero-event from C (w=true, i<P): u = max f (min (2e) c)
theorem near_C (mn mx i e P f c : Int) (hf0 : 0 ≤ f) (hfP : 200 * f ≤ P) (he0 : 0 ≤ e)
    (hcP : P ≤ c) (hc : 2 * c ≤ mx) (hmn : mn ≤ i) (hi : i < P) (hov : P - i ≤ 2 * e) (he : 4 * e ≤ P) :
    P ≤ max mn (min (i + max f (min (e * 2) c)) mx) ∧
    (P < max mn (min (i + max f (min (e * 2) c)) mx) →
      max mn (min (i + max f (min (e * 2) c)) mx) - P < max f (min (e * 2) c) ∧ 2 * max f (min (e * 2) c) ≤ P) ∧
    P ≤ 2 * i := by
  omega

theorem near_B (mn mx i e P f q c : Int) (hf0 : 0 ≤ f) (hfP : 200 * f ≤ P) (hq1 : 3 * q ≤ e)
    (hq2 : e ≤ 3 * q + 2) (hcP : P ≤ c) (hc : 2 * c ≤ mx) (hmnP : 2 * mn ≤ P) (hmx : i ≤ mx) (hi : P < i) (hov : i - P < e) (he : 2 * e ≤ P)
    (hne : ¬ (e - 3 * q = 2 ∧ i - P = e - 1)) :
    (P < max mn (min (i - max f (min q c)) mx) →
      max mn (min (i - max f (min q c)) mx) - P ≤ 2 * max f (min q c) ∧ 4 * max f (min q c) ≤ P) ∧
    (max mn (min (i - max f (min q c)) mx) < P →
      P - max mn (min (i - max f (min q c)) mx) < max f (min q c) ∧ 2 * max f (min q c) ≤ P) := by
  have hu : max f (min q c) = f ∨ max f (min q c) = q := by omega
  have hu1 : f ≤ max f (min q c) := by omega
  have hu2 : q ≤ max f (min q c) := by omega
  generalize max f (min q c) = u at *
  omega

theorem near_D (mn mx i e P f c : Int) (hf0 : 0 ≤ f) (hfP : 200 * f ≤ P) (he0 : 0 ≤ e)
    (hcP : P ≤ c) (hc : 2 * c ≤ mx) (hmnP : 2 * mn ≤ P) (hmx : i ≤ mx) (hi : P < i) (hov : i - P ≤ 2 * e) (he : 4 * e ≤ P) :
    max mn (min (i - max f (min (e * 2) c)) mx) ≤ P ∧
    (max mn (min (i - max f (min (e * 2) c)) mx) < P →
      P - max mn (min (i - max f (min (e * 2) c)) mx) < max f (min (e * 2) c) ∧ 2 * max f (min (e * 2) c) ≤ P) := by
  omega

/-- **One poll keeps the search near the period** unless the state is exceptional, and its wait is
within `[P/2, 3P/2]`. -/
theorem near_step (P ph : Int) (c : LState) (hP : 0 < P) (hI : PInv c.s) (hmnP : 2 * c.s.minI ≤ P)
    (hmxP : 2 * P ≤ c.s.maxI) (hS : Synced P ph c.s c.t c.seen) (hN : Near P c.s)
    (hne : ¬ Exceptional P c.s) :
    Near P (loopStep P ph c).s ∧ P ≤ 2 * loopWait P ph c ∧ 2 * loopWait P ph c ≤ 3 * P := by
  obtain ⟨t0, h0, hlt, hseen, hb0, hbp, hp0, hz, h2, h3, hlt1, hge1, hle1, hge2, hle2⟩ :=
    progress_truthful P ph c hP hS
  obtain ⟨hmn, hmm, hi1, hi2, he1, he2, hb⟩ := id hI
  have hband := near_band P c.s hP hN
  have hf0 : 0 ≤ c.s.minI / 100 := by omega
  have hfP : 200 * (c.s.minI / 100) ≤ P := by omega
  have hcP : P ≤ c.s.maxI / 2 := by omega
  have hc : 2 * (c.s.maxI / 2) ≤ c.s.maxI := by omega
  unfold loopStep loopWait
  generalize progressAt P ph c = p at *
  rcases hb with hb | hb
  · -- outside back-off
    have ht := hb0 hb
    have hp : p = 0 ∨ p = 1 ∨ p = 2 := by have := hle2 (by omega); omega
    rcases hp with hp | hp | hp
    · -- no progress: the interval is below the period
      subst hp
      have hi : c.s.interval < P := by have := hz rfl; omega
      rw [update_zero c.s hb (by omega)]
      simp only
      rw [upE_eq c.s hI, clampI_eq _ _ _ hmm]
      refine ⟨?_, hband.1, hband.2⟩
      rcases hN.2.1 hi with ⟨hw, hov, he⟩ | ⟨hw, hov, he⟩
      · have hne' : ¬ (c.s.explore - 3 * (c.s.explore / 3) = 2 ∧ P - c.s.interval = c.s.explore - 1) := by
          intro h; exact hne ⟨by omega, Or.inl ⟨hw, h.2⟩⟩
        have key := near_A c.s.minI c.s.maxI c.s.interval c.s.explore P (c.s.minI / 100) (c.s.explore / 3)
          (c.s.maxI / 2) hf0 hfP (by omega) (by omega) hcP hc hi1 hi hov he hne'
        rw [hw]; simp only [Bool.false_eq_true, if_false]
        refine ⟨Or.inr (by simp only; omega), ?_, ?_⟩
        · intro h; exact Or.inr ⟨rfl, key.1 h⟩
        · intro h; exact Or.inl ⟨rfl, key.2.1 h⟩
      · have key := near_C c.s.minI c.s.maxI c.s.interval c.s.explore P (c.s.minI / 100)
          (c.s.maxI / 2) hf0 hfP he1 hcP hc hi1 hi hov he
        rw [hw]; simp only [if_true]
        refine ⟨Or.inr (by simp only; omega), ?_, ?_⟩
        · intro h; exact absurd key.1 (Int.not_le.mpr h)
        · intro h; exact Or.inl ⟨rfl, key.2.1 h⟩
    · subst hp
      rw [update_one c.s hb]
      exact ⟨hN, hband.1, hband.2⟩
    · -- progress 2: the interval is above the period
      subst hp
      have hi : P < c.s.interval := by have := h2 (by omega); omega
      rw [update_two c.s hb]
      simp only
      rw [dnE_eq c.s hI, clampI_eq _ _ _ hmm]
      have hnear : Near P { c.s with
          explore := max (c.s.minI / 100) (min (if c.s.wasInc then c.s.explore / 3 else c.s.explore * 2) (c.s.maxI / 2)),
          interval := max c.s.minI (min (c.s.interval - max (c.s.minI / 100)
            (min (if c.s.wasInc then c.s.explore / 3 else c.s.explore * 2) (c.s.maxI / 2))) c.s.maxI),
          wasInc := false } := by
        rcases hN.2.2 hi with ⟨hw, hov, he⟩ | ⟨hw, hov, he⟩
        · have hne' : ¬ (c.s.explore - 3 * (c.s.explore / 3) = 2 ∧ c.s.interval - P = c.s.explore - 1) := by
            intro h; exact hne ⟨by omega, Or.inr ⟨hw, h.2⟩⟩
          have key := near_B c.s.minI c.s.maxI c.s.interval c.s.explore P (c.s.minI / 100) (c.s.explore / 3)
            (c.s.maxI / 2) hf0 hfP (by omega) (by omega) hcP hc hmnP hi2 hi hov he hne'
          rw [hw]; simp only [if_true]
          refine ⟨Or.inl hb, ?_, ?_⟩
          · intro h; exact Or.inl ⟨rfl, key.2 h⟩
          · intro h; exact Or.inr ⟨rfl, key.1 h⟩
        · have key := near_D c.s.minI c.s.maxI c.s.interval c.s.explore P (c.s.minI / 100)
            (c.s.maxI / 2) hf0 hfP he1 hcP hc hmnP hi2 hi hov he
          rw [hw]; simp only [Bool.false_eq_true, if_false]
          refine ⟨Or.inl hb, ?_, ?_⟩
          · intro h; exact Or.inl ⟨rfl, key.2 h⟩
          · intro h; exact absurd key.1 (Int.not_le.mpr h)
      have hb' := near_band P _ hP hnear
      exact ⟨hnear, hb'.1, hb'.2⟩
  · -- in back-off: the back-off is at least a period, so the poll finds something
    have hbpos : 0 < c.s.backoff := by omega
    have ht := hbp hbpos
    have hPb : P ≤ c.s.backoff := by rcases hN.1 with h | h <;> omega
    have hp : 0 < p := by have := hge1 (by omega); omega
    rw [update_bo_pos c.s p hbpos hp]
    exact ⟨⟨Or.inl rfl, hN.2.1, hN.2.2⟩, hband.1, hband.2⟩

/-- iterated: as long as no exceptional configuration occurs, the search stays near the period and
every wait is within `[P/2, 3P/2]` -/
theorem near_iter (P ph : Int) (hP : 0 < P) (n : Nat) : ∀ c : LState, PInv c.s → 2 * c.s.minI ≤ P →
    2 * P ≤ c.s.maxI → Synced P ph c.s c.t c.seen → Near P c.s →
    (∀ j, j < n → ¬ Exceptional P (loopIter P ph j c).s) →
    Near P (loopIter P ph n c).s ∧ ∀ w ∈ loopOf P ph n c, P ≤ 2 * w ∧ 2 * w ≤ 3 * P := by
  induction n with
  | zero => intro c _ _ _ _ hN _; exact ⟨hN, by intro w hw; simp [loopOf, closedLoop] at hw⟩
  | succ n ih =>
    intro c hI hmnP hmxP hS hN hne
    have hst := synced_step P ph c hP hI (by omega) hS
    have hns := near_step P ph c hP hI hmnP hmxP hS hN (hne 0 (by omega))
    have := ih (loopStep P ph c) hst.2.1 (by rw [hst.2.2.1]; exact hmnP) (by rw [hst.2.2.2.1]; exact hmxP)
      hst.2.2.2.2.1 hns.1 (fun j hj => hne (j + 1) (by omega))
    refine ⟨this.1, ?_⟩
    intro w hw
    rw [loopOf_succ, List.mem_cons] at hw
    rcases hw with hw | hw
    · rw [hw]; exact hns.2
    · exact this.2 w hw

end F3.Proofs.PollLoop
