import F3.Proofs.InstanceDecision
/-!
# Tallies of a unanimous run (helper lemmas for `C02.unanimous_sync_*`)

`UT`: the exact shape of a single-value tally (`prepared`, `committed`, `decision`) all of whose votes are for
the one chain `c` and come from members of `H`. `QT`: what is needed of the QUALITY tally.
-/
namespace F3.Sync
open F3.Instance

/-- the standing hypotheses on the table `t`, the common input chain `c` and the honest members `H` -/
structure Ctx (t : Table) (c : Chain) (H : List Pid) : Prop where
  cne : c ≠ []
  nodup : H.Nodup
  inTbl : ∀ x ∈ H, ∃ i, t.index? x = some i
  strong : strongQ t (sumP t H) = true

theorem strongQ_mono (t : Table) {a b : Nat} (h : a ≤ b) (ha : strongQ t a = true) : strongQ t b = true := by
  unfold strongQ Spec.Quorum.strong at *
  simp only [decide_eq_true_eq] at *
  omega

/-- the support entry of a unanimous tally -/
def uEntry (t : Table) (c : Chain) (S : List Pid) : Support :=
  { chain := c, power := sumP t S, signers := S, strong := strongQ t (sumP t S) }

structure UT (t : Table) (c : Chain) (H : List Pid) (jp : Phase) (T : Tally) : Prop where
  nodup : T.senders.Nodup
  sub : ∀ x ∈ T.senders, x ∈ H
  pow : T.sendersPower = sumP t T.senders
  sup : T.support = if T.senders = [] then [] else [uEntry t c T.senders]
  justs : ∀ e ∈ T.justs, e.1 = c ∧ e.2.round = 0 ∧ e.2.phase = jp ∧ e.2.value = c

variable {t : Table} {c : Chain} {H : List Pid} {jp : Phase}

theorem UT_empty : UT t c H jp {} := ⟨by simp, by simp, rfl, by simp, by simp⟩

theorem UT.findSupport {T : Tally} (h : UT t c H jp T) :
    T.findSupport c = if T.senders = [] then none else some (uEntry t c T.senders) := by
  unfold Tally.findSupport
  rw [h.sup]
  split
  · rfl
  · simp [uEntry]

theorem UT.hasStrongFor {T : Tally} (h : UT t c H jp T) :
    T.hasStrongFor c = (decide (T.senders ≠ []) && strongQ t (sumP t T.senders)) := by
  unfold Tally.hasStrongFor
  rw [h.findSupport]
  by_cases he : T.senders = []
  · simp [he]
  · simp [he, uEntry]

theorem UT.senders_ne_of_strong {T : Tally} (h : UT t c H jp T) (hs : T.hasStrongFor c = true) : T.senders ≠ [] := by
  rw [h.hasStrongFor] at hs
  simp only [Bool.and_eq_true, decide_eq_true_eq] at hs
  exact hs.1

/-- a new vote for `c` -/
theorem UT.receive_new {T : Tally} (h : UT t c H jp T) (x : Pid) (hx : x ∈ H) (hn : x ∉ T.senders) :
    ∃ T', T.receive t x c = some T' ∧ UT t c H jp T' ∧ T'.senders = T.senders ++ [x] ∧ T'.justs = T.justs := by
  have hc : T.senders.contains x = false := by simpa using hn
  unfold Tally.receive
  simp only [hc, Bool.false_eq_true, if_false]
  unfold Tally.receiveInner
  dsimp only
  have hfs : Tally.findSupport ({ T with senders := T.senders ++ [x], sendersPower := T.sendersPower + t.power x } : Tally) c = T.findSupport c := rfl
  rw [hfs, h.findSupport]
  by_cases he : T.senders = []
  · simp only [he, if_true, Option.getD_none, List.contains_nil, Bool.and_false, Bool.false_eq_true, if_false,
      List.nil_append]
    refine ⟨_, rfl, ⟨?_, ?_, ?_, ?_, ?_⟩, rfl, rfl⟩
    · simp
    · intro y hy; simp at hy; subst hy; exact hx
    · show T.sendersPower + t.power x = sumP t [x]
      rw [h.pow, he, sumP_single, sumP_nil]; omega
    · show upsertSupport T.support _ = _
      rw [h.sup]
      simp [he, upsertSupport, uEntry, sumP_single]
    · exact h.justs
  · have hcs : (T.senders.contains x) = false := hc
    simp only [he, if_false, Option.getD_some, uEntry, hcs, Bool.and_false, Bool.false_eq_true, if_true]
    refine ⟨_, rfl, ⟨?_, ?_, ?_, ?_, ?_⟩, rfl, rfl⟩
    · show (T.senders ++ [x]).Nodup
      rw [List.nodup_append]
      exact ⟨h.nodup, by simp, fun a ha b hb => by simp at hb; subst hb; intro e; subst e; exact hn ha⟩
    · intro y hy
      have hy' : y ∈ T.senders ++ [x] := hy
      simp only [List.mem_append, List.mem_singleton] at hy'
      rcases hy' with hy' | rfl
      · exact h.sub y hy'
      · exact hx
    · show T.sendersPower + t.power x = sumP t (T.senders ++ [x])
      rw [h.pow, sumP_append, sumP_single]
    · show upsertSupport T.support _ = _
      rw [h.sup]
      have hne : T.senders ++ [x] ≠ [] := by simp
      simp only [he, if_false, hne, upsertSupport, uEntry, beq_self_eq_true, if_true, sumP_append, sumP_single]
    · exact h.justs

theorem UT.receive_old {T : Tally} (x : Pid) (hn : x ∈ T.senders) : T.receive t x c = some T := by
  have hc : T.senders.contains x = true := by simpa using hn
  unfold Tally.receive
  rw [if_pos hc]

/-- any vote for `c` by a member of `H` -/
theorem UT.receive {T : Tally} (h : UT t c H jp T) (x : Pid) (hx : x ∈ H) :
    ∃ T', T.receive t x c = some T' ∧ UT t c H jp T' ∧ x ∈ T'.senders ∧ (∀ y ∈ T.senders, y ∈ T'.senders) ∧
      (∀ y ∈ T'.senders, y ∈ T.senders ∨ y = x) ∧ T'.justs = T.justs := by
  by_cases hn : x ∈ T.senders
  · exact ⟨T, UT.receive_old x hn, h, hn, fun _ hy => hy, fun _ hy => Or.inl hy, rfl⟩
  · obtain ⟨T', h1, h2, h3, h4⟩ := h.receive_new x hx hn
    refine ⟨T', h1, h2, by simp [h3], fun y hy => by simp [h3, hy], fun y hy => ?_, h4⟩
    rw [h3] at hy
    simpa using hy

theorem UT.receiveJust {T : Tally} (h : UT t c H jp T) (j : Just) (hj : j.round = 0 ∧ j.phase = jp ∧ j.value = c) :
    UT t c H jp (T.receiveJust c j) := by
  unfold Tally.receiveJust
  split
  · exact h
  · refine ⟨h.nodup, h.sub, h.pow, h.sup, ?_⟩
    intro e he
    have he' : e ∈ T.justs ++ [(c, j)] := he
    simp only [List.mem_append, List.mem_singleton] at he'
    rcases he' with he' | rfl
    · exact h.justs e he'
    · exact ⟨rfl, hj⟩

theorem receiveJust_senders (T : Tally) (k : Chain) (j : Just) : (T.receiveJust k j).senders = T.senders := by
  unfold Tally.receiveJust; split <;> rfl

theorem receiveJust_support (T : Tally) (k : Chain) (j : Just) : (T.receiveJust k j).support = T.support := by
  unfold Tally.receiveJust; split <;> rfl

theorem receiveJust_hasStrongFor (T : Tally) (k : Chain) (j : Just) (c : Chain) :
    (T.receiveJust k j).hasStrongFor c = T.hasStrongFor c := by
  unfold Tally.hasStrongFor Tally.findSupport
  rw [receiveJust_support]

theorem UT.fsqv {T : Tally} (h : UT t c H jp T) :
    T.findStrongQuorumValue = if T.hasStrongFor c = true then .one c else .none := by
  unfold Tally.findStrongQuorumValue
  rw [h.hasStrongFor, h.sup]
  by_cases he : T.senders = []
  · simp [he]
  · by_cases hs : strongQ t (sumP t T.senders) = true
    · simp [he, hs, uEntry]
    · simp [he, hs, uEntry]

theorem UT.getJustOf {T : Tally} (h : UT t c H jp T) (hc : c ≠ []) (ph : Phase) (j : Just)
    (hj : T.getJustOf ph c = some j) : j.round = 0 ∧ j.phase = jp ∧ j.value = c := by
  unfold Tally.getJustOf at hj
  have hce : c.isEmpty = false := by cases c <;> simp_all
  simp only [hce, Bool.false_eq_true, if_false] at hj
  split at hj
  · rename_i e he
    split at hj
    · cases hj
      exact (h.justs e (List.mem_of_find?_eq_some he)).2
    · cases hj
  · cases hj

theorem UT.couldReach {T : Tally} (h : UT t c H jp T) : T.couldReach t c false = true := by
  unfold Tally.couldReach
  rw [h.findSupport, h.pow]
  unfold Spec.Quorum.couldReach Spec.Quorum.strong
  by_cases he : T.senders = []
  · simp only [he, if_true, sumP_nil]
    simp only [Bool.false_eq_true, if_false, decide_eq_true_eq]
    omega
  · simp only [he, if_false, uEntry]
    simp only [Bool.false_eq_true, if_false, decide_eq_true_eq]
    omega

/-- everybody in `H` has voted ⇒ strong quorum -/
theorem UT.strong_of_all {T : Tally} (h : UT t c H jp T) (hctx : Ctx t c H) (hne : H ≠ [])
    (hall : ∀ x ∈ H, x ∈ T.senders) : T.hasStrongFor c = true := by
  rw [h.hasStrongFor]
  have h1 : T.senders ≠ [] := by
    intro he
    cases H with
    | nil => exact hne rfl
    | cons a as => have := hall a List.mem_cons_self; rw [he] at this; cases this
  have h2 : sumP t H ≤ sumP t T.senders := sumP_le_of_subset t H T.senders hctx.nodup hall
  simp [h1, strongQ_mono t h2 hctx.strong]

/-! ### `FindStrongQuorumFor` succeeds on a strong unanimous tally -/

theorem mapM_some {α β} (f : α → Option β) (l : List α) (h : ∀ x ∈ l, ∃ i, f x = some i) :
    ∃ r, l.mapM f = some r ∧ r.length = l.length := by
  induction l with
  | nil => exact ⟨[], by simp, rfl⟩
  | cons a as ih =>
    obtain ⟨i, hi⟩ := h a List.mem_cons_self
    obtain ⟨r, hr, hl⟩ := ih (fun x hx => h x (List.mem_cons_of_mem _ hx))
    exact ⟨i :: r, by simp [List.mapM_cons, hi, hr], by simp [hl]⟩

theorem sumPow_cons (t : Table) (i : Nat) (l : List Nat) : sumPow t (i :: l) = t.powerAt i + sumPow t l := by
  rw [show i :: l = [i] ++ l from rfl, sumPow_append, sumPow_single]

theorem sumPow_mapM (t : Table) (l : List Pid) (r : List Nat) (h : l.mapM t.index? = some r) :
    sumPow t r = sumP t l := by
  induction l generalizing r with
  | nil => simp at h; subst h; rfl
  | cons a as ih =>
    simp only [List.mapM_cons] at h
    cases hfa : t.index? a with
    | none => simp [hfa] at h
    | some b =>
      cases hm : as.mapM t.index? with
      | none => simp [hfa, hm] at h
      | some bs =>
        simp [hfa, hm] at h
        subst h
        obtain ⟨_, _, hp⟩ := index_spec t a b hfa
        rw [sumPow_cons, sumP_cons, ih bs hm, hp]

theorem sumPow_insertSorted (t : Table) (x : Nat) (l : List Nat) :
    sumPow t (insertSorted x l) = t.powerAt x + sumPow t l := by
  induction l with
  | nil => simp [insertSorted, sumPow]
  | cons a as ih =>
    unfold insertSorted
    split
    · rw [sumPow_cons]
    · rw [sumPow_cons, ih, sumPow_cons]; omega

theorem sumPow_sortNat (t : Table) (l : List Nat) : sumPow t (sortNat l) = sumPow t l := by
  induction l with
  | nil => rfl
  | cons a as ih =>
    show sumPow t (insertSorted a (sortNat as)) = _
    rw [sumPow_insertSorted, ih, sumPow_cons]

theorem takeUntilStrong_some (t : Table) (l : List Nat) (acc : Nat) (taken : List Nat) (hne : l ≠ [])
    (hs : strongQ t (acc + sumPow t l) = true) : ∃ sg, takeUntilStrong t l acc taken = some sg := by
  induction l generalizing acc taken with
  | nil => exact absurd rfl hne
  | cons i is ih =>
    unfold takeUntilStrong
    dsimp only
    split
    · exact ⟨_, rfl⟩
    · rename_i hns
      have hisne : is ≠ [] := by
        intro he
        subst he
        rw [sumPow_single] at hs
        exact hns hs
      apply ih _ _ hisne
      rw [sumPow_cons] at hs
      rw [Nat.add_assoc]; exact hs

theorem UT.fsqf {T : Tally} (h : UT t c H jp T) (hctx : Ctx t c H) (hs : T.hasStrongFor c = true) :
    ∃ sg, T.findStrongQuorumFor t c = .found sg := by
  have hne := h.senders_ne_of_strong hs
  rw [h.hasStrongFor] at hs
  simp only [Bool.and_eq_true, decide_eq_true_eq] at hs
  unfold Tally.findStrongQuorumFor
  rw [h.findSupport]
  simp only [hne, if_false, uEntry, hs.2, Bool.not_true, Bool.false_eq_true]
  obtain ⟨r, hr, hlen⟩ := mapM_some t.index? T.senders (fun x hx => hctx.inTbl x (h.sub x hx))
  rw [hr]
  dsimp only
  have hrne : sortNat r ≠ [] := by
    intro he
    cases hS : T.senders with
    | nil => exact hne hS
    | cons a as =>
      rw [hS] at hlen
      cases r with
      | nil => simp at hlen
      | cons b bs =>
        have : b ∈ sortNat (b :: bs) := (sortNat_mem _ _).2 List.mem_cons_self
        rw [he] at this; cases this
  have hst : strongQ t (0 + sumPow t (sortNat r)) = true := by
    rw [Nat.zero_add, sumPow_sortNat, sumPow_mapM t _ _ hr]; exact hs.2
  obtain ⟨sg, hsg⟩ := takeUntilStrong_some t (sortNat r) 0 [] hrne hst
  rw [hsg]
  exact ⟨sg, rfl⟩

/-! ### the QUALITY tally -/

/-- power of the candidate entry `receiveInner` starts from -/
def candPower (Q : Tally) (c : Chain) : Nat :=
  ((Q.findSupport c).getD { chain := c, power := 0, signers := [], strong := false }).power

structure QT (t : Table) (c : Chain) (Q : Tally) : Prop where
  pow : Q.sendersPower = sumP t Q.senders
  cand : 2 ≤ c.length → candPower Q c = sumP t Q.senders
  strongOk : ∀ e, Q.findSupport c = some e → e.strong = strongQ t e.power
  present : 2 ≤ c.length → Q.senders ≠ [] → (Q.findSupport c).isSome = true

theorem QT_empty : QT t c {} := ⟨rfl, fun _ => rfl, by simp [Tally.findSupport], by simp⟩

theorem qualityPrefixes_snoc (c : Chain) (h : 2 ≤ c.length) :
    ∃ ini, qualityPrefixes c = ini ++ [c] ∧ ∀ p ∈ ini, p ≠ c := by
  unfold qualityPrefixes
  obtain ⟨k, hk⟩ : ∃ k, c.length - 1 = k + 1 := ⟨c.length - 2, by omega⟩
  rw [hk, List.range_succ, List.map_append]
  refine ⟨(List.range k).map (fun j => prefixTo c (j + 1)), ?_, ?_⟩
  · congr 1
    simp only [List.map_cons, List.map_nil, prefixTo]
    rw [List.take_of_length_le (by omega)]
  · intro p hp
    simp only [List.mem_map, List.mem_range] at hp
    obtain ⟨j, hj, rfl⟩ := hp
    intro he
    have := congrArg List.length he
    simp only [prefixTo, List.length_take] at this
    omega

/-- the entry a QUALITY vote (no signature) of power `pw` writes for prefix `p` -/
def bump (t : Table) (Q : Tally) (p : Chain) (pw : Nat) : Support :=
  { chain := p, power := candPower Q p + pw,
    signers := ((Q.findSupport p).getD { chain := p, power := 0, signers := [], strong := false }).signers,
    strong := strongQ t (candPower Q p + pw) }

theorem receiveInner_false_some (t : Table) (Q : Tally) (x : Pid) (p : Chain) (pw : Nat) :
    Q.receiveInner t x p pw false = some { Q with support := upsertSupport Q.support (bump t Q p pw) } := by
  unfold Tally.receiveInner bump candPower
  simp

/-- folding over prefixes different from `c` leaves the entry of `c` and the senders alone -/
theorem fold_other (t : Table) (x : Pid) (pw : Nat) (c : Chain) (l : List Chain) (hl : ∀ p ∈ l, p ≠ c) (Q : Tally) :
    (l.foldl (fun acc p => (acc.receiveInner t x p pw false).getD acc) Q).findSupport c = Q.findSupport c ∧
    (l.foldl (fun acc p => (acc.receiveInner t x p pw false).getD acc) Q).senders = Q.senders ∧
    (l.foldl (fun acc p => (acc.receiveInner t x p pw false).getD acc) Q).sendersPower = Q.sendersPower := by
  induction l generalizing Q with
  | nil => exact ⟨rfl, rfl, rfl⟩
  | cons a as ih =>
    simp only [List.foldl_cons]
    obtain ⟨h1, h2, h3⟩ := ih (fun p hp => hl p (List.mem_cons_of_mem _ hp)) ((Q.receiveInner t x a pw false).getD Q)
    rw [h1, h2, h3, receiveInner_false_some]
    simp only [Option.getD_some]
    refine ⟨?_, trivial, trivial⟩
    unfold Tally.findSupport
    exact upsert_find_other _ _ c (fun he => hl a List.mem_cons_self (show a = c from he.symm))

theorem QT.receive {Q : Tally} (h : QT t c Q) (x : Pid) :
    QT t c (Q.receiveEachPrefix t x c) ∧ x ∈ (Q.receiveEachPrefix t x c).senders ∧
    (∀ y ∈ Q.senders, y ∈ (Q.receiveEachPrefix t x c).senders) := by
  unfold Tally.receiveEachPrefix
  by_cases hin : x ∈ Q.senders
  · have : Q.senders.contains x = true := by simpa using hin
    simp only [this, if_true]
    exact ⟨h, hin, fun _ hy => hy⟩
  · have hcf : Q.senders.contains x = false := by simpa using hin
    simp only [hcf, Bool.false_eq_true, if_false]
    by_cases hlen : 2 ≤ c.length
    · obtain ⟨ini, hini, hne⟩ := qualityPrefixes_snoc c hlen
      rw [hini, List.foldl_append]
      simp only [List.foldl_cons, List.foldl_nil]
      generalize hQ1 : (ini.foldl (fun (acc : Tally) p => (acc.receiveInner t x p (t.power x) false).getD acc)
        ({ Q with senders := Q.senders ++ [x], sendersPower := Q.sendersPower + t.power x } : Tally)) = Q1
      obtain ⟨f1, f2, f3⟩ := fold_other t x (t.power x) c ini hne
        ({ Q with senders := Q.senders ++ [x], sendersPower := Q.sendersPower + t.power x } : Tally)
      rw [hQ1] at f1 f2 f3
      have f1' : Q1.findSupport c = Q.findSupport c := f1
      rw [receiveInner_false_some]
      simp only [Option.getD_some]
      have hfs : ∀ (e : Support), e.chain = c → Tally.findSupport { Q1 with support := upsertSupport Q1.support e } c = some e := by
        intro e he
        unfold Tally.findSupport
        have := upsert_find_same Q1.support e
        rw [he] at this
        exact this
      have hcp : candPower Q1 c = sumP t Q.senders := by
        unfold candPower
        rw [f1']; exact h.cand hlen
      refine ⟨⟨?_, ?_, ?_, ?_⟩, ?_, ?_⟩
      · show Q1.sendersPower = sumP t Q1.senders
        rw [f2, f3, sumP_append, sumP_single, h.pow]
      · intro _
        unfold candPower
        rw [hfs (bump t Q1 c (t.power x)) rfl]
        simp only [Option.getD_some]
        show candPower Q1 c + t.power x = sumP t Q1.senders
        rw [f2, sumP_append, sumP_single, hcp]
      · intro e he
        rw [hfs (bump t Q1 c (t.power x)) rfl] at he
        cases he
        rfl
      · intro _ _
        rw [hfs (bump t Q1 c (t.power x)) rfl]; rfl
      · show x ∈ Q1.senders
        rw [f2]; simp
      · intro y hy
        show y ∈ Q1.senders
        rw [f2]; simp [hy]
    · have hq : qualityPrefixes c = [] := by
        unfold qualityPrefixes
        have : c.length - 1 = 0 := by omega
        rw [this]; rfl
      rw [hq]
      simp only [List.foldl_nil]
      refine ⟨⟨?_, fun h2 => absurd h2 hlen, ?_, fun h2 => absurd h2 hlen⟩, by simp, fun y hy => by simp [hy]⟩
      · show Q.sendersPower + t.power x = sumP t (Q.senders ++ [x])
        rw [sumP_append, sumP_single, h.pow]
      · intro e he
        exact h.strongOk e he

theorem QT.hasStrongFor {Q : Tally} (h : QT t c Q) (hlen : 2 ≤ c.length) (hne : Q.senders ≠ []) :
    Q.hasStrongFor c = strongQ t (sumP t Q.senders) := by
  unfold Tally.hasStrongFor
  have hs := h.present hlen hne
  have hc := h.cand hlen
  unfold candPower at hc
  cases hf : Q.findSupport c with
  | none => rw [hf] at hs; cases hs
  | some e =>
    rw [hf] at hc
    simp only [Option.getD_some] at hc
    show e.strong = _
    rw [h.strongOk e hf, hc]

theorem QT.strong_of_all {Q : Tally} (h : QT t c Q) (hctx : Ctx t c H) (hlen : 2 ≤ c.length) (hne : H ≠ [])
    (hall : ∀ x ∈ H, x ∈ Q.senders) : Q.hasStrongFor c = true := by
  have h1 : Q.senders ≠ [] := by
    intro he
    cases H with
    | nil => exact hne rfl
    | cons a as => have := hall a List.mem_cons_self; rw [he] at this; cases this
  rw [h.hasStrongFor hlen h1]
  exact strongQ_mono t (sumP_le_of_subset t H Q.senders hctx.nodup hall) hctx.strong

/-- for a base-only chain the longest prefix with quorum is the chain itself whatever was tallied -/
theorem lpq_single (Q : Tally) (c : Chain) (hc : c ≠ []) (hlen : ¬ 2 ≤ c.length) : Q.longestPrefixWithQuorum c = c := by
  have h1 : c.length = 1 := by
    cases c with
    | nil => exact absurd rfl hc
    | cons a as => simp at hlen ⊢; omega
  unfold Tally.longestPrefixWithQuorum
  split
  · rfl
  · have hb : baseChain c = c := by
      unfold baseChain
      exact List.take_of_length_le (by omega)
    have hp : prefixTo c 0 = c := by
      unfold prefixTo
      exact List.take_of_length_le (by omega)
    rw [h1]
    simp only [List.range_one, List.reverse_cons, List.reverse_nil, List.nil_append, List.map_cons, List.map_nil, hp, hb]
    rw [List.find?_cons]
    cases Q.hasStrongFor c <;> rfl

theorem lpq_strong (Q : Tally) (c : Chain) (h : Q.hasStrongFor c = true) : Q.longestPrefixWithQuorum c = c := by
  unfold Tally.longestPrefixWithQuorum
  simp [h]

end F3.Sync
