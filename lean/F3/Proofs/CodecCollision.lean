import F3.Spec.HashInputs
import F3.Proofs.CodecMerkle
import F3.Proofs.CodecPayload
/-! Collision-extraction (C14b): equal merkle roots / chain keys / signed bytes of different inputs
*exhibit* a hash collision, a zero-digest preimage or a digest of the wrong length among the finitely
many strings hashed by the two computations. No hypothesis on the hash functions. -/
namespace F3.HashInputs
open F3.Codec F3.Merkle F3.Payload

variable (H : Bytes → Bytes)

/-! ### the failure events -/

/-- the three ways the merkle hash can fail on the two lists of hashed strings -/
def Break (X Y : List Bytes) : Prop :=
  Collision H X Y ∨ ZeroPreimage H (X ++ Y) ∨ WrongLen H (X ++ Y)

theorem Collision.mono {H : Bytes → Bytes} {X Y X' Y' : List Bytes} (hX : ∀ a ∈ X, a ∈ X') (hY : ∀ a ∈ Y, a ∈ Y') :
    Collision H X Y → Collision H X' Y' := by
  rintro ⟨a, ha, b, hb, h⟩
  exact ⟨a, hX a ha, b, hY b hb, h⟩

theorem ZeroPreimage.mono {H : Bytes → Bytes} {X X' : List Bytes} (hX : ∀ a ∈ X, a ∈ X') :
    ZeroPreimage H X → ZeroPreimage H X' := by
  rintro ⟨a, ha, h⟩
  exact ⟨a, hX a ha, h⟩

theorem WrongLen.mono {H : Bytes → Bytes} {X X' : List Bytes} (hX : ∀ a ∈ X, a ∈ X') :
    WrongLen H X → WrongLen H X' := by
  rintro ⟨a, ha, h⟩
  exact ⟨a, hX a ha, h⟩

theorem append_sub {X Y X' Y' : List Bytes} (hX : ∀ a ∈ X, a ∈ X') (hY : ∀ a ∈ Y, a ∈ Y') :
    ∀ a ∈ X ++ Y, a ∈ X' ++ Y' := by
  intro a ha
  rcases List.mem_append.mp ha with h | h
  · exact List.mem_append_left _ (hX a h)
  · exact List.mem_append_right _ (hY a h)

theorem Break.mono {H : Bytes → Bytes} {X Y X' Y' : List Bytes} (hX : ∀ a ∈ X, a ∈ X') (hY : ∀ a ∈ Y, a ∈ Y') :
    Break H X Y → Break H X' Y' := by
  rintro (h | h | h)
  · exact Or.inl (h.mono hX hY)
  · exact Or.inr (Or.inl (h.mono (append_sub hX hY)))
  · exact Or.inr (Or.inr (h.mono (append_sub hX hY)))

theorem Break.swap {H : Bytes → Bytes} {X Y : List Bytes} : Break H X Y → Break H Y X := by
  have hsub : ∀ a ∈ X ++ Y, a ∈ Y ++ X := by
    intro a ha
    rcases List.mem_append.mp ha with h | h
    · exact List.mem_append_right _ h
    · exact List.mem_append_left _ h
  rintro (⟨a, ha, b, hb, hne, he⟩ | h | h)
  · exact Or.inl ⟨b, hb, a, ha, fun e => hne e.symm, he.symm⟩
  · exact Or.inr (Or.inl (h.mono hsub))
  · exact Or.inr (Or.inr (h.mono hsub))

/-! ### `findCollision` is a complete and sound search -/

theorem findCollision_sound {X Y : List Bytes} {a b : Bytes} (h : findCollision H X Y = some (a, b)) :
    a ∈ X ∧ b ∈ Y ∧ a ≠ b ∧ H a = H b := by
  unfold findCollision at h
  obtain ⟨a', ha', h2⟩ := List.exists_of_findSome?_eq_some h
  rw [Option.map_eq_some_iff] at h2
  obtain ⟨b', hb', hp⟩ := h2
  have hab : a' = a ∧ b' = b := by
    have := Prod.mk.inj hp
    exact ⟨this.1, this.2⟩
  obtain ⟨rfl, rfl⟩ := hab
  have hmem := List.mem_of_find?_eq_some hb'
  have hprop := List.find?_some hb'
  simp only [Bool.and_eq_true, decide_eq_true_eq] at hprop
  exact ⟨ha', hmem, hprop.1, hprop.2⟩

theorem findCollision_complete {X Y : List Bytes} (h : Collision H X Y) :
    ∃ a b, findCollision H X Y = some (a, b) := by
  obtain ⟨a, ha, b, hb, hne, he⟩ := h
  have hsome : (findCollision H X Y).isSome = true := by
    unfold findCollision
    rw [List.findSome?_isSome_iff]
    refine ⟨a, ha, ?_⟩
    rw [Option.isSome_map, List.find?_isSome]
    exact ⟨b, hb, by simp [hne, he]⟩
  obtain ⟨p, hp⟩ := Option.isSome_iff_exists.mp hsome
  exact ⟨p.1, p.2, hp⟩

/-- From the existence of a collision between the two lists to the pair the search returns. -/
theorem findCollision_of_collision {X Y : List Bytes} (h : Collision H X Y) :
    ∃ a b, findCollision H X Y = some (a, b) ∧ a ∈ X ∧ b ∈ Y ∧ a ≠ b ∧ H a = H b := by
  obtain ⟨a, b, hab⟩ := findCollision_complete H h
  exact ⟨a, b, hab, findCollision_sound H hab⟩

/-! ### the hashed strings of `buildTree` -/

theorem hashedAt_nil (d : Nat) : hashedAt H d [] = [] := by
  cases d <;> rfl

theorem hashedAt_succ (d : Nat) (l : List Bytes) (hl : l ≠ []) :
    hashedAt H (d + 1) l =
      (0 :: (buildTree H d (l.take (min (2 ^ d) l.length)) ++ buildTree H d (l.drop (min (2 ^ d) l.length)))) ::
        (hashedAt H d (l.take (min (2 ^ d) l.length)) ++ hashedAt H d (l.drop (min (2 ^ d) l.length))) := by
  cases l with
  | nil => exact absurd rfl hl
  | cons a l => rw [hashedAt]

/-- the digest of a non-empty subtree is the hash of the first string of its list -/
theorem buildTree_eq_hash (d : Nat) (vs : List Bytes) (hne : vs ≠ []) (hfit : vs.length ≤ 2 ^ d) :
    ∃ x ∈ hashedAt H d vs, buildTree H d vs = H x := by
  cases d with
  | zero =>
    match vs, hne, hfit with
    | [v], _, _ => exact ⟨1 :: v, by simp [hashedAt], rfl⟩
    | _ :: _ :: _, _, h => simp at h
  | succ d =>
    rw [buildTree_succ H d vs hne, hashedAt_succ H d vs hne]
    exact ⟨_, List.mem_cons_self, rfl⟩

/-- a non-empty subtree with the zero digest exhibits a preimage of the zero digest -/
theorem zero_of_buildTree_zero (d : Nat) (vs : List Bytes) (hne : vs ≠ []) (hfit : vs.length ≤ 2 ^ d)
    (h : buildTree H d vs = zeroDigest) : ZeroPreimage H (hashedAt H d vs) := by
  obtain ⟨x, hx, he⟩ := buildTree_eq_hash H d vs hne hfit
  exact ⟨x, hx, he ▸ h⟩

/-- the length of the digest of a non-empty subtree -/
theorem buildTree_length_or (d : Nat) (vs : List Bytes) (hne : vs ≠ []) (hfit : vs.length ≤ 2 ^ d) :
    (buildTree H d vs).length = 32 ∨ WrongLen H (hashedAt H d vs) := by
  obtain ⟨x, hx, he⟩ := buildTree_eq_hash H d vs hne hfit
  by_cases hl : (H x).length = 32
  · exact Or.inl (he ▸ hl)
  · exact Or.inr ⟨x, hx, hl⟩

/-- a leaf digest equal to a node digest is a collision (`1 :: _ ≠ 0 :: _`) -/
theorem leaf_vs_node (v : Bytes) (d : Nat) (ws : List Bytes) (hw : ws ≠ [])
    (h : buildTree H 0 [v] = buildTree H (d + 1) ws) :
    Collision H (hashedAt H 0 [v]) (hashedAt H (d + 1) ws) := by
  rw [buildTree_succ H d ws hw] at h
  rw [hashedAt_succ H d ws hw]
  refine ⟨1 :: v, by simp [hashedAt], _, List.mem_cons_self, ?_, h⟩
  intro e
  have := List.head_eq_of_cons_eq e
  omega

private theorem split_take_ne {vs : List Bytes} {d : Nat} (hv : vs ≠ []) : vs.take (min (2 ^ d) vs.length) ≠ [] := by
  have hvl : 0 < vs.length := List.length_pos_iff.mpr hv
  have hp : 0 < 2 ^ d := Nat.two_pow_pos _
  intro hc
  have h' : (vs.take (min (2 ^ d) vs.length)).length = 0 := by rw [hc]; rfl
  rw [List.length_take] at h'; omega

/-- Core of the reduction: two non-empty value lists, each fitting the depth it is built at, with the
same subtree digest are equal, or the hash fails on the strings hashed for them. -/
theorem buildTree_extract : ∀ (d1 d2 : Nat) (vs ws : List Bytes), vs ≠ [] → ws ≠ [] →
    vs.length ≤ 2 ^ d1 → ws.length ≤ 2 ^ d2 → buildTree H d1 vs = buildTree H d2 ws →
    vs = ws ∨ Break H (hashedAt H d1 vs) (hashedAt H d2 ws) := by
  intro d1
  induction d1 with
  | zero =>
    intro d2 vs ws hv hw fv fw h
    match vs, hv, fv with
    | [v], _, _ =>
      cases d2 with
      | zero =>
        match ws, hw, fw with
        | [w], _, _ =>
          by_cases e : v = w
          · exact Or.inl (by rw [e])
          · refine Or.inr (Or.inl ⟨1 :: v, by simp [hashedAt], 1 :: w, by simp [hashedAt], ?_, h⟩)
            intro e'
            exact e (List.tail_eq_of_cons_eq e')
        | _ :: _ :: _, _, fw => simp at fw
      | succ d2 => exact Or.inr (Or.inl (leaf_vs_node H v d2 ws hw h))
    | _ :: _ :: _, _, fv => simp at fv
  | succ d1 ih =>
    intro d2 vs ws hv hw fv fw h
    cases d2 with
    | zero =>
      match ws, hw, fw with
      | [w], _, _ => exact Or.inr (Break.swap (Or.inl (leaf_vs_node H w d1 vs hv h.symm)))
      | _ :: _ :: _, _, fw => simp at fw
    | succ d2 =>
      rw [buildTree_succ H d1 vs hv, buildTree_succ H d2 ws hw] at h
      rw [hashedAt_succ H d1 vs hv, hashedAt_succ H d2 ws hw]
      -- names for the four parts
      generalize hL1 : vs.take (min (2 ^ d1) vs.length) = L1 at h ⊢
      generalize hR1 : vs.drop (min (2 ^ d1) vs.length) = R1 at h ⊢
      generalize hL2 : ws.take (min (2 ^ d2) ws.length) = L2 at h ⊢
      generalize hR2 : ws.drop (min (2 ^ d2) ws.length) = R2 at h ⊢
      have p1 : 2 ^ (d1 + 1) = 2 * 2 ^ d1 := by ring
      have p2 : 2 ^ (d2 + 1) = 2 * 2 ^ d2 := by ring
      have L1_ne : L1 ≠ [] := hL1 ▸ split_take_ne hv
      have L2_ne : L2 ≠ [] := hL2 ▸ split_take_ne hw
      have L1_fit : L1.length ≤ 2 ^ d1 := by rw [← hL1, List.length_take]; omega
      have L2_fit : L2.length ≤ 2 ^ d2 := by rw [← hL2, List.length_take]; omega
      have R1_fit : R1.length ≤ 2 ^ d1 := by rw [← hR1, List.length_drop]; omega
      have R2_fit : R2.length ≤ 2 ^ d2 := by rw [← hR2, List.length_drop]; omega
      have hvs : vs = L1 ++ R1 := by rw [← hL1, ← hR1]; exact (List.take_append_drop _ _).symm
      have hws : ws = L2 ++ R2 := by rw [← hL2, ← hR2]; exact (List.take_append_drop _ _).symm
      -- where the hashed strings of the parts sit in the whole
      have sL1 : ∀ a ∈ hashedAt H d1 L1, a ∈ (0 :: (buildTree H d1 L1 ++ buildTree H d1 R1)) ::
          (hashedAt H d1 L1 ++ hashedAt H d1 R1) :=
        fun a ha => List.mem_cons_of_mem _ (List.mem_append_left _ ha)
      have sR1 : ∀ a ∈ hashedAt H d1 R1, a ∈ (0 :: (buildTree H d1 L1 ++ buildTree H d1 R1)) ::
          (hashedAt H d1 L1 ++ hashedAt H d1 R1) :=
        fun a ha => List.mem_cons_of_mem _ (List.mem_append_right _ ha)
      have sL2 : ∀ a ∈ hashedAt H d2 L2, a ∈ (0 :: (buildTree H d2 L2 ++ buildTree H d2 R2)) ::
          (hashedAt H d2 L2 ++ hashedAt H d2 R2) :=
        fun a ha => List.mem_cons_of_mem _ (List.mem_append_left _ ha)
      have sR2 : ∀ a ∈ hashedAt H d2 R2, a ∈ (0 :: (buildTree H d2 L2 ++ buildTree H d2 R2)) ::
          (hashedAt H d2 L2 ++ hashedAt H d2 R2) :=
        fun a ha => List.mem_cons_of_mem _ (List.mem_append_right _ ha)
      unfold nodeHash at h
      by_cases hcat : (0 :: (buildTree H d1 L1 ++ buildTree H d1 R1)) = 0 :: (buildTree H d2 L2 ++ buildTree H d2 R2)
      swap
      · exact Or.inr (Or.inl ⟨_, List.mem_cons_self, _, List.mem_cons_self, hcat, h⟩)
      have hcat' : buildTree H d1 L1 ++ buildTree H d1 R1 = buildTree H d2 L2 ++ buildTree H d2 R2 :=
        List.tail_eq_of_cons_eq hcat
      -- digest lengths of the two left parts
      rcases buildTree_length_or H d1 L1 L1_ne L1_fit with len1 | bad
      swap
      · exact Or.inr (Or.inr (Or.inr ((bad.mono sL1).mono (fun a ha => List.mem_append_left _ ha))))
      rcases buildTree_length_or H d2 L2 L2_ne L2_fit with len2 | bad
      swap
      · exact Or.inr (Or.inr (Or.inr ((bad.mono sL2).mono (fun a ha => List.mem_append_right _ ha))))
      obtain ⟨hL, hR⟩ := List.append_inj hcat' (by rw [len1, len2])
      -- left parts
      rcases ih d2 L1 L2 L1_ne L2_ne L1_fit L2_fit hL with eL | bad
      swap
      · exact Or.inr (bad.mono sL1 sL2)
      -- right parts
      by_cases e1 : R1 = []
      · by_cases e2 : R2 = []
        · exact Or.inl (by rw [hvs, hws, eL, e1, e2])
        · rw [e1, buildTree_nil] at hR
          have z := zero_of_buildTree_zero H d2 R2 e2 R2_fit hR.symm
          exact Or.inr (Or.inr (Or.inl ((z.mono sR2).mono (fun a ha => List.mem_append_right _ ha))))
      · by_cases e2 : R2 = []
        · rw [e2, buildTree_nil] at hR
          have z := zero_of_buildTree_zero H d1 R1 e1 R1_fit hR
          exact Or.inr (Or.inr (Or.inl ((z.mono sR1).mono (fun a ha => List.mem_append_left _ ha))))
        · rcases ih d2 R1 R2 e1 e2 R1_fit R2_fit hR with eR | bad
          · exact Or.inl (by rw [hvs, hws, eL, eR])
          · exact Or.inr (bad.mono sR1 sR2)

/-- the root of a non-empty list is the hash of one of its hashed strings -/
theorem tree_eq_hash (vs : List Bytes) (hne : vs ≠ []) : ∃ x ∈ hashed H vs, tree H vs = H x :=
  buildTree_eq_hash H _ vs hne (depth_fits _ (List.length_pos_iff.mpr hne))

theorem hashed_nil : hashed H [] = [] := hashedAt_nil H _

/-- **Merkle reduction.** Equal roots: equal lists, or the hash fails on the strings the two
computations hashed. -/
theorem tree_extract (vs ws : List Bytes) (h : tree H vs = tree H ws) :
    vs = ws ∨ Break H (hashed H vs) (hashed H ws) := by
  by_cases hv : vs = []
  · by_cases hw : ws = []
    · exact Or.inl (by rw [hv, hw])
    · rw [hv, tree_nil] at h
      obtain ⟨x, hx, he⟩ := tree_eq_hash H ws hw
      exact Or.inr (Or.inr (Or.inl ⟨x, List.mem_append_right _ hx, he ▸ h.symm⟩))
  · by_cases hw : ws = []
    · rw [hw, tree_nil] at h
      obtain ⟨x, hx, he⟩ := tree_eq_hash H vs hv
      exact Or.inr (Or.inr (Or.inl ⟨x, List.mem_append_left _ hx, he ▸ h⟩))
    · exact buildTree_extract H _ _ vs ws hv hw (depth_fits _ (List.length_pos_iff.mpr hv))
        (depth_fits _ (List.length_pos_iff.mpr hw)) h

theorem tree_length_or (vs : List Bytes) : (tree H vs).length = 32 ∨ WrongLen H (hashed H vs) := by
  by_cases hne : vs = []
  · subst hne; rw [tree_nil]; exact Or.inl rfl
  · exact buildTree_length_or H _ vs hne (depth_fits _ (List.length_pos_iff.mpr hne))

/-- an injective hash has no collision -/
theorem not_collision_of_inj {H : Bytes → Bytes} (hinj : ∀ a b, H a = H b → a = b) (X Y : List Bytes) :
    ¬ Collision H X Y := by
  rintro ⟨a, _, b, _, hne, he⟩
  exact hne (hinj a b he)

theorem not_break_of_hashOK {H : Bytes → Bytes} (hH : HashOK H) (X Y : List Bytes) : ¬ Break H X Y := by
  rintro (h | ⟨a, _, h⟩ | ⟨a, _, h⟩)
  · exact not_collision_of_inj hH.inj X Y h
  · exact hH.nonzero a h
  · exact h (hH.len a)

/-! ### tipsets: the CID hash -/

theorem tsCid_eq (B : Bytes → Bytes) (k : Bytes) : tsCid B k = cidPrefix ++ B (tsKeyPreimage k) := rfl

theorem tsKeyPreimage_inj {a b : Bytes} (h : tsKeyPreimage a = tsKeyPreimage b) : a = b :=
  hdr_append_inj h

/-- `TipSet.MarshalForSigning` determines epoch and commitments outright, and key and power-table CID
unless blake2b fails on the two tipset keys. -/
theorem tipset_extract (B : Bytes → Bytes) {s t : TipSet} (hs : s.WF) (ht : t.WF)
    (h : tipsetBytes B s = tipsetBytes B t) :
    s.epoch = t.epoch ∧ s.commitments = t.commitments ∧
    (s = t ∨ (tsKeyPreimage s.key ≠ tsKeyPreimage t.key ∧ B (tsKeyPreimage s.key) = B (tsKeyPreimage t.key)) ∨
      (B (tsKeyPreimage s.key)).length ≠ 32 ∨ (B (tsKeyPreimage t.key)).length ≠ 32) := by
  unfold tipsetBytes at h
  obtain ⟨h1, h⟩ := List.append_inj h (by simp [be64i_length])
  obtain ⟨h2, h⟩ := List.append_inj h (by rw [hs.commitments, ht.commitments])
  have he := be64i_inj hs.epoch ht.epoch h1
  refine ⟨he, h2, ?_⟩
  by_cases l1 : (B (tsKeyPreimage s.key)).length = 32
  swap
  · exact Or.inr (Or.inr (Or.inl l1))
  by_cases l2 : (B (tsKeyPreimage t.key)).length = 32
  swap
  · exact Or.inr (Or.inr (Or.inr l2))
  rw [tsCid_eq, tsCid_eq] at h
  obtain ⟨h3, h4⟩ := List.append_inj h (by simp [l1, l2])
  have hB := List.append_cancel_left h3
  by_cases hk : tsKeyPreimage s.key = tsKeyPreimage t.key
  · left
    have hkey := tsKeyPreimage_inj hk
    cases s; cases t; simp_all
  · exact Or.inr (Or.inl ⟨hk, hB⟩)

/-- what can go wrong with the CID hash on the tipset keys of two chains -/
def BreakB (B : Bytes → Bytes) (c d : List TipSet) : Prop :=
  Collision B (keyHashedB c) (keyHashedB d) ∨ WrongLen B (keyHashedB c ++ keyHashedB d)

theorem BreakB.cons {B : Bytes → Bytes} {c d : List TipSet} (a b : TipSet) :
    BreakB B c d → BreakB B (a :: c) (b :: d) := by
  have hc : ∀ x ∈ keyHashedB c, x ∈ keyHashedB (a :: c) := fun x hx => List.mem_cons_of_mem _ hx
  have hd : ∀ x ∈ keyHashedB d, x ∈ keyHashedB (b :: d) := fun x hx => List.mem_cons_of_mem _ hx
  rintro (h | h)
  · exact Or.inl (h.mono hc hd)
  · exact Or.inr (h.mono (append_sub hc hd))

theorem map_tipsetBytes_extract (B : Bytes → Bytes) :
    ∀ (c d : List TipSet), (∀ t ∈ c, t.WF) → (∀ t ∈ d, t.WF) →
      c.map (tipsetBytes B) = d.map (tipsetBytes B) → c = d ∨ BreakB B c d := by
  intro c
  induction c with
  | nil => intro d _ _ h; cases d with
    | nil => exact Or.inl rfl
    | cons _ _ => simp at h
  | cons a c ih =>
    intro d hc hd h
    cases d with
    | nil => simp at h
    | cons b d =>
      simp only [List.map_cons, List.cons.injEq] at h
      obtain ⟨_, _, hab⟩ := tipset_extract B (hc a (by simp)) (hd b (by simp)) h.1
      have ma : tsKeyPreimage a.key ∈ keyHashedB (a :: c) := by simp [keyHashedB]
      have mb : tsKeyPreimage b.key ∈ keyHashedB (b :: d) := by simp [keyHashedB]
      rcases hab with hab | ⟨hne, he⟩ | hl | hl
      · rcases ih d (fun t ht => hc t (by simp [ht])) (fun t ht => hd t (by simp [ht])) h.2 with e | bad
        · exact Or.inl (by rw [hab, e])
        · exact Or.inr (bad.cons a b)
      · exact Or.inr (Or.inl ⟨_, ma, _, mb, hne, he⟩)
      · exact Or.inr (Or.inr ⟨_, List.mem_append_left _ ma, hl⟩)
      · exact Or.inr (Or.inr ⟨_, List.mem_append_right _ mb, hl⟩)

/-! ### chain keys -/

theorem chainKey_eq_tree (H B : Bytes → Bytes) (x : List TipSet) :
    chainKey H B x = tree H (x.map (tipsetBytes B)) := by
  cases x with
  | nil => simp [chainKey, tree_nil]
  | cons _ _ => rfl

/-- **Chain-key reduction.** Equal keys: equal chains, or one of the two hashes fails on the strings
hashed by the two key computations. -/
theorem chainKey_extract (H B : Bytes → Bytes) (c d : List TipSet)
    (hc : ∀ t ∈ c, t.WF) (hd : ∀ t ∈ d, t.WF) (h : chainKey H B c = chainKey H B d) :
    c = d ∨ HashBreak H B c d := by
  rw [chainKey_eq_tree, chainKey_eq_tree] at h
  rcases tree_extract H _ _ h with e | bad | bad | bad
  · rcases map_tipsetBytes_extract B c d hc hd e with e' | bad | bad
    · exact Or.inl e'
    · exact Or.inr (Or.inr (Or.inr (Or.inl bad)))
    · exact Or.inr (Or.inr (Or.inr (Or.inr (Or.inr bad))))
  · exact Or.inr (Or.inl bad)
  · exact Or.inr (Or.inr (Or.inl bad))
  · exact Or.inr (Or.inr (Or.inr (Or.inr (Or.inl bad))))

theorem chainKey_length_or (H B : Bytes → Bytes) (c : List TipSet) :
    (chainKey H B c).length = 32 ∨ WrongLen H (keyHashedH H B c) := by
  rw [chainKey_eq_tree]
  exact tree_length_or H _

/-- idealised hashes never break -/
theorem not_hashBreak_of_ok {H B : Bytes → Bytes} (hH : HashOK H) (hB : CidHashOK B) (c d : List TipSet) :
    ¬ HashBreak H B c d := by
  rintro (h | ⟨a, _, h⟩ | h | ⟨a, _, h⟩ | ⟨a, _, h⟩)
  · exact not_collision_of_inj hH.inj _ _ h
  · exact hH.nonzero a h
  · exact not_collision_of_inj hB.inj _ _ h
  · exact h (hH.len a)
  · exact h (hB.len a)

/-! ### the signed payload -/

/-- Phase, round, instance and commitments are read off the signed bytes at fixed offsets after the
network name: no hash is involved. -/
theorem sigTail_scalars {p q : SigInput} (hp : p.phase < 256) (hq : q.phase < 256)
    (hpr : p.round < 2 ^ 64) (hqr : q.round < 2 ^ 64) (hpi : p.inst < 2 ^ 64) (hqi : q.inst < 2 ^ 64)
    (hpc : p.commitments.length = 32) (hqc : q.commitments.length = 32) (h : sigTail p = sigTail q) :
    p.phase = q.phase ∧ p.round = q.round ∧ p.inst = q.inst ∧ p.commitments = q.commitments ∧
      p.key ++ p.ptCid = q.key ++ q.ptCid := by
  unfold sigTail at h
  simp only [List.append_assoc] at h
  obtain ⟨h1, h⟩ := List.append_inj h (by simp)
  obtain ⟨h2, h⟩ := List.append_inj h (by simp [be64_length])
  obtain ⟨h3, h⟩ := List.append_inj h (by simp [be64_length])
  obtain ⟨h4, h⟩ := List.append_inj h (by rw [hpc, hqc])
  have hph : p.phase % 256 = q.phase % 256 := by simpa using h1
  rw [Nat.mod_eq_of_lt hp, Nat.mod_eq_of_lt hq] at hph
  exact ⟨hph, be64_inj hpr hqr h2, be64_inj hpi hqi h3, h4, h⟩

theorem payload_scalars_fixed_net {p q : SigInput} (hp : p.phase < 256) (hq : q.phase < 256)
    (hpr : p.round < 2 ^ 64) (hqr : q.round < 2 ^ 64) (hpi : p.inst < 2 ^ 64) (hqi : q.inst < 2 ^ 64)
    (hpc : p.commitments.length = 32) (hqc : q.commitments.length = 32) (hnet : p.net = q.net)
    (h : payloadBytes p = payloadBytes q) :
    p.phase = q.phase ∧ p.round = q.round ∧ p.inst = q.inst ∧ p.commitments = q.commitments ∧
      p.key ++ p.ptCid = q.key ++ q.ptCid := by
  rw [payloadBytes_eq, payloadBytes_eq, hnet] at h
  have h' := List.append_cancel_left (List.append_cancel_left (List.append_cancel_left h))
  exact sigTail_scalars hp hq hpr hqr hpi hqi hpc hqc h'

/-- **Signed-payload reduction.** Equal signed bytes (with the side condition under which the payload
layout is injective at all): every named component is equal, or one of the hashes fails on the strings
hashed for the two chain keys. -/
theorem signed_extract (H B : Bytes → Bytes)
    (net1 net2 : Bytes) (ph1 ph2 r1 r2 i1 i2 : Nat) (cm1 cm2 pt1 pt2 : Bytes) (c1 c2 : List TipSet)
    (hph : ph1 < 256 ∧ ph2 < 256) (hr : r1 < 2 ^ 64 ∧ r2 < 2 ^ 64) (hi : i1 < 2 ^ 64 ∧ i2 < 2 ^ 64)
    (hcm : cm1.length = 32 ∧ cm2.length = 32) (hc1 : ∀ t ∈ c1, t.WF) (hc2 : ∀ t ∈ c2, t.WF)
    (hside : net1 = net2 ∨ pt1.length = pt2.length)
    (h : signedBytes H B net1 ph1 r1 i1 cm1 pt1 c1 = signedBytes H B net2 ph2 r2 i2 cm2 pt2 c2) :
    (net1, ph1, r1, i1, cm1, pt1, c1) = (net2, ph2, r2, i2, cm2, pt2, c2) ∨ HashBreak H B c1 c2 := by
  rcases chainKey_length_or H B c1 with l1 | bad
  swap
  · exact Or.inr (Or.inr (Or.inr (Or.inr (Or.inl (bad.mono (fun a ha => List.mem_append_left _ ha))))))
  rcases chainKey_length_or H B c2 with l2 | bad
  swap
  · exact Or.inr (Or.inr (Or.inr (Or.inr (Or.inl (bad.mono (fun a ha => List.mem_append_right _ ha))))))
  unfold signedBytes at h
  have w1 : SigInput.WF ⟨net1, ph1, r1, i1, cm1, chainKey H B c1, pt1⟩ := ⟨hph.1, hr.1, hi.1, hcm.1, l1⟩
  have w2 : SigInput.WF ⟨net2, ph2, r2, i2, cm2, chainKey H B c2, pt2⟩ := ⟨hph.2, hr.2, hi.2, hcm.2, l2⟩
  have heq : (⟨net1, ph1, r1, i1, cm1, chainKey H B c1, pt1⟩ : SigInput) =
      ⟨net2, ph2, r2, i2, cm2, chainKey H B c2, pt2⟩ := by
    rcases hside with hn | hl
    · exact payload_inj_fixed_net w1 w2 hn h
    · exact payload_inj_cidlen w1 w2 hl h
  simp only [SigInput.mk.injEq] at heq
  obtain ⟨e1, e2, e3, e4, e5, e6, e7⟩ := heq
  rcases chainKey_extract H B c1 c2 hc1 hc2 e6 with ec | bad
  · exact Or.inl (by rw [e1, e2, e3, e4, e5, e7, ec])
  · exact Or.inr bad

/-- The same for a fixed network name and a hash with 32-byte output (true of the executable hashes and
of the Go `Digest` type): all scalars and the supplemental data are equal outright, the chains are
equal unless a hash fails on the strings hashed for the two chain keys. -/
theorem signed_extract_fixed_net (H B : Bytes → Bytes) (hlen : ∀ a, (H a).length = 32)
    (net : Bytes) (ph1 ph2 r1 r2 i1 i2 : Nat) (cm1 cm2 pt1 pt2 : Bytes) (c1 c2 : List TipSet)
    (hph : ph1 < 256 ∧ ph2 < 256) (hr : r1 < 2 ^ 64 ∧ r2 < 2 ^ 64) (hi : i1 < 2 ^ 64 ∧ i2 < 2 ^ 64)
    (hcm : cm1.length = 32 ∧ cm2.length = 32) (hc1 : ∀ t ∈ c1, t.WF) (hc2 : ∀ t ∈ c2, t.WF)
    (h : signedBytes H B net ph1 r1 i1 cm1 pt1 c1 = signedBytes H B net ph2 r2 i2 cm2 pt2 c2) :
    ph1 = ph2 ∧ r1 = r2 ∧ i1 = i2 ∧ cm1 = cm2 ∧ pt1 = pt2 ∧ (c1 = c2 ∨ HashBreak H B c1 c2) := by
  unfold signedBytes at h
  obtain ⟨e1, e2, e3, e4, e5⟩ := payload_scalars_fixed_net
    (p := ⟨net, ph1, r1, i1, cm1, chainKey H B c1, pt1⟩) (q := ⟨net, ph2, r2, i2, cm2, chainKey H B c2, pt2⟩)
    hph.1 hph.2 hr.1 hr.2 hi.1 hi.2 hcm.1 hcm.2 rfl h
  have l1 : (chainKey H B c1).length = 32 := by
    rcases chainKey_length_or H B c1 with l | ⟨a, _, bad⟩
    · exact l
    · exact absurd (hlen a) bad
  have l2 : (chainKey H B c2).length = 32 := by
    rcases chainKey_length_or H B c2 with l | ⟨a, _, bad⟩
    · exact l
    · exact absurd (hlen a) bad
  obtain ⟨ek, ept⟩ := List.append_inj e5 (by rw [l1, l2])
  exact ⟨e1, e2, e3, e4, ept, chainKey_extract H B c1 c2 hc1 hc2 ek⟩

end F3.HashInputs
