import F3.Gen.SkelChainX
/-!
# Expected statement skeletons (SkelChainX)

Hand-pinned expectations for the REGENERATED skeletons of `F3.Gen.SkelChainX` (tools/go2lean/skel.go): the pre-order
list of the statements of a Go function as `<depth>:<kind>`. The expression-level tie theorems pin what single
conditions say; these pin that nothing was added around them (an extra early return, a cap, a dropped branch). A
structural change of the function — harmful or not — breaks the `rfl` below and with it the obligation of every
property importing this file; the check then searches for a failing input as for any broken obligation.
-/
namespace F3.SkelTie.SkelChainX
open F3.Gen.SkelChainX

/-- the structure the model of `GetChainByInstance` was written against -/
def skelGetChainByInstanceExpected : List String :=
  ["0:if", "1:return2", "0:assign:=", "0:if", "1:return2", "0:assign:=", "0:if", "1:call:wanted.Add",
   "1:call:metrics.chains.Add", "1:call:discovered.Remove", "1:assign:=", "1:if",
   "2:call:p.listener.NotifyChainDiscovered", "2:call:metrics.notifications.Add", "1:return2",
   "0:call:wanted.ContainsOrAdd", "0:call:metrics.chains.Add", "0:return2"]

theorem skelGetChainByInstance_expected : skelGetChainByInstance = skelGetChainByInstanceExpected := rfl

/-- the structure the model of `GetChainsWantedAt` was written against -/
def skelGetChainsWantedAtExpected : List String :=
  ["0:call:p.mu.Lock", "0:defer", "0:assign:=", "0:if", "1:assign=", "1:assign=",
   "1:call:metrics.instances.Add", "0:return1"]

theorem skelGetChainsWantedAt_expected : skelGetChainsWantedAt = skelGetChainsWantedAtExpected := rfl

/-- the structure the model of `CacheAsDiscovered` was written against -/
def skelCacheAsDiscoveredExpected : List String :=
  ["0:assign:=", "0:assign:=", "0:assign:=", "0:for", "1:assign:=", "1:assign:=", "1:if", "2:assign:=", "2:if",
   "3:call:metrics.chains.Add", "1:elseif", "2:call:wanted.Add", "2:call:metrics.chains.Add"]

theorem skelCacheAsDiscovered_expected : skelCacheAsDiscovered = skelCacheAsDiscoveredExpected := rfl

end F3.SkelTie.SkelChainX
