import F3.Proofs.NoFailure
/-!
# Failure-freedom, instance level: the receive handlers, `postReceive`, `receiveOne`
-/
namespace F3.Instance

theorem andThen_nf {r : R} {f : State → R} (h1 : hasFailure r.2 = false) (h2 : NFOK (f r.1)) : NFOK (andThen r f) := by
  unfold andThen
  rw [if_neg (by simp [h1])]
  exact ⟨by simp [h1, h2.1], h2.2⟩

/-- updating one round's state: the tallies stay disjoint and the converge state keeps its chains -/
theorem NFx.setRound {s : State} (h : NFx s) (r : Nat) (rs : RoundState)
    (hd : TallyDisj rs.prepared ∧ TallyDisj rs.committed)
    (hcv : ∀ v, (∃ cv ∈ (s.getRound r).converged.values, cv.chain = v) → ∃ cv ∈ rs.converged.values, cv.chain = v) :
    NFx (s.setRound r rs) := by
  refine ⟨h.notInit, setRound_disj h.disjR r rs hd, h.disjD, h.baseCand, h.propCand, fun hc => ?_⟩
  rw [getRound_setRound]
  show ∃ cv ∈ (if s.round = r then rs else s.getRound s.round).converged.values, cv.chain = s.proposal
  split
  · rename_i e
    apply hcv
    rw [← e]; exact h.convSelf hc
  · exact h.convSelf hc

/-! ### QUALITY, CONVERGE -/

theorem recvQuality_nf {s : State} (now : Int) (m : Msg) (h : NFI s) : NFOK (s.recvQuality now m) := by
  unfold State.recvQuality
  dsimp only
  have h1g : GInv WT 0 ({ s with quality := s.quality.receiveEachPrefix s.tbl m.sender m.value } : State) :=
    h.1.of_fields rfl rfl rfl rfl rfl rfl rfl rfl
  have h1x : NFx ({ s with quality := s.quality.receiveEachPrefix s.tbl m.sender m.value } : State) :=
    h.2.of_fields rfl rfl rfl rfl (fun x hx => hx) rfl rfl
  split
  · refine ⟨rfl, ?_⟩
    unfold State.updateCandidatesFromQuality
    exact h1x.of_fields (by simp) (by simp) (by simp) (by simp) (fun x hx => addCandidatePrefixes_sub _ _ _ hx)
      (by simp) (by simp)
  · exact tryCurrentPhase_nf now ⟨h1g, h1x⟩

theorem recvConverge_nf {s : State} (now : Int) (m : Msg) (j : Just) (h : NFI s)
    (hne : m.value ≠ []) (hj : ConvJust WT s.tbl m.round m.value j) : NFOK (s.recvConverge now m j) := by
  unfold State.recvConverge
  dsimp only
  have hro := getRound_ok h.1.core.rounds m.round
  have h1g : GInv WT 0 (s.setRound m.round { (s.getRound m.round) with
      converged := (s.getRound m.round).converged.receive m.sender m.value m.rank j }) :=
    h.1.of_rounds rfl rfl (setRound_ok h.1.core.rounds m.round _ ⟨hro.conv.receive _ _ _ _ hne hj, hro.prep, hro.comm⟩)
      rfl rfl rfl rfl rfl
  have h1x : NFx (s.setRound m.round { (s.getRound m.round) with
      converged := (s.getRound m.round).converged.receive m.sender m.value m.rank j }) :=
    h.2.setRound _ _ (getRound_disj h.2.disjR m.round) (fun v hv => Conv.receive_keeps _ _ _ _ _ v hv)
  exact tryCurrentPhase_nf now ⟨h1g, h1x⟩

/-! ### PREPARE -/

theorem recvPrepare_nf {s : State} (now : Int) (m : Msg) (h : NFI s) (hm : MsgValid WT s.tbl m)
    (hph : m.phase = .prepare) : NFOK (s.recvPrepare now m) := by
  have hro := getRound_ok h.1.core.rounds m.round
  obtain ⟨q0, hq0⟩ := receive_some s.tbl (s.getRound m.round).prepared m.sender m.value hro.prep.wf
  unfold State.recvPrepare
  dsimp only
  split
  · rename_i hn; rw [hq0] at hn; cases hn
  · rename_i q hq
    obtain ⟨hw, hpos, hrest⟩ := hm
    rw [hph] at hrest hw
    simp only at hrest
    obtain ⟨hr0, hrpos⟩ := hrest
    have hv : VoteEv WT s.tbl m.round .prepare m.sender m.value := by
      refine ⟨hw, fun _ => ?_⟩
      by_cases h0 : m.round = 0
      · exact Or.inl h0
      · obtain ⟨j, _, hcj⟩ := hrpos (by omega)
        exact Or.inr hcj.jl
    have hj : ∀ j, m.just = some j → ConvJust WT s.tbl m.round m.value j := by
      intro j hmj
      by_cases h0 : m.round = 0
      · rw [hr0 h0] at hmj; cases hmj
      · obtain ⟨j', hj', hcj⟩ := hrpos (by omega)
        rw [hmj] at hj'; cases hj'; exact hcj
    have h1g : GInv WT 0 (s.setRound m.round { (s.getRound m.round) with prepared := storePrepareJust q m }) :=
      h.1.of_rounds rfl rfl (setRound_ok h.1.core.rounds m.round _
        ⟨hro.conv, hro.prep.recvPrepare m hpos hv hj hq, hro.comm⟩) rfl rfl rfl rfl rfl
    have hdj := getRound_disj h.2.disjR m.round
    have h1x : NFx (s.setRound m.round { (s.getRound m.round) with prepared := storePrepareJust q m }) :=
      h.2.setRound _ _
        ⟨(receive_disj s.tbl _ q _ _ hro.prep.wf hdj.1 hq).of_support (storePrepareJust_support q m), hdj.2⟩
        (fun v hv => hv)
    exact tryCurrentPhase_nf now ⟨h1g, h1x⟩

/-! ### COMMIT -/

theorem recvCommit_nf {s : State} (now : Int) (m : Msg) (h : NFI s) (hm : MsgValid WT s.tbl m)
    (hph : m.phase = .commit) (hnt : s.phase ≠ .terminated) : NFOK (s.recvCommit now m) := by
  have hro := getRound_ok h.1.core.rounds m.round
  obtain ⟨q0, hq0⟩ := receive_some s.tbl (s.getRound m.round).committed m.sender m.value hro.comm.wf
  obtain ⟨hw, hpos, hrest⟩ := hm
  rw [hph] at hrest hw
  simp only at hrest
  unfold State.recvCommit
  dsimp only
  split
  · rename_i hn; rw [hq0] at hn; cases hn
  · rename_i q hq
    split
    · rename_i hnj
      exfalso
      simp only [Bool.and_eq_true, Bool.not_eq_true', List.isEmpty_eq_false_iff, Option.isNone_iff_eq_none] at hnj
      obtain ⟨j, hj, _⟩ := hrest.2 hnj.1
      rw [hnj.2] at hj; cases hj
    · have hv : VoteEv WT s.tbl m.round .commit m.sender m.value := ⟨hw, fun hc => Phase.noConfusion hc⟩
      have h1g : GInv WT 0 (s.setRound m.round { (s.getRound m.round) with committed := storeCommitJust q m }) :=
        h.1.of_rounds rfl rfl (setRound_ok h.1.core.rounds m.round _
          ⟨hro.conv, hro.prep, hro.comm.recvCommit m hpos hv hrest.2 hq⟩) rfl rfl rfl rfl rfl
      have hdj := getRound_disj h.2.disjR m.round
      have h1x : NFx (s.setRound m.round { (s.getRound m.round) with committed := storeCommitJust q m }) :=
        h.2.setRound _ _
          ⟨hdj.1, (receive_disj s.tbl _ q _ _ hro.comm.wf hdj.2 hq).of_support (storeCommitJust_support q m)⟩
          (fun v hv => hv)
      have h1 : NFI (s.setRound m.round { (s.getRound m.round) with committed := storeCommitJust q m }) := ⟨h1g, h1x⟩
      split
      · rename_i hd
        have hnd : s.phase ≠ .decide := by simpa using hd
        have h5 : s.phase.toNat < 5 := by cases hp : s.phase <;> simp_all [Phase.toNat]
        have hc := tryCommit_nf now m.round h1
        have hci : NFI ((s.setRound m.round { (s.getRound m.round) with committed := storeCommitJust q m }).tryCommit now m.round).1 :=
          NFI.of_gok (tryCommit_gok now m.round h1g (by simpa using h5)) hc
        split
        · exact andThen_nf hc.1 (tryCurrentPhase_nf now hci)
        · exact hc
      · exact tryCurrentPhase_nf now h1

/-! ### DECIDE -/

theorem recvDecide_nf {s : State} (now : Int) (m : Msg) (h : NFI s) (hm : MsgValid WT s.tbl m)
    (hph : m.phase = .decide) (hnt : s.phase ≠ .terminated) : NFOK (s.recvDecide now m) := by
  obtain ⟨q0, hq0⟩ := receive_some s.tbl s.decision m.sender m.value h.1.core.decision
  obtain ⟨hw, hpos, hrest⟩ := hm
  rw [hph] at hrest hw
  simp only at hrest
  obtain ⟨hr0, hne, j, hmj, hok, hjp, hjv⟩ := hrest
  unfold State.recvDecide
  dsimp only
  split
  · rename_i hn; rw [hq0] at hn; cases hn
  · rename_i q hq
    have h1g : GInv WT 0 ({ s with decision := q } : State) :=
      ⟨⟨h.1.core.rounds, receive_wf s.tbl s.decision q _ _ h.1.core.decision hpos trivial hq, h.1.core.cands,
        h.1.core.inputNe, h.1.core.propNe, h.1.core.totalPos⟩, h.1.ownPrep, h.1.early⟩
    have h1x : NFx ({ s with decision := q } : State) :=
      ⟨h.2.notInit, h.2.disjR, receive_disj s.tbl _ q _ _ h.1.core.decision h.2.disjD hq, h.2.baseCand, h.2.propCand,
        h.2.convSelf⟩
    split
    · rename_i hd
      have hnd : s.phase ≠ .decide := by simpa using hd
      have h5 : s.phase.toNat < 5 := by cases hp : s.phase <;> simp_all [Phase.toNat]
      have hev : ∃ r', QL WT s.tbl r' .commit m.value := by
        have := hok.ql; rw [hjp, hjv] at this; exact ⟨j.round, this⟩
      have hsk : NFOK (({ s with decision := q } : State).skipToDecide m.value m.just) := by
        unfold State.skipToDecide State.resetReb
        refine ⟨by simp, ?_⟩
        exact h1x.to_phase (by simp) (by simp) rfl rfl rfl (fun x hx => hx) (fun hm => by simp [Phase.mid] at hm)
      have hski : NFI (({ s with decision := q } : State).skipToDecide m.value m.just).1 :=
        NFI.of_gok (skipToDecide_gok (s := ({ s with decision := q } : State)) m h1g (by simpa using h5) hne hev) hsk
      exact andThen_nf hsk.1 (tryCurrentPhase_nf now hski)
    · exact tryCurrentPhase_nf now ⟨h1g, h1x⟩

/-! ### postReceive (skip to a future round) -/

theorem skipState_sub (s : State) (round : Nat) (p : ConvVal) (x : Chain) (hx : x ∈ s.candidates) :
    x ∈ (skipState s round p).candidates := by
  unfold skipState
  dsimp only
  split
  · simp only
    apply addCandidate_sub
    split
    · exact addCandidatePrefixes_sub _ _ _ hx
    · exact hx
  · split
    · exact addCandidatePrefixes_sub _ _ _ hx
    · exact hx

/-- whenever `postReceive` enters CONVERGE the proposal is a candidate -/
theorem skipState_prop_cand {s : State} (round : Nat) (p : ConvVal) (h : NFI s)
    (hnd : s.phase ≠ .decide) (hnt : s.phase ≠ .terminated) :
    (skipState s round p).proposal ∈ (skipState s round p).candidates := by
  obtain ⟨hql, hqne⟩ := longest_prefix_facts s.quality s.input h.1.core.inputNe
  unfold skipState
  dsimp only
  split
  · simp only
    exact addCandidate_self _ _
  · split
    · simp only [addCandidatePrefixes_proposal]
      exact quality_prop_cand s _ _ hql hqne h.2.baseCand
    · rename_i hnq
      have hnq' : s.phase ≠ .quality := by simpa using hnq
      have hni := h.2.notInit
      apply h.2.propCand
      cases hp : s.phase <;> simp_all [Phase.mid]

theorem postReceive_nf {s : State} (now : Int) (round : Nat) (h : NFI s) (hnt : s.phase ≠ .terminated) :
    NFOK (s.postReceive now round) := by
  rcases postReceive_eq s now round with heq | ⟨p, hp, hpne, hlt, hnd, heq⟩
  · rw [heq]; exact NFOK.nil h.2
  · rw [heq]
    obtain ⟨ht, hi, hr, hd, hrd, hph⟩ := skipState_fields s round p
    obtain ⟨hmem, _⟩ := findBest_mem _ _ _ hp
    obtain ⟨_, hcj⟩ := (getRound_ok h.1.core.rounds round).conv p hmem
    apply beginConverge_nf
    · rw [hrd]; exact hcj.2.1
    · rw [hr]; exact h.2.disjR
    · rw [hd]; exact h.2.disjD
    · rw [hi]; exact skipState_sub s round p _ h.2.baseCand
    · exact skipState_prop_cand round p h hnd hnt

/-! ### receiveOne -/

/-- one validated message: either it is refused at the door (state untouched) or it is processed without any
failure and the invariant is kept -/
theorem receiveOne_nf {s : State} (now : Int) (m : Msg) (h : NFI s) (hm : MsgValid WT s.tbl m) :
    (∃ k, s.recvPre m = .reject k ∧ (s.receiveOne now m).1 = (s, [.err k])) ∨
    (hasFailure (s.receiveOne now m).1.2 = false ∧ NFI (s.receiveOne now m).1.1) := by
  have hg := receiveOne_gok (me := 0) now m h.1 hm
  suffices hs : (∃ k, s.recvPre m = .reject k ∧ (s.receiveOne now m).1 = (s, [.err k])) ∨
      NFOK (s.receiveOne now m).1 by
    rcases hs with hs | hs
    · exact Or.inl hs
    · exact Or.inr ⟨hs.1, NFI.of_gok hg hs⟩
  unfold State.receiveOne
  split
  · rename_i k hk; exact Or.inl ⟨k, hk, rfl⟩
  · exact Or.inr (NFOK.nil h.2)
  · rename_i hacc
    have hnt := recvPre_accept_not_terminated s m hacc
    right
    split
    · exact recvQuality_nf now m h
    · rename_i hph
      obtain ⟨_, _, hrest⟩ := hm
      rw [hph] at hrest
      simp only at hrest
      obtain ⟨_, hne, j', hj', hcj⟩ := hrest
      split
      · rename_i he
        exact absurd (by simpa using he) hne
      · split
        · rename_i hn; rw [hn] at hj'; cases hj'
        · rename_i j hj
          rw [hj] at hj'
          have : j = j' := Option.some.inj hj'
          subst this
          exact recvConverge_nf now m j h hne hcj
    · rename_i hph; exact recvPrepare_nf now m h hm hph
    · rename_i hph; exact recvCommit_nf now m h hm hph hnt
    · rename_i hph; exact recvDecide_nf now m h hm hph hnt
    · rename_i h1 h2 h3 h4 h5
      exfalso
      obtain ⟨_, _, hrest⟩ := hm
      cases hp : m.phase <;> simp_all

end F3.Instance
