import F3.Model.Lru
/-!
# Lemmas about the LRU model (`F3.Lru`)

* `WF`: size ≤ capacity, no duplicate keys, positive capacity — preserved by every operation and hence
  by every operation list (`run_wf`).
* what `peek` returns after each operation;
* **recency / retention** (`Holds`): the keys in front of `k` (more recently used than `k`) are all
  among the keys touched since `k` was last touched; as long as fewer than `cap` distinct such keys
  exist, `k` is not evicted.
-/
set_option linter.unusedSectionVars false
set_option linter.unusedSimpArgs false
namespace F3.Lru
variable {κ ν : Type} [DecidableEq κ]

def keysOf (l : List (κ × ν)) : List κ := l.map Prod.fst

/-- keys stored strictly in front of (more recently used than) `k` -/
def front : List (κ × ν) → κ → List κ
  | [], _ => []
  | (k', _) :: t, k => if k' = k then [] else k' :: front t k

structure WF (c : Cache κ ν) : Prop where
  nodup : (keysOf c.items).Nodup
  len : c.items.length ≤ c.cap
  pos : 0 < c.cap

theorem wf_empty {cap : Nat} (h : 0 < cap) : WF (empty cap : Cache κ ν) :=
  ⟨by simp [empty, keysOf], by simp [empty], h⟩

/-! ## lists -/

@[simp] theorem keysOf_nil : keysOf ([] : List (κ × ν)) = [] := rfl
@[simp] theorem keysOf_cons (e : κ × ν) (l : List (κ × ν)) : keysOf (e :: l) = e.1 :: keysOf l := rfl

theorem find?_none_iff {l : List (κ × ν)} {k : κ} : find? l k = none ↔ k ∉ keysOf l := by
  induction l with
  | nil => simp [find?]
  | cons e t ih =>
    obtain ⟨k', v⟩ := e
    by_cases h : k' = k
    · simp [find?, h]
    · have h' : ¬ k = k' := fun e => h e.symm
      simp [find?, h, h', ih]

theorem find?_some_mem {l : List (κ × ν)} {k : κ} {v : ν} (h : find? l k = some v) : (k, v) ∈ l := by
  induction l with
  | nil => simp [find?] at h
  | cons e t ih =>
    obtain ⟨k', v'⟩ := e
    by_cases hk : k' = k
    · simp [find?, hk] at h; simp [hk, h]
    · simp [find?, hk] at h; exact List.mem_cons_of_mem _ (ih h)

theorem find?_isSome_iff {l : List (κ × ν)} {k : κ} : (find? l k).isSome = true ↔ k ∈ keysOf l := by
  cases h : find? l k with
  | none => simp [find?_none_iff.mp h]
  | some v =>
    have : k ∈ keysOf l := List.mem_map.mpr ⟨(k, v), find?_some_mem h, rfl⟩
    simp [this]

theorem find?_of_mem_nodup {l : List (κ × ν)} {k : κ} {v : ν} (hn : (keysOf l).Nodup) (h : (k, v) ∈ l) :
    find? l k = some v := by
  induction l with
  | nil => simp at h
  | cons e t ih =>
    obtain ⟨k', v'⟩ := e
    simp only [keysOf_cons, List.nodup_cons] at hn
    by_cases hk : k' = k
    · subst hk
      rcases List.mem_cons.mp h with h | h
      · simp [find?] ; exact (Prod.mk.inj h).2.symm
      · exact absurd (List.mem_map.mpr ⟨(k', v), h, rfl⟩) hn.1
    · rcases List.mem_cons.mp h with h | h
      · exact absurd (Prod.mk.inj h).1.symm hk
      · simp [find?, hk, ih hn.2 h]

theorem without_nil (k : κ) : without ([] : List (κ × ν)) k = [] := rfl

theorem without_cons_eq {e : κ × ν} {k : κ} (t : List (κ × ν)) (h : e.1 = k) :
    without (e :: t) k = without t k := by
  simp [without, List.filter_cons, h]

theorem without_cons_ne {e : κ × ν} {k : κ} (t : List (κ × ν)) (h : e.1 ≠ k) :
    without (e :: t) k = e :: without t k := by
  simp [without, List.filter_cons, h]

theorem mem_keysOf_without {l : List (κ × ν)} {k x : κ} : x ∈ keysOf (without l k) ↔ x ∈ keysOf l ∧ x ≠ k := by
  induction l with
  | nil => simp [without_nil]
  | cons e t ih =>
    by_cases h : e.1 = k
    · rw [without_cons_eq t h, ih]
      simp only [keysOf_cons, List.mem_cons]
      constructor
      · rintro ⟨h1, h2⟩; exact ⟨Or.inr h1, h2⟩
      · rintro ⟨h1 | h1, h2⟩
        · exact absurd (h1.trans h) h2
        · exact ⟨h1, h2⟩
    · rw [without_cons_ne t h]
      simp only [keysOf_cons, List.mem_cons, ih]
      constructor
      · rintro (h1 | ⟨h1, h2⟩)
        · exact ⟨Or.inl h1, fun hx => h (h1 ▸ hx)⟩
        · exact ⟨Or.inr h1, h2⟩
      · rintro ⟨h1 | h1, h2⟩
        · exact Or.inl h1
        · exact Or.inr ⟨h1, h2⟩

theorem not_mem_keysOf_without (l : List (κ × ν)) (k : κ) : k ∉ keysOf (without l k) := by
  simp [mem_keysOf_without]

theorem nodup_without {l : List (κ × ν)} (k : κ) (h : (keysOf l).Nodup) : (keysOf (without l k)).Nodup := by
  induction l with
  | nil => simp [without_nil]
  | cons e t ih =>
    simp only [keysOf_cons, List.nodup_cons] at h
    by_cases hk : e.1 = k
    · rw [without_cons_eq t hk]; exact ih h.2
    · rw [without_cons_ne t hk]
      simp only [keysOf_cons, List.nodup_cons]
      exact ⟨fun hm => h.1 (mem_keysOf_without.mp hm).1, ih h.2⟩

theorem length_without_le (l : List (κ × ν)) (k : κ) : (without l k).length ≤ l.length := by
  unfold without; exact List.length_filter_le _ _

theorem length_without_lt {l : List (κ × ν)} {k : κ} (h : k ∈ keysOf l) : (without l k).length < l.length := by
  induction l with
  | nil => simp at h
  | cons e t ih =>
    by_cases hk : e.1 = k
    · rw [without_cons_eq t hk]
      have := length_without_le t k
      simp only [List.length_cons]; omega
    · have hm : k ∈ keysOf t := by
        simp only [keysOf_cons, List.mem_cons] at h
        rcases h with h | h
        · exact absurd h.symm hk
        · exact h
      rw [without_cons_ne t hk]
      have := ih hm
      simp only [List.length_cons]; omega

theorem find?_cons (a : κ) (v : ν) (t : List (κ × ν)) (k : κ) :
    find? ((a, v) :: t) k = if a = k then some v else find? t k := rfl

theorem find?_without (l : List (κ × ν)) (k k' : κ) :
    find? (without l k) k' = if k' = k then none else find? l k' := by
  induction l with
  | nil => simp [without_nil, find?]
  | cons e t ih =>
    obtain ⟨a, v⟩ := e
    by_cases ha : a = k
    · rw [without_cons_eq t (show (a, v).1 = k from ha), ih, find?_cons]
      by_cases hk : k' = k
      · simp [hk]
      · have : ¬ a = k' := fun h => hk (h ▸ ha)
        simp [hk, this]
    · rw [without_cons_ne t (show (a, v).1 ≠ k from ha), find?_cons, find?_cons, ih]
      by_cases hak : a = k'
      · have : ¬ k' = k := fun h => ha (hak.trans h)
        simp [hak, this]
      · simp [hak]

theorem front_subset_keys (l : List (κ × ν)) (k : κ) : ∀ x ∈ front l k, x ∈ keysOf l := by
  induction l with
  | nil => simp [front]
  | cons e t ih =>
    obtain ⟨a, v⟩ := e
    by_cases h : a = k
    · simp [front, h]
    · intro x hx
      simp only [front, h, if_false, List.mem_cons] at hx
      rcases hx with hx | hx
      · simp [hx]
      · simp [ih x hx]

theorem not_mem_front (l : List (κ × ν)) (k : κ) : k ∉ front l k := by
  induction l with
  | nil => simp [front]
  | cons e t ih =>
    obtain ⟨a, v⟩ := e
    by_cases h : a = k
    · simp [front, h]
    · simp only [front, h, if_false, List.mem_cons, not_or]
      exact ⟨fun h' => h h'.symm, ih⟩

theorem nodup_front {l : List (κ × ν)} (k : κ) (h : (keysOf l).Nodup) : (front l k).Nodup := by
  induction l with
  | nil => simp [front]
  | cons e t ih =>
    obtain ⟨a, v⟩ := e
    simp only [keysOf_cons, List.nodup_cons] at h
    by_cases ha : a = k
    · simp [front, ha]
    · simp only [front, ha, if_false, List.nodup_cons]
      exact ⟨fun hm => h.1 (front_subset_keys t k a hm), ih h.2⟩

theorem front_cons (a : κ) (v : ν) (t : List (κ × ν)) (k : κ) :
    front ((a, v) :: t) k = if a = k then [] else a :: front t k := rfl

theorem front_without_subset (l : List (κ × ν)) {k x : κ} (hxk : x ≠ k) :
    ∀ y ∈ front (without l x) k, y ∈ front l k := by
  induction l with
  | nil => simp [without_nil, front]
  | cons e t ih =>
    obtain ⟨a, v⟩ := e
    by_cases hax : a = x
    · have hak : ¬ a = k := fun h => hxk (hax ▸ h)
      rw [without_cons_eq t (show (a, v).1 = x from hax), front_cons]
      intro y hy
      simp only [hak, if_false, List.mem_cons]
      exact Or.inr (ih y hy)
    · rw [without_cons_ne t (show (a, v).1 ≠ x from hax), front_cons, front_cons]
      by_cases hak : a = k
      · simp [hak]
      · intro y hy
        simp only [hak, if_false, List.mem_cons] at hy ⊢
        rcases hy with hy | hy
        · exact Or.inl hy
        · exact Or.inr (ih y hy)

/-! ## dropping the oldest entry -/

theorem mem_keysOf_of_dropLast {l : List (κ × ν)} {k : κ} (h : k ∈ keysOf l.dropLast) : k ∈ keysOf l :=
  ((List.dropLast_sublist l).map Prod.fst).subset h

theorem nodup_dropLast {l : List (κ × ν)} (h : (keysOf l).Nodup) : (keysOf l.dropLast).Nodup :=
  ((List.dropLast_sublist l).map Prod.fst).nodup h

theorem find?_dropLast {l : List (κ × ν)} {k : κ} (hk : k ∈ keysOf l.dropLast) :
    find? l.dropLast k = find? l k := by
  induction l with
  | nil => simp at hk
  | cons e t ih =>
    cases t with
    | nil => simp at hk
    | cons e' t' =>
      obtain ⟨a, v⟩ := e
      rw [List.dropLast_cons_cons] at hk ⊢
      rw [find?_cons, find?_cons]
      by_cases ha : a = k
      · simp [ha]
      · simp only [ha, if_false]
        simp only [keysOf_cons, List.mem_cons] at hk
        rcases hk with hk | hk
        · exact absurd hk.symm ha
        · exact ih hk

theorem front_dropLast {l : List (κ × ν)} {k : κ} (hk : k ∈ keysOf l.dropLast) :
    front l.dropLast k = front l k := by
  induction l with
  | nil => simp at hk
  | cons e t ih =>
    cases t with
    | nil => simp at hk
    | cons e' t' =>
      obtain ⟨a, v⟩ := e
      rw [List.dropLast_cons_cons] at hk ⊢
      rw [front_cons, front_cons]
      by_cases ha : a = k
      · simp [ha]
      · simp only [ha, if_false]
        simp only [keysOf_cons, List.mem_cons] at hk
        rcases hk with hk | hk
        · exact absurd hk.symm ha
        · rw [ih hk]

/-- a key of `l` either survives `dropLast` or is the last one, with every other key in front of it -/
theorem mem_dropLast_or_last {l : List (κ × ν)} {k : κ} (hn : (keysOf l).Nodup) (hk : k ∈ keysOf l) :
    k ∈ keysOf l.dropLast ∨ (front l k).length + 1 = l.length := by
  induction l with
  | nil => simp at hk
  | cons e t ih =>
    obtain ⟨a, v⟩ := e
    cases t with
    | nil =>
      simp only [keysOf_cons, keysOf_nil, List.mem_singleton] at hk
      right; simp [front_cons, hk]
    | cons e' t' =>
      rw [List.dropLast_cons_cons]
      simp only [keysOf_cons, List.nodup_cons] at hn
      by_cases ha : a = k
      · left; simp [ha]
      · have hk' : k ∈ keysOf (e' :: t') := by
          simp only [keysOf_cons, List.mem_cons] at hk ⊢
          rcases hk with hk | hk
          · exact absurd hk.symm ha
          · exact hk
        rcases ih (by simpa using hn.2) hk' with h | h
        · left; simp only [keysOf_cons, List.mem_cons]; exact Or.inr h
        · right; rw [front_cons]; simp only [ha, if_false, List.length_cons] at h ⊢; omega

/-! ## well-formedness is preserved -/

theorem find?_contains {c : Cache κ ν} {k : κ} : c.contains k = true ↔ k ∈ keysOf c.items := by
  simp [Cache.contains, find?_isSome_iff]

theorem wf_promote {c : Cache κ ν} {k : κ} (v : ν) (h : WF c) (hk : k ∈ keysOf c.items) :
    WF { c with items := (k, v) :: without c.items k } := by
  refine ⟨?_, ?_, h.pos⟩
  · simp only [keysOf_cons, List.nodup_cons]
    exact ⟨not_mem_keysOf_without _ _, nodup_without k h.nodup⟩
  · have := length_without_lt hk
    have := h.len
    simp only [List.length_cons]; omega

theorem wf_add {c : Cache κ ν} (k : κ) (v : ν) (h : WF c) : WF (c.add k v).1 := by
  unfold Cache.add
  cases hf : find? c.items k with
  | some v' =>
    exact wf_promote v h (find?_isSome_iff.mp (by simp [hf]))
  | none =>
    have hk : k ∉ keysOf c.items := find?_none_iff.mp hf
    have hn : (keysOf ((k, v) :: c.items)).Nodup := by
      simp only [keysOf_cons, List.nodup_cons]; exact ⟨hk, h.nodup⟩
    by_cases hc : c.items.length + 1 > c.cap
    · simp only [hc, if_true]
      refine ⟨nodup_dropLast hn, ?_, h.pos⟩
      have := h.len
      simp only [List.length_dropLast_cons]; omega
    · simp only [hc, if_false]
      refine ⟨hn, ?_, h.pos⟩
      simp only [List.length_cons]; omega

theorem wf_get {c : Cache κ ν} (k : κ) (h : WF c) : WF (c.get k).1 := by
  unfold Cache.get
  cases hf : find? c.items k with
  | none => exact h
  | some v => exact wf_promote v h (find?_isSome_iff.mp (by simp [hf]))

theorem wf_containsOrAdd {c : Cache κ ν} (k : κ) (v : ν) (h : WF c) : WF (c.containsOrAdd k v).1 := by
  unfold Cache.containsOrAdd
  by_cases hc : c.contains k = true
  · simp [hc, h]
  · simp only [hc]; exact wf_add k v h

theorem wf_remove {c : Cache κ ν} (k : κ) (h : WF c) : WF (c.remove k).1 := by
  refine ⟨nodup_without k h.nodup, ?_, h.pos⟩
  have := length_without_le c.items k
  have := h.len
  simp only [Cache.remove]; omega

theorem wf_step {c : Cache κ ν} (o : Op κ ν) (h : WF c) : WF (step c o).1 := by
  cases o with
  | add k v => exact wf_add k v h
  | get k => exact wf_get k h
  | peek k => exact h
  | contains k => exact h
  | containsOrAdd k v => exact wf_containsOrAdd k v h
  | remove k => exact wf_remove k h

/-- size ≤ capacity and key uniqueness hold after every operation list -/
theorem run_wf {c : Cache κ ν} (os : List (Op κ ν)) (h : WF c) : WF (run c os) := by
  induction os generalizing c with
  | nil => exact h
  | cons o os ih => exact ih (wf_step o h)

@[simp] theorem cap_add (c : Cache κ ν) (k : κ) (v : ν) : (c.add k v).1.cap = c.cap := by
  unfold Cache.add
  split
  · rfl
  · split <;> rfl

@[simp] theorem cap_get (c : Cache κ ν) (k : κ) : (c.get k).1.cap = c.cap := by
  unfold Cache.get; split <;> rfl

@[simp] theorem cap_containsOrAdd (c : Cache κ ν) (k : κ) (v : ν) : (c.containsOrAdd k v).1.cap = c.cap := by
  unfold Cache.containsOrAdd; split <;> simp

@[simp] theorem cap_remove (c : Cache κ ν) (k : κ) : (c.remove k).1.cap = c.cap := rfl

/-! ## what `peek` sees after an operation -/

theorem mem_insNew {α : Type} [DecidableEq α] {x y : α} {F : List α} : y ∈ insNew x F ↔ y = x ∨ y ∈ F := by
  unfold insNew
  by_cases h : x ∈ F
  · simp only [h, if_true]
    constructor
    · exact Or.inr
    · rintro (rfl | h') <;> assumption
  · simp [h]

theorem nodup_insNew {α : Type} [DecidableEq α] {x : α} {F : List α} (h : F.Nodup) : (insNew x F).Nodup := by
  unfold insNew
  by_cases hx : x ∈ F
  · simp [hx, h]
  · simp [hx, h]

theorem length_le_insNew {α : Type} [DecidableEq α] (x : α) (F : List α) : F.length ≤ (insNew x F).length := by
  unfold insNew
  by_cases hx : x ∈ F <;> simp [hx]

theorem get_snd (c : Cache κ ν) (k : κ) : (c.get k).2 = c.peek k := by
  unfold Cache.get Cache.peek
  cases find? c.items k <;> rfl

theorem find?_promote {l : List (κ × ν)} {k : κ} {v : ν} (h : find? l k = some v) (k' : κ) :
    find? ((k, v) :: without l k) k' = find? l k' := by
  rw [find?_cons, find?_without]
  by_cases hk : k = k'
  · subst hk; simp [h]
  · have : ¬ k' = k := fun e => hk e.symm
    simp [hk, this]

theorem peek_get (c : Cache κ ν) (k k' : κ) : (c.get k).1.peek k' = c.peek k' := by
  unfold Cache.get Cache.peek
  cases hf : find? c.items k with
  | none => rfl
  | some v => exact find?_promote hf k'

theorem peek_remove (c : Cache κ ν) (k k' : κ) : (c.remove k).1.peek k' = if k' = k then none else c.peek k' := by
  simp [Cache.remove, Cache.peek, find?_without]

theorem peek_add_self {c : Cache κ ν} (k : κ) (v : ν) (h : WF c) : (c.add k v).1.peek k = some v := by
  unfold Cache.add Cache.peek
  cases hf : find? c.items k with
  | some v' => simp [find?_cons]
  | none =>
    by_cases hc : c.items.length + 1 > c.cap
    · simp only [hc, if_true]
      cases hi : c.items with
      | nil => have := h.pos; simp [hi] at hc; omega
      | cons e t => rw [List.dropLast_cons_cons, find?_cons]; simp
    · simp [hc, find?_cons]

/-- a key other than the added one keeps its value or is the evicted one -/
theorem peek_add_other (c : Cache κ ν) {k k' : κ} (v : ν) (hne : k' ≠ k) :
    (c.add k v).1.peek k' = c.peek k' ∨ (c.add k v).1.peek k' = none := by
  unfold Cache.add Cache.peek
  have hne' : ¬ k = k' := fun e => hne e.symm
  cases hf : find? c.items k with
  | some v' =>
    left
    simp only [find?_cons, hne', if_false, find?_without, hne]
  | none =>
    by_cases hc : c.items.length + 1 > c.cap
    · simp only [hc, if_true]
      by_cases hm : k' ∈ keysOf ((k, v) :: c.items).dropLast
      · left; rw [find?_dropLast hm, find?_cons]; simp [hne']
      · right; exact find?_none_iff.mpr hm
    · left; simp [hc, find?_cons, hne']

theorem peek_containsOrAdd_self {c : Cache κ ν} (k : κ) (v : ν) (h : WF c) :
    (c.containsOrAdd k v).1.peek k = if c.contains k then c.peek k else some v := by
  unfold Cache.containsOrAdd
  by_cases hc : c.contains k = true
  · simp [hc]
  · simp only [hc]; exact peek_add_self k v h

theorem peek_containsOrAdd_other (c : Cache κ ν) {k k' : κ} (v : ν) (hne : k' ≠ k) :
    (c.containsOrAdd k v).1.peek k' = c.peek k' ∨ (c.containsOrAdd k v).1.peek k' = none := by
  unfold Cache.containsOrAdd
  by_cases hc : c.contains k = true
  · simp [hc]
  · simp only [hc]; exact peek_add_other c v hne

theorem peek_isSome_iff {c : Cache κ ν} {k : κ} : (c.peek k).isSome = true ↔ k ∈ keysOf c.items :=
  find?_isSome_iff

theorem peek_none_iff {c : Cache κ ν} {k : κ} : c.peek k = none ↔ k ∉ keysOf c.items :=
  find?_none_iff

/-- values never appear out of nowhere: whatever `peek` sees after `add k v` was there before or is `v` -/
theorem peek_add_origin (c : Cache κ ν) (k k' : κ) (v w : ν) (h : (c.add k v).1.peek k' = some w) :
    (k' = k ∧ w = v) ∨ c.peek k' = some w := by
  by_cases hk : k' = k
  · subst hk
    unfold Cache.add Cache.peek at h
    cases hf : find? c.items k' with
    | some v' => simp [hf, find?_cons] at h; exact Or.inl ⟨rfl, h.symm⟩
    | none =>
      simp only [hf] at h
      by_cases hc : c.items.length + 1 > c.cap
      · simp only [hc, if_true] at h
        have hm : k' ∈ keysOf ((k', v) :: c.items).dropLast := find?_isSome_iff.mp (by simp [h])
        rw [find?_dropLast hm, find?_cons] at h
        simp at h; exact Or.inl ⟨rfl, h.symm⟩
      · simp [hc, find?_cons] at h; exact Or.inl ⟨rfl, h.symm⟩
  · rcases peek_add_other c v hk with h' | h'
    · right; rw [← h']; exact h
    · rw [h'] at h; cases h

/-! ## retention -/

/-- `k` is cached and every key more recently used than `k` is in `F` -/
def Holds (c : Cache κ ν) (k : κ) (F : List κ) : Prop :=
  k ∈ keysOf c.items ∧ ∀ x ∈ front c.items k, x ∈ F

theorem holds_mono {c : Cache κ ν} {k : κ} {F F' : List κ} (h : Holds c k F) (hs : ∀ x ∈ F, x ∈ F') : Holds c k F' :=
  ⟨h.1, fun x hx => hs x (h.2 x hx)⟩

theorem holds_insNew {c : Cache κ ν} {k x : κ} {F : List κ} (h : Holds c k F) : Holds c k (insNew x F) :=
  holds_mono h (fun _ hy => mem_insNew.mpr (Or.inr hy))

/-- right after `k` was put in front, nothing is in front of it -/
theorem holds_head {c : Cache κ ν} {k : κ} {v : ν} {t : List (κ × ν)} (h : c.items = (k, v) :: t) (F : List κ) :
    Holds c k F := by
  refine ⟨by simp [h], ?_⟩
  simp [h, front_cons]

theorem holds_add_self {c : Cache κ ν} (k : κ) (v : ν) (h : WF c) (F : List κ) : Holds (c.add k v).1 k F := by
  unfold Cache.add
  cases hf : find? c.items k with
  | some v' => exact holds_head (v := v) (t := without c.items k) rfl F
  | none =>
    by_cases hc : c.items.length + 1 > c.cap
    · simp only [hc, if_true]
      cases hi : c.items with
      | nil => have := h.pos; simp [hi] at hc; omega
      | cons e t => exact holds_head (v := v) (t := (e :: t).dropLast) (by simp [List.dropLast_cons_cons]) F
    · simp only [hc, if_false]; exact holds_head (v := v) (t := c.items) rfl F

theorem holds_get_self {c : Cache κ ν} {k : κ} (hk : k ∈ keysOf c.items) (F : List κ) : Holds (c.get k).1 k F := by
  unfold Cache.get
  cases hf : find? c.items k with
  | none => exact absurd hk (find?_none_iff.mp hf)
  | some v => exact holds_head (v := v) (t := without c.items k) rfl F

theorem holds_promote_other {c : Cache κ ν} {k x : κ} {F : List κ} (v : ν) (h : Holds c k F) (hx : x ≠ k) :
    Holds { c with items := (x, v) :: without c.items x } k (insNew x F) := by
  have hx' : ¬ x = k := hx
  refine ⟨?_, ?_⟩
  · simp only [keysOf_cons, List.mem_cons]
    exact Or.inr (mem_keysOf_without.mpr ⟨h.1, fun e => hx e.symm⟩)
  · intro y hy
    simp only [front_cons, hx', if_false, List.mem_cons] at hy
    rcases hy with hy | hy
    · exact mem_insNew.mpr (Or.inl hy)
    · exact mem_insNew.mpr (Or.inr (h.2 y (front_without_subset c.items hx y hy)))

/-- **LRU retention.** Adding another key keeps `k` (with its value) as long as the keys touched since
`k` was last touched, the new one included, number fewer than the capacity. -/
theorem holds_add_other {c : Cache κ ν} {k x : κ} {F : List κ} (v : ν) (hw : WF c) (h : Holds c k F)
    (hx : x ≠ k) (hlen : (insNew x F).length < c.cap) :
    Holds (c.add x v).1 k (insNew x F) ∧ (c.add x v).1.peek k = c.peek k := by
  have hx' : ¬ x = k := hx
  have hkx : k ≠ x := fun e => hx e.symm
  unfold Cache.add Cache.peek
  cases hf : find? c.items x with
  | some v' =>
    refine ⟨holds_promote_other v h hx, ?_⟩
    simp only [find?_cons, hx', if_false, find?_without, hkx]
  | none =>
    have hxn : x ∉ keysOf c.items := find?_none_iff.mp hf
    have hcons : Holds { c with items := (x, v) :: c.items } k (insNew x F) := by
      refine ⟨by simp [h.1], ?_⟩
      intro y hy
      simp only [front_cons, hx', if_false, List.mem_cons] at hy
      rcases hy with hy | hy
      · exact mem_insNew.mpr (Or.inl hy)
      · exact mem_insNew.mpr (Or.inr (h.2 y hy))
    by_cases hc : c.items.length + 1 > c.cap
    · simp only [hc, if_true]
      have hn : (keysOf ((x, v) :: c.items)).Nodup := by
        simp only [keysOf_cons, List.nodup_cons]; exact ⟨hxn, hw.nodup⟩
      rcases mem_dropLast_or_last hn hcons.1 with hm | hlast
      · refine ⟨⟨hm, ?_⟩, ?_⟩
        · rw [front_dropLast hm]; exact hcons.2
        · rw [find?_dropLast hm, find?_cons]; simp [hx']
      · exfalso
        have h1 : (front ((x, v) :: c.items) k).length ≤ (insNew x F).length :=
          (nodup_front k hn).length_le_of_subset (fun y hy => hcons.2 y hy)
        simp only [List.length_cons] at hlast
        omega
    · simp only [hc, if_false]
      exact ⟨hcons, by simp [find?_cons, hx']⟩

theorem holds_get_other {c : Cache κ ν} {k x : κ} {F : List κ} (h : Holds c k F) (hx : x ≠ k) :
    Holds (c.get x).1 k (insNew x F) := by
  unfold Cache.get
  cases hf : find? c.items x with
  | none => exact holds_insNew h
  | some v => exact holds_promote_other v h hx

theorem holds_remove_other {c : Cache κ ν} {k x : κ} {F : List κ} (h : Holds c k F) (hx : x ≠ k) :
    Holds (c.remove x).1 k F := by
  refine ⟨mem_keysOf_without.mpr ⟨h.1, fun e => hx e.symm⟩, ?_⟩
  intro y hy
  exact h.2 y (front_without_subset c.items hx y hy)

theorem holds_containsOrAdd_other {c : Cache κ ν} {k x : κ} {F : List κ} (v : ν) (hw : WF c) (h : Holds c k F)
    (hx : x ≠ k) (hlen : (insNew x F).length < c.cap) :
    Holds (c.containsOrAdd x v).1 k (insNew x F) ∧ (c.containsOrAdd x v).1.peek k = c.peek k := by
  unfold Cache.containsOrAdd
  by_cases hc : c.contains x = true
  · simp only [hc, if_true]; exact ⟨holds_insNew h, trivial⟩
  · simp only [hc]; exact holds_add_other v hw h hx hlen

theorem holds_peek_isSome {c : Cache κ ν} {k : κ} {F : List κ} (h : Holds c k F) : (c.peek k).isSome = true :=
  peek_isSome_iff.mpr h.1

/-! ## `Get` followed by `Remove` of the same key, `Get` of an absent key -/

theorem without_without (l : List (κ × ν)) (k : κ) : without (without l k) k = without l k := by
  induction l with
  | nil => simp [without_nil]
  | cons e t ih =>
    by_cases h : e.1 = k
    · rw [without_cons_eq t h, ih]
    · rw [without_cons_ne t h, without_cons_ne _ h, ih]

theorem get_absent {c : Cache κ ν} {k : κ} (h : c.peek k = none) : (c.get k).1 = c := by
  unfold Cache.get; unfold Cache.peek at h; simp [h]

theorem get_remove (c : Cache κ ν) (k : κ) : ((c.get k).1.remove k).1 = (c.remove k).1 := by
  unfold Cache.get
  cases hf : find? c.items k with
  | none => rfl
  | some v =>
    simp only [Cache.remove]
    rw [without_cons_eq _ (show ((k, v) : κ × ν).1 = k from rfl), without_without]

/-! ## retention over operation lists -/

/-- the key an operation touches in a way that can push other keys back -/
def Op.touches : Op κ ν → Option κ
  | .add k _ => some k
  | .get k => some k
  | .containsOrAdd k _ => some k
  | .peek _ => none
  | .contains _ => none
  | .remove _ => none

/-- distinct keys other than `k` touched by an operation list, accumulated onto `F` -/
def accKeys (k : κ) (F : List κ) : List (Op κ ν) → List κ
  | [] => F
  | o :: os =>
    match o.touches with
    | some x => if x = k then accKeys k F os else accKeys k (insNew x F) os
    | none => accKeys k F os

theorem length_le_accKeys (k : κ) (F : List κ) (os : List (Op κ ν)) : F.length ≤ (accKeys k F os).length := by
  induction os generalizing F with
  | nil => exact Nat.le_refl _
  | cons o os ih =>
    unfold accKeys
    cases ho : o.touches with
    | none => exact ih F
    | some x =>
      by_cases hx : x = k
      · simp only [hx, if_true]; exact ih F
      · simp only [hx, if_false]
        exact Nat.le_trans (length_le_insNew x F) (ih _)

/-- **LRU retention for operation lists.** If `k` is cached with the keys in front of it among `F`,
no operation removes `k` explicitly, and `F` plus the distinct other keys touched by the operations
number fewer than the capacity, then `k` is still cached afterwards (recency invariant kept). -/
theorem run_holds {c : Cache κ ν} {k : κ} {F : List κ} (os : List (Op κ ν)) (hw : WF c) (h : Holds c k F)
    (hno : ∀ o ∈ os, o ≠ Op.remove k) (hlen : (accKeys k F os).length < c.cap) :
    Holds (run c os) k (accKeys k F os) := by
  induction os generalizing c F with
  | nil => exact h
  | cons o os ih =>
    have hno' : ∀ o' ∈ os, o' ≠ Op.remove k := fun o' ho' => hno o' (List.mem_cons_of_mem _ ho')
    have hne : o ≠ Op.remove k := hno o (List.mem_cons_self ..)
    cases o with
    | add x v =>
      by_cases hx : x = k
      · subst hx
        have e : accKeys x F (Op.add x v :: os) = accKeys x F os := by simp [accKeys, Op.touches]
        rw [e] at hlen ⊢
        exact ih (wf_add x v hw) (holds_add_self x v hw F) hno' (by simp only [step, cap_add, cap_get, cap_containsOrAdd]; exact hlen)
      · have e : accKeys k F (Op.add x v :: os) = accKeys k (insNew x F) os := by simp [accKeys, Op.touches, hx]
        rw [e] at hlen ⊢
        have h1 : (insNew x F).length < c.cap := Nat.lt_of_le_of_lt (length_le_accKeys k _ os) hlen
        exact ih (wf_add x v hw) (holds_add_other v hw h hx h1).1 hno' (by simp only [step, cap_add, cap_get, cap_containsOrAdd]; exact hlen)
    | get x =>
      by_cases hx : x = k
      · subst hx
        have e : accKeys x F (Op.get x :: os) = accKeys x F os := by simp [accKeys, Op.touches]
        rw [e] at hlen ⊢
        exact ih (wf_get x hw) (holds_get_self h.1 F) hno' (by simp only [step, cap_add, cap_get, cap_containsOrAdd]; exact hlen)
      · have e : accKeys k F (Op.get x :: os) = accKeys k (insNew x F) os := by simp [accKeys, Op.touches, hx]
        rw [e] at hlen ⊢
        exact ih (wf_get x hw) (holds_get_other h hx) hno' (by simp only [step, cap_add, cap_get, cap_containsOrAdd]; exact hlen)
    | peek x => exact ih hw h hno' hlen
    | contains x => exact ih hw h hno' hlen
    | containsOrAdd x v =>
      by_cases hx : x = k
      · subst hx
        have e : accKeys x F (Op.containsOrAdd x v :: os) = accKeys x F os := by simp [accKeys, Op.touches]
        rw [e] at hlen ⊢
        have hc : c.contains x = true := find?_contains.mpr h.1
        have e2 : (step c (Op.containsOrAdd x v)).1 = c := by simp [step, Cache.containsOrAdd, hc]
        show Holds (run (step c (Op.containsOrAdd x v)).1 os) x _
        rw [e2]
        exact ih hw h hno' hlen
      · have e : accKeys k F (Op.containsOrAdd x v :: os) = accKeys k (insNew x F) os := by
          simp [accKeys, Op.touches, hx]
        rw [e] at hlen ⊢
        have h1 : (insNew x F).length < c.cap := Nat.lt_of_le_of_lt (length_le_accKeys k _ os) hlen
        exact ih (wf_containsOrAdd x v hw) (holds_containsOrAdd_other v hw h hx h1).1 hno' (by simp only [step, cap_add, cap_get, cap_containsOrAdd]; exact hlen)
    | remove x =>
      have hx : x ≠ k := fun e => hne (by rw [e])
      exact ih (wf_remove x hw) (holds_remove_other h hx) hno' hlen

/-- adding a key that is already cached evicts nothing and leaves every other value alone -/
theorem peek_add_present {c : Cache κ ν} {k k' : κ} (v : ν) (hk : k ∈ keysOf c.items) (hne : k' ≠ k) :
    (c.add k v).1.peek k' = c.peek k' := by
  unfold Cache.add Cache.peek
  have hne' : ¬ k = k' := fun e => hne e.symm
  cases hf : find? c.items k with
  | some v' => simp only [find?_cons, hne', if_false, find?_without, hne]
  | none => exact absurd hk (find?_none_iff.mp hf)

end F3.Lru
