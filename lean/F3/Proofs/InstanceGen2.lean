import F3.Model.Instance
import F3.Proofs.InstanceGen
import F3.Gen.Gpbft2
/-!
# Tie theorems, second set: `gpbft/gpbft.go` sites of the instance model (`F3/Model/Instance.lean`)

`F3.Gen.Gpbft2` is regenerated on every run from `tools/go2lean/targets.d/Gpbft2.json`. Each theorem here
states that a hand-written piece of `F3.Instance` *is* the regenerated definition on the model's whole
domain (rounds are `Nat` in the model and `uint64` in Go; where the Go expression can wrap, the bound is a
hypothesis). Functions whose statements are calls on protocol state are regenerated as *action traces*
(`acts_ : List Int`, codes given in the targets file); the interpreters `prepAct`, `commitActs`,
`rebEffs`, `rebPlan` below say what each code is in the model. Core-only.
-/
set_option linter.unusedSimpArgs false
namespace F3.Gen2Tie
open F3.Instance F3.GoInt

/-- a phase code is the model's `Phase.toNat` -/
theorem phase_code (p q : Phase) : decide ((p.toNat : Int) = (q.toNat : Int)) = (p == q) :=
  (F3.Proofs.InstanceGen.phase_beq_code p q).symm

/-- `uint64` equality of two model rounds (no arithmetic: no bound needed) -/
theorem cast_beq (a b : Nat) : decide ((a : Int) = (b : Int)) = (a == b) := by
  by_cases e : a = b
  · subst e; simp
  · have h1 : ¬ ((a : Int) = (b : Int)) := by omega
    have h2 : (a == b) = false := by simp [e]
    rw [decide_eq_false h1, h2]

theorem cast_bne (a b : Nat) : decide ((a : Int) ≠ (b : Int)) = (a != b) := by
  rw [decide_not, cast_beq]; rfl

/-! ## `atOrAfter`, `shouldRebroadcast` -/

/-- **`phaseTimeoutElapsed` is `atOrAfter(now, phaseTimeout)`**: the model's `now ≥ phaseTimeout` is the
regenerated `lhs.After(rhs) || lhs.Equal(rhs)` with `After` = `>` and `Equal` = `=` on nanosecond
instants. All `now`, all states. -/
theorem phaseTimeoutElapsed_is_atOrAfter (s : State) (now : Int) :
    s.phaseTimeoutElapsed now =
      F3.Gen.Gpbft2.atOrAfter (decide (now > s.phaseTimeout)) (decide (now = s.phaseTimeout)) := by
  unfold State.phaseTimeoutElapsed F3.Gen.Gpbft2.atOrAfter
  rw [← Bool.decide_or]
  exact decide_eq_decide.mpr (by omega)

/-- **`shouldRebroadcast` is the source's**, for every state (rounds of any size: no arithmetic). -/
theorem shouldRebroadcast_is_regenerated (s : State) (now : Int) :
    s.shouldRebroadcast now =
      F3.Gen.Gpbft2.shouldRebroadcast s.round s.cfg.rebImmediateAfter (s.phaseTimeoutElapsed now) := by
  unfold State.shouldRebroadcast F3.Gen.Gpbft2.shouldRebroadcast
  congr 1
  exact decide_eq_decide.mpr (by omega)

/-! ## `shouldSkipToRound`: the round / phase guard -/

/-- the guard of the model's `postReceive` is the first `if` of `shouldSkipToRound` -/
theorem skip_guard_is_regenerated (s : State) (round : Nat) :
    (decide (round ≤ s.round) || s.phase == .decide) =
      F3.Gen.Gpbft2.skipToRoundRefused s.phase.toNat s.round round := by
  unfold F3.Gen.Gpbft2.skipToRoundRefused
  have h : decide ((s.phase.toNat : Int) = 5) = (s.phase == .decide) := phase_code s.phase .decide
  rw [h]
  congr 1
  exact decide_eq_decide.mpr (by omega)

/-- **No skip to a round that is not ahead, and none in DECIDE**: whenever the regenerated guard holds,
the model's `postReceive` does nothing. -/
theorem postReceive_refused (s : State) (now : Int) (round : Nat)
    (h : F3.Gen.Gpbft2.skipToRoundRefused s.phase.toNat s.round round = true) :
    s.postReceive now round = (s, []) := by
  rw [← skip_guard_is_regenerated] at h
  unfold State.postReceive
  exact if_pos h

/-! ## `tryRebroadcast` -/

/-- **First rebroadcast alarm: offset**. With no rebroadcast scheduled yet and the phase timeout elapsed,
the model schedules the first rebroadcast `rebroadcastAfter(0)` after *now* exactly when the regenerated
condition (`DECIDE` phase, or beyond `rebroadcastImmediatelyAfterRound`) holds, else after the phase
timeout. -/
theorem first_rebroadcast_offset_is_regenerated (s : State) (now : Int)
    (h0 : s.rebTimeout = none) (h1 : s.rebAttempts = 0) (he : s.phaseTimeoutElapsed now = true) :
    s.tryRebroadcast now =
      let off := if F3.Gen.Gpbft2.rebroadcastOffsetIsNow s.phase.toNat s.round s.cfg.rebImmediateAfter
        then now else s.phaseTimeout
      ({ s with rebTimeout := some (off + tableGet s.cfg.rebAfter 0) },
        [.setAlarm (off + tableGet s.cfg.rebAfter 0)]) := by
  have hg : F3.Gen.Gpbft2.rebroadcastOffsetIsNow s.phase.toNat s.round s.cfg.rebImmediateAfter =
      (s.phase == .decide || decide (s.round > s.cfg.rebImmediateAfter)) := by
    unfold F3.Gen.Gpbft2.rebroadcastOffsetIsNow
    have h : decide ((s.phase.toNat : Int) = 5) = (s.phase == .decide) := phase_code s.phase .decide
    rw [h]
    congr 1
    exact decide_eq_decide.mpr (by omega)
  unfold State.tryRebroadcast
  simp only [h0, h1, he, hg, if_true, BEq.rfl]

/-- what an action code of `rebroadcastNext` is in the model: 1 = `rebroadcast()`, 3 = alarm at the new
rebroadcast timeout, 4 = alarm at the phase timeout, 2 (the assignment of the timeout) emits nothing -/
def rebEffs (s : State) (rt : Int) (acts : List Int) : List Eff :=
  acts.flatMap (fun a =>
    if a = 1 then rebroadcastEffs s else if a = 3 then [.setAlarm rt]
    else if a = 4 then [.setAlarm s.phaseTimeout] else [])

/-- **Successive rebroadcasts**: once the rebroadcast timeout has elapsed, the model rebroadcasts,
counts the attempt, computes the next timeout from the *incremented* count, and sets the alarm the
regenerated `if / else if / else` of `tryRebroadcast` chooses (rebroadcast timeout when the phase timeout
elapsed or lies later, phase timeout otherwise), in that order. -/
theorem next_rebroadcast_is_regenerated (s : State) (now rt0 : Int)
    (h0 : s.rebTimeout = some rt0) (hn : now ≥ rt0) :
    let rt := now + tableGet s.cfg.rebAfter (s.rebAttempts + 1)
    let g := F3.Gen.Gpbft2.rebroadcastNext s.rebAttempts (s.phaseTimeoutElapsed now)
      (decide (rt < s.phaseTimeout))
    g.1 = ((s.rebAttempts + 1 : Nat) : Int) ∧
    s.tryRebroadcast now =
      ({ s with rebAttempts := s.rebAttempts + 1, rebTimeout := some rt }, rebEffs s rt g.2) := by
  intro rt g
  refine ⟨by simp [g, F3.Gen.Gpbft2.rebroadcastNext], ?_⟩
  unfold State.tryRebroadcast
  simp only [h0, hn, if_true]
  cases he : s.phaseTimeoutElapsed now
  · by_cases hb : rt < s.phaseTimeout
    · have hb' : now + tableGet s.cfg.rebAfter (s.rebAttempts + 1) < s.phaseTimeout := hb
      simp [g, rt, he, hb', F3.Gen.Gpbft2.rebroadcastNext, rebEffs]
    · have hb' : ¬ now + tableGet s.cfg.rebAfter (s.rebAttempts + 1) < s.phaseTimeout := hb
      simp [g, rt, he, hb', F3.Gen.Gpbft2.rebroadcastNext, rebEffs]
  · simp [g, rt, he, F3.Gen.Gpbft2.rebroadcastNext, rebEffs]

/-- what a code of the regenerated `rebroadcast()` is: `10 * k + phase` with `k` = 0: round 0,
1: the current round, 2: the previous round (targets file) -/
def rebPlan (s : State) (acts : List Int) : List Eff :=
  acts.filterMap (fun a =>
    if a = 1 then some (.rebroadcast 0 .quality) else if a = 5 then some (.rebroadcast 0 .decide)
    else if a = 14 then some (.rebroadcast s.round .commit) else if a = 13 then some (.rebroadcast s.round .prepare)
    else if a = 12 then some (.rebroadcast s.round .converge)
    else if a = 24 then some (.rebroadcast (s.round - 1) .commit)
    else if a = 23 then some (.rebroadcast (s.round - 1) .prepare)
    else if a = 22 then some (.rebroadcast (s.round - 1) .converge) else none)

/-- **What is rebroadcast, and in which order**, is the source's `rebroadcast()`: QUALITY, then COMMIT /
PREPARE / CONVERGE of the current and (beyond round 0) of the previous round; in DECIDE only the DECIDE;
nothing in any other phase. Every state. -/
theorem rebroadcast_plan_is_regenerated (s : State) :
    rebroadcastEffs s = rebPlan s (F3.Gen.Gpbft2.rebroadcast s.phase.toNat s.round) := by
  unfold rebroadcastEffs F3.Gen.Gpbft2.rebroadcast rebPlan
  cases s.phase <;> simp [Phase.toNat] <;> (by_cases h : s.round > 0 <;> simp [h]) <;> omega

/-- the argument texts of the eight `rebroadcastQuietly` calls, in source order (what the codes of
`targets.d/Gpbft2.json` stand for) -/
theorem rebroadcast_calls :
    F3.Gen.Gpbft2.callSites.map (·.2.2) =
      [["0", "QUALITY_PHASE"], ["i.current.Round", "COMMIT_PHASE"], ["i.current.Round", "PREPARE_PHASE"],
       ["i.current.Round", "CONVERGE_PHASE"], ["i.current.Round-1", "COMMIT_PHASE"],
       ["i.current.Round-1", "PREPARE_PHASE"], ["i.current.Round-1", "CONVERGE_PHASE"],
       ["0", "DECIDE_PHASE"]] := by decide

/-! ## `receiveOne`: a COMMIT re-tries the current phase -/

/-- the condition under which the model's `recvCommit` goes on to `tryCurrentPhase` after `tryCommit` is
`tryToCompleteCurrentPhase` of the source (with `err == nil`; an error ends the step in `andThen`) -/
theorem commit_retry_is_regenerated (st : State) (m : Msg) :
    (st.phase == .prepare && st.round == m.round && !m.value.isEmpty) =
      F3.Gen.Gpbft2.commitRetriesCurrentPhase false st.phase.toNat st.round m.round m.value.isEmpty := by
  unfold F3.Gen.Gpbft2.commitRetriesCurrentPhase
  have h : decide ((st.phase.toNat : Int) = 3) = (st.phase == .prepare) := phase_code st.phase .prepare
  simp only [h, cast_beq, Bool.not_false, Bool.true_and]

/-- … and with an error from `tryCommit` it never does -/
theorem commit_retry_not_on_error (ph r mr : Int) (z : Bool) :
    F3.Gen.Gpbft2.commitRetriesCurrentPhase true ph r mr z = false := by
  simp [F3.Gen.Gpbft2.commitRetriesCurrentPhase]

/-! ## `beginConverge`: the justification's round -/

/-- **Domain**: the instance is past round 0 (`beginConverge` is only reached after a round increment or
a skip to a later round) and both rounds are `uint64` values. There the model's `j.round + 1 ≠ s.round`
is the source's `justification.Vote.Round != i.current.Round-1`, and the model panics exactly then. -/
theorem converge_round_guard_is_regenerated (s : State) (now : Int) (j : Just)
    (h1 : 1 ≤ s.round) (h2 : s.round < 2 ^ 64) (h3 : j.round < 2 ^ 64) :
    F3.Gen.Gpbft2.convergeJustWrongRound s.round j.round = (j.round + 1 != s.round) ∧
    (F3.Gen.Gpbft2.convergeJustWrongRound s.round j.round = true →
      s.beginConverge now j = (s, [.panic .convergeJustRound])) := by
  have e : F3.Gen.Gpbft2.convergeJustWrongRound s.round j.round = (j.round + 1 != s.round) := by
    unfold F3.Gen.Gpbft2.convergeJustWrongRound u64
    by_cases c : j.round + 1 = s.round
    · simp only [c, bne_self_eq_false, decide_eq_false_iff_not, Decidable.not_not]; omega
    · have : (j.round + 1 != s.round) = true := by simp [c]
      rw [this, decide_eq_true_eq]; omega
  refine ⟨e, fun h => ?_⟩
  rw [e] at h
  unfold State.beginConverge
  simp only [h, if_true]

/-! ## `tryPrepare` -/

/-- one action of the regenerated `tryPrepare`: 1 = `i.value = i.proposal`, 2 = `i.value = &ECChain{}`,
3 = `i.beginCommit()`, 4 = `i.tryRebroadcast()` -/
def prepAct (now : Int) (r : R) (a : Int) : R :=
  if a = 1 then ({ r.1 with value := r.1.proposal }, r.2)
  else if a = 2 then ({ r.1 with value := [] }, r.2)
  else if a = 3 then ((r.1.beginCommit now).1, r.2 ++ (r.1.beginCommit now).2)
  else if a = 4 then ((r.1.tryRebroadcast now).1, r.2 ++ (r.1.tryRebroadcast now).2)
  else r

theorem prepareValue_shouldRebroadcast (s : State) (now : Int) :
    (s.prepareValue now).shouldRebroadcast now = s.shouldRebroadcast now := by
  unfold State.prepareValue
  split
  · rfl
  · split <;> rfl

/-- **The end of PREPARE is the source's**: in the PREPARE phase, for every state, the model's
`tryPrepare` is the regenerated decision (value := proposal on a quorum or a justification, bottom when
no quorum is possible or the phase is complete; then COMMIT, else a rebroadcast when due) run through
`prepAct`. -/
theorem tryPrepare_is_regenerated (s : State) (now : Int) (hp : s.phase = .prepare) :
    s.tryPrepare now =
      (F3.Gen.Gpbft2.tryPrepare s.prepFoundJust s.prepFoundQuorum (s.prepComplete now) s.prepNotPossible
        (s.shouldRebroadcast now)).2.foldl (prepAct now) (s, []) := by
  unfold State.tryPrepare
  simp only [hp, prepareValue_shouldRebroadcast, bne_self_eq_false, Bool.false_eq_true, if_false]
  unfold State.prepareValue F3.Gen.Gpbft2.tryPrepare
  cases s.prepFoundJust <;> cases s.prepFoundQuorum <;> cases s.prepComplete now <;>
    cases s.prepNotPossible <;> cases s.shouldRebroadcast now <;> simp [prepAct]

/-! ## `tryCommit` -/

/-- the regenerated action traces of `tryCommit` in the model: `[1, 2]` = adopt the quorum value and
`beginDecide(round)`, `[3]` = `beginNextRound()`, `[4, 3]` = sway to a committed value, then
`beginNextRound()`, `[5]` = `tryRebroadcast()`, `[]` = nothing -/
def commitActs (s : State) (now : Int) (round : Nat) (acts : List Int) : R :=
  let committed := (s.getRound round).committed
  if acts = [1, 2] then
    match committed.findStrongQuorumValue with
    | .one c => ({ s with value := c }).beginDecide round
    | _ => (s, [])
  else if acts = [3] then s.beginNextRound now
  else if acts = [4, 3] then (s.commitSway committed).beginNextRound now
  else if acts = [5] then s.tryRebroadcast now
  else (s, [])

/-- `foundStrongQuorum`, `quorumValue.IsZero()` of the source as functions of the model's `SQV` -/
def sqvFound : SQV → Bool | .one _ => true | _ => false
def sqvZero : SQV → Bool | .one c => c.isEmpty | _ => true

/-- **The `switch` of `tryCommit` is the source's**: for every state, time and round for which
`FindStrongQuorumValue` does not panic (at most one strong quorum), the model's `tryCommit` performs
exactly the actions the regenerated `switch` lists, in order. -/
theorem tryCommit_is_regenerated (s : State) (now : Int) (round : Nat)
    (h : ((s.getRound round).committed.findStrongQuorumValue matches .multiple) = false) :
    s.tryCommit now round =
      commitActs s now round
        (F3.Gen.Gpbft2.tryCommit (s.foundJustBottom round)
          (sqvFound (s.getRound round).committed.findStrongQuorumValue) s.phase.toNat s.round
          (s.phaseTimeoutElapsed now && (s.getRound round).committed.fromStrong s.tbl)
          (sqvZero (s.getRound round).committed.findStrongQuorumValue) round (s.shouldRebroadcast now)).2 := by
  have hph : decide ((s.phase.toNat : Int) ≠ 4) = (s.phase != .commit) := by
    cases s.phase <;> rfl
  have hr : decide ((s.round : Int) ≠ (round : Int)) = (s.round != round) := cast_bne _ _
  unfold State.tryCommit commitActs F3.Gen.Gpbft2.tryCommit
  rw [hph, hr]
  cases hq : (s.getRound round).committed.findStrongQuorumValue with
  | multiple => simp [hq] at h
  | one c =>
    cases hc : c.isEmpty <;> cases hg : (s.round != round || s.phase != .commit) <;>
      simp [sqvFound, sqvZero, hq, hc, hg]
  | none =>
    cases hg : (s.round != round || s.phase != .commit) <;> cases hj : s.foundJustBottom round <;>
      cases ht : s.phaseTimeoutElapsed now <;>
      cases hf : (s.getRound round).committed.fromStrong s.tbl <;>
      cases hs : s.shouldRebroadcast now <;> simp [sqvFound, sqvZero, hq, hg, hj, ht, hf, hs]

end F3.Gen2Tie
