import F3.Proofs.Bridge
import F3.Model.Valid
/-!
# The executable validity checker is sound, and the hypotheses of the end-to-end theorems are satisfiable
-/
namespace F3.Bridge
open F3.Instance

/-- the votes in existence, given as a list -/
def Wof (votes : List Vote) : Votes := fun x r ph v => (x, r, ph, v) ∈ votes

theorem increasing_pairwise : ∀ l : List Nat, increasing l = true → l.Pairwise (· < ·)
  | [], _ => List.Pairwise.nil
  | [_], _ => by simp
  | a :: b :: l, h => by
    simp only [increasing, Bool.and_eq_true, decide_eq_true_eq] at h
    have ih := increasing_pairwise (b :: l) h.2
    refine List.Pairwise.cons ?_ ih
    intro x hx
    rcases List.mem_cons.1 hx with rfl | hx
    · exact h.1
    · exact Nat.lt_trans h.1 ((List.pairwise_cons.1 ih).1 x hx)

theorem justOkB_sound (votes : List Vote) (t : Table) (j : Just) (h : justOkB votes t j = true) :
    JustOk (Wof votes) t j := by
  unfold justOkB at h
  simp only [Bool.and_eq_true, List.all_eq_true] at h
  obtain ⟨⟨hinc, hall⟩, hs⟩ := h
  refine ⟨increasing_pairwise _ hinc, ?_, hs, ?_⟩
  · intro i hi
    have := hall i hi
    split at this
    · rename_i e he
      simp only [Bool.and_eq_true, decide_eq_true_eq] at this
      have hlt : i < t.entries.length := by
        rcases Nat.lt_or_ge i t.entries.length with h | h
        · exact h
        · rw [List.getElem?_eq_none h] at he; cases he
      exact ⟨hlt, by unfold Table.powerAt; rw [he]; exact this.1.1⟩
    · cases this
  · intro i hi
    have := hall i hi
    split at this
    · rename_i e he
      simp only [Bool.and_eq_true, decide_eq_true_eq, beq_iff_eq, List.contains_iff_mem] at this
      exact ⟨e.1, this.1.2, this.2⟩
    · cases this

theorem isEmpty_false_ne {c : Chain} (h : (!c.isEmpty) = true) : c ≠ [] := by
  cases c <;> simp_all

theorem msgValidB_sound (votes : List Vote) (t : Table) (m : Msg) (h : msgValidB votes t m = true) :
    MsgValid (Wof votes) t m := by
  unfold msgValidB at h
  simp only [Bool.and_eq_true, decide_eq_true_eq, List.contains_iff_mem] at h
  obtain ⟨⟨hw, hp⟩, hs⟩ := h
  refine ⟨hw, hp, ?_⟩
  unfold msgShapeB at hs
  cases hph : m.phase <;> simp only [hph] at hs ⊢
  · cases hs
  · simp only [Bool.and_eq_true, beq_iff_eq, Bool.and_true] at hs
    exact ⟨hs.1, isEmpty_false_ne hs.2⟩
  · simp only [Bool.and_eq_true, decide_eq_true_eq] at hs
    obtain ⟨⟨hr, hne⟩, hj⟩ := hs
    refine ⟨hr, isEmpty_false_ne hne, ?_⟩
    cases hmj : m.just with
    | none => rw [hmj] at hj; cases hj
    | some j =>
      rw [hmj] at hj
      simp only [justFor, hph, Bool.and_eq_true, beq_iff_eq, Bool.or_eq_true, List.isEmpty_iff] at hj
      exact ⟨j, rfl, justOkB_sound _ _ _ hj.1.1, hj.1.2, hj.2⟩
  · have hj := hs
    refine ⟨?_, ?_⟩
    · intro hr
      simp only [hr, beq_self_eq_true, if_true, Option.isNone_iff_eq_none] at hj
      exact hj
    · intro hr
      have hr' : (m.round == 0) = false := by simp; omega
      simp only [hr', Bool.false_eq_true, if_false] at hj
      cases hmj : m.just with
      | none => rw [hmj] at hj; cases hj
      | some j =>
        rw [hmj] at hj
        simp only [justFor, hph, Bool.and_eq_true, beq_iff_eq, Bool.or_eq_true, List.isEmpty_iff] at hj
        exact ⟨j, rfl, justOkB_sound _ _ _ hj.1.1, hj.1.2, hj.2⟩
  · constructor
    · intro hv
      simp only [hv, List.isEmpty_nil, if_true, Option.isNone_iff_eq_none] at hs
      exact hs
    · intro hv
      have : m.value.isEmpty = false := by cases hc : m.value <;> simp_all
      simp only [this, Bool.false_eq_true, if_false] at hs
      cases hmj : m.just with
      | none => rw [hmj] at hs; cases hs
      | some j =>
        rw [hmj] at hs
        simp only [justFor, hph, Bool.and_eq_true, beq_iff_eq] at hs
        exact ⟨j, rfl, justOkB_sound _ _ _ hs.1.1.1, hs.1.1.2, hs.1.2, hs.2⟩
  · simp only [Bool.and_eq_true, beq_iff_eq] at hs
    obtain ⟨⟨hr, hne⟩, hj⟩ := hs
    refine ⟨hr, isEmpty_false_ne hne, ?_⟩
    cases hmj : m.just with
    | none => rw [hmj] at hj; cases hj
    | some j =>
      rw [hmj] at hj
      simp only [justFor, hph, Bool.and_eq_true, beq_iff_eq] at hj
      exact ⟨j, rfl, justOkB_sound _ _ _ hj.1.1, hj.1.2, hj.2⟩
  · cases hs

def opValidB (votes : List Vote) (t : Table) : Op → Bool
  | .recv _ m => msgValidB votes t m
  | _ => true

theorem opValidB_sound (votes : List Vote) (t : Table) (ops : List Op)
    (h : ops.all (fun op => foreign op || opValidB votes t op) = true) :
    ∀ op ∈ ops, foreign op = true ∨ OpValidG (Wof votes) t op := by
  intro op hop
  have := List.all_eq_true.1 h op hop
  simp only [Bool.or_eq_true] at this
  rcases this with hf | hv
  · exact Or.inl hf
  · right
    cases op with
    | recv now m => exact msgValidB_sound votes t m hv
    | start _ => trivial
    | alarm _ => trivial


/-! ### a concrete network: four members of equal power, member 4 Byzantine and equivocating in PREPARE -/
section Example

def exTbl : Table := { entries := [(1, 1), (2, 1), (3, 1), (4, 1)] }
def exCfg : Cfg := { maxLookahead := 2, rebImmediateAfter := 3, timeout2 := [100], qualityTimeout2 := 100, rebAfter := [50] }
def exJp : Just := { round := 0, phase := .prepare, value := [7,8], signers := [0,1,2] }
def exJc : Just := { round := 0, phase := .commit, value := [7,8], signers := [0,1,2] }
def exVotes : List Vote :=
  [(1,0,.quality,[7,8]), (1,0,.prepare,[7,8]), (1,0,.commit,[7,8]), (1,0,.decide,[7,8]),
   (2,0,.quality,[7,8]), (2,0,.prepare,[7,8]), (2,0,.commit,[7,8]), (2,0,.decide,[7,8]),
   (3,0,.quality,[7,8]), (3,0,.prepare,[7,8]), (3,0,.commit,[7,8]), (3,0,.decide,[7,8]),
   (4,0,.prepare,[7,9]), (4,0,.prepare,[7,8])]
def exOps : List Op :=
  [.start 0,
   .recv 1 { sender := 1, round := 0, phase := .quality, value := [7,8] },
   .recv 2 { sender := 2, round := 0, phase := .quality, value := [7,8] },
   .recv 3 { sender := 4, round := 0, phase := .prepare, value := [7,9] },
   .recv 4 { sender := 3, round := 0, phase := .quality, value := [7,8] },
   .recv 5 { sender := 4, round := 0, phase := .prepare, value := [9,9], suppOk := false },
   .recv 12 { sender := 4, round := 0, phase := .prepare, value := [7,8] },
   .recv 13 { sender := 1, round := 0, phase := .prepare, value := [7,8] },
   .recv 14 { sender := 2, round := 0, phase := .prepare, value := [7,8] },
   .recv 15 { sender := 3, round := 0, phase := .prepare, value := [7,8] },
   .recv 16 { sender := 1, round := 0, phase := .commit, value := [7,8], just := some exJp },
   .recv 17 { sender := 2, round := 0, phase := .commit, value := [7,8], just := some exJp },
   .recv 18 { sender := 3, round := 0, phase := .commit, value := [7,8], just := some exJp },
   .recv 19 { sender := 1, round := 0, phase := .decide, value := [7,8], just := some exJc },
   .recv 20 { sender := 2, round := 0, phase := .decide, value := [7,8], just := some exJc },
   .recv 21 { sender := 3, round := 0, phase := .decide, value := [7,8], just := some exJc },
   .recv 22 { sender := 1, round := 0, phase := .decide, value := [7,8], just := some exJc }]

def exF : Finset Pid := {4}
abbrev exW : Votes := Wof exVotes

def bcTriple : Eff → Option (Nat × Instance.Phase × Chain)
  | .broadcast r ph v _ _ => some (r, ph, v)
  | _ => none

theorem bc_iff_triple (es : List Eff) (r : Nat) (ph : Instance.Phase) (v : Chain) :
    (∃ tk j, Eff.broadcast r ph v tk j ∈ es) ↔ (r, ph, v) ∈ es.filterMap bcTriple := by
  rw [List.mem_filterMap]
  constructor
  · rintro ⟨tk, j, h⟩; exact ⟨_, h, rfl⟩
  · rintro ⟨e, he, h⟩
    cases e <;> simp [bcTriple] at h
    obtain ⟨rfl, rfl, rfl⟩ := h
    exact ⟨_, _, he⟩

def votesOf (votes : List Vote) (p : Pid) : List (Nat × Instance.Phase × Chain) :=
  votes.filterMap (fun e => if e.1 = p then some e.2 else none)

theorem votesOf_iff (votes : List Vote) (p : Pid) (r : Nat) (ph : Instance.Phase) (v : Chain) :
    Wof votes p r ph v ↔ (r, ph, v) ∈ votesOf votes p := by
  unfold Wof votesOf
  rw [List.mem_filterMap]
  constructor
  · intro h; exact ⟨_, h, by simp⟩
  · rintro ⟨⟨x, e⟩, he, h⟩
    dsimp only at h
    split at h
    · rename_i hx
      cases h; cases hx; exact he
    · cases h

/-- the run of each of the three honest members (they happen to see the same delivery order) -/
def exRun (p : Pid) (hp : p = 1 ∨ p = 2 ∨ p = 3) : HonestRun exW exTbl p where
  cfg := exCfg
  input := [7, 8]
  ops := exOps
  inputNe := by decide
  valid := opValidB_sound exVotes exTbl exOps (by decide)
  ok := by decide
  own := by
    intro r ph v
    show Wof exVotes p r ph v ↔ _
    rw [bc_iff_triple, votesOf_iff]
    have : votesOf exVotes p = (run (init exCfg exTbl [7, 8]) exOps).2.filterMap bcTriple := by
      rcases hp with rfl | rfl | rfl <;> decide
    rw [this]

theorem ex_ids : (ids exTbl).toFinset = {1, 2, 3, 4} := by decide

def exNet : Network exTbl exF exW where
  idsNodup := by decide
  totalPos := by decide
  faultBound := by
    rw [total_eq exTbl exF exW (by decide)]
    show 3 * (∑ p ∈ ({4} : Finset Pid), exTbl.power p) < exTbl.total
    rw [Finset.sum_singleton]
    decide
  nonMembers := by
    intro p hp r ph v hw
    rw [ex_ids] at hp
    have hm : ∀ e ∈ exVotes, e.1 = 1 ∨ e.1 = 2 ∨ e.1 = 3 ∨ e.1 = 4 := by decide
    have := hm _ hw
    simp only [Finset.mem_insert, Finset.mem_singleton] at hp
    exact hp this
  runs := fun p hp hF => exRun p (by
    rw [ex_ids] at hp
    simp only [Finset.mem_insert, Finset.mem_singleton, exF] at hp hF
    rcases hp with h | h | h | h
    · exact Or.inl h
    · exact Or.inr (Or.inl h)
    · exact Or.inr (Or.inr h)
    · exact absurd h hF)

/-- In the example network the Byzantine member has equivocated, honest member 1 reports a decision, and the
hypotheses of `model_agreement` / `model_validity` are met. -/
theorem ex_network_decides :
    exW 4 0 .prepare [7, 9] ∧ exW 4 0 .prepare [7, 8] ∧
    ∃ d, (run (init (exNet.runs 1 (by decide) (by decide)).cfg exTbl (exNet.runs 1 (by decide) (by decide)).input)
      (exNet.runs 1 (by decide) (by decide)).ops).1.termination = some d ∧ d.value = [7, 8] := by
  refine ⟨by show _ ∈ exVotes; decide, by show _ ∈ exVotes; decide, ?_⟩
  exact ⟨{ round := 0, phase := .decide, value := [7, 8], signers := [0, 1, 2] }, by decide, rfl⟩

end Example

end F3.Bridge
