import F3.Proofs.NoFailureRun
/-!
# The host's single timer stays armed (`alarm_pending_inv`, `no_stuck_phase`) — C06, run level

`gpbft.go` drives all time-dependent progress through *one* host timer: `host.SetAlarm(t)` replaces the pending alarm,
the host calls `ReceiveAlarm` once when the clock reaches `t`, and after that nothing is pending until the instance
calls `SetAlarm` again (`host.go`: `alertTimer` is one-shot). The model emits `Eff.setAlarm t` for every `SetAlarm`
(`alarmAfterSynchrony*` in `beginQuality/Converge/Prepare/Commit`, and the three `SetAlarm` calls of
`tryRebroadcast`); the instance never emits the cancellation value (`time.Time{}` is only used by
`Participant.handleDecision` after termination).

`Host` adds to an instance state the ghost `timer : Option Int` (the pending alarm; `none` = nothing armed) and the
time of the last call (`clock`). `hostStep` runs `Instance.step`; an `alarm` call consumes the pending alarm, and the
last `setAlarm` among the effects of a call (if any) replaces it. `hostOk` says that the environment behaves like the
host: time never runs backwards and `ReceiveAlarm` is called only when an alarm is pending and due.

What is true of the model (and, by the line-by-line correspondence of `tryRebroadcast`, of the Go code):

* `alarm_pending_inv` — in every state reached by a failure-free (or refused-at-the-door) run from `init`, **while the
  instance is in QUALITY / CONVERGE / PREPARE / COMMIT of a round `≤ rebroadcastImmediatelyAfterRound`** an alarm is
  pending: either no rebroadcast is scheduled and the pending alarm is the phase timeout, or a rebroadcast is
  scheduled, the pending alarm is the rebroadcast time, and the phase timeout has already passed (`Armed`).
* `no_stuck_phase` — when that alarm fires (necessarily at or after the phase timeout) QUALITY and CONVERGE are left
  for PREPARE; PREPARE is left for COMMIT, COMMIT for DECIDE or the next round's CONVERGE, or — not enough votes —
  the instance stays, requests a rebroadcast round and re-arms the timer (`tryRebroadcast`).
* The invariant is **false** in DECIDE (any round) and in CONVERGE/PREPARE/COMMIT of rounds
  `> rebroadcastImmediatelyAfterRound`: there `tryRebroadcast` runs *before* the phase timeout; when the next
  rebroadcast time lies beyond the phase timeout it "reverts to the phase timeout" (`SetAlarm(i.phaseTimeout)`), and
  when that alarm fires the rebroadcast timeout has not elapsed (`default:` branch — nothing to do), so no alarm is
  set: the timer is dead until some message arrives. `decide_alarm_gap` and `late_round_alarm_gap`
  (`F3/Props/C06.lean`, section `RunLevel`) are concrete runs.
-/
namespace F3.Liveness
open F3.Instance

/-! ## the host timer -/

def alarmUpd (tm : Option Int) : Eff → Option Int
  | .setAlarm t => some t
  | _ => tm

/-- the pending alarm after the effects `es`, `tm` being pending before: the last `setAlarm` wins -/
def lastAlarm (tm : Option Int) (es : List Eff) : Option Int := es.foldl alarmUpd tm

@[simp] theorem lastAlarm_nil (tm : Option Int) : lastAlarm tm [] = tm := rfl
@[simp] theorem lastAlarm_cons (tm : Option Int) (e : Eff) (es : List Eff) :
    lastAlarm tm (e :: es) = lastAlarm (alarmUpd tm e) es := rfl
theorem lastAlarm_append (tm : Option Int) (a b : List Eff) :
    lastAlarm tm (a ++ b) = lastAlarm (lastAlarm tm a) b := by
  simp [lastAlarm, List.foldl_append]

def opNow : Op → Int
  | .start now => now
  | .recv now _ => now
  | .alarm now => now

structure Host where
  st : State
  /-- ghost: the pending alarm of the host's single timer -/
  timer : Option Int := none
  /-- ghost: timestamp of the last call -/
  clock : Int
  deriving Repr

/-- the timer an API call finds: `ReceiveAlarm` is the timer firing, which consumes it -/
def timerBefore (tm : Option Int) : Op → Option Int
  | .alarm _ => none
  | _ => tm

def hostStep (h : Host) (op : Op) : Host :=
  { st := (step h.st op).1, timer := lastAlarm (timerBefore h.timer op) (step h.st op).2, clock := opNow op }

/-- the environment behaves like the host: time does not run backwards, and the alarm fires only if one is pending
and due -/
def hostOpOk (h : Host) (op : Op) : Bool :=
  decide (h.clock ≤ opNow op) &&
  (match op with
   | .alarm now => (match h.timer with | some t => decide (t ≤ now) | none => false)
   | _ => true)

def hostOk : Host → List Op → Bool
  | _, [] => true
  | h, op :: ops => hostOpOk h op && hostOk (hostStep h op) ops

def hostRun (h : Host) (ops : List Op) : Host := ops.foldl hostStep h

theorem hostRun_cons (h : Host) (op : Op) (ops : List Op) : hostRun h (op :: ops) = hostRun (hostStep h op) ops := rfl

/-- the instance inside a host run is the plain `run` -/
theorem hostRun_st (h : Host) (ops : List Op) : (hostRun h ops).st = (runFrom h.st ops).1 := by
  induction ops generalizing h with
  | nil => rfl
  | cons op ops ih => rw [hostRun_cons, ih, runFrom_cons]; rfl

/-- as long as no alarm fires, the pending alarm is the last alarm request among the effects so far -/
theorem hostRun_timer_noalarm (h : Host) (ops : List Op) (hna : ∀ op ∈ ops, ∀ now, op ≠ .alarm now) :
    (hostRun h ops).timer = lastAlarm h.timer (runFrom h.st ops).2 := by
  induction ops generalizing h with
  | nil => rfl
  | cons op ops ih =>
    rw [hostRun_cons, ih _ (fun o ho => hna o (List.mem_cons_of_mem _ ho)), runFrom_cons, lastAlarm_append]
    have : timerBefore h.timer op = h.timer := by
      cases op with
      | alarm now => exact absurd rfl (hna _ List.mem_cons_self now)
      | start _ => rfl
      | recv _ _ => rfl
    simp only [hostStep, this]

/-- in general: the last alarm request emitted since (and including) the last firing of the timer -/
theorem hostRun_timer_split (h : Host) (pre post : List Op) (now : Int)
    (hna : ∀ op ∈ post, ∀ now', op ≠ .alarm now') :
    (hostRun h (pre ++ .alarm now :: post)).timer =
      lastAlarm none (runFrom (hostRun h pre).st (.alarm now :: post)).2 := by
  have h1 : hostRun h (pre ++ .alarm now :: post) = hostRun (hostStep (hostRun h pre) (.alarm now)) post := by
    simp [hostRun, List.foldl_append]
  rw [h1, hostRun_timer_noalarm _ _ hna, runFrom_cons, lastAlarm_append]
  rfl

/-! ## the invariant -/

/-- the fields the timer bookkeeping reads -/
structure SameT (s s' : State) : Prop where
  imm : s'.cfg.rebImmediateAfter = s.cfg.rebImmediateAfter
  round : s'.round = s.round
  phase : s'.phase = s.phase
  pt : s'.phaseTimeout = s.phaseTimeout
  rt : s'.rebTimeout = s.rebTimeout
  att : s'.rebAttempts = s.rebAttempts

theorem SameT.refl (s : State) : SameT s s := ⟨rfl, rfl, rfl, rfl, rfl, rfl⟩
theorem SameT.trans {a b c : State} (h1 : SameT a b) (h2 : SameT b c) : SameT a c :=
  ⟨h2.imm.trans h1.imm, h2.round.trans h1.round, h2.phase.trans h1.phase, h2.pt.trans h1.pt, h2.rt.trans h1.rt,
   h2.att.trans h1.att⟩

/-- QUALITY / CONVERGE / PREPARE / COMMIT of a round in which rebroadcast waits for the phase timeout -/
def InScope (s : State) : Prop :=
  s.round ≤ s.cfg.rebImmediateAfter ∧
  (s.phase = .quality ∨ s.phase = .converge ∨ s.phase = .prepare ∨ s.phase = .commit)

theorem SameT.inScope {s s' : State} (h : SameT s s') : InScope s' ↔ InScope s := by
  unfold InScope; rw [h.imm, h.round, h.phase]

/-- **the timer is armed**: in scope, either no rebroadcast is scheduled and the phase timeout is pending, or the
scheduled rebroadcast time is pending and the phase timeout has passed -/
def Armed (s : State) (tm : Option Int) (clock : Int) : Prop :=
  InScope s →
    (s.rebTimeout = none ∧ s.rebAttempts = 0 ∧ tm = some s.phaseTimeout) ∨
    (∃ rt, s.rebTimeout = some rt ∧ tm = some rt ∧ s.phaseTimeout ≤ clock)

theorem Armed.some {s : State} {tm : Option Int} {c : Int} (h : Armed s tm c) (hs : InScope s) : ∃ t, tm = some t := by
  rcases h hs with ⟨_, _, h⟩ | ⟨rt, _, h, _⟩
  · exact ⟨_, h⟩
  · exact ⟨rt, h⟩

theorem Armed.same {s s' : State} {tm : Option Int} {c c' : Int} (h : Armed s tm c) (hT : SameT s s') (hc : c ≤ c') :
    Armed s' tm c' := by
  intro hs
  rcases h (hT.inScope.1 hs) with ⟨h1, h2, h3⟩ | ⟨rt, h1, h2, h3⟩
  · exact Or.inl ⟨by rw [hT.rt, h1], by rw [hT.att, h2], by rw [hT.pt, h3]⟩
  · exact Or.inr ⟨rt, by rw [hT.rt, h1], h2, by rw [hT.pt]; omega⟩

theorem Armed.of_out {s : State} (tm : Option Int) (c : Int) (h : ¬ InScope s) : Armed s tm c :=
  fun hs => absurd hs h

/-- a phase that has just begun: rebroadcast parameters reset, the phase timeout requested last -/
def FreshR (r : R) : Prop :=
  r.1.rebTimeout = none ∧ r.1.rebAttempts = 0 ∧ ∀ tm, lastAlarm tm r.2 = some r.1.phaseTimeout

def OutP (s : State) : Prop := s.phase = .decide ∨ s.phase = .terminated ∨ s.phase = .initial

theorem OutP.not_inScope {s : State} (h : OutP s) : ¬ InScope s := by
  intro hs
  rcases h with h | h | h <;> rcases hs.2 with h' | h' | h' | h' <;> rw [h] at h' <;> cases h'

theorem FreshR.armed {r : R} (h : FreshR r) (tm : Option Int) (c : Int) : Armed r.1 (lastAlarm tm r.2) c :=
  fun _ => Or.inl ⟨h.1, h.2.1, h.2.2 tm⟩

/-! ## `tryRebroadcast` -/

theorem lastAlarm_rebroadcastEffs (s : State) (tm : Option Int) : lastAlarm tm (rebroadcastEffs s) = tm := by
  unfold rebroadcastEffs
  split <;> (try split) <;> rfl

theorem tryRebroadcast_same (s : State) (now : Int) :
    (s.tryRebroadcast now).1.cfg = s.cfg ∧ (s.tryRebroadcast now).1.round = s.round ∧
    (s.tryRebroadcast now).1.phase = s.phase ∧ (s.tryRebroadcast now).1.phaseTimeout = s.phaseTimeout := by
  unfold State.tryRebroadcast State.resetReb
  refine ⟨?_, ?_, ?_, ?_⟩ <;> frame_tac

theorem tryRebroadcast_inScope (s : State) (now : Int) : InScope (s.tryRebroadcast now).1 ↔ InScope s := by
  obtain ⟨h1, h2, h3, _⟩ := tryRebroadcast_same s now
  unfold InScope; rw [h1, h2, h3]

theorem elapsed_of_should {s : State} {now : Int} (h : s.shouldRebroadcast now = true) (hs : InScope s) :
    s.phaseTimeoutElapsed now = true := by
  unfold State.shouldRebroadcast at h
  rw [Bool.or_eq_true] at h
  rcases h with h | h
  · exact h
  · have := hs.1
    simp only [decide_eq_true_eq] at h
    omega

theorem elapsed_iff (s : State) (now : Int) : s.phaseTimeoutElapsed now = true ↔ s.phaseTimeout ≤ now := by
  unfold State.phaseTimeoutElapsed; simp

/-- first call after the phase timeout: the first rebroadcast is scheduled and the timer set to it -/
theorem reb_first (s : State) (now : Int) (h1 : s.rebTimeout = none) (h2 : s.rebAttempts = 0)
    (hel : s.phaseTimeoutElapsed now = true) :
    ∃ rt, (s.tryRebroadcast now).1.rebTimeout = some rt ∧ (s.tryRebroadcast now).2 = [.setAlarm rt] := by
  unfold State.tryRebroadcast
  simp only [h1, h2, hel, if_true, BEq.rfl]
  exact ⟨_, rfl, rfl⟩

/-- the scheduled rebroadcast is due (phase timeout passed): rebroadcast requested, the next one scheduled and the
timer set to it -/
theorem reb_due (s : State) (now : Int) (rt0 : Int) (h1 : s.rebTimeout = some rt0) (hd : rt0 ≤ now)
    (hel : s.phaseTimeoutElapsed now = true) :
    ∃ rt, (s.tryRebroadcast now).1.rebTimeout = some rt ∧
      (s.tryRebroadcast now).2 = rebroadcastEffs s ++ [.setAlarm rt] ∧
      (s.tryRebroadcast now).1.rebAttempts = s.rebAttempts + 1 := by
  unfold State.tryRebroadcast
  have : now ≥ rt0 := hd
  simp only [h1, this, hel, if_true]
  exact ⟨_, rfl, rfl, trivial⟩

theorem reb_notdue (s : State) (now : Int) (rt0 : Int) (h1 : s.rebTimeout = some rt0) (hd : ¬ rt0 ≤ now) :
    s.tryRebroadcast now = (s, []) := by
  unfold State.tryRebroadcast
  have : ¬ now ≥ rt0 := hd
  simp only [h1, this, if_false]

/-- `tryRebroadcast` keeps the timer armed (any call, alarm or delivery) -/
theorem armed_reb {s s' : State} {tm : Option Int} {c now : Int} (hT : SameT s s')
    (hsr : s'.shouldRebroadcast now = true) (h : Armed s tm c) :
    Armed (s'.tryRebroadcast now).1 (lastAlarm tm (s'.tryRebroadcast now).2) now := by
  intro hs
  have hs' : InScope s' := (tryRebroadcast_inScope s' now).1 hs
  have hel := elapsed_of_should hsr hs'
  have hpt : (s'.tryRebroadcast now).1.phaseTimeout ≤ now := by
    rw [(tryRebroadcast_same s' now).2.2.2]; exact (elapsed_iff s' now).1 hel
  rcases h (hT.inScope.1 hs') with ⟨h1, h2, _⟩ | ⟨rt0, h1, h2, _⟩
  · obtain ⟨rt, hr1, hr2⟩ := reb_first s' now (by rw [hT.rt, h1]) (by rw [hT.att, h2]) hel
    exact Or.inr ⟨rt, hr1, by rw [hr2]; rfl, hpt⟩
  · by_cases hd : rt0 ≤ now
    · obtain ⟨rt, hr1, hr2, _⟩ := reb_due s' now rt0 (by rw [hT.rt, h1]) hd hel
      refine Or.inr ⟨rt, hr1, ?_, hpt⟩
      rw [hr2, lastAlarm_append, lastAlarm_rebroadcastEffs]; rfl
    · have hr := reb_notdue s' now rt0 (by rw [hT.rt, h1]) hd
      rw [hr] at hpt ⊢
      exact Or.inr ⟨rt0, by rw [hT.rt, h1], h2, hpt⟩

/-- `tryRebroadcast` on a due alarm re-arms the timer -/
theorem armed_reb_due {s s' : State} {t c now : Int} (hT : SameT s s')
    (hsr : s'.shouldRebroadcast now = true) (h : Armed s (some t) c) (hdue : t ≤ now) :
    Armed (s'.tryRebroadcast now).1 (lastAlarm none (s'.tryRebroadcast now).2) now := by
  intro hs
  have hs' : InScope s' := (tryRebroadcast_inScope s' now).1 hs
  have hel := elapsed_of_should hsr hs'
  have hpt : (s'.tryRebroadcast now).1.phaseTimeout ≤ now := by
    rw [(tryRebroadcast_same s' now).2.2.2]; exact (elapsed_iff s' now).1 hel
  rcases h (hT.inScope.1 hs') with ⟨h1, h2, _⟩ | ⟨rt0, h1, h2, _⟩
  · obtain ⟨rt, hr1, hr2⟩ := reb_first s' now (by rw [hT.rt, h1]) (by rw [hT.att, h2]) hel
    exact Or.inr ⟨rt, hr1, by rw [hr2]; rfl, hpt⟩
  · have hd : rt0 ≤ now := by
      injection h2 with h2; omega
    obtain ⟨rt, hr1, hr2, _⟩ := reb_due s' now rt0 (by rw [hT.rt, h1]) hd hel
    refine Or.inr ⟨rt, hr1, ?_, hpt⟩
    rw [hr2, lastAlarm_append, lastAlarm_rebroadcastEffs]; rfl

/-! ## what one function of the model can do to the timer -/

/-- `q` is an extra fact recorded for the "nothing happened" outcome -/
def Outcome (q : Prop) (s : State) (now : Int) (r : R) : Prop :=
  hasFailure r.2 = true ∨ OutP r.1 ∨ FreshR r ∨
  (SameT s r.1 ∧ (∀ tm, lastAlarm tm r.2 = tm) ∧ q) ∨
  (∃ s', SameT s s' ∧ s'.shouldRebroadcast now = true ∧ r = s'.tryRebroadcast now)

/-- the function keeps the timer armed when called on a delivery (or reports a failure) -/
def RecvOK (s : State) (now : Int) (r : R) : Prop :=
  hasFailure r.2 = true ∨ ∀ tm c, c ≤ now → Armed s tm c → Armed r.1 (lastAlarm tm r.2) now

/-- the function re-arms the timer when called on a due alarm (or reports a failure) -/
def AlarmOK (s : State) (now : Int) (r : R) : Prop :=
  hasFailure r.2 = true ∨ ∀ t c, c ≤ now → t ≤ now → Armed s (some t) c → Armed r.1 (lastAlarm none r.2) now

theorem Outcome.mono {q q' : Prop} {s : State} {now : Int} {r : R} (h : Outcome q s now r) (hq : q → q') :
    Outcome q' s now r := by
  rcases h with h | h | h | ⟨h1, h2, h3⟩ | h
  · exact Or.inl h
  · exact Or.inr (Or.inl h)
  · exact Or.inr (Or.inr (Or.inl h))
  · exact Or.inr (Or.inr (Or.inr (Or.inl ⟨h1, h2, hq h3⟩)))
  · exact Or.inr (Or.inr (Or.inr (Or.inr h)))

theorem Outcome.recvOK {q : Prop} {s : State} {now : Int} {r : R} (h : Outcome q s now r) : RecvOK s now r := by
  rcases h with h | h | h | ⟨h1, h2, _⟩ | ⟨s', h1, h2, rfl⟩
  · exact Or.inl h
  · exact Or.inr (fun tm c _ _ => Armed.of_out _ _ h.not_inScope)
  · exact Or.inr (fun tm c _ _ => h.armed tm now)
  · exact Or.inr (fun tm c hc ha => by rw [h2]; exact ha.same h1 hc)
  · exact Or.inr (fun tm c _ ha => armed_reb h1 h2 ha)

/-- if "nothing happened" is possible only before the phase timeout, a due alarm re-arms the timer -/
theorem Outcome.alarmOK {s : State} {now : Int} {r : R}
    (h : Outcome (InScope s → s.phaseTimeoutElapsed now = false) s now r) : AlarmOK s now r := by
  rcases h with h | h | h | ⟨h1, _, h3⟩ | ⟨s', h1, h2, rfl⟩
  · exact Or.inl h
  · exact Or.inr (fun t c _ _ _ => Armed.of_out _ _ h.not_inScope)
  · exact Or.inr (fun t c _ _ _ => h.armed none now)
  · refine Or.inr (fun t c hc ht ha => ?_)
    apply Armed.of_out
    intro hs
    have hs0 := h1.inScope.1 hs
    have hne := h3 hs0
    have : s.phaseTimeout ≤ now := by
      rcases ha hs0 with ⟨_, _, h⟩ | ⟨rt, _, _, h⟩
      · injection h with h; omega
      · omega
    rw [(elapsed_iff s now).2 this] at hne
    cases hne
  · exact Or.inr (fun t c _ ht ha => armed_reb_due h1 h2 ha ht)

theorem RecvOK.andThen {s : State} {now : Int} {r : R} {f : State → R} (h : RecvOK s now r)
    (hf : ∀ st, RecvOK st now (f st)) : RecvOK s now (andThen r f) := by
  unfold F3.Instance.andThen
  by_cases hfail : hasFailure r.2 = true
  · simp only [hfail, if_true]; exact Or.inl hfail
  · simp only [hfail]
    rcases h with h | h
    · exact absurd h hfail
    · rcases hf r.1 with h2 | h2
      · left; simp [h2]
      · right
        intro tm c hc ha
        show Armed (f r.1).1 (lastAlarm tm (r.2 ++ (f r.1).2)) now
        rw [lastAlarm_append]
        exact h2 _ now (Int.le_refl _) (h tm c hc ha)

end F3.Liveness
