import F3.Proofs.InstanceTrans
/-! Frame lemmas (generated skeleton, see tools note in DESIGN): which fields each function of the instance
model leaves untouched. `FrameD`: table, config, input, decision tally and termination value. -/
namespace F3.Instance

macro "frame_tac" : tactic => `(tactic| ((try dsimp only); repeat' (first | rfl | split | (simp; done) | simp)))

structure FrameD (s s' : State) : Prop where
  tbl : s'.tbl = s.tbl
  cfg : s'.cfg = s.cfg
  input : s'.input = s.input
  decision : s'.decision = s.decision
  termination : s'.termination = s.termination

theorem FrameD.refl (s : State) : FrameD s s := ⟨rfl, rfl, rfl, rfl, rfl⟩
theorem FrameD.trans {a b c : State} (h1 : FrameD a b) (h2 : FrameD b c) : FrameD a c :=
  ⟨h2.tbl.trans h1.tbl, h2.cfg.trans h1.cfg, h2.input.trans h1.input, h2.decision.trans h1.decision,
   h2.termination.trans h1.termination⟩

macro "frameD_tac" : tactic => `(tactic| (refine ⟨?_, ?_, ?_, ?_, ?_⟩ <;> frame_tac))


theorem addCandidate_frame (s : State) (c : Chain) : FrameD s (s.addCandidate c).1 := by
  unfold State.addCandidate; frameD_tac
@[simp] theorem addCandidate_tbl (s : State) (c : Chain) : (s.addCandidate c).1.tbl = s.tbl := (addCandidate_frame s c).tbl
@[simp] theorem addCandidate_cfg (s : State) (c : Chain) : (s.addCandidate c).1.cfg = s.cfg := (addCandidate_frame s c).cfg
@[simp] theorem addCandidate_input (s : State) (c : Chain) : (s.addCandidate c).1.input = s.input := (addCandidate_frame s c).input
@[simp] theorem addCandidate_decision (s : State) (c : Chain) : (s.addCandidate c).1.decision = s.decision := (addCandidate_frame s c).decision
@[simp] theorem addCandidate_termination (s : State) (c : Chain) : (s.addCandidate c).1.termination = s.termination := (addCandidate_frame s c).termination

theorem tryRebroadcast_frame (s : State) (now : Int) : FrameD s (s.tryRebroadcast now).1 := by
  unfold State.tryRebroadcast State.resetReb; frameD_tac
@[simp] theorem tryRebroadcast_tbl (s : State) (now : Int) : (s.tryRebroadcast now).1.tbl = s.tbl := (tryRebroadcast_frame s now).tbl
@[simp] theorem tryRebroadcast_cfg (s : State) (now : Int) : (s.tryRebroadcast now).1.cfg = s.cfg := (tryRebroadcast_frame s now).cfg
@[simp] theorem tryRebroadcast_input (s : State) (now : Int) : (s.tryRebroadcast now).1.input = s.input := (tryRebroadcast_frame s now).input
@[simp] theorem tryRebroadcast_decision (s : State) (now : Int) : (s.tryRebroadcast now).1.decision = s.decision := (tryRebroadcast_frame s now).decision
@[simp] theorem tryRebroadcast_termination (s : State) (now : Int) : (s.tryRebroadcast now).1.termination = s.termination := (tryRebroadcast_frame s now).termination

theorem beginQuality_frame (s : State) (now : Int) : FrameD s (s.beginQuality now).1 := by
  unfold State.beginQuality State.alarmAfter State.resetReb; frameD_tac
@[simp] theorem beginQuality_tbl (s : State) (now : Int) : (s.beginQuality now).1.tbl = s.tbl := (beginQuality_frame s now).tbl
@[simp] theorem beginQuality_cfg (s : State) (now : Int) : (s.beginQuality now).1.cfg = s.cfg := (beginQuality_frame s now).cfg
@[simp] theorem beginQuality_input (s : State) (now : Int) : (s.beginQuality now).1.input = s.input := (beginQuality_frame s now).input
@[simp] theorem beginQuality_decision (s : State) (now : Int) : (s.beginQuality now).1.decision = s.decision := (beginQuality_frame s now).decision
@[simp] theorem beginQuality_termination (s : State) (now : Int) : (s.beginQuality now).1.termination = s.termination := (beginQuality_frame s now).termination

theorem beginPrepare_frame (s : State) (now : Int) (j : Option Just) : FrameD s (s.beginPrepare now j).1 := by
  unfold State.beginPrepare State.alarmAfter State.resetReb; frameD_tac
@[simp] theorem beginPrepare_tbl (s : State) (now : Int) (j : Option Just) : (s.beginPrepare now j).1.tbl = s.tbl := (beginPrepare_frame s now j).tbl
@[simp] theorem beginPrepare_cfg (s : State) (now : Int) (j : Option Just) : (s.beginPrepare now j).1.cfg = s.cfg := (beginPrepare_frame s now j).cfg
@[simp] theorem beginPrepare_input (s : State) (now : Int) (j : Option Just) : (s.beginPrepare now j).1.input = s.input := (beginPrepare_frame s now j).input
@[simp] theorem beginPrepare_decision (s : State) (now : Int) (j : Option Just) : (s.beginPrepare now j).1.decision = s.decision := (beginPrepare_frame s now j).decision
@[simp] theorem beginPrepare_termination (s : State) (now : Int) (j : Option Just) : (s.beginPrepare now j).1.termination = s.termination := (beginPrepare_frame s now j).termination

theorem beginCommit_frame (s : State) (now : Int) : FrameD s (s.beginCommit now).1 := by
  unfold State.beginCommit State.alarmAfter State.resetReb; frameD_tac
@[simp] theorem beginCommit_tbl (s : State) (now : Int) : (s.beginCommit now).1.tbl = s.tbl := (beginCommit_frame s now).tbl
@[simp] theorem beginCommit_cfg (s : State) (now : Int) : (s.beginCommit now).1.cfg = s.cfg := (beginCommit_frame s now).cfg
@[simp] theorem beginCommit_input (s : State) (now : Int) : (s.beginCommit now).1.input = s.input := (beginCommit_frame s now).input
@[simp] theorem beginCommit_decision (s : State) (now : Int) : (s.beginCommit now).1.decision = s.decision := (beginCommit_frame s now).decision
@[simp] theorem beginCommit_termination (s : State) (now : Int) : (s.beginCommit now).1.termination = s.termination := (beginCommit_frame s now).termination

theorem beginConverge_frame (s : State) (now : Int) (j : Just) : FrameD s (s.beginConverge now j).1 := by
  unfold State.beginConverge State.alarmAfter State.resetReb State.setRound; frameD_tac
@[simp] theorem beginConverge_tbl (s : State) (now : Int) (j : Just) : (s.beginConverge now j).1.tbl = s.tbl := (beginConverge_frame s now j).tbl
@[simp] theorem beginConverge_cfg (s : State) (now : Int) (j : Just) : (s.beginConverge now j).1.cfg = s.cfg := (beginConverge_frame s now j).cfg
@[simp] theorem beginConverge_input (s : State) (now : Int) (j : Just) : (s.beginConverge now j).1.input = s.input := (beginConverge_frame s now j).input
@[simp] theorem beginConverge_decision (s : State) (now : Int) (j : Just) : (s.beginConverge now j).1.decision = s.decision := (beginConverge_frame s now j).decision
@[simp] theorem beginConverge_termination (s : State) (now : Int) (j : Just) : (s.beginConverge now j).1.termination = s.termination := (beginConverge_frame s now j).termination

theorem beginDecide_frame (s : State) (r : Nat) : FrameD s (s.beginDecide r).1 := by
  unfold State.beginDecide State.resetReb; frameD_tac
@[simp] theorem beginDecide_tbl (s : State) (r : Nat) : (s.beginDecide r).1.tbl = s.tbl := (beginDecide_frame s r).tbl
@[simp] theorem beginDecide_cfg (s : State) (r : Nat) : (s.beginDecide r).1.cfg = s.cfg := (beginDecide_frame s r).cfg
@[simp] theorem beginDecide_input (s : State) (r : Nat) : (s.beginDecide r).1.input = s.input := (beginDecide_frame s r).input
@[simp] theorem beginDecide_decision (s : State) (r : Nat) : (s.beginDecide r).1.decision = s.decision := (beginDecide_frame s r).decision
@[simp] theorem beginDecide_termination (s : State) (r : Nat) : (s.beginDecide r).1.termination = s.termination := (beginDecide_frame s r).termination

theorem skipToDecide_frame (s : State) (v : Chain) (j : Option Just) : FrameD s (s.skipToDecide v j).1 := by
  unfold State.skipToDecide State.resetReb; frameD_tac
@[simp] theorem skipToDecide_tbl (s : State) (v : Chain) (j : Option Just) : (s.skipToDecide v j).1.tbl = s.tbl := (skipToDecide_frame s v j).tbl
@[simp] theorem skipToDecide_cfg (s : State) (v : Chain) (j : Option Just) : (s.skipToDecide v j).1.cfg = s.cfg := (skipToDecide_frame s v j).cfg
@[simp] theorem skipToDecide_input (s : State) (v : Chain) (j : Option Just) : (s.skipToDecide v j).1.input = s.input := (skipToDecide_frame s v j).input
@[simp] theorem skipToDecide_decision (s : State) (v : Chain) (j : Option Just) : (s.skipToDecide v j).1.decision = s.decision := (skipToDecide_frame s v j).decision
@[simp] theorem skipToDecide_termination (s : State) (v : Chain) (j : Option Just) : (s.skipToDecide v j).1.termination = s.termination := (skipToDecide_frame s v j).termination

theorem beginNextRound_frame (s : State) (now : Int) : FrameD s (s.beginNextRound now).1 := by
  unfold State.beginNextRound; frameD_tac
@[simp] theorem beginNextRound_tbl (s : State) (now : Int) : (s.beginNextRound now).1.tbl = s.tbl := (beginNextRound_frame s now).tbl
@[simp] theorem beginNextRound_cfg (s : State) (now : Int) : (s.beginNextRound now).1.cfg = s.cfg := (beginNextRound_frame s now).cfg
@[simp] theorem beginNextRound_input (s : State) (now : Int) : (s.beginNextRound now).1.input = s.input := (beginNextRound_frame s now).input
@[simp] theorem beginNextRound_decision (s : State) (now : Int) : (s.beginNextRound now).1.decision = s.decision := (beginNextRound_frame s now).decision
@[simp] theorem beginNextRound_termination (s : State) (now : Int) : (s.beginNextRound now).1.termination = s.termination := (beginNextRound_frame s now).termination

theorem addCandidatePrefixes_frame (s : State) (c : Chain) : FrameD s (s.addCandidatePrefixes c).1 := by
  unfold State.addCandidatePrefixes
  generalize ((List.range (c.length - 1)).reverse.map (· + 1)) = l
  suffices h : ∀ (acc : State × Bool), FrameD s acc.1 →
      FrameD s (l.foldl (fun (acc : State × Bool) l =>
        let r := acc.1.addCandidate (prefixTo c l); (r.1, acc.2 || r.2)) acc).1 from h (s, false) (FrameD.refl s)
  induction l with
  | nil => intro acc h; simpa using h
  | cons x xs ih =>
    intro acc h
    simp only [List.foldl_cons]
    exact ih _ (h.trans (addCandidate_frame acc.1 _))
@[simp] theorem addCandidatePrefixes_tbl (s : State) (c : Chain) : (s.addCandidatePrefixes c).1.tbl = s.tbl := (addCandidatePrefixes_frame s c).tbl
@[simp] theorem addCandidatePrefixes_cfg (s : State) (c : Chain) : (s.addCandidatePrefixes c).1.cfg = s.cfg := (addCandidatePrefixes_frame s c).cfg
@[simp] theorem addCandidatePrefixes_input (s : State) (c : Chain) : (s.addCandidatePrefixes c).1.input = s.input := (addCandidatePrefixes_frame s c).input
@[simp] theorem addCandidatePrefixes_decision (s : State) (c : Chain) : (s.addCandidatePrefixes c).1.decision = s.decision := (addCandidatePrefixes_frame s c).decision
@[simp] theorem addCandidatePrefixes_termination (s : State) (c : Chain) : (s.addCandidatePrefixes c).1.termination = s.termination := (addCandidatePrefixes_frame s c).termination

theorem tryQuality_frame (s : State) (now : Int) : FrameD s (s.tryQuality now).1 := by
  unfold State.tryQuality; frameD_tac
@[simp] theorem tryQuality_tbl (s : State) (now : Int) : (s.tryQuality now).1.tbl = s.tbl := (tryQuality_frame s now).tbl
@[simp] theorem tryQuality_cfg (s : State) (now : Int) : (s.tryQuality now).1.cfg = s.cfg := (tryQuality_frame s now).cfg
@[simp] theorem tryQuality_input (s : State) (now : Int) : (s.tryQuality now).1.input = s.input := (tryQuality_frame s now).input
@[simp] theorem tryQuality_decision (s : State) (now : Int) : (s.tryQuality now).1.decision = s.decision := (tryQuality_frame s now).decision
@[simp] theorem tryQuality_termination (s : State) (now : Int) : (s.tryQuality now).1.termination = s.termination := (tryQuality_frame s now).termination

theorem tryConverge_frame (s : State) (now : Int) : FrameD s (s.tryConverge now).1 := by
  unfold State.tryConverge; frameD_tac
@[simp] theorem tryConverge_tbl (s : State) (now : Int) : (s.tryConverge now).1.tbl = s.tbl := (tryConverge_frame s now).tbl
@[simp] theorem tryConverge_cfg (s : State) (now : Int) : (s.tryConverge now).1.cfg = s.cfg := (tryConverge_frame s now).cfg
@[simp] theorem tryConverge_input (s : State) (now : Int) : (s.tryConverge now).1.input = s.input := (tryConverge_frame s now).input
@[simp] theorem tryConverge_decision (s : State) (now : Int) : (s.tryConverge now).1.decision = s.decision := (tryConverge_frame s now).decision
@[simp] theorem tryConverge_termination (s : State) (now : Int) : (s.tryConverge now).1.termination = s.termination := (tryConverge_frame s now).termination

theorem prepareValue_frame (s : State) (now : Int) : FrameD s (s.prepareValue now) := by
  unfold State.prepareValue; frameD_tac
@[simp] theorem prepareValue_tbl (s : State) (now : Int) : (s.prepareValue now).tbl = s.tbl := (prepareValue_frame s now).tbl
@[simp] theorem prepareValue_cfg (s : State) (now : Int) : (s.prepareValue now).cfg = s.cfg := (prepareValue_frame s now).cfg
@[simp] theorem prepareValue_input (s : State) (now : Int) : (s.prepareValue now).input = s.input := (prepareValue_frame s now).input
@[simp] theorem prepareValue_decision (s : State) (now : Int) : (s.prepareValue now).decision = s.decision := (prepareValue_frame s now).decision
@[simp] theorem prepareValue_termination (s : State) (now : Int) : (s.prepareValue now).termination = s.termination := (prepareValue_frame s now).termination
@[simp] theorem prepareValue_round (s : State) (now : Int) : (s.prepareValue now).round = s.round := by
  unfold State.prepareValue; frame_tac
@[simp] theorem prepareValue_phase (s : State) (now : Int) : (s.prepareValue now).phase = s.phase := by
  unfold State.prepareValue; frame_tac

theorem tryPrepare_frame (s : State) (now : Int) : FrameD s (s.tryPrepare now).1 := by
  unfold State.tryPrepare; frameD_tac
@[simp] theorem tryPrepare_tbl (s : State) (now : Int) : (s.tryPrepare now).1.tbl = s.tbl := (tryPrepare_frame s now).tbl
@[simp] theorem tryPrepare_cfg (s : State) (now : Int) : (s.tryPrepare now).1.cfg = s.cfg := (tryPrepare_frame s now).cfg
@[simp] theorem tryPrepare_input (s : State) (now : Int) : (s.tryPrepare now).1.input = s.input := (tryPrepare_frame s now).input
@[simp] theorem tryPrepare_decision (s : State) (now : Int) : (s.tryPrepare now).1.decision = s.decision := (tryPrepare_frame s now).decision
@[simp] theorem tryPrepare_termination (s : State) (now : Int) : (s.tryPrepare now).1.termination = s.termination := (tryPrepare_frame s now).termination

theorem commitSway_frame (s : State) (q : Tally) : FrameD s (s.commitSway q) := by
  unfold State.commitSway; frameD_tac
@[simp] theorem commitSway_tbl (s : State) (q : Tally) : (s.commitSway q).tbl = s.tbl := (commitSway_frame s q).tbl
@[simp] theorem commitSway_cfg (s : State) (q : Tally) : (s.commitSway q).cfg = s.cfg := (commitSway_frame s q).cfg
@[simp] theorem commitSway_input (s : State) (q : Tally) : (s.commitSway q).input = s.input := (commitSway_frame s q).input
@[simp] theorem commitSway_decision (s : State) (q : Tally) : (s.commitSway q).decision = s.decision := (commitSway_frame s q).decision
@[simp] theorem commitSway_termination (s : State) (q : Tally) : (s.commitSway q).termination = s.termination := (commitSway_frame s q).termination
@[simp] theorem commitSway_round (s : State) (q : Tally) : (s.commitSway q).round = s.round := by
  unfold State.commitSway State.addCandidate; frame_tac
@[simp] theorem commitSway_phase (s : State) (q : Tally) : (s.commitSway q).phase = s.phase := by
  unfold State.commitSway State.addCandidate; frame_tac

theorem tryCommit_frame (s : State) (now : Int) (r : Nat) : FrameD s (s.tryCommit now r).1 := by
  unfold State.tryCommit; frameD_tac
@[simp] theorem tryCommit_tbl (s : State) (now : Int) (r : Nat) : (s.tryCommit now r).1.tbl = s.tbl := (tryCommit_frame s now r).tbl
@[simp] theorem tryCommit_cfg (s : State) (now : Int) (r : Nat) : (s.tryCommit now r).1.cfg = s.cfg := (tryCommit_frame s now r).cfg
@[simp] theorem tryCommit_input (s : State) (now : Int) (r : Nat) : (s.tryCommit now r).1.input = s.input := (tryCommit_frame s now r).input
@[simp] theorem tryCommit_decision (s : State) (now : Int) (r : Nat) : (s.tryCommit now r).1.decision = s.decision := (tryCommit_frame s now r).decision
@[simp] theorem tryCommit_termination (s : State) (now : Int) (r : Nat) : (s.tryCommit now r).1.termination = s.termination := (tryCommit_frame s now r).termination

theorem postReceive_frame (s : State) (now : Int) (r : Nat) : FrameD s (s.postReceive now r).1 := by
  unfold State.postReceive; frameD_tac
@[simp] theorem postReceive_tbl (s : State) (now : Int) (r : Nat) : (s.postReceive now r).1.tbl = s.tbl := (postReceive_frame s now r).tbl
@[simp] theorem postReceive_cfg (s : State) (now : Int) (r : Nat) : (s.postReceive now r).1.cfg = s.cfg := (postReceive_frame s now r).cfg
@[simp] theorem postReceive_input (s : State) (now : Int) (r : Nat) : (s.postReceive now r).1.input = s.input := (postReceive_frame s now r).input
@[simp] theorem postReceive_decision (s : State) (now : Int) (r : Nat) : (s.postReceive now r).1.decision = s.decision := (postReceive_frame s now r).decision
@[simp] theorem postReceive_termination (s : State) (now : Int) (r : Nat) : (s.postReceive now r).1.termination = s.termination := (postReceive_frame s now r).termination

end F3.Instance
