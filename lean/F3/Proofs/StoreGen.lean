import F3.Model.Store
import F3.Gen.Store
/-! Helper lemmas for `C09.put_admission_is_regenerated`: the admission outcome of the model's `put`
as a function of its comparisons. -/
namespace F3.Proofs.StoreGen
open F3.Store

/-- which of the admission outcomes of `Put` an outcome of the model is: 0 = stale re-put accepted as a
no-op, 1–4 = the four admission errors, 5 = the certificate was admitted as the successor -/
def admissionCode (o : Out Mem) : Int :=
  match o.res with
  | .error .beforeFirst => 1
  | .error .bottom => 2
  | .error .invalidChain => 3
  | .error .gap => 4
  | .error _ => 5
  | .ok _ => if o.ws = [] then 0 else 5

theorem put_tail_code (cfg : Cfg) (m : Mem) (c : Cert) (h1 : ¬ c.inst < m.first) (h2 : c.chain ≠ .zero)
    (h3 : c.chain ≠ .invalid) (h4 : ¬ c.inst > m.next) (h5 : ¬ c.inst < m.next) :
    admissionCode (put cfg m c) = 5 := by
  unfold put
  simp only [h1, h2, h3, h4, h5, if_false]
  cases tableStep m.latestTable c.delta with
  | error e => rfl
  | ok t =>
    simp only
    split
    · rfl
    · split
      · rfl
      · cases notifyAll m.subs c with
        | none => rfl
        | some subs => rfl


theorem put_head_code (cfg : Cfg) (m : Mem) (c : Cert) :
    admissionCode (put cfg m c) =
      if c.inst < m.first then 1 else if c.chain = .zero then 2 else if c.chain = .invalid then 3
      else if c.inst > m.next then 4 else if c.inst < m.next then 0 else 5 := by
  by_cases h1 : c.inst < m.first
  · unfold put; simp only [h1, if_true]; rfl
  by_cases h2 : c.chain = .zero
  · unfold put; simp only [h1, h2, if_true, if_false]; rfl
  by_cases h3 : c.chain = .invalid
  · unfold put; simp only [h1, h3, if_true, if_false]; rfl
  by_cases h4 : c.inst > m.next
  · unfold put; simp only [h1, h2, h3, h4, if_true, if_false]; rfl
  by_cases h5 : c.inst < m.next
  · unfold put; simp only [h1, h2, h3, h4, h5, if_true, if_false]; rfl
  rw [put_tail_code cfg m c h1 h2 h3 h4 h5]
  simp only [h1, h2, h3, h4, h5, if_false]

end F3.Proofs.StoreGen
