import F3.Model.ChainX
import F3.Proofs.ChainXLru
/-!
# The chain-exchange model seen per instance

Every operation of `F3.ChainX` acts on the two caches of ONE instance (`getLocal`, folds of `discStep`
/ `wantStep`) and leaves all other instances alone; `prune` empties the instances below its bound.
An absent map entry behaves exactly like an empty cache (`IMap.cacheAt`), so a state is fully
described by `W s i` / `D s i`.
-/
set_option linter.unusedSectionVars false
set_option linter.unusedSimpArgs false
namespace F3.ChainX
open F3.Lru

/-! ## instance maps -/
namespace IMap

theorem find?_set_same (m : IMap) (i : Nat) (c : PCache) : find? (set m i c) i = some c := by
  induction m with
  | nil => simp [set, find?]
  | cons e t ih =>
    obtain ⟨j, c'⟩ := e
    by_cases h : j = i
    · simp [set, find?, h]
    · simp [set, find?, h, ih]

theorem find?_set_other (m : IMap) {i j : Nat} (c : PCache) (h : j ≠ i) : find? (set m i c) j = find? m j := by
  induction m with
  | nil =>
    have : ¬ i = j := fun e => h e.symm
    simp [set, find?, this]
  | cons e t ih =>
    obtain ⟨a, c'⟩ := e
    by_cases ha : a = i
    · subst ha
      have : ¬ a = j := fun e => h e.symm
      simp [set, find?, this]
    · by_cases haj : a = j
      · subst haj; simp [set, find?, ha]
      · simp [set, find?, ha, haj, ih]

/-- pruning removes exactly the instances below the bound -/
theorem find?_prune (m : IMap) (n i : Nat) : find? (prune m n) i = if i < n then none else find? m i := by
  induction m with
  | nil => simp [prune, find?]
  | cons e t ih =>
    obtain ⟨a, c⟩ := e
    simp only [prune] at ih ⊢
    by_cases han : a < n
    · simp only [List.filter_cons, han, decide_true, Bool.not_true, Bool.false_eq_true, if_false, ih, find?]
      by_cases hai : a = i
      · subst hai; simp [han]
      · simp [hai]
    · simp only [List.filter_cons, han, decide_false, Bool.not_false, if_true, find?, ih]
      by_cases hai : a = i
      · subst hai; simp [han]
      · simp [hai]

theorem cacheAt_set_same (m : IMap) (i : Nat) (c : PCache) (cap : Nat) : cacheAt (set m i c) i cap = c := by
  simp [cacheAt, find?_set_same]

theorem cacheAt_set_other (m : IMap) {i j : Nat} (c : PCache) (cap : Nat) (h : j ≠ i) :
    cacheAt (set m i c) j cap = cacheAt m j cap := by
  simp [cacheAt, find?_set_other m c h]

theorem cacheAt_prune (m : IMap) (n i cap : Nat) :
    cacheAt (prune m n) i cap = if i < n then Lru.empty cap else cacheAt m i cap := by
  simp only [cacheAt, find?_prune]
  by_cases h : i < n <;> simp [h]

theorem mem_instances_iff (m : IMap) (i : Nat) : i ∈ instances m ↔ (find? m i).isSome = true := by
  induction m with
  | nil => simp [instances, find?]
  | cons e t ih =>
    obtain ⟨a, c⟩ := e
    simp only [instances, List.map_cons, List.mem_cons] at ih ⊢
    by_cases h : a = i
    · simp [find?, h]
    · have : ¬ i = a := fun e => h e.symm
      simp [find?, h, this, ih]

end IMap

/-! ## per-instance view of a state -/

def W (s : State) (i : Nat) : PCache := IMap.cacheAt s.wanted i s.opts.maxWanted
def D (s : State) (i : Nat) : PCache := IMap.cacheAt s.discovered i s.opts.maxDiscovered

/-- `GetChainByInstance` on the two caches of the instance (non-zero key) -/
def getLocal (w d : PCache) (k : Key) : PCache × PCache × Option Chain :=
  match (w.get k).2 with
  | some (.chain c) => ((w.get k).1, d, some c)
  | _ =>
    match (d.get k).2 with
    | some p => (((w.get k).1.add k p).1, ((d.get k).1.remove k).1, some p.chainOf)
    | none => (((w.get k).1.containsOrAdd k .placeholder).1, (d.get k).1, none)

theorem getChain_zero (s : State) (i : Nat) : getChain s i [] = (s, none, []) := by
  simp [getChain]

theorem getChain_opts (s : State) (i : Nat) (k : Key) : (getChain s i k).1.opts = s.opts := by
  unfold getChain
  by_cases hk : k = []
  · simp [hk]
  · simp only [hk, if_false]
    split
    · rfl
    · split <;> rfl

theorem W_set (s : State) (i : Nat) (w' : PCache) (dm : IMap) (j : Nat) :
    W { s with wanted := IMap.set s.wanted i w', discovered := dm } j = if j = i then w' else W s j := by
  unfold W
  by_cases hj : j = i
  · subst hj; simp [IMap.cacheAt_set_same]
  · simp [hj, IMap.cacheAt_set_other _ _ _ hj]

theorem D_set (s : State) (i : Nat) (d' : PCache) (wm : IMap) (j : Nat) :
    D { s with wanted := wm, discovered := IMap.set s.discovered i d' } j = if j = i then d' else D s j := by
  unfold D
  by_cases hj : j = i
  · subst hj; simp [IMap.cacheAt_set_same]
  · simp [hj, IMap.cacheAt_set_other _ _ _ hj]

theorem D_keep (s : State) (wm : IMap) (j : Nat) : D { s with wanted := wm } j = D s j := rfl

theorem ite_self_eq {α : Type} (j i : Nat) (f : Nat → α) : (if j = i then f i else f j) = f j := by
  by_cases h : j = i
  · subst h; simp
  · simp [h]

theorem getChain_local (s : State) (i : Nat) {k : Key} (hk : k ≠ []) :
    (getChain s i k).2.1 = (getLocal (W s i) (D s i) k).2.2 ∧
    (∀ j, W (getChain s i k).1 j = if j = i then (getLocal (W s i) (D s i) k).1 else W s j) ∧
    (∀ j, D (getChain s i k).1 j = if j = i then (getLocal (W s i) (D s i) k).2.1 else D s j) := by
  have hWdef : IMap.cacheAt s.wanted i s.opts.maxWanted = W s i := rfl
  have hDdef : IMap.cacheAt s.discovered i s.opts.maxDiscovered = D s i := rfl
  unfold getChain getLocal
  simp only [hk, if_false, hWdef, hDdef]
  cases hw : (Cache.get (W s i) k).2 with
  | some pw =>
    cases pw with
    | chain c =>
      simp only [hw]
      refine ⟨trivial, fun j => ?_, fun j => ?_⟩
      · have := W_set s i (Cache.get (W s i) k).1 s.discovered j
        simpa using this
      · simp only [D_keep]; exact (ite_self_eq j i (D s)).symm
    | placeholder =>
      cases hd : (Cache.get (D s i) k).2 with
      | some p =>
        simp only [hw, hd]
        exact ⟨trivial, fun j => W_set s i _ _ j, fun j => D_set s i _ _ j⟩
      | none =>
        simp only [hw, hd]
        exact ⟨trivial, fun j => W_set s i _ _ j, fun j => D_set s i _ _ j⟩
  | none =>
    cases hd : (Cache.get (D s i) k).2 with
    | some p =>
      simp only [hw, hd]
      exact ⟨trivial, fun j => W_set s i _ _ j, fun j => D_set s i _ _ j⟩
    | none =>
      simp only [hw, hd]
      exact ⟨trivial, fun j => W_set s i _ _ j, fun j => D_set s i _ _ j⟩

theorem cacheAsDiscovered_local (s : State) (i : Nat) (c : Chain) :
    (cacheAsDiscovered s i c).opts = s.opts ∧
    (∀ j, W (cacheAsDiscovered s i c) j = if j = i then ((prefixes c).foldl discStep (W s i, D s i)).1 else W s j) ∧
    (∀ j, D (cacheAsDiscovered s i c) j = if j = i then ((prefixes c).foldl discStep (W s i, D s i)).2 else D s j) := by
  unfold cacheAsDiscovered
  exact ⟨rfl, fun j => W_set s i _ _ j, fun j => D_set s i _ _ j⟩

theorem cacheAsWanted_local (s : State) (i : Nat) (c : Chain) :
    (cacheAsWanted s i c).1.opts = s.opts ∧
    (∀ j, W (cacheAsWanted s i c).1 j = if j = i then ((prefixes c).foldl wantStep (W s i, [])).1 else W s j) ∧
    (∀ j, D (cacheAsWanted s i c).1 j = D s j) := by
  unfold cacheAsWanted W D
  refine ⟨rfl, ?_, fun j => rfl⟩
  intro j
  by_cases hj : j = i
  · subst hj; simp [IMap.cacheAt_set_same]
  · simp [hj, IMap.cacheAt_set_other _ _ _ hj]

theorem prune_local (s : State) (n : Nat) :
    (prune s n).opts = s.opts ∧
    (∀ j, W (prune s n) j = if j < n then Lru.empty s.opts.maxWanted else W s j) ∧
    (∀ j, D (prune s n) j = if j < n then Lru.empty s.opts.maxDiscovered else D s j) := by
  unfold prune W D
  exact ⟨rfl, fun j => IMap.cacheAt_prune _ _ _ _, fun j => IMap.cacheAt_prune _ _ _ _⟩

/-! ## prefixes -/

theorem mem_prefixes {c p : Chain} : p ∈ prefixes c ↔ ∃ n, n < c.length ∧ p = c.take (n + 1) := by
  unfold prefixes
  simp only [List.mem_map, List.mem_reverse, List.mem_range]
  constructor
  · rintro ⟨n, hn, rfl⟩; exact ⟨n, hn, rfl⟩
  · rintro ⟨n, hn, rfl⟩; exact ⟨n, hn, rfl⟩

theorem prefixes_ne_nil {c p : Chain} (h : p ∈ prefixes c) : p ≠ [] := by
  obtain ⟨n, hn, rfl⟩ := mem_prefixes.mp h
  intro he
  have : (c.take (n + 1)).length = 0 := by rw [he]; rfl
  rw [List.length_take] at this
  omega

theorem self_mem_prefixes {c : Chain} (h : c ≠ []) : c ∈ prefixes c := by
  refine mem_prefixes.mpr ⟨c.length - 1, ?_, ?_⟩
  · have : 0 < c.length := List.length_pos_iff.mpr h
    omega
  · have : 0 < c.length := List.length_pos_iff.mpr h
    have h2 : c.length - 1 + 1 = c.length := by omega
    rw [h2, List.take_length]

theorem prefix_of_mem_prefixes {c p : Chain} (h : p ∈ prefixes c) : p <+: c := by
  obtain ⟨n, _, rfl⟩ := mem_prefixes.mp h
  exact List.take_prefix _ _

theorem mem_prefixes_of_prefix {c p : Chain} (hp : p <+: c) (hne : p ≠ []) : p ∈ prefixes c := by
  obtain ⟨t, rfl⟩ := hp
  refine mem_prefixes.mpr ⟨p.length - 1, ?_, ?_⟩
  · have : 0 < p.length := List.length_pos_iff.mpr hne
    simp; omega
  · have : 0 < p.length := List.length_pos_iff.mpr hne
    have h2 : p.length - 1 + 1 = p.length := by omega
    rw [h2, List.take_left']
    rfl

end F3.ChainX
