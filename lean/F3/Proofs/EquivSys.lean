import F3.Proofs.EquivFilter
/-! Helper lemmas for C12: the system invariant and its preservation by every operation. Core-only. -/
namespace F3.Equiv

structure SysInv (own : Nat → Bool) (s : Sys) : Prop where
  cons : Consistent s.ever
  wire_sub : ∀ w ∈ s.wire, w ∈ s.ever
  wal_sub : ∀ w ∈ s.wal, w ∈ s.ever
  self_sub : ∀ w ∈ s.self, w ∈ s.ever
  wal_ge : ∀ e ∈ s.ever, s.purged ≤ e.inst → e ∈ s.wal
  floor_le : s.floor ≤ s.purged
  own_ever : ∀ e ∈ s.ever, own e.sender = true
  finv : s.up = true → FilterInv own s.floor s.filter s.ever
  mono : InstMonotone s.wire

theorem sysInv_init (own : Nat → Bool) (l : Peer) : SysInv own (Sys.init l) where
  cons := by intro a ha; simp [Sys.init] at ha
  wire_sub := by intro w hw; simp [Sys.init] at hw
  wal_sub := by intro w hw; simp [Sys.init] at hw
  self_sub := by intro w hw; simp [Sys.init] at hw
  wal_ge := by intro e he; simp [Sys.init] at he
  floor_le := Nat.le_refl _
  own_ever := by intro e he; simp [Sys.init] at he
  finv := fun _ => filterInv_new own 0 l
  mono := List.Pairwise.nil

theorem instMonotone_snoc {w : List Msg} {m : Msg} (h : InstMonotone w) (hm : ∀ x ∈ w, x.inst ≤ m.inst) :
    InstMonotone (w ++ [m]) := by
  unfold InstMonotone
  rw [List.pairwise_append]
  refine ⟨h, List.pairwise_singleton _ _, ?_⟩
  intro a ha b hb
  simp only [List.mem_singleton] at hb; subst hb; exact hm a ha

/-- Everything recorded is at or below an allowed request's instance. -/
theorem FilterInv.le_of_allowed {own : Nat → Bool} {F : Nat} {f : Filter} {E : List Msg}
    (h : FilterInv own F f E) {m : Msg} (hF : F ≤ m.inst) (hc : f.cur ≤ m.inst) : ∀ e ∈ E, e.inst ≤ m.inst := by
  intro e he
  rcases h.le e he with h1 | h1 <;> omega

theorem rb_fold {own : Nat → Bool} {F : Nat} {E : List Msg} (sel : List Msg) (f : Filter) (w : List Msg)
    (hsel : ∀ m ∈ sel, m ∈ E ∧ F ≤ m.inst ∧ own m.sender = true)
    (hf : FilterInv own F f E) (hw : ∀ x ∈ w, x ∈ E) (hm : InstMonotone w) :
    FilterInv own F (sel.foldl rebroadcastOne (f, w)).1 E ∧
    (∀ x ∈ (sel.foldl rebroadcastOne (f, w)).2, x ∈ E) ∧
    InstMonotone (sel.foldl rebroadcastOne (f, w)).2 ∧
    (sel.foldl rebroadcastOne (f, w)).1.localPID = f.localPID := by
  induction sel generalizing f w with
  | nil => exact ⟨hf, hw, hm, rfl⟩
  | cons m sel ih =>
    simp only [List.foldl_cons]
    obtain ⟨hmE, hmF, hmo⟩ := hsel m (by simp)
    have hsel' : ∀ m' ∈ sel, m' ∈ E ∧ F ≤ m'.inst ∧ own m'.sender = true :=
      fun m' h' => hsel m' (List.mem_cons_of_mem _ h')
    rcases hf.pb_cases m hmF hmo with ⟨hrej, _⟩ | ⟨f', hacc, hinv, _, hcur, hl, _⟩
    · have : rebroadcastOne (f, w) m = (f, w) := by simp [rebroadcastOne, hrej]
      rw [this]; exact ih f w hsel' hf hw hm
    · have : rebroadcastOne (f, w) m = (f', w ++ [m]) := by simp [rebroadcastOne, hacc]
      rw [this]
      have hinv' : FilterInv own F f' E := hinv.congr (by
        intro e; simp only [List.mem_append, List.mem_singleton]
        constructor
        · rintro (h | rfl); exact h; exact hmE
        · exact Or.inl)
      have hw' : ∀ x ∈ w ++ [m], x ∈ E := by
        intro x hx; rcases List.mem_append.mp hx with hx | hx
        · exact hw x hx
        · simp only [List.mem_singleton] at hx; subst hx; exact hmE
      have hm' : InstMonotone (w ++ [m]) :=
        instMonotone_snoc hm (fun x hx => hf.le_of_allowed hmF hcur x (hw x hx))
      have := ih f' (w ++ [m]) hsel' hinv' hw' hm'
      rw [hl] at this; exact this


theorem inv_down {own : Nat → Bool} {s : Sys} (h : SysInv own s) : SysInv own { s with up := false } :=
  { h with finv := by intro hu; cases hu }

theorem inv_restart {own : Nat → Bool} {s : Sys} (h : SysInv own s) : SysInv own (step s .restart) := by
  have hc : Consistent s.wal := h.cons.sub h.wal_sub
  have ho : ∀ e ∈ s.wal, own e.sender = true := fun e he => h.own_ever e (h.wal_sub e he)
  obtain ⟨hr, _⟩ := rearm_inv (own := own) s.filter.localPID s.wal hc ho
  refine
    { cons := h.cons, wire_sub := h.wire_sub, wal_sub := h.wal_sub, wal_ge := h.wal_ge,
      own_ever := h.own_ever, mono := h.mono, floor_le := Nat.le_refl _, self_sub := ?_, finv := ?_ }
  · intro w hw
    exact h.wal_sub w (List.mem_filter.mp hw).1
  · intro _
    show FilterInv own s.purged (rearm s.filter.localPID s.wal) s.ever
    constructor
    · intro e he
      by_cases hp : s.purged ≤ e.inst
      · rcases hr.le e (h.wal_ge e he hp) with h1 | h1
        · exact Or.inl h1
        · omega
      · exact Or.inr (by omega)
    · intro e he hcur hp
      exact hr.seen_of e (h.wal_ge e he hp) hcur (Nat.zero_le _)
    · intro k v hk
      obtain ⟨h1, e, he, h2⟩ := hr.of_seen k v hk
      exact ⟨h1, e, h.wal_sub e he, h2⟩
    · exact hr.active_ok
    · exact hr.cur_wit.imp id (fun ⟨e, he, h2⟩ => ⟨e, h.wal_sub e he, h2⟩)

theorem inv_purge {own : Nat → Bool} {s : Sys} (h : SysInv own s) (k : Nat) (keep : List Msg) :
    SysInv own (step s (.purge k keep)) := by
  by_cases hu : s.up = true
  · have hnu : (!s.up) = false := by simp [hu]
    simp only [step, hnu, Bool.false_eq_true, if_false]
    exact
      { cons := h.cons, wire_sub := h.wire_sub, self_sub := h.self_sub, own_ever := h.own_ever, mono := h.mono,
        finv := h.finv,
        wal_sub := fun w hw => h.wal_sub w (purgeWal_sub k s.wal keep w hw),
        wal_ge := fun e he hp =>
          mem_purgeWal_of_ge k s.wal keep e (h.wal_ge e he (Nat.le_trans (Nat.le_max_left _ _) hp))
            (Nat.le_trans (Nat.le_max_right _ _) hp),
        floor_le := Nat.le_trans h.floor_le (Nat.le_max_left _ _) }
  · simp only [Bool.not_eq_true] at hu
    simpa [step, hu] using h

theorem inv_trim {own : Nat → Bool} {s : Sys} (h : SysInv own s) (c : Nat) : SysInv own (step s (.trim c)) := by
  by_cases hu : s.up = true
  · have hnu : (!s.up) = false := by simp [hu]
    simp only [step, hnu, Bool.false_eq_true, if_false]
    exact { h with self_sub := fun w hw => h.self_sub w (List.mem_filter.mp hw).1 }
  · simp only [Bool.not_eq_true] at hu
    simpa [step, hu] using h

theorem inv_receive {own : Nat → Bool} {s : Sys} (h : SysInv own s) (p : Peer) (m : Msg)
    (hm : own m.sender = false) : SysInv own (step s (.receive p m)) := by
  by_cases hu : s.up = true
  · have hnu : (!s.up) = false := by simp [hu]
    simp only [step, hnu, Bool.false_eq_true, if_false]
    rw [(h.finv hu).receive_noop p m hm]
    exact h
  · simp only [Bool.not_eq_true] at hu
    simpa [step, hu] using h

theorem inv_rebroadcast {own : Nat → Bool} {s : Sys} (h : SysInv own s) (i r p : Nat) (hi : s.floor ≤ i) :
    SysInv own (step s (.rebroadcast i r p)) := by
  by_cases hu : s.up = true
  · have hnu : (!s.up) = false := by simp [hu]
    simp only [step, hnu, Bool.false_eq_true, if_false]
    have hsel : ∀ m ∈ s.self.filter (fun m => m.inst == i && m.round == r && m.phase == p),
        m ∈ s.ever ∧ s.floor ≤ m.inst ∧ own m.sender = true := by
      intro m hm
      obtain ⟨h1, h2⟩ := List.mem_filter.mp hm
      have hmi : m.inst = i := by
        simp only [Bool.and_eq_true, beq_iff_eq] at h2; exact h2.1.1
      exact ⟨h.self_sub m h1, by omega, h.own_ever m (h.self_sub m h1)⟩
    obtain ⟨hf, hw, hmono, _⟩ := rb_fold _ s.filter s.wire hsel (h.finv hu) h.wire_sub h.mono
    exact
      { cons := h.cons, wal_sub := h.wal_sub, self_sub := h.self_sub, wal_ge := h.wal_ge,
        floor_le := h.floor_le, own_ever := h.own_ever,
        wire_sub := hw, mono := hmono, finv := fun _ => hf }
  · simp only [Bool.not_eq_true] at hu
    simpa [step, hu] using h


theorem inv_broadcast {own : Nat → Bool} {s : Sys} (h : SysInv own s) (m : Msg) (c : Nat)
    (hF : s.floor ≤ m.inst) (hown : own m.sender = true) : SysInv own (step s (.broadcast m c)) := by
  by_cases hu : s.up = true
  · have hnu : (!s.up) = false := by simp [hu]
    rcases (h.finv hu).pb_cases m hF hown with ⟨hrej, _⟩ | ⟨f', hacc, hinv, hnc, hcur, _, _⟩
    · -- refused: nothing but possibly the crash
      simp only [step, hnu, Bool.false_eq_true, if_false, hrej, Bool.not_false, if_true]
      by_cases hc0 : c = 0
      · subst hc0
        have : ({ s with filter := s.filter, up := (0 : Nat) == 0 } : Sys) = { s with up := true } := rfl
        rw [this]
        exact { h with finv := fun _ => h.finv hu }
      · have : ((c == 0) : Bool) = false := by simp [hc0]
        rw [this]; exact inv_down h
    · simp only [step, hnu, Bool.false_eq_true, if_false, hacc, Bool.not_true]
      have hcons : Consistent (s.ever ++ [m]) := h.cons.snoc hnc
      have hle : ∀ x ∈ s.wire, x.inst ≤ m.inst :=
        fun x hx => (h.finv hu).le_of_allowed hF hcur x (h.wire_sub x hx)
      by_cases hc1 : c = 1
      · subst hc1
        simp only [beq_self_eq_true, if_true]
        exact { h with finv := by intro hu'; cases hu' }
      · have h1 : ((c == 1) : Bool) = false := by simp [hc1]
        simp only [h1, Bool.false_eq_true, if_false]
        -- the record is durable from here on
        have base : SysInv own { s with filter := f', wal := s.wal ++ [m], ever := s.ever ++ [m],
                                        self := s.self ++ [m], up := false } :=
          { cons := hcons
            wire_sub := fun w hw => List.mem_append_left _ (h.wire_sub w hw)
            wal_sub := by
              intro w hw; rcases List.mem_append.mp hw with hw | hw
              · exact List.mem_append_left _ (h.wal_sub w hw)
              · exact List.mem_append_right _ hw
            self_sub := by
              intro w hw; rcases List.mem_append.mp hw with hw | hw
              · exact List.mem_append_left _ (h.self_sub w hw)
              · exact List.mem_append_right _ hw
            wal_ge := by
              intro e he hp; rcases List.mem_append.mp he with he | he
              · exact List.mem_append_left _ (h.wal_ge e he hp)
              · exact List.mem_append_right _ he
            floor_le := h.floor_le
            own_ever := by
              intro e he; rcases List.mem_append.mp he with he | he
              · exact h.own_ever e he
              · simp only [List.mem_singleton] at he; subst he; exact hown
            finv := by intro hu'; cases hu'
            mono := h.mono }
        by_cases hc2 : c = 2
        · subst hc2
          simp only [beq_self_eq_true, if_true]
          exact base
        · have h2 : ((c == 2) : Bool) = false := by simp [hc2]
          simp only [h2, Bool.false_eq_true, if_false]
          exact
            { cons := base.cons, wal_sub := base.wal_sub, self_sub := base.self_sub, wal_ge := base.wal_ge,
              floor_le := base.floor_le, own_ever := base.own_ever,
              wire_sub := by
                intro w hw; rcases List.mem_append.mp hw with hw | hw
                · exact List.mem_append_left _ (h.wire_sub w hw)
                · exact List.mem_append_right _ hw
              mono := instMonotone_snoc h.mono hle
              finv := fun _ => hinv }
  · simp only [Bool.not_eq_true] at hu
    simpa [step, hu] using h

theorem inv_step {own : Nat → Bool} {s : Sys} (h : SysInv own s) (op : Op) (hop : OpOk own s op) :
    SysInv own (step s op) := by
  cases op with
  | broadcast m c => exact inv_broadcast h m c hop.1 hop.2
  | rebroadcast i r p => exact inv_rebroadcast h i r p hop
  | receive p m => exact inv_receive h p m hop
  | restart => exact inv_restart h
  | stop => exact inv_down h
  | purge k keep => exact inv_purge h k keep
  | trim c => exact inv_trim h c

theorem inv_run {own : Nat → Bool} {s : Sys} (h : SysInv own s) (ops : List Op) (hok : RunOk own s ops) :
    SysInv own (run s ops) := by
  induction ops generalizing s with
  | nil => exact h
  | cons op ops ih => exact ih (inv_step h op hok.1) hok.2


/-- Under the invariant, an admissible request is allowed exactly when it is not for a past instance
and conflicts with nothing recorded. -/
theorem FilterInv.allow_iff {own : Nat → Bool} {F : Nat} {f : Filter} {E : List Msg}
    (h : FilterInv own F f E) (m : Msg) (hF : F ≤ m.inst) (hown : own m.sender = true) :
    (f.processBroadcast m).2 = true ↔ f.cur ≤ m.inst ∧ ∀ e ∈ E, e.slot = m.slot → e.sig = m.sig := by
  rcases h.pb_cases m hF hown with ⟨hrej, hwhy⟩ | ⟨f', hacc, _, hnc, hcur, _, _⟩
  · rw [hrej]
    constructor
    · intro hf; cases hf
    · rintro ⟨hc, hall⟩
      rcases hwhy with hlt | ⟨e, he, hslot, hne⟩
      · omega
      · exact absurd (hall e he hslot) hne
  · rw [hacc]; exact ⟨fun _ => ⟨hcur, hnc⟩, fun _ => rfl⟩

end F3.Equiv
