import Driver.Util
import F3.Model.Poll
/-! Driver for area `poll` (C20). Replays the log of `h_poll` through `F3.Poll` (whose predictor and
delay arithmetic are the definitions regenerated from source) and evaluates the property's
executable statements on the implementation's own observations:

* `PROGRESS-NEQ-ADVANCE` — the value `poll` returned / the predictor was fed is not the number of
  instances by which the subscriber's position advanced;
* `DELAY-BOUND` — the armed delay exceeds `until + min(requestTime, until/2)` (or is below `until`);
* `PREDICTOR-…` — interval outside `[min,max]`, progress 1 changed the interval, progress ≥ 2
  lengthened it, progress 0 shortened the next wait;
* `CADENCE-…` — closed-loop summary of a scenario outside the calibrated envelope;
* `TIMER-NOT-FIRED` — the loop did not wake up at the time it announced. -/
namespace Driver.Poll
open Driver F3 F3.Poll F3.GoInt

abbrev KV := List (String × String)

def parseKV (toks : List String) : KV :=
  toks.filterMap fun t =>
    match t.splitOn "=" with
    | [k, v] => some (k, v)
    | _ => none

def geti (kv : KV) (k : String) : Option Int := (kv.lookup k).bind (·.toInt?)
def gets (kv : KV) (k : String) : String := (kv.lookup k).getD ""

structure St where
  ps : PState := PState.init 1 1 1
  sc : Int := -1
  synced : Bool := true

/-- the four executable predictor statements, evaluated on one observed transition -/
def predictorOracle (s : PState) (progress next : Int) (s' : PState) : Option String :=
  if !(decide (PInv s)) || !(decide (s.maxI ≤ 2 ^ 58)) then none
  else if !(decide (s.minI ≤ s'.interval ∧ s'.interval ≤ s.maxI)) then
    some s!"PREDICTOR-BOUNDS interval {s'.interval} outside [{s.minI},{s.maxI}]"
  else if !(decide (s.minI ≤ next ∧ next ≤ 10 * s.maxI)) then
    some s!"PREDICTOR-BOUNDS next wait {next} outside [{s.minI},{10 * s.maxI}]"
  else if !(decide (PInv s')) then
    some s!"PREDICTOR-BOUNDS state invariant lost (explore {s'.explore}, backoff {s'.backoff})"
  else if progress == 1 && s.backoff == 0 && !(s' == s && next == s.interval) then
    some s!"PREDICTOR-FIXPOINT progress 1 outside backoff changed the prediction ({s.interval} -> {s'.interval}, next {next})"
  else if decide (progress ≥ 2) && !(decide (s'.interval ≤ s.interval ∧ next ≤ s.interval)) then
    some s!"PREDICTOR-SHORTENS progress {progress} lengthened the interval {s.interval} -> {s'.interval} (next {next})"
  else if progress == 0 &&
      !(decide (s'.interval ≥ s.interval ∧ next ≥ (if s.backoff > 0 then s.backoff else s.interval) ∧
                s'.backoff ≥ next ∧ s'.backoff > 0)) then
    some s!"PREDICTOR-BACKOFF progress 0 shortened the wait (interval {s.interval} -> {s'.interval}, next {next}, backoff {s.backoff} -> {s'.backoff})"
  else none

def stepPupd (toks : List String) : Verdict :=
  match toks with
  | [mn, mx, b, e, i, w, pr, nx, b2, e2, i2, w2, kind, res] =>
    match mn.toInt?, mx.toInt?, b.toInt?, e.toInt?, i.toInt?, parseBool? w, pr.toInt?, nx.toInt?,
          b2.toInt?, e2.toInt?, i2.toInt?, parseBool? w2 with
    | some mn, some mx, some b, some e, some i, some w, some pr, some nx, some b2, some e2, some i2, some w2 =>
      if res != "ok" then .oracle s!"PREDICTOR-PANIC update({pr}) panicked"
      else
        let s : PState := { minI := mn, maxI := mx, backoff := b, explore := e, interval := i, wasInc := w }
        let s' : PState := { s with backoff := b2, explore := e2, interval := i2, wasInc := w2 }
        -- the value really passed to time.Duration(progress) etc.: model works on the uint64 value
        let r := update s pr
        -- the implementation computes in int64; the model in Int. They agree when nothing overflows,
        -- which is a theorem for states inside the invariant with max ≤ 2^58; outside compare mod 2^64.
        let same := (i64 r.1 == nx) && (i64 r.2.backoff == b2) && (i64 r.2.explore == e2) &&
                    (i64 r.2.interval == i2) && (r.2.wasInc == w2)
        match predictorOracle s pr nx s' with
        | some msg => .oracle (msg ++ s!" [min={mn} max={mx} backoff={b} explore={e} interval={i} wasInc={w} progress={pr}]")
        | none =>
          if same then
            let tag := if decide (PInv s) then
                (if b > 0 then "pupd_backoff_" else "pupd_") ++
                (if pr == 0 then "p0" else if pr == 1 then "p1" else if pr == 2 then "p2"
                 else if decide (pr < 2 ^ 63) then "pN" else "pwrap")
              else "pupd_outside_inv"
            .ok (if kind == "reach" then tag else tag ++ "_" ++ kind)
          else .diff s!"predictor.update({pr}) = next {nx} state ({b2},{e2},{i2},{w2}); regenerated definition gives next {r.1} state ({r.2.backoff},{r.2.explore},{r.2.interval},{r.2.wasInc})"
    | _, _, _, _, _, _, _, _, _, _, _, _ => .bad "parse pupd"
  | _ => .bad "pupd arity"

def stepPoll (kv : KV) : Verdict :=
  match geti kv "next0", geti kv "store0", geti kv "next1", geti kv "store1", geti kv "netnew",
        geti kv "ret", geti kv "new", geti kv "late", geti kv "reqs" with
  | some n0, some s0, some n1, some s1, some netnew, some ret, some nw, some late, some reqs =>
    let res := gets kv "res"
    if res == "panic" then .oracle s!"POLL-PANIC poll panicked at NextInstance {n0}"
    else if res == "err" then .diff "poll returned an internal error"
    else
      let adv := pollProgress n0 n1
      if ret != adv then
        .oracle s!"PROGRESS-NEQ-ADVANCE poll returned progress {ret} but NextInstance advanced {n0} -> {n1} (store {s0} -> {s1}): expected {adv}"
      else if decide (n1 > s1) then .diff s!"NextInstance {n1} ahead of the store {s1}"
      else if late == 0 && decide (reqs > 0) && n1 != s1 then .diff s!"NextInstance {n1} behind the store {s1} although nothing was stored during the last request"
      else if (nw == 1) != decide (netnew > 0) then
        .diff s!"poll reported new={nw} but {netnew} certificates reached the store from peers"
      else
        .ok (if reqs == 0 then "poll_nopeers"
             else if adv == 0 then "poll_adv0"
             else if nw == 0 then "poll_localonly"
             else if adv == 1 then "poll_adv1"
             else if decide (s1 - s0 > netnew) then "poll_advN_mixed" else "poll_advN")
  | _, _, _, _, _, _, _, _, _ => .bad "parse poll"

def stepCatchup (kv : KV) : Verdict :=
  match geti kv "next0", geti kv "store0", geti kv "ret", geti kv "next1" with
  | some n0, some s0, some ret, some n1 =>
    if gets kv "err" == "true" then .diff "CatchUp returned an error"
    else if ret != catchUp n0 s0 then
      .oracle s!"PROGRESS-NEQ-ADVANCE CatchUp returned {ret} but the store is {s0 - n0} instances ahead of NextInstance {n0}"
    else if n1 != s0 then .diff s!"CatchUp left NextInstance at {n1}, store next is {s0}"
    else .ok (if ret == 0 then "catchup_0" else "catchup_n")
  | _, _, _, _ => .bad "parse catchup"

/-- candidates tried to explain an observed next interval when `progress = advance` does not -/
def candidates (n0 n1 netnew reqs : Int) : List Int :=
  [u64 (n0 - n1), 0, 1, 2, 3, netnew, reqs, u64 (n1 - n0 + 1), u64 (n1 - n0 - 1), n1, n0]

def stepRound (st : St) (kv : KV) : St × Verdict :=
  match geti kv "poll", geti kv "next0", geti kv "store0", geti kv "next1", geti kv "store1", geti kv "netnew",
        geti kv "reqs", geti kv "lat", geti kv "delay", geti kv "late", geti kv "since", geti kv "sincearg",
        geti kv "until", geti kv "untilarg" with
  | some poll, some n0, some s0, some n1, some s1, some netnew, some reqs, some lat, some delay, some late,
    some since, some sincearg, some untl, some untilarg =>
    let inp : RoundIn := { pollTime := poll, next0 := n0, store0 := s0, next1 := n1, newCert := decide (netnew > 0), now := poll + lat }
    let m := round st.ps inp
    let polled := m.polled
    -- consistency of the observation itself
    if polled != decide (since ≥ 0) then
      (st, .diff s!"catch-up found {catchUp n0 s0} but the loop did{if since ≥ 0 then "" else " not"} poll the network")
    else if since ≥ 0 && (sincearg != poll || since != lat) then
      (st, .diff s!"timer tick carried time {sincearg}, timer was armed for {poll} (request time {since} vs {lat})")
    else if !polled && (n1 != s0 || lat != 0) then
      (st, .diff s!"catch-up path: NextInstance {n1}, store was at {s0}, clock moved {lat}")
    else if decide (n1 > s1) || (late == 0 && decide (reqs > 0) && n1 != s1) then
      (st, .diff s!"NextInstance {n1} does not track the store {s1}")
    else
      let obsNext := untilarg - poll
      let delay0 := max untl 0
      let reqTime := if polled then since else 0
      -- 1. which progress was the predictor fed?
      let (ps', fed, progMsg) :=
        if m.nextInterval == obsNext then (m.st, m.progress, none)
        else
          match (candidates n0 n1 netnew reqs).find? (fun p => (update st.ps p).1 == obsNext) with
          | some p => ((update st.ps p).2, p,
              some s!"PROGRESS-NEQ-ADVANCE the predictor was fed progress {p} (predicted interval {obsNext}) but NextInstance advanced {n0} -> {n1}: expected {m.progress} (interval {m.nextInterval})")
          | none => (m.st, m.progress,
              some s!"UNEXPLAINED predicted interval {obsNext}, model {m.nextInterval} for progress {m.progress}")
      let st' := { st with ps := ps' }
      -- 2. the delay bound, on the observed values only
      let bound := delay0 + min reqTime (Int.tdiv delay0 2)
      if decide (delay > bound) || decide (delay < delay0) then
        let extra := match progMsg with
          | some msg => if msg.startsWith "UNEXPLAINED" then "" else " ; " ++ msg
          | none => ""
        (st', .oracle (s!"DELAY-BOUND armed delay {delay} but until={delay0} requestTime={reqTime}: bound until+min(requestTime,until/2)={bound}" ++ extra))
      else match progMsg with
      | some msg => if msg.startsWith "UNEXPLAINED" then (st', .diff msg) else (st', .oracle msg)
      | none =>
        let offset := if polled && decide (fed > 0) && !inp.newCert then reqTime else 0
        let md := F3.Gen.subscriberDelay delay0 offset
        if untl != untilarg - (poll + lat) then (st', .diff s!"Until returned {untl}, expected {untilarg - (poll + lat)}")
        else if md != delay then (st', .diff s!"armed delay {delay}, model {md} (until {delay0}, offset {offset})")
        else
          let tag :=
            if !polled then (if st.ps.backoff > 0 then "round_catchup_leaves_backoff" else "round_catchup")
            else if reqs == 0 then "round_nopeers"
            else if fed == 0 then (if st.ps.backoff > 0 then "round_poll0_backoff" else "round_poll0")
            else if offset != 0 then "round_poll_localonly_offset"
            else if fed == 1 then "round_poll1" else "round_pollN"
          (st', .ok (if delay0 == 0 then tag ++ "_late" else tag))
  | _, _, _, _, _, _, _, _, _, _, _, _, _, _ => (st, .bad "parse round")

/-- Closed-loop envelope (calibrated on the repaired tree; see DESIGN C20): in the second half of a
steady/jittered scenario whose production period lies inside `[2·min, max/2]` and which has an honest
peer or produces locally, the subscriber neither collapses to the minimum interval nor drifts to
the maximum: between 1/4 and 4 rounds per produced certificate, it obtains what was produced, and it
spends at most 8 rounds per certificate-free `max` interval during a production gap. -/
def stepLoop (kv : KV) : Verdict :=
  match geti kv "period", geti kv "min", geti kv "max", geti kv "honest", geti kv "rounds", geti kv "span",
        geti kv "produced", geti kv "got", geti kv "reqs", geti kv "gap", geti kv "gaprounds" with
  | some period, some mn, some mx, some honest, some rounds, some span, some produced, some got, some _reqs,
    some gap, some gaprounds =>
    let pattern := gets kv "pattern"
    let lcl := gets kv "local"
    let inRange := decide (2 * mn ≤ period) && decide (period ≤ mx / 2)
    let served := decide (honest > 0) || lcl == "all"
    let steady := pattern == "steady" || pattern == "jitter"
    if steady && inRange && served && decide (produced ≥ 6) then
      if decide (rounds > 4 * produced + 4) then
        .oracle s!"CADENCE-COLLAPSE {rounds} polling rounds for {produced} certificates produced every {period}ns (min interval {mn}): more than 4 per certificate"
      else if decide (4 * rounds + 4 < produced) then
        .oracle s!"CADENCE-DRIFT only {rounds} polling rounds for {produced} certificates produced every {period}ns (max interval {mx})"
      else if decide (got + 3 < produced) then
        .oracle s!"CADENCE-LAG obtained {got} of {produced} certificates"
      else .ok s!"loop_{pattern}_settled"
    else if decide (gap > 20 * period) && decide (gap > 4 * mx) && decide (gaprounds > 12 + 8 * (gap / mx)) then
      .oracle s!"CADENCE-NO-BACKOFF {gaprounds} polling rounds during a production gap of {gap}ns (max interval {mx})"
    else
      let _ := span
      .ok s!"loop_{pattern}_other"
  | _, _, _, _, _, _, _, _, _, _, _ => .bad "parse loop"

def step (st : St) (line : String) : St × Verdict :=
  match splitWs line with
  | "pupd" :: rest => (st, stepPupd rest)
  | "pcfg" :: _ => (st, .skip)
  | "pstat" :: rest =>
    -- a peer that delivered certificates the store did not have is recorded as a hit: its window moves towards
    -- hits (hits+1, or misses-1 when hits are at the window size), never towards misses
    let kv := parseKV rest
    match geti kv "netnew", geti kv "hits0", geti kv "misses0", geti kv "hits1", geti kv "misses1", geti kv "window" with
    | some nn, some h0, some m0, some h1, some m1, some w =>
      -- judged for peers that serve honestly (honest, lagging, stuck = kinds 0-2) in polls that returned normally: a
      -- flaky or hostile peer may deliver and then fail, which is rightly not a hit
      if nn ≤ 0 then (st, .ok "pstat_nonew")
      else if (geti kv "kind").getD 0 > 2 || gets kv "res" != "ok" then (st, .ok "pstat_unjudged")
      else
        let expect : Int × Int := if h0 < w then (h0 + 1, m0) else if m0 > 0 then (h0, m0 - 1) else (h0, m0)
        if (h1, m1) == expect then (st, .ok "pstat_hit")
        else (st, .oracle s!"PEER-DELIVERED-NOT-A-HIT the only peer delivered {nn} new certificate(s) in this poll and its hit/miss window went from {h0}/{m0} to {h1}/{m1}, expected {expect.1}/{expect.2}: useful peers sink in the ranking")
    | _, _, _, _, _, _ => (st, .bad "parse pstat")
  | "pinit" :: rest =>
    -- a poller created over a store that already holds certificates stands at the store's next instance: what is
    -- in the store before the subscriber starts is history, not progress (the first CatchUp feeds the predictor)
    let kv := parseKV rest
    match geti kv "next", geti kv "store" with
    | some n, some s =>
      if n == s then (st, .ok (if s == 0 then "pinit_empty" else "pinit_prefilled"))
      else (st, .oracle s!"PROGRESS-NEQ-ADVANCE a new poller stands at NextInstance {n} over a store whose next instance is {s}: its first CatchUp reports {s - n} instances of progress although the store did not advance")
    | _, _ => (st, .bad "parse pinit")
  | "poll" :: rest => (st, stepPoll (parseKV rest))
  | "catchup" :: rest => (st, stepCatchup (parseKV rest))
  | "rcfg" :: rest =>
    let kv := parseKV rest
    match geti kv "min", geti kv "init", geti kv "max", geti kv "sc" with
    | some mn, some ini, some mx, some sc => ({ ps := PState.init mn ini mx, sc := sc, synced := true }, .skip)
    | _, _, _, _ => (st, .bad "parse rcfg")
  | "round" :: rest => stepRound st (parseKV rest)
  | "loop" :: rest => (st, stepLoop (parseKV rest))
  | ["mloop", mn, ini, mx, period, phase, n] =>
    -- the model's own closed loop against an idealised steady producer (no implementation involved)
    match mn.toInt?, ini.toInt?, mx.toInt?, period.toInt?, phase.toInt?, n.toNat? with
    | some mn, some ini, some mx, some period, some phase, some n =>
      (st, if settlesWithin mn ini mx period phase n then .ok "model_closed_loop_settles"
           else .diff s!"model closed loop: fewer than 9 in 10 waits within a factor two of period {period}")
    | _, _, _, _, _, _ => (st, .bad "parse mloop")
  | "stuck" :: rest =>
    let kv := parseKV rest
    (st, .oracle s!"TIMER-NOT-FIRED scenario {gets kv "sc"} round {gets kv "k"}: the loop did not wake at {gets kv "expected"} (exited={gets kv "exited"})")
  | _ => (st, .bad "unknown op")

end Driver.Poll

def main : IO UInt32 := Driver.runArea Driver.Poll.step {}
