import Driver.Util
import F3.Model.Power
import F3.Spec.Quorum
/-! Driver for area `quorum` (C08). The Go harness reports what the real predicates returned;
the driver compares with the *specification* (`3p ≥ 2w` etc., `F3.Spec.Quorum`) and with the
hand model of scaling. -/
namespace Driver.Quorum

/-- spec oracle for `Scaled()`: `p_i ≤ p_j → s_i ≤ s_j` for all pairs (hence equal powers get equal scaled powers),
checked on the pairs sorted by (power, scaled) -/
def orderPreserving (ps : List Int) (sc : List Nat) : Bool :=
  let a := ((ps.zip sc).toArray.qsort (fun x y => x.1 < y.1 || (x.1 == y.1 && x.2 < y.2))).toList
  let rec go : List (Int × Nat) → Bool
    | x :: y :: r => (x.2 ≤ y.2) && (x.1 != y.1 || x.2 == y.2) && go (y :: r)
    | _ => true
  go a
open Driver F3

def step (_ : Unit) (line : String) : Unit × Verdict :=
  let r : Verdict :=
    match splitWs line with
    -- one predicate evaluation
    | ["sq", p, w, b] =>
      match parseInt? p, parseInt? w, parseBool? b with
      | some p, some w, some b =>
        if Spec.Quorum.strong p w == b then .ok (if b then "sq_true" else "sq_false")
        else .oracle s!"IsStrongQuorum({p},{w})={b} but 3p>=2w is {Spec.Quorum.strong p w}"
      | _, _, _ => .bad "parse"
    | ["wq", p, w, b] =>
      match parseInt? p, parseInt? w, parseBool? b with
      | some p, some w, some b =>
        -- property: weak ⇒ 3p > w. Exact model: p > ceil(w/3)
        if b && !(decide (3 * p > w)) then .oracle s!"hasWeakQuorum({p},{w}) true but 3p<=w"
        else if Spec.Quorum.weak p w == b then .ok (if b then "wq_true" else "wq_false")
        else .diff s!"hasWeakQuorum({p},{w})={b} model={Spec.Quorum.weak p w}"
      | _, _, _ => .bad "parse"
    -- a complete row: for total w the Go side scanned every p in [0,65535] and reports the
    -- first p at which the predicate is true and whether it is a step function.
    | ["sqrow", w, thr, mono] =>
      match parseInt? w, parseInt? thr, parseBool? mono with
      | some w, some t, some mono =>
        if !mono then .oracle s!"IsStrongQuorum(.,{w}) is not a step function"
        else if Spec.Quorum.strong t w && !(Spec.Quorum.strong (t - 1) w) then .ok "sqrow"
        else .oracle s!"threshold of IsStrongQuorum(.,{w}) is {t}, spec says otherwise"
      | _, _, _ => .bad "parse"
    | ["wqrow", w, thr, mono] =>
      match parseInt? w, parseInt? thr, parseBool? mono with
      | some w, some t, some mono =>
        if !mono then .oracle s!"hasWeakQuorum(.,{w}) is not a step function"
        else if !(decide (3 * t > w)) then .oracle s!"weak quorum threshold {t} for {w} not above a third"
        else if Spec.Quorum.weak t w && !(Spec.Quorum.weak (t - 1) w) then .ok "wqrow"
        else .diff s!"threshold of hasWeakQuorum(.,{w}) is {t}, model says otherwise"
      | _, _, _ => .bad "parse"
    -- couldReach: adv w voted support result
    | ["cr", adv, w, voted, support, b] =>
      match parseBool? adv, parseInt? w, parseInt? voted, parseInt? support, parseBool? b with
      | some adv, some w, some voted, some support, some b =>
        let m := Spec.Quorum.couldReach adv w voted support
        -- oracle: if reported false then even the maximal extra support stays below strong
        let maxExtra := (w - voted) + (if adv then w / 3 else 0)
        let best := min (support + maxExtra) w
        if !b && Spec.Quorum.strong best w then .oracle s!"reported unreachable but {best} of {w} is strong"
        else if m == b then .ok (if b then "cr_true" else "cr_false")
        else .diff s!"couldReach={b} model={m}"
      | _, _, _, _, _ => .bad "parse"
    -- scaled: powers => scaled list ; total     or  err
    | ["scaled", ps, "=>", "err"] =>
      match parseIntList? ps with
      | some ps => if (Power.scaled ps).isNone then .ok "scaled_err" else .diff "impl rejects, model accepts"
      | none => .bad "parse"
    | ["scaled", ps, "=>", sc, tot] =>
      match parseIntList? ps, parseNatList? sc, parseNat? tot with
      | some ps, some sc, some tot =>
        if tot > 65535 then .oracle s!"scaled total {tot} > 65535"
        else if sc.any (· > 65535) then .oracle "scaled entry > 65535"
        else if sc.length != ps.length then .oracle "one scaled power per entry"
        else if sc.foldl (· + ·) 0 != tot then .oracle s!"the reported total {tot} is not the sum of the scaled powers"
        else if !orderPreserving ps sc then .oracle "SCALED-ORDER scaled powers are not order-preserving (a member with at most the power of another got a larger scaled power, or equal powers got different ones)"
        else match Power.scaled ps with
          | some (msc, mtot) => if msc == sc && mtot == tot then .ok "scaled_ok" else .diff s!"model total {mtot}"
          | none => .diff "impl accepts, model rejects"
      | _, _, _ => .bad "parse"
    | _ => .bad "unknown op"
  ((), r)

end Driver.Quorum

def main : IO UInt32 := Driver.runArea Driver.Quorum.step ()
