import Driver.Util
import Std.Data.HashMap
import F3.Model.CertsParse
/-! Driver for area `Certs` (C04). Dictionary lines (`cid`, `cert`) define interned values; op lines
carry the input and what the real Go code returned. For each op the driver evaluates
* the property oracle (`F3.Certs.specPrefix` / `certValidB`, `makeDiff`, `canon` as specification) on
  the implementation's own result, and
* the executable model (`validateCerts`, `applyDiffs`, `makeDiff`) for step-by-step agreement. -/
namespace Driver.Certs
open Driver F3.Certs F3.Certs.Parse

structure St where
  cids : Std.HashMap Nat Table := {}
  certs : Std.HashMap Nat Cert := {}

def St.dict (s : St) : CidDict := fun n => s.cids.get? n

def bucket (n : Nat) : String :=
  if n = 0 then "0" else if n ≤ 2 then "1-2" else if n ≤ 8 then "3-8" else if n ≤ 32 then "9-32" else "33+"

def isCanon (t : Table) : Bool :=
  match t with
  | [] => true
  | x :: xs => (xs.foldl (fun (acc : Bool × Entry) e => (acc.1 && entryLe acc.2 e && !(entryLe e acc.2), e)) (true, x)).1

/-- `val` line -/
def checkVal (net next : Nat) (base : Option Tip) (table : Table) (cs : List Cert)
    (iNext : Nat) (iChain : List Tip) (iTable : Table) (iErr : String) (same : Bool) : Verdict :=
  let sp := specPrefix net ⟨next, [], table, base⟩ cs
  let s := sp.1
  let n := sp.2
  let m := validateCerts net table next base cs
  if !same then .oracle "CALLER-TABLE-MUTATED by ValidateFinalityCertificates"
  else if iErr == "ok" && n ≠ cs.length then
    .oracle s!"ACCEPTED-INVALID certificate #{n} of {cs.length} (model: {optErrName m.err})"
  else if iErr != "ok" && n == cs.length then
    .oracle s!"REJECTED-VALID sequence of {cs.length} valid certificates, error class {iErr}"
  else if iNext != s.next || iChain != s.chain || (!cs.isEmpty && iTable != s.table) then
    .oracle s!"WRONG-PREFIX reported (next={iNext}, chain len {iChain.length}, table len {iTable.length}) but the valid prefix has {n} certificates ending at next={s.next}, chain len {s.chain.length}"
  else if optErrName m.err != iErr then .diff s!"error class: impl {iErr} model {optErrName m.err}"
  else if m.next != iNext || m.chain != iChain || m.table != iTable then .diff "returned triple differs from model"
  else if iErr == "ok" then .ok s!"val_accept_n{bucket cs.length}"
  else .ok s!"val_rej_{iErr}_{if n = 0 then "first" else "later"}"

def checkApply (a : Table) (ds : List Diff) (res : Except String Table) (same : Bool)
    (remake : Option Diff) : Verdict :=
  let m := applyDiffs a ds
  if !same then .oracle "CALLER-TABLE-MUTATED by ApplyPowerTableDiffs"
  else match res, m with
  | .ok t, m =>
    -- property: an accepted delta is the canonical delta between input and output, the output is
    -- in canonical order
    if !isCanon t then .oracle "APPLY-NONCANONICAL-ORDER result of ApplyPowerTableDiffs is not in canonical order"
    else
      let uniq : Option String :=
        match ds with
        | [d] =>
          if wfB a then
            if makeDiff a t != d then some "APPLY-NONCANONICAL-DELTA accepted delta is not the canonical delta between input and output (model makeDiff)"
            else if !wfB t then some "APPLY-ILLFORMED-RESULT well-formed table and accepted delta gave an ill-formed table"
            else match remake with
              | some r => if r != d then some "APPLY-NONCANONICAL-DELTA MakePowerTableDiff(input, output) differs from the accepted delta" else none
              | none => none
          else none
        | _ => none
      match uniq with
      | some msg => .oracle msg
      | none =>
        match m with
        | .ok mt => if mt == t then .ok s!"apply_ok_{if wfB a then "wf" else "illformed"}_k{ds.length}" else .diff s!"apply result differs: model {showTable mt}"
        | .error e => .diff s!"impl accepts, model rejects with {diffErrName e}"
  | .error cls, .error e => if diffErrName e == cls then .ok s!"apply_err_{cls}" else .diff s!"error class impl {cls} model {diffErrName e}"
  | .error cls, .ok _ =>
    -- a canonical delta of two well-formed tables must be accepted
    .diff s!"impl rejects ({cls}), model accepts"

def checkMkApply (a b : Table) (d : Diff) (res : Except String Table) (same : Bool) : Verdict :=
  let md := makeDiff a b
  if !same then .oracle "CALLER-TABLE-MUTATED by MakePowerTableDiff/ApplyPowerTableDiffs"
  else if wfB a && wfB b then
    match res with
    | .ok t =>
      if t != canon b then .oracle "APPLY-MAKE apply(a, make(a,b)) differs from b in canonical order"
      else if md != d then .diff s!"makeDiff differs: model {showDiff md}"
      else .ok s!"mkapply_wf_d{bucket d.length}"
    | .error cls => .oracle s!"APPLY-MAKE delta between two well-formed tables rejected ({cls})"
  else
    if md != d then .diff s!"makeDiff differs: model {showDiff md}"
    else match res, applyDiff a d with
      | .ok t, .ok mt => if t == mt then .ok "mkapply_illformed_ok" else .diff "apply result differs"
      | .error cls, .error e => if cls == diffErrName e then .ok s!"mkapply_illformed_err_{cls}" else .diff s!"error class impl {cls} model {diffErrName e}"
      | _, _ => .diff "accept/reject differs"

def step (st : St) (line : String) : St × Verdict :=
  match splitWs line with
  | ["cid", id, t] =>
    match id.toNat?, table? t with
    | some id, some t => ({ st with cids := st.cids.insert id t }, .skip)
    | _, _ => (st, .bad "cid line")
  | ["cert", id, c] =>
    match id.toNat?, cert? st.dict c with
    | some id, some c => ({ st with certs := st.certs.insert id c }, .skip)
    | _, _ => (st, .bad "cert line")
  | ["val", net, next, base, table, cs, "=>", iNext, iChain, iTable, iErr, same] =>
    let r : Option Verdict := do
      let ids ← listOf "," String.toNat? cs
      let certs ← ids.mapM (fun i => st.certs.get? i)
      some (checkVal (← net.toNat?) (← next.toNat?) (← optTip? base) (← table? table) certs
        (← iNext.toNat?) (← chain? iChain) (← table? iTable) iErr (← parseBool? same))
    (st, r.getD (.bad "val line"))
  | ["apply", a, ds, "=>", "ok", t, same, remake] =>
    let r : Option Verdict := do
      let rm ← if remake = "~" then some none else (diff? remake).map some
      some (checkApply (← table? a) (← diffs? ds) (.ok (← table? t)) (← parseBool? same) rm)
    (st, r.getD (.bad "apply line"))
  | ["apply", a, ds, "=>", "err", cls, same] =>
    let r : Option Verdict := do
      some (checkApply (← table? a) (← diffs? ds) (.error cls) (← parseBool? same) none)
    (st, r.getD (.bad "apply line"))
  | ["mkapply", a, b, "=>", d, "ok", t, same] =>
    let r : Option Verdict := do
      some (checkMkApply (← table? a) (← table? b) (← diff? d) (.ok (← table? t)) (← parseBool? same))
    (st, r.getD (.bad "mkapply line"))
  | ["mkapply", a, b, "=>", d, "err", cls, same] =>
    let r : Option Verdict := do
      some (checkMkApply (← table? a) (← table? b) (← diff? d) (.error cls) (← parseBool? same))
    (st, r.getD (.bad "mkapply line"))
  | _ => (st, .bad "unknown op")

end Driver.Certs

def main : IO UInt32 := Driver.runArea Driver.Certs.step {}
