import Driver.Util
import F3.Model.Validator
import F3.Spec.ValidMsg
/-!
Driver for area `validate` (C05, C13). Replays the log of `h_validate` through the executable model
`F3.Validator` (the definitions the theorems of `Props/C05.lean`, `Props/C13.lean` are about) and
evaluates the property oracles (`F3.Spec.ValidMsg.validMsg`, `relevant`, history independence,
two-stage ≡ one-shot, strip/complete round trip) on the implementation's own observations.

Line protocol (tokens separated by blanks):
```
world net=N lookback=N groups=N setsize=N            -- new participant: resets tips, committees, cache
tip ID EPOCH KEYLEN PTLEN
comt INST BEACON id:power:pub,...                    -- committee of an instance (absent = none)
prune NEXT cur=ID                                    -- StartInstanceAt(NEXT) on the warm participant
v PROG MSG => WARM FRESH CM CJ0 CJ1 SHAPE                  -- ValidateMessage
t P1 P2 MSG KEY X CJV ENCC ENCJC => PW PF FW FF OW OF CMP CJ0P CJ1P CMO CJ0O CJ1O
s MSG X => KEY PV PJV CV CJV EQ                      -- ToPartialGMessage, then completion with X
h PROG MSG KEY X PRE => COMPLETED CV CJV ENCC ENCJC WARM FRESH TWOSTAGE SHAPE   -- real CompleteMessage, then one-shot or partial
cv PROG MSG => VERDICTS FRESH                        -- 6 goroutines x 2 passes on the warm participant (last op of a world)
collision A B                                        -- two symbolic payloads with equal bytes
MSG  = SENDER PAYLOAD SIG TICKET JUST ENC
PAYLOAD = inst,round,phase,supp,CHAIN     CHAIN = _ | id.id.id     KEY = cCHAIN | jN
SIG  = S,pub,SIGMSG | G,n     SIGMSG = V,net,inst,round,phase,supp,KEY | R,net,beacon,inst,round | O,n
JUST = - | PAYLOAD/SIGNERS/AGG/ENC   SIGNERS = - | i+i+i   AGG = A,i:pub+i:pub,SIGMSG | G,n
```
-/
namespace Driver.Validate
open Driver F3.Msg F3.Validator F3.Cache F3.Spec.ValidMsg

structure St where
  cfg : Cfg := ⟨0, 10⟩
  groups : Nat := 10
  setsize : Nat := 25000
  tips : List (Nat × Tip) := []
  comts : List (Nat × Committee) := []
  cache : VCache := GroupedSet.new 10 25000
  /-- which property's oracles are active: "c05", "c13" or "" (both) -/
  mode : String := ""

def St.comt (st : St) (i : Nat) : Option Committee :=
  match st.comts.find? (fun p => p.1 == i) with
  | some p => some p.2
  | none => none

/-! ### parsing -/

def kv? (s key : String) : Option Nat :=
  match s.splitOn "=" with
  | [k, v] => if k = key then v.toNat? else none
  | _ => none

def parseChain? (st : St) (s : String) : Option Chain :=
  if s = "_" then some []
  else (s.splitOn ".").mapM (fun t => do
    let id ← t.toNat?
    let p ← st.tips.find? (fun p => p.1 == id)
    pure p.2)

def parseKey? (st : St) (s : String) : Option VKey :=
  if s.startsWith "c" then (parseChain? st (s.drop 1).toString).map VKey.ofChain
  else if s.startsWith "j" then ((s.drop 1).toString.toNat?).map VKey.junk
  else none

def parsePayload? (st : St) (s : String) : Option Payload :=
  match s.splitOn "," with
  | [i, r, p, su, c] => do
    let i ← i.toNat?
    let r ← r.toNat?
    let p ← p.toNat?
    let su ← su.toNat?
    let c ← parseChain? st c
    pure ⟨i, r, p, su, c⟩
  | _ => none

def parseSigMsg? (st : St) (l : List String) : Option SigMsg :=
  match l with
  | ["V", n, i, r, p, su, k] => do
    let n ← n.toNat?
    let i ← i.toNat?
    let r ← r.toNat?
    let p ← p.toNat?
    let su ← su.toNat?
    let k ← parseKey? st k
    pure (.vote n i r p su k)
  | ["R", n, b, i, r] => do
    let n ← n.toNat?
    let b ← b.toNat?
    let i ← i.toNat?
    let r ← r.toNat?
    pure (.vrf n b i r)
  | ["O", n] => n.toNat?.map SigMsg.other
  | _ => none

def parseSig? (st : St) (s : String) : Option Sig :=
  match s.splitOn "," with
  | ["G", n] => n.toNat?.map Sig.garbage
  | "S" :: pub :: rest => do
    let pub ← pub.toNat?
    let m ← parseSigMsg? st rest
    pure (.tok pub m)
  | _ => none

def parsePair? (s : String) : Option (Nat × Nat) :=
  match s.splitOn ":" with
  | [a, b] => do
    let a ← a.toNat?
    let b ← b.toNat?
    pure (a, b)
  | _ => none

def parseAgg? (st : St) (s : String) : Option Agg :=
  match s.splitOn "," with
  | ["G", n] => n.toNat?.map Agg.garbage
  | "A" :: signers :: rest => do
    let ss ← if signers = "-" then some [] else (signers.splitOn "+").mapM parsePair?
    let m ← parseSigMsg? st rest
    pure (.tok ss m)
  | _ => none

def parseJust? (st : St) (s : String) : Option (Option Just) :=
  if s = "-" then some none
  else match s.splitOn "/" with
    | [pl, signers, agg, enc] => do
      let pl ← parsePayload? st pl
      let ss ← if signers = "-" then some [] else (signers.splitOn "+").mapM (·.toNat?)
      let agg ← parseAgg? st agg
      let enc ← parseBool? enc
      pure (some ⟨pl, ss, agg, enc⟩)
    | _ => none

def parseMsg? (st : St) (l : List String) : Option Msg :=
  match l with
  | [sender, pl, sig, tic, just, enc] => do
    let sender ← sender.toNat?
    let pl ← parsePayload? st pl
    let sig ← parseSig? st sig
    let tic ← parseSig? st tic
    let just ← parseJust? st just
    let enc ← parseBool? enc
    pure ⟨sender, pl, sig, tic, just, enc⟩
  | _ => none

def parseProg? (s : String) : Option Progress :=
  match s.splitOn "," with
  | [a, b, c] => do
    let a ← a.toNat?
    let b ← b.toNat?
    let c ← c.toNat?
    pure ⟨a, b, c⟩
  | _ => none

def parseEntries? (s : String) : Option (List Entry) :=
  if s = "-" then some []
  else (s.splitOn ",").mapM (fun e =>
    match e.splitOn ":" with
    | [a, b, c] => do
      let a ← a.toNat?
      let b ← b.toNat?
      let c ← c.toNat?
      pure (⟨a, b, c⟩ : Entry)
    | _ => none)

def verdictStr : F3.Msg.Verdict → String
  | .accept => "accept" | .invalid => "invalid" | .tooOld => "tooOld"
  | .notRelevant => "notRelevant" | .noCommittee => "noCommittee"

def chainStr (c : Chain) : String :=
  if c.isEmpty then "_" else ".".intercalate (c.map (fun t => toString t.id))

def keyStr : VKey → String
  | .ofChain c => "c" ++ chainStr c
  | .junk n => "j" ++ toString n

def bit (b : Bool) : String := if b then "1" else "0"

/-! ### oracles -/

/-- executable `validMsg` under the committee of the message's instance (false when there is none) -/
def isValid (st : St) (m : Msg) : Bool :=
  match st.comt m.vote.inst with
  | some c => decide (validMsg st.cfg.net c m)
  | none => false

def isRelevant (st : St) (cur : Progress) (m : Msg) : Bool :=
  decide (relevant st.cfg.lookback cur m.vote)

/-- the C05 oracle on one observed verdict; `none` = holds -/
def c05Oracle (st : St) (cur : Progress) (m : Msg) (who verdict : String) : Option String :=
  let valid := isValid st m
  if st.mode = "c13" then none
  else if verdict = "accept" && !valid then
    if m.vote.phase = COMMIT && m.vote.round = maxU64 then
      some s!"UNSOUND-ACCEPT-MAXROUND {who} validator accepts a COMMIT of round 2^64-1 justified by a PREPARE quorum of another round (MaxUint64 doubles as the any-round wildcard)"
    else
      some s!"UNSOUND-ACCEPT {who} validator accepts a message that violates the validity rules"
  else if verdict = "invalid" && valid then
    some s!"VALID-BRANDED-INVALID {who} validator brands a valid message invalid"
  else if valid && isRelevant st cur m && verdict != "accept" then
    some s!"INCOMPLETE-REJECT {who} validator answers {verdict} to a valid and relevant message"
  else none

def phaseTag (m : Msg) : String := s!"ph{m.vote.phase}"

def emptyCache : VCache := GroupedSet.new 10 25000

/-- expected peek strings after an operation, from the model cache -/
def peekStrs (cache : VCache) (partial? : Bool) (vk : VKey) (m : Msg) : String × String × String :=
  let mk : CKey := if partial? then CKey.pmsg vk m else CKey.msg m
  let cm := if m.enc then bit (cache.peek m.vote.inst mk) else "-"
  match m.just with
  | none => (cm, "-", "-")
  | some j =>
    let jk (k : VKey) : CKey := if partial? then CKey.pjust j k else CKey.just j k
    if j.enc then (cm, bit (cache.peek m.vote.inst (jk VKey.zero)), bit (cache.peek m.vote.inst (jk vk)))
    else (cm, "-", "-")

/-- structure of the model cache, rendered like `GroupedSet.VerifShape` -/
def shapeStr (c : VCache) : String :=
  if c.groups.isEmpty then "-"
  else ";".intercalate (c.groups.map (fun p => s!"{p.1}:{p.2.flip.length}:{p.2.flop.length}"))

def firstSome (l : List (Option String)) : Option String :=
  l.foldl (fun acc x => match acc with | some a => some a | none => x) none

def stepV (st : St) (cur : Progress) (m : Msg) (w f cm cj0 cj1 shape : String) : St × Verdict :=
  let comt := st.comt
  let rw := validate st.cfg comt cur st.cache m
  let rf := validate st.cfg comt cur emptyCache m
  let st' := { st with cache := rw.2 }
  let orc := firstSome [
    (if w != f && st.mode != "c13" then some s!"HISTORY-DEPENDENT warm validator says {w}, fresh validator says {f}" else none),
    c05Oracle st cur m "warm" w, c05Oracle st cur m "fresh" f]
  match orc with
  | some msg => (st', .oracle msg)
  | none =>
    if verdictStr rw.1 != w then (st', .diff s!"warm verdict {w}, model {verdictStr rw.1}")
    else if verdictStr rf.1 != f then (st', .diff s!"fresh verdict {f}, model {verdictStr rf.1}")
    else
      let (em, e0, e1) := peekStrs rw.2 false (keyOf m.vote.value) m
      if (em, e0, e1) != (cm, cj0, cj1) then
        (st', .diff s!"cache contents after op: impl {cm} {cj0} {cj1}, model {em} {e0} {e1}")
      else if shapeStr rw.2 != shape then (st', .diff s!"cache structure after op: model {shapeStr rw.2}")
      else
        let v := if isValid st m then "valid" else "bad"
        (st', .ok s!"v_{w}_{v}_{phaseTag m}")

/-- C13 oracle on the implementation's observations. `p` partial verdict, `fv` full verdict,
`o` one-shot verdict of the completed message. -/
def c13Oracle (st : St) (p1 p2 : Progress) (pm : PMsg) (x : Chain) (who p fv o : String) : Option String :=
  let two := if p = "accept" then fv else p
  let keyMatch := keyOf x == pm.key
  let placeholders := chainValid pm.msg.vote.value &&
    (match pm.msg.just with | some j => chainValid j.vote.value | none => true)
  if st.mode = "c05" then none
  else if two = "accept" && !keyMatch then
    some s!"TWOSTAGE-KEY-UNBOUND {who}: two-stage path admits a chain whose key differs from the announced key"
  else if two = "accept" && o != "accept" then
    some s!"TWOSTAGE-UNSOUND {who}: two-stage path accepts, one-shot validation of the completed message says {o}"
  else if o = "accept" && keyMatch && placeholders && (byProgress st.cfg p1 pm.msg.vote).isNone && two != "accept" then
    some s!"TWOSTAGE-INCOMPLETE {who}: one-shot validation accepts the completed message, two-stage path says {two}"
  else if keyMatch && placeholders && p1 == p2 && two != o then
    some s!"TWOSTAGE-CLASS {who}: two-stage verdict {two}, one-shot verdict {o} (same progress, matching key)"
  else none

def stepT (st : St) (p1 p2 : Progress) (m : Msg) (key : VKey) (x : Chain) (cjv : Option Chain)
    (encC : Bool) (encJC : Option Bool) (obs : List String) (tampered : Bool := false) : St × Verdict :=
  match obs with
  | [pw, pf, fw, ff, ow, ofr, cmP, cj0P, cj1P, shapeP, cmO, cj0O, cj1O, shapeO] =>
    let comt := st.comt
    let pm : PMsg := ⟨m, key⟩
    -- model: partial stage
    let rpw := partially st.cfg comt p1 st.cache pm
    let rpf := partially st.cfg comt p1 emptyCache pm
    -- completion
    let cm0 := complete pm x
    -- `tampered`: the completion filled in the vote value only and left the justification's value as it
    -- arrived (what a completion path that forgets the inference, or a peer-supplied completion, would do)
    let inferOk := tampered || (cm0.msg.just.map (·.vote.value)) == cjv
    let cbase : Msg := cm0.msg
    let cjust : Option Just := cbase.just.map (fun j =>
      { j with enc := encJC.getD j.enc,
               vote := if tampered then { j.vote with value := cjv.getD j.vote.value } else j.vote })
    let cmsg : Msg := { cbase with enc := encC, just := cjust }
    let cpm : PMsg := ⟨cmsg, key⟩
    let mf := fully st.cfg p2 cpm
    -- one-shot on the completed message (shared warm cache)
    let row := validate st.cfg comt p2 rpw.2 cmsg
    let rof := validate st.cfg comt p2 emptyCache cmsg
    let st' := { st with cache := row.2 }
    let orc := firstSome [
      (if st.mode = "c13" then none else if pw != pf then some s!"HISTORY-DEPENDENT partial validation: warm {pw}, fresh {pf}" else none),
      (if st.mode = "c13" then none else if ow != ofr then some s!"HISTORY-DEPENDENT warm validator says {ow}, fresh validator says {ofr}" else none),
      (if st.mode = "c13" then none else if fw != ff then some s!"HISTORY-DEPENDENT full stage: warm {fw}, fresh {ff}" else none),
      c05Oracle st p2 cmsg "warm" ow, c05Oracle st p2 cmsg "fresh" ofr,
      c13Oracle st p1 p2 pm x "warm" pw fw ow, c13Oracle st p1 p2 pm x "fresh" pf ff ofr]
    match orc with
    | some msg => (st', .oracle msg)
    | none =>
      if !inferOk then (st', .diff s!"completion: justification value differs from model inference")
      else if verdictStr rpw.1 != pw then (st', .diff s!"partial warm {pw}, model {verdictStr rpw.1}")
      else if verdictStr rpf.1 != pf then (st', .diff s!"partial fresh {pf}, model {verdictStr rpf.1}")
      else if verdictStr mf != fw then (st', .diff s!"full stage {fw}, model {verdictStr mf}")
      else if verdictStr mf != ff then (st', .diff s!"full stage (fresh) {ff}, model {verdictStr mf}")
      else if verdictStr row.1 != ow then (st', .diff s!"one-shot warm {ow}, model {verdictStr row.1}")
      else if verdictStr rof.1 != ofr then (st', .diff s!"one-shot fresh {ofr}, model {verdictStr rof.1}")
      else if peekStrs rpw.2 true key m != (cmP, cj0P, cj1P) then
        (st', .diff s!"cache contents after partial op differ from model")
      else if shapeStr rpw.2 != shapeP then (st', .diff s!"cache structure after partial op: model {shapeStr rpw.2}")
      else if peekStrs row.2 false (keyOf cmsg.vote.value) cmsg != (cmO, cj0O, cj1O) then
        (st', .diff s!"cache contents after one-shot op differ from model")
      else if shapeStr row.2 != shapeO then (st', .diff s!"cache structure after one-shot op: model {shapeStr row.2}")
      else
        let two := if pw = "accept" then fw else pw
        let km := if keyOf x == key then "key" else "nokey"
        (st', .ok s!"t_{two}_{ow}_{km}_{phaseTag m}")
  | _ => (st, .bad "t: result arity")

/-- the chain store after the chain exchange has seen `x`: every non-empty prefix of `x`, by key -/
def storeOf (pre : Bool) (x : Chain) (k : VKey) : Option Chain :=
  if pre then ((List.range x.length).map (fun i => x.take (i + 1))).find? (fun p => keyOf p == k) else none

/-- host flow: real `CompleteMessage` over a chain exchange that knows `x` (or not), then one-shot or
partial validation. -/
def stepH (st : St) (cur : Progress) (m : Msg) (key : VKey) (x : Chain) (pre : Bool) (obs : List String) :
    St × Verdict :=
  match obs with
  | [c1, cv, cjv, e1, e2, vw, vf, two, shape] =>
    let comt := st.comt
    let pm : PMsg := ⟨m, key⟩
    let placeholders := chainValid m.vote.value &&
      (match m.just with | some j => chainValid j.vote.value | none => true)
    -- purely on the implementation's observations: both arrival orders of chain and message agree
    if st.mode != "c05" && c1 = "1" && !key.isZero && placeholders && two != "pending" && two != vf then
      (st, .oracle s!"HOSTFLOW-PATHS-DIFFER chain known before the message (CompleteMessage + ValidateMessage) says {vf}, chain discovered after it (partial, completion, full) says {two}")
    else
    match completeMessage (storeOf pre x) pm with
    | some cm0 =>
      let js (j : Option Just) : String := match j with | some j => chainStr j.vote.value | none => "-"
      if c1 != "1" then (st, .diff "CompleteMessage: implementation did not complete, model does")
      else if (chainStr cm0.vote.value, js cm0.just) != (cv, cjv) then
        (st, .diff s!"CompleteMessage: completed values differ, model {chainStr cm0.vote.value} {js cm0.just}")
      else
        let cjust : Option Just := cm0.just.map (fun j => { j with enc := (parseBool? e2).getD j.enc })
        let cmsg : Msg := { cm0 with enc := (parseBool? e1).getD cm0.enc, just := cjust }
        let rw := validate st.cfg comt cur st.cache cmsg
        let rf := validate st.cfg comt cur emptyCache cmsg
        let st' := { st with cache := rw.2 }
        let orc := firstSome [
          (if vw != vf && st.mode != "c13" then some s!"HISTORY-DEPENDENT warm validator says {vw}, fresh validator says {vf}" else none),
          c05Oracle st cur cmsg "warm" vw, c05Oracle st cur cmsg "fresh" vf]
        match orc with
        | some msg => (st', .oracle msg)
        | none =>
          if verdictStr rw.1 != vw then (st', .diff s!"host flow (completed) warm {vw}, model {verdictStr rw.1}")
          else if verdictStr rf.1 != vf then (st', .diff s!"host flow (completed) fresh {vf}, model {verdictStr rf.1}")
          else if shapeStr rw.2 != shape then (st', .diff s!"cache structure after host flow: model {shapeStr rw.2}")
          else (st', .ok s!"h_completed_{vw}")
    | none =>
      if c1 != "0" then (st, .diff "CompleteMessage: implementation completed, model does not")
      else
        let rw := partially st.cfg comt cur st.cache pm
        let rf := partially st.cfg comt cur emptyCache pm
        let st' := { st with cache := rw.2 }
        if vw != vf && st.mode != "c13" then
          (st', .oracle s!"HISTORY-DEPENDENT partial validation: warm {vw}, fresh {vf}")
        else if verdictStr rw.1 != vw then (st', .diff s!"host flow (partial) warm {vw}, model {verdictStr rw.1}")
        else if verdictStr rf.1 != vf then (st', .diff s!"host flow (partial) fresh {vf}, model {verdictStr rf.1}")
        else if shapeStr rw.2 != shape then (st', .diff s!"cache structure after host flow: model {shapeStr rw.2}")
        else (st', .ok s!"h_partial_{vw}")
  | _ => (st, .bad "h: result arity")

def stepS (st : St) (m : Msg) (x : Chain) (obs : List String) : St × Verdict :=
  match obs with
  | [_, _, _, _, _, eq] =>
    let pm := strip m
    let cm := complete pm x
    let js (j : Option Just) : String := match j with | some j => chainStr j.vote.value | none => "-"
    let model := [keyStr pm.key, chainStr pm.msg.vote.value, js pm.msg.just, chainStr cm.msg.vote.value, js cm.msg.just,
      bit (decide (cm.msg = m))]
    let valid := isValid st m
    if st.mode != "c05" && valid && x == m.vote.value && eq != "1" then
      (st, .oracle s!"ROUNDTRIP-BROKEN completing the stripped form of a valid message with its own chain does not reproduce it")
    else if model != obs then (st, .diff s!"strip/complete: model {model}")
    else (st, .ok s!"s_{if valid then "valid" else "bad"}_{eq}")
  | ["panic"] => (st, if st.mode = "c05" then .diff "strip/complete panicked" else .oracle "ROUNDTRIP-PANIC strip/complete panicked")
  | _ => (st, .bad "s: result arity")

def step (st : St) (line : String) : St × Verdict :=
  match splitWs line with
  | ["world", n, l, g, s] =>
    match kv? n "net", kv? l "lookback", kv? g "groups", kv? s "setsize" with
    | some n, some l, some g, some s =>
      ({ cfg := ⟨n, l⟩, groups := g, setsize := s, cache := GroupedSet.new g s, mode := st.mode }, .skip)
    | _, _, _, _ => (st, .bad "world")
  | ["mode", m] => ({ st with mode := m }, .skip)
  | ["tip", id, e, k, p] =>
    match id.toNat?, e.toInt?, k.toNat?, p.toNat? with
    | some id, some e, some k, some p => ({ st with tips := (id, ⟨id, e, k, p⟩) :: st.tips }, .skip)
    | _, _, _, _ => (st, .bad "tip")
  | ["comt", i, b, es] =>
    match i.toNat?, b.toNat?, parseEntries? es with
    | some i, some b, some es => ({ st with comts := (i, ⟨es, b⟩) :: st.comts }, .skip)
    | _, _, _ => (st, .bad "comt")
  | ["prune", _next, cur, "=>", shape] =>
    match kv? cur "cur" with
    | some cur =>
      -- finishCurrentInstance: `if currentInstance > 1 { RemoveGroupsLessThan(currentInstance - 1) }`
      let cache := if cur > 1 then st.cache.removeLessThan (cur - 1) else st.cache
      if shapeStr cache != shape then ({ st with cache := cache }, .diff s!"cache structure after prune: model {shapeStr cache}")
      else ({ st with cache := cache }, .ok "prune")
    | none => (st, .bad "prune")
  | ["collision", a, b] => (st, .oracle s!"PAYLOAD-COLLISION distinct signing payloads {a} and {b} marshal to the same bytes")
  | "v" :: p :: rest =>
    match rest with
    | [s, pl, sig, tic, j, enc, "=>", w, f, cm, cj0, cj1, shape] =>
      match parseProg? p, parseMsg? st [s, pl, sig, tic, j, enc] with
      | some cur, some m => stepV st cur m w f cm cj0 cj1 shape
      | _, _ => (st, .bad "v: parse")
    | _ => (st, .bad "v: arity")
  | "cv" :: p :: rest =>
    match rest with
    | [s, pl, sig, tic, j, enc, "=>", vs, f] =>
      match parseProg? p, parseMsg? st [s, pl, sig, tic, j, enc] with
      | some cur, some m =>
        let mv := verdictStr (validate st.cfg st.comt cur emptyCache m).1
        if st.mode != "c13" && vs != f then
          (st, .oracle s!"HISTORY-DEPENDENT-CONCURRENT goroutines validating concurrently on one participant got {vs}, a fresh validator says {f}")
        else match (if st.mode = "c13" then none else c05Oracle st cur m "fresh" f) with
          | some msg => (st, .oracle msg)
          | none => if mv != f then (st, .diff s!"concurrent phase: fresh verdict {f}, model {mv}") else (st, .ok s!"cv_{f}")
      | _, _ => (st, .bad "cv: parse")
    | _ => (st, .bad "cv: arity")
  | "tt" :: p1 :: p2 :: rest =>
    match rest with
    | s :: pl :: sig :: tic :: j :: enc :: key :: x :: cjv :: encC :: encJC :: "=>" :: obs =>
      match parseProg? p1, parseProg? p2, parseMsg? st [s, pl, sig, tic, j, enc], parseKey? st key,
          parseChain? st x, parseBool? encC with
      | some p1, some p2, some m, some key, some x, some encC =>
        let cjv? : Option (Option Chain) := if cjv = "-" then some none else (parseChain? st cjv).map some
        let encJC? : Option (Option Bool) := if encJC = "-" then some none else (parseBool? encJC).map some
        match cjv?, encJC? with
        | some cjv, some encJC => stepT st p1 p2 m key x cjv encC encJC obs true
        | _, _ => (st, .bad "tt: parse2")
      | _, _, _, _, _, _ => (st, .bad "tt: parse")
    | _ => (st, .bad "tt: arity")
  | "t" :: p1 :: p2 :: rest =>
    match rest with
    | s :: pl :: sig :: tic :: j :: enc :: key :: x :: cjv :: encC :: encJC :: "=>" :: obs =>
      match parseProg? p1, parseProg? p2, parseMsg? st [s, pl, sig, tic, j, enc], parseKey? st key,
          parseChain? st x, parseBool? encC with
      | some p1, some p2, some m, some key, some x, some encC =>
        let cjv? : Option (Option Chain) := if cjv = "-" then some none else (parseChain? st cjv).map some
        let encJC? : Option (Option Bool) := if encJC = "-" then some none else (parseBool? encJC).map some
        match cjv?, encJC? with
        | some cjv, some encJC => stepT st p1 p2 m key x cjv encC encJC obs
        | _, _ => (st, .bad "t: parse2")
      | _, _, _, _, _, _ => (st, .bad "t: parse")
    | _ => (st, .bad "t: arity")
  | "h" :: p :: rest =>
    match rest with
    | s :: pl :: sig :: tic :: j :: enc :: key :: x :: pre :: "=>" :: obs =>
      match parseProg? p, parseMsg? st [s, pl, sig, tic, j, enc], parseKey? st key, parseChain? st x, parseBool? pre with
      | some cur, some m, some key, some x, some pre => stepH st cur m key x pre obs
      | _, _, _, _, _ => (st, .bad "h: parse")
    | _ => (st, .bad "h: arity")
  | "s" :: rest =>
    match rest with
    | s :: pl :: sig :: tic :: j :: enc :: x :: "=>" :: obs =>
      match parseMsg? st [s, pl, sig, tic, j, enc], parseChain? st x with
      | some m, some x => stepS st m x obs
      | _, _ => (st, .bad "s: parse")
    | _ => (st, .bad "s: arity")
  | _ => (st, .bad "unknown op")

end Driver.Validate

def main : IO UInt32 := Driver.runArea Driver.Validate.step {}
