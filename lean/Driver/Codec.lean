import Driver.Util
import F3.Model.CodecBytes
import F3.Model.CodecHash
import F3.Model.Merkle
import F3.Model.Payload
import F3.Model.Cbor
import F3.Gen.Schema
/-! Driver for area `codec` (C14). Reads the log of `h_codec` and, per line,
* re-computes the implementation's bytes with the executable model (`F3.Payload`, `F3.Merkle`,
  `F3.Cbor` over the schema table extracted from the Go sources, hashes instantiated with the
  executable keccak-256 / blake2b-256) — a disagreement is a `DIFF`;
* evaluates the property on the implementation's own observation — a failure is an `ORACLE-FAIL`
  whose message starts with a stable keyword (SIGNED-BYTES-INSENSITIVE, KEY-DISAGREE, KEY-STALE,
  ROUNDTRIP, NONDETERMINISTIC, OVERLIMIT-ACCEPTED, OVERLIMIT-ENCODED, ENCODE-REJECTS-VALID,
  VALID-REJECTED, DECODE-PANIC, ALLOC-BOUND, ZSTD-…). -/
namespace Driver.Codec
open Driver F3 F3.Codec F3.Cbor

/-! ### parsing -/

def hexNib (c : UInt8) : Option Nat :=
  if 48 ≤ c ∧ c ≤ 57 then some (c.toNat - 48)
  else if 97 ≤ c ∧ c ≤ 102 then some (c.toNat - 87)
  else none

/-- hex → bytes (`-` is empty); iterative, safe for long strings -/
def hexBytes (s : String) : Option Bytes := Id.run do
  if s == "-" then return some []
  let a := s.toUTF8
  if a.size % 2 != 0 then return none
  let mut acc : Array Nat := Array.mkEmpty (a.size / 2)
  for i in [0:a.size / 2] do
    match hexNib a[2 * i]!, hexNib a[2 * i + 1]! with
    | some x, some y => acc := acc.push (x * 16 + y)
    | _, _ => return none
  return some acc.toList

def hexList (s : String) : Option (List Bytes) :=
  if s == "-" then some [] else (s.splitOn ",").mapM hexBytes

def isDigit (c : UInt8) : Bool := 48 ≤ c && c ≤ 57

/-- decimal digits starting at `i`: value and next index -/
partial def readNat (a : ByteArray) (i : Nat) (acc : Nat) (any : Bool) : Option (Nat × Nat) :=
  if h : i < a.size then
    let c := a[i]
    if isDigit c then readNat a (i + 1) (acc * 10 + (c.toNat - 48)) true
    else if any then some (acc, i) else none
  else if any then some (acc, i) else none

def readInt (a : ByteArray) (i : Nat) : Option (Int × Nat) :=
  if i < a.size && a[i]! == 45 then
    match readNat a (i + 1) 0 false with
    | some (n, j) => some (-(n : Int), j)
    | none => none
  else
    match readNat a i 0 false with
    | some (n, j) => some ((n : Int), j)
    | none => none

partial def readHex (a : ByteArray) (i : Nat) (acc : Array Nat) : Array Nat × Nat :=
  if i + 1 < a.size then
    match hexNib a[i]!, hexNib a[i + 1]! with
    | some x, some y => readHex a (i + 2) (acc.push (x * 16 + y))
    | _, _ => (acc, i)
  else (acc, i)

mutual
/-- canonical value text of the harness: `u<n>` `i<int>` `g<int>` `t` `f` `n` `b<hex>` `(v,v,…)` -/
partial def parseVal (a : ByteArray) (i : Nat) : Option (Value × Nat) :=
  if h : i < a.size then
    let c := a[i]
    if c == 117 then (readNat a (i + 1) 0 false).map fun (n, j) => (.uint n, j)
    else if c == 105 then (readInt a (i + 1)).map fun (n, j) => (.int n, j)
    else if c == 103 then (readInt a (i + 1)).map fun (n, j) => (.big n, j)
    else if c == 116 then some (.bool true, i + 1)
    else if c == 102 then some (.bool false, i + 1)
    else if c == 110 then some (.null, i + 1)
    else if c == 98 then
      let (bs, j) := readHex a (i + 1) #[]
      some (.bytes bs.toList, j)
    else if c == 40 then
      if i + 1 < a.size && a[i + 1]! == 41 then some (.nil, i + 2) else parseSeq a (i + 1)
    else none
  else none
/-- elements up to and including the closing parenthesis -/
partial def parseSeq (a : ByteArray) (i : Nat) : Option (Value × Nat) :=
  match parseVal a i with
  | none => none
  | some (v, j) =>
    if j < a.size && a[j]! == 44 then
      match parseSeq a (j + 1) with
      | some (vs, k) => some (.cons v vs, k)
      | none => none
    else if j < a.size && a[j]! == 41 then some (.cons v .nil, j + 1)
    else none
end

def parseValue (s : String) : Option Value :=
  let a := s.toUTF8
  match parseVal a 0 with
  | some (v, j) => if j == a.size then some v else none
  | none => none

def valueList : Value → Option (List Value)
  | .nil => some []
  | .cons v vs => (valueList vs).map (v :: ·)
  | _ => none

def toTipSet (v : Value) : Option Payload.TipSet :=
  match v with
  | .cons (.int e) (.cons (.bytes k) (.cons (.bytes pt) (.cons (.bytes cm) .nil))) => some ⟨e, k, pt, cm⟩
  | _ => none

def parseChain (s : String) : Option (List Payload.TipSet) := do
  let v ← parseValue s
  let l ← valueList v
  l.mapM toTipSet

/-! ### model instances -/

def H := Hash.keccak256
def B := Hash.blake2b256

def chainKey (c : List Payload.TipSet) : Bytes := Payload.chainKey H B c

def lookupSchema (name : String) : Option Schema := (Gen.Schema.table.lookup name)

def getField (toks : List String) (pfx : String) : Option String :=
  match toks.find? (·.startsWith pfx) with
  | some t => some (t.drop pfx.length).toString
  | none => none

structure St where
  sizes : List (String × Nat) := []
  payBase : Option (String × Bytes) := none
  vrfBase : Option (String × Bytes) := none
  tsBase : Option (String × Bytes) := none

/-! ### line kinds -/

def firstDiff (a b : List Bytes) (i : Nat := 0) : Option Nat :=
  match a, b with
  | [], [] => none
  | x :: xs, y :: ys => if x == y then firstDiff xs ys (i + 1) else some i
  | _, _ => some i

def doMerkle (vals root batch direct : String) : Verdict :=
  match hexList vals, hexBytes root, hexList batch, hexList direct with
  | some vs, some r, some bt, some dr =>
    if bt.length != vs.length || dr.length != vs.length then .bad "length"
    else match firstDiff bt dr with
    | some i => .oracle s!"KEY-DISAGREE merkle.BatchTree and merkle.Tree differ for the prefix of length {i + 1} of {vs.length} values"
    | none =>
      if vs.length > 0 && dr.getLast? != some r then .oracle "KEY-DISAGREE merkle.Tree of the whole list differs from its last prefix"
      else
        let mdirect := (List.range vs.length).map fun i => Merkle.tree H (vs.take (i + 1))
        let mbatch := Merkle.batchTree H vs
        if Merkle.tree H vs != r then .diff s!"merkle root: model {toHex (Merkle.tree H vs)}"
        else match firstDiff mdirect dr, firstDiff mbatch bt with
        | some i, _ => .diff s!"merkle.Tree prefix {i + 1}: model differs"
        | _, some i => .diff s!"merkle.BatchTree prefix {i + 1}: model differs"
        | none, none => .ok (if vs.length = 0 then "merkle_empty" else "merkle")
  | _, _, _, _ => .bad "parse"

def doKeys (chain direct batch cached warm full apfresh content : String) : Verdict :=
  match parseChain chain, hexList direct, hexList batch, hexList cached, hexList warm, hexBytes full, hexList apfresh with
  | some c, some dr, some bt, some ca, some wa, some fu, some af =>
    let n := c.length
    if dr.length != n then .bad "length"
    else if content != "ok" then .oracle s!"KEY-DISAGREE {content}: AllPrefixes()[i] does not hold the tipsets of Prefix(i) (chain length {n})"
    else if (firstDiff ca af).isSome then .oracle s!"KEY-STALE the key cached in AllPrefixes()[{(firstDiff ca af).getD 0}] is not the key of that prefix's content (chain length {n})"
    else if bt.length != n then .oracle s!"KEY-DISAGREE KeysForPrefixes returned {bt.length} keys for a chain of {n}"
    else if ca.length != n then .oracle s!"KEY-DISAGREE AllPrefixes returned {ca.length} prefixes for a chain of {n}"
    else match firstDiff dr bt, firstDiff dr ca, firstDiff dr wa with
    | some i, _, _ => .oracle s!"KEY-DISAGREE Prefix({i}).Key() differs from KeysForPrefixes()[{i}] (chain length {n})"
    | _, some i, _ => .oracle s!"KEY-DISAGREE Prefix({i}).Key() differs from the cached key of AllPrefixes()[{i}] (chain length {n})"
    | _, _, some i => .oracle s!"KEY-STALE Prefix({i}).Key() taken after the parent's key was cached differs from a fresh computation (chain length {n})"
    | none, none, none =>
      if fu != (dr.getLast?.getD Merkle.zeroDigest) then .oracle s!"KEY-DISAGREE Key() differs from the key of the full prefix (chain length {n})"
      else
        let leaves := c.map (Payload.tipsetBytes B)
        -- `chainKey (chainPrefix c i) = tree (leaves.take (i+1))` (proved: `keysForPrefixes_get`); the leaves
        -- are computed once here, the full key below goes through `Payload.chainKey` itself
        let mdirect := (List.range n).map fun i => Merkle.tree H (leaves.take (i + 1))
        let mbatch := Merkle.batchTree H leaves
        match firstDiff mdirect dr, firstDiff mbatch bt with
        | some i, _ => .diff s!"chain key of prefix {i}: model {toHex (mdirect.getD i [])}"
        | _, some i => .diff s!"batch key of prefix {i}: model differs"
        | none, none =>
          if chainKey c != fu then .diff "full key: model differs"
          else .ok (if n = 0 then "keys_bottom" else if n ≥ 100 then "keys_long" else "keys")
  | _, _, _, _, _, _, _ => .bad "parse"

def doDkey (op chain key fresh : String) : Verdict :=
  match parseChain chain, hexBytes key, hexBytes fresh with
  | some c, some k, some f =>
    if k != f then .oracle s!"KEY-STALE {op}: Key() of the derived chain differs from the key of an equal fresh chain (length {c.length})"
    else if chainKey c != f then .diff s!"derived chain key: model {toHex (chainKey c)}"
    else .ok ("dkey_" ++ (op.splitOn "-").headD "")
  | _, _, _ => .bad "parse"

structure PayIn where
  net : Bytes
  phase : Nat
  round : Nat
  inst : Nat
  comm : Bytes
  pt : Bytes
  chainText : String
  chain : List Payload.TipSet

def parsePay (net phase round inst comm pt chain : String) : Option PayIn := do
  let net ← hexBytes net
  let phase ← phase.toNat?
  let round ← round.toNat?
  let inst ← inst.toNat?
  let comm ← hexBytes comm
  let pt ← hexBytes pt
  let c ← parseChain chain
  pure ⟨net, phase, round, inst, comm, pt, chain, c⟩

def PayIn.key (p : PayIn) : Bytes := chainKey p.chain
def PayIn.bytes (p : PayIn) : Bytes :=
  Payload.signedBytes H B p.net p.phase p.round p.inst p.comm p.pt p.chain

def doPay (st : St) (toks : List String) : St × Verdict :=
  match toks with
  | [net, phase, round, inst, comm, pt, chain, "=>", key, bytes, sb] =>
    match parsePay net phase round inst comm pt chain, hexBytes key, hexBytes bytes with
    | some p, some k, some b =>
      let st' := { st with payBase := some (" ".intercalate [net, phase, round, inst, comm, pt, chain], b) }
      if sb != "sb=ok" then (st', .oracle s!"SIGNED-BYTES-ROUTES-DIFFER {sb}: MarshalForSigning, MarshalForSigningWithValueKey(Key()) and MessageBuilder.PrepareSigningInputs disagree")
      else if p.key != k then (st', .diff s!"chain key: model {toHex p.key}")
      else if p.bytes != b then (st', .diff s!"signing payload: model {toHex p.bytes}")
      else (st', .ok (if p.chain.isEmpty then "pay_bottom" else if p.chain.length ≥ 100 then "pay_long" else "pay"))
    | _, _, _ => (st, .bad "parse")
  | _ => (st, .bad "shape")

def fieldClass (f : String) : String :=
  if f.startsWith "tipset[" then "tipset." ++ ((f.splitOn ".").getD 1 "")
  else if f.startsWith "chain-" then ((f.splitOn "[").headD f)
  else f

def doSens (st : St) (toks : List String) : St × Verdict :=
  match toks with
  | [field, net, phase, round, inst, comm, pt, chain, "=>", bytes] =>
    match st.payBase, parsePay net phase round inst comm pt chain, hexBytes bytes with
    | some (baseText, baseBytes), some p, some b =>
      let thisText := " ".intercalate [net, phase, round, inst, comm, pt, chain]
      if thisText == baseText then (st, .bad "perturbed input equals the baseline")
      else if b == baseBytes then
        (st, .oracle s!"SIGNED-BYTES-INSENSITIVE field={field}: the signing payload did not change when only {field} changed; baseline input: {baseText.take 300}")
      else if p.bytes != b then (st, .diff s!"signing payload ({field} perturbed): model {toHex p.bytes}")
      else (st, .ok ("sens_" ++ fieldClass field))
    | none, _, _ => (st, .bad "sens without pay")
    | _, _, _ => (st, .bad "parse")
  | _ => (st, .bad "shape")

def parseVrf (net beacon inst round : String) : Option Payload.VrfInput := do
  pure ⟨← hexBytes net, ← hexBytes beacon, ← inst.toNat?, ← round.toNat?⟩

def doVrf (st : St) (toks : List String) (sens : Bool) : St × Verdict :=
  let (field, toks) := if sens then (toks.headD "", toks.drop 1) else ("", toks)
  match toks with
  | [net, beacon, inst, round, "=>", bytes] =>
    match parseVrf net beacon inst round, hexBytes bytes with
    | some v, some b =>
      let txt := " ".intercalate [net, beacon, inst, round]
      if !sens then
        ({ st with vrfBase := some (txt, b) },
          if Payload.vrfBytes v == b then .ok "vrf" else .diff s!"vrf input: model {toHex (Payload.vrfBytes v)}")
      else match st.vrfBase with
        | none => (st, .bad "vsens without vrf")
        | some (baseText, baseBytes) =>
          if txt == baseText then (st, .bad "perturbed input equals the baseline")
          else if b == baseBytes then
            (st, .oracle s!"SIGNED-BYTES-INSENSITIVE vrf field={field}: the VRF input did not change when only {field} changed; baseline: {baseText}")
          else if Payload.vrfBytes v != b then (st, .diff s!"vrf input ({field} perturbed): model differs")
          else (st, .ok ("vsens_" ++ field))
    | _, _ => (st, .bad "parse")
  | _ => (st, .bad "shape")

def doTs (st : St) (toks : List String) (sens : Bool) : St × Verdict :=
  let (field, toks) := if sens then (toks.headD "", toks.drop 1) else ("", toks)
  match toks with
  | [ts, "=>", bytes] =>
    match (parseValue ts).bind toTipSet, hexBytes bytes with
    | some t, some b =>
      let m := Payload.tipsetBytes B t
      if !sens then
        ({ st with tsBase := some (ts, b) }, if m == b then .ok "ts" else .diff s!"TipSet.MarshalForSigning: model {toHex m}")
      else match st.tsBase with
        | none => (st, .bad "tsens without ts")
        | some (baseText, baseBytes) =>
          if ts == baseText then (st, .bad "perturbed input equals the baseline")
          else if b == baseBytes then
            (st, .oracle s!"SIGNED-BYTES-INSENSITIVE tipset field={field}: TipSet.MarshalForSigning did not change when only {field} changed; baseline: {baseText}")
          else if m != b then (st, .diff s!"TipSet.MarshalForSigning ({field} perturbed): model differs")
          else (st, .ok ("tsens_" ++ field))
    | _, _ => (st, .bad "parse")
  | _ => (st, .bad "shape")

/-! ### codecs -/

def capZ : Nat := Gen.Schema.maxDecompressedSize

def doRt (typ val res : String) (flags : List String) : Verdict :=
  match lookupSchema typ, parseValue val with
  | some s, some v =>
    let doc := s.documented
    let m := encode s v
    let d := encode doc v
    if res.startsWith "panic" then .oracle s!"ENCODE-PANIC {typ}: {res}"
    else if res == "err" then
      if d.isSome then .oracle s!"ENCODE-REJECTS-VALID {typ}: MarshalCBOR refused a value within the documented limits"
      else if m.isSome then .diff "implementation refuses, model encodes"
      else .ok "rt_reject_overlimit"
    else match hexBytes res with
      | none => .bad "hex"
      | some b =>
        let fl (k : String) := (getField flags k).getD "?"
        let dec := fl "dec="; let det := fl "det="; let z := fl "z="; let zdet := fl "zdet="
        if d.isNone then .oracle s!"OVERLIMIT-ENCODED {typ}: MarshalCBOR accepted a value outside the documented limits ({b.length} bytes)"
        else if dec != "ok" then .oracle s!"ROUNDTRIP {typ}: decode(encode(v)) gave {dec} for a {b.length}-byte encoding"
        else if det != "ok" then .oracle s!"NONDETERMINISTIC {typ}: two encodings of the same value (or the re-encoding of the decoded value) differ"
        else if z == "-" then
          (if m != some b then .diff s!"encoding: model {(m.map toHex).getD "none"}"
           else match decode s b with
            | .ok (v', []) => if v' == v then .ok ("rt_" ++ typ) else .diff "model decodes the implementation's bytes to another value"
            | .ok (_, _) => .diff "model decode leaves bytes unread"
            | .error e => .diff s!"model decode fails on the implementation's bytes: {e.name}")
        else if z == "encerr" && b.length ≤ capZ then .oracle s!"ZSTD-ENCODE-REJECTS {typ}: {b.length} bytes of CBOR refused by the compressing codec"
        else if z != "ok" && z != "encerr" then .oracle s!"ZSTD-ROUNDTRIP {typ}: decode(encode(v)) through zstd gave {z}"
        else if z == "ok" && b.length > capZ then .oracle s!"ZSTD-OVER-CAP {typ}: {b.length} bytes of CBOR went through the compressing codec"
        else if zdet == "no" then .oracle s!"NONDETERMINISTIC {typ}: two zstd encodings of the same value differ"
        else if m != some b then .diff s!"encoding: model {(m.map toHex).getD "none"}"
        else match decode s b with
          | .ok (v', []) => if v' == v then .ok ("rt_" ++ typ) else .diff "model decodes the implementation's bytes to another value"
          | .ok (_, _) => .diff "model decode leaves bytes unread"
          | .error e => .diff s!"model decode fails on the implementation's bytes: {e.name}"
  | none, _ => .bad s!"unknown type {typ}"
  | _, none => .bad "value text"

def kindClass (k : String) : String :=
  ((k.splitOn "@").headD k |>.splitOn ":").headD k |>.splitOn "+" |>.headD k

def checkAlloc (s : Schema) (typ kind : String) (inputLen : Nat) (alloc : Nat) : Option String :=
  if alloc > s.documented.allocBound inputLen then
    some s!"ALLOC-BOUND {typ}: decoding {inputLen} bytes ({kind}) allocated {alloc} bytes, bound {s.documented.allocBound inputLen}"
  else none

/-- the model's allocation requests (`allocReq`, the subject of `decode_alloc_bounded`) are a lower
bound of what the implementation was measured to allocate: the model does not under-count -/
def allocModelGap (s : Schema) (b : Bytes) (alloc : Nat) : Option String :=
  let req := allocReq s b
  if alloc + 64 < req then some s!"allocation: model requests {req} bytes, implementation allocated only {alloc}" else none

def doDec (typ kind hex : String) (rest : List String) : Verdict :=
  match lookupSchema typ, hexBytes hex with
  | some s, some b =>
    let alloc := ((getField rest "alloc=").bind (·.toNat?)).getD 0
    let verdict := rest.headD ""
    if verdict.startsWith "panic" then .oracle s!"DECODE-PANIC {typ} ({kind}): {verdict} on {b.length} bytes"
    else if rest.contains "paths-differ" then .diff "UnmarshalCBOR and encoding.CBOR.Decode disagree"
    else
    let m := decode s b
    let d := decode s.documented b
    match checkAlloc s typ kind b.length alloc with
    | some msg => .oracle msg
    | none =>
    match allocModelGap s b alloc with
    | some msg => .diff msg
    | none =>
      if verdict == "ok" then
        match d with
        | .error .overlimit => .oracle s!"OVERLIMIT-ACCEPTED {typ} ({kind}): UnmarshalCBOR accepted input with a length above the documented limit"
        | _ =>
          match m, rest with
          | .ok (v, r), _ :: vtxt :: used :: _ =>
            match parseValue vtxt, (used.drop 5).toString.toNat? with
            | some gv, some u =>
              if gv != v then .diff "decoded value differs from the model's"
              else if u + r.length != b.length then .diff s!"consumed {u} bytes, model {b.length - r.length}"
              else .ok ("dec_ok_" ++ kindClass kind)
            | _, _ => .bad "value text"
          | .error e, _ => .diff s!"implementation accepts, model rejects ({e.name})"
          | _, _ => .bad "shape"
      else if verdict == "err" then
        match m with
        | .ok (v, r) =>
          -- a canonical encoding of an in-limit value that the implementation refuses
          if encode s.documented v == some (b.take (b.length - r.length)) then
            .oracle s!"VALID-REJECTED {typ} ({kind}): UnmarshalCBOR refused a valid encoding of a value within the documented limits"
          else .diff "implementation rejects, model accepts"
        | .error e => .ok ("dec_err_" ++ e.name ++ "_" ++ kindClass kind)
      else .bad "verdict"
  | none, _ => .bad s!"unknown type {typ}"
  | _, none => .bad "hex"

def zAllocBound : Nat := 4 * capZ

def doZbomb (typ kind : String) (rest : List String) : Verdict :=
  let plain := ((getField rest "plain=").bind (·.toNat?)).getD 0
  let alloc := ((getField rest "alloc=").bind (·.toNat?)).getD 0
  match rest.dropWhile (· != "=>") with
  | _ :: verdict :: _ =>
    if verdict.startsWith "panic" then .oracle s!"DECODE-PANIC zstd {typ} ({kind}): {verdict}"
    else if plain > capZ && verdict == "ok" then .oracle s!"ZSTD-OVEREXPAND-ACCEPTED {typ}: a frame expanding to {plain} bytes ({kind}) was decoded"
    else if alloc > zAllocBound then .oracle s!"ALLOC-BOUND zstd {typ}: a frame expanding to {plain} bytes ({kind}) made the decoder allocate {alloc} bytes, bound {zAllocBound}"
    else .ok ("zbomb_" ++ kind ++ "_" ++ verdict)
  | _ => .bad "shape"

def doZcap (typ : String) (rest : List String) : Verdict :=
  let n := ((getField rest "cbor=").bind (·.toNat?)).getD 0
  let cborerr := (getField rest "cborerr=").getD "" == "true"
  match rest.dropWhile (· != "=>") with
  | _ :: verdict :: _ =>
    if cborerr then .ok "zcap_cborerr"
    else if n ≤ capZ then
      (if verdict == "ok" then .ok "zcap_below_ok" else .oracle s!"ZSTD-ROUNDTRIP {typ}: a value of {n} CBOR bytes (cap {capZ}) gave {verdict}")
    else
      (if verdict == "encerr" then .ok "zcap_above_refused"
       else .oracle s!"ZSTD-OVER-CAP {typ}: a value of {n} CBOR bytes (cap {capZ}) was not refused by Encode: {verdict}")
  | _ => .bad "shape"

def doZdec (typ kind _hex : String) (rest : List String) : Verdict :=
  match lookupSchema typ with
  | none => .bad "type"
  | some s =>
    let plain := (getField rest "plain=").getD "-"
    let alloc := ((getField rest "alloc=").bind (·.toNat?)).getD 0
    match rest.dropWhile (· != "=>") with
    | _ :: verdict :: more =>
      if verdict.startsWith "panic" then .oracle s!"DECODE-PANIC zstd {typ} ({kind}): {verdict}"
      else if alloc > zAllocBound + s.documented.allocBound capZ then .oracle s!"ALLOC-BOUND zstd {typ} ({kind}): allocated {alloc}"
      else if plain == "toolarge" then
        (if verdict == "ok" then .oracle s!"ZSTD-OVEREXPAND-ACCEPTED {typ} ({kind})" else .ok "zdec_toolarge_err")
      else if plain == "bad" then
        (if verdict == "ok" then .diff "reference decoder rejects the frame, implementation accepts" else .ok "zdec_badframe_err")
      else if plain == "-" then .ok "zdec_unchecked"
      else match hexBytes plain with
        | none => .bad "plain"
        | some p =>
          match decode s p, verdict with
          | .ok (v, _), "ok" =>
            (match more.head?.bind parseValue with
             | some gv => if gv == v then .ok ("zdec_ok_" ++ kindClass kind) else .diff "zstd path decodes to another value than the model"
             | none => .bad "value text")
          | .error e, "err" => .ok ("zdec_err_" ++ e.name)
          | .ok _, _ => .diff "zstd path rejects what the model accepts after decompression"
          | .error _, _ => .diff "zstd path accepts what the model rejects after decompression"
    | _ => .bad "shape"

def doDecbig (rest : List String) : Verdict :=
  let n := ((getField rest "len=").bind (·.toNat?)).getD 0
  let inl := ((getField rest "inputlen=").bind (·.toNat?)).getD 0
  let alloc := ((getField rest "alloc=").bind (·.toNat?)).getD 0
  match lookupSchema "certs.FinalityCertificate", rest.dropWhile (· != "=>") with
  | some s, _ :: verdict :: _ =>
    let lim := 2097152
    if verdict.startsWith "panic" then .oracle s!"DECODE-PANIC certs.FinalityCertificate: {verdict}"
    else if n > lim && verdict == "ok" then .oracle s!"OVERLIMIT-ACCEPTED certs.FinalityCertificate: a {n}-byte signature (limit {lim}) was accepted"
    else if n ≤ lim && verdict != "ok" then .oracle s!"VALID-REJECTED certs.FinalityCertificate: a {n}-byte signature (limit {lim}) was refused"
    else match checkAlloc s "certs.FinalityCertificate" "long-signature" inl alloc with
      | some msg => .oracle msg
      | none => .ok ("decbig_" ++ verdict)
  | _, _ => .bad "shape"

/-- `cfg sizeof T=n …`: the in-memory sizes must be those the allocation bound assumes -/
def doCfg (st : St) (toks : List String) : St × Verdict :=
  match toks with
  | "sizeof" :: kvs =>
    let bad := kvs.filterMap fun kv =>
      match kv.splitOn "=" with
      | [k, v] =>
        match lookupSchema k, v.toNat? with
        | some (.tuple _ _ fs), some n => if fs.memSize == n then none else some s!"{k}: sizeof {n}, model {fs.memSize}"
        | _, _ => none
      | _ => some kv
    (st, if bad.isEmpty then .ok "cfg_sizeof" else .diff ("; ".intercalate bad))
  | _ => (st, .skip)

def step (st : St) (line : String) : St × Verdict :=
  match splitWs line with
  | "cfg" :: rest => doCfg st rest
  | ["merkle", vals, "=>", root, batch, direct] =>
    (st, doMerkle vals (root.drop 5).toString (batch.drop 6).toString (direct.drop 7).toString)
  | ["keys", chain, "=>", direct, batch, cached, warm, full, apfresh, content] =>
    (st, doKeys chain (direct.drop 7).toString (batch.drop 6).toString (cached.drop 7).toString (warm.drop 5).toString
      (full.drop 5).toString (apfresh.drop 8).toString (content.drop 8).toString)
  | ["dkey", op, chain, "=>", key, fresh] => (st, doDkey op chain key fresh)
  | "pay" :: rest => doPay st rest
  | "sens" :: rest => doSens st rest
  | "vrf" :: rest => doVrf st rest false
  | "vsens" :: rest => doVrf st rest true
  | "ts" :: rest => doTs st rest false
  | "tsens" :: rest => doTs st rest true
  | "rt" :: typ :: val :: "=>" :: res :: flags => (st, doRt typ val res flags)
  | "dec" :: typ :: kind :: hex :: "=>" :: rest => (st, doDec typ kind hex rest)
  | "decbig" :: rest => (st, doDecbig rest)
  | "zbomb" :: typ :: kind :: rest => (st, doZbomb typ kind rest)
  | "zcap" :: typ :: rest => (st, doZcap typ rest)
  | "zdec" :: typ :: kind :: hex :: rest => (st, doZdec typ kind hex rest)
  | ["zconc", w, it, "=>", verdict] =>
    (st, if verdict == "ok" then .ok "zconc"
         else .oracle s!"ZSTD-ROUNDTRIP concurrent Decode through one codec ({w} {it}) did not return the encoded values: {verdict}")
  | _ => (st, .bad "unknown op")

end Driver.Codec

def main : IO UInt32 := Driver.runArea Driver.Codec.step {}
