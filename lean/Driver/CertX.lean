import Driver.Util
import Std.Data.HashMap
import F3.Model.CertsParse
import F3.Model.CertX
/-! Driver for area `CertX` (C16): certificate exchange server / client at the wire and API level,
Byzantine responders, and the poller. See `harness/cmd/h_certx/main.go` for the line syntax. -/
namespace Driver.CertX
open Driver F3.Certs F3.Certs.Parse F3.CertX

structure St where
  cids : Std.HashMap Nat Table := {}
  certs : Std.HashMap Nat Cert := {}
  stores : Std.HashMap Nat Store := {}
  pollers : Std.HashMap Nat PState := {}
  net : Nat := 1

def St.dict (s : St) : CidDict := fun n => s.cids.get? n

def St.certList (st : St) (s : String) : Option (List Cert) := do
  let ids ← listOf "," String.toNat? s
  ids.mapM (fun i => st.certs.get? i)

/-- header: `reset` / `err` → none, else `<pending>/<table|nil>` -/
def hdr? (s : String) : Option (Option Header) :=
  if s = "reset" || s = "err" then some none
  else match s.splitOn "/" with
    | [p, t] => do
      let p ← p.toNat?
      let t ← if t = "nil" then some none else (table? t).map some
      some (some ⟨p, t⟩)
    | _ => none

def item? (st : St) (s : String) : Option (Option Cert) :=
  if s = "x" then some none
  else if s.startsWith "c" then do
    let id ← (s.drop 1).toNat?
    let c ← st.certs.get? id
    some (some c)
  else none

def resp? (st : St) (s : String) : Option Resp :=
  if s = "F" then some .fail
  else match s.splitOn "@" with
    | [p, items] => do
      let p ← p.toNat?
      let items ← listOf "," (item? st) items
      some (.ok p items)
    | _ => none

def statusName : Status → String
  | .miss => "miss" | .hit => "hit" | .failed => "failed" | .illegal => "illegal"

/-- emptiness of the table convention: Go's nil and empty slices both print as `-` -/
def optTableEq (a b : Option Table) : Bool :=
  match a, b with
  | none, none => true
  | some x, some y => x == y
  | none, some y => y.isEmpty
  | some x, none => x.isEmpty

/-- the property of a response (wire or API level), independent of `serve`'s control flow -/
def responseOracle (s : Store) (r : Request) (h : Header) (cs : List Cert) (what : String) : Option String :=
  let stored := fun (i : Nat) => if i < s.first then none else s.certs[i - s.first]?
  if r.limit < cs.length then
    some s!"SERVE-OVERSHOOT {what}: {cs.length} certificates for limit {r.limit} (first={r.first}, pending={h.pending})"
  else if (cs.zipIdx.any (fun (c, i) => stored (r.first + i) != some c)) then
    some s!"SERVE-NOT-STORE-SLICE {what}: response is not the stored certificates {r.first}, {r.first}+1, ..."
  else if cs.any (fun c => decide (h.pending ≤ c.inst)) then
    some s!"SERVE-BEYOND-PENDING {what}: a certificate at or beyond the advertised pending instance {h.pending}"
  else if h.pending != s.pending then
    some s!"SERVE-PENDING {what}: advertised {h.pending}, store says {s.pending}"
  else
    let wantPT := r.includePT && decide (r.first ≤ h.pending)
    match h.pt, wantPT with
    | some t, true =>
      if !t.isEmpty && s.getPowerTable r.first != some t then some s!"SERVE-PT {what}: power table is not the table for instance {r.first}" else
      if t.isEmpty then some s!"SERVE-PT {what}: power table requested for {r.first} ≤ pending but none sent" else none
    | none, true => some s!"SERVE-PT {what}: power table requested for {r.first} ≤ pending but none sent"
    | some t, false => if t.isEmpty then none else some s!"SERVE-PT {what}: power table sent although not due"
    | none, false => none

def checkServe (st : St) (sid : Nat) (r : Request) (h : Option Header) (cs : List Cert)
    (bytesOk : Bool) (viaClient : Bool) : Verdict :=
  match st.stores.get? sid with
  | none => .bad "unknown store"
  | some s =>
    let what := if viaClient then "client" else "wire"
    let m := serve s r
    match h with
    | none =>
      match m with
      | none => .ok s!"{what}_reset"
      | some _ => .diff "impl fails the request, model serves it"
    | some h =>
      if !bytesOk then .oracle s!"SERVE-BYTES {what}: served certificate bytes differ from the stored bytes"
      else match responseOracle s r h cs what with
      | some msg => .oracle msg
      | none =>
        match m with
        | none => .diff "impl serves, model fails the request"
        | some (mh, mcs) =>
          let mcs := if viaClient then clientRecv r.first r.limit 0 (mcs.map some) else mcs
          if mh.pending != h.pending || !(optTableEq mh.pt h.pt) then .diff s!"header differs: model pending {mh.pending}"
          else if mcs != cs then .diff s!"certificates differ: model sends {mcs.length}, impl {cs.length}"
          else
            let n := cs.length
            let kind := if n = 0 then "none" else if n = r.limit then "limit" else if n = 256 then "max" else "tail"
            .ok s!"{what}_{kind}{if h.pt.isSome && !(h.pt.getD []).isEmpty then "_pt" else ""}"

def inSequence (first limit : Nat) (cs : List Cert) : Bool :=
  decide (cs.length ≤ limit) && cs.zipIdx.all (fun (c, i) => c.inst == u64 (first + i))

def checkByz (r : Request) (resp : Resp) (h : Option Header) (cs : List Cert) : Verdict :=
  if !inSequence r.first r.limit cs then
    .oracle s!"CLIENT-OUT-OF-SEQUENCE client delivered {cs.length} certificates not in sequence from {r.first} (limit {r.limit})"
  else match resp, h with
  | .fail, none => if cs.isEmpty then .ok "byz_fail" else .diff "certificates after a failed request"
  | .fail, some _ => .diff "impl got a header, model says the request fails"
  | .ok _ _, none => .diff "impl fails, model gets a header"
  | .ok p items, some h =>
    let m := clientRecv r.first r.limit 0 items
    if h.pending != p then .diff "pending differs"
    else if m != cs then .diff s!"client delivered {cs.length}, model {m.length}"
    else .ok s!"byz_{if m.length = items.length then "all" else "cut"}_{if m.isEmpty then "none" else "some"}"

/-- "stores only certificates that validate against its own current power table and advances
exactly by them" evaluated on the implementation's store / NextInstance / PowerTable. -/
def pollOracle (net : Nat) (before : PState) (afterNext : Nat) (afterTable : Table)
    (afterCerts : List Cert) (internal : Bool) : Option String :=
  let n := before.store.certs.length
  if afterCerts.take n != before.store.certs then some "POLL-STORE-REWRITTEN earlier certificates changed"
  else
    let acc := afterCerts.drop n
    -- validate one by one from the poller's state before the call (after catch-up)
    let st0 := (catchUp before).getD before
    let fin := acc.foldl (fun (s : Option (Nat × Table)) c =>
      match s with
      | none => none
      | some (next, table) =>
        match applyDiff table c.delta with
        | .ok nt => if certValidB net table next none c nt then some (u64 (next + 1), nt) else none
        | .error _ => none) (some (st0.next, st0.table))
    match fin with
    | none => some s!"POLL-STORED-INVALID one of the {acc.length} newly stored certificates does not validate against the poller's table"
    | some (next, table) =>
      if internal then
        -- a store error ends the poll; whether the failing Put left its certificate behind or not, the poller
        -- must not stand beyond what is stored
        if afterNext > next then some s!"POLL-ADVANCE after a store error NextInstance {afterNext} is beyond the stored valid certificates, which end at {next}"
        else none
      else if next != afterNext then some s!"POLL-ADVANCE NextInstance {afterNext} but the stored valid certificates end at {next}"
      else if table != afterTable then some "POLL-ADVANCE PowerTable is not the table after the stored certificates"
      else none

/-- the same judgement when certificates also arrived through another channel after `CatchUp`: `base` is the
poller after catch-up, `pre` its store once the arrivals are in. The poller may lag behind the store (it only
advances by what the response carried) but whatever instance it stands at, its table must be the store's table
for that instance, and everything stored beyond `pre` must validate in sequence. -/
def pollOracleArr (net : Nat) (base : PState) (pre : Store) (afterNext : Nat) (afterTable : Table)
    (afterCerts : List Cert) (internal : Bool) : Option String :=
  let n := pre.certs.length
  if afterCerts.take n != pre.certs then some "POLL-STORE-REWRITTEN earlier certificates changed"
  else
    -- walk every stored certificate from the poller's catch-up point
    let from0 := afterCerts.drop (base.next - base.store.first)
    let walk := from0.foldl (fun (s : Option (List (Nat × Table))) c =>
      match s with
      | none => none
      | some acc =>
        match acc.getLast? with
        | none => none
        | some (next, table) =>
          match applyDiff table c.delta with
          | .ok nt => if certValidB net table next none c nt then some (acc ++ [(u64 (next + 1), nt)]) else none
          | .error _ => none) (some [(base.next, base.table)])
    match walk with
    | none => some "POLL-STORED-INVALID a stored certificate does not validate in sequence from the poller's table"
    | some pts =>
      if internal then
        if pts.all (·.1 < afterNext) then some s!"POLL-ADVANCE after a store error NextInstance {afterNext} is beyond the stored valid certificates"
        else none
      else match pts.find? (·.1 == afterNext) with
        | none => some s!"POLL-ADVANCE NextInstance {afterNext} is not between the catch-up point {base.next} and the end of the stored certificates"
        | some (_, t) => if t != afterTable then some s!"POLL-ADVANCE PowerTable is not the table of instance {afterNext} after the stored certificates" else none

/-- How many requests one `Poll` may send to a scripted peer, by the rule the property states ("classifies the
peer accordingly"): every response is judged on its own — a failure, an illegal or unstorable certificate, a
response that brings the poller up to the advertised pending instance, or a response that carries no certificate
while advertising more, ends the poll. -/
def pollRequests (net : Nat) (respond : Nat → Nat → Resp) : Nat → Nat → PState → Nat
  | 0, n, _ => n
  | fuel + 1, n, st =>
    match catchUp st with
    | none => n
    | some st =>
      match respond n st.next with
      | .fail => n + 1
      | .ok pending items =>
        match pollCerts net st {} (clientRecv st.next maxRequestLength 0 items) with
        | (st', res', .cont) =>
          if pending ≤ st'.next then n + 1
          else if res'.received = 0 then n + 1
          else pollRequests net respond fuel (n + 1) st'
        | _ => n + 1

def checkPoll (st : St) (pid : Nat) (respond : Nat → Nat → Resp) (status : String) (received new : Nat)
    (internal : Bool) (next : Nat) (table : Table) (certs : List Cert) (arrivals : List Cert := []) : St × Verdict :=
  match st.pollers.get? pid with
  | none => (st, .bad "unknown poller")
  | some ps =>
    let (ms, mr) := if arrivals.isEmpty then poll st.net respond 2000 0 ps {}
      else pollWithArrivals st.net respond 2000 arrivals ps {}
    let base := (catchUp ps).getD ps
    let pre := arrivals.foldl (fun s c => match s.put c with | .ok s' => s' | .error _ => s) base.store
    -- continue from the implementation's state
    let implState : PState := ⟨next, table, { ps.store with certs := certs }⟩
    let st' := { st with pollers := st.pollers.insert pid implState }
    match (if arrivals.isEmpty then pollOracle st.net ps next table certs internal
           else pollOracleArr st.net base pre next table certs internal) with
    | some msg => (st', .oracle msg)
    | none =>
      if mr.internal != internal then (st', .diff s!"internal error: impl {internal} model {mr.internal}")
      else if ms.store.certs != certs then (st', .diff s!"store differs: impl {certs.length} certs, model {ms.store.certs.length}")
      else if ms.next != next || ms.table != table then (st', .diff s!"next/table differ: model next {ms.next}")
      else if !internal && (statusName mr.status != status || mr.received != received || mr.newCerts != new) then
        (st', .diff s!"result differs: model {statusName mr.status} received {mr.received} new {mr.newCerts}")
      else (st', .ok s!"poll_{if internal then "internal" else status}_{if new = 0 then "0" else if new ≤ 256 then "some" else "many"}")

def step (st : St) (line : String) : St × Verdict :=
  match splitWs line with
  | ["net", n] =>
    match n.toNat? with
    | some n => ({ st with net := n }, .skip)
    | none => (st, .bad "net")
  | ["cid", id, t] =>
    match id.toNat?, table? t with
    | some id, some t => ({ st with cids := st.cids.insert id t }, .skip)
    | _, _ => (st, .bad "cid line")
  | ["cert", id, c] =>
    match id.toNat?, cert? st.dict c with
    | some id, some c => ({ st with certs := st.certs.insert id c }, .skip)
    | _, _ => (st, .bad "cert line")
  | ["store", sid, first, init, cs] =>
    let r : Option St := do
      let s : Store := ⟨← first.toNat?, ← table? init, ← st.certList cs⟩
      some { st with stores := st.stores.insert (← sid.toNat?) s }
    match r with
    | some st' => (st', .skip)
    | none => (st, .bad "store line")
  | ["wire", sid, first, limit, pt, "=>", h, cs, bytesOk] =>
    let r : Option Verdict := do
      some (checkServe st (← sid.toNat?) ⟨← first.toNat?, ← limit.toNat?, ← parseBool? pt⟩ (← hdr? h)
        (← st.certList cs) (← parseBool? bytesOk) false)
    (st, r.getD (.bad "wire line"))
  | ["client", sid, first, limit, pt, "=>", h, cs] =>
    let r : Option Verdict := do
      some (checkServe st (← sid.toNat?) ⟨← first.toNat?, ← limit.toNat?, ← parseBool? pt⟩ (← hdr? h)
        (← st.certList cs) true true)
    (st, r.getD (.bad "client line"))
  | ["wirec", first, limit, _pt, "=>", pending, cs, bytesOk, ptOk] =>
    -- the store grows concurrently: only the schedule-independent part of the property is checked
    let r : Option Verdict := do
      let first ← first.toNat?
      let limit ← limit.toNat?
      if pending = "reset" then some (.ok "wirec_reset") else
      let pending ← pending.toNat?
      let cs ← st.certList cs
      let bytesOk ← parseBool? bytesOk
      let ptOk ← parseBool? ptOk
      if limit < cs.length then
        some (.oracle s!"SERVE-OVERSHOOT wire (growing store): {cs.length} certificates for limit {limit}")
      else if cs.zipIdx.any (fun (c, i) => c.inst != first + i) then
        some (.oracle s!"SERVE-NOT-STORE-SLICE wire (growing store): not the instances {first}, {first}+1, ...")
      else if cs.any (fun c => decide (pending ≤ c.inst)) then
        some (.oracle s!"SERVE-BEYOND-PENDING wire (growing store): a certificate at or beyond the advertised pending instance {pending}")
      else if !bytesOk then some (.oracle "SERVE-BYTES wire (growing store): served bytes differ from the stored bytes")
      else if !ptOk then some (.oracle s!"SERVE-PT wire (growing store): wrong power table for instance {first}")
      else some (.ok s!"wirec_{if cs.length = 0 then "none" else if first + cs.length = pending then "upto_pending" else "some"}")
    (st, r.getD (.bad "wirec line"))
  | ["byz", first, limit, pt, resp, "=>", h, cs] =>
    let r : Option Verdict := do
      some (checkByz ⟨← first.toNat?, ← limit.toNat?, ← parseBool? pt⟩ (← resp? st resp) (← hdr? h) (← st.certList cs))
    (st, r.getD (.bad "byz line"))
  | ["pnew", pid, first, init, cs, "=>", "ok", next, table] =>
    let r : Option (St × Verdict) := do
      let s : Store := ⟨← first.toNat?, ← table? init, ← st.certList cs⟩
      let pid ← pid.toNat?
      let next ← next.toNat?
      let table ← table? table
      match newPoller s with
      | some ps =>
        if ps.next == next && ps.table == table then
          some ({ st with pollers := st.pollers.insert pid ps }, .ok "pnew_ok")
        else some ({ st with pollers := st.pollers.insert pid ⟨next, table, s⟩ }, .diff s!"NewPoller state differs: model next {ps.next}")
      | none => some (st, .diff "NewPoller succeeds, model fails")
    r.getD (st, .bad "pnew line")
  | ["pnew", _pid, first, init, cs, "=>", "err"] =>
    let r : Option Verdict := do
      let s : Store := ⟨← first.toNat?, ← table? init, ← st.certList cs⟩
      match newPoller s with
      | some _ => some (.diff "NewPoller fails, model succeeds")
      | none => some (.ok "pnew_err")
    (st, r.getD (.bad "pnew line"))
  | ["pput", pid, c, "=>", res] =>
    let r : Option (St × Verdict) := do
      let pid ← pid.toNat?
      let c ← st.certs.get? (← c.toNat?)
      let ps ← st.pollers.get? pid
      match ps.store.put c with
      | .ok s' =>
        if res = "ok" then some ({ st with pollers := st.pollers.insert pid { ps with store := s' } }, .ok "pput_ok")
        else some (st, .diff "store rejects a certificate the model stores")
      | .error _ => if res = "ok" then some (st, .diff "store accepts a certificate the model rejects") else some (st, .ok "pput_err")
    r.getD (st, .bad "pput line")
  | ["poll", pid, "script", script, "=>", status, received, new, internal, next, table, cs, reqs] =>
    let r : Option (St × Verdict) := do
      let script ← if script = "-" then some [] else (script.splitOn "~").mapM (resp? st)
      let n ← (reqs.dropPrefix? "reqs=").bind (·.toString.toNat?)
      let ps ← st.pollers.get? (← pid.toNat?)
      let allowed := pollRequests st.net (scriptResponder script) 2000 0 ps
      let (st', v) := checkPoll st (← pid.toNat?) (scriptResponder script) status (← received.toNat?) (← new.toNat?)
        (← parseBool? internal) (← next.toNat?) (← table? table) (← st.certList cs)
      some (match v with
        | .oracle m => (st', .oracle m)
        | v => if n > allowed then
                 (st', .oracle s!"POLL-SPIN the peer was asked {n} times in one poll; a response that carries no certificate while advertising more ends the poll (failed), which allows {allowed} request(s) for this script")
               else (st', v))
    r.getD (st, .bad "poll line")
  | ["poll", pid, "script", script, "=>", status, received, new, internal, next, table, cs] =>
    let r : Option (St × Verdict) := do
      let script ← if script = "-" then some [] else (script.splitOn "~").mapM (resp? st)
      some (checkPoll st (← pid.toNat?) (scriptResponder script) status (← received.toNat?) (← new.toNat?)
        (← parseBool? internal) (← next.toNat?) (← table? table) (← st.certList cs))
    r.getD (st, .bad "poll line")
  | ["poll", pid, "scriptmid", script, mid, "=>", status, received, new, internal, next, table, cs] =>
    let r : Option (St × Verdict) := do
      let script ← if script = "-" then some [] else (script.splitOn "~").mapM (resp? st)
      some (checkPoll st (← pid.toNat?) (scriptResponder script) status (← received.toNat?) (← new.toNat?)
        (← parseBool? internal) (← next.toNat?) (← table? table) (← st.certList cs) (← st.certList mid))
    r.getD (st, .bad "poll line")
  | ["poll", pid, "server", sid, "=>", status, received, new, internal, next, table, cs] =>
    let r : Option (St × Verdict) := do
      let srv ← st.stores.get? (← sid.toNat?)
      some (checkPoll st (← pid.toNat?) (serverResponder srv) status (← received.toNat?) (← new.toNat?)
        (← parseBool? internal) (← next.toNat?) (← table? table) (← st.certList cs))
    r.getD (st, .bad "poll line")
  | _ => (st, .bad "unknown op")

end Driver.CertX

def main : IO UInt32 := Driver.runArea Driver.CertX.step {}
