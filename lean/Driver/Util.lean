/-! Shared helpers for line-protocol drivers. Core-only. -/
namespace Driver

def splitWs (s : String) : List String :=
  (s.splitOn " ").filter (· ≠ "")

def parseInt? (s : String) : Option Int := s.toInt?
def parseNat? (s : String) : Option Nat := s.toNat?

def parseBool? (s : String) : Option Bool :=
  if s = "true" || s = "1" then some true else if s = "false" || s = "0" then some false else none

def parseIntList? (s : String) : Option (List Int) :=
  if s = "" || s = "-" then some [] else (s.splitOn ",").mapM (·.toInt?)

def parseNatList? (s : String) : Option (List Nat) :=
  if s = "" || s = "-" then some [] else (s.splitOn ",").mapM (·.toNat?)

def joinNat (l : List Nat) : String := ",".intercalate (l.map toString)
def joinInt (l : List Int) : String := ",".intercalate (l.map toString)

/-- Result of checking one line: `ok tag` (tag feeds the histogram), `diff msg` (model ≠ impl),
`oracle msg` (the property's executable statement fails on the implementation's observation),
`bad msg` (unparseable line: a harness bug). -/
inductive Verdict where
  | ok (tag : String)
  | diff (msg : String)
  | oracle (msg : String)
  | bad (msg : String)
  | skip

structure Stats where
  lines : Nat := 0
  oks : Nat := 0
  diffs : Nat := 0
  oracles : Nat := 0
  bads : Nat := 0
  hist : List (String × Nat) := []

def Stats.bump (h : List (String × Nat)) (k : String) : List (String × Nat) :=
  match h with
  | [] => [(k, 1)]
  | (k', n) :: t => if k' = k then (k', n + 1) :: t else (k', n) :: Stats.bump t k

/-- Generic loop: `step` consumes a line and the area state. -/
partial def loop {σ : Type} (h : IO.FS.Stream) (step : σ → String → σ × Verdict) (st : σ)
    (stats : Stats) (lineNo : Nat) : IO Stats := do
  let line ← h.getLine
  if line.isEmpty then return stats
  let l := line.trimAsciiEnd.toString
  if l.isEmpty || l.startsWith "#" then
    loop h step st stats (lineNo + 1)
  else
    let (st', v) := step st l
    let stats := { stats with lines := stats.lines + 1 }
    match v with
    | .ok tag => loop h step st' { stats with oks := stats.oks + 1, hist := Stats.bump stats.hist tag } (lineNo + 1)
    | .skip => loop h step st' stats (lineNo + 1)
    | .diff msg => do
        IO.println s!"DIFF line={lineNo} {msg} :: {l}"
        loop h step st' { stats with diffs := stats.diffs + 1 } (lineNo + 1)
    | .oracle msg => do
        IO.println s!"ORACLE-FAIL line={lineNo} {msg} :: {l}"
        loop h step st' { stats with oracles := stats.oracles + 1 } (lineNo + 1)
    | .bad msg => do
        IO.println s!"BAD line={lineNo} {msg} :: {l}"
        loop h step st' { stats with bads := stats.bads + 1 } (lineNo + 1)

def runArea {σ : Type} (step : σ → String → σ × Verdict) (init : σ) : IO UInt32 := do
  let stdin ← IO.getStdin
  let stats ← loop stdin step init {} 1
  let hist := " ".intercalate (stats.hist.map (fun (k, n) => s!"{k}={n}"))
  IO.println s!"SUMMARY lines={stats.lines} ok={stats.oks} diffs={stats.diffs} oracle_fail={stats.oracles} bad={stats.bads} hist: {hist}"
  return (if stats.diffs + stats.oracles + stats.bads = 0 then 0 else 1)

end Driver
