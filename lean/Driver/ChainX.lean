import Driver.Util
import F3.Model.Lru
import F3.Model.ChainX
import F3.Spec.ChainX
/-!
Driver for area `ChainX` (C18). Replays the log of `h_chainx` through `F3.ChainX.step` (the model the
theorems are about), compares every result and the dumped cache state, and evaluates the property
oracle `F3.ChainX.Spec` (history tracker, `judgeLookup`, `mustNotAdmit`) on the implementation's own
answers. `lru …` lines differential-test `F3.Lru` against the real hashicorp cache. `bb …` lines come
from the 2-host black-box path (real `Start`, real pubsub delivery).

Stable leading keywords of oracle messages: KEY-MISMATCH, PHANTOM-CHAIN, WANTED-NOT-RETAINED,
ADMITTED-NOT-RETRIEVABLE, ADMITTED-INVALID, PRUNE-NOT-EXACT, BB-NOT-DELIVERED, BB-ADMITTED-INVALID.
-/
namespace Driver.ChainX
open Driver F3 F3.ChainX

structure St where
  s : State := F3.ChainX.init ⟨1, 1, 0, 0⟩
  t : Spec.Tracker := Spec.Tracker.init 1 1
  lru : Lru.Cache Nat Nat := Lru.empty 1

/-- value of `key=` among tokens -/
def kv (toks : List String) (key : String) : Option String :=
  toks.findSome? (fun t => if t.startsWith (key ++ "=") then some ((t.drop (key.length + 1)).toString) else none)

def parseChain? (s : String) : Option Chain :=
  if s = "_" then some [] else (s.splitOn ".").mapM (·.toNat?)

/-- a key is written as the chain it is the key of; `u<n>` is a digest of no known chain -/
def parseKey? (s : String) : Option Key :=
  if s.startsWith "u" then ((s.drop 1).toString.toNat?).map (fun n => [1000000000 + n]) else parseChain? s

def showChain (c : Chain) : String :=
  match c with
  | [] => "_"
  | [t] => if t ≥ 1000000000 then s!"u{t - 1000000000}" else toString t
  | _ => ".".intercalate (c.map toString)

def parseChains? (s : String) : Option (List Chain) :=
  if s = "-" then some [] else (s.splitOn ";").mapM parseKey?

def showChains (l : List Chain) : String :=
  if l.isEmpty then "-" else ";".intercalate (l.map showChain)

def parseTipD? (s : String) : Option TipD :=
  match s.splitOn ":" with
  | [a, b, c, d] =>
    match a.toNat?, b.toInt?, c.toNat?, d.toNat? with
    | some a, some b, some c, some d => some ⟨a, b, c, d⟩
    | _, _, _, _ => none
  | _ => none

def parseMsg? (s : String) : Option (Option Msg) :=
  if s = "undec" then some none
  else match s.splitOn "/" with
    | [i, ts, c] =>
      match i.toNat?, ts.toInt?, (if c = "_" then some [] else (c.splitOn ".").mapM parseTipD?) with
      | some i, some ts, some c => some (some ⟨i, c, ts⟩)
      | _, _, _ => none
    | _ => none

/-- cache dump: `~` absent, `-` empty, else entries oldest→newest: `key`, `key*` (placeholder),
`key=chain` (value chain differs from key). Returns items newest first, as the model keeps them. -/
def parseEntry? (s : String) : Option (Key × Portion) :=
  if s.endsWith "*" then (parseKey? (s.dropEnd 1).toString).map (fun k => (k, .placeholder))
  else match s.splitOn "=" with
    | [k] => (parseKey? k).map (fun k => (k, .chain k))
    | [k, v] => match parseKey? k, parseKey? v with
      | some k, some v => some (k, .chain v)
      | _, _ => none
    | _ => none

def parseCache? (s : String) : Option (Option (List (Key × Portion))) :=
  if s = "~" then some none
  else if s = "-" then some (some [])
  else ((s.splitOn ";").mapM parseEntry?).map (fun l => some l.reverse)

def showEntry (e : Key × Portion) : String :=
  match e.2 with
  | .placeholder => showChain e.1 ++ "*"
  | .chain c => if c = e.1 then showChain e.1 else showChain e.1 ++ "=" ++ showChain c

def showCache (c : Option PCache) : String :=
  match c with
  | none => "~"
  | some c => if c.items.isEmpty then "-" else ";".intercalate (c.items.reverse.map showEntry)

def sortNat (l : List Nat) : List Nat := l.mergeSort (· ≤ ·)

def showInsts (l : List Nat) : String := if l.isEmpty then "-" else joinNat (sortNat l)

/-- force the model's caches of instance `i` to what the implementation dumped (after a DIFF) -/
def resync (s : State) (i : Nat) (w d : Option (List (Key × Portion))) : State :=
  let fix (m : IMap) (cap : Nat) (x : Option (List (Key × Portion))) : IMap :=
    match x with
    | none => m.filter (fun e => e.1 ≠ i)
    | some items => IMap.set m i ⟨cap, items⟩
  { s with wanted := fix s.wanted s.opts.maxWanted w, discovered := fix s.discovered s.opts.maxDiscovered d }

def resyncInsts (m : IMap) (cap : Nat) (insts : List Nat) : IMap :=
  let kept := m.filter (fun e => insts.contains e.1)
  insts.foldl (fun acc i => if (IMap.find? acc i).isSome then acc else IMap.set acc i (Lru.empty cap)) kept

/-- compare the dumped state with the model; returns (possibly resynced state, diff message) -/
def compareState (s : State) (toks : List String) (inst : Option Nat) : State × Option String :=
  let r1 : State × Option String :=
    match inst, kv toks "W", kv toks "D" with
    | some i, some ws, some ds =>
      if ws = "?" then (s, none) else
      let mw := showCache (IMap.find? s.wanted i)
      let md := showCache (IMap.find? s.discovered i)
      if mw = ws ∧ md = ds then (s, none)
      else match parseCache? ws, parseCache? ds with
        | some w, some d => (resync s i w d, some s!"state of instance {i}: impl W={ws} D={ds} model W={mw} D={md}")
        | _, _ => (s, some "unparseable dump")
    | _, _, _ => (s, none)
  let s := r1.1
  match kv toks "IW", kv toks "ID" with
  | some iw, some id =>
    let miw := showInsts (IMap.instances s.wanted)
    let mid := showInsts (IMap.instances s.discovered)
    if miw = iw ∧ mid = id then r1
    else match parseNatList? iw, parseNatList? id with
      | some liw, some lid =>
        ({ s with wanted := resyncInsts s.wanted s.opts.maxWanted liw,
                  discovered := resyncInsts s.discovered s.opts.maxDiscovered lid },
         some ((r1.2.getD "") ++ s!" instances: impl IW={iw} ID={id} model IW={miw} ID={mid}"))
      | _, _ => (s, some "unparseable instance list")
  | _, _ => r1

/-- any `key=chain` entry in a dump is a chain filed under a key that is not its own -/
def dumpMismatch (toks : List String) : Bool :=
  ((kv toks "W").getD "").contains '=' || ((kv toks "D").getD "").contains '='

def classOf : ChainX.Verdict → String
  | .accept => "accept"
  | .reject _ => "reject"
  | .ignore _ => "ignore"

def reasonTag : Reason → String
  | .undecodable => "undecodable" | .empty => "empty" | .malformed => "malformed" | .past => "past"
  | .tooDistant => "tooDistant" | .wrongBase => "wrongBase" | .tsOld => "tsOld" | .tsFuture => "tsFuture"

def verdictTag : ChainX.Verdict → String
  | .accept => "feed_accept"
  | .reject r => "feed_reject_" ++ reasonTag r
  | .ignore r => "feed_ignore_" ++ reasonTag r

def finishOp (st : St) (s' : State) (t' : Spec.Tracker) (toks : List String) (inst : Option Nat)
    (pre : Option Driver.Verdict) (tag : String) : St × Driver.Verdict :=
  let (s'', sd) := compareState s' toks inst
  let st' := { st with s := s'', t := t' }
  match pre with
  | some v => (st', v)
  | none =>
    if dumpMismatch toks then (st', .oracle "KEY-MISMATCH a cache holds a chain under a key that is not its own")
    else match sd with
      | some m => (st', .diff m)
      | none => (st', .ok tag)

def lruKeys (c : Lru.Cache Nat Nat) : String :=
  if c.items.isEmpty then "-" else ";".intercalate (c.items.reverse.map (fun e => s!"{e.1}:{e.2}"))

def lruStep (st : St) (toks : List String) : St × Driver.Verdict :=
  let fin (c : Lru.Cache Nat Nat) (res expect tag : String) : St × Driver.Verdict :=
    let ks := (kv toks "keys").getD "?"
    if res ≠ expect then ({ st with lru := c }, .diff s!"lru result impl={expect} model={res}")
    else if lruKeys c ≠ ks then ({ st with lru := c }, .diff s!"lru keys impl={ks} model={lruKeys c}")
    else ({ st with lru := c }, .ok tag)
  let b2s (b : Bool) : String := if b then "1" else "0"
  let o2s (o : Option Nat) : String := match o with | some v => toString v | none => "-"
  match toks with
  | ["lru", "new", cap] =>
    match cap.toNat? with
    | some cap => ({ st with lru := Lru.empty cap }, .skip)
    | none => (st, .bad "lru new")
  | "lru" :: "add" :: k :: v :: "=>" :: r :: _ =>
    match k.toNat?, v.toNat? with
    | some k, some v => let x := st.lru.add k v; fin x.1 (b2s x.2) r (if x.2 then "lru_add_evict" else "lru_add")
    | _, _ => (st, .bad "lru add")
  | "lru" :: "get" :: k :: "=>" :: r :: _ =>
    match k.toNat? with
    | some k => let x := st.lru.get k; fin x.1 (o2s x.2) r (if x.2.isSome then "lru_get_hit" else "lru_get_miss")
    | none => (st, .bad "lru get")
  | "lru" :: "peek" :: k :: "=>" :: r :: _ =>
    match k.toNat? with
    | some k => fin st.lru (o2s (st.lru.peek k)) r "lru_peek"
    | none => (st, .bad "lru peek")
  | "lru" :: "has" :: k :: "=>" :: r :: _ =>
    match k.toNat? with
    | some k => fin st.lru (b2s (st.lru.contains k)) r "lru_contains"
    | none => (st, .bad "lru has")
  | "lru" :: "coa" :: k :: v :: "=>" :: r :: _ =>
    match k.toNat?, v.toNat? with
    | some k, some v =>
      let x := st.lru.containsOrAdd k v
      fin x.1 (b2s x.2.1 ++ "," ++ b2s x.2.2) r (if x.2.1 then "lru_coa_found" else if x.2.2 then "lru_coa_evict" else "lru_coa_add")
    | _, _ => (st, .bad "lru coa")
  | "lru" :: "rm" :: k :: "=>" :: r :: _ =>
    match k.toNat? with
    | some k => let x := st.lru.remove k; fin x.1 (b2s x.2) r (if x.2 then "lru_rm_present" else "lru_rm_absent")
    | none => (st, .bad "lru rm")
  | _ => (st, .bad "lru op")

/-- black-box lines: `bb send <valid 0|1> reason=<r> … => found=<n>/<m> kok=<0|1>` — for a broadcast
the validator must admit every prefix must become retrievable on the peer with the right key; for one
it must not admit nothing may become retrievable. -/
def bbStep (st : St) (toks : List String) : St × Driver.Verdict :=
  match toks with
  | "bb" :: "send" :: rest =>
    match kv rest "valid", kv rest "found", kv rest "of", kv rest "kok", kv rest "self" with
    | some valid, some found, some total, some kok, some self =>
      if kok ≠ "1" then (st, .oracle "KEY-MISMATCH black-box lookup returned a chain whose key differs from the requested key")
      else if self ≠ total then (st, .oracle s!"WANTED-NOT-RETAINED own broadcast: only {self} of {total} prefixes retrievable at the sender")
      else if valid = "1" ∧ found ≠ total then (st, .oracle s!"BB-NOT-DELIVERED valid broadcast: only {found} of {total} prefixes retrievable at the peer")
      else if valid = "0" ∧ found ≠ "0" then (st, .oracle s!"BB-ADMITTED-INVALID peer admitted a broadcast it must not admit ({(kv rest "reason").getD "?"})")
      else (st, .ok (if valid = "1" then "bb_valid" else "bb_invalid_" ++ (kv rest "reason").getD "?"))
    | _, _, _, _, _ => (st, .bad "bb send")
  | "bb" :: "flood" :: rest =>
    match kv rest "asked", kv rest "kok" with
    | some asked, some kok =>
      if kok ≠ "1" then (st, .oracle "KEY-MISMATCH black-box lookup returned a chain whose key differs from the requested key")
      else if kv rest "pre" == some "0" then (st, .ok "bb_flood_undelivered")
      else if asked ≠ "hit" then (st, .oracle "WANTED-NOT-RETAINED black-box: key asked for, chain delivered, flood of unsolicited chains, lookup misses")
      else (st, .ok "bb_flood")
    | _, _ => (st, .bad "bb flood")
  | _ => (st, .bad "bb op")

def step (st : St) (line : String) : St × Driver.Verdict :=
  let toks := splitWs line
  match toks with
  | "cfg" :: rest =>
    match (kv rest "capw").bind (·.toNat?), (kv rest "capd").bind (·.toNat?),
          (kv rest "look").bind (·.toNat?), (kv rest "age").bind (·.toInt?) with
    | some cw, some cd, some look, some age =>
      ({ st with s := F3.ChainX.init ⟨cw, cd, look, age⟩, t := Spec.Tracker.init cw cd }, .skip)
    | _, _, _, _ => (st, .bad "cfg")
  | "lru" :: _ => lruStep st toks
  | "conc" :: rest =>
    match kv rest "kbad", kv rest "statebad", kv rest "panics" with
    | some kbad, some sb, some pn =>
      if kbad ≠ "0" then (st, .oracle s!"KEY-MISMATCH concurrent phase: {kbad} lookups returned a chain whose key differs from the requested key")
      else if sb ≠ "0" then (st, .oracle s!"KEY-MISMATCH concurrent phase: final caches violate size/value discipline ({sb})")
      else if pn ≠ "0" then (st, .diff s!"concurrent phase: {pn} goroutines panicked")
      else (st, .ok "conc")
    | _, _, _ => (st, .bad "conc")
  | "bb" :: _ => bbStep st toks
  | "get" :: i :: k :: "=>" :: res :: rest =>
    match i.toNat?, parseKey? k with
    | some i, some k =>
      -- implementation's answer
      let impl : Option (Option Chain × Bool) :=
        if res = "miss" then some (none, true)
        else match res.splitOn ":" with
          | ["hit", c, kok] => (parseKey? c).map (fun c => (some c, kok = "1"))
          | _ => none
      match impl with
      | none => (st, .bad "get result")
      | some (r, kok) =>
        let op := Op.get i k
        let (s', out) := F3.ChainX.step st.s op
        let judge := Spec.judgeLookup st.t i k r
        let t' := Spec.observe st.t op (.got r [])
        let (mr, mn) : Option Chain × List Chain := match out with | .got a b => (a, b) | _ => (none, [])
        let pre : Option Driver.Verdict :=
          if !kok then some (.oracle s!"KEY-MISMATCH lookup of {showChain k} at instance {i}: Key() of the returned chain differs from the requested key")
          else match judge with
            | .keyMismatch => some (.oracle s!"KEY-MISMATCH lookup of {showChain k} at instance {i} returned chain {showChain (r.getD [])}")
            | .phantom => some (.oracle s!"PHANTOM-CHAIN lookup of {showChain k} at instance {i} succeeds although no chain with that key reached the node for that instance since it was last pruned (PRUNE-NOT-EXACT or misfiled chain)")
            | .wantedNotRetained => some (.oracle s!"WANTED-NOT-RETAINED key {showChain k} at instance {i}: asked for, its chain reached the node, fewer than capW={st.t.capW} other keys solicited since, yet the lookup misses")
            | .admittedNotRetrievable => some (.oracle s!"ADMITTED-NOT-RETRIEVABLE key {showChain k} at instance {i}: admitted, fewer than capD={st.t.capD} other keys admitted since, never pruned, yet the lookup misses")
            | .ok =>
              if mr ≠ r then some (.diff s!"lookup result impl={res} model={match mr with | some c => "hit:" ++ showChain c | none => "miss"}")
              else match (kv rest "n").bind parseChains? with
                | some n => if n ≠ mn then some (.diff s!"notifications impl={showChains n} model={showChains mn}") else none
                | none => some (.bad "n=")
        let tag := if k = [] then "get_zero_key" else match r with
          | some _ => if mn.isEmpty then "get_hit_wanted" else "get_hit_promoted"
          | none => if Spec.mayFind st.t i k then "get_miss_evicted" else "get_miss_unknown"
        finishOp st s' t' rest (if k = [] then none else some i) pre tag
    | _, _ => (st, .bad "get args")
  | "feed" :: rest =>
    match (kv rest "cur").bind (·.toNat?), kv rest "in", (kv rest "now").bind (·.toInt?), (kv rest "msg").bind parseMsg? with
    | some cur, some inp, some now, some m =>
      let input : Option (Option Chain) := if inp = "nil" then some none else (parseChain? inp).map some
      match input, rest.dropWhile (· ≠ "=>") with
      | some input, _ :: v :: _ =>
        let prog : Progress := ⟨cur, input⟩
        let op := Op.feed prog now m
        let (s', out) := F3.ChainX.step st.s op
        let mv : ChainX.Verdict := match out with | .verdict x => x | _ => .accept
        let must := Spec.mustNotAdmit st.s.opts prog now m
        -- the tracker follows what the implementation did
        let t' := if v = "accept" then Spec.observe st.t op (.verdict .accept) else st.t
        let pre : Option Driver.Verdict :=
          match decide (v = "accept"), must with
          | true, some r => some (.oracle s!"ADMITTED-INVALID validator accepted a broadcast that must not be admitted: {reasonTag r}")
          | _, _ => if classOf mv ≠ v then some (.diff s!"validator verdict impl={v} model={verdictTag mv}") else none
        -- if the implementation admitted what the model did not (or vice versa) keep following the implementation
        let s' := if v = "accept" ∧ classOf mv ≠ "accept" then
                    match m with | some msg => cacheAsDiscovered st.s msg.inst (chainIds msg.chain) | none => s'
                  else if v ≠ "accept" ∧ classOf mv = "accept" then st.s else s'
        finishOp st s' t' rest (m.map (·.inst)) pre (verdictTag mv)
      | _, _ => (st, .bad "feed input/verdict")
    | _, _, _, _ => (st, .bad "feed args")
  | "bcast" :: i :: c :: "=>" :: res :: rest =>
    match i.toNat?, parseChain? c with
    | some i, some c =>
      let op := Op.bcast i c
      let (s', out) := F3.ChainX.step st.s op
      let mn : List Chain := match out with | .bcasted n => n | _ => []
      let t' := Spec.observe st.t op out
      let pre : Option Driver.Verdict :=
        if res ≠ "ok" then some (.diff s!"Broadcast did not queue exactly one wanted-cache entry / returned an error: {res}") else
        match (kv rest "n").bind parseChains? with
        | some n => if n ≠ mn then some (.diff s!"notifications impl={showChains n} model={showChains mn}") else none
        | none => some (.bad "n=")
      finishOp st s' t' rest (some i) pre (if c = [] then "bcast_zero" else if mn.isEmpty then "bcast_known" else "bcast_new")
    | _, _ => (st, .bad "bcast args")
  | "prune" :: n :: "=>" :: _ :: rest =>
    match n.toNat?, (kv rest "IW").bind parseNatList?, (kv rest "ID").bind parseNatList? with
    | some n, some iw, some id =>
      let before := IMap.instances st.s.wanted ++ IMap.instances st.s.discovered
      let (s', _) := F3.ChainX.step st.s (.prune n)
      let t' := Spec.observe st.t (.prune n) .pruned
      let survived := (iw ++ id).filter (· < n)
      let lostW := (IMap.instances st.s.wanted).filter (fun j => j ≥ n ∧ !iw.contains j)
      let lostD := (IMap.instances st.s.discovered).filter (fun j => j ≥ n ∧ !id.contains j)
      let pre : Option Driver.Verdict :=
        if !survived.isEmpty then some (.oracle s!"PRUNE-NOT-EXACT prune {n} left instance(s) {joinNat survived} below the bound")
        else if !(lostW ++ lostD).isEmpty then some (.oracle s!"PRUNE-NOT-EXACT prune {n} removed instance(s) {joinNat (lostW ++ lostD)} at or above the bound")
        else none
      finishOp st s' t' rest none pre (if before.any (· < n) then "prune_removes" else "prune_noop")
    | _, _, _ => (st, .bad "prune args")
  | _ => (st, .bad "unknown op")

end Driver.ChainX

def main : IO UInt32 := Driver.runArea Driver.ChainX.step {}
