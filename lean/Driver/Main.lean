import Driver.Quorum

def main (args : List String) : IO UInt32 := do
  match args with
  | ["quorum"] => Driver.runArea Driver.Quorum.step ()
  | _ => do
    IO.eprintln "usage: f3driver <area>   (areas: quorum)"
    return 2
