import Driver.Util
import F3.Model.Store
import F3.Spec.Store
/-!
Driver for area `Store` (C09, C10, C17). Replays the log of `h_store` through the executable model
`F3.Store` (the definitions the theorems are about) and evaluates the property oracles on the
implementation's own observations:

* `.diff`   — model and implementation disagree (result, datastore write sequence, observation);
* `.oracle` — the implementation's observation violates the property: it differs from the abstract
  specification `F3.Store.Spec` (C09), a crash/reopen observation is neither the state before nor the
  state after the interrupted operation or the retry fails (C10), an exported snapshot does not
  round-trip or a malformed one is accepted (C17).
-/
namespace Driver.Store
open Driver F3.Store

structure World where
  ds : DS := []
  mem : Option Mem := none

inductive SpecSt where
  | unknown | notInit | init (sp : Spec)
deriving DecidableEq

structure CrashCtx where
  kind : String
  k : Nat := 0
  n : Nat := 0
  full : Bool := true            -- the pass running now is the complete run
  fullRes : String := ""
  lastRes : String := ""
  after : List (String × String) := []
  before : List (String × String) := []
  retry : Bool := false

structure ImportInfo where
  ds : DS
  freq : Nat
  specOk : Bool
  kind : String
  interiorOnly : Bool     -- the only defects are commitments the importer does not look at
  specObs : Option Obs
  desc : String

structure St where
  cfg : Cfg := ⟨1440, 1440, false, true⟩
  defaultFreq : Nat := 1440
  tables : Array Table := #[[]]
  certs : Array Cert := #[default]
  main : World := {}
  spec : SpecSt := .notInit
  alt : Option (SpecSt × SpecSt × String) := none
  clean : Bool := true
  specSubs : List (Nat × Option Cert) := []
  fork : Option World := none
  saved : DS := []
  crash : Option CrashCtx := none
  lastSnap : List Block := []
  imp : Option ImportInfo := none

/-! ## Parsing -/

def dropS (s : String) (n : Nat) : String := (s.drop n).toString

def parseKey (s : String) : Option Key :=
  if s = "L" then some .latest
  else if s = "F" then some .first
  else if s = "X" then some .tomb
  else if s = "RX" then some .rootTomb
  else if s.startsWith "C" then (dropS s 1).toNat?.map Key.cert
  else if s.startsWith "P" then (dropS s 1).toNat?.map Key.power
  else if s.startsWith "O" then (dropS s 1).toNat?.map Key.foreign
  else none

def keyTok : Key → String
  | .latest => "L" | .first => "F" | .tomb => "X" | .rootTomb => "RX"
  | .cert i => s!"C{i}" | .power i => s!"P{i}" | .foreign n => s!"O{n}"

/-- `-`: no query happened (empty order), `.`: the query returned nothing. -/
def parseOrder (s : String) : Option (List Key) :=
  if s = "-" || s = "." then some [] else (s.splitOn ",").mapM parseKey

def parseOrders (s : String) : Option Orders :=
  match s.splitOn "/" with
  | [a, b] => do
    let r ← parseOrder a
    let i ← parseOrder b
    pure { raw := r, inner := i }
  | _ => none

def parseEntry (s : String) : Option Entry :=
  match s.splitOn ":" with
  | [a, b, c] => do pure { id := ← a.toNat?, power := ← b.toInt?, key := ← c.toNat? }
  | _ => none

def parseTable (s : String) : Option Table :=
  if s = "-" then some [] else (s.splitOn ";").mapM parseEntry

def parseDelta (s : String) : Option Diff :=
  if s = "-" then some [] else (s.splitOn ";").mapM (fun e =>
    match e.splitOn ":" with
    | [a, b, c] => do pure ({ id := ← a.toNat?, dpower := ← b.toInt?, key := ← c.toNat? } : Delta)
    | _ => none)

def St.table? (st : St) (s : String) : Option Table :=
  if s.startsWith "T" then (dropS s 1).toNat? >>= fun i => st.tables[i]? else none

def St.cert? (st : St) (s : String) : Option Cert :=
  if s.startsWith "c" then (dropS s 1).toNat? >>= fun i => if i = 0 then none else st.certs[i]? else none

def kv (s key : String) : Option String :=
  if s.startsWith (key ++ "=") then some (dropS s (key.length + 1)) else none

def St.parseVal (st : St) (s : String) : Option Val :=
  if s = "t" then some .tomb
  else if s.startsWith "c" then (st.cert? s).map Val.cert
  else if s.startsWith "T" then (st.table? s).map Val.tbl
  else if s.startsWith "j" then (dropS s 1).toNat?.map Val.junk
  else s.toNat?.map Val.num

def St.parseW (st : St) (s : String) : Option W :=
  if s.startsWith "-" then (parseKey (dropS s 1)).map W.del
  else match s.splitOn "=" with
    | [k, v] => do pure (W.put (← parseKey k) (← st.parseVal v))
    | _ => none

def St.parseWs (st : St) (s : String) : Option (List W) :=
  if s = "-" then some [] else (s.splitOn ",").mapM st.parseW

def errTok : Err → String
  | .emptyInitial => "emptyInitial" | .badOrder => "badOrder" | .corrupt => "corrupt"
  | .loadLatest => "loadLatest" | .notInitialized => "notInitialized"
  | .alreadyInitialized => "alreadyInitialized" | .firstMismatch => "firstMismatch"
  | .tableMismatch => "tableMismatch" | .noTable => "noTable" | .beforeFirst => "beforeFirst"
  | .future => "future" | .notFound _ => "notFound" | .applyDelta => "applyDelta"
  | .bottom => "bottom" | .invalidChain => "invalidChain" | .gap => "gap"
  | .cidMismatch => "cidMismatch" | .emptyTable => "emptyTable" | .rangeOrder => "rangeOrder"
  | .rangeTooLarge => "rangeTooLarge" | .noHandle => "noHandle" | .unknownLatest => "unknownLatest"
  | .snapHeader => "snapHeader" | .manifestFirst => "manifestFirst" | .manifestTable => "manifestTable"
  | .snapDecode => "snapDecode" | .snapMissing => "snapMissing" | .snapSurplus => "snapSurplus"
  | .snapNoCert => "snapNoCert" | .snapLatest => "snapLatest" | .wouldBlock => "wouldBlock"

def parseErr (s : String) : Err :=
  let all : List Err := [.emptyInitial, .badOrder, .corrupt, .loadLatest, .notInitialized, .alreadyInitialized,
    .firstMismatch, .tableMismatch, .noTable, .beforeFirst, .future, .notFound 0, .applyDelta, .bottom,
    .invalidChain, .gap, .cidMismatch, .emptyTable, .rangeOrder, .rangeTooLarge, .noHandle, .unknownLatest,
    .snapHeader, .manifestFirst, .manifestTable, .snapDecode, .snapMissing, .snapSurplus, .snapNoCert,
    .snapLatest, .wouldBlock]
  (all.find? (fun e => errTok e = s)).getD .corrupt

def resTok {α : Type} (r : Except Err α) : String :=
  match r with
  | .ok _ => "ok"
  | .error e => "err:" ++ errTok e

/-- Observations compare modulo the instance carried by `notFound`. -/
def normE {α : Type} (r : Except Err α) : Except Err α :=
  match r with
  | .error (.notFound _) => .error (.notFound 0)
  | x => x

def Obs.norm (o : Obs) : Obs := { o with certs := o.certs.map normE, tables := o.tables.map normE }

/-- `ok first=.. latest=.. certs=.. tables=..` or `err:kind`. -/
def St.parseObs (st : St) (toks : List String) : Option (Except Err Obs) :=
  match toks with
  | [e] => if e.startsWith "err:" then some (.error (parseErr (dropS e 4))) else none
  | ["ok", f, l, cs, ts] => do
    let f ← (← kv f "first").toNat?
    let l ← kv l "latest"
    let latest ← (if l = "nil" then some none else (st.cert? l).map some)
    let cs ← kv cs "certs"
    let certs ← (if cs = "-" then some [] else (cs.splitOn ",").mapM (fun t =>
      if t.startsWith "!" then some (Except.error (parseErr (dropS t 1))) else (st.cert? t).map Except.ok))
    let ts ← kv ts "tables"
    let tables ← (ts.splitOn ",").mapM (fun t =>
      if t.startsWith "!" then some (Except.error (parseErr (dropS t 1))) else (st.table? t).map Except.ok)
    pure (.ok (Obs.norm { first := f, latest := latest, certs := certs, tables := tables }))
  | _ => none

def certTok (c : Option Cert) : String :=
  match c with
  | none => "nil"
  | some c => s!"c{c.id}"

/-! ## Oracles on observations -/

/-- The implementation's own full observation is a gap-free history with derivable tables. -/
def obsConsistent (o : Obs) : Option String :=
  let rec go (i : Nat) (t : Table) (cs : List (Except Err Cert)) (ts : List (Except Err Table)) : Option String :=
    match cs, ts with
    | [], [] => none
    | (.ok c) :: cs, (.ok t') :: ts =>
      if c.inst ≠ i then some s!"instance {i} holds a certificate for {c.inst}"
      else match tableStep t c.delta with
        | .ok t2 =>
          if t2 ≠ t' then some s!"table for {i + 1} is not the previous table with the delta of {i} applied"
          else if c.commit ≠ Commit.known t' then some s!"table for {i + 1} is not the one certificate {i} commits to"
          else go (i + 1) t' cs ts
        | .error _ => some s!"delta of {i} does not apply"
    | (.error _) :: _, _ => some s!"no certificate at {i} although latest is beyond"
    | _, (.error _) :: _ => some s!"no power table for {i + 1}"
    | _, _ => some "certificate / table counts differ"
  match o.tables with
  | (.ok t0) :: ts =>
    -- stores created over a non-canonical table are outside the property (followed by the model only)
    if toArray (toMap t0) ≠ t0 then none else
    match go o.first t0 o.certs ts with
    | some m => some m
    | none =>
      let last := (o.certs.getLast?).bind (fun r => match r with | .ok c => some c | .error _ => none)
      if o.latest ≠ last then some "latest is not the last stored certificate" else none
  | _ => some "no initial power table"

def specStObs (s : SpecSt) : Option (Except Err Obs) :=
  match s with
  | .unknown => none
  | .notInit => some (.error .notInitialized)
  | .init sp => some (.ok sp.obs)

def modelObserve (cfg : Cfg) (w : World) : Except Err Obs :=
  match w.mem with
  | none => .error .noHandle
  | some m => .ok (Obs.norm (observe cfg m w.ds))

/-! ## Applying an operation's outcome with a write budget -/

def parseBudget (s : String) : Option (Option Nat) :=
  match kv s "b" with
  | some "-" => some none
  | some v => v.toNat?.map some
  | none => none

/-- Outcome under a write budget: a crash keeps the first `k` writes and reports `crash`. -/
def budgeted {α : Type} (o : Out α) (b : Option Nat) : List W × Option (Except Err α) :=
  match b with
  | some k => if k < o.ws.length then (o.ws.take k, none) else (o.ws, some o.res)
  | none => (o.ws, some o.res)

def outTok {α : Type} (r : Option (Except Err α)) : String :=
  match r with
  | none => "err:crash"
  | some r => resTok r

def St.world (st : St) : World := st.fork.getD st.main
def St.setWorld (st : St) (w : World) : St :=
  match st.fork with
  | some _ => { st with fork := some w }
  | none => { st with main := w }
def St.inFork (st : St) : Bool := st.fork.isSome

/-- Compare the model's writes and result with the line's; `none` = agreement. -/
def St.cmpOut (st : St) (ws : List W) (res : String) (implRes wsTok : String) : Option String :=
  match st.parseWs wsTok with
  | none => some s!"cannot parse writes {wsTok}"
  | some iws =>
    if res ≠ implRes then some s!"result: impl {implRes}, model {res}"
    else if iws ≠ ws then some s!"datastore writes differ: impl {wsTok}, model has {ws.length} writes"
    else none

def lookupS (l : List (String × String)) (k : String) : Option String := (l.find? (·.1 = k)).map (·.2)

/-- Record / check a crash-context observation. -/
def crashObs (st : St) (tag obs : String) : St × Option String :=
  match st.crash with
  | none => (st, none)
  | some c =>
    if tag.startsWith "v:" then
      if c.full then ({ st with crash := some { c with after := (tag, obs) :: c.after } }, none)
      else if c.k = 0 then
        ({ st with crash := some { c with before := (tag, obs) :: c.before } }, none)
      else
        let b := lookupS c.before tag
        let a := lookupS c.after tag
        if some obs = b || some obs = a then (st, none)
        else
          let kw := if c.kind = "delall" then "S1-interrupted-wipe-not-resumed" else "C10-crash-not-atomic"
          (st, some s!"{kw} op={c.kind} crash-after-writes={c.k}/{c.n} reopen={tag} observed=[{obs}] before=[{b.getD "?"}] after=[{a.getD "?"}]")
    else if tag = "io" then
      -- a write of the operation failed with an error and the handle lives on: it must show the state before
      match lookupS c.before "v:open" with
      | some b => if obs = b then (st, none)
        else (st, some s!"C09-failed-put-changed-state op={c.kind}: after a datastore error inside Put the live handle observes [{obs}], before the Put it was [{b}]")
      | none => (st, none)
    else if tag = "io-retry" then
      match lookupS c.after "v:open" with
      | some a => if obs = a then (st, none)
        else (st, some s!"C09-put-not-repeatable-after-error op={c.kind}: repeating the Put on the same handle after a datastore error gives [{obs}], expected [{a}]")
      | none => (st, none)
    else if tag = "retry" then
      let a := lookupS c.after "v:open"
      if c.full && a.isNone then (st, none)
      else if some obs = a then (st, none)
      else
        let kw := if c.kind = "delall" then "S1-interrupted-wipe-not-resumed" else "C10-retry-wrong-state"
        (st, some s!"{kw} op={c.kind} crash-after-writes={c.k}/{c.n} after-retry=[{obs}] expected=[{a.getD "?"}]")
    else (st, none)

def tagOf (toks : List String) : String × List String :=
  match toks with
  | t :: r => match kv t "tag" with
    | some v => (v, r)
    | none => ("", toks)
  | [] => ("", [])

/-- Resolve a pending main-line crash from the implementation's observation after restart. -/
def resolveAlt (st : St) (obsStr : String) (obs : Except Err Obs) : St × Option String :=
  match st.alt with
  | none => (st, none)
  | some (b, a, what) =>
    let st := { st with alt := none }
    if specStObs b = some obs then ({ st with spec := b }, none)
    else if specStObs a = some obs then ({ st with spec := a }, none)
    else if b = .unknown || a = .unknown then ({ st with spec := .unknown }, none)
    else
      let kw := if what = "delall" then "S1-interrupted-wipe-not-resumed" else "C10-crash-not-atomic"
      ({ st with spec := .unknown }, some s!"{kw} op={what} (main line) after restart observed=[{obsStr}] which is neither the state before nor after")

/-! ## Snapshots -/

def St.parseBlock (st : St) (s : String) : Option Block :=
  match s.splitOn ":" with
  | ["H", v, f, l, t, a, b] => do
    pure ⟨← a.toNat?, ← b.toNat?, .header ⟨← v.toNat?, ← f.toNat?, ← l.toNat?, ← st.table? t⟩⟩
  | ["j", a, b] => do pure ⟨← a.toNat?, ← b.toNat?, .junk⟩
  | [c, a, b] => do pure ⟨← a.toNat?, ← b.toNat?, .cert (← st.cert? c)⟩
  | _ => none

def St.parseSnap (st : St) (s : String) : Option (List Block) :=
  if s = "." then some [] else (s.splitOn "|").mapM st.parseBlock

def St.parseManifest (st : St) (s : String) : Option (Option Manifest) :=
  if s = "-" then some none
  else match s.splitOn ":" with
    | [f, t] => do
      let f ← f.toNat?
      if t = "-" then pure (some ⟨f, none⟩) else pure (some ⟨f, some (Commit.known (← st.table? t))⟩)
    | _ => none

/-- Does the snapshot violate the spec *only* through commitments / deltas at instances where the
importer performs no CID check (neither a checkpoint nor the last certificate)? Returns the
instances whose commitment does not match the running table. -/
def interiorMismatches (freq : Nat) (h : Header) (cs : List Cert) : Option (List Nat) :=
  let rec go (pm : PMap) (cs : List Cert) (acc : List Nat) : Option (List Nat) :=
    match cs with
    | [] => some acc.reverse
    | c :: r =>
      match applyDiffMap pm c.delta with
      | .error _ => none
      | .ok pm' =>
        let checked := (c.inst + 1) % freq = 0 || r.isEmpty
        if c.commit = Commit.known (toArray pm') then go pm' r acc
        else if checked then none
        else go pm' r (c.inst :: acc)
  go (toMap h.init) cs []

def headerOf (bs : List Block) : Option (Header × List Cert) :=
  match bs with
  | hb :: rest =>
    match hb.body, bodiesToCerts rest with
    | .header h, some cs => some (h, cs)
    | _, _ => none
  | [] => none

/-- The property oracle speaks first: it is about the implementation's own answer, whatever the model says. -/
def pick (dm : Option String) (ov : Verdict) : Verdict :=
  match ov with
  | .oracle m => .oracle m
  | v => match dm with
    | some d => .diff d
    | none => v

/-! ## The step function -/

/-- The specification speaks about canonical initial tables (what `gpbft.PowerTable` produces); a store
created over any other table is followed by the model only. -/
def fresh (f : Nat) (t : Table) : SpecSt := if toArray (toMap t) = t then .init ⟨f, t, []⟩ else .unknown

def specAfterOpen (spec : SpecSt) (kind : String) (f : Nat) (t : Table) : Option (SpecSt × String) :=
  -- expected (new spec state, expected result token) of a completed open / create / ooc
  match spec, kind with
  | .unknown, _ => none
  | .notInit, "open" => some (.notInit, "err:notInitialized")
  | .init sp, "open" => some (.init sp, "ok")
  | .notInit, "create" => if t = [] then some (.notInit, "err:emptyInitial") else some (fresh f t, "ok")
  | .init sp, "create" => if t = [] then some (.init sp, "err:emptyInitial") else some (.init sp, "err:alreadyInitialized")
  | .notInit, "ooc" => if t = [] then some (.notInit, "err:emptyInitial") else some (fresh f t, "ok")
  | .init sp, "ooc" =>
    if t = [] then some (.init sp, "err:emptyInitial")
    else if f ≠ sp.first then some (.init sp, "err:firstMismatch")
    else if t ≠ sp.init then some (.init sp, "err:tableMismatch")
    else some (.init sp, "ok")
  | s, _ => some (s, "?")

/-- open / create / ooc on the current world. -/
def doOpen (st : St) (kind : String) (f : Nat) (t : Table) (bTok ordTok implRes wsTok : String) : St × Verdict :=
  match parseBudget bTok, (kv ordTok "ord").bind parseOrders, kv wsTok "ws" with
  | some b, some o, some wsS =>
    let w := st.world
    let out : Out Mem :=
      if kind = "open" then openStore st.cfg w.ds o
      else if kind = "create" then createStore st.cfg w.ds o f t
      else openOrCreateStore st.cfg w.ds o f t
    let (ws, r) := budgeted out b
    let mem := match r with | some (.ok m) => some m | _ => none
    let st' := st.setWorld { ds := applyWs w.ds ws, mem := mem }
    let st' := match st'.crash with
      | some c => { st' with crash := some { c with lastRes := outTok r } }
      | none => st'
    let dm := (st.cmpOut ws (outTok r) implRes wsS).map (fun m => s!"{kind}: {m}")
    let (stF, vF) : St × Verdict :=
      if st.inFork then
        -- retry phase: the operation must succeed (or repeat the uncrashed outcome)
        match st.crash with
        | some c =>
          if c.retry && implRes ≠ "ok" && implRes ≠ c.fullRes && !(kind = "open") then
            (st', .oracle s!"C10-retry-failed op={c.kind} crash-after-writes={c.k}/{c.n} retry of {kind} => {implRes}")
          else (st', .ok s!"{kind}:{implRes}")
        | none => (st', .ok s!"{kind}:{implRes}")
      else
        -- main line
        let wiped := (dsGet w.ds .rootTomb).isSome
        let spec0 := if wiped then SpecSt.notInit else st.spec
        match r with
        | none =>
          -- crashed inside: before = spec0, after = completed outcome
          let after := match specAfterOpen spec0 kind f t with | some (s, _) => s | none => .unknown
          let after := if (dsGet w.ds .tomb).isSome && st.cfg.resumeInner then
              (match specAfterOpen .notInit kind f t with | some (s, _) => s | none => .unknown) else after
          ({ st' with alt := some (spec0, after, kind), spec := .unknown, clean := false, specSubs := [] }, .ok s!"{kind}:crash")
        | some _ =>
          let st' := { st' with specSubs := [] }
          match specAfterOpen spec0 kind f t with
          | none => (st', .ok s!"{kind}:{implRes}:nospec")
          | some (s', exp) =>
            if exp = implRes then ({ st' with spec := s' }, .ok s!"{kind}:{implRes}")
            else if exp = "?" then (st', .ok s!"{kind}:{implRes}")
            else ({ st' with spec := .unknown }, .oracle s!"C09-open-semantics {kind} first={f} => {implRes}, the history so far requires {exp}")
    (stF, pick dm vF)
  | _, _, _ => (st, .bad "open: parse")

def doPut (st : St) (cTok bTok implRes wsTok : String) : St × Verdict :=
  match st.cert? cTok, parseBudget bTok, kv wsTok "ws" with
  | some c, some b, some wsS =>
    let w := st.world
    match w.mem with
    | none => (st, .bad "put without a handle")
    | some m =>
      let out := put st.cfg m c
      let (ws, r) := budgeted out b
      let mem' := match r with | some (.ok m') => m' | _ => m
      let st' := st.setWorld { ds := applyWs w.ds ws, mem := some mem' }
      let st' := match st'.crash with
        | some cc => { st' with crash := some { cc with lastRes := outTok r } }
        | none => st'
      let branch := if ws.length = 3 then "checkpoint" else if ws.length = 2 then "advance" else
        (if implRes = "ok" then "stale" else implRes)
      let dm := (st.cmpOut ws (outTok r) implRes wsS).map (fun msg => s!"put {cTok}: {msg}")
      let (stF, vF) : St × Verdict :=
        if implRes = "err:wouldBlock" then (st', .oracle s!"C09-writer-blocked put {cTok} blocked on a subscriber channel")
        else if st.inFork then
          match st.crash with
          | some cc =>
            if cc.retry && implRes ≠ "ok" && implRes ≠ cc.fullRes then
              (st', .oracle s!"C10-retry-failed op=put crash-after-writes={cc.k}/{cc.n} retry of put {cTok} => {implRes}")
            else (st', .ok s!"put:{branch}")
          | none => (st', .ok s!"put:{branch}")
        else
          match r, st.spec with
          | none, .init sp =>
            ({ st' with alt := some (.init sp, .init (sp.put c), "put"), spec := .unknown, clean := false }, .ok "put:crash")
          | none, _ => ({ st' with alt := some (.unknown, .unknown, "put"), spec := .unknown, clean := false }, .ok "put:crash")
          | some _, .init sp =>
            let adm := sp.admits c
            if adm then
              if implRes = "ok" then
                ({ st' with spec := .init (sp.push c), specSubs := st.specSubs.map (fun s => (s.1, some c)) }, .ok s!"put:{branch}")
              else (st', .oracle s!"C09-valid-successor-rejected put {cTok} inst={c.inst} => {implRes}")
            else if implRes = "ok" then
              if c.inst < sp.next ∧ sp.first ≤ c.inst ∧ c.chain = .ok ∧ wsS = "-" then (st', .ok "put:stale")
              else (st', .oracle s!"C09-inadmissible-accepted put {cTok} inst={c.inst} next={sp.next} accepted (writes: {wsS})")
            else if wsS ≠ "-" then (st', .oracle s!"C09-rejected-put-wrote put {cTok} => {implRes} but wrote {wsS}")
            else if c.inst < sp.next ∧ sp.first ≤ c.inst ∧ c.chain = .ok then
              (st', .oracle s!"C09-stale-reput-rejected put {cTok} inst={c.inst} (already stored, next={sp.next}) => {implRes}; re-submitting a stored instance must be a no-op")
            else (st', .ok s!"put:{branch}")
          | some _, _ => (st', .ok s!"put:{branch}:nospec")
      (stF, pick dm vF)
  | _, _, _ => (st, .bad "put: parse")

def step (st : St) (line : String) : St × Verdict :=
  match splitWs line with
  | ["cfg", a, b, c] =>
    match (kv a "resumeInner").bind parseBool?, (kv b "defaultFreq").bind String.toNat?, (kv c "lenientEOF").bind parseBool? with
    | some r, some d, some l => ({ st with cfg := { st.cfg with resumeInner := r, openFreq := d, lenientEOF := l }, defaultFreq := d }, .skip)
    | _, _, _ => (st, .bad "cfg")
  | ["deft", id, ents] =>
    match id.toNat?, parseTable ents with
    | some i, some t => if i = st.tables.size then ({ st with tables := st.tables.push t }, .skip) else (st, .bad "deft id out of sequence")
    | _, _ => (st, .bad "deft")
  | ["defc", id, i, d, cm, ch] =>
    match id.toNat?, (kv i "inst").bind String.toNat?, (kv d "delta").bind parseDelta, kv cm "commit", kv ch "chain" with
    | some id, some inst, some delta, some cm, some ch =>
      let commit : Option Commit :=
        if cm.startsWith "?" then (dropS cm 1).toNat?.map Commit.opaque else (st.table? cm).map Commit.known
      let chain : Option ChainKind := if ch = "ok" then some .ok else if ch = "zero" then some .zero else if ch = "invalid" then some .invalid else none
      match commit, chain with
      | some commit, some chain =>
        if id = st.certs.size then ({ st with certs := st.certs.push ⟨inst, id, delta, commit, chain⟩ }, .skip)
        else (st, .bad "defc id out of sequence")
      | _, _ => (st, .bad "defc fields")
    | _, _, _, _, _ => (st, .bad "defc")
  | "new" :: f :: _ =>
    match (kv f "freq").bind String.toNat? with
    | some f => ({ st with cfg := { st.cfg with freq := f }, main := {}, spec := .notInit, alt := none, clean := true,
                           specSubs := [], fork := none, crash := none, imp := none, lastSnap := [] }, .skip)
    | none => (st, .bad "new")
  | ["plant", "=>", _] =>
    let w := st.main
    ({ st with main := { w with ds := dsPut w.ds .rootTomb .tomb } }, .ok "plant")
  | ["close"] => (st.setWorld { st.world with mem := none }, .skip)
  | ["open", b, o, "=>", r, ws] => doOpen st "open" 0 [] b o r ws
  | ["create", f, t, b, o, "=>", r, ws] =>
    match f.toNat?, st.table? t with
    | some f, some t => doOpen st "create" f t b o r ws
    | _, _ => (st, .bad "create args")
  | ["ooc", f, t, b, o, "=>", r, ws] =>
    match f.toNat?, st.table? t with
    | some f, some t => doOpen st "ooc" f t b o r ws
    | _, _ => (st, .bad "ooc args")
  | ["put", c, b, _, "=>", r, ws] => doPut st c b r ws
  | ["delall", b, o, "=>", r, wsT] =>
    match parseBudget b, (kv o "ord").bind parseOrders, kv wsT "ws" with
    | some b, some o, some wsS =>
      let w := st.world
      let out := deleteAll w.ds o.inner
      let (ws, res) := budgeted out b
      let st' := st.setWorld { w with ds := applyWs w.ds ws }
      let st' := match st'.crash with
        | some cc => { st' with crash := some { cc with lastRes := outTok res } }
        | none => st'
      match st.cmpOut ws (outTok res) r wsS with
      | some m => (st', .diff s!"delall: {m}")
      | none =>
        if st.inFork then (st', .ok s!"delall:{r}")
        else match res with
          | none => ({ st' with alt := some (st.spec, .notInit, "delall"), spec := .unknown, clean := false }, .ok "delall:crash")
          | some _ => ({ st' with spec := .notInit, specSubs := [] }, .ok s!"delall:{r}")
    | _, _, _ => (st, .bad "delall: parse")
  | ["get", i, "=>", r] =>
    match i.toNat?, st.world.mem with
    | some i, some _ =>
      let m := getCert st.world.ds i
      let mt := match m with | .ok c => s!"c{c.id}" | .error e => "err:" ++ errTok e
      let dm := if mt ≠ r then some s!"get {i}: impl {r}, model {mt}" else none
      (st, pick dm (match st.spec, st.inFork with
        | .init sp, false =>
          if i < sp.next || st.clean then
            let e := match sp.certAt i with | some c => s!"c{c.id}" | none => "err:notFound"
            if e = r then .ok (if r.startsWith "c" then "get:hit" else "get:miss")
            else .oracle s!"C09-get get {i} => {r}, the history so far requires {e}"
          else .ok "get:beyond-latest-after-crash"
        | _, _ => .ok "get:nospec"))
    | _, _ => (st, .bad "get")
  | ["latest", "=>", r] =>
    match st.world.mem with
    | some m =>
      let dm := if certTok m.latest ≠ r then some s!"latest: impl {r}, model {certTok m.latest}" else none
      (st, pick dm (match st.spec, st.inFork with
        | .init sp, false =>
          if certTok sp.latest = r then .ok "latest" else .oracle s!"C09-latest latest => {r}, the history so far requires {certTok sp.latest}"
        | _, _ => .ok "latest:nospec"))
    | none => (st, .bad "latest without handle")
  | ["pt", i, "=>", r] =>
    match i.toNat?, st.world.mem with
    | some i, some m =>
      let mr := getPowerTable st.cfg m st.world.ds i
      let agree := match mr, st.table? r with
        | .ok t, some t' => t = t'
        | .error e, none => r = "err:" ++ errTok e
        | _, _ => false
      let dm := if !agree then some s!"pt {i}: impl {r}, model {resTok mr}" else none
      (st, pick dm (match st.spec, st.inFork with
        | .init sp, false =>
          match sp.tableAt i, st.table? r with
          | some t, some t' =>
            if t = t' then .ok (if i = sp.next then "pt:next" else if i % st.cfg.freq = 0 then "pt:checkpoint" else "pt:derived")
            else .oracle s!"C09-power-table pt {i} => {r} is not the initial table with the deltas of instances < {i} applied"
          | none, none => .ok s!"pt:{r}"
          | some _, none => .oracle s!"C09-power-table pt {i} => {r} although first={sp.first} <= {i} <= next={sp.next}"
          | none, some _ => .oracle s!"C09-power-table pt {i} => a table although {i} is outside [first={sp.first}, next={sp.next}]"
        | _, _ => .ok "pt:nospec"))
    | _, _ => (st, .bad "pt")
  | "range" :: a :: b :: "=>" :: rest =>
    match a.toNat?, b.toNat?, st.world.mem with
    | some a, some b, some _ =>
      let mr := getRange st.world.ds a b
      let ids (cs : List Cert) : String := if cs = [] then "-" else ",".intercalate (cs.map (fun c => s!"c{c.id}"))
      let mt : List String := match mr with
        | .error e => ["err:" ++ errTok e]
        | .ok (cs, none) => [ids cs, "ok"]
        | .ok (cs, some _) => [ids cs, "err:notFound"]
      let dm := if mt ≠ rest then some s!"range {a} {b}: impl {rest}, model {mt}" else none
      (st, pick dm (match st.spec, st.inFork with
        | .init sp, false =>
          if a ≤ b ∧ (b < sp.next || st.clean) ∧ b - a < 100000 then
            let cs := sp.range a b
            let complete := decide (cs.length = b + 1 - a)
            let e : List String := [ids cs, if complete then "ok" else "err:notFound"]
            if e = rest then .ok (if complete then "range:complete" else "range:partial")
            else .oracle s!"C09-range range {a} {b} => {rest}, the history so far requires {e}"
          else .ok "range:unspecified"
        | _, _ => .ok "range:nospec"))
    | _, _, _ => (st, .bad "range")
  | ["sub", "=>", s] =>
    match st.world.mem with
    | some m =>
      let (m', id) := subscribe m
      let st' := st.setWorld { st.world with mem := some m' }
      if s ≠ s!"s{id}" then (st', .diff s!"sub: impl {s}, model s{id}")
      else if st.inFork then (st', .ok "sub")
      else
        let lat := match st.spec with | .init sp => sp.latest | _ => m.latest
        ({ st' with specSubs := st.specSubs ++ [(id, lat)] }, .ok "sub")
    | none => (st, .bad "sub without handle")
  | ["recv", s, "=>", r] =>
    match st.world.mem, (dropS s 1).toNat? with
    | some m, some id =>
      match recv m id with
      | none => (st, .bad "recv on unknown subscription")
      | some (m', got) =>
        let st' := st.setWorld { st.world with mem := some m' }
        if certTok got ≠ r then (st', .diff s!"recv {s}: impl {r}, model {certTok got}")
        else if st.inFork then (st', .ok "recv")
        else
          let pend := ((st.specSubs.find? (·.1 = id)).map (·.2)).getD none
          let st' := { st' with specSubs := st.specSubs.map (fun p => if p.1 = id then (p.1, none) else p) }
          if st.spec = .unknown then (st', .ok "recv:nospec")
          else if certTok pend = r then (st', .ok (if r = "nil" then "recv:empty" else "recv:latest"))
          else (st', .oracle s!"C09-subscriber recv {s} => {r}, but the latest certificate not yet seen by this subscriber is {certTok pend}")
    | _, _ => (st, .bad "recv")
  | ["unsub", s] =>
    match st.world.mem, (dropS s 1).toNat? with
    | some m, some id =>
      ({ (st.setWorld { st.world with mem := some (unsubscribe m id) }) with specSubs := st.specSubs.filter (·.1 ≠ id) }, .skip)
    | _, _ => (st, .bad "unsub")
  | "obs" :: rest =>
    let (tag, rest) := tagOf rest
    match rest with
    | "=>" :: o =>
      match st.parseObs o with
      | none => (st, .bad "obs: parse")
      | some io =>
        let mo := modelObserve st.cfg st.world
        let ostr := " ".intercalate o
        let dm := if mo ≠ io then some s!"obs: impl [{ostr}] differs from the model's observation" else none
          match (match io with | .ok ob => obsConsistent ob | .error _ => none) with
          | some m => (st, .oracle s!"C09-inconsistent-history {m} :: [{ostr}]")
          | none =>
            if st.inFork then
              let (st', v) := crashObs st tag ostr
              match v with
              | some m => (st', .oracle m)
              | none => (st', pick dm (.ok s!"obs:fork:{tag}"))
            else match specStObs st.spec with
              | some e => if e = io then (st, pick dm (.ok "obs:spec")) else (st, .oracle s!"C09-observation [{ostr}] differs from the specification state")
              | none => (st, pick dm (.ok "obs:nospec"))
    | _ => (st, .bad "obs")
  | "robs" :: variant :: rest =>
    -- robs open [tag=..] ord=.. => obs.. ws=..   |   robs ooc f T [tag=..] ord=.. => obs.. ws=..
    let (args, rest) : (Option (String × Nat × Table)) × List String :=
      if variant = "open" then (some ("open", 0, []), rest)
      else match rest with
        | f :: t :: r => (match f.toNat?, st.table? t with | some f, some t => some ("ooc", f, t) | _, _ => none, r)
        | _ => (none, rest)
    let (tag, rest) := tagOf rest
    match args, rest with
    | some (kind, f, t), ordT :: "=>" :: tail =>
      match tail.reverse with
      | wsT :: obsRev =>
        let o := obsRev.reverse
        match (kv ordT "ord").bind parseOrders, kv wsT "ws", st.parseObs o with
        | some ord, some wsS, some io =>
          let w := st.world
          let out : Out Mem := if kind = "open" then openStore st.cfg w.ds ord else openOrCreateStore st.cfg w.ds ord f t
          let w' : World := { ds := applyWs w.ds out.ws, mem := match out.res with | .ok m => some m | .error _ => none }
          let st' := st.setWorld w'
          let mo : Except Err Obs := match out.res with
            | .ok _ => modelObserve st.cfg w'
            | .error e => normE (.error e)
          let ostr := " ".intercalate o
          match st.parseWs wsS with
          | none => (st', .bad "robs: writes")
          | some iws =>
            let dm : Option String :=
              if iws ≠ out.ws then some s!"robs {kind}: datastore writes differ: impl {wsS}, model has {out.ws.length}"
              else if mo ≠ io then some s!"robs {kind}: impl observes [{ostr}], model {resTok mo}"
              else none
              match (match io with | .ok ob => obsConsistent ob | .error _ => none) with
              | some m =>
                let wipe := (match st.crash with | some c => c.kind = "delall" | none => false) ||
                  (match st.alt with | some (_, _, w) => w = "delall" | none => false)
                let kw := if wipe then "S1-interrupted-wipe-not-resumed" else "C10-inconsistent-after-crash"
                (st', .oracle s!"{kw} after reopen: {m} :: [{ostr}]")
              | none =>
                if st.inFork then
                  let (st'', v) := crashObs st' tag ostr
                  match v with
                  | some m => (st'', .oracle m)
                  | none => (st'', pick dm (.ok s!"robs:{kind}:{tag}"))
                else
                  let (st'', v) := resolveAlt st' ostr io
                  match v with
                  | some m => (st'', .oracle m)
                  | none => (st'', pick dm (.ok s!"robs:{kind}:main"))
        | _, _, _ => (st, .bad "robs: parse")
      | [] => (st, .bad "robs: empty")
    | _, _ => (st, .bad "robs: args")
  | ["conc", _, "=>", r] =>
    if r = "ok" then (st, .ok "conc:ok")
    else (st, .oracle s!"C09-concurrent a reader / subscriber running beside the writer observed: {r}")
  | ["cbegin", kind] => ({ st with crash := some { kind := kind } }, .skip)
  | ["cfork"] =>
    let w := st.main
    ({ st with fork := some { ds := w.ds, mem := w.mem.map (fun m => { m with subs := [], nextSub := 0 }) } }, .skip)
  | ["csave", k, n] =>
    match (kv k "k").bind String.toNat?, (kv n "of").bind String.toNat?, st.crash with
    | some k, some n, some c =>
      let full := c.after.isEmpty && c.before.isEmpty && c.fullRes = "" && k = n
      let c := { c with k := k, n := n, full := full, retry := false, fullRes := if full then c.lastRes else c.fullRes }
      let w := st.world
      ({ (st.setWorld { w with mem := none }) with saved := w.ds, crash := some c }, .ok (if full then "crashpoint:complete" else "crashpoint"))
    | _, _, _ => (st, .bad "csave")
  | ["crestore"] => ({ st with fork := some { ds := st.saved, mem := none } }, .skip)
  | ["cretry"] =>
    ({ st with fork := some { ds := st.saved, mem := none }, crash := st.crash.map (fun c => { c with retry := true }) }, .skip)
  | ["cdone"] => ({ st with crash := st.crash.map (fun c => { c with full := false, retry := false }) }, .skip)
  | ["retry-impossible"] =>
    match st.crash with
    | some c =>
      let kw := if c.kind = "delall" then "S1-interrupted-wipe-not-resumed" else "C10-retry-impossible"
      (st, .oracle s!"{kw} op={c.kind} crash-after-writes={c.k}/{c.n}: the store cannot be reopened to retry")
    | none => (st, .bad "retry-impossible outside a crash block")
  | ["cend"] => ({ st with fork := none, crash := none }, .skip)
  -- snapshots ---------------------------------------------------------------------------------
  | "exportlatest" :: "=>" :: rest | "export" :: _ :: "=>" :: rest =>
    let toks := splitWs line
    let nTok : Option Nat := match toks with
      | "export" :: n :: _ => n.toNat?
      | _ => (st.world.mem.bind (·.latest)).map (·.inst)
    match st.world.mem with
    | none => (st, .bad "export without handle")
    | some m =>
      let mr : Except Err (Header × List Cert) := match toks with
        | "exportlatest" :: _ => exportLatest st.cfg m st.world.ds
        | _ => match nTok with | some n => exportSnapshot st.cfg m st.world.ds n | none => .error .corrupt
      match rest with
      | [e] =>
        if e = resTok mr then (st, .ok s!"export:{e}") else (st, .diff s!"export: impl {e}, model {resTok mr}")
      | ["ok", dg, fr, hr, sn] =>
        match mr, (kv sn "snap").bind st.parseSnap, kv hr "hdrret" with
        | .ok (h, cs), some blocks, some hr =>
          let st' := { st with lastSnap := blocks }
          match headerOf blocks with
          | none => (st', .oracle s!"C17-export-malformed the exported bytes are not a header followed by certificates")
          | some (h', cs') =>
            if h' ≠ h || cs' ≠ cs then (st', .diff s!"export: bytes carry first={h'.first} latest={h'.latest} {cs'.length} certs; model first={h.first} latest={h.latest} {cs.length} certs")
            else if dg ≠ "digest=ok" then (st', .oracle "C17-digest the returned CID is not the blake2b-256 raw CID of the exported bytes")
            else if fr ≠ "framed=true" then (st', .oracle "C17-export-malformed exported bytes are not a sequence of length-prefixed blocks")
            else
              let hrOk := match hr.splitOn ":" with
                | [v, f, l, t] => v.toNat? = some h.version && f.toNat? = some h.first && l.toNat? = some h.latest && st.table? t = some h.init
                | _ => false
              if !hrOk then (st', .oracle s!"C17-header the returned header {hr} differs from the header in the bytes")
              else match st.spec with
                | .init sp =>
                  let tr := sp.truncateTo h.latest
                  if h.version = 1 ∧ h.first = sp.first ∧ h.init = sp.init ∧ cs = tr.certs ∧ (cs = [] ∨ sp.first + cs.length = h.latest + 1) then
                    (st', .ok (if cs = [] then "export:empty" else "export:ok"))
                  else (st', .oracle s!"C17-export-content snapshot for end point {h.latest} does not carry the store's first/initial table/certificates up to it")
                | _ => (st', .ok "export:nospec")
        | .error e, _, _ => (st, .diff s!"export: impl ok, model err:{errTok e}")
        | _, _, _ => (st, .bad "export: parse")
      | _ => (st, .bad "export: shape")
  | ["import", kd, sn, tl, mf, fq, "=>", r, lk] =>
    let tailV : Option Tail := match kv tl "tail" with
      | some "clean" => some .clean | some "afterVarint" => some .afterVarint
      | some "midVarint" => some .midVarint | some "midBody" => some .midBody | _ => none
    match kv kd "kind", (kv sn "snap").bind st.parseSnap, (kv mf "mf").bind st.parseManifest,
          (kv fq "ifreq").bind String.toNat?, (kv lk "latestkey").bind parseBool?, tailV with
    | some kind, some blocks, some mfv, some ifreq, some lkey, some tailv =>
      let freq := if ifreq = 0 then st.defaultFreq else ifreq
      let cfg : Cfg := { st.cfg with freq := freq }
      let s : Stream := ⟨blocks, tailv⟩
      let out := importSnapshot cfg [] {} s mfv
      let ds' := applyWs [] out.ws
      let specOk := snapshotOk s mfv
      let (interior, sobs, desc) : Bool × Option Obs × String :=
        match headerOf blocks with
        | some (h, cs) =>
          let sp : Spec := ⟨h.first, h.init, cs⟩
          let mm := interiorMismatches freq h cs
          (match mm with | some (_ :: _) => true | _ => false,
           some sp.obs,
           s!"first={h.first} latest={h.latest} freq={freq} unchecked-mismatch-at={match mm with | some l => joinNat l | none => "n/a"}")
        | none => (false, none, "")
      let info : ImportInfo := ⟨ds', freq, specOk, kind, interior, sobs, desc⟩
      let st' := { st with imp := some info }
      let dm : Option String :=
        if resTok out.res ≠ r then some s!"import kind={kind}: impl {r}, model {resTok out.res}"
        else if lkey ≠ (dsGet ds' .latest).isSome then some s!"import kind={kind}: latest key present={lkey}, model {(dsGet ds' .latest).isSome}"
        else none
      if r = "ok" && !specOk then
        if interior && dm.isNone then
          let kw := if kind = "compdelta" then "S9-compensating-delta" else "S9-interior-commit-unchecked"
          (st', .oracle s!"{kw} kind={kind} {desc}: snapshot accepted although deltas do not reproduce the committed tables at those instances (no CID check between checkpoints)")
        else if tailv = .afterVarint && snapshotOk ⟨blocks, .clean⟩ mfv && dm.isNone then
          (st', .oracle s!"C17-dangling-length-prefix-accepted kind={kind} {desc}: a complete snapshot followed by a bare length prefix (truncated last block) is accepted")
        else (st', .oracle s!"C17-bad-snapshot-accepted kind={kind} {desc}")
      else if r ≠ "ok" && specOk then (st', .oracle s!"C17-good-snapshot-rejected kind={kind} => {r}")
      else if r ≠ "ok" && lkey then (st', .oracle s!"C17-rejected-import-left-latest kind={kind}")
      else (st', pick dm (.ok s!"import:{kind}:{r}"))
    | _, _, _, _, _, _ => (st, .bad "import: parse")
  | "iobs" :: "=>" :: o =>
    match st.imp, st.parseObs o with
    | some info, some io =>
      let cfg : Cfg := { st.cfg with freq := info.freq }
      let out := openStore cfg info.ds {}
      let w' : World := { ds := applyWs info.ds out.ws, mem := match out.res with | .ok m => some m | .error _ => none }
      let mo : Except Err Obs := match out.res with | .ok _ => modelObserve cfg w' | .error e => normE (.error e)
      let ostr := " ".intercalate o
      let dm : Option String := if mo ≠ io then some s!"iobs: impl [{ostr}], model {resTok mo}" else none
      if info.specOk then
        if (info.specObs.map Except.ok) = some io then (st, pick dm (.ok "iobs:roundtrip"))
        else (st, .oracle s!"C17-roundtrip kind={info.kind} imported store shows [{ostr}], not the snapshot's certificates and their tables")
      else (st, pick dm (.ok "iobs:accepted-bad"))
    | _, _ => (st, .bad "iobs")
  | ["icons", "=>", fl] =>
    match st.imp with
    | some info =>
      if fl = "-" || (fl.splitOn ",").all (· = "1") then (st, .ok "icons:consistent")
      else if info.interiorOnly then
        let kw := if info.kind = "compdelta" then "S9-compensating-delta" else "S9-interior-commit-unchecked"
        (st, .oracle s!"{kw} kind={info.kind} {info.desc}: imported store serves tables that contradict its certificates (flags {fl})")
      else (st, .oracle s!"C17-imported-store-inconsistent kind={info.kind} {info.desc} flags={fl}")
    | none => (st, .bad "icons")
  | ["trunc", p, "=>", r, lk] =>
    match p.toNat?, (kv lk "latestkey").bind parseBool? with
    | some p, some lkey =>
      let s := truncateBlocks st.lastSnap p
      let out := importSnapshot st.cfg [] {} s none
      let total := totalSize st.lastSnap
      let dm : Option String := if resTok out.res ≠ r then some s!"trunc {p}/{total}: impl {r}, model {resTok out.res}" else none
      if p < total && r = "ok" then (st, .oracle s!"C17-truncated-accepted snapshot cut at byte {p} of {total} accepted")
      else if lkey then (st, .oracle s!"C17-rejected-import-left-latest truncation at {p}")
      else (st, pick dm (.ok s!"trunc:{r}"))
    | _, _ => (st, .bad "trunc")
  | _ => (st, .bad "unknown op")

end Driver.Store

def main : IO UInt32 := Driver.runArea Driver.Store.step {}
