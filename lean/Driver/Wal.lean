import Driver.Util
import F3.Model.Wal
/-! Driver for area `wal` (C11).  Replays the harness log of the real `writeaheadlog` through
`F3.Wal.step` (record-level token codec `tokCfg`) and evaluates the property oracle on the
implementation's own observations (bookkeeping in `Obs`, independent of the model). -/
namespace Driver.Wal
open Driver F3.Wal

/-- What the implementation itself told us so far (no model involved). -/
structure Obs where
  acked : List (Nat × Nat × String) := []     -- (id, epoch, file) acknowledged, file not purged
  inflight : List Nat := []                   -- ids of appends cut by a crash
  inflightFull : List (Nat × Nat × String) := []  -- … whose record reached the file completely
  torn : List String := []                    -- files ending in a partial record (sizes not modelled)
  files : List String := []
  atOpen : List String := []
  active : Option String := none

structure St where
  rotateAt : Nat := 1048576
  model : State DEntry Tok := init
  obs : Obs := {}
  saved : Option (State DEntry Tok × Obs) := none

def kv (toks : List String) (key : String) : Option String :=
  (toks.find? (·.startsWith (key ++ "="))).map (fun t => (t.drop (key.length + 1)).toString)

/-- `name|num,name|num` or `-`. -/
def parsePairs (s : String) : Option (List (String × Nat)) :=
  if s = "-" || s = "" then some []
  else (s.splitOn ",").mapM (fun p =>
    match p.splitOn "|" with
    | [n, v] => v.toNat?.map (fun v => (n, v))
    | _ => none)

def showPairs (l : List (String × Nat)) : String :=
  if l.isEmpty then "-" else ",".intercalate (l.map (fun (n, v) => s!"{n}|{v}"))

def modelClosed (s : State DEntry Tok) : List (String × Nat) :=
  match s.mem with
  | none => []
  | some m => m.logFiles.map (fun st => (st.name, st.maxEpoch))

def modelLs (cfg : Cfg DEntry Tok) (s : State DEntry Tok) : List (String × Nat) :=
  (s.dir.map (fun f => (f.1, fileSize cfg f.2))).mergeSort (fun a b => decide (a.1 ≤ b.1))

def insertNew (l : List String) (x : String) : List String := if l.contains x then l else l ++ [x]

/-- Oracle on an `All()` result. -/
def oracleAll (o : Obs) (ids : List Nat) : Option String :=
  match o.acked.find? (fun a => !ids.contains a.1) with
  | some a => some s!"ACKED-LOST id={a.1} epoch={a.2.1} file={a.2.2}: acknowledged, not purged, not returned by All()"
  | none =>
    match ids.find? (fun i => !(o.acked.any (·.1 == i)) && !o.inflight.contains i) with
    | some i => some s!"PHANTOM id={i}: returned by All() but never appended (or already purged)"
    | none =>
      if ids.eraseDups.length != ids.length then some "DUPLICATE: All() returned an entry twice"
      else
        let files := (o.acked.map (·.2.2)).eraseDups
        match files.find? (fun f =>
          let want := (o.acked.filter (·.2.2 == f)).map (·.1)
          let got := ids.filter (fun i => want.contains i)
          got != want) with
        | some f => some s!"ORDER file={f}: entries of one file returned out of append order"
        | none => none

def oraclePurge (o : Obs) (k : Nat) (ls : List String) : Option String :=
  let removed := o.files.filter (fun f => !ls.contains f)
  if removed.any (fun f => o.active == some f) then some s!"PURGE-ACTIVE k={k}: the active file was removed"
  else
    match o.acked.find? (fun a => removed.contains a.2.2 && a.2.1 ≥ k) with
    | some a => some s!"PURGE-LOST k={k} id={a.1} epoch={a.2.1} file={a.2.2}: entry at or above the purge epoch removed"
    | none =>
      match ls.find? (fun f =>
        o.active != some f && k > 0 &&
        (o.acked.filter (·.2.2 == f)).all (·.2.1 < k) && (o.inflightFull.filter (·.2.2 == f)).all (·.2.1 < k)) with
      | some f => some s!"PURGE-INCOMPLETE k={k} file={f}: closed file with all entries below the purge epoch kept"
      | none => none

def tokN (n len : Nat) : Nat := if n = 0 then 0 else if n < len then 1 else 2

def step (st : St) (line : String) : St × Verdict :=
  let toks := splitWs line
  let cfg := tokCfg st.rotateAt
  match toks with
  | "cfg" :: _ =>
    match (kv toks "rotateAt").bind (·.toNat?) with
    | some r => ({ st with rotateAt := r }, .skip)
    | none => (st, .bad "cfg")
  | "hist" :: _ => ({ st with model := init, obs := {}, saved := none }, .skip)
  | "codec" :: kind :: _ =>
    if kv toks "prefixfail" == some "true" && kv toks "seq" == some "true" then (st, .ok s!"codec_{kind}")
    else (st, .oracle s!"CODEC-HYP {kind}: a strict prefix of an encoding decodes, or sequential decoding of enc++enc++torn fails")
  | "walentry" :: n :: cut :: "=>" :: res =>
    -- the host's record type (a pointer to a GMessage) through the real log: every entry read back must be the
    -- message appended at that position, live and after a restart (the torn last record excepted)
    if res == ["live=ok", "reopened=ok"] then (st, .ok (if cut == "cut=0" then "walentry" else "walentry_torn"))
    else (st, .oracle s!"WALENTRY-NOT-INTACT {n} {cut}: entries of type walEntry read back from the log differ from what was appended ({" ".intercalate res})")
  | ["sync", "unavailable"] => (st, .ok "sync_unavailable")
  | ["sync", id, d] =>
    if kv [d] "dirty" == some "false" then (st, .ok "sync_ack_after_fsync")
    else (st, .oracle s!"ACK-BEFORE-FSYNC id={id}: Append returned while bytes written to the log file were not yet fsynced (strace)")
  | ["syncsummary", a, f, o] =>
    match (kv [a] "acks").bind (·.toNat?), (kv [f] "fsyncs").bind (·.toNat?), (kv [o] "oldopen").bind (·.toNat?) with
    | some acks, some fsyncs, some oldopen =>
      if oldopen > 0 then (st, .oracle s!"OLDFILE-OPEN-FOR-WRITE: {oldopen} log file(s) that already existed were opened for writing (strace)")
      else if acks = 0 || fsyncs < acks then (st, .oracle s!"ACK-BEFORE-FSYNC: {acks} acknowledgements but only {fsyncs} fsyncs of log files (strace)")
      else (st, .ok "sync_summary")
    | _, _, _ => (st, .bad "syncsummary")
  | ["fork"] => ({ st with saved := some (st.model, st.obs) }, .ok "fork")
  | ["endfork"] =>
    match st.saved with
    | some (m, o) => ({ st with model := m, obs := o, saved := none }, .skip)
    | none => (st, .bad "endfork without fork")
  | ["crash"] =>
    ({ st with model := (F3.Wal.step cfg st.model .crash).1, obs := { st.obs with active := none } }, .ok "crash")
  | ["open", "=>", "err"] =>
    if st.obs.acked.isEmpty then (st, .diff "Open failed; the model never fails to open")
    else (st, .oracle s!"ACKED-LOST open failed: {st.obs.acked.length} acknowledged, unpurged entries cannot be read back")
  | ["open", "=>", "ok", cl] =>
    match (kv [cl] "closed").bind parsePairs with
    | none => (st, .bad "open")
    | some closed =>
      let m := (F3.Wal.step cfg st.model .open).1
      let names := closed.map (·.1)
      let o := { st.obs with atOpen := names, active := none, files := names.foldl insertNew st.obs.files }
      let st' := { st with model := m, obs := o }
      if modelClosed m == closed then (st', .ok (if closed.isEmpty then "open_empty" else "open"))
      else (st', .diff s!"hydrate: model closed={showPairs (modelClosed m)}")
  | ["rotate", "=>", "ok"] | ["close", "=>", "ok"] =>
    ({ st with model := (F3.Wal.step cfg st.model .rotate).1, obs := { st.obs with active := none } }, .ok (toks.headD ""))
  | ["append", id, ep, len, "=>", "err"] =>
    match id.toNat?, ep.toNat?, len.toNat? with
    | some _, some _, some _ => (st, .diff "Append failed on the implementation")
    | _, _, _ => (st, .bad "append")
  | ["refuse", id, _, "=>", res, act, asz] =>
    -- an Append whose encoder fails part-way: refused, and nothing of it may reach the log; only the rotation
    -- check at the start of Append has its effect (`writeRec` with no bytes)
    match kv [act] "active", (kv [asz] "asize").bind (·.toNat?), st.model.mem with
    | some a, some asize, some mm =>
      if res != "err" then (st, .oracle s!"REFUSED-APPEND-ACKED id={id}: an Append whose encoding failed was acknowledged")
      else
        let (d, m1, _) := F3.Wal.writeRec cfg st.model.dir mm a []
        let st' := { st with model := { st.model with dir := d, mem := some m1 },
                             obs := { st.obs with active := some a, files := insertNew st.obs.files a } }
        match m1.active with
        | some ast =>
          if ast.name != a then (st', .diff s!"refused append: model's active file is {ast.name}")
          else if fileSize cfg ((d.get a).getD []) != asize then
            (st', .oracle s!"REFUSED-APPEND-LEFT-BYTES id={id} file={a}: the active file holds {asize} bytes, {fileSize cfg ((d.get a).getD [])} were acknowledged — a refused Append left part of its record in the log")
          else (st', .ok "append_refused")
        | none => (st', .diff "refused append: model has no active file")
    | _, _, _ => (st, .bad "refuse")
  | ["append", id, ep, len, "=>", "ok", act, asz] =>
    match id.toNat?, ep.toNat?, len.toNat?, kv [act] "active", (kv [asz] "asize").bind (·.toNat?) with
    | some id, some ep, some len, some a, some asize =>
      let o := st.obs
      let rotated := o.active != some a
      let orc : Option String :=
        if o.atOpen.contains a then some s!"OLDFILE-APPEND id={id} file={a}: a restarted log appended to a file that existed before the restart"
        else if rotated && o.files.contains a then some s!"OLDFILE-APPEND id={id} file={a}: rotation re-used an existing file"
        else none
      let o' := { o with acked := o.acked ++ [(id, ep, a)], active := some a, files := insertNew o.files a }
      let (m, r) := F3.Wal.step cfg st.model (.append ⟨id, ep, len⟩ a)
      let st' := { st with model := m, obs := o' }
      match orc with
      | some msg => (st', .oracle msg)
      | none =>
        match r, m.mem.bind (·.active) with
        | .ok, some ast =>
          if ast.name != a then (st', .diff s!"rotation decision differs: model writes to {ast.name}")
          else if fileSize cfg ((m.dir.get a).getD []) != asize then
            (st', .diff s!"active file size: model {fileSize cfg ((m.dir.get a).getD [])}")
          else (st', .ok (if rotated && o.active.isSome then "append_rotated_by_size" else if rotated then "append_newfile" else "append"))
        | _, _ => (st', .diff "model: append fails (name exists / not open)")
    | _, _, _, _, _ => (st, .bad "append")
  | ["crashappend", id, ep, len, n, "=>", act] =>
    match id.toNat?, ep.toNat?, len.toNat?, n.toNat?, kv [act] "active" with
    | some id, some ep, some len, some n, some a =>
      let o := st.obs
      let o' := { o with inflight := o.inflight ++ [id], active := none, files := insertNew o.files a,
                         torn := if 0 < n && n < len then insertNew o.torn a else o.torn,
                         inflightFull := if n ≥ len then o.inflightFull ++ [(id, ep, a)] else o.inflightFull }
      let (m, r) := F3.Wal.step cfg st.model (.crashAppend ⟨id, ep, len⟩ a (tokN n len))
      let st' := { st with model := m, obs := o' }
      match r with
      | .ok =>
        if m.inflight.getLast?.map (·.1) == some a then
          (st', .ok (if n = 0 then "torn_0" else if n < len then "torn_mid" else "torn_full"))
        else (st', .diff "crashappend: model writes to another file")
      | _ => (st', .diff "crashappend: model fails")
    | _, _, _, _, _ => (st, .bad "crashappend")
  | ["purge", k, "=>", "ok", cl, ls] =>
    match k.toNat?, (kv [cl] "closed").bind parsePairs, (kv [ls] "ls").bind parsePairs with
    | some k, some closed, some ls =>
      let o := st.obs
      let names := ls.map (·.1)
      let orc := oraclePurge o k names
      let removed := o.files.filter (fun f => !names.contains f)
      let o' := { o with acked := o.acked.filter (fun a => !removed.contains a.2.2),
                         inflightFull := o.inflightFull.filter (fun a => !removed.contains a.2.2), files := names }
      let m := (F3.Wal.step cfg st.model (.purge k)).1
      let st' := { st with model := m, obs := o' }
      match orc with
      | some msg => (st', .oracle msg)
      | none =>
        if modelClosed m != closed then (st', .diff s!"purge: model closed={showPairs (modelClosed m)}")
        else if (modelLs cfg m).map (fun p => if o.torn.contains p.1 then (p.1, 0) else p)
                != ls.map (fun p => if o.torn.contains p.1 then (p.1, 0) else p) then
          (st', .diff s!"purge: model ls={showPairs (modelLs cfg m)}")
        else (st', .ok (if removed.isEmpty then "purge_none" else "purge_removed"))
    | _, _, _ => (st, .bad "purge")
  | ["all", "=>", "err"] =>
    if st.obs.acked.isEmpty then (st, .diff "All() failed")
    else (st, .oracle s!"ACKED-LOST All() failed: {st.obs.acked.length} acknowledged, unpurged entries cannot be read back")
  | ["all", "=>", "ok", ids, cor] =>
    match parseNatList? ids, (kv [cor] "corrupt").bind (·.toNat?) with
    | some ids, some c =>
      if c > 0 then (st, .oracle s!"CORRUPT: {c} entries returned by All() differ from what was appended")
      else
        match oracleAll st.obs ids with
        | some msg => (st, .oracle msg)
        | none =>
          match (F3.Wal.step cfg st.model .all).2 with
          | .entries r =>
            if r.map (·.2.id) == ids then
              (st, .ok (if st.saved.isSome then "all_after_torn" else if ids.isEmpty then "all_empty" else "all"))
            else (st, .diff s!"All(): model {joinNat (r.map (·.2.id))}")
          | _ => (st, .diff "All(): model fails")
    | _, _ => (st, .bad "all")
  | _ => (st, .bad "unknown op")

end Driver.Wal

def main : IO UInt32 := Driver.runArea Driver.Wal.step {}
