import Driver.Util
import F3.Model.Equiv
/-! Driver for area `equiv` (C12).  Part (a): the real `equivocationFilter` against
`F3.Equiv.Filter.processBroadcast / processReceive` (sequences and complete state-space transitions).
Part (b): the real node (f3.F3: Broadcast, rebroadcast, restart with WAL replay, certificate-driven
purge) against `F3.Equiv.step`, plus the property oracle on the implementation's own observations:
what was handed to `Topic.Publish` (wire), whether it was already in the WAL at that moment, the filter
state after each restart. -/
namespace Driver.Equiv
open Driver F3.Equiv

structure St where
  f : Filter := Filter.new 2
  sawRecv : Bool := false
  accepted : List Msg := []
  sys : Sys := Sys.init 0
  wire : List Msg := []          -- observed
  obsWal : List Msg := []        -- last WAL content the implementation showed
  obsPurged : Nat := 0

def kv (toks : List String) (key : String) : Option String :=
  (toks.find? (·.startsWith (key ++ "="))).map (fun t => (t.drop (key.length + 1)).toString)

def parseMsg (s : String) : Option Msg :=
  match (s.splitOn ".").mapM (·.toNat?) with
  | some [i, sd, r, p, g] => some ⟨i, sd, r, p, g⟩
  | _ => none

def parseMsgs (s : String) : Option (List Msg) :=
  if s = "-" || s = "" then some [] else (s.splitOn ",").mapM parseMsg

def showMsg (m : Msg) : String := s!"{m.inst}.{m.sender}.{m.round}.{m.phase}.{m.sig}"
def showMsgs (l : List Msg) : String := if l.isEmpty then "-" else ",".intercalate (l.map showMsg)

def msgLe (a b : Msg) : Bool :=
  let ka := [a.inst, a.sender, a.round, a.phase, a.sig]
  let kb := [b.inst, b.sender, b.round, b.phase, b.sig]
  decide (ka ≤ kb)

def sortMsgs (l : List Msg) : List Msg := l.mergeSort msgLe

def parsePeer (s : String) : Option Nat :=
  if s = "L" then some 0 else if s = "X" then some 1 else s.toNat?

def showPeer (nodeMode : Bool) (p : Nat) : String :=
  if nodeMode then (if p = 0 then "L" else "X") else toString p

/-- dump = cur/seen/active -/
def parseDump (localPID : Nat) (s : String) : Option Filter :=
  match s.splitOn "/" with
  | [c, seen, act] => do
    let cur ← c.toNat?
    let seenL ← if seen = "-" then some [] else (seen.splitOn ",").mapM (fun e =>
      match e.splitOn "." with
      | [sd, r, p, g, o] => do
        let sd ← sd.toNat?; let r ← r.toNat?; let p ← p.toNat?; let g ← g.toNat?; let o ← parsePeer o
        some ((⟨sd, r, p⟩ : Key), (⟨g, o⟩ : Seen))
      | _ => none)
    let actL ← if act = "-" then some [] else (act.splitOn ",").mapM (fun e =>
      match e.splitOn ":" with
      | [sd, os, eq] => do
        let sd ← sd.toNat?
        let os ← if os = "_" then some [] else (os.splitOn ".").mapM parsePeer
        let eq ← eq.toNat?
        some (sd, (⟨os, eq != 0⟩ : Senders))
      | _ => none)
    some ⟨localPID, cur, seenL, actL⟩
  | _ => none

def keyLe (a b : Key × Seen) : Bool := decide ([a.1.sender, a.1.round, a.1.phase] ≤ [b.1.sender, b.1.round, b.1.phase])

def showDump (nodeMode : Bool) (f : Filter) : String :=
  let seen := (f.seen.mergeSort keyLe).map (fun (k, v) =>
    s!"{k.sender}.{k.round}.{k.phase}.{v.sig}.{showPeer nodeMode v.origin}")
  let act := (f.active.mergeSort (fun a b => decide (a.1 ≤ b.1))).map (fun (sd, v) =>
    let os := if v.origins.isEmpty then "_" else ".".intercalate (v.origins.map (showPeer nodeMode))
    s!"{sd}:{os}:{if v.equivocation then 1 else 0}")
  s!"{f.cur}/{if seen.isEmpty then "-" else ",".intercalate seen}/{if act.isEmpty then "-" else ",".intercalate act}"

/-- State-based oracle for one `ProcessBroadcast` answer (uses only the implementation's own dump). -/
def filterOracle (pre : Filter) (m : Msg) (res : Bool) : Option String :=
  if res && m.inst < pre.cur then
    some s!"FILTER-OLDER msg={showMsg m}: broadcast for instance {m.inst} allowed although the filter is at {pre.cur}"
  else if res && m.inst = pre.cur then
    match alookup m.key pre.seen with
    | some info =>
      if info.sig != m.sig && info.origin == pre.localPID then
        some s!"FILTER-EQUIVOCATION msg={showMsg m}: a different signature ({info.sig}) of this node is already recorded for the slot"
      else none
    | none => none
  else none

def parsePubs (s : String) : Option (List (Option Msg × Bool)) :=
  if s = "-" then some [] else (s.splitOn ",").mapM (fun e =>
    match e.splitOn ":" with
    | ["unknown", _] => some (none, false)
    | [m, w] => (parseMsg m).map (fun m => (some m, w == "1"))
    | _ => none)

/-- Property oracle on a batch of publishes observed during one operation. -/
def wireOracle (wire : List Msg) (purged : Nat) (rebroadcast : Bool) :
    List (Option Msg × Bool) → List Msg × Option String
  | [] => (wire, none)
  | (none, _) :: _ => (wire, some "UNKNOWN-PUBLISH: the node published bytes that are none of the requested messages")
  | (some m, inwal) :: rest =>
    match wire.find? (fun w => w.slot == m.slot && w.sig != m.sig) with
    | some w => (wire ++ [m], some s!"EQUIVOCATION slot=({m.inst},{m.sender},{m.round},{m.phase}): signature {m.sig} published, {w.sig} was published before")
    | none =>
      match wire.find? (fun w => w.inst > m.inst) with
      | some w => (wire ++ [m], some s!"OLDER-INSTANCE msg={showMsg m}: published after a message for instance {w.inst}")
      | none =>
        if !inwal && !(rebroadcast && m.inst < purged) then
          (wire ++ [m], some s!"PUBLISH-BEFORE-RECORD msg={showMsg m}: not in the WAL when handed to Topic.Publish")
        else wireOracle (wire ++ [m]) purged rebroadcast rest

/-- After a restart every unpurged message on the wire must guard the filter again. -/
def rearmOracle (wire : List Msg) (purged : Nat) (f : Filter) : Option String :=
  match wire.find? (fun w => w.inst ≥ purged && (w.inst > f.cur ||
      (w.inst == f.cur && (alookup w.key f.seen).map (·.sig) != some w.sig))) with
  | some w => some s!"REARM-MISSING msg={showMsg w}: on the wire and not purged, but the restarted filter (instance {f.cur}) does not hold it"
  | none => none

def sameMulti (a b : List Msg) : Bool := sortMsgs a == sortMsgs b

def mkMsg? (i s r p g : String) : Option Msg := do
  some ⟨← i.toNat?, ← s.toNat?, ← r.toNat?, ← p.toNat?, ← g.toNat?⟩

def step (st : St) (line : String) : St × Verdict :=
  let toks := splitWs line
  match toks with
  | ["fnew", l] =>
    match (kv [l] "local").bind (·.toNat?) with
    | some n => ({ st with f := Filter.new n, sawRecv := false, accepted := [] }, .skip)
    | none => (st, .bad "fnew")
  | ["pb", i, s, r, p, g, "=>", res, d] =>
    match mkMsg? i s r p g, parseBool? res, kv [d] "st" with
    | some m, some res, some d =>
      let (f', ok) := st.f.processBroadcast m
      let st' := { st with f := f', accepted := if res then st.accepted ++ [m] else st.accepted }
      -- history-based oracle for purely local histories
      let hist : Option String :=
        if res && !st.sawRecv then
          match st.accepted.find? (fun a => a.slot == m.slot && a.sig != m.sig) with
          | some a => some s!"FILTER-EQUIVOCATION msg={showMsg m}: allowed after {showMsg a} with no foreign message seen"
          | none =>
            match st.accepted.find? (fun a => a.inst > m.inst) with
            | some a => some s!"FILTER-OLDER msg={showMsg m}: allowed after {showMsg a}"
            | none => none
        else none
      match (filterOracle st.f m res).orElse (fun _ => hist) with
      | some msg => (st', .oracle msg)
      | none =>
        if ok != res then (st', .diff s!"ProcessBroadcast: model {ok}")
        else if showDump false f' != d then (st', .diff s!"filter state: model {showDump false f'}")
        else (st', .ok (if res then "pb_allow" else if m.inst < st.f.cur then "pb_deny_past" else "pb_deny_conflict"))
    | _, _, _ => (st, .bad "pb")
  | ["pb", _, _, _, _, _, "=>", "panic"] => (st, .diff "ProcessBroadcast panicked")
  | ["pr", pe, i, s, r, p, g, "=>", d] =>
    match pe.toNat?, mkMsg? i s r p g, kv [d] "st" with
    | some pe, some m, some d =>
      let f' := st.f.processReceive pe m
      let st' := { st with f := f', sawRecv := true }
      if showDump false f' != d then (st', .diff s!"filter state after receive: model {showDump false f'}")
      else (st', .ok (if f' == st.f then "pr_noop" else "pr_effect"))
    | _, _, _ => (st, .bad "pr")
  | ["fx", pre, "pb", i, s, r, p, g, "=>", res, post] =>
    match parseDump st.f.localPID pre, mkMsg? i s r p g, parseBool? res with
    | some f, some m, some res =>
      let (f', ok) := f.processBroadcast m
      match filterOracle f m res with
      | some msg => (st, .oracle msg)
      | none =>
        if ok != res then (st, .diff s!"ProcessBroadcast: model {ok}")
        else if showDump false f' != post then (st, .diff s!"filter state: model {showDump false f'}")
        else (st, .ok (if res then "fx_pb_allow" else "fx_pb_deny"))
    | _, _, _ => (st, .bad "fx pb")
  | ["fx", pre, "pr", pe, i, s, r, p, g, "=>", _, post] =>
    match parseDump st.f.localPID pre, pe.toNat?, mkMsg? i s r p g with
    | some f, some pe, some m =>
      let f' := f.processReceive pe m
      if showDump false f' != post then (st, .diff s!"filter state after receive: model {showDump false f'}")
      else (st, .ok "fx_pr")
    | _, _, _ => (st, .bad "fx pr")
  -- part (b)
  | "ecfg" :: _ => (st, .skip)
  | ["ehist", _] => ({ st with sys := Sys.init 0, wire := [], obsWal := [], obsPurged := 0 }, .skip)
  | ["stop"] => ({ st with sys := F3.Equiv.step st.sys .stop }, .ok "stop")
  | "start" :: kind :: cert :: "=>" :: "err" :: _ => (st, .diff s!"node failed to start ({kind} {cert})")
  | ["start", kind, cert, "=>", cur, seen, act, self, wal] =>
    match kv [kind] "kind", kv [cert] "cert", kv [cur] "cur", kv [seen] "seen", kv [act] "active",
          (kv [self] "self").bind parseMsgs, (kv [wal] "wal").bind parseMsgs with
    | some kind, some cert, some cur, some seen, some act, some self, some wal =>
      match parseDump 0 s!"{cur}/{seen}/{act}" with
      | none => (st, .bad "start dump")
      | some obsF =>
        let s1 := F3.Equiv.step st.sys .restart
        let (s2, purged) : Sys × Nat :=
          match cert.toNat? with
          | some c =>
            let s' := if c > 5 then F3.Equiv.step s1 (.purge (c - 5) wal) else s1
            (F3.Equiv.step s' (.trim c), if c > 5 then max st.obsPurged (c - 5) else st.obsPurged)
          | none => (s1, st.obsPurged)
        let st' := { st with sys := s2, obsWal := wal, obsPurged := purged }
        match rearmOracle st.wire purged obsF with
        | some msg => (st', .oracle msg)
        | none =>
          match st.obsWal.find? (fun e => e.inst ≥ purged && !wal.contains e) with
          | some e => (st', .oracle s!"WAL-LOST entry={showMsg e}: in the WAL before the restart, at or above the purge epoch {purged}, gone after it")
          | none =>
            if showDump true s2.filter != s!"{cur}/{seen}/{act}" then (st', .diff s!"re-armed filter: model {showDump true s2.filter}")
            else if !sameMulti s2.self self then (st', .diff s!"selfMessages after restart: model {showMsgs (sortMsgs s2.self)}")
            else if !sameMulti s2.wal wal then (st', .diff s!"WAL after restart: model {showMsgs s2.wal}")
            else (st', .ok s!"start_{kind}{if s2.wal == wal then "" else "_reordered"}")
    | _, _, _, _, _, _, _ => (st, .bad "start")
  | ["bc", i, s, r, p, g, crash, "=>", pub, wal] =>
    match mkMsg? i s r p g, kv [crash] "crash", (kv [pub] "pub").bind parsePubs, (kv [wal] "wal").bind parseMsgs with
    | some m, some crash, some pubs, some wal =>
      if m.inst < st.sys.floor then (st, .bad "generator: request below the floor") else
      let c : Nat := if crash = "0" then 0 else if crash = "A" || crash = "T" then 1 else 3
      let s' := F3.Equiv.step st.sys (.broadcast m c)
      let (wire', orc) := wireOracle st.wire st.obsPurged false pubs
      let st' := { st with sys := s', wire := wire', obsWal := wal }
      match orc with
      | some msg => (st', .oracle msg)
      | none =>
        let mpubs := s'.wire.drop st.sys.wire.length
        if mpubs != pubs.filterMap (·.1) then (st', .diff s!"published: model {showMsgs mpubs}")
        else if !sameMulti s'.wal wal then (st', .diff s!"WAL: model {showMsgs s'.wal}")
        else
          let conflict := st.wire.any (fun w => w.slot == m.slot && w.sig != m.sig)
          let tag := if !pubs.isEmpty then (if st.wire.contains m then "bc_dup_allowed" else "bc_allowed")
                     else if crash = "A" then "bc_crash_before_record"
                     else if crash = "T" then "bc_crash_torn_record"
                     else if conflict then "bc_denied_conflict"
                     else if st.wire.any (fun w => w.inst > m.inst) then "bc_denied_past" else "bc_denied_other"
          (st', .ok (if crash = "0" || crash = "A" || crash = "T" then tag else tag ++ "_crash" ++ crash))
    | _, _, _, _ => (st, .bad "bc")
  | ["rb", i, r, p, "=>", pub] =>
    match i.toNat?, r.toNat?, p.toNat?, (kv [pub] "pub").bind parsePubs with
    | some i, some r, some p, some pubs =>
      if i < st.sys.floor then (st, .bad "generator: rebroadcast below the floor") else
      let s' := F3.Equiv.step st.sys (.rebroadcast i r p)
      let (wire', orc) := wireOracle st.wire st.obsPurged true pubs
      let st' := { st with sys := s', wire := wire' }
      match orc with
      | some msg => (st', .oracle msg)
      | none =>
        let mpubs := s'.wire.drop st.sys.wire.length
        if mpubs != pubs.filterMap (·.1) then (st', .diff s!"rebroadcast: model {showMsgs mpubs}")
        else (st', .ok (if pubs.isEmpty then "rb_none" else "rb_published"))
    | _, _, _, _ => (st, .bad "rb")
  | "cert" :: c :: "=>" :: "err" :: _ => (st, .diff s!"certificate {c} could not be stored / handled")
  | ["cert", c, "=>", wal, self] =>
    match c.toNat?, (kv [wal] "wal").bind parseMsgs, (kv [self] "self").bind parseMsgs with
    | some c, some wal, some self =>
      let k := if c > 5 then c - 5 else 0
      let s1 := if c > 5 then F3.Equiv.step st.sys (.purge k wal) else st.sys
      let s2 := F3.Equiv.step s1 (.trim c)
      let st' := { st with sys := s2, obsWal := wal, obsPurged := max st.obsPurged k }
      match st.obsWal.find? (fun e => e.inst ≥ k && !wal.contains e) with
      | some e => (st', .oracle s!"PURGE-LOST cert={c} entry={showMsg e}: WAL entry at or above the purge epoch {k} removed")
      | none =>
        match wal.find? (fun e => !st.obsWal.contains e) with
        | some e => (st', .oracle s!"WAL-PHANTOM entry={showMsg e}: appeared in the WAL without a broadcast")
        | none =>
          if !sameMulti s2.wal wal then (st', .diff s!"WAL after purge: model {showMsgs s2.wal}")
          else if !sameMulti s2.self self then (st', .diff s!"selfMessages after certificate: model {showMsgs (sortMsgs s2.self)}")
          else (st', .ok (if wal.length < st.obsWal.length then "cert_purged" else "cert"))
    | _, _, _ => (st, .bad "cert")
  | _ => (st, .bad "unknown op")

end Driver.Equiv

def main : IO UInt32 := Driver.runArea Driver.Equiv.step {}
