import Driver.Util
import F3.Model.Inputs
import F3.Spec.Inputs
/-! Driver for area `inputs` (C15, C19b). Replays `h_inputs`'s log through `F3.Inputs` and evaluates
the executable statements of the properties on the real component's answers:

* `PROPOSAL-SHAPE` — a proposal that does not start at the finalized head / bootstrap tipset, is not
  a parent chain towards the EC head, has wrong epochs or power-table CIDs, exceeds the configured or
  protocol length, or whose supplemental data does not commit to the next committee;
* `COMMITTEE-RULE` — a committee that is not the one determined by the finalized history;
* `CERTCHAIN-…` — the certificate-chain generator derives a different committee than the node from
  the same certificates, rejects a chain the node produced, or cannot generate at all. -/
namespace Driver.Inputs
open Driver F3 F3.Inputs

abbrev KV := List (String × String)

def parseKV (toks : List String) : KV :=
  toks.filterMap fun t =>
    match t.splitOn "=" with
    | [k, v] => some (k, v)
    | _ => none

def geti (kv : KV) (k : String) : Option Int := (kv.lookup k).bind (·.toInt?)
def getn (kv : KV) (k : String) : Option Nat := (kv.lookup k).bind (·.toNat?)
def gets (kv : KV) (k : String) : String := (kv.lookup k).getD ""

structure St where
  m : Manifest := { initialInstance := 0, bootstrapEpoch := 0, finality := 0, headLookback := 0, period := 1,
                    chainProposedLength := 1, committeeLookback := 1 }
  store : Store := { first := 0, initialTable := 0, certs := [] }
  ec : EC := { blocks := [], head := 0 }
  now : Int := 0
  ccCerts : Nat := 0      -- certificates the certchain inst holds (validated so far / generated)
  kind : String := ""
  mode : String := "all"

def parseBlock (canon : List Nat) (s : String) : Option Block :=
  match s.splitOn ":" with
  | [e, p, pt, t] =>
    match e.toInt?, p.toInt?, pt.toNat?, t.toInt? with
    | some e, some p, some pt, some t =>
      some { epoch := e, parent := if p < 0 then none else some p.toNat, pt := canon.getD pt pt, time := t }
    | _, _, _, _ => none
  | _ => none

def parseTip (s : String) : Option Tip :=
  match s.splitOn ":" with
  | [k, e, pt] =>
    match k.toInt?, e.toInt?, pt.toNat? with
    | some k, some e, some pt => if k < 0 then none else some { key := k.toNat, epoch := e, pt := pt }
    | _, _, _ => none
  | _ => none

def showTips (l : List Tip) : String := ",".intercalate (l.map fun t => s!"{t.key}:{t.epoch}:{t.pt}")

def resKind {α : Type} : Res α → String
  | .ok _ => "ok"
  | .err k => k

/-- committee part of a line: tokens after `=>` -/
def parseCommittee (toks : List String) : Option (Res Committee) :=
  match toks with
  | ["ok", t, b] =>
    match getn (parseKV [t]) "table", geti (parseKV [b]) "beacon" with
    | some t, some b => if b < 0 then none else some (.ok { table := t, beacon := b.toNat })
    | _, _ => none
  | [k] => some (.err k)
  | _ => none

def sameCommittee : Res Committee → Res Committee → Bool
  | .ok a, .ok b => a == b
  | .err a, .err b => a == b
  | _, _ => false

def showCommittee : Res Committee → String
  | .ok c => s!"table {c.table} beacon-of-tipset {c.beacon}"
  | .err k => s!"error {k}"

/-- the model's certchain; its look-back index `certchainLookbackIndexHand` is proved equal to the
expression regenerated from `certchain.go` (`F3.Props.C19.certchain_index_is_regenerated`) — the driver
itself does not link generated code, so that it cannot be built against another working tree's
regeneration when several checks run concurrently -/
def ccModel (st : St) (inst : Nat) : Res Committee :=
  let idx := certchainLookbackIndexHand st.m.committeeLookback st.m.initialInstance inst
  certchainCommittee st.m idx (st.store.certs.take st.ccCerts) st.ec inst

def stepAll (st : St) (line : String) : St × Verdict :=
  let toks := splitWs line
  match toks with
  | ["mode", m] => ({ st with mode := m }, .skip)
  | "scenario" :: rest =>
    ({ kind := gets (parseKV rest) "kind", mode := st.mode }, .skip)
  | "cfg" :: rest =>
    let kv := parseKV rest
    match getn kv "initial", geti kv "bootstrap", geti kv "finality", getn kv "headlookback", geti kv "period",
          geti kv "cpl", getn kv "lookback", getn kv "inittable" with
    | some i, some b, some f, some hl, some p, some cpl, some lb, some it =>
      ({ st with m := { initialInstance := i, bootstrapEpoch := b, finality := f, headLookback := hl, period := p,
                        chainProposedLength := cpl, committeeLookback := lb },
                 store := { first := i, initialTable := it, certs := [] }, ccCerts := 0 }, .skip)
    | _, _, _, _, _, _, _, _ => (st, .bad "parse cfg")
  | "tree" :: rest =>
    let kv := parseKV rest
    match parseNatList? (gets kv "canon") with
    | some canon =>
      match ((gets kv "blocks").splitOn ",").mapM (parseBlock canon) with
      | some bs => ({ st with ec := { blocks := bs, head := 0 } }, .skip)
      | none => (st, .bad "parse tree")
    | none => (st, .bad "parse canon")
  | "head" :: rest =>
    let kv := parseKV rest
    match getn kv "id", geti kv "now" with
    | some id, some now => ({ st with ec := { st.ec with head := id }, now := now }, .skip)
    | _, _ => (st, .bad "parse head")
  | "prop" :: i :: "=>" :: res =>
    match getn (parseKV [i]) "inst" with
    | none => (st, .bad "parse prop")
    | some inst =>
      let model := getProposal st.m st.store st.ec st.now inst
      match res with
      | ["ok", supp, chain] =>
        match getn (parseKV [supp]) "supp", ((gets (parseKV [chain]) "chain").splitOn ",").mapM parseTip with
        | some supp, some tips =>
          -- the property's executable statement on the implementation's answer
          match Spec.Inputs.proposalShape st.m st.store st.ec inst supp tips with
          | some msg => (st, .oracle s!"PROPOSAL-SHAPE inst {inst}: {msg} — proposed {showTips tips} supp {supp}, EC head {st.ec.head}")
          | none =>
            match model with
            | .ok (msupp, mtips) =>
              if msupp == supp && mtips == tips then
                let tag := if tips.length == 1 then "prop_base_only"
                  else if decide ((tips.length : Int) = min ChainMaxLen st.m.chainProposedLength) then "prop_max_len"
                  else "prop_chain"
                (st, .ok tag)
              else if mtips != tips then
                (st, .oracle s!"PROPOSAL-SHAPE inst {inst}: proposal is {showTips tips}; along the EC head's parent chain, after look-back/freshness/length trimming, it must be {showTips mtips}")
              else (st, .oracle s!"PROPOSAL-SHAPE inst {inst}: supplemental data commits to table {supp}, the next committee's table is {msupp}")
            | .err k => (st, .diff s!"GetProposal({inst}) succeeded, model says error {k}")
        | _, _ => (st, .bad "parse prop result")
      | [k] =>
        match model with
        | .err mk => if mk == k then (st, .ok ("prop_err_" ++ k)) else (st, .diff s!"GetProposal({inst}) error {k}, model error {mk}")
        | .ok (_, mtips) => (st, .diff s!"GetProposal({inst}) error {k}, model proposes {showTips mtips}")
      | _ => (st, .bad "parse prop")
  | "comm" :: i :: "=>" :: res =>
    match getn (parseKV [i]) "inst", parseCommittee res with
    | some inst, some r =>
      let model := getCommittee st.m st.store st.ec inst
      if sameCommittee model r then
        (st, .ok (match r with
          | .ok _ => if inst < st.m.initialInstance + st.m.committeeLookback then "comm_bootstrap"
                     else if (st.store.powerTable inst).isSome then "comm_store_table" else "comm_ec_fallback"
          | .err k => "comm_err_" ++ k))
      else match model, r with
        | .ok _, .ok _ => (st, .oracle s!"COMMITTEE-RULE inst {inst}: node derived {showCommittee r}; the finalized history determines {showCommittee model}")
        | _, _ => (st, .diff s!"GetCommittee({inst}) = {showCommittee r}, model {showCommittee model}")
    | _, _ => (st, .bad "parse comm")
  | "put" :: rest =>
    let kv := parseKV (rest.filter (· != "=>"))
    match getn kv "inst", geti kv "base", geti kv "head", getn kv "supp" with
    | some inst, some b, some h, some supp =>
      let res := rest.getLast?.getD ""
      if res != "ok" then (st, .ok ("put_rejected_" ++ res))
      else if inst != st.store.first + st.store.certs.length then (st, .diff s!"store accepted inst {inst}, model expects {st.store.first + st.store.certs.length}")
      else if b < 0 || h < 0 then (st, .diff "certificate names a tipset EC does not know")
      else
        let st' := { st with store := { st.store with certs := st.store.certs ++ [({ base := b.toNat, head := h.toNat, supp := supp } : Cert)] } }
        -- a generated chain is held by certchain from the start
        ({ st' with ccCerts := if st.kind == "gen" then st'.store.certs.length else st.ccCerts }, .ok "put")
    | _, _, _, _ => (st, .bad "parse put")
  | "save" :: i :: "=>" :: res :: rest =>
    -- C03: the host's real saveDecision on a decision signed by every member with power
    let kv := parseKV rest
    let inst := (getn (parseKV [i]) "inst").getD 0
    if res != "ok" then
      (st, .oracle s!"C03-HOST-SAVE-FAILED inst {inst}: saveDecision answered {res} for a well-formed decision of the instance's committee")
    else if getn kv "certeq" != some 1 then
      (st, .oracle s!"C03-HOST-CERTIFICATE-DIFFERS inst {inst}: the certificate the host formed is not the decision with the canonical delta between the committees of instances {inst} and {inst + 1}")
    else if getn kv "stored" != some 1 then
      (st, .oracle s!"C03-HOST-CERTIFICATE-NOT-STORED inst {inst}: the certificate returned by saveDecision is not what the store holds")
    else if (rest.find? (·.startsWith "valid=")) != some "valid=ok" then
      (st, .oracle s!"C03-HOST-CERTIFICATE-REJECTED inst {inst}: a node holding the same power table rejects it ({rest.getLast?.getD ""})")
    else (st, .ok "save_ok")
  | "ccv" :: _ :: "=>" :: [res] =>
    if res == "ok" then ({ st with ccCerts := st.ccCerts + 1 }, .ok "ccv_ok")
    else (st, .oracle s!"CERTCHAIN-REJECTS-NODE-CHAIN certchain.Validate answered {res} for a certificate the node's own rules produced and its store accepted (inst {st.store.first + st.store.certs.length - 1}, look-back {st.m.committeeLookback}, initial inst {st.m.initialInstance})")
  | "ccgen" :: _ :: "=>" :: [res] =>
    if res == "ok" then (st, .ok "ccgen_ok")
    else (st, .oracle s!"CERTCHAIN-CANNOT-GENERATE certchain.Generate answered {res} with look-back {st.m.committeeLookback}, initial inst {st.m.initialInstance}")
  | "cmp" :: i :: "node" :: "=>" :: rest =>
    match getn (parseKV [i]) "inst" with
    | none => (st, .bad "parse cmp")
    | some inst =>
      let nodeToks := rest.takeWhile (· != ";")
      let ccToks := (rest.dropWhile (· != ";")).drop 3
      match parseCommittee nodeToks, parseCommittee ccToks with
      | some nr, some cr =>
        let nm := getCommittee st.m st.store st.ec inst
        let cm := ccModel st inst
        match nr, cr with
        | .ok a, .ok b =>
          if a != b then
            (st, .oracle s!"CERTCHAIN-COMMITTEE-MISMATCH inst {inst} (look-back {st.m.committeeLookback}, initial {st.m.initialInstance}, {st.store.certs.length} certificates): node derives {showCommittee nr}, certchain derives {showCommittee cr}")
          else if !(sameCommittee nm nr) then (st, .diff s!"node committee {showCommittee nr}, model {showCommittee nm}")
          else if !(sameCommittee cm cr) then (st, .diff s!"certchain committee {showCommittee cr}, model {showCommittee cm}")
          else (st, .ok (if inst < st.m.initialInstance + st.m.committeeLookback then "cmp_bootstrap" else "cmp_equal"))
        | .ok _, .err k =>
          (st, .oracle s!"CERTCHAIN-COMMITTEE-MISMATCH inst {inst} (look-back {st.m.committeeLookback}, initial {st.m.initialInstance}, {st.store.certs.length} certificates): node derives {showCommittee nr}, certchain fails with {k}")
        | .err _, _ =>
          if !(sameCommittee nm nr) then (st, .diff s!"node committee {showCommittee nr}, model {showCommittee nm}")
          else if !(sameCommittee cm cr) then (st, .diff s!"certchain committee {showCommittee cr}, model {showCommittee cm}")
          else (st, .ok "cmp_node_err")
      | _, _ => (st, .bad "parse cmp committees")
  | _ => (st, .bad "unknown op")

/-- `h_inputs` serves two properties. A run made for one of them leaves oracle failures that belong
to the other to that property's own check (they are counted in the histogram, not hidden). -/
def step (st : St) (line : String) : St × Verdict :=
  let (st', v) := stepAll st line
  match v with
  | .oracle msg =>
    let isCertchain := msg.startsWith "CERTCHAIN"
    let isHost := msg.startsWith "C03-"
    if st.mode == "c03" then (if isHost then (st', v) else (st', .ok "oracle_failure_belonging_to_C15_or_C19"))
    else if isHost then (st', .ok "oracle_failure_belonging_to_C03")
    else if st.mode == "c15" && isCertchain then (st', .ok "oracle_failure_belonging_to_C19")
    else if st.mode == "c19" && !isCertchain then (st', .ok "oracle_failure_belonging_to_C15")
    else (st', v)
  | _ => (st', v)

end Driver.Inputs

def main : IO UInt32 := Driver.runArea Driver.Inputs.step {}
